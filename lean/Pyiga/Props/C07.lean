/-
Property C07 — geometry maps evaluate consistently on every route and constructions are exact.
Property theorems only (helper lemmas: Proofs/Jet.lean, Proofs/Geometry.lean).

Everything is stated over an arbitrary field `K`, for every number of source dimensions
(lists of axes of any length), every number of basis functions per axis and every target
dimension.  The 1-D B-spline values are inputs (`Info` rows / dense rows); the facts used
about them are named hypotheses: `Fits` (active window inside the basis), `PU` (partition of
unity at the evaluation point), a unit row at an interpolatory end — these are C02's theorems.
-/
import Pyiga.Proofs.GeoLists
import Pyiga.Proofs.Arcs
import Pyiga.Proofs.Compose
import Mathlib.Tactic.NormNum
import Mathlib.Data.List.Induction
import Mathlib.Algebra.Field.Rat

namespace Pyiga.Props.C07
open Pyiga.Geo Pyiga.Jet Pyiga.Index

variable {K : Type} [Field K]

/-! ## 1. NURBS = quotient in the second-order jet algebra -/

/-- every jet with non-zero value is a unit of the jet algebra -/
theorem jet_mul_inv (b : Jet K) (hb : b.v ≠ 0) : Jet.mul b (Jet.inv b) = Jet.const 1 :=
  mul_inv_cancel' b hb

/-- `(a / b) * b = a`: the jet quotient is the jet of the quotient -/
theorem jet_div_mul_cancel (a b : Jet K) (hb : b.v ≠ 0) : Jet.mul (Jet.div a b) b = a :=
  div_mul_cancel' a b hb

/-- … and it is the only jet `q` with `q * W = V` -/
theorem nurbs_jet_unique (q V W : Jet K) (hW : W.v ≠ 0) (h : Jet.mul q W = V) : q = Jet.div V W :=
  eq_div_of_mul_eq q V W hW h

/-- gradient of a jet in the library's Jacobian-row layout (`n` columns) -/
def packG (n : Nat) (J : Jet K) : List K := (List.range n).map J.g

/-- Hessian of a jet in the library's packed layout (`np.triu_indices(n)` order) -/
def packH (n : Nat) (J : Jet K) : List K := (triu n).map (fun p => J.h p.1 p.2)

theorem packG_getD (n : Nat) (J : Jet K) (b : Nat) (hb : b < n) : (packG n J).getD b 0 = J.g b := by
  simp [packG, List.getD_eq_getElem?_getD, hb]

/-- **nurbs_jet.**  Feed `geometry._nurbs_jacobian` / `NurbsFunc.grid_hessian` with the
values, Jacobian rows and packed Hessians of the numerator splines `V₁…V_d` and of the weight
spline `W` (any number `n` of source dimensions, any `d`): the outputs are exactly the values,
Jacobian rows and packed Hessians of the jet quotients `Vᵢ / W`. -/
theorem nurbs_jet (n : Nat) (Vs : List (Jet K)) (W : Jet K) (hW : W.v ≠ 0) :
    nurbsValue (Vs.map (·.v) ++ [W.v]) = Vs.map (fun V => (Jet.div V W).v) ∧
    nurbsJacobian (Vs.map (·.v) ++ [W.v]) (Vs.map (packG n) ++ [packG n W])
      = Vs.map (fun V => packG n (Jet.div V W)) ∧
    nurbsHessian n (Vs.map (·.v) ++ [W.v]) (Vs.map (packG n) ++ [packG n W])
        (Vs.map (packH n) ++ [packH n W])
      = Vs.map (fun V => packH n (Jet.div V W)) := by
  have hJ : nurbsJacobian (Vs.map (·.v) ++ [W.v]) (Vs.map (packG n) ++ [packG n W])
      = Vs.map (fun V => packG n (Jet.div V W)) := by
    simp only [nurbsJacobian, List.getLastD_concat, List.dropLast_concat, List.zip_map', List.map_map]
    apply List.map_congr_left
    intro V _
    simp only [Function.comp, packG, List.zip_map', List.map_map]
    apply List.map_congr_left
    intro m _
    simp only [Function.comp]
    rw [div_g V W hW]
  refine ⟨?_, hJ, ?_⟩
  · simp only [nurbsValue, List.getLastD_concat, List.dropLast_concat, List.map_map]
    apply List.map_congr_left
    intro V _
    simp only [Function.comp, div_v]
  · unfold nurbsHessian
    simp only []
    rw [hJ]
    simp only [List.getLastD_concat, List.dropLast_concat, List.zip_map', List.map_map]
    apply List.map_congr_left
    intro V _
    simp only [Function.comp, packH]
    have hz : (triu n).zip (List.map (fun a => (V.h a.1 a.2, W.h a.1 a.2)) (triu n))
        = (triu n).map (fun a => (a, (V.h a.1 a.2, W.h a.1 a.2))) := by
      conv_lhs => lhs; rw [← List.map_id (triu n)]
      rw [List.zip_map']
      simp
    rw [List.zip_map', hz, List.map_map]
    apply List.map_congr_left
    intro p hp
    obtain ⟨ha, hb⟩ := mem_triu hp
    simp only [Function.comp]
    rw [packG_getD n (Jet.div V W) p.2 hb, packG_getD n (Jet.div V W) p.1 ha, packG_getD n W p.1 ha,
      packG_getD n W p.2 hb]
    simp only [Jet.div, Jet.mul, Jet.inv]
    field_simp
    ring

/-- the order in which `BSplineFunc.grid_hessian` fills its last axis
(`for i in reversed(range(sdim)): for j in reversed(range(i+1))`) is `np.triu_indices(sdim)`
in the x-first variable numbering `a = sdim-1-i` — the order `NurbsFunc.grid_hessian` assumes
when it linearises `mat[..., I, J]` — for every `sdim`. -/
theorem hess_packing (n : Nat) :
    (hessPairs n).map (fun p => (n - 1 - p.1, n - 1 - p.2)) = triu n := hessPairs_eq_triu n

example : triu 3 = [(0,0),(0,1),(0,2),(1,1),(1,2),(2,2)] := by decide
example : hessPairs 2 = [(1,1),(1,0),(0,0)] := by decide

/-! ## 2. all evaluation routes denote the same tensor-product sum -/

/-- a sum over the whole basis against a CSR row that is zero outside the active window is
the sum over the window (grid route vs. scattered route, one axis) -/
theorem window_eq_dense (n first m : Nat) (w g : Nat → K) (h : first + m ≤ n) :
    sumTo n (fun i => (if first ≤ i ∧ i < first + m then w (i - first) else 0) * g i)
      = sumTo m (fun l => w l * g (first + l)) := sumTo_window n first m w g h

/-- `XY[sdim-1-d]` is the reversal of the point's coordinate list for every `sdim` -/
theorem axis_map_is_reversal {X : Type} [Inhabited X] (pts : List X) : axisMap pts = pts.reverse :=
  axisMap_eq_reverse pts

/-- **routes_agree.**  For every source dimension (any list of axes), every derivative
pattern `D` and every component `j`: scattered evaluation at the point `pts` (xyz order),
single-point evaluation `f(*pts)` and grid evaluation at the node with coordinates
`reverse pts` (zyx order) are the same nested sum `Σ_I c_I Π_k N_{I_k}` (`contract`). -/
theorem routes_agree {X : Type} [Inhabited X] (S : Spl K) (B : Nat → X → Info K) (pts : List X)
    (D : List Nat) (j : Nat) (h : Fits B 0 S.dims pts.reverse) :
    S.pwD B pts D j = S.gridD B pts.reverse D j ∧
    S.pwVal B pts j = S.gridVal B pts.reverse j ∧
    S.call B pts j = S.gridVal B pts.reverse j := by
  have key : ∀ D, S.pwD B pts D j = S.gridD B pts.reverse D j := by
    intro D
    unfold Spl.pwD Spl.gridD
    rw [axisMap_eq_reverse]
    exact contractWin_eq_contract B S.c S.ncomp j S.dims pts.reverse D 0 0 h
  exact ⟨key D, key _, rfl⟩

/-- the Jacobian row written by slot assignment `result[..., sdim-i-1]` (scattered routes)
is the row stacked from `reversed(range(sdim))` (grid route), for every `sdim` -/
theorem jac_columns_agree {X : Type} [Inhabited X] (S : Spl K) (B : Nat → X → Info K) (pts : List X)
    (j : Nat) (h : Fits B 0 S.dims pts.reverse) :
    S.pwJacRow B pts j = S.gridJacRow B pts.reverse j := by
  unfold Spl.pwJacRow Spl.gridJacRow
  rw [slotAssign_eq]
  apply List.map_congr_left
  intro i _
  exact (routes_agree S B pts (unitD S.sdim i) j h).1

/-- column `m` of a Jacobian row is the derivative along coefficient axis `sdim-1-m`
(x first) -/
theorem jac_column_meaning {X : Type} (S : Spl K) (B : Nat → X → Info K) (ys : List X) (j m : Nat)
    (hm : m < S.sdim) :
    (S.gridJacRow B ys j)[m]? = some (S.gridD B ys (unitD S.sdim (S.sdim - 1 - m)) j) := by
  unfold Spl.gridJacRow
  rw [List.getElem?_map, List.getElem?_reverse (by simpa using hm), List.length_range,
    List.getElem?_range (by omega)]
  rfl


/-- **NURBS routes agree**: `NurbsFunc.pointwise_eval / pointwise_jacobian` (scattered),
`__call__` and `grid_eval / grid_jacobian` apply the same quotient formulas to B-spline
values/Jacobian rows that agree by `routes_agree` / `jac_columns_agree`; hence they return the
same values and Jacobians, for every source dimension and every number of components. -/
theorem nurbs_routes_agree {X : Type} [Inhabited X] (S : Spl K) (B : Nat → X → Info K) (pts : List X)
    (h : Fits B 0 S.dims pts.reverse) :
    nurbsValue ((List.range S.ncomp).map (S.pwVal B pts))
      = nurbsValue ((List.range S.ncomp).map (S.gridVal B pts.reverse)) ∧
    nurbsValue ((List.range S.ncomp).map (S.call B pts))
      = nurbsValue ((List.range S.ncomp).map (S.gridVal B pts.reverse)) ∧
    nurbsJacobian ((List.range S.ncomp).map (S.pwVal B pts)) ((List.range S.ncomp).map (S.pwJacRow B pts))
      = nurbsJacobian ((List.range S.ncomp).map (S.gridVal B pts.reverse))
          ((List.range S.ncomp).map (S.gridJacRow B pts.reverse)) := by
  have hv : (List.range S.ncomp).map (S.pwVal B pts) = (List.range S.ncomp).map (S.gridVal B pts.reverse) :=
    List.map_congr_left (fun j _ => (routes_agree S B pts [] j h).2.1)
  have hj : (List.range S.ncomp).map (S.pwJacRow B pts) = (List.range S.ncomp).map (S.gridJacRow B pts.reverse) :=
    List.map_congr_left (fun j _ => jac_columns_agree S B pts j h)
  refine ⟨by rw [hv], rfl, by rw [hv, hj]⟩


/-! ## 3. constructor laws (linearity + partition of unity) -/

/-- `translate` of a B-spline function adds the offset to the *map* (needs partition of unity). -/
theorem translate_bspline (c c' off : Nat → K) (nc m : Nat) (hm : m ∣ nc)
    (hc : ∀ i, c' i = c i + off (i % m)) (rows : List (Nat × (Nat → K))) (hpu : PU rows) (j : Nat) :
    contract c' nc j rows 0 = contract c nc j rows 0 + off (j % m) := by
  rw [contract_eq_nest, contract_eq_nest]
  have : ∀ k, c' (k * nc + j) = c (k * nc + j) + off (j % m) := by
    intro k
    rw [hc]
    obtain ⟨t, rfl⟩ := hm
    congr 2
    rw [show k * (m * t) + j = m * (k * t) + j by ring, Nat.mul_add_mod]
  rw [nest_congr this, nest_add, nest_const _ _ _ hpu]

/-- `NurbsFunc.translate` (`C, W = coeffs_weights(); NurbsFunc(kvs, C + offset, W)`, i.e.
divide by the weights, add, premultiply again) adds the offset to the NURBS map; no
partition of unity is needed, only non-zero control weights and a non-zero weight function. -/
theorem translate_nurbs (c c' : Nat → K) (nc l : Nat) (off : Nat → K) (b : Nat)
    (hb : ∀ k, c' (k * nc + b) = (c (k * nc + b) / c (k * nc + l) + off b) * c (k * nc + l))
    (hl : ∀ k, c' (k * nc + l) = c (k * nc + l))
    (hw : ∀ k, c (k * nc + l) ≠ 0)
    (rows : List (Nat × (Nat → K))) (hW : contract c nc l rows 0 ≠ 0) :
    contract c' nc b rows 0 / contract c' nc l rows 0
      = contract c nc b rows 0 / contract c nc l rows 0 + off b := by
  simp only [contract_eq_nest] at *
  have h1 : ∀ k, c' (k * nc + b) = c (k * nc + b) + off b * c (k * nc + l) := by
    intro k; rw [hb]; have := hw k; field_simp
  rw [nest_congr h1, nest_congr hl, nest_add, nest_smul]
  field_simp

/-- `scale` (scalar or per-component factor) acts pointwise on the map -/
theorem scale_pointwise (c c' fac : Nat → K) (nc m : Nat) (hm : m ∣ nc)
    (hc : ∀ i, c' i = c i * fac (i % m)) (rows : List (Nat × (Nat → K))) (j : Nat) :
    contract c' nc j rows 0 = contract c nc j rows 0 * fac (j % m) := by
  rw [contract_eq_nest, contract_eq_nest]
  have : ∀ k, c' (k * nc + j) = c (k * nc + j) * fac (j % m) := by
    intro k
    rw [hc]
    obtain ⟨t, rfl⟩ := hm
    congr 2
    rw [show k * (m * t) + j = m * (k * t) + j by ring, Nat.mul_add_mod]
  rw [nest_congr this, nest_mul_right]

/-- `apply_matrix(A)` (one `r × m` matrix for all control points): the map is multiplied by `A` -/
theorem apply_matrix_pointwise (c c' : Nat → K) (A : Nat → Nat → K) (r m : Nat)
    (hc : ∀ k a, c' (k * r + a) = sumTo m (fun b => A a b * c (k * m + b)))
    (rows : List (Nat × (Nat → K))) (a : Nat) :
    contract c' r a rows 0 = sumTo m (fun b => A a b * contract c m b rows 0) := by
  simp only [contract_eq_nest]
  rw [nest_congr (fun k => hc k a), nest_sumTo]
  exact sumTo_congr (fun b _ => nest_smul _ _ _ _)

/-- `rotate_2d`: `R = [[cos, -sin], [sin, cos]]` applied to every control point rotates the map -/
theorem rotate_2d_pointwise (c c' : Nat → K) (co si : K)
    (h0 : ∀ k, c' (k * 2 + 0) = co * c (k * 2 + 0) + (-si) * c (k * 2 + 1))
    (h1 : ∀ k, c' (k * 2 + 1) = si * c (k * 2 + 0) + co * c (k * 2 + 1))
    (rows : List (Nat × (Nat → K))) :
    contract c' 2 0 rows 0 = co * contract c 2 0 rows 0 - si * contract c 2 1 rows 0 ∧
    contract c' 2 1 rows 0 = si * contract c 2 0 rows 0 + co * contract c 2 1 rows 0 := by
  simp only [contract_eq_nest]
  rw [nest_congr h0, nest_congr h1, nest_add, nest_add, nest_smul, nest_smul, nest_smul, nest_smul]
  constructor <;> ring

/-- **tensor_product(G1, G2)**: `kvs = G1.kvs + G2.kvs`, `C = concatenate((C2, C1), axis=-1)`
on the joint control grid.  The first `m2` components of the result are `G2` evaluated on its
own axes, the remaining `m1` are `G1` on its axes: `G(x, y) = (G2(x), G1(y))` (xyz order,
G1's axes come first in zyx order). -/
theorem tensor_product_law (C c1 c2 : Nat → K) (m1 m2 : Nat) (r1 r2 : List (Nat × (Nat → K)))
    (b : Nat)
    (hC : ∀ k1 k2, k1 < size r1 → k2 < size r2 → C ((k1 * size r2 + k2) * (m1 + m2) + b)
        = if b < m2 then c2 (k2 * m2 + b) else c1 (k1 * m1 + (b - m2)))
    (h1 : PU r1) (h2 : PU r2) :
    contract C (m1 + m2) b (r1 ++ r2) 0
      = if b < m2 then contract c2 m2 b r2 0 else contract c1 m1 (b - m2) r1 0 := by
  simp only [contract_eq_nest]
  rw [nest_two' _ r1 r2 (fun k1 k2 => if b < m2 then c2 (k2 * m2 + b) else c1 (k1 * m1 + (b - m2))) hC]
  by_cases hb : b < m2
  · simp only [hb, if_true]
    exact nest_const _ _ _ h1
  · simp only [hb, if_false]
    exact nest_congr (fun k1 => nest_const _ _ _ h2) _ _

/-- **outer_sum**: `G(x, y) = G1(y) + G2(x)` (trailing components broadcast as in numpy) -/
theorem outer_sum_law (C c1 c2 : Nat → K) (m m1 m2 : Nat) (r1 r2 : List (Nat × (Nat → K)))
    (b : Nat)
    (hC : ∀ k1 k2, k1 < size r1 → k2 < size r2 → C ((k1 * size r2 + k2) * m + b)
        = c1 (k1 * m1 + b % m1) + c2 (k2 * m2 + b % m2))
    (h1 : PU r1) (h2 : PU r2) :
    contract C m b (r1 ++ r2) 0 = contract c1 m1 (b % m1) r1 0 + contract c2 m2 (b % m2) r2 0 := by
  simp only [contract_eq_nest]
  rw [nest_two' _ r1 r2 (fun k1 k2 => c1 (k1 * m1 + b % m1) + c2 (k2 * m2 + b % m2)) hC]
  have : ∀ k1, nest (fun k2 => c1 (k1 * m1 + b % m1) + c2 (k2 * m2 + b % m2)) r2 0
      = c1 (k1 * m1 + b % m1) + nest (fun k2 => c2 (k2 * m2 + b % m2)) r2 0 := by
    intro k1; rw [nest_add, nest_const _ _ _ h2]
  rw [nest_congr this, nest_add, nest_const _ _ _ h1]

/-- **outer_product**: `G(x, y) = G1(y) · G2(x)` componentwise (no partition of unity needed) -/
theorem outer_product_law (C c1 c2 : Nat → K) (m m1 m2 : Nat) (r1 r2 : List (Nat × (Nat → K)))
    (b : Nat)
    (hC : ∀ k1 k2, k1 < size r1 → k2 < size r2 → C ((k1 * size r2 + k2) * m + b)
        = c1 (k1 * m1 + b % m1) * c2 (k2 * m2 + b % m2)) :
    contract C m b (r1 ++ r2) 0 = contract c1 m1 (b % m1) r1 0 * contract c2 m2 (b % m2) r2 0 := by
  simp only [contract_eq_nest]
  rw [nest_two' _ r1 r2 (fun k1 k2 => c1 (k1 * m1 + b % m1) * c2 (k2 * m2 + b % m2)) hC]
  rw [nest_congr (fun k1 => nest_smul _ _ _ _), nest_mul_right]

/-- **outer_sum / outer_product with NURBS operands**: the library de-premultiplies, combines
and premultiplies with the weight product `W1·W2`.  (a) the premultiplied numerator of the sum
is `c1·w2 + w1·c2`; (b) hence the result is `N1(y) + N2(x)`; (c) for the product, `N1(y)·N2(x)`. -/
theorem outer_nurbs_law (r1 r2 : List (Nat × (Nat → K))) (c1 w1 c2 w2 cn cp w : Nat → K)
    (hn : ∀ k1 k2, k1 < size r1 → k2 < size r2 → cn (k1 * size r2 + k2)
        = (c1 k1 / w1 k1 + c2 k2 / w2 k2) * (w1 k1 * w2 k2))
    (hp : ∀ k1 k2, k1 < size r1 → k2 < size r2 → cp (k1 * size r2 + k2)
        = (c1 k1 / w1 k1 * (c2 k2 / w2 k2)) * (w1 k1 * w2 k2))
    (hw : ∀ k1 k2, k1 < size r1 → k2 < size r2 → w (k1 * size r2 + k2) = w1 k1 * w2 k2)
    (hw1 : ∀ k, k < size r1 → w1 k ≠ 0) (hw2 : ∀ k, k < size r2 → w2 k ≠ 0)
    (hW1 : nest w1 r1 0 ≠ 0) (hW2 : nest w2 r2 0 ≠ 0) :
    nest cn (r1 ++ r2) 0 / nest w (r1 ++ r2) 0 = nest c1 r1 0 / nest w1 r1 0 + nest c2 r2 0 / nest w2 r2 0 ∧
    nest cp (r1 ++ r2) 0 / nest w (r1 ++ r2) 0 = (nest c1 r1 0 / nest w1 r1 0) * (nest c2 r2 0 / nest w2 r2 0) := by
  have hn' : ∀ k1 k2, k1 < size r1 → k2 < size r2 → cn (k1 * size r2 + k2) = c1 k1 * w2 k2 + w1 k1 * c2 k2 := by
    intro k1 k2 hk1 hk; rw [hn k1 k2 hk1 hk]; have := hw1 k1 hk1; have := hw2 k2 hk; field_simp
  have hp' : ∀ k1 k2, k1 < size r1 → k2 < size r2 → cp (k1 * size r2 + k2) = c1 k1 * c2 k2 := by
    intro k1 k2 hk1 hk; rw [hp k1 k2 hk1 hk]; have := hw1 k1 hk1; have := hw2 k2 hk; field_simp
  have eW : nest w (r1 ++ r2) 0 = nest w1 r1 0 * nest w2 r2 0 := by
    rw [nest_two' w r1 r2 (fun k1 k2 => w1 k1 * w2 k2) hw, nest_congr (fun k1 => nest_smul _ _ _ _), nest_mul_right]
  have eN : nest cn (r1 ++ r2) 0 = nest c1 r1 0 * nest w2 r2 0 + nest w1 r1 0 * nest c2 r2 0 := by
    rw [nest_two' cn r1 r2 (fun k1 k2 => c1 k1 * w2 k2 + w1 k1 * c2 k2) hn']
    have : ∀ k1, nest (fun k2 => c1 k1 * w2 k2 + w1 k1 * c2 k2) r2 0
        = c1 k1 * nest w2 r2 0 + w1 k1 * nest c2 r2 0 := by
      intro k1; rw [nest_add, nest_smul, nest_smul]
    rw [nest_congr this, nest_add, nest_mul_right, nest_mul_right]
  have eP : nest cp (r1 ++ r2) 0 = nest c1 r1 0 * nest c2 r2 0 := by
    rw [nest_two' cp r1 r2 (fun k1 k2 => c1 k1 * c2 k2) hp', nest_congr (fun k1 => nest_smul _ _ _ _), nest_mul_right]
  rw [eW, eN, eP]
  constructor <;> field_simp

/-- **as_nurbs**: weights all `1` ⇒ the NURBS is the same map (partition of unity) -/
theorem as_nurbs_same_map (c c' : Nat → K) (m : Nat)
    (hc : ∀ k b, c' (k * (m + 1) + b) = if b < m then c (k * m + b) * 1 else 1)
    (rows : List (Nat × (Nat → K))) (hpu : PU rows) (b : Nat) (hb : b < m) :
    contract c' (m + 1) b rows 0 / contract c' (m + 1) m rows 0 = contract c m b rows 0 := by
  simp only [contract_eq_nest]
  have h1 : ∀ k, c' (k * (m + 1) + b) = c (k * m + b) := by intro k; rw [hc, if_pos hb, mul_one]
  have h2 : ∀ k, c' (k * (m + 1) + m) = 1 := by intro k; rw [hc, if_neg (Nat.lt_irrefl m)]
  rw [nest_congr h1, nest_congr h2, nest_const _ _ _ hpu, div_one]

/-- **`__getitem__(I)`** selects component `I` of the map -/
theorem getitem_component (c c' : Nat → K) (m I : Nat) (hc : ∀ k, c' k = c (k * m + I))
    (rows : List (Nat × (Nat → K))) :
    contract c' 1 0 rows 0 = contract c m I rows 0 := by
  simp only [contract_eq_nest]
  exact nest_congr (fun k => by rw [hc]; simp) _ _

/-- **boundary(axis, side)**: if the 1-D basis of axis `axis` is interpolatory at the fixed
coordinate (its collocation row there is the unit vector `e_f`, `f = 0` or `n-1`), evaluating
the full function equals evaluating the function whose coefficient array is the slice
`coeffs[…, f, …]` (flat index map of `Geo.sliceIndex`) on the remaining axes. -/
theorem boundary_restriction (c : Nat → K) (nc j n f : Nat) (r1 r2 : List (Nat × (Nat → K)))
    (hf : f < n) (hj : j < nc) :
    contract c nc j (r1 ++ (n, fun i => if i = f then (1 : K) else 0) :: r2) 0
      = contract (fun K' => c ((K' / (size r2 * nc)) * (n * (size r2 * nc)) + f * (size r2 * nc)
            + K' % (size r2 * nc))) nc j (r1 ++ r2) 0 := by
  simp only [contract_eq_nest]
  rw [nest_append, nest_append]
  apply nest_congr
  intro k1
  rw [nest_unit_axis _ _ _ _ _ hf, nest_offset, nest_offset (rows := r2) (off := k1)]
  apply nest_congr_bounded
  intro k2 hk2
  simp only [Nat.zero_mul, Nat.zero_add]
  have hpos : 0 < size r2 * nc := Nat.mul_pos (by omega) (by omega)
  have hlt : k2 * nc + j < size r2 * nc := by
    calc k2 * nc + j < k2 * nc + nc := by omega
      _ = (k2 + 1) * nc := by ring
      _ ≤ size r2 * nc := Nat.mul_le_mul_right _ (by omega)
  have e : (k1 * size r2 + k2) * nc + j = (k2 * nc + j) + k1 * (size r2 * nc) := by ring
  rw [e, Nat.add_mul_div_right _ _ hpos, Nat.add_mul_mod_self_right, Nat.div_eq_of_lt hlt,
    Nat.mod_eq_of_lt hlt]
  congr 1
  ring

/-- the named-side table of `_parse_bdspec`: `left/right` fix the axis `dim-1` (the `x`
coordinate, first call argument), `bottom/top` the axis `dim-2` (`y`), `front/back` `dim-3`
(`z`); side `0` is the lower end.  Names that do not exist in the dimension, pairs with an
axis outside `0..dim-1` or a side other than `0/1` are rejected. -/
theorem bdspec_table (dim : Nat) :
    (1 ≤ dim → parseBdspec .left dim = some (dim - 1, 0) ∧ parseBdspec .right dim = some (dim - 1, 1)) ∧
    (2 ≤ dim → parseBdspec .bottom dim = some (dim - 2, 0) ∧ parseBdspec .top dim = some (dim - 2, 1)) ∧
    (3 ≤ dim → parseBdspec .front dim = some (dim - 3, 0) ∧ parseBdspec .back dim = some (dim - 3, 1)) ∧
    (dim < 2 → parseBdspec .bottom dim = none ∧ parseBdspec .top dim = none) ∧
    (dim < 3 → parseBdspec .front dim = none ∧ parseBdspec .back dim = none) ∧
    (∀ a s : Nat, a < dim → s < 2 → parseBdspec (.pair a s) dim = some (a, s)) ∧
    (∀ (a : Nat) (s : Int), dim ≤ a → parseBdspec (.pair a s) dim = none) := by
  refine ⟨?_, ?_, ?_, ?_, ?_, ?_, ?_⟩
  · intro h; constructor <;> (simp [parseBdspec]; omega)
  · intro h; constructor <;> (simp [parseBdspec]; omega)
  · intro h; constructor <;> (simp [parseBdspec]; omega)
  · intro h; constructor <;> (simp [parseBdspec]; omega)
  · intro h; constructor <;> (simp [parseBdspec]; omega)
  · intro a s ha hs; simp [parseBdspec]; omega
  · intro a s ha; simp [parseBdspec]; omega

/-- `_BoundaryFunction`: the argument list built by `eval` (`x.insert(len(x) - axis, fixed)`,
xyz order), once reversed by `_BaseSplineFunc.eval`, is the grid-axis list built by
`grid_eval` (`gridaxes.insert(axis, fixed)`, zyx order) — for every number of axes. -/
theorem boundary_function_args {X : Type} (x : List X) (axis : Nat) (fixed : X) (h : axis ≤ x.length) :
    (bdEvalArgs x axis fixed).reverse = bdGridArgs x.reverse axis fixed :=
  reverse_insertIdx x axis fixed h


omit [Field K] in
/-- **`_BoundaryFunction.grid_jacobian`**: dropping column `jacs.shape[-1] - axis - 1` of the
full Jacobian row (columns x first: column `m` ↔ coefficient axis `n-1-m`) leaves the
derivatives along the boundary function's own axes `i' ↦ (i' if i' < axis else i'+1)`, again
x first — for every number of axes. -/
theorem boundary_jacobian_columns (n axis : Nat) (v : Nat → K) (h : axis < n) :
    bdDropColumn ((List.range n).reverse.map v) axis
      = (List.range (n - 1)).reverse.map (fun i' => v (if i' < axis then i' else i' + 1)) := by
  unfold bdDropColumn
  simp only [List.length_map, List.length_reverse, List.length_range]
  apply List.ext_getElem
  · simp; omega
  · intro q h1 h2
    simp only [List.length_map, List.length_reverse, List.length_range] at h2
    rw [List.getElem_append]
    simp only [List.length_take, List.length_map, List.length_reverse, List.length_range]
    by_cases hq : q < n - axis - 1
    · rw [dif_pos (by omega)]
      simp only [List.getElem_take, List.getElem_map, List.getElem_reverse, List.getElem_range, List.length_range]
      rw [if_neg (by omega)]
      congr 1; omega
    · rw [dif_neg (by omega)]
      simp only [List.getElem_drop, List.getElem_map, List.getElem_reverse, List.getElem_range, List.length_range]
      rw [if_pos (by omega)]
      congr 1; omega


/-! ### the same laws on the model's list-level constructors (translate, scale) -/

theorem bspTranslate_at (F : Func K) (off : List K) (i : Nat) (h : i < F.c.length) :
    (F.bspTranslate off).at i = F.at i + bcast off i := by
  simp [Func.bspTranslate, Func.at, List.getD_eq_getElem?_getD, h]

theorem bspScale_at (F : Func K) (fac : List K) (i : Nat) (h : i < F.c.length) :
    (F.bspScale fac).at i = F.at i * bcast fac i := by
  simp [Func.bspScale, Func.at, List.getD_eq_getElem?_getD, h]

theorem bcast_mul_add (v : List K) (nc k j : Nat) (h : v.length ∣ nc) : bcast v (k * nc + j) = bcast v j := by
  unfold bcast
  obtain ⟨t, rfl⟩ := h
  rw [show k * (v.length * t) + j = v.length * (k * t) + j by ring, Nat.mul_add_mod]

/-- **translate, on the model's list-level constructor**: `BSplineFunc.translate(offset)` evaluated by
the grid route equals the original value plus the (broadcast) offset, at every node, for every sdim. -/
theorem translate_bspline_model {X : Type} (F : Func K) (off : List K) (B : Nat → X → Info K) (ys : List X) (j : Nat)
    (hoff : off.length ∣ F.ncomp) (hj : j < F.ncomp)
    (hsz : size (rows B 0 F.dims ys (List.replicate F.dims.length 0)) * F.ncomp ≤ F.c.length)
    (hpu : PU (rows B 0 F.dims ys (List.replicate F.dims.length 0))) :
    (F.bspTranslate off).toSpl.gridVal B ys j = F.toSpl.gridVal B ys j + bcast off j := by
  show contract (F.bspTranslate off).at F.ncomp j (rows B 0 F.dims ys (List.replicate F.dims.length 0)) 0
     = contract F.at F.ncomp j (rows B 0 F.dims ys (List.replicate F.dims.length 0)) 0 + bcast off j
  rw [contract_eq_nest, contract_eq_nest]
  rw [nest_congr_bounded (leaf' := fun k => F.at (k * F.ncomp + j) + bcast off j)]
  · rw [nest_add, nest_const _ _ _ hpu]
  · intro k hk
    simp only [Nat.zero_mul, Nat.zero_add]
    have hlt : k * F.ncomp + j < F.c.length := by
      calc k * F.ncomp + j < k * F.ncomp + F.ncomp := by omega
        _ = (k + 1) * F.ncomp := by ring
        _ ≤ _ := Nat.le_trans (Nat.mul_le_mul_right _ (by omega)) hsz
    rw [bspTranslate_at F off _ hlt, bcast_mul_add off F.ncomp k j hoff]

/-- **scale, on the model's list-level constructor** -/
theorem scale_bspline_model {X : Type} (F : Func K) (fac : List K) (B : Nat → X → Info K) (ys : List X) (j : Nat)
    (hfac : fac.length ∣ F.ncomp) (hj : j < F.ncomp)
    (hsz : size (rows B 0 F.dims ys (List.replicate F.dims.length 0)) * F.ncomp ≤ F.c.length) :
    (F.bspScale fac).toSpl.gridVal B ys j = F.toSpl.gridVal B ys j * bcast fac j := by
  show contract (F.bspScale fac).at F.ncomp j (rows B 0 F.dims ys (List.replicate F.dims.length 0)) 0
     = contract F.at F.ncomp j (rows B 0 F.dims ys (List.replicate F.dims.length 0)) 0 * bcast fac j
  rw [contract_eq_nest, contract_eq_nest]
  rw [nest_congr_bounded (leaf' := fun k => F.at (k * F.ncomp + j) * bcast fac j)]
  · rw [nest_mul_right]
  · intro k hk
    simp only [Nat.zero_mul, Nat.zero_add]
    have hlt : k * F.ncomp + j < F.c.length := by
      calc k * F.ncomp + j < k * F.ncomp + F.ncomp := by omega
        _ = (k + 1) * F.ncomp := by ring
        _ ≤ _ := Nat.le_trans (Nat.mul_le_mul_right _ (by omega)) hsz
    rw [bspScale_at F fac _ hlt, bcast_mul_add fac F.ncomp k j hfac]



theorem bspGetItem_at (F : Func K) (I k : Nat) (h : k < F.c.length / F.vshape.getLastD 1) :
    (F.bspGetItem I).at k = F.at (k * F.vshape.getLastD 1 + I) := by
  simp only [Func.bspGetItem, Func.at, List.getD_eq_getElem?_getD, List.getElem?_map, List.getElem?_range h]
  rfl

/-- **`__getitem__`, on the model's list-level constructor** (vector-valued function, `vshape = [m]`) -/
theorem getitem_bspline_model {X : Type} (F : Func K) (m I : Nat) (B : Nat → X → Info K) (ys : List X)
    (hv : F.vshape = [m]) (hm : 0 < m)
    (hsz : size (rows B 0 F.dims ys (List.replicate F.dims.length 0)) * m ≤ F.c.length) :
    (F.bspGetItem I).toSpl.gridVal B ys 0 = F.toSpl.gridVal B ys I := by
  have hnc : F.ncomp = m := by simp [Func.ncomp, hv, Index.prod]
  have hnc' : (F.bspGetItem I).ncomp = 1 := by simp [Func.ncomp, Func.bspGetItem, hv, Index.prod]
  show contract (F.bspGetItem I).at (F.bspGetItem I).ncomp 0 (rows B 0 F.dims ys (List.replicate F.dims.length 0)) 0
     = contract F.at F.ncomp I (rows B 0 F.dims ys (List.replicate F.dims.length 0)) 0
  rw [hnc, hnc', contract_eq_nest, contract_eq_nest]
  apply nest_congr_bounded
  intro k hk
  simp only [Nat.zero_mul, Nat.zero_add, Nat.mul_one, Nat.add_zero]
  have hl : F.vshape.getLastD 1 = m := by simp [hv]
  have hk' : k < F.c.length / m := Nat.lt_of_lt_of_le hk ((Nat.le_div_iff_mul_le hm).2 hsz)
  rw [bspGetItem_at F I k (by rw [hl]; exact hk'), hl]


/-- **tensor_product, on the model's list-level constructor**: the coefficient list built by
`bspTensor` (`np.concatenate((C2, C1), axis=-1)` on the joint control grid, `kvs = G1.kvs + G2.kvs`)
evaluates, at the node with coordinates `ys1 ++ ys2` (zyx order), to G2's value in the first
`G2.ncomp` components and G1's value in the rest — for every pair of source dimensions. -/
theorem tensor_product_model {X : Type} (G1 G2 : Func K) (B : Nat → X → Info K) (ys1 ys2 : List X) (b : Nat)
    (hl1 : ys1.length = G1.dims.length) (hl2 : ys2.length = G2.dims.length)
    (hb : b < G1.ncomp + G2.ncomp)
    (hpu1 : PU (rows B 0 G1.dims ys1 (List.replicate G1.dims.length 0)))
    (hpu2 : PU (rows B G1.dims.length G2.dims ys2 (List.replicate G2.dims.length 0))) :
    (bspTensor G1 G2).toSpl.gridVal B (ys1 ++ ys2) b
      = if b < G2.ncomp then
          contract G2.at G2.ncomp b (rows B G1.dims.length G2.dims ys2 (List.replicate G2.dims.length 0)) 0
        else G1.toSpl.gridVal B ys1 (b - G2.ncomp) := by
  have hnc : (bspTensor G1 G2).ncomp = G1.ncomp + G2.ncomp := by
    simp [Func.ncomp, bspTensor, Index.prod]
  show contract (bspTensor G1 G2).at (bspTensor G1 G2).ncomp b
      (rows B 0 (G1.dims ++ G2.dims) (ys1 ++ ys2) (List.replicate (G1.dims ++ G2.dims).length 0)) 0 = _
  rw [hnc, List.length_append, List.replicate_add,
    rows_append B G2.dims ys2 _ G1.dims ys1 _ 0 hl1 (by simp), Nat.zero_add]
  have hs1 := size_rows B G1.dims ys1 (List.replicate G1.dims.length 0) 0 hl1 (by simp)
  have hs2 := size_rows B G2.dims ys2 (List.replicate G2.dims.length 0) G1.dims.length hl2 (by simp)
  exact tensor_product_law (bspTensor G1 G2).at G1.at G2.at G1.ncomp G2.ncomp _ _ b
    (fun k1 k2 hk1 hk2 => by
      rw [hs2]
      rw [hs1] at hk1
      rw [hs2] at hk2
      exact tensorC_getD G1.npts G1.ncomp G2.npts G2.ncomp G1.c G2.c k1 k2 b hk1 hk2 hb)
    hpu1 hpu2


/-- entries of the coefficient list built by `NurbsFunc.__init__` (`mkNurbs`) -/
theorem mkNurbs_at (dims cshape : List Nat) (C W : List K) (premult : Bool) (I b : Nat)
    (hI : I < W.length) (hb : b ≤ prod cshape) :
    (mkNurbs dims cshape C W premult).at (I * (prod cshape + 1) + b)
      = if b < prod cshape then
          (if premult then C.getD (I * prod cshape + b) 0 else C.getD (I * prod cshape + b) 0 * W.getD I 0)
        else W.getD I 0 := by
  unfold Func.at mkNurbs
  simp only
  rw [getD_flatMap_chunks 0 W.length (prod cshape + 1) _ (by intro I; simp) I b hI (by omega)]
  simp only [List.getD_eq_getElem?_getD]
  by_cases hb2 : b < prod cshape
  · rw [if_pos hb2, List.getElem?_append_left (by simpa using hb2)]
    simp [List.getElem?_range hb2]
  · have : b = prod cshape := by omega
    subst this
    rw [if_neg hb2, List.getElem?_append_right (by simp)]
    simp

/-- **as_nurbs, on the model's list-level constructor**: `BSplineFunc.as_nurbs()` (weights
`ones(N)`, premultiplication by 1) evaluated as a NURBS (numerator / weight spline, component by
component) returns the B-spline's values, at every node, for every sdim (vector-valued `F`). -/
theorem as_nurbs_model {X : Type} (F : Func K) (m : Nat) (B : Nat → X → Info K) (ys : List X)
    (hv : F.vshape = [m]) (hl : ys.length = F.dims.length)
    (hpu : PU (rows B 0 F.dims ys (List.replicate F.dims.length 0))) :
    nurbsValue ((List.range (m + 1)).map (F.bspAsNurbs.toSpl.gridVal B ys))
      = (List.range m).map (F.toSpl.gridVal B ys) := by
  have hnc : F.ncomp = m := by simp [Func.ncomp, hv, Index.prod]
  have hpm : prod F.vshape = m := by simpa [Func.ncomp] using hnc
  have hnc' : F.bspAsNurbs.ncomp = m + 1 := by
    have : F.bspAsNurbs.ncomp = prod F.vshape + 1 := by simp [Func.ncomp, Func.bspAsNurbs, mkNurbs, Index.prod]
    rw [this, hpm]
  have hs := size_rows B F.dims ys (List.replicate F.dims.length 0) 0 hl (by simp)
  have key : ∀ b, b ≤ m → F.bspAsNurbs.toSpl.gridVal B ys b
      = if b < m then F.toSpl.gridVal B ys b else 1 := by
    intro b hb
    show contract F.bspAsNurbs.at F.bspAsNurbs.ncomp b (rows B 0 F.dims ys (List.replicate F.dims.length 0)) 0 = _
    rw [hnc', contract_eq_nest]
    have hleaf : ∀ k, k < size (rows B 0 F.dims ys (List.replicate F.dims.length 0)) →
        F.bspAsNurbs.at (0 * size (rows B 0 F.dims ys (List.replicate F.dims.length 0)) * 1 + k * (m + 1) + b)
          = if b < m then F.at (k * m + b) else 1 := by
      intro k hk
      rw [hs] at hk
      simp only [Nat.zero_mul, Nat.zero_add]
      have := mkNurbs_at F.dims F.vshape F.c (List.replicate F.npts 1) false k b (by simpa [Func.npts] using hk)
        (by rw [hpm]; exact hb)
      rw [hpm] at this
      unfold Func.bspAsNurbs
      rw [this]
      have h1 : (List.replicate F.npts (1 : K)).getD k 0 = 1 := by
        simp [List.getD_eq_getElem?_getD, Func.npts, hk]
      rw [h1]
      by_cases hbm : b < m
      · simp [hbm, Func.at]
      · simp [hbm]
    by_cases hbm : b < m
    · rw [if_pos hbm]
      show _ = contract F.at F.ncomp b (rows B 0 F.dims ys (List.replicate F.dims.length 0)) 0
      rw [hnc, contract_eq_nest]
      apply nest_congr_bounded
      intro k hk
      have := hleaf k hk
      simp only [Nat.zero_mul, Nat.zero_add] at this ⊢
      rw [this, if_pos hbm]
    · rw [if_neg hbm]
      rw [nest_congr_bounded (leaf' := fun _ => (1 : K))]
      · exact nest_const _ _ _ hpu
      · intro k hk
        have := hleaf k hk
        simp only [Nat.zero_mul, Nat.zero_add] at this ⊢
        rw [this, if_neg hbm]
  unfold nurbsValue
  rw [List.range_succ, List.map_append]
  simp only [List.map_cons, List.map_nil, List.getLastD_concat, List.dropLast_concat, List.map_map]
  apply List.map_congr_left
  intro b hb
  have hb' : b < m := List.mem_range.1 hb
  simp only [Function.comp]
  rw [key b (by omega), key m (Nat.le_refl m), if_pos hb', if_neg (Nat.lt_irrefl m), div_one]



/-- entries of `outerOp` (coefficient array of `outer_sum` / `outer_product`) -/
theorem outerOp_getD (op : K → K → K) (n1 m1 n2 m2 : Nat) (C1 C2 : List K) (k1 k2 b : Nat)
    (h1 : k1 < n1) (h2 : k2 < n2) (hb : b < max m1 m2) :
    (outerOp op n1 m1 n2 m2 C1 C2).getD ((k1 * n2 + k2) * max m1 m2 + b) 0
      = op (C1.getD (k1 * m1 + b % m1) 0) (C2.getD (k2 * m2 + b % m2) 0) := by
  unfold outerOp
  simp only
  have hin : ∀ I1 I2, ((List.range (max m1 m2)).map (fun b =>
      op (C1.getD (I1 * m1 + b % m1) 0) (C2.getD (I2 * m2 + b % m2) 0))).length = max m1 m2 := by
    intro I1 I2; simp
  have hout : ∀ I1, ((List.range n2).flatMap (fun I2 => (List.range (max m1 m2)).map (fun b =>
      op (C1.getD (I1 * m1 + b % m1) 0) (C2.getD (I2 * m2 + b % m2) 0)))).length = n2 * max m1 m2 := by
    intro I1; exact length_flatMap_chunks n2 (max m1 m2) _ (hin I1)
  have e : (k1 * n2 + k2) * max m1 m2 + b = k1 * (n2 * max m1 m2) + (k2 * max m1 m2 + b) := by ring
  have hlt : k2 * max m1 m2 + b < n2 * max m1 m2 := by
    calc k2 * max m1 m2 + b < k2 * max m1 m2 + max m1 m2 := by omega
      _ = (k2 + 1) * max m1 m2 := by ring
      _ ≤ n2 * max m1 m2 := Nat.mul_le_mul_right _ (by omega)
  rw [e, getD_flatMap_chunks 0 n1 (n2 * max m1 m2) _ hout k1 _ h1 hlt,
    getD_flatMap_chunks 0 n2 (max m1 m2) _ (hin k1) k2 b h2 hb]
  exact getD_map_range 0 _ _ b hb

/-- **outer_sum / outer_product of two BSplineFuncs, on the model's list-level constructor**
(`kvs = G1.kvs + G2.kvs`, trailing components broadcast): value at the node `ys1 ++ ys2` (zyx) is
`G1(ys1) + G2(ys2)` resp. `G1(ys1) · G2(ys2)`. -/
theorem outer_model {X : Type} (G1 G2 : Func K) (B : Nat → X → Info K) (ys1 ys2 : List X) (b : Nat)
    (hl1 : ys1.length = G1.dims.length) (hl2 : ys2.length = G2.dims.length)
    (hs : (bspOuter (· + ·) G1 G2).ncomp = max G1.ncomp G2.ncomp)
    (hp : (bspOuter (· * ·) G1 G2).ncomp = max G1.ncomp G2.ncomp)
    (hb : b < max G1.ncomp G2.ncomp)
    (hpu1 : PU (rows B 0 G1.dims ys1 (List.replicate G1.dims.length 0)))
    (hpu2 : PU (rows B G1.dims.length G2.dims ys2 (List.replicate G2.dims.length 0))) :
    (bspOuter (· + ·) G1 G2).toSpl.gridVal B (ys1 ++ ys2) b
      = G1.toSpl.gridVal B ys1 (b % G1.ncomp)
        + contract G2.at G2.ncomp (b % G2.ncomp) (rows B G1.dims.length G2.dims ys2 (List.replicate G2.dims.length 0)) 0 ∧
    (bspOuter (· * ·) G1 G2).toSpl.gridVal B (ys1 ++ ys2) b
      = G1.toSpl.gridVal B ys1 (b % G1.ncomp)
        * contract G2.at G2.ncomp (b % G2.ncomp) (rows B G1.dims.length G2.dims ys2 (List.replicate G2.dims.length 0)) 0 := by
  have hs1 := size_rows B G1.dims ys1 (List.replicate G1.dims.length 0) 0 hl1 (by simp)
  have hs2 := size_rows B G2.dims ys2 (List.replicate G2.dims.length 0) G1.dims.length hl2 (by simp)
  constructor
  · show contract (bspOuter (· + ·) G1 G2).at (bspOuter (· + ·) G1 G2).ncomp b
        (rows B 0 (G1.dims ++ G2.dims) (ys1 ++ ys2) (List.replicate (G1.dims ++ G2.dims).length 0)) 0 = _
    rw [hs, List.length_append, List.replicate_add,
      rows_append B G2.dims ys2 _ G1.dims ys1 _ 0 hl1 (by simp), Nat.zero_add]
    exact outer_sum_law (bspOuter (· + ·) G1 G2).at G1.at G2.at _ G1.ncomp G2.ncomp _ _ b
      (fun k1 k2 hk1 hk2 => by
        rw [hs2]; rw [hs1] at hk1; rw [hs2] at hk2
        exact outerOp_getD (· + ·) G1.npts G1.ncomp G2.npts G2.ncomp G1.c G2.c k1 k2 b hk1 hk2 hb)
      hpu1 hpu2
  · show contract (bspOuter (· * ·) G1 G2).at (bspOuter (· * ·) G1 G2).ncomp b
        (rows B 0 (G1.dims ++ G2.dims) (ys1 ++ ys2) (List.replicate (G1.dims ++ G2.dims).length 0)) 0 = _
    rw [hp, List.length_append, List.replicate_add,
      rows_append B G2.dims ys2 _ G1.dims ys1 _ 0 hl1 (by simp), Nat.zero_add]
    exact outer_product_law (bspOuter (· * ·) G1 G2).at G1.at G2.at _ G1.ncomp G2.ncomp _ _ b
      (fun k1 k2 hk1 hk2 => by
        rw [hs2]; rw [hs1] at hk1; rw [hs2] at hk2
        exact outerOp_getD (· * ·) G1.npts G1.ncomp G2.npts G2.ncomp G1.c G2.c k1 k2 b hk1 hk2 hb)



omit [Field K] in
theorem size_append (r1 r2 : List (Nat × (Nat → K))) : size (r1 ++ r2) = size r1 * size r2 := by
  induction r1 with
  | nil => simp [size]
  | cons p rest ih => obtain ⟨n, r⟩ := p; simp only [List.cons_append, size, ih]; ring

omit [Field K] in
theorem prod_append (a b : List Nat) : prod (a ++ b) = prod a * prod b := by
  induction a with
  | nil => simp [prod]
  | cons x a ih => simp only [prod, List.cons_append, List.foldr_cons] at ih ⊢; rw [ih]; ring

/-- **boundary(axis, side), on the model's list-level constructor.**  `F.dims = d1 ++ n :: d2`,
`axis = len d1`.  If the collocation row of the fixed axis at its coordinate `y` is the unit
vector `e_f` (`f = 0` for side 0, `n-1` for side 1: interpolatory end condition), then `F` at the
node `ys1 ++ y :: ys2` equals the sliced function `F.boundary axis side` (knot vectors with the
axis deleted) at the node `ys1 ++ ys2` — for every sdim, every position of the axis. -/
theorem boundary_model {X : Type} (F : Func K) (d1 d2 : List Nat) (n side : Nat) (B : Nat → X → Info K)
    (ys1 ys2 : List X) (y : X) (j : Nat)
    (hd : F.dims = d1 ++ n :: d2) (hn : 0 < n) (hj : j < F.ncomp)
    (hl1 : ys1.length = d1.length) (hl2 : ys2.length = d2.length)
    (hunit : ∀ i, (B d1.length y).dense 0 i = if i = (if side = 0 then 0 else n - 1) then 1 else 0) :
    contract F.at F.ncomp j (rows B 0 F.dims (ys1 ++ y :: ys2) (List.replicate F.dims.length 0)) 0
      = contract (F.boundary d1.length side).at F.ncomp j
          (rows B 0 d1 ys1 (List.replicate d1.length 0) ++ rows B (d1.length + 1) d2 ys2 (List.replicate d2.length 0)) 0 := by
  set r1 := rows B 0 d1 ys1 (List.replicate d1.length 0) with hr1
  set r2 := rows B (d1.length + 1) d2 ys2 (List.replicate d2.length 0) with hr2
  have hs1 : size r1 = prod d1 := size_rows B d1 ys1 _ 0 hl1 (by simp)
  have hs2 : size r2 = prod d2 := size_rows B d2 ys2 _ (d1.length + 1) hl2 (by simp)
  have hrep : List.replicate F.dims.length 0 = List.replicate d1.length 0 ++ 0 :: List.replicate d2.length 0 := by
    rw [hd, List.length_append, List.length_cons, List.replicate_add, List.replicate_succ]
  have hrows : rows B 0 F.dims (ys1 ++ y :: ys2) (List.replicate F.dims.length 0)
      = r1 ++ (n, fun i => if i = (if side = 0 then 0 else n - 1) then (1 : K) else 0) :: r2 := by
    rw [hrep, hd, rows_append B (n :: d2) (y :: ys2) _ d1 ys1 _ 0 hl1 (by simp)]
    simp only [rows, Nat.zero_add]
    rw [show (B d1.length y).dense 0 = fun i => if i = (if side = 0 then 0 else n - 1) then (1 : K) else 0
      from funext hunit]
  rw [hrows, boundary_restriction F.at F.ncomp j n _ r1 r2 (by split_ifs <;> omega) hj]
  rw [contract_eq_nest, contract_eq_nest]
  apply nest_congr_bounded
  intro k hk
  simp only [Nat.zero_mul, Nat.zero_add]
  rw [size_append, hs1, hs2] at hk
  -- the sliced list
  have hdims' : F.dims.eraseIdx d1.length = d1 ++ d2 := by
    rw [hd, List.eraseIdx_append_of_length_le (Nat.le_refl _)]; simp
  have hlen : k * F.ncomp + j < prod (F.dims.eraseIdx d1.length) * F.ncomp := by
    rw [hdims', prod_append]
    calc k * F.ncomp + j < k * F.ncomp + F.ncomp := by omega
      _ = (k + 1) * F.ncomp := by ring
      _ ≤ _ := Nat.mul_le_mul_right _ (by omega)
  have hat : (F.boundary d1.length side).at (k * F.ncomp + j)
      = F.at (sliceIndex F.dims F.ncomp d1.length side (k * F.ncomp + j)) := by
    unfold Func.boundary Func.at
    simp only
    exact getD_map_range 0 _ _ _ hlen
  rw [hat]
  congr 1
  unfold sliceIndex
  have hdrop : F.dims.drop (d1.length + 1) = d2 := by
    rw [hd, List.drop_append, List.drop_of_length_le (by omega), Nat.add_sub_cancel_left]; rfl
  have hget : F.dims.getD d1.length 1 = n := by
    rw [hd]; simp [List.getD_eq_getElem?_getD]
  simp only [hdrop, hget, hs2]



theorem coeffsWeights_lengths (F : Func K) (m n : Nat) (hnc : F.ncomp = m + 1) (hlen : F.c.length = n * (m + 1)) :
    F.coeffsWeights.2.length = n ∧ F.coeffsWeights.1.length = n * m := by
  have hdiv : F.c.length / (m + 1) = n := by rw [hlen]; exact Nat.mul_div_cancel _ (by omega)
  unfold Func.coeffsWeights
  simp only [hnc, hdiv, Nat.add_sub_cancel]
  exact ⟨by simp, length_flatMap_chunks n m _ (by intro I; simp)⟩

/-- entries of `NurbsFunc.coeffs_weights()` -/
theorem coeffsWeights_getD (F : Func K) (m n : Nat) (hnc : F.ncomp = m + 1) (hlen : F.c.length = n * (m + 1))
    (I b : Nat) (hI : I < n) (hb : b < m) :
    F.coeffsWeights.1.getD (I * m + b) 0 = F.at (I * (m + 1) + b) / F.at (I * (m + 1) + m) ∧
    F.coeffsWeights.2.getD I 0 = F.at (I * (m + 1) + m) := by
  have hdiv : F.c.length / (m + 1) = n := by rw [hlen]; exact Nat.mul_div_cancel _ (by omega)
  unfold Func.coeffsWeights
  simp only [hnc, hdiv, Nat.add_sub_cancel]
  refine ⟨?_, ?_⟩
  · rw [getD_flatMap_chunks 0 n m _ (by intro I; simp) I b hI hb, getD_map_range 0 _ _ b hb]
    congr 2
  · rw [getD_map_range 0 _ _ I hI]
    congr 1

theorem coeffsWeights_W_getD (F : Func K) (m n : Nat) (hnc : F.ncomp = m + 1) (hlen : F.c.length = n * (m + 1))
    (I : Nat) (hI : I < n) : F.coeffsWeights.2.getD I 0 = F.at (I * (m + 1) + m) := by
  have hdiv : F.c.length / (m + 1) = n := by rw [hlen]; exact Nat.mul_div_cancel _ (by omega)
  unfold Func.coeffsWeights
  simp only [hnc, hdiv]
  rw [getD_map_range 0 _ _ I hI]
  congr 1

/-- **NurbsFunc.translate, on the model's list-level constructor**: de-premultiply
(`coeffs_weights`), add the offset, premultiply again (`NurbsFunc.__init__`): the NURBS value
(numerator spline / weight spline) is the old value plus the offset, at every node, every sdim;
needs non-zero control weights and a non-zero weight function, no partition of unity. -/
theorem translate_nurbs_model {X : Type} (F : Func K) (off : List K) (m : Nat) (B : Nat → X → Info K)
    (ys : List X) (b : Nat)
    (hnc : F.ncomp = m + 1) (hlen : F.c.length = F.npts * (m + 1)) (hl : ys.length = F.dims.length)
    (hoff : off.length ∣ m) (hb : b < m)
    (hw : ∀ I, I < F.npts → F.at (I * (m + 1) + m) ≠ 0)
    (hW : F.toSpl.gridVal B ys m ≠ 0) :
    (F.nurbsTranslate off).toSpl.gridVal B ys b / (F.nurbsTranslate off).toSpl.gridVal B ys m
      = F.toSpl.gridVal B ys b / F.toSpl.gridVal B ys m + bcast off b := by
  have hs := size_rows B F.dims ys (List.replicate F.dims.length 0) 0 hl (by simp)
  obtain ⟨hWlen, hClen⟩ := coeffsWeights_lengths F m F.npts hnc hlen
  have hpm : prod [F.ncomp - 1] = m := by simp [Index.prod, hnc]
  -- the translated function, entry by entry
  have hat : ∀ k b', k < F.npts → b' ≤ m → (F.nurbsTranslate off).at (k * (m + 1) + b')
      = if b' < m then F.at (k * (m + 1) + b') + bcast off b' * F.at (k * (m + 1) + m)
        else F.at (k * (m + 1) + m) := by
    intro k b' hk hb'
    unfold Func.nurbsTranslate
    simp only
    have := mkNurbs_at F.dims [F.ncomp - 1]
      ((List.range F.coeffsWeights.1.length).map (fun i => F.coeffsWeights.1.getD i 0 + bcast off i))
      F.coeffsWeights.2 false k b' (by rw [hWlen]; exact hk) (by rw [hpm]; exact hb')
    rw [hpm] at this
    rw [this, coeffsWeights_W_getD F m F.npts hnc hlen k hk]
    by_cases hbm : b' < m
    · rw [if_pos hbm, if_pos hbm]
      have hidx : k * m + b' < F.coeffsWeights.1.length := by
        rw [hClen]
        calc k * m + b' < k * m + m := by omega
          _ = (k + 1) * m := by ring
          _ ≤ _ := Nat.mul_le_mul_right _ (by omega)
      simp only [Bool.false_eq_true, if_false]
      rw [getD_map_range 0 _ _ _ hidx, (coeffsWeights_getD F m F.npts hnc hlen k b' hk hbm).1,
        bcast_mul_add off m k b' hoff]
      have := hw k hk
      field_simp
    · rw [if_neg hbm, if_neg hbm]
  have hnc' : (F.nurbsTranslate off).ncomp = m + 1 := by
    have h1 : (F.nurbsTranslate off).ncomp = prod [F.ncomp - 1] + 1 := by
      unfold Func.nurbsTranslate
      simp [Func.ncomp, mkNurbs, Index.prod]
    rw [h1, hpm]
  have hnum : (F.nurbsTranslate off).toSpl.gridVal B ys b
      = F.toSpl.gridVal B ys b + bcast off b * F.toSpl.gridVal B ys m := by
    show contract (F.nurbsTranslate off).at (F.nurbsTranslate off).ncomp b
        (rows B 0 F.dims ys (List.replicate F.dims.length 0)) 0
      = contract F.at F.ncomp b (rows B 0 F.dims ys (List.replicate F.dims.length 0)) 0
        + bcast off b * contract F.at F.ncomp m (rows B 0 F.dims ys (List.replicate F.dims.length 0)) 0
    rw [hnc', hnc, contract_eq_nest, contract_eq_nest, contract_eq_nest, ← nest_smul, ← nest_add]
    apply nest_congr_bounded
    intro k hk
    rw [hs] at hk
    simp only [Nat.zero_mul, Nat.zero_add]
    rw [hat k b hk (by omega), if_pos hb]
  have hden : (F.nurbsTranslate off).toSpl.gridVal B ys m = F.toSpl.gridVal B ys m := by
    show contract (F.nurbsTranslate off).at (F.nurbsTranslate off).ncomp m
        (rows B 0 F.dims ys (List.replicate F.dims.length 0)) 0
      = contract F.at F.ncomp m (rows B 0 F.dims ys (List.replicate F.dims.length 0)) 0
    rw [hnc', hnc, contract_eq_nest, contract_eq_nest]
    apply nest_congr_bounded
    intro k hk
    rw [hs] at hk
    simp only [Nat.zero_mul, Nat.zero_add]
    rw [hat k m hk (Nat.le_refl m), if_neg (Nat.lt_irrefl m)]
  rw [hnum, hden]
  field_simp



/-- entries of `matApply` (`np.matmul(A, C[..., None])` squeezed) -/
theorem matApply_getD (A : List (List K)) (m : Nat) (c : List K) (k a : Nat)
    (hk : k < c.length / m) (ha : a < A.length) :
    (matApply A m c).getD (k * A.length + a) 0
      = sumTo m (fun b => (A.getD a []).getD b 0 * c.getD (k * m + b) 0) := by
  unfold matApply
  rw [getD_flatMap_chunks 0 (c.length / m) A.length _ (by intro I; simp) k a hk ha]
  simp [List.getD_eq_getElem?_getD, List.getElem?_map, List.getElem?_eq_getElem ha]

/-- **apply_matrix, on the model's list-level constructor** (`BSplineFunc.apply_matrix(A)`, one
`r × m` matrix): the value at every node is `A` times the old value, for every sdim. -/
theorem apply_matrix_model {X : Type} (F : Func K) (A : List (List K)) (m : Nat) (B : Nat → X → Info K)
    (ys : List X) (a : Nat)
    (hv : F.vshape = [m]) (hm : 0 < m) (hlen : F.c.length = F.npts * m) (hl : ys.length = F.dims.length)
    (ha : a < A.length) :
    (F.bspApplyMatrix A).toSpl.gridVal B ys a
      = sumTo m (fun b => (A.getD a []).getD b 0 * F.toSpl.gridVal B ys b) := by
  have hnc : F.ncomp = m := by simp [Func.ncomp, hv, Index.prod]
  have hnc' : (F.bspApplyMatrix A).ncomp = A.length := by simp [Func.ncomp, Func.bspApplyMatrix, Index.prod]
  have hs := size_rows B F.dims ys (List.replicate F.dims.length 0) 0 hl (by simp)
  have hdiv : F.c.length / m = F.npts := by rw [hlen]; exact Nat.mul_div_cancel _ hm
  show contract (F.bspApplyMatrix A).at (F.bspApplyMatrix A).ncomp a
      (rows B 0 F.dims ys (List.replicate F.dims.length 0)) 0
    = sumTo m (fun b => (A.getD a []).getD b 0
        * contract F.at F.ncomp b (rows B 0 F.dims ys (List.replicate F.dims.length 0)) 0)
  rw [hnc', hnc, contract_eq_nest]
  simp only [contract_eq_nest]
  rw [sumTo_congr (fun b _ => (nest_smul _ _ _ _).symm), ← nest_sumTo]
  apply nest_congr_bounded
  intro k hk
  rw [hs] at hk
  simp only [Nat.zero_mul, Nat.zero_add]
  have := matApply_getD A m F.c k a (by rw [hdiv]; exact hk) ha
  unfold Func.bspApplyMatrix Func.at
  simp only [hnc]
  exact this

/-- entries of a NURBS rebuilt from de-premultiplied coefficients `C'` (trailing size `m'`) and
weights `W` by `NurbsFunc.__init__` -/
theorem mkNurbs_at' (dims : List Nat) (m' : Nat) (C W : List K) (k b : Nat) (hk : k < W.length) (hb : b ≤ m') :
    (mkNurbs dims [m'] C W false).at (k * (m' + 1) + b)
      = if b < m' then C.getD (k * m' + b) 0 * W.getD k 0 else W.getD k 0 := by
  have hp : prod [m'] = m' := by simp [Index.prod]
  have := mkNurbs_at dims [m'] C W false k b hk (by rw [hp]; exact hb)
  rw [hp] at this
  simpa using this

/-- **NurbsFunc.scale, on the model's list-level constructor**: de-premultiply, multiply the
control points by the (broadcast) factor, premultiply again: the NURBS value is the old value times
the factor, at every node, every sdim. -/
theorem scale_nurbs_model {X : Type} (F : Func K) (fac : List K) (m : Nat) (B : Nat → X → Info K)
    (ys : List X) (b : Nat)
    (hnc : F.ncomp = m + 1) (hlen : F.c.length = F.npts * (m + 1)) (hl : ys.length = F.dims.length)
    (hfac : fac.length ∣ m) (hb : b < m)
    (hw : ∀ I, I < F.npts → F.at (I * (m + 1) + m) ≠ 0) :
    (F.nurbsScale fac).toSpl.gridVal B ys b / (F.nurbsScale fac).toSpl.gridVal B ys m
      = F.toSpl.gridVal B ys b / F.toSpl.gridVal B ys m * bcast fac b := by
  have hs := size_rows B F.dims ys (List.replicate F.dims.length 0) 0 hl (by simp)
  obtain ⟨hWlen, hClen⟩ := coeffsWeights_lengths F m F.npts hnc hlen
  have hm1 : F.ncomp - 1 = m := by omega
  have hat : ∀ k b', k < F.npts → b' ≤ m → (F.nurbsScale fac).at (k * (m + 1) + b')
      = if b' < m then F.at (k * (m + 1) + b') * bcast fac b' else F.at (k * (m + 1) + m) := by
    intro k b' hk hb'
    unfold Func.nurbsScale
    simp only [hm1]
    rw [mkNurbs_at' F.dims m _ _ k b' (by rw [hWlen]; exact hk) hb',
      coeffsWeights_W_getD F m F.npts hnc hlen k hk]
    by_cases hbm : b' < m
    · rw [if_pos hbm, if_pos hbm]
      have hidx : k * m + b' < F.coeffsWeights.1.length := by
        rw [hClen]
        calc k * m + b' < k * m + m := by omega
          _ = (k + 1) * m := by ring
          _ ≤ _ := Nat.mul_le_mul_right _ (by omega)
      rw [getD_map_range 0 _ _ _ hidx, (coeffsWeights_getD F m F.npts hnc hlen k b' hk hbm).1,
        bcast_mul_add fac m k b' hfac]
      have := hw k hk
      field_simp
    · rw [if_neg hbm, if_neg hbm]
  have hnc' : (F.nurbsScale fac).ncomp = m + 1 := by
    have h1 : (F.nurbsScale fac).ncomp = prod [F.ncomp - 1] + 1 := by
      unfold Func.nurbsScale
      simp [Func.ncomp, mkNurbs, Index.prod]
    rw [h1, hm1]; simp [Index.prod]
  have hnum : (F.nurbsScale fac).toSpl.gridVal B ys b = F.toSpl.gridVal B ys b * bcast fac b := by
    show contract (F.nurbsScale fac).at (F.nurbsScale fac).ncomp b
        (rows B 0 F.dims ys (List.replicate F.dims.length 0)) 0
      = contract F.at F.ncomp b (rows B 0 F.dims ys (List.replicate F.dims.length 0)) 0 * bcast fac b
    rw [hnc', hnc, contract_eq_nest, contract_eq_nest, ← nest_mul_right]
    apply nest_congr_bounded
    intro k hk
    rw [hs] at hk
    simp only [Nat.zero_mul, Nat.zero_add]
    rw [hat k b hk (by omega), if_pos hb]
  have hden : (F.nurbsScale fac).toSpl.gridVal B ys m = F.toSpl.gridVal B ys m := by
    show contract (F.nurbsScale fac).at (F.nurbsScale fac).ncomp m
        (rows B 0 F.dims ys (List.replicate F.dims.length 0)) 0
      = contract F.at F.ncomp m (rows B 0 F.dims ys (List.replicate F.dims.length 0)) 0
    rw [hnc', hnc, contract_eq_nest, contract_eq_nest]
    apply nest_congr_bounded
    intro k hk
    rw [hs] at hk
    simp only [Nat.zero_mul, Nat.zero_add]
    rw [hat k m hk (Nat.le_refl m), if_neg (Nat.lt_irrefl m)]
  rw [hnum, hden]
  ring



theorem outerOp_length (op : K → K → K) (n1 m1 n2 m2 : Nat) (C1 C2 : List K) :
    (outerOp op n1 m1 n2 m2 C1 C2).length = n1 * (n2 * max m1 m2) := by
  unfold outerOp
  exact length_flatMap_chunks n1 (n2 * max m1 m2) _
    (fun I1 => length_flatMap_chunks n2 (max m1 m2) _ (fun I2 => by simp))

/-- the weight array `W1 ⊗ W2` of an outer operation -/
theorem outerW_getD (n1 n2 : Nat) (W1 W2 : List K) (k1 k2 : Nat) (h1 : k1 < n1) (h2 : k2 < n2) :
    (outerOp (· * ·) n1 1 n2 1 W1 W2).getD (k1 * n2 + k2) 0 = W1.getD k1 0 * W2.getD k2 0 := by
  have := outerOp_getD (· * ·) n1 1 n2 1 W1 W2 k1 k2 0 h1 h2 (by simp)
  simpa using this

/-- entries of the coefficient list of `outer_sum` / `outer_product` with NURBS operands -/
theorem nurbsOuter_at (op : K → K → K) (G1 G2 : Func K) (m1 m2 : Nat)
    (hn1 : G1.ncomp = m1 + 1) (hn2 : G2.ncomp = m2 + 1)
    (hl1 : G1.c.length = G1.npts * (m1 + 1)) (hl2 : G2.c.length = G2.npts * (m2 + 1))
    (hm1 : 0 < m1) (hm2 : 0 < m2)
    (k1 k2 b : Nat) (h1 : k1 < G1.npts) (h2 : k2 < G2.npts) (hb : b ≤ max m1 m2) :
    (nurbsOuter op G1 G2).at ((k1 * G2.npts + k2) * (max m1 m2 + 1) + b)
      = if b < max m1 m2 then
          op (G1.at (k1 * (m1 + 1) + b % m1) / G1.at (k1 * (m1 + 1) + m1))
             (G2.at (k2 * (m2 + 1) + b % m2) / G2.at (k2 * (m2 + 1) + m2))
            * (G1.at (k1 * (m1 + 1) + m1) * G2.at (k2 * (m2 + 1) + m2))
        else G1.at (k1 * (m1 + 1) + m1) * G2.at (k2 * (m2 + 1) + m2) := by
  have e1 : G1.ncomp - 1 = m1 := by omega
  have e2 : G2.ncomp - 1 = m2 := by omega
  have hk : k1 * G2.npts + k2 < G1.npts * G2.npts := by
    calc k1 * G2.npts + k2 < k1 * G2.npts + G2.npts := by omega
      _ = (k1 + 1) * G2.npts := by ring
      _ ≤ _ := Nat.mul_le_mul_right _ (by omega)
  unfold nurbsOuter
  simp only [e1, e2]
  rw [mkNurbs_at' _ (max m1 m2) _ _ (k1 * G2.npts + k2) b
    (by rw [outerOp_length]; simpa using hk) hb,
    outerW_getD G1.npts G2.npts _ _ k1 k2 h1 h2,
    coeffsWeights_W_getD G1 m1 G1.npts hn1 hl1 k1 h1, coeffsWeights_W_getD G2 m2 G2.npts hn2 hl2 k2 h2]
  by_cases hbm : b < max m1 m2
  · rw [if_pos hbm, if_pos hbm, outerOp_getD op G1.npts m1 G2.npts m2 _ _ k1 k2 b h1 h2 hbm,
      (coeffsWeights_getD G1 m1 G1.npts hn1 hl1 k1 (b % m1) h1 (Nat.mod_lt _ hm1)).1,
      (coeffsWeights_getD G2 m2 G2.npts hn2 hl2 k2 (b % m2) h2 (Nat.mod_lt _ hm2)).1]
  · rw [if_neg hbm, if_neg hbm]

/-- **outer_sum / outer_product with NURBS operands, on the model's list-level constructor**
(`coeffs_weights()` of both operands, `C1 ∘ C2`, `W1 * W2`, `NurbsFunc.__init__`): the NURBS value at
the node `ys1 ++ ys2` is `N1(ys1) + N2(ys2)` resp. `N1(ys1) · N2(ys2)` (components broadcast),
for every pair of source dimensions; needs non-zero control weights and weight functions only. -/
theorem outer_nurbs_model {X : Type} (G1 G2 : Func K) (m1 m2 : Nat) (B : Nat → X → Info K)
    (ys1 ys2 : List X) (b : Nat)
    (hn1 : G1.ncomp = m1 + 1) (hn2 : G2.ncomp = m2 + 1)
    (hlen1 : G1.c.length = G1.npts * (m1 + 1)) (hlen2 : G2.c.length = G2.npts * (m2 + 1))
    (hm1 : 0 < m1) (hm2 : 0 < m2)
    (hl1 : ys1.length = G1.dims.length) (hl2 : ys2.length = G2.dims.length)
    (hb : b < max m1 m2)
    (hw1 : ∀ k, k < G1.npts → G1.at (k * (m1 + 1) + m1) ≠ 0)
    (hw2 : ∀ k, k < G2.npts → G2.at (k * (m2 + 1) + m2) ≠ 0)
    (hW1 : contract G1.at (m1 + 1) m1 (rows B 0 G1.dims ys1 (List.replicate G1.dims.length 0)) 0 ≠ 0)
    (hW2 : contract G2.at (m2 + 1) m2 (rows B G1.dims.length G2.dims ys2 (List.replicate G2.dims.length 0)) 0 ≠ 0) :
    let r1 := rows B 0 G1.dims ys1 (List.replicate G1.dims.length 0)
    let r2 := rows B G1.dims.length G2.dims ys2 (List.replicate G2.dims.length 0)
    let N1 := contract G1.at (m1 + 1) (b % m1) r1 0 / contract G1.at (m1 + 1) m1 r1 0
    let N2 := contract G2.at (m2 + 1) (b % m2) r2 0 / contract G2.at (m2 + 1) m2 r2 0
    (nurbsOuter (· + ·) G1 G2).toSpl.gridVal B (ys1 ++ ys2) b
        / (nurbsOuter (· + ·) G1 G2).toSpl.gridVal B (ys1 ++ ys2) (max m1 m2) = N1 + N2 ∧
    (nurbsOuter (· * ·) G1 G2).toSpl.gridVal B (ys1 ++ ys2) b
        / (nurbsOuter (· * ·) G1 G2).toSpl.gridVal B (ys1 ++ ys2) (max m1 m2) = N1 * N2 := by
  intro r1 r2 N1 N2
  have hs1 : size r1 = G1.npts := size_rows B G1.dims ys1 _ 0 hl1 (by simp)
  have hs2 : size r2 = G2.npts := size_rows B G2.dims ys2 _ G1.dims.length hl2 (by simp)
  have e1 : G1.ncomp - 1 = m1 := by omega
  have e2 : G2.ncomp - 1 = m2 := by omega
  have hncR : ∀ op : K → K → K, (nurbsOuter op G1 G2).ncomp = max m1 m2 + 1 := by
    intro op
    have : (nurbsOuter op G1 G2).ncomp = prod [max (G1.ncomp - 1) (G2.ncomp - 1)] + 1 := by
      unfold nurbsOuter; simp [Func.ncomp, mkNurbs, Index.prod]
    rw [this, e1, e2]; simp [Index.prod]
  have hrows : ∀ op : K → K → K, ∀ j,
      (nurbsOuter op G1 G2).toSpl.gridVal B (ys1 ++ ys2) j
        = nest (fun k => (nurbsOuter op G1 G2).at (k * (max m1 m2 + 1) + j)) (r1 ++ r2) 0 := by
    intro op j
    show contract (nurbsOuter op G1 G2).at (nurbsOuter op G1 G2).ncomp j
        (rows B 0 (G1.dims ++ G2.dims) (ys1 ++ ys2) (List.replicate (G1.dims ++ G2.dims).length 0)) 0 = _
    rw [hncR, List.length_append, List.replicate_add,
      rows_append B G2.dims ys2 _ G1.dims ys1 _ 0 hl1 (by simp), Nat.zero_add, contract_eq_nest]
  rw [hrows, hrows, hrows, hrows]
  have key := outer_nurbs_law r1 r2
    (fun k1 => G1.at (k1 * (m1 + 1) + b % m1)) (fun k1 => G1.at (k1 * (m1 + 1) + m1))
    (fun k2 => G2.at (k2 * (m2 + 1) + b % m2)) (fun k2 => G2.at (k2 * (m2 + 1) + m2))
    (fun k => (nurbsOuter (· + ·) G1 G2).at (k * (max m1 m2 + 1) + b))
    (fun k => (nurbsOuter (· * ·) G1 G2).at (k * (max m1 m2 + 1) + b))
    (fun k => (nurbsOuter (· + ·) G1 G2).at (k * (max m1 m2 + 1) + max m1 m2))
    (fun k1 k2 hk1 hk2 => by
      rw [hs1] at hk1; rw [hs2] at hk2; rw [hs2]
      rw [nurbsOuter_at (· + ·) G1 G2 m1 m2 hn1 hn2 hlen1 hlen2 hm1 hm2 k1 k2 b hk1 hk2 (by omega), if_pos hb])
    (fun k1 k2 hk1 hk2 => by
      rw [hs1] at hk1; rw [hs2] at hk2; rw [hs2]
      rw [nurbsOuter_at (· * ·) G1 G2 m1 m2 hn1 hn2 hlen1 hlen2 hm1 hm2 k1 k2 b hk1 hk2 (by omega), if_pos hb])
    (fun k1 k2 hk1 hk2 => by
      rw [hs1] at hk1; rw [hs2] at hk2; rw [hs2]
      rw [nurbsOuter_at (· + ·) G1 G2 m1 m2 hn1 hn2 hlen1 hlen2 hm1 hm2 k1 k2 _ hk1 hk2 (Nat.le_refl _),
        if_neg (Nat.lt_irrefl _)])
    (fun k hk => hw1 k (by rw [hs1] at hk; exact hk))
    (fun k hk => hw2 k (by rw [hs2] at hk; exact hk))
    (by simpa [contract_eq_nest] using hW1) (by simpa [contract_eq_nest] using hW2)
  -- the product uses the same weight array
  have hwsame : ∀ k, k < size (r1 ++ r2) →
      (nurbsOuter (· * ·) G1 G2).at (0 * size (r1 ++ r2) + k * (max m1 m2 + 1) + max m1 m2)
        = (nurbsOuter (· + ·) G1 G2).at (0 * size (r1 ++ r2) + k * (max m1 m2 + 1) + max m1 m2) := by
    intro k hk
    rw [size_append, hs1, hs2] at hk
    simp only [Nat.zero_mul, Nat.zero_add]
    have hG2 : 0 < G2.npts := by
      rcases Nat.eq_zero_or_pos G2.npts with h | h
      · rw [h] at hk; simp at hk
      · exact h
    have hk1 : k / G2.npts < G1.npts := Nat.div_lt_of_lt_mul (by rw [Nat.mul_comm]; exact hk)
    have hk2 : k % G2.npts < G2.npts := Nat.mod_lt _ hG2
    have hk' : k = (k / G2.npts) * G2.npts + k % G2.npts := by
      rw [Nat.mul_comm]; exact (Nat.div_add_mod k G2.npts).symm
    rw [hk', nurbsOuter_at (· * ·) G1 G2 m1 m2 hn1 hn2 hlen1 hlen2 hm1 hm2 _ _ _ hk1 hk2 (Nat.le_refl _),
      nurbsOuter_at (· + ·) G1 G2 m1 m2 hn1 hn2 hlen1 hlen2 hm1 hm2 _ _ _ hk1 hk2 (Nat.le_refl _),
      if_neg (Nat.lt_irrefl _), if_neg (Nat.lt_irrefl _)]
  have hden : nest (fun k => (nurbsOuter (· * ·) G1 G2).at (k * (max m1 m2 + 1) + max m1 m2)) (r1 ++ r2) 0
      = nest (fun k => (nurbsOuter (· + ·) G1 G2).at (k * (max m1 m2 + 1) + max m1 m2)) (r1 ++ r2) 0 := by
    apply nest_congr_bounded
    intro k hk
    have := hwsame k hk
    simpa using this
  rw [hden]
  simp only [N1, N2, contract_eq_nest]
  exact key



/-- **tensor_product with NURBS operands** (index-formula level): premultiplying the joined
de-premultiplied control points with `W1·W2` and dividing by the weight spline `W1(y)·W2(x)` gives
`G2`'s NURBS value in the first `m2` components and `G1`'s in the rest. -/
theorem tensor_nurbs_law (r1 r2 : List (Nat × (Nat → K))) (c1 w1 c2 w2 cn w : Nat → K) (first : Prop) [Decidable first]
    (hn : ∀ k1 k2, k1 < size r1 → k2 < size r2 → cn (k1 * size r2 + k2)
        = (if first then c2 k2 / w2 k2 else c1 k1 / w1 k1) * (w1 k1 * w2 k2))
    (hw : ∀ k1 k2, k1 < size r1 → k2 < size r2 → w (k1 * size r2 + k2) = w1 k1 * w2 k2)
    (hw1 : ∀ k, k < size r1 → w1 k ≠ 0) (hw2 : ∀ k, k < size r2 → w2 k ≠ 0)
    (hW1 : nest w1 r1 0 ≠ 0) (hW2 : nest w2 r2 0 ≠ 0) :
    nest cn (r1 ++ r2) 0 / nest w (r1 ++ r2) 0
      = if first then nest c2 r2 0 / nest w2 r2 0 else nest c1 r1 0 / nest w1 r1 0 := by
  have eW : nest w (r1 ++ r2) 0 = nest w1 r1 0 * nest w2 r2 0 := by
    rw [nest_two' w r1 r2 (fun k1 k2 => w1 k1 * w2 k2) hw, nest_congr (fun k1 => nest_smul _ _ _ _), nest_mul_right]
  by_cases hf : first
  · have hn' : ∀ k1 k2, k1 < size r1 → k2 < size r2 → cn (k1 * size r2 + k2) = w1 k1 * c2 k2 := by
      intro k1 k2 hk1 hk2; rw [hn k1 k2 hk1 hk2, if_pos hf]; have := hw2 k2 hk2; field_simp
    rw [if_pos hf, eW, nest_two' cn r1 r2 (fun k1 k2 => w1 k1 * c2 k2) hn',
      nest_congr (fun k1 => nest_smul _ _ _ _), nest_mul_right]
    field_simp
  · have hn' : ∀ k1 k2, k1 < size r1 → k2 < size r2 → cn (k1 * size r2 + k2) = c1 k1 * w2 k2 := by
      intro k1 k2 hk1 hk2; rw [hn k1 k2 hk1 hk2, if_neg hf]; have := hw1 k1 hk1; field_simp
    rw [if_neg hf, eW, nest_two' cn r1 r2 (fun k1 k2 => c1 k1 * w2 k2) hn',
      nest_congr (fun k1 => nest_smul _ _ _ _), nest_mul_right]
    field_simp

/-- entries of the coefficient list of `tensor_product` with NURBS operands -/
theorem nurbsTensor_at (G1 G2 : Func K) (m1 m2 : Nat)
    (hn1 : G1.ncomp = m1 + 1) (hn2 : G2.ncomp = m2 + 1)
    (hl1 : G1.c.length = G1.npts * (m1 + 1)) (hl2 : G2.c.length = G2.npts * (m2 + 1))
    (k1 k2 b : Nat) (h1 : k1 < G1.npts) (h2 : k2 < G2.npts) (hb : b ≤ m1 + m2) :
    (nurbsTensor G1 G2).at ((k1 * G2.npts + k2) * (m1 + m2 + 1) + b)
      = if b < m1 + m2 then
          (if b < m2 then G2.at (k2 * (m2 + 1) + b) / G2.at (k2 * (m2 + 1) + m2)
           else G1.at (k1 * (m1 + 1) + (b - m2)) / G1.at (k1 * (m1 + 1) + m1))
            * (G1.at (k1 * (m1 + 1) + m1) * G2.at (k2 * (m2 + 1) + m2))
        else G1.at (k1 * (m1 + 1) + m1) * G2.at (k2 * (m2 + 1) + m2) := by
  have e1 : G1.ncomp - 1 = m1 := by omega
  have e2 : G2.ncomp - 1 = m2 := by omega
  have hk : k1 * G2.npts + k2 < G1.npts * G2.npts := by
    calc k1 * G2.npts + k2 < k1 * G2.npts + G2.npts := by omega
      _ = (k1 + 1) * G2.npts := by ring
      _ ≤ _ := Nat.mul_le_mul_right _ (by omega)
  unfold nurbsTensor
  simp only [e1, e2]
  rw [mkNurbs_at' _ (m1 + m2) _ _ (k1 * G2.npts + k2) b
    (by rw [outerOp_length]; simpa using hk) hb,
    outerW_getD G1.npts G2.npts _ _ k1 k2 h1 h2,
    coeffsWeights_W_getD G1 m1 G1.npts hn1 hl1 k1 h1, coeffsWeights_W_getD G2 m2 G2.npts hn2 hl2 k2 h2]
  by_cases hbm : b < m1 + m2
  · rw [if_pos hbm, if_pos hbm, tensorC_getD G1.npts m1 G2.npts m2 _ _ k1 k2 b h1 h2 hbm]
    by_cases hb2 : b < m2
    · rw [if_pos hb2, if_pos hb2, (coeffsWeights_getD G2 m2 G2.npts hn2 hl2 k2 b h2 hb2).1]
    · rw [if_neg hb2, if_neg hb2, (coeffsWeights_getD G1 m1 G1.npts hn1 hl1 k1 (b - m2) h1 (by omega)).1]
  · rw [if_neg hbm, if_neg hbm]

/-- **tensor_product with NURBS operands, on the model's list-level constructor**: at the node
`ys1 ++ ys2` the first `m2` components are `G2`'s NURBS value, the rest `G1`'s —
`G(x, y) = (G2(x), G1(y))` — for every pair of source dimensions. -/
theorem tensor_nurbs_model {X : Type} (G1 G2 : Func K) (m1 m2 : Nat) (B : Nat → X → Info K)
    (ys1 ys2 : List X) (b : Nat)
    (hn1 : G1.ncomp = m1 + 1) (hn2 : G2.ncomp = m2 + 1)
    (hlen1 : G1.c.length = G1.npts * (m1 + 1)) (hlen2 : G2.c.length = G2.npts * (m2 + 1))
    (hl1 : ys1.length = G1.dims.length) (hl2 : ys2.length = G2.dims.length)
    (hb : b < m1 + m2)
    (hw1 : ∀ k, k < G1.npts → G1.at (k * (m1 + 1) + m1) ≠ 0)
    (hw2 : ∀ k, k < G2.npts → G2.at (k * (m2 + 1) + m2) ≠ 0)
    (hW1 : contract G1.at (m1 + 1) m1 (rows B 0 G1.dims ys1 (List.replicate G1.dims.length 0)) 0 ≠ 0)
    (hW2 : contract G2.at (m2 + 1) m2 (rows B G1.dims.length G2.dims ys2 (List.replicate G2.dims.length 0)) 0 ≠ 0) :
    let r1 := rows B 0 G1.dims ys1 (List.replicate G1.dims.length 0)
    let r2 := rows B G1.dims.length G2.dims ys2 (List.replicate G2.dims.length 0)
    (nurbsTensor G1 G2).toSpl.gridVal B (ys1 ++ ys2) b
        / (nurbsTensor G1 G2).toSpl.gridVal B (ys1 ++ ys2) (m1 + m2)
      = if b < m2 then contract G2.at (m2 + 1) b r2 0 / contract G2.at (m2 + 1) m2 r2 0
        else contract G1.at (m1 + 1) (b - m2) r1 0 / contract G1.at (m1 + 1) m1 r1 0 := by
  intro r1 r2
  have hs1 : size r1 = G1.npts := size_rows B G1.dims ys1 _ 0 hl1 (by simp)
  have hs2 : size r2 = G2.npts := size_rows B G2.dims ys2 _ G1.dims.length hl2 (by simp)
  have e1 : G1.ncomp - 1 = m1 := by omega
  have e2 : G2.ncomp - 1 = m2 := by omega
  have hncR : (nurbsTensor G1 G2).ncomp = m1 + m2 + 1 := by
    have : (nurbsTensor G1 G2).ncomp = prod [(G1.ncomp - 1) + (G2.ncomp - 1)] + 1 := by
      unfold nurbsTensor; simp [Func.ncomp, mkNurbs, Index.prod]
    rw [this, e1, e2]; simp [Index.prod]
  have hrows : ∀ j, (nurbsTensor G1 G2).toSpl.gridVal B (ys1 ++ ys2) j
        = nest (fun k => (nurbsTensor G1 G2).at (k * (m1 + m2 + 1) + j)) (r1 ++ r2) 0 := by
    intro j
    show contract (nurbsTensor G1 G2).at (nurbsTensor G1 G2).ncomp j
        (rows B 0 (G1.dims ++ G2.dims) (ys1 ++ ys2) (List.replicate (G1.dims ++ G2.dims).length 0)) 0 = _
    rw [hncR, List.length_append, List.replicate_add,
      rows_append B G2.dims ys2 _ G1.dims ys1 _ 0 hl1 (by simp), Nat.zero_add, contract_eq_nest]
  rw [hrows, hrows]
  simp only [contract_eq_nest]
  exact tensor_nurbs_law r1 r2
    (fun k1 => G1.at (k1 * (m1 + 1) + (b - m2))) (fun k1 => G1.at (k1 * (m1 + 1) + m1))
    (fun k2 => G2.at (k2 * (m2 + 1) + b)) (fun k2 => G2.at (k2 * (m2 + 1) + m2))
    _ _ (b < m2)
    (fun k1 k2 hk1 hk2 => by
      rw [hs1] at hk1; rw [hs2] at hk2; rw [hs2]
      rw [nurbsTensor_at G1 G2 m1 m2 hn1 hn2 hlen1 hlen2 k1 k2 b hk1 hk2 (by omega), if_pos hb])
    (fun k1 k2 hk1 hk2 => by
      rw [hs1] at hk1; rw [hs2] at hk2; rw [hs2]
      rw [nurbsTensor_at G1 G2 m1 m2 hn1 hn2 hlen1 hlen2 k1 k2 _ hk1 hk2 (Nat.le_refl _),
        if_neg (Nat.lt_irrefl _)])
    (fun k hk => hw1 k (by rw [hs1] at hk; exact hk))
    (fun k hk => hw2 k (by rw [hs2] at hk; exact hk))
    (by simpa [contract_eq_nest] using hW1) (by simpa [contract_eq_nest] using hW2)


/-! ### ComposedFunction -/

/-- **composed_jet** (first order; `ComposedFunction` offers no Hessian).  Let `geo2`'s component be
any rational expression `p` in `n₂` variables (a spline piece is a polynomial, a NURBS piece a
quotient) and let `u₀ … u_{n₂-1}` be the jets of `geo1`'s components at a point.  The jet of
`p ∘ geo1`, obtained by evaluating `p` in the jet algebra, has value `p(geo1(x))` and gradient
`Σ_e ∂_e p(geo1(x)) · ∇(geo1)_e` — for every `n₂`, every number of source variables. -/
theorem composed_jet (n2 : Nat) (u : Nat → Jet K) (p : RExpr K) (hv : p.VarsBelow n2)
    (hd : p.Defined (fun e => (u e).v)) :
    (p.jet u).v = p.eval (fun e => (u e).v) ∧
    ∀ m, (p.jet u).g m = sumTo n2 (fun e => p.deriv (fun e => (u e).v) e * (u e).g m) :=
  ⟨RExpr.jet_v u p, RExpr.jet_g n2 u p hv hd⟩

/-- **the coded chain rule**: `ComposedFunction.grid_jacobian = np.matmul(jac2, jac1)` with
`jac2[a][e] = ∂_e p_a` at `geo1(x)` (columns = xyz arguments of `geo2` = components of `geo1`) and
`jac1[e] = ∇(geo1)_e` in the library's row layout is the Jacobian (rows `packG`) of the composition,
for every number of components and variables. -/
theorem composed_jacobian (n1 n2 : Nat) (hn2 : 0 < n2) (u : Nat → Jet K) (ps : List (RExpr K))
    (hv : ∀ p ∈ ps, p.VarsBelow n2) (hd : ∀ p ∈ ps, p.Defined (fun e => (u e).v)) :
    composedJac (ps.map (fun p => (List.range n2).map (fun e => p.deriv (fun e => (u e).v) e)))
        ((List.range n2).map (fun e => packG n1 (u e)))
      = ps.map (fun p => packG n1 (p.jet u)) := by
  unfold composedJac matMul
  rw [List.map_map]
  apply List.map_congr_left
  intro p hp
  simp only [Function.comp, packG]
  have hhead : (((List.range n2).map (fun e => (List.range n1).map (u e).g)).headD []).length = n1 := by
    obtain ⟨k, rfl⟩ : ∃ k, n2 = k + 1 := ⟨n2 - 1, by omega⟩
    rw [List.range_succ_eq_map]; simp
  rw [hhead]
  apply List.map_congr_left
  intro m hm
  have hm' : m < n1 := List.mem_range.1 hm
  rw [(composed_jet n2 u p (hv p hp) (hd p hp)).2 m]
  simp only [List.length_map, List.length_range]
  apply sumTo_congr
  intro e he
  rw [getD_map_range 0 n2 _ e he]
  congr 1
  have : ((List.range n2).map (fun e => (List.range n1).map (u e).g)).getD e [] = (List.range n1).map (u e).g :=
    getD_map_range [] n2 _ e he
  rw [this, getD_map_range 0 n1 _ m hm']

/-- **composed value route**: `ComposedFunction.grid_eval` hands component `e` of `geo1`'s value to
`geo2`'s scattered route as xyz coordinate `e`; by `routes_agree` this is `geo2`'s nested sum with
coefficient axis `k` evaluated at component `sdim₂-1-k` of `geo1(x)` — the same pairing as
`geo2(*geo1(x))`. -/
theorem composed_value_route {X : Type} [Inhabited X] (S2 : Spl K) (B2 : Nat → X → Info K) (mid : List X) (j : Nat)
    (h : Fits B2 0 S2.dims mid.reverse) :
    composedVal S2 B2 mid j = S2.gridVal B2 mid.reverse j ∧ composedVal S2 B2 mid j = S2.call B2 mid j := by
  have := routes_agree S2 B2 mid [] j h
  exact ⟨this.2.1, this.2.1.trans this.2.2.symm⟩


/-! ### remaining NURBS constructors on list level -/

/-- **NurbsFunc.as_vector, on the model's list-level constructor**: only the scalar flag (output
shape) changes; coefficients, hence every value, Jacobian and Hessian, are the same. -/
theorem as_vector_nurbs_model (F : Func K) : F.nurbsAsVector.toSpl = F.toSpl ∧ F.nurbsAsVector.c = F.c :=
  ⟨rfl, rfl⟩

/-- **NurbsFunc.__getitem__(I), on the model's list-level constructor**
(`NurbsFunc(kvs, coeffs[..., :-1][..., I], coeffs[..., -1], premultiplied=True)`): the NURBS value of
the result is component `I` of the NURBS value, at every node, every sdim. -/
theorem getitem_nurbs_model {X : Type} (F : Func K) (m I : Nat) (B : Nat → X → Info K) (ys : List X)
    (hnc : F.ncomp = m + 1) (hlen : F.c.length = F.npts * (m + 1)) (hl : ys.length = F.dims.length) :
    (F.nurbsGetItem I).toSpl.gridVal B ys 0 / (F.nurbsGetItem I).toSpl.gridVal B ys 1
      = F.toSpl.gridVal B ys I / F.toSpl.gridVal B ys m := by
  have hs := size_rows B F.dims ys (List.replicate F.dims.length 0) 0 hl (by simp)
  have hdiv : F.c.length / (m + 1) = F.npts := by rw [hlen]; exact Nat.mul_div_cancel _ (by omega)
  have hnc' : (F.nurbsGetItem I).ncomp = 2 := by
    unfold Func.nurbsGetItem; simp [Func.ncomp, mkNurbs, Index.prod]
  have hat : ∀ k b, k < F.npts → b ≤ 1 → (F.nurbsGetItem I).at (k * 2 + b)
      = if b < 1 then F.at (k * (m + 1) + I) else F.at (k * (m + 1) + m) := by
    intro k b hk hb
    unfold Func.nurbsGetItem
    simp only [hnc, hdiv]
    have hp : prod ([] : List Nat) = 1 := by simp [Index.prod]
    have := mkNurbs_at F.dims [] ((List.range F.npts).map (fun k => F.at (k * (m + 1) + I)))
      ((List.range F.npts).map (fun k => F.at (k * (m + 1) + (m + 1) - 1))) true k b (by simpa using hk)
      (by rw [hp]; exact hb)
    rw [hp] at this
    rw [this]
    by_cases hb0 : b < 1
    · have : b = 0 := by omega
      subst this
      simp only [if_pos hb0, if_true, Nat.mul_one, Nat.add_zero]
      exact getD_map_range 0 _ _ k hk
    · simp only [if_neg hb0]
      rw [getD_map_range 0 _ _ k hk]
      congr 1
  have e0 : (F.nurbsGetItem I).toSpl.gridVal B ys 0 = F.toSpl.gridVal B ys I := by
    show contract (F.nurbsGetItem I).at (F.nurbsGetItem I).ncomp 0 (rows B 0 F.dims ys (List.replicate F.dims.length 0)) 0
      = contract F.at F.ncomp I (rows B 0 F.dims ys (List.replicate F.dims.length 0)) 0
    rw [hnc', hnc, contract_eq_nest, contract_eq_nest]
    apply nest_congr_bounded
    intro k hk; rw [hs] at hk
    simp only [Nat.zero_mul, Nat.zero_add]
    rw [hat k 0 hk (by omega), if_pos (by omega)]
  have e1 : (F.nurbsGetItem I).toSpl.gridVal B ys 1 = F.toSpl.gridVal B ys m := by
    show contract (F.nurbsGetItem I).at (F.nurbsGetItem I).ncomp 1 (rows B 0 F.dims ys (List.replicate F.dims.length 0)) 0
      = contract F.at F.ncomp m (rows B 0 F.dims ys (List.replicate F.dims.length 0)) 0
    rw [hnc', hnc, contract_eq_nest, contract_eq_nest]
    apply nest_congr_bounded
    intro k hk; rw [hs] at hk
    simp only [Nat.zero_mul, Nat.zero_add]
    rw [hat k 1 hk (Nat.le_refl 1), if_neg (by omega)]
  rw [e0, e1]

/-- **NurbsFunc.apply_matrix(A), on the model's list-level constructor** (de-premultiply, multiply
every control point by `A`, premultiply again): the NURBS value is `A` times the old NURBS value. -/
theorem apply_matrix_nurbs_model {X : Type} (F : Func K) (A : List (List K)) (m : Nat) (B : Nat → X → Info K)
    (ys : List X) (a : Nat)
    (hnc : F.ncomp = m + 1) (hm : 0 < m) (hlen : F.c.length = F.npts * (m + 1)) (hl : ys.length = F.dims.length)
    (ha : a < A.length)
    (hw : ∀ I, I < F.npts → F.at (I * (m + 1) + m) ≠ 0) :
    (F.nurbsApplyMatrix A).toSpl.gridVal B ys a / (F.nurbsApplyMatrix A).toSpl.gridVal B ys A.length
      = sumTo m (fun b => (A.getD a []).getD b 0 * (F.toSpl.gridVal B ys b / F.toSpl.gridVal B ys m)) := by
  have hs := size_rows B F.dims ys (List.replicate F.dims.length 0) 0 hl (by simp)
  obtain ⟨hWlen, hClen⟩ := coeffsWeights_lengths F m F.npts hnc hlen
  have hm1 : F.ncomp - 1 = m := by omega
  have hCdiv : F.coeffsWeights.1.length / m = F.npts := by rw [hClen]; exact Nat.mul_div_cancel _ hm
  have hat : ∀ k a', k < F.npts → a' ≤ A.length → (F.nurbsApplyMatrix A).at (k * (A.length + 1) + a')
      = if a' < A.length then sumTo m (fun b => (A.getD a' []).getD b 0 * F.at (k * (m + 1) + b))
        else F.at (k * (m + 1) + m) := by
    intro k a' hk ha'
    unfold Func.nurbsApplyMatrix
    simp only [hm1]
    rw [mkNurbs_at' F.dims A.length _ _ k a' (by rw [hWlen]; exact hk) ha',
      coeffsWeights_W_getD F m F.npts hnc hlen k hk]
    by_cases h : a' < A.length
    · rw [if_pos h, if_pos h, matApply_getD A m _ k a' (by rw [hCdiv]; exact hk) h, ← sumTo_mul_right]
      apply sumTo_congr
      intro b hb
      rw [(coeffsWeights_getD F m F.npts hnc hlen k b hk hb).1]
      have := hw k hk
      field_simp
    · rw [if_neg h, if_neg h]
  have hnc' : (F.nurbsApplyMatrix A).ncomp = A.length + 1 := by
    unfold Func.nurbsApplyMatrix; simp [Func.ncomp, mkNurbs, Index.prod]
  have hnum : (F.nurbsApplyMatrix A).toSpl.gridVal B ys a
      = sumTo m (fun b => (A.getD a []).getD b 0 * F.toSpl.gridVal B ys b) := by
    show contract (F.nurbsApplyMatrix A).at (F.nurbsApplyMatrix A).ncomp a
        (rows B 0 F.dims ys (List.replicate F.dims.length 0)) 0
      = sumTo m (fun b => (A.getD a []).getD b 0
          * contract F.at F.ncomp b (rows B 0 F.dims ys (List.replicate F.dims.length 0)) 0)
    rw [hnc', hnc, contract_eq_nest]
    simp only [contract_eq_nest]
    rw [sumTo_congr (fun b _ => (nest_smul _ _ _ _).symm), ← nest_sumTo]
    apply nest_congr_bounded
    intro k hk; rw [hs] at hk
    simp only [Nat.zero_mul, Nat.zero_add]
    rw [hat k a hk (by omega), if_pos ha]
  have hden : (F.nurbsApplyMatrix A).toSpl.gridVal B ys A.length = F.toSpl.gridVal B ys m := by
    show contract (F.nurbsApplyMatrix A).at (F.nurbsApplyMatrix A).ncomp A.length
        (rows B 0 F.dims ys (List.replicate F.dims.length 0)) 0
      = contract F.at F.ncomp m (rows B 0 F.dims ys (List.replicate F.dims.length 0)) 0
    rw [hnc', hnc, contract_eq_nest, contract_eq_nest]
    apply nest_congr_bounded
    intro k hk; rw [hs] at hk
    simp only [Nat.zero_mul, Nat.zero_add]
    rw [hat k A.length hk (Nat.le_refl _), if_neg (Nat.lt_irrefl _)]
  rw [hnum, hden, div_eq_mul_inv, ← sumTo_mul_right]
  apply sumTo_congr
  intro b _
  rw [div_eq_mul_inv]; ring


/-! ### line_segment, identity, unit_cube, cylinderize, quarter_annulus (polar), disk assembly -/

omit [Field K] in
theorem getD_flatMap_list {β γ : Type} (d : γ) (d0 : β) (f : β → List γ) (L : Nat) (hL : ∀ x, (f x).length = L) :
    ∀ (l : List β) (k b : Nat), k < l.length → b < L →
      (l.flatMap f).getD (k * L + b) d = (f (l.getD k d0)).getD b d
  | [], k, b, hk, _ => by simp at hk
  | x :: l, 0, b, _, hb => by
    simp only [List.flatMap_cons, Nat.zero_mul, Nat.zero_add, List.getD_eq_getElem?_getD]
    rw [List.getElem?_append_left (by rw [hL]; exact hb)]
    simp
  | x :: l, k + 1, b, hk, hb => by
    have ih := getD_flatMap_list d d0 f L hL l k b (by simpa using hk) hb
    simp only [List.flatMap_cons, List.getD_eq_getElem?_getD] at ih ⊢
    have hge : L ≤ (k + 1) * L + b := by rw [Nat.add_mul, Nat.one_mul]; omega
    rw [List.getElem?_append_right (by rw [hL]; exact hge)]
    rw [hL, show (k + 1) * L + b - L = k * L + b by
      rw [Nat.add_mul, Nat.one_mul]; omega]
    simpa using ih

/-- entries of `line_segment(x0, x1, intervals)`: `coeffs[k] = (1-S[k])*x0 + S[k]*x1` -/
theorem lineSegment_at (x0 x1 S : List K) (k b : Nat) (hk : k < S.length) (hb : b < x0.length)
    (hx : x1.length = x0.length) :
    (lineSegment x0 x1 S).at (k * x0.length + b)
      = (1 - S.getD k 0) * x0.getD b 0 + S.getD k 0 * x1.getD b 0 := by
  unfold lineSegment Func.at
  simp only
  rw [getD_flatMap_list 0 0 _ x0.length (by intro s; simp [hx]) S k b hk hb]
  simp [List.getD_eq_getElem?_getD, hb, hx ▸ hb]

/-- **line_segment**: if the linear B-splines at the parameter sum to one and reproduce the
breakpoint parameters (`Σ_k N_k S_k = t`: linear precision — on `make_knots(1, a, b, n)` this is
`t = (u-a)/(b-a)`), the curve is `(1-t)·x0 + t·x1`, the line between `x0` and `x1`. -/
theorem line_segment_law (x0 x1 S : List K) (r : Nat → K) (t : K) (b : Nat)
    (hb : b < x0.length) (hx : x1.length = x0.length)
    (hpu : sumTo S.length r = 1) (hlin : sumTo S.length (fun k => r k * S.getD k 0) = t) :
    contract (lineSegment x0 x1 S).at x0.length b [(S.length, r)] 0
      = (1 - t) * x0.getD b 0 + t * x1.getD b 0 := by
  simp only [contract, Nat.zero_mul, Nat.zero_add]
  rw [sumTo_congr (fun k hk => by rw [lineSegment_at x0 x1 S k b hk hb hx])]
  have : ∀ k, r k * ((1 - S.getD k 0) * x0.getD b 0 + S.getD k 0 * x1.getD b 0)
      = r k * x0.getD b 0 + (r k * S.getD k 0) * (x1.getD b 0 - x0.getD b 0) := by intro k; ring
  rw [sumTo_congr (fun k _ => this k), sumTo_add, sumTo_mul_right, sumTo_mul_right, hpu, hlin]
  ring

/-- **identity(extents), one axis**: `line_segment(a, b, support=(a, b))` with the hat functions
`N₀ = (b-u)/(b-a)`, `N₁ = (u-a)/(b-a)` of `make_knots(1, a, b, 1)` is the identity `u ↦ u`. -/
theorem identity_axis (a b u : K) (hab : b - a ≠ 0) :
    contract (lineSegment [a] [b] [0, 1]).at 1 0
      [(2, fun k => if k = 0 then (b - u) / (b - a) else (u - a) / (b - a))] 0 = u := by
  have := line_segment_law [a] [b] [0, 1] (fun k => if k = 0 then (b - u) / (b - a) else (u - a) / (b - a))
    ((u - a) / (b - a)) 0 (by simp) rfl
    (by simp [sumTo]; field_simp; ring) (by simp [sumTo])
  simp only [List.length_cons, List.length_nil] at this
  rw [this]
  simp
  field_simp
  ring

/-- **quarter_annulus = polar map**: the premultiplied numerator is `radius(x) ·` (numerator of the
unit quarter arc in `y`) and the weight function is the arc's weight function: the map is
`(x, y) ↦ (L₀r₁ + L₁r₂) · arc(y)`, i.e. polar coordinates restricted to `[r₁, r₂] × [0, π/2]`. -/
theorem quarter_annulus_polar (r1 r2 w L0 L1 b0 b1 b2 : K) (hL : L0 + L1 = 1) :
    (L0 * (b0 * (r1 * 1) + b1 * (r1 * w) + b2 * (0 * 1)) + L1 * (b0 * (r2 * 1) + b1 * (r2 * w) + b2 * (0 * 1))
        = (L0 * r1 + L1 * r2) * (b0 * 1 + b1 * w + b2 * 0)) ∧
    (L0 * (b0 * (0 * 1) + b1 * (r1 * w) + b2 * (r1 * 1)) + L1 * (b0 * (0 * 1) + b1 * (r2 * w) + b2 * (r2 * 1))
        = (L0 * r1 + L1 * r2) * (b0 * 0 + b1 * w + b2 * 1)) ∧
    (L0 * (b0 * 1 + b1 * w + b2 * 1) + L1 * (b0 * 1 + b1 * w + b2 * 1) = b0 * 1 + b1 * w + b2 * 1) := by
  refine ⟨by ring, by ring, ?_⟩
  linear_combination (b0 * 1 + b1 * w + b2 * 1) * hL


omit [Field K] in
theorem foldl_replicate_succ {β γ : Type} (f : γ → β → γ) (a : γ) (x : β) (k : Nat) :
    (List.replicate (k + 1) x).foldl f a = f ((List.replicate k x).foldl f a) x := by
  rw [List.replicate_succ', List.foldl_append]; rfl

theorem unitCube_one (S : List K) : unitCube 1 S = lineSegment [0] [1] S := rfl

theorem unitCube_succ (d : Nat) (S : List K) :
    unitCube (d + 2) S = bspTensor (unitCube (d + 1) S) (lineSegment [0] [1] S) := by
  unfold unitCube reduceTensor
  simp only [List.replicate_succ (n := d + 1)]
  rw [List.replicate_succ (n := d)]
  exact foldl_replicate_succ bspTensor _ _ d

theorem unitCube_shape (S : List K) : ∀ d, (unitCube (d + 1) S).dims = List.replicate (d + 1) S.length ∧
    (unitCube (d + 1) S).ncomp = d + 1
  | 0 => by simp [unitCube_one, lineSegment, Func.ncomp, Index.prod]
  | d + 1 => by
    obtain ⟨h1, h2⟩ := unitCube_shape S d
    rw [unitCube_succ]
    constructor
    · simp only [bspTensor, h1, lineSegment]
      rw [List.replicate_succ' (n := d + 1)]
    · simp only [bspTensor, Func.ncomp, Index.prod, List.foldr_cons, List.foldr_nil, Nat.mul_one]
      have : (lineSegment [0] [1] S : Func K).ncomp = 1 := by simp [lineSegment, Func.ncomp, Index.prod]
      simp only [Func.ncomp, Index.prod] at h2 this
      rw [h2, this]

theorem pu_rows_replicate {X : Type} (B : Nat → X → Info K) (n : Nat)
    (hpu : ∀ i y, sumTo n ((B i y).dense 0) = 1) :
    ∀ (m i : Nat) (ys : List X), PU (rows B i (List.replicate m n) ys (List.replicate m 0))
  | 0, i, ys => by intro p hp; simp [rows] at hp
  | m + 1, i, [] => by intro p hp; simp [rows, List.replicate_succ] at hp
  | m + 1, i, y :: ys => by
    intro p hp
    simp only [List.replicate_succ, rows, List.mem_cons] at hp
    rcases hp with rfl | hp
    · exact hpu i y
    · exact pu_rows_replicate B n hpu m (i + 1) ys p hp

/-- **unit_cube / unit_square (any dimension, any number of intervals)**:
`reduce(tensor_product, dim * (line_segment(0, 1, intervals=n),))`.  If on every axis the linear
B-splines at the evaluation coordinate sum to one and have linear precision with value `τ i y`
(`Σ_k N_k(y)·S_k = τ`; for `make_knots(1, 0, 1, n)` and `S = linspace(0,1,n+1)`, `τ` is the
coordinate itself), then component `b` of the map is `τ` of coefficient axis `dim-1-b`: the map
is the identity in xyz order (component 0 = x = last coefficient axis). -/
theorem unit_cube_model {X : Type} [Inhabited X] (S : List K) (B : Nat → X → Info K) (τ : Nat → X → K)
    (hpu : ∀ i y, sumTo S.length ((B i y).dense 0) = 1)
    (hlin : ∀ i y, sumTo S.length (fun k => (B i y).dense 0 k * S.getD k 0) = τ i y) :
    ∀ (d : Nat) (ys : List X), ys.length = d + 1 → ∀ b, b ≤ d →
      (unitCube (d + 1) S).toSpl.gridVal B ys b = τ (d - b) (ys.getD (d - b) default)
  | 0, ys, hl, b, hb => by
    obtain ⟨y, rfl⟩ : ∃ y, ys = [y] := by
      match ys, hl with
      | [y], _ => exact ⟨y, rfl⟩
    have hb0 : b = 0 := by omega
    subst hb0
    show contract (lineSegment [0] [1] S).at (lineSegment [0] [1] S : Func K).ncomp 0
      (rows B 0 (lineSegment [0] [1] S : Func K).dims [y] (List.replicate (lineSegment [0] [1] S : Func K).dims.length 0)) 0 = _
    have hnc : (lineSegment [0] [1] S : Func K).ncomp = 1 := by simp [lineSegment, Func.ncomp, Index.prod]
    have hdims : (lineSegment [0] [1] S : Func K).dims = [S.length] := rfl
    rw [hnc, hdims]
    simp only [List.length_cons, List.length_nil, List.replicate, rows]
    have := line_segment_law [0] [1] S ((B 0 y).dense 0) (τ 0 y) 0 (by simp) rfl (hpu 0 y) (hlin 0 y)
    simp only [List.length_cons, List.length_nil] at this
    rw [this]
    simp
  | d + 1, ys, hl, b, hb => by
    obtain ⟨ys1, y, rfl⟩ : ∃ ys1 y, ys = ys1 ++ [y] := by
      rcases List.eq_nil_or_concat ys with h | ⟨l, a, h⟩
      · rw [h] at hl; simp at hl
      · exact ⟨l, a, by rw [h, List.concat_eq_append]⟩
    have hl1 : ys1.length = d + 1 := by simpa using hl
    obtain ⟨hdims, hncomp⟩ := unitCube_shape S d
    have hLnc : (lineSegment [0] [1] S : Func K).ncomp = 1 := by simp [lineSegment, Func.ncomp, Index.prod]
    have hLdims : (lineSegment [0] [1] S : Func K).dims = [S.length] := rfl
    have hG1len : (unitCube (d + 1) S).dims.length = d + 1 := by rw [hdims]; simp
    rw [unitCube_succ]
    have key := tensor_product_model (unitCube (d + 1) S) (lineSegment [0] [1] S) B ys1 [y] b
      (by rw [hG1len]; exact hl1) (by rw [hLdims]; rfl) (by rw [hncomp, hLnc]; omega)
      (by rw [hdims, List.length_replicate]; exact pu_rows_replicate B S.length hpu (d + 1) 0 ys1)
      (by
        rw [hLdims]
        intro p hp
        simp only [List.length_cons, List.length_nil, List.replicate, rows, List.mem_singleton] at hp
        subst hp
        exact hpu _ y)
    rw [key, hLnc]
    by_cases hb0 : b < 1
    · have : b = 0 := by omega
      subst this
      rw [if_pos hb0, hLdims, hG1len]
      simp only [List.length_cons, List.length_nil, List.replicate, rows]
      have := line_segment_law [0] [1] S ((B (d + 1) y).dense 0) (τ (d + 1) y) 0 (by simp) rfl
        (hpu (d + 1) y) (hlin (d + 1) y)
      simp only [List.length_cons, List.length_nil] at this
      rw [this]
      have hget : (ys1 ++ [y]).getD (d + 1 - 0) default = y := by
        rw [Nat.sub_zero, List.getD_eq_getElem?_getD, List.getElem?_append_right (by omega), hl1]
        simp
      rw [hget]
      simp
    · rw [if_neg hb0]
      have ih := unit_cube_model S B τ hpu hlin d ys1 hl1 (b - 1) (by omega)
      rw [ih]
      have e : d - (b - 1) = d + 1 - b := by omega
      rw [e]
      congr 1
      rw [List.getD_eq_getElem?_getD, List.getD_eq_getElem?_getD, List.getElem?_append_left (by omega)]


/-- **cylinderize / extrusion** (`tensor_product(line_segment(z0, z1, support), self)`), on the
model's list-level constructor: at the node `yz :: ys` (zyx order: the new axis is the first
coefficient axis, i.e. the LAST call argument) the first `F.ncomp` components are `F(ys)` and the
last one is `(1-t)·z0 + t·z1`, `t` the linear-precision parameter of the extrusion axis. -/
theorem cylinderize_model {X : Type} (F : Func K) (m : Nat) (z0 z1 t : K) (B : Nat → X → Info K)
    (yz : X) (ys : List X) (b : Nat)
    (hv : F.vshape = [m]) (hl : ys.length = F.dims.length) (hb : b < m + 1)
    (hpuz : sumTo 2 ((B 0 yz).dense 0) = 1)
    (hlin : sumTo 2 (fun k => (B 0 yz).dense 0 k * ([0, 1] : List K).getD k 0) = t)
    (hpu : PU (rows B 1 F.dims ys (List.replicate F.dims.length 0))) :
    (F.cylinderize z0 z1).toSpl.gridVal B (yz :: ys) b
      = if b < m then contract F.at m b (rows B 1 F.dims ys (List.replicate F.dims.length 0)) 0
        else (1 - t) * z0 + t * z1 := by
  have hnc : F.ncomp = m := by simp [Func.ncomp, hv, Index.prod]
  have hAV : F.bspAsVector = F := by simp [Func.bspAsVector, hv]
  have hLnc : (lineSegment [z0] [z1] [0, 1] : Func K).ncomp = 1 := by simp [lineSegment, Func.ncomp, Index.prod]
  have hLdims : (lineSegment [z0] [z1] [0, 1] : Func K).dims = [2] := rfl
  unfold Func.cylinderize
  rw [hAV]
  have key := tensor_product_model (lineSegment [z0] [z1] [0, 1]) F B [yz] ys b
    (by rw [hLdims]; rfl) hl (by rw [hLnc, hnc]; omega)
    (by
      rw [hLdims]
      intro p hp
      simp only [List.length_cons, List.length_nil, List.replicate, rows, List.mem_singleton] at hp
      subst hp
      exact hpuz)
    (by rw [hLdims]; exact hpu)
  rw [show yz :: ys = [yz] ++ ys from rfl, key, hnc, hLdims]
  by_cases hbm : b < m
  · simp only [hbm, if_true, List.length_cons, List.length_nil]
  · have hbe : b - m = 0 := by omega
    rw [if_neg hbm, if_neg hbm, hbe]
    show contract (lineSegment [z0] [z1] [0, 1]).at (lineSegment [z0] [z1] [0, 1] : Func K).ncomp 0
      (rows B 0 (lineSegment [z0] [z1] [0, 1] : Func K).dims [yz]
        (List.replicate (lineSegment [z0] [z1] [0, 1] : Func K).dims.length 0)) 0 = _
    rw [hLnc, hLdims]
    simp only [List.length_cons, List.length_nil, List.replicate, rows]
    have := line_segment_law [z0] [z1] [0, 1] ((B 0 yz).dense 0) t 0 (by simp) rfl hpuz hlin
    simp only [List.length_cons, List.length_nil] at this
    rw [this]
    simp


/-- **disk(): assembly.**  The four sides of the assembled 3×3 NURBS patch (coefficient slices
`boundary(axis, side)`; by `boundary_model` these are the restrictions of the map to the sides)
are: bottom and top curve as given, left/right curve with their end control points replaced by
the corner points of bottom/top (the later assignments in `_combine_boundary_curves` win); every
coordinate is scaled by `r`, weights are kept. -/
theorem disk_sides (r half : K)
    (b0x b0y b0w b1x b1y b1w b2x b2y b2w t0x t0y t0w t1x t1y t1w t2x t2y t2w : K)
    (l0x l0y l0w l1x l1y l1w l2x l2y l2w r0x r0y r0w r1x r1y r1w r2x r2y r2w : K) :
    let D := diskAssemble [b0x, b0y, b0w, b1x, b1y, b1w, b2x, b2y, b2w] [t0x, t0y, t0w, t1x, t1y, t1w, t2x, t2y, t2w]
      [l0x, l0y, l0w, l1x, l1y, l1w, l2x, l2y, l2w] [r0x, r0y, r0w, r1x, r1y, r1w, r2x, r2y, r2w] half r true
    (D.boundary 0 0).c = [r * b0x, r * b0y, b0w, r * b1x, r * b1y, b1w, r * b2x, r * b2y, b2w] ∧
    (D.boundary 0 1).c = [r * t0x, r * t0y, t0w, r * t1x, r * t1y, t1w, r * t2x, r * t2y, t2w] ∧
    (D.boundary 1 0).c = [r * b0x, r * b0y, b0w, r * l1x, r * l1y, l1w, r * t0x, r * t0y, t0w] ∧
    (D.boundary 1 1).c = [r * b2x, r * b2y, b2w, r * r1x, r * r1y, r1w, r * t2x, r * t2y, t2w] ∧
    D.at 12 = r * 0 ∧ D.at 13 = r * 0 ∧ D.at 14 = half := by
  intro D
  refine ⟨?_, ?_, ?_, ?_, ?_, ?_, ?_⟩ <;>
    simp [D, diskAssemble, Func.boundary, Func.at, sliceIndex, Index.prod, Func.ncomp, List.range_succ]

/-- scaling the premultiplied coordinates by `r` (weights kept) scales the radius: a point of the
unit-circle arc `x² + y² = w²` (premultiplied) becomes a point with `(rx)² + (ry)² = r²w²` -/
theorem disk_scale_radius (r x y w : K) (h : x ^ 2 + y ^ 2 = w ^ 2) :
    (r * x) ^ 2 + (r * y) ^ 2 = r ^ 2 * w ^ 2 := by
  linear_combination r ^ 2 * h



/-- the segment of one axis of `identity(extents)` -/
def idSeg (e : K × K) : Func K := lineSegment [e.1] [e.2] [0, 1]

theorem identityGeo_single (e : K × K) : identityGeo [e] = idSeg e := rfl

theorem identityGeo_snoc (e0 : K × K) (exts : List (K × K)) (e : K × K) :
    identityGeo (e0 :: exts ++ [e]) = bspTensor (identityGeo (e0 :: exts)) (idSeg e) := by
  unfold identityGeo reduceTensor
  simp only [List.map_cons, List.cons_append, List.map_append, List.map_nil, List.foldl_append,
    List.foldl_cons, List.foldl_nil]
  rfl

theorem identityGeo_shape (e0 : K × K) : ∀ (exts : List (K × K)),
    (identityGeo (e0 :: exts)).dims = List.replicate (exts.length + 1) 2 ∧
    (identityGeo (e0 :: exts)).ncomp = exts.length + 1 := by
  intro exts
  induction exts using List.reverseRecOn with
  | nil => simp [identityGeo_single, idSeg, lineSegment, Func.ncomp, Index.prod]
  | append_singleton exts e ih =>
    obtain ⟨h1, h2⟩ := ih
    rw [← List.cons_append, identityGeo_snoc]
    constructor
    · simp only [bspTensor, h1, idSeg, lineSegment, List.length_append, List.length_cons, List.length_nil]
      rw [List.replicate_succ' (n := exts.length + 1)]
    · simp only [bspTensor, Func.ncomp, Index.prod, List.foldr_cons, List.foldr_nil, Nat.mul_one]
      have : (idSeg e : Func K).ncomp = 1 := by simp [idSeg, lineSegment, Func.ncomp, Index.prod]
      simp only [Func.ncomp, Index.prod] at h2 this
      rw [h2, this]
      simp

/-- **identity(extents), any number of axes.**  With linear B-splines on each axis that sum to one
and have linear precision with parameter `tp i y` (`Σ_k N_k(y)·[0,1]_k = tp`; on
`make_knots(1, a, b, 1)`: `tp = (y-a)/(b-a)`), component `b` of `identity(extents)` at the node `ys`
is `(1-tp)·a + tp·b'` for the extent `(a, b')` of coefficient axis `d-1-b` — by `identity_axis` the
coordinate itself: the identity map in xyz order. -/
theorem identity_model {X : Type} [Inhabited X] (B : Nat → X → Info K) (tp : Nat → X → K)
    (hpu : ∀ i y, sumTo 2 ((B i y).dense 0) = 1)
    (hlin : ∀ i y, sumTo 2 (fun k => (B i y).dense 0 k * ([0, 1] : List K).getD k 0) = tp i y)
    (e0 : K × K) : ∀ (exts : List (K × K)) (ys : List X), ys.length = exts.length + 1 → ∀ b, b ≤ exts.length →
      (identityGeo (e0 :: exts)).toSpl.gridVal B ys b
        = (1 - tp (exts.length - b) (ys.getD (exts.length - b) default)) * ((e0 :: exts).getD (exts.length - b) (0, 0)).1
          + tp (exts.length - b) (ys.getD (exts.length - b) default) * ((e0 :: exts).getD (exts.length - b) (0, 0)).2 := by
  intro exts
  induction exts using List.reverseRecOn with
  | nil =>
    intro ys hl b hb
    obtain ⟨y, rfl⟩ : ∃ y, ys = [y] := by
      match ys, hl with
      | [y], _ => exact ⟨y, rfl⟩
    have hb0 : b = 0 := by simpa using hb
    subst hb0
    show contract (idSeg e0).at (idSeg e0 : Func K).ncomp 0
      (rows B 0 (idSeg e0 : Func K).dims [y] (List.replicate (idSeg e0 : Func K).dims.length 0)) 0 = _
    have hnc : (idSeg e0 : Func K).ncomp = 1 := by simp [idSeg, lineSegment, Func.ncomp, Index.prod]
    have hdims : (idSeg e0 : Func K).dims = [2] := rfl
    rw [hnc, hdims]
    simp only [List.length_cons, List.length_nil, List.replicate, rows]
    have := line_segment_law [e0.1] [e0.2] [0, 1] ((B 0 y).dense 0) (tp 0 y) 0 (by simp) rfl (hpu 0 y) (hlin 0 y)
    simp only [List.length_cons, List.length_nil] at this
    unfold idSeg
    rw [this]
    simp
  | append_singleton exts e ih =>
    intro ys hl b hb
    obtain ⟨ys1, y, rfl⟩ : ∃ ys1 y, ys = ys1 ++ [y] := by
      rcases List.eq_nil_or_concat ys with h | ⟨l, a, h⟩
      · rw [h] at hl; simp at hl
      · exact ⟨l, a, by rw [h, List.concat_eq_append]⟩
    have hlen : (exts ++ [e]).length = exts.length + 1 := by simp
    have hl1 : ys1.length = exts.length + 1 := by
      simp only [List.length_append, List.length_cons, List.length_nil] at hl; omega
    obtain ⟨hdims, hncomp⟩ := identityGeo_shape e0 exts
    have hLnc : (idSeg e : Func K).ncomp = 1 := by simp [idSeg, lineSegment, Func.ncomp, Index.prod]
    have hLdims : (idSeg e : Func K).dims = [2] := rfl
    have hG1len : (identityGeo (e0 :: exts)).dims.length = exts.length + 1 := by rw [hdims]; simp
    rw [← List.cons_append, identityGeo_snoc, hlen]
    rw [hlen] at hb
    have key := tensor_product_model (identityGeo (e0 :: exts)) (idSeg e) B ys1 [y] b
      (by rw [hG1len]; exact hl1) (by rw [hLdims]; rfl) (by rw [hncomp, hLnc]; omega)
      (by rw [hdims, List.length_replicate]; exact pu_rows_replicate B 2 hpu (exts.length + 1) 0 ys1)
      (by
        rw [hLdims]
        intro p hp
        simp only [List.length_cons, List.length_nil, List.replicate, rows, List.mem_singleton] at hp
        subst hp
        exact hpu _ y)
    rw [key, hLnc]
    by_cases hb0 : b < 1
    · have : b = 0 := by omega
      subst this
      rw [if_pos hb0, hLdims, hG1len]
      simp only [List.length_cons, List.length_nil, List.replicate, rows]
      have := line_segment_law [e.1] [e.2] [0, 1] ((B (exts.length + 1) y).dense 0) (tp (exts.length + 1) y) 0
        (by simp) rfl (hpu _ y) (hlin _ y)
      simp only [List.length_cons, List.length_nil] at this
      unfold idSeg
      rw [this]
      have hget : (ys1 ++ [y]).getD (exts.length + 1 - 0) default = y := by
        rw [Nat.sub_zero, List.getD_eq_getElem?_getD, List.getElem?_append_right (by omega), hl1]
        simp
      have hge : ((e0 :: exts) ++ [e]).getD (exts.length + 1 - 0) (0, 0) = e := by
        rw [Nat.sub_zero, List.getD_eq_getElem?_getD, List.getElem?_append_right (by simp)]
        simp
      rw [hget, hge]
      simp
    · rw [if_neg hb0]
      have ih' := ih ys1 hl1 (b - 1) (by omega)
      rw [ih']
      have e1 : exts.length - (b - 1) = exts.length + 1 - b := by omega
      rw [e1]
      have hy : (ys1 ++ [y]).getD (exts.length + 1 - b) default = ys1.getD (exts.length + 1 - b) default := by
        rw [List.getD_eq_getElem?_getD, List.getD_eq_getElem?_getD, List.getElem?_append_left (by omega)]
      have he : ((e0 :: exts) ++ [e]).getD (exts.length + 1 - b) (0, 0) = (e0 :: exts).getD (exts.length + 1 - b) (0, 0) := by
        rw [List.getD_eq_getElem?_getD, List.getD_eq_getElem?_getD, List.getElem?_append_left (by simp; omega)]
      rw [hy, he]


/-! ## 4. circular arcs lie on exact circles -/

/-- **one rational quadratic segment.**  Control points (premultiplied, as coded)
`r·u`, `r·u·z`, `r·u·z²` with `u = (a,b)`, `z = (c,s)` unit vectors (complex products written
out), weights `1, c, 1`, and any three basis values with `b1² = 4·b0·b2` (the Bernstein
values `(1-t)², 2t(1-t), t²` satisfy this for every `t`): numerator² = `r²`·weight². -/
theorem arc_segment_on_circle (a b c s r b0 b1 b2 : K)
    (hu : a ^ 2 + b ^ 2 = 1) (hz : c ^ 2 + s ^ 2 = 1) (hb : b1 ^ 2 = 4 * b0 * b2) :
    (r * (b0 * a + b1 * (a * c - b * s) + b2 * (a * (c ^ 2 - s ^ 2) - b * (2 * s * c)))) ^ 2
      + (r * (b0 * b + b1 * (a * s + b * c) + b2 * (a * (2 * s * c) + b * (c ^ 2 - s ^ 2)))) ^ 2
      = r ^ 2 * (b0 + b1 * c + b2) ^ 2 := by
  linear_combination
    (r ^ 2 * ((b0 + b1 * c + b2 * (c ^ 2 - s ^ 2)) ^ 2 + (b1 * s + b2 * (2 * s * c)) ^ 2)) * hu
    + (r ^ 2 * (2 * b2 * (b0 + b1 * c + b2) + b2 ^ 2 * (c ^ 2 + s ^ 2 - 1))) * hz
    + (r ^ 2 * s ^ 2) * hb

/-- **arc_on_circle** (`circular_arc_3pt`): for every opening angle (only `c² + s² = 1` is
used about `c = cos(α/2)`, `s = sin(α/2)`; `cos α = 2c² − 1`, `sin α = 2sc`), every radius and
every parameter `t`, the coded rational quadratic satisfies `x(t)² + y(t)² = r²`. -/
theorem arc_on_circle (c s c2 s2 r t : K) (hz : c ^ 2 + s ^ 2 = 1) (hc2 : c2 = 2 * c ^ 2 - 1)
    (hs2 : s2 = 2 * s * c)
    (hW : (1 - t) ^ 2 + 2 * t * (1 - t) * c + t ^ 2 ≠ 0) :
    (r * ((1 - t) ^ 2 * 1 + 2 * t * (1 - t) * c + t ^ 2 * c2) / ((1 - t) ^ 2 + 2 * t * (1 - t) * c + t ^ 2)) ^ 2
      + (r * ((1 - t) ^ 2 * 0 + 2 * t * (1 - t) * s + t ^ 2 * s2) / ((1 - t) ^ 2 + 2 * t * (1 - t) * c + t ^ 2)) ^ 2
      = r ^ 2 := by
  have h := arc_segment_on_circle 1 0 c s r ((1 - t) ^ 2) (2 * t * (1 - t)) (t ^ 2) (by ring) hz (by ring)
  have hc2' : c2 = c ^ 2 - s ^ 2 := by rw [hc2]; linear_combination hz
  subst hc2' hs2
  rw [div_pow, div_pow, ← add_div, div_eq_iff (pow_ne_zero 2 hW)]
  linear_combination h

/-- the arc starts at `(r, 0)` and ends at `r·(cos α, sin α)` -/
theorem arc_endpoints (c c2 s s2 r : K) :
    (r * ((1 - 0) ^ 2 * 1 + 2 * 0 * (1 - 0) * c + 0 ^ 2 * c2) / ((1 - 0) ^ 2 + 2 * 0 * (1 - 0) * c + 0 ^ 2) = r ∧
     r * ((1 - 0) ^ 2 * 0 + 2 * 0 * (1 - 0) * s + 0 ^ 2 * s2) / ((1 - 0) ^ 2 + 2 * 0 * (1 - 0) * c + 0 ^ 2) = (0 : K)) ∧
    (r * ((1 - 1) ^ 2 * 1 + 2 * 1 * (1 - 1) * c + 1 ^ 2 * c2) / ((1 - 1) ^ 2 + 2 * 1 * (1 - 1) * c + 1 ^ 2) = r * c2 ∧
     r * ((1 - 1) ^ 2 * 0 + 2 * 1 * (1 - 1) * s + 1 ^ 2 * s2) / ((1 - 1) ^ 2 + 2 * 1 * (1 - 1) * c + 1 ^ 2) = r * s2) := by
  refine ⟨⟨?_, ?_⟩, ?_, ?_⟩ <;> simp

/-- **quarter_annulus**: with `w = 1/√2` (only `2w² = 1` is used), radial hat functions
`L0 + L1 = 1` and angular basis values with `b1² = 4·b0·b2`, the point lies on the circle of
radius `L0·r1 + L1·r2`. -/
theorem quarter_annulus_radius (r1 r2 w L0 L1 b0 b1 b2 : K) (hw : 2 * w ^ 2 = 1)
    (hb : b1 ^ 2 = 4 * b0 * b2) :
    (L0 * (b0 * (r1 * 1) + b1 * (r1 * w) + b2 * (0 * 1)) + L1 * (b0 * (r2 * 1) + b1 * (r2 * w) + b2 * (0 * 1))) ^ 2
      + (L0 * (b0 * (0 * 1) + b1 * (r1 * w) + b2 * (r1 * 1)) + L1 * (b0 * (0 * 1) + b1 * (r2 * w) + b2 * (r2 * 1))) ^ 2
      = (L0 * r1 + L1 * r2) ^ 2 * (b0 * 1 + b1 * w + b2 * 1) ^ 2 := by
  have h2 : (2 : K) ≠ 0 := by
    intro h
    have : (2 : K) * w ^ 2 = 0 := by rw [h]; ring
    rw [hw] at this
    exact one_ne_zero this
  apply mul_left_cancel₀ h2
  linear_combination ((L0 * r1 + L1 * r2) ^ 2 * b1 ^ 2) * hw + ((L0 * r1 + L1 * r2) ^ 2) * hb

/-- **arcs_on_circle** (`circular_arc_5pt / 7pt`, `semicircle`, `circle`, and `circular_arc_3pt`
again): on every span of a degree-2 knot vector whose end knots are double (`… a a | b b …`) the
three active Cox–de Boor functions `N₀ N₁ N₂` are Bernstein values, and the segment with coded
control points `r·u, r·u·z, r·u·z²` (`u` = direction of the segment's first control point, `z` =
(cos, sin) of half the segment angle) and weights `1, cos, 1` satisfies numerator² = `r²`·weight²
for every parameter `u`, every radius, every angle and every number of segments.  (That the
library's evaluator computes Cox–de Boor values is C02; that the coded `cos(kδ), sin(kδ)` satisfy
the addition formulas is libm.) -/
theorem arcs_on_circle (t : Nat → K) (m : Nat) (a b u : K)
    (h1 : t (m + 1) = a) (h2 : t (m + 2) = a) (h3 : t (m + 3) = b) (h4 : t (m + 4) = b) (hab : b - a ≠ 0)
    (ua ub c s r : K) (hu : ua ^ 2 + ub ^ 2 = 1) (hz : c ^ 2 + s ^ 2 = 1) :
    (r * (cox t (m + 2) 2 m u * ua + cox t (m + 2) 2 (m + 1) u * (ua * c - ub * s)
          + cox t (m + 2) 2 (m + 2) u * (ua * (c ^ 2 - s ^ 2) - ub * (2 * s * c)))) ^ 2
      + (r * (cox t (m + 2) 2 m u * ub + cox t (m + 2) 2 (m + 1) u * (ua * s + ub * c)
          + cox t (m + 2) 2 (m + 2) u * (ua * (2 * s * c) + ub * (c ^ 2 - s ^ 2)))) ^ 2
      = r ^ 2 * (cox t (m + 2) 2 m u + cox t (m + 2) 2 (m + 1) u * c + cox t (m + 2) 2 (m + 2) u) ^ 2 :=
  arc_segment_on_circle ua ub c s r _ _ _ hu hz (cox_double_knot_relation t m a b u h1 h2 h3 h4 hab)

/-- rotations (`rotate_2d`) and the reflection `scale(-1)` used by `disk()` to build its four
sides from one quarter arc keep a point on its circle -/
theorem rotation_preserves_circle (co si x y : K) (h : co ^ 2 + si ^ 2 = 1) :
    (co * x - si * y) ^ 2 + (si * x + co * y) ^ 2 = x ^ 2 + y ^ 2 ∧ (-x) ^ 2 + (-y) ^ 2 = x ^ 2 + y ^ 2 := by
  constructor
  · linear_combination (x ^ 2 + y ^ 2) * h
  · ring

/-! ## negation witnesses for the repaired defects (earlier code = `asPinned`) -/

/-- a scalar NURBS surface patch on a 2×1 control grid -/
def witnessScalarNurbs : Func Nat :=
  { nurbs := true, dims := [2, 1], vshape := [2], isscalar := true, c := [3, 1, 5, 1] }

/-- before 91ad8af `copy()` and `boundary()` of a scalar NURBS were not scalar; now they are -/
theorem copy_boundary_pinned_lose_scalar :
    (witnessScalarNurbs.copy true).isscalar = false ∧ (witnessScalarNurbs.copy).isscalar = true ∧
    ((witnessScalarNurbs.boundaryCoded 0 0 true).toOption.map (·.isscalar)) = some false ∧
    ((witnessScalarNurbs.boundaryCoded 0 0).toOption.map (·.isscalar)) = some true := by decide

/-- a B-spline curve with values in ℕ² (2 control points) -/
def witnessCurve : Func Nat :=
  { nurbs := false, dims := [2], vshape := [2], isscalar := false, c := [1, 2, 3, 4] }

/-- before bd2c016 the end point of a vector-valued curve could not be extracted (assertion);
now `boundary` returns the last control point -/
theorem boundary_pinned_curve_asserts :
    (witnessCurve.boundaryCoded 0 1 true).toOption = none ∧
    ((witnessCurve.boundaryCoded 0 1).toOption.map (·.c)) = some [3, 4] := by decide

/-! ## non-vacuity -/

/-- numpy broadcasting of value shapes as modelled for `outer_sum/outer_product` (front padding):
a vector against a matrix runs along the matrix rows' entries (last axis) -/
example : broadcastShape [2] [2, 2] = some [2, 2] ∧ broadcastShape [3] [2, 3] = some [2, 3] ∧
    broadcastShape [] [2, 2] = some [2, 2] ∧ broadcastShape [3] [2, 2] = none ∧
    (List.range 4).map (bcastIndex [2, 2] [2]) = [0, 1, 0, 1] ∧
    (List.range 6).map (bcastIndex [2, 3] [2, 1]) = [0, 0, 0, 1, 1, 1] := by decide


example : ((3 : ℚ) / 5) ^ 2 + (4 / 5) ^ 2 = 1 := by norm_num
example : (2 * ((1 : ℚ) / 2) * (1 - 1 / 2)) ^ 2 = 4 * (1 - 1 / 2) ^ 2 * (1 / 2) ^ 2 := by norm_num
example : (1 - (1 / 2 : ℚ)) ^ 2 + 2 * (1 / 2) * (1 - 1 / 2) * (3 / 5) + (1 / 2) ^ 2 ≠ 0 := by norm_num
/-- a row that sums to one and fits: hat functions at `x = 1/4` on 3 dofs -/
example : PU [((3 : Nat), fun i => if i = 0 then (3 / 4 : ℚ) else if i = 1 then 1 / 4 else 0)] := by
  intro p hp
  simp only [List.mem_singleton] at hp
  subst hp
  simp [sumTo]
  norm_num

end Pyiga.Props.C07
