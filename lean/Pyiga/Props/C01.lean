/-
Property C01 — compiled assemblers compute exactly the integrand the variational form denotes.
Property theorems only (helper lemmas live in Proofs/Layout, Proofs/AsmSum, Proofs/AsmIndex).

Scope: the *layout* (`allocate_array / storage_index / sym_index_to_seq`) and the *driver*
(`entry_impl / combine / entry / assemble_vector`) of the generated assemblers.  The integrand is
an abstract function of the jets of the two basis functions (the expression middle end is C06, the
B-spline jets are C02).  All statements hold for every dimension, every number of variables, every
grid size and every value type that is a commutative additive monoid.
-/
import Pyiga.Proofs.Layout
import Pyiga.Proofs.AsmSum
import Pyiga.Proofs.AsmIndex
import Pyiga.Proofs.LayoutAssign
import Pyiga.Proofs.KernelExpr

namespace Pyiga.Props.C01
open Pyiga.Index Pyiga.Layout Pyiga.Asm Pyiga.KExpr

/-! ## layout -/

/-- `allocate_array` assigns to the `k`-th variable the half-open slot range
`[ofs_k, ofs_k + sz_k)` with `ofs_k` = sum of the preceding sizes; these ranges are pairwise
disjoint and cover `[0, total)`: every slot below the total lies in the range of exactly one
variable. -/
theorem layout_disjoint (vs : List Var) (s : Nat) (hs : s < (allocateArray vs).2) :
    (allocateArray vs).1 = (vs.zipIdx).map (fun (p : Var × Nat) =>
      (p.1, storageSize p.1, prefixOfs (vs.map storageSize) p.2)) ∧
    (∃ k, k < vs.length ∧ prefixOfs (vs.map storageSize) k ≤ s ∧
        s < prefixOfs (vs.map storageSize) k + (vs.map storageSize).getD k 0) ∧
    (∀ k l, k < vs.length → l < vs.length →
      (prefixOfs (vs.map storageSize) k ≤ s ∧ s < prefixOfs (vs.map storageSize) k + (vs.map storageSize).getD k 0) →
      (prefixOfs (vs.map storageSize) l ≤ s ∧ s < prefixOfs (vs.map storageSize) l + (vs.map storageSize).getD l 0) →
      k = l) := by
  rw [allocateArray_snd] at hs
  refine ⟨allocateArray_fst vs, ?_, ?_⟩
  · have := prefix_cover (vs.map storageSize) s hs
    simpa using this
  · intro k l hk hl h1 h2
    exact prefix_disjoint (vs.map storageSize) k l s (by simpa using hk) (by simpa using hl) h1 h2

/-- the total is the sum of the sizes and no range exceeds it -/
theorem layout_total (vs : List Var) (k : Nat) (hk : k < vs.length) :
    (allocateArray vs).2 = (vs.map storageSize).sum ∧
    prefixOfs (vs.map storageSize) k + (vs.map storageSize).getD k 0 ≤ (allocateArray vs).2 := by
  rw [allocateArray_snd]
  exact ⟨rfl, prefix_le_total _ k (by simpa using hk)⟩

/-- `storage_index v I < storage_size v` for every in-range index -/
theorem storage_index_lt (v : Var) (hv : v.WF) (I : List Nat) (hI : Below I v.shape) :
    storageIndex v I < storageSize v := storageIndex_lt v hv I hI

/-- `storage_index` is injective on canonical indices (`i ≤ j` for symmetric matrices) -/
theorem storage_index_injective (v : Var) (hv : v.WF) (I I' : List Nat) (hI : Canonical v I)
    (hI' : Canonical v I') (h : storageIndex v I = storageIndex v I') : I = I' :=
  storageIndex_inj v hv I I' hI hI' h

/-- `(i,j)` and `(j,i)` of a symmetric variable share a slot -/
theorem storage_index_symmetric (v : Var) (hs : v.sym = true) (i j : Nat) :
    storageIndex v [i, j] = storageIndex v [j, i] := storageIndex_symm v hs i j

/-- `sym_index_to_seq n` is injective on `{(i,j) | i ≤ j < n}` … -/
theorem sym_index_injective (n i j i' j' : Nat) (hij : i ≤ j) (hj : j < n) (hij' : i' ≤ j') (hj' : j' < n)
    (h : symIndexToSeq n i j = symIndexToSeq n i' j') : i = i' ∧ j = j' :=
  symIndexToSeq_inj n i j i' j' hij hj hij' hj' h

/-- … maps into `range (n(n+1)/2)` … -/
theorem sym_index_range (n i j : Nat) (hi : i < n) (hj : j < n) :
    symIndexToSeq n i j < n * (n + 1) / 2 := symIndexToSeq_lt n i j hi hj

/-- … and onto it: a bijection `{(i,j) | i ≤ j < n} → range (n(n+1)/2)`. -/
theorem sym_index_surjective (n s : Nat) (hs : s < n * (n + 1) / 2) :
    ∃ i j, i ≤ j ∧ j < n ∧ symIndexToSeq n i j = s := symIndexToSeq_surj n s hs

/-- `gen_assign` (which skips `i > j` for symmetric variables) writes every slot of a symmetric
`m x m` variable exactly once: the list of slots it assigns is a permutation of `range (storage_size)`. -/
theorem gen_assign_slots_once (v : Var) (m : Nat) (hs : v.sym = true) (hshape : v.shape = [m, m]) :
    ((assignedPairs v m m).map (fun p => storageIndex v [p.1, p.2])).Perm (List.range (storageSize v)) :=
  assignedPairs_slots v m hs hshape

example : symIndexToSeq 3 1 2 = 4 ∧ symIndexToSeq 3 2 1 = 4 ∧ symIndexToSeq 3 2 2 = 5 := by decide
example : (allocateArray [⟨0, [], false⟩, ⟨1, [2], false⟩, ⟨2, [3, 3], true⟩]).2 = 9 := by decide

/-! ## the driver computes the full Gauss sum -/

/-- **entry_eq_full_sum.**  Let the jets of the trial function vanish at every node outside
`nqp·meshsupp(j)`, those of the test function outside `nqp·meshsupp(i)`, and let the integrand be
zero whenever one of the two jets is zero (it is linear in each).  Then the value the generated
`entry_impl` produces — the sum over the intersection box `∏ [max(a_i,a_j), min(b_i,b_j))`, or `0`
after the early return when some axis has empty intersection — equals the sum of the integrand
over **all** quadrature nodes. -/
theorem entry_eq_full_sum {α : Type} [AddCommMonoid α] {Jet : Type} [Zero Jet]
    (suppU suppV : List Intv) (N : List Nat)
    (jetU jetV : List Nat → Jet) (integrand : Jet → Jet → List Nat → α)
    (hlinU : ∀ y q, integrand 0 y q = 0) (hlinV : ∀ x q, integrand x 0 q = 0)
    (hU : ∀ q ∈ loopNest N, ¬ InSupp suppU q → jetU q = 0)
    (hV : ∀ q ∈ loopNest N, ¬ InSupp suppV q → jetV q = 0)
    (hfU : SuppFits suppU N) (hfV : SuppFits suppV N) :
    entryImpl2 suppU suppV (zeros N) (fun q => integrand (jetU q) (jetV q) q)
      = combine N (fun q => integrand (jetU q) (jetV q) q) :=
  entryImpl2_eq_full suppU suppV N jetU jetV integrand hlinU hlinV hU hV hfU hfV

/-- entries of basis-function pairs without common support are zero — both the computed value and
the full Gauss sum it stands for. -/
theorem entry_zero_without_common_support {α : Type} [AddCommMonoid α] {Jet : Type} [Zero Jet]
    (suppU suppV : List Intv) (N : List Nat)
    (jetU jetV : List Nat → Jet) (integrand : Jet → Jet → List Nat → α)
    (hlinU : ∀ y q, integrand 0 y q = 0) (hlinV : ∀ x q, integrand x 0 q = 0)
    (hU : ∀ q ∈ loopNest N, ¬ InSupp suppU q → jetU q = 0)
    (hV : ∀ q ∈ loopNest N, ¬ InSupp suppV q → jetV q = 0)
    (hfU : SuppFits suppU N) (hfV : SuppFits suppV N)
    (hempty : gaussRange2 suppU suppV (zeros N) = none) :
    entryImpl2 suppU suppV (zeros N) (fun q => integrand (jetU q) (jetV q) q) = 0 ∧
    combine N (fun q => integrand (jetU q) (jetV q) q) = 0 :=
  entryImpl2_disjoint suppU suppV N jetU jetV integrand hlinU hlinV hU hV hfU hfV hempty

/-- the strictness of the support test is unobservable: `if intv.a > intv.b: return` computes, for
all supports, offsets and kernels, the same entry as the coded `if intv.a >= intv.b: return` (an axis
with `a = b` has no nodes, the loop nest runs zero times).  This is why the mutation `>=` → `>` has
no failing input. -/
theorem support_test_strictness_unobservable {α : Type} [AddCommMonoid α]
    (suppU suppV : List Intv) (ofs : List Nat) (K : List Nat → α) :
    entryImpl2Gt suppU suppV ofs K = entryImpl2 suppU suppV ofs K := entryImpl2Gt_eq suppU suppV ofs K

/-- the same for linear forms (arity 1) -/
theorem entry1_eq_full_sum {α : Type} [AddCommMonoid α] {Jet : Type} [Zero Jet]
    (supp : List Intv) (N : List Nat) (jet : List Nat → Jet) (integrand : Jet → List Nat → α)
    (hlin : ∀ q, integrand 0 q = 0)
    (hJ : ∀ q ∈ loopNest N, ¬ InSupp supp q → jet q = 0)
    (hf : SuppFits supp N) (hle : ∀ s ∈ supp, s.a ≤ s.b) :
    entryImpl1 supp (zeros N) (fun q => integrand (jet q) q) = combine N (fun q => integrand (jet q) q) :=
  entryImpl1_eq_full supp N jet integrand hlin hJ hf hle

/-- non-vacuity: 1-D grid of 6 nodes, supports `[0,4)` and `[2,6)`, jets = indicator of the
support, integrand = product: box sum over `[2,4)` = full sum = 2. -/
example : entryImpl2 [⟨0, 4⟩] [⟨2, 6⟩] [0]
      (fun q => (if q.getD 0 0 < 4 then 1 else 0) * (if 2 ≤ q.getD 0 0 then (1 : Nat) else 0)) = 2 ∧
    combine [6] (fun q => (if q.getD 0 0 < 4 then 1 else 0) * (if 2 ≤ q.getD 0 0 then (1 : Nat) else 0)) = 2 := by
  decide

/-! ## the linearity hypothesis as a decidable syntactic predicate -/

/-- a kernel expression that is syntactically linear in basis function `bf` (`IsLinearIn`, decidable)
evaluates to `0` when that function's jet is `0` — over any field, for any field values and any
interpretation of the builtin functions. -/
theorem linear_expr_vanishes {α : Type} [Field α] [DecidableEq α] (bf : Nat) (fields : Nat → α)
    (jet : Nat → Nat → α) (fnsem : Nat → α → α) (hz : ∀ D, jet bf D = 0) (e : KExpr α)
    (h : IsLinearIn bf e = true) : eval fields jet fnsem e = 0 :=
  eval_zero_of_isLinearIn bf fields jet fnsem hz e h

/-- … and is additive in that jet (linear, not merely vanishing) -/
theorem linear_expr_additive {α : Type} [Field α] [DecidableEq α] (bf : Nat) (fields : Nat → α)
    (j1 j2 j : Nat → Nat → α) (fnsem : Nat → α → α)
    (h1 : ∀ b D, b ≠ bf → j1 b D = j b D) (h2 : ∀ b D, b ≠ bf → j2 b D = j b D)
    (hs : ∀ D, j bf D = j1 bf D + j2 bf D) (e : KExpr α) (h : IsLinearIn bf e = true) :
    eval fields j fnsem e = eval fields j1 fnsem e + eval fields j2 fnsem e :=
  eval_add_of_isLinearIn bf fields j1 j2 j fnsem h1 h2 hs e h

/-- jets of the trial (`bf = 0`) and test (`bf = 1`) function as the kernel sees them -/
def jets {α : Type} [Zero α] (ju jv : Nat → α) : Nat → Nat → α :=
  fun bf D => if bf = 0 then ju D else if bf = 1 then jv D else 0

/-- **entry_eq_full_sum with the linearity hypothesis decided syntactically**: for a kernel
expression `e` with `IsLinearIn 0 e` and `IsLinearIn 1 e` (both decidable), jets vanishing outside
`nqp·meshsupp`, the generated `entry_impl` computes the sum of `e` over all quadrature nodes. -/
theorem entry_eq_full_sum_expr {α : Type} [Field α] [DecidableEq α]
    (suppU suppV : List Intv) (N : List Nat) (e : KExpr α)
    (fields : List Nat → Nat → α) (fnsem : Nat → α → α) (jetU jetV : List Nat → Nat → α)
    (hlinU : IsLinearIn 0 e = true) (hlinV : IsLinearIn 1 e = true)
    (hU : ∀ q ∈ loopNest N, ¬ InSupp suppU q → jetU q = 0)
    (hV : ∀ q ∈ loopNest N, ¬ InSupp suppV q → jetV q = 0)
    (hfU : SuppFits suppU N) (hfV : SuppFits suppV N) :
    entryImpl2 suppU suppV (zeros N) (fun q => eval (fields q) (jets (jetU q) (jetV q)) fnsem e)
      = combine N (fun q => eval (fields q) (jets (jetU q) (jetV q)) fnsem e) := by
  apply entryImpl2_eq_full suppU suppV N jetU jetV
    (fun ju jv q => eval (fields q) (jets ju jv) fnsem e) _ _ hU hV hfU hfV
  · intro y q
    exact eval_zero_of_isLinearIn 0 (fields q) _ fnsem (fun D => by simp [jets]) e hlinU
  · intro x q
    exact eval_zero_of_isLinearIn 1 (fields q) _ fnsem (fun D => by simp [jets]) e hlinV

/-- non-vacuity: `(c·∂u)·v·W + u·∂v/W` is linear in both, `u·u` and `sin(u)·v` are not -/
example : IsLinearIn 0 (KExpr.add (.mul (.mul (.mul (.const (2 : Rat)) (.pderiv 0 1)) (.pderiv 1 0)) (.field 3))
      (.div (.mul (.pderiv 0 0) (.pderiv 1 1)) (.field 3))) = true ∧
    IsLinearIn 1 (KExpr.add (.mul (.mul (.mul (.const (2 : Rat)) (.pderiv 0 1)) (.pderiv 1 0)) (.field 3))
      (.div (.mul (.pderiv 0 0) (.pderiv 1 1)) (.field 3))) = true ∧
    IsLinearIn 0 (KExpr.mul (.pderiv 0 0) (.pderiv 0 0) : KExpr Rat) = false ∧
    IsLinearIn 0 (KExpr.mul (.fn 0 (.pderiv 0 0)) (.pderiv 1 0) : KExpr Rat) = false := by decide

/-! ## indexing -/

/-- **entry_indexing.**  `entry(i, j)` unravels `i` with the sizes of the *test* space
(`S1_ndofs`) and `j` with those of the *trial* space (`S0_ndofs`) — for in-range indices the C
`from_seq{d}` is `from_seq` — looks `j` up in the support tables of `u` and `i` in those of `v`,
and the unravelling is a bijection with `to_seq`:  `a_ij = a(φ_j, ψ_i)`. -/
theorem entry_indexing {α : Type} [Zero α] [Add α] (A : Asm α) (i j : Nat)
    (hi : i < prod A.S1ndofs) (hj : j < prod A.S0ndofs) :
    A.entry i j =
      entryImpl2 (lookupSupp A.suppU (fromSeq j A.S0ndofs)) (lookupSupp A.suppV (fromSeq i A.S1ndofs)) A.ofs
        (A.kernel (fromSeq i A.S1ndofs) (fromSeq j A.S0ndofs)) ∧
    toSeq (fromSeq i A.S1ndofs) A.S1ndofs = i ∧ toSeq (fromSeq j A.S0ndofs) A.S0ndofs = j := by
  refine ⟨?_, toSeq_fromSeq i _ hi, toSeq_fromSeq j _ hj⟩
  unfold Asm.entry
  rw [fromSeqC_eq i _ hi, fromSeqC_eq j _ hj]

/-- **assemble_vector** visits every multi-index exactly once, in row-major order: output position
`m` receives `entry_impl (from_seq m ndofs)`. -/
theorem assemble_vector_order {α : Type} (ndofs : List Nat) (hne : ndofs ≠ []) (hpos : ∀ n ∈ ndofs, 0 < n)
    (e : List Nat → α) :
    assembleVector ndofs e = (List.range (prod ndofs)).map (fun m => e (fromSeq m ndofs)) := by
  unfold assembleVector
  rw [vectorVisits_eq ndofs hne hpos, List.map_map]
  rfl

example : assembleVector [2, 3] (fun I => toSeq I [2, 3]) = [0, 1, 2, 3, 4, 5] := by decide

end Pyiga.Props.C01
