/-
C06 — form rewriting and differentiation passes preserve the integrand's value.

Property theorems about the model `Pyiga/Model/VForm.lean` (one constructor per `pyiga.vform`
expression class) and `Pyiga/Model/SLP.lean`.  `ev o ρ e i j` is entry `(i,j)` of expression `e`
in the jet environment `ρ` (values of every variable entry / basis function for every derivative
multi-index, Gauss weights, measures) over the operations `o`.  All theorems are by structural
induction over *all* expression trees / all programs; none is a bounded enumeration.
-/
import Pyiga.Proofs.VForm
import Pyiga.Proofs.VFormAlg
import Pyiga.Proofs.VFormKey
import Pyiga.Proofs.SLP
import Pyiga.Proofs.VFormPhys
import Pyiga.Proofs.VFormPhys2
import Pyiga.Proofs.VFormPhys3
import Pyiga.Proofs.VFormPhys4
import Pyiga.Proofs.VFormPhys5
import Pyiga.Proofs.VFormPhys6
import Mathlib.Tactic.NormNum
import Mathlib.Data.Matrix.Mul
import Mathlib.Data.Matrix.Diagonal

namespace Pyiga.Props.C06
open Pyiga.VForm Pyiga.VForm.Expr Pyiga.SLP

/-- **at_sound.**  Indexing `e[i]` / `e[i,j]` (`__getitem__` → `at` of LiteralVector/Matrix,
TensorOperExpr (broadcast operands included, they are literal), VectorCrossExpr, OuterProdExpr,
MatVecExpr, MatMatExpr) denotes entry `(i,j)` of `e` — over *any* operations (no algebraic law is
used: `at` builds exactly the defining sums, in the defining association). -/
theorem at_sound {α : Type} (o : Ops α) (ρ : Env α) (e : Expr) (i j : Nat) :
    ev o ρ (atE e i j) 0 0 = ev o ρ e i j :=
  at_sound_aux o ρ e i j

/-- **literal_sound.**  `_to_literal_vec_mat` at a vector / matrix node preserves every in-range
entry (vectors are addressed as `(i,0)`). -/
theorem literal_sound {α : Type} (o : Ops α) (ρ : Env α) (e : Expr) :
    (∀ n i, shape e = [n] → i < n → ev o ρ (toLit1 e) i 0 = ev o ρ e i 0) ∧
    (∀ m n i j, shape e = [m, n] → i < m → j < n → ev o ρ (toLit1 e) i j = ev o ρ e i j) :=
  ⟨fun n i hs hi => toLit1_vec o ρ e n i hs hi, fun m n i j hs hi hj => toLit1_mat o ρ e m n i j hs hi hj⟩

/-- **broadcast_sound.**  `OperExpr` with a scalar and a vector / matrix operand (`broadcast_expr`): the
result's entries are the entrywise operation with the scalar, in either operand order. -/
theorem broadcast_sound {α : Type} (o : Ops α) (ρ : Env α) (op : Op) (x y : Expr) (hx : shape x = []) :
    (∀ n i, shape y = [n] → i < n →
      ev o ρ (operExpr op x y) i 0 = o.bin op (ev o ρ x 0 0) (ev o ρ y i 0)
      ∧ ev o ρ (operExpr op y x) i 0 = o.bin op (ev o ρ y i 0) (ev o ρ x 0 0)) ∧
    (∀ m n i j, shape y = [m, n] → i < m → j < n →
      ev o ρ (operExpr op x y) i j = o.bin op (ev o ρ x 0 0) (ev o ρ y i j)
      ∧ ev o ρ (operExpr op y x) i j = o.bin op (ev o ρ y i j) (ev o ρ x 0 0)) :=
  ⟨fun n i hy hi => operExpr_scalar_vec o ρ op x y n i hx hy hi,
   fun m n i j hy hi hj => operExpr_scalar_mat o ρ op x y m n i j hx hy hi hj⟩

/-- **inner_tr_sound.**  `inner(x,y)` (vectors and matrices) and `tr(A)` denote their defining sums
(`reduceAddV` = Python's left-associated `reduce(operator.add, …)`). -/
theorem inner_tr_sound {α : Type} (o : Ops α) (ρ : Env α) (x y : Expr) :
    (∀ n, shape x = [n] → ev o ρ (innerE x y) 0 0
        = reduceAddV o ((List.range n).map fun i => o.mul (ev o ρ x i 0) (ev o ρ y i 0))) ∧
    (∀ m n, shape x = [m, n] → ev o ρ (innerE x y) 0 0
        = reduceAddV o ((List.range (m * n)).map fun k => o.mul (ev o ρ x (k / n) (k % n)) (ev o ρ y (k / n) (k % n)))) ∧
    ev o ρ (trE x) 0 0 = reduceAddV o ((List.range (len x)).map fun i => ev o ρ x i i) :=
  ⟨fun n h => inner_vec_sound o ρ x y n h, fun m n h => inner_mat_sound o ρ x y m n h, tr_sound o ρ x⟩

/-- **slices_sound.**  `e[i,:]`, `e[:,j]`, `e.ravel()` pick the right entries. -/
theorem slices_sound {α : Type} (o : Ops α) (ρ : Env α) (e : Expr) (i j : Nat) (hi : i < len e) (hj : j < ncols e) :
    ev o ρ (rowE e i) j 0 = ev o ρ e i j ∧ ev o ρ (colE e j) i 0 = ev o ρ e i j
      ∧ ev o ρ (ravelE e) (i * ncols e + j) 0 = ev o ρ e i j :=
  ⟨row_sound o ρ e i j hj, col_sound o ρ e i j hi, ravel_sound o ρ e i j hi hj⟩

/-- **literal_tree_sound.**  The whole pass `vf.transform(_to_literal_vec_mat)` (children first, then
the node) keeps the shape and every entry of every well-shaped expression (`WSh`: the shape
asserts of the Python constructors; `InRange`: the entries of that shape). -/
theorem literal_tree_sound {α : Type} (o : Ops α) (ρ : Env α) (e : Expr) (h : WSh e = true) :
    shape (toLit e) = shape e ∧ ∀ i j, InRange (shape e) i j → ev o ρ (toLit e) i j = ev o ρ e i j :=
  toLit_sound o ρ e h

/-- non-vacuity: `A·x + x` for a 2×2 literal matrix is well-shaped -/
example : WSh (top .add (matvec (litmat 2 2 [gw 0, gw 1, dx, ds]) (litvec [gw 0, gw 1])) (litvec [gw 0, gw 1])) = true := by
  simp [WSh, shape, ncols]

/-- **transpose_sound.**  Entry `(i,j)` of `e.T` is entry `(j,i)` of `e`. -/
theorem transpose_sound {α : Type} (o : Ops α) (ρ : Env α) (e : Expr) (m n i j : Nat)
    (hs : shape e = [m, n]) (hi : i < n) (hj : j < m) :
    ev o ρ (transposeE e) i j = ev o ρ e j i :=
  transpose_entry o ρ e m n i j hs hi hj

/-- **fold_constants_sound.**  Constant folding (all-constant nodes evaluated; `0+y`, `x+0`,
`x+(-y)`, `0-y`, `x-0`, `x-(-y)`, `0*y`, `1*y`, `-1*y`, `x*1`, `x*(-1)`, `0/y`, `x/1`, `x/(-1)`, with the
*exact* `is_constant` test) preserves every entry of every expression, in every field of
characteristic 0, for every environment and every interpretation of the builtin functions.
`SopWS` is the shape discipline asserted by the Python constructors (operands of scalar nodes are
scalar nodes).  Division: Lean's `x/0 = 0`; Python raises on a constant zero divisor instead
(`foldRaises`), and `0/y ↦ 0` is valid wherever `0/y` is defined. -/
theorem fold_constants_sound {α : Type} [Field α] [CharZero α] (fn : String → α → α) (ρ : Env α)
    (e : Expr) (hws : SopWS e = true) (i j : Nat) :
    ev (fieldOps fn) ρ (foldAll e) i j = ev (fieldOps fn) ρ e i j :=
  foldAll_sound_aux fn ρ e hws i j

/-- non-vacuity: a well-shaped tree on which folding does something -/
example : SopWS (sop .add (sop .mul (const 1) (varref "f" [] [0] false)) (sop .mul (const 0) dx)) = true
    ∧ foldAll (sop .add (sop .mul (const 1) (varref "f" [] [0] false)) (sop .mul (const 0) dx))
        = varref "f" [] [0] false := by
  constructor
  · simp [SopWS, scalarCls]
  · simp [foldAll, fold1, isZero, isConst]

/-- **dx_sound.**  `IsDeriv d`: `d k` are derivations of the value field (additive, Leibniz, zero on
rational constants).  `JetClosed d par vt fn ρ`: the environment is a jet for the flavour `par`
(parametric/physical): the value of multi-index `D + n·e_k` is `∂_k^n` of the value of `D`, parameters
are constant, expression-defined variables hold the value of their definition.  Then whenever
`Dx(e,k,times,par)` returns, the result denotes `∂_k^times ⟦e⟧` — constants, variable references of
all three kinds, basis functions, `+ − * /` (product and quotient rule). -/
theorem dx_sound {α : Type} [Field α] [CharZero α] (d : Nat → α → α) (hd : IsDeriv d) (vt : VarTable)
    (fn : String → α → α) (ρ : Env α) (par : Bool) (hρ : JetClosed d par vt fn ρ)
    (fuel : Nat) (e : Expr) (k times : Nat) (e' : Expr)
    (h : dxE vt fuel e k times par = .ok e') :
    ev (fieldOps fn) ρ e' 0 0 = (d k)^[times] (ev (fieldOps fn) ρ e 0 0) :=
  dx_sound_aux d hd vt fn ρ par hρ k fuel e times e' h

/-- non-vacuity of `IsDeriv`: the zero derivation on ℚ -/
example : IsDeriv (fun (_ : Nat) (_ : ℚ) => (0 : ℚ)) :=
  ⟨fun _ _ _ => by simp, fun _ _ _ => by simp, fun _ _ => rfl⟩

/-- **key_sound.**  If every stored attribute of every class occurs in its `hash_key`
(`KeyTableComplete t`, re-decided on the table regenerated from the source on every run), then
two expression trees with the same key are the same tree — so they have the same value in every
environment over every operations, and the same generated code. -/
theorem key_sound (t : KeyTable) (hc : KeyTableComplete t = true) (e₁ e₂ : Expr)
    (h : key t e₁ = key t e₂) :
    e₁ = e₂ ∧ ∀ {α : Type} (o : Ops α) (ρ : Env α) (i j : Nat), ev o ρ e₁ i j = ev o ρ e₂ i j := by
  have := key_injective t hc e₁ e₂ h
  subst this
  exact ⟨rfl, fun _ _ _ _ => rfl⟩

/-- negation witness for the defect repaired by `fix: BuiltinFuncExpr … function name` (D1): with
`funcname` missing from the table, `sin(f)` and `cos(f)` have the same key. -/
example :
    let t : KeyTable := [(.Const, [.value]), (.VarRef, [.varName, .I, .D, .parametric]), (.Builtin, [])]
    KeyTableComplete t = false ∧
    key t (builtin "sin" (varref "f" [] [0] false)) = key t (builtin "cos" (varref "f" [] [0] false)) := by
  constructor
  · decide
  · simp [key, KeyTable.attrs]

/-- **cse_sound.**  One step of `extract_common_expressions`: every node whose key equals the key
of the extracted expression `c` is replaced by `x` (the reference to the new variable).  With a
complete key table, if the store gives `x` the value of `c`, every entry of every expression is
unchanged (and shapes are kept). -/
theorem cse_sound {α : Type} (o : Ops α) (ρ : Env α) (t : KeyTable) (hc : KeyTableComplete t = true)
    (c x : Expr) (hx : ∀ i j, ev o ρ x i j = ev o ρ c i j) (hs : shape x = shape c) (e : Expr) :
    (∀ i j, ev o ρ (cseReplace (fun n => KeyTree.beq (key t n) (key t c)) x e) i j = ev o ρ e i j)
      ∧ shape (cseReplace (fun n => KeyTree.beq (key t n) (key t c)) x e) = shape e := by
  apply cseReplace_sound
  · intro n hn i j
    have := key_injective t hc n c (KeyTree.beq_sound _ _ hn)
    subst this; exact hx i j
  · intro n hn
    have := key_injective t hc n c (KeyTree.beq_sound _ _ hn)
    subst this; exact hs

/-- **inline_sound** (the verified checker used to validate CSE + trivial-variable elimination on
every corpus form): if the store is consistent with the listed definitions, inlining them
preserves every entry.  Hence `inline(after) = inline(before)` (checked per form) implies
`⟦after⟧ = ⟦before⟧`. -/
theorem inline_sound {α : Type} (o : Ops α) (ρ : Env α) (defs : List (String × Expr))
    (H : ∀ v I D q d, defs.find? (·.1 == v) = some d →
      (∀ i j, ev o ρ (underlying d.2 I) i j = ρ.var v I D q) ∧ shape (underlying d.2 I) = [])
    (e : Expr) (i j : Nat) : ev o ρ (inlineVars defs e) i j = ev o ρ e i j :=
  (inlineVars_sound o ρ defs H e).1 i j

/-- **vec_subst_sound.**  `replace_vector_bfuns(·, name, comp)`: the result in `ρ` equals the
original in the environment where component `c` of the vector basis function is `δ_{c,comp}·φ`.
Composing it for `v` and `u` gives: entry `(i,j)` of `substitute_vec_components` is the form applied
to `(ψ e_i, φ e_j)`. -/
theorem vec_subst_sound {α : Type} (o : Ops α) (ρ : Env α) (basic : BFun) (comp : Nat) (e : Expr) (i j : Nat) :
    ev o ρ (replBf basic comp e) i j = ev o (ρ.selectComp o basic comp) e i j :=
  (replBf_sound o ρ basic comp e).1 i j

/-- **schedule_sound.**  If the emitted order is single-assignment and def-before-use
(`defBeforeUse`, the checker run on the dumped `linear_deps` / precompute / kernel programs of every
corpus form) and right-hand sides only depend on what they read, then after running the program
every variable holds the value of its defining expression *in the final store*, and names known
beforehand (inputs) are untouched. -/
theorem schedule_sound {α : Type} (sem : String → Store α → α) (known : List String) (p : Prog)
    (h : defBeforeUse known p = true) (hloc : Local sem p) (σ : Store α) :
    (∀ s ∈ p, run sem p σ s.lhs = sem s.rhs (run sem p σ)) ∧ (∀ v ∈ known, run sem p σ v = σ v) :=
  ⟨run_fixpoint sem p known σ h hloc, fun v hv => run_known sem p known σ v h hv⟩

/-- soundness half used above, stated for the checker itself: a rejected order is the only way a
variable can be read before it is assigned. -/
theorem defBeforeUse_sound (known : List String) (s : Stmt) (p : Prog)
    (h : defBeforeUse known (s :: p) = true) :
    (∀ v ∈ s.reads, v ∈ known) ∧ s.lhs ∉ known ∧ defBeforeUse (s.lhs :: known) p = true := by
  simp only [defBeforeUse, Bool.and_eq_true, Bool.not_eq_eq_eq_not, Bool.not_true] at h
  obtain ⟨⟨hr, hl⟩, hp⟩ := h
  refine ⟨fun v hv => ?_, ?_, hp⟩
  · have := List.all_eq_true.mp hr v hv
    simpa using this
  · intro hm
    have : known.contains s.lhs = true := by simpa using hm
    rw [this] at hl; cases hl

/-- non-vacuity / negation witness: a def-before-use program, and the same statements in an order
that reads `b` before it is defined -/
example : defBeforeUse ["x"] [⟨"a", ["x"], "r1"⟩, ⟨"b", ["a", "x"], "r2"⟩] = true
    ∧ defBeforeUse ["x"] [⟨"b", ["a", "x"], "r2"⟩, ⟨"a", ["x"], "r1"⟩] = false := by
  constructor <;> decide

/-- **slp_perm_sound.**  Two single-assignment, def-before-use programs that are permutations of
each other compute the same final store (checker `permEquiv`). -/
theorem slp_perm_sound {α : Type} (sem : String → Store α → α) (inputs : List String) (p q : Prog)
    (h : permEquiv inputs p q = true) (hloc : Local sem p) (σ : Store α) :
    run sem p σ = run sem q σ :=
  permEquiv_sound sem inputs p q h hloc σ

/-! ### physical derivatives (`replace_physical_derivs`)

Physical derivatives are *defined* by the chain rule: `∇_para f = Jᵀ ∇_phys f` and
`H_para f = Jᵀ H_phys f J + Σ_m (∇_phys f)_m H_para G_m`.  The code emits
`inner(JacInv[:,k], ∇_para f)` and `JacInv[:,i]·(H_para f·JacInv[:,j]) + Σ_k (∇_para f)_k T(k,i,j)` with
`T(a,i,j) = −Σ_{m,e,u} H_para G_m[e,u] JacInv[a,m] JacInv[e,i] JacInv[u,j]`.  The two theorems below are
the dimension-generic matrix identities behind these formulas; that the *emitted terms* are these
matrix expressions is re-proved per run for order 1, dims 2–3 (T-alg `chain_d_k`) and checked exactly by the
before/after oracle on every corpus form for order 2 and the space-time branch (see `phys_to_para_full`). -/

open Matrix in
/-- **chain_rule_first_order.** -/
theorem chain_rule_first_order {α : Type} [CommRing α] {n : Type} [Fintype n] [DecidableEq n]
    (J Jinv : Matrix n n α) (h : J * Jinv = 1) (g : n → α) :
    Jinvᵀ *ᵥ (Jᵀ *ᵥ g) = g := by
  rw [Matrix.mulVec_mulVec, ← Matrix.transpose_mul, h, Matrix.transpose_one, Matrix.one_mulVec]

open Matrix in
/-- **chain_rule_second_order** (with the geometry-Hessian term and its sign): if
`Hp = Jᵀ H J + S` (`S = Σ_m g_m H_para G_m`) then `Jinvᵀ Hp Jinv − Jinvᵀ S Jinv = H`. -/
theorem chain_rule_second_order {α : Type} [CommRing α] {n : Type} [Fintype n] [DecidableEq n]
    (J Jinv H S Hp : Matrix n n α) (h : J * Jinv = 1) (hHp : Hp = Jᵀ * H * J + S) :
    Jinvᵀ * Hp * Jinv - Jinvᵀ * S * Jinv = H := by
  subst hHp
  have ht : Jinvᵀ * Jᵀ = 1 := by rw [← Matrix.transpose_mul, h, Matrix.transpose_one]
  calc Jinvᵀ * (Jᵀ * H * J + S) * Jinv - Jinvᵀ * S * Jinv
      = (Jinvᵀ * Jᵀ) * H * (J * Jinv) := by
        simp only [Matrix.mul_add, Matrix.add_mul, Matrix.mul_assoc, add_sub_cancel_right]
    _ = H := by rw [ht, h, Matrix.one_mul, Matrix.mul_one]

/-- **phys_to_para_partial** (first order, basis functions, every dimension — the transliterated branch
`inner(JacInv[:,k], grad_para φ)` of `replace_physical_derivs`): if `JacInv` holds a right inverse of the
Jacobian `J` and the physical first derivatives are *defined* by the chain rule
`∂_{ξ_i} φ = Σ_m J m i · ∂_{x_m} φ`, the substituted expression denotes `∂_{x_k} φ`. -/
theorem phys_to_para_partial {α : Type} [Field α] [CharZero α] (fn : String → α → α) (ρ : Env α) (dim : Nat)
    (b : BFun) (J : Nat → Nat → α)
    (hinv : ∀ m k, m < dim → k < dim →
      ∑ i ∈ Finset.range dim, J m i * ρ.var "JacInv" [i, k] (List.replicate dim 0) false = if m = k then 1 else 0)
    (hchain : ∀ i, i < dim → ρ.bf b (bump (List.replicate dim 0) i 1) false
      = ∑ m ∈ Finset.range dim, J m i * ρ.bf b (bump (List.replicate dim 0) m 1) true)
    (k : Nat) (hk : k < dim) :
    ev (fieldOps fn) ρ (physToPara1 dim b k) 0 0 = ρ.bf b (bump (List.replicate dim 0) k 1) true :=
  physToPara1_sound fn ρ dim b J hinv hchain k hk

/-! ### `replace_physical_derivs`, `insert_input_field_derivs`, measures: the transliterated branches
(`Model/VFormPhys.lean`, each tied to the real pass by the `phys*`/`ghtdef`/`inderiv`/`predef` streams)

Physical derivatives are *defined* by the chain rule w.r.t. the Jacobian `J m i = ∂G_m/∂ξ_i`:
gradient `g`: `∂_{ξ_r} a = Σ_m J m r · g m`; Hessian `H`: `∂_{ξ_r ξ_c} a = (Jᵀ H J)_{rc} + Σ_m g m · ∂_{ξ_r ξ_c} G_m`.
`atom` is a basis function (`bfAtom`) or an entry of a parametric input field (`varAtom`). -/

open Finset in
/-- **phys_to_para_first_order** (every dimension, basis functions and input fields). -/
theorem phys_to_para_first_order {α : Type} [Field α] [CharZero α] (fn : String → α → α) (ρ : Env α) (dim : Nat)
    (atom : List Nat → Expr) (J : Nat → Nat → α) (g : Nat → α)
    (hinv : ∀ m k, m < dim → k < dim →
      ∑ r ∈ range dim, J m r * ρ.var "JacInv" [r, k] (zerosD dim) false = if m = k then 1 else 0)
    (hchain : ∀ r, r < dim → ev (fieldOps fn) ρ (atom (unitD dim r)) 0 0 = ∑ m ∈ range dim, J m r * g m)
    (k : Nat) (hk : k < dim) :
    ev (fieldOps fn) ρ (physToPara1G dim atom k) 0 0 = g k :=
  physToPara1G_sound fn ρ dim atom J g hinv hchain k hk

open Finset in
/-- **phys_to_para_second_order** (every dimension, with the `_geo_hess_trf` term and its sign): the expression
`JacInv[:,i]·(H_para·JacInv[:,j]) + Σ_k (∇_para)_k · _geo_hess_trf_k_i_j` denotes the physical second derivative `H i j`. -/
theorem phys_to_para_second_order {α : Type} [Field α] [CharZero α] (fn : String → α → α) (ρ : Env α) (dim : Nat)
    (atom : List Nat → Expr) (J H : Nat → Nat → α) (g : Nat → α) (i j : Nat) (hi : i < dim) (hj : j < dim)
    (hinv : ∀ m k, m < dim → k < dim →
      ∑ r ∈ range dim, J m r * ρ.var "JacInv" [r, k] (zerosD dim) false = if m = k then 1 else 0)
    (hchain1 : ∀ r, r < dim → ev (fieldOps fn) ρ (atom (unitD dim r)) 0 0 = ∑ m ∈ range dim, J m r * g m)
    (hchain2 : ∀ r c, r < dim → c < dim → ev (fieldOps fn) ρ (atom (unit2D dim r c)) 0 0
      = ∑ n ∈ range dim, (∑ m ∈ range dim, J m r * H m n) * J n c
        + ∑ m ∈ range dim, g m * ρ.var "geo_a" [m] (unit2D dim r c) true)
    (hT : ∀ k, k < dim → ρ.var (geoHessTrfName k i j) [] (zerosD dim) false
      = ev (fieldOps fn) ρ (geoHessTrfDef dim k i j) 0 0) :
    ev (fieldOps fn) ρ (physToPara2G dim atom i j) 0 0 = H i j :=
  physToPara2G_sound fn ρ dim atom J H g i j hi hj hinv hchain1 hchain2 hT

open Finset in
/-- **geo_hess_trf_value**: what the variable `_geo_hess_trf_a_i_j` denotes (formula (A.12) with the corrected sign). -/
theorem geo_hess_trf_value {α : Type} [Field α] [CharZero α] (fn : String → α → α) (ρ : Env α) (dim a i j : Nat) :
    ev (fieldOps fn) ρ (geoHessTrfDef dim a i j) 0 0
      = - ∑ m ∈ range dim, ∑ e ∈ range dim, ∑ u ∈ range dim,
          ((ρ.var "geo_a" [m] (unit2D dim e u) true * ρ.var "JacInv" [a, m] (zerosD dim) false)
            * ρ.var "JacInv" [e, i] (zerosD dim) false) * ρ.var "JacInv" [u, j] (zerosD dim) false :=
  ev_geoHessTrfDef fn ρ dim a i j

open Finset in
/-- **phys_to_para_spacetime** (one space derivative, any number of time derivatives; `d+1` axes, time last; explicit
cylinder hypothesis `∂_t G_x = 0`): the substituted expression denotes the physical space derivative of `∂_t^a φ`. -/
theorem phys_to_para_spacetime {α : Type} [Field α] [CharZero α] (fn : String → α → α) (ρ : Env α) (d : Nat) (b : BFun)
    (D : List Nat) (e : Expr) (he : physToParaST (d + 1) b D = some e) (h1 : dsum (D.take d) = 1)
    (J : Nat → Nat → α) (g : Nat → α)
    (hinv : ∀ m k, m < d + 1 → k < d + 1 →
      ∑ r ∈ range (d + 1), J m r * ρ.var "JacInv" [r, k] (zerosD (d + 1)) false = if m = k then 1 else 0)
    (hcyl : ∀ m, m < d → J m d = 0)
    (hchain : ∀ i, i < d → ρ.var (pderivVarName b (stD (d + 1) i (D.getD d 0))) [] (zerosD (d + 1)) false
      = ∑ m ∈ range d, J m i * g m) :
    (D.take d).findIdx (· == 1) < d ∧ ev (fieldOps fn) ρ e 0 0 = g ((D.take d).findIdx (· == 1)) :=
  physToParaST_sound fn ρ d b D e he h1 J g hinv hcyl hchain

open Finset in
/-- **spacetime_time_derivs**: on a cylinder (`∂_t G_x = 0`, `∂_t G_t = 1`, `∂_t² G = 0`) first and second parametric time
derivatives satisfy the chain-rule equations of the physical ones — so keeping them parametric is value-preserving. -/
theorem spacetime_time_derivs {α : Type} [Field α] [CharZero α] (d : Nat) (J H : Nat → Nat → α) (g HGtt : Nat → α)
    (hcyl : ∀ m, m < d → J m d = 0) (htt : J d d = 1) (hG : ∀ m, m < d + 1 → HGtt m = 0) :
    ∑ m ∈ range (d + 1), J m d * g m = g d ∧
    ∑ n ∈ range (d + 1), (∑ m ∈ range (d + 1), J m d * H m n) * J n d + ∑ m ∈ range (d + 1), g m * HGtt m = H d d :=
  ⟨st_time_deriv d J g hcyl htt, st_time_deriv2 d J H g HGtt hcyl htt hG⟩

/-- **input_derivs_sound** + the packing order of `sym_index_to_seq`. -/
theorem input_derivs_sound {α : Type} [Field α] [CharZero α] (fn : String → α → α) (ρ : Env α) (dim : Nat) (nm : String)
    (I D : List Nat) (par : Bool) (e : Expr) (he : insertInputDeriv dim nm I D = some e)
    (hgrad : ∀ k, dToIndices D = [k] →
      ρ.var (nm ++ "_grad_a") (I ++ [k]) (zerosD dim) false = ρ.var (nm ++ "_a") I D par)
    (hhess : ∀ i j, dToIndices D = [i, j] →
      ρ.var (nm ++ "_hess_a") (I ++ [symIndexToSeq D.length i j]) (zerosD dim) false = ρ.var (nm ++ "_a") I D par) :
    ev (fieldOps fn) ρ e 0 0 = ev (fieldOps fn) ρ (varref (nm ++ "_a") I D par) 0 0 :=
  insertInputDeriv_sound fn ρ dim nm I D par e he hgrad hhess

/-- `sym_index_to_seq` enumerates the upper triangle row by row: `(0,0) ↦ 0`, a step to the right adds one, the
diagonal entry of the next row follows the last entry of the row; and it is symmetric. -/
theorem sym_index_packing (n i j : Nat) :
    symIndexToSeq n 0 0 = 0 ∧ symIndexToSeq n i j = symIndexToSeq n j i ∧
    (i ≤ j → symIndexToSeq n i (j + 1) = symIndexToSeq n i j + 1) ∧
    (i + 1 < n → symIndexToSeq n (i + 1) (i + 1) = symIndexToSeq n i (n - 1) + 1) :=
  ⟨symIndexToSeq_zero n, symIndexToSeq_symm n i j, symIndexToSeq_succ_col n i j, symIndexToSeq_next_row n i⟩

/-- **measures_sound**: `det` of the model (= the library's Laplace expansion) is the determinant for n = 1,2,3;
`W = GaussWeight·abs(det Jac)`; `SW = GaussWeight·sqrt(|n|²)`; the unscaled normals are orthogonal to the tangents. -/
theorem measures_sound {α : Type} [Field α] [CharZero α] (fn : String → α → α) (ρ : Env α) (dim : Nat) (jn : String) :
    (∀ a b c d : Expr, ev (fieldOps fn) ρ (detL 2 [[a, b], [c, d]]) 0 0
        = ev (fieldOps fn) ρ a 0 0 * ev (fieldOps fn) ρ d 0 0 - ev (fieldOps fn) ρ b 0 0 * ev (fieldOps fn) ρ c 0 0) ∧
    ev (fieldOps fn) ρ (volumeWeightDef dim) 0 0
        = ρ.var "GaussWeight" [] (zerosD dim) false * fn "abs" (ev (fieldOps fn) ρ (detL dim (varMat "Jac" dim dim dim)) 0 0) ∧
    (∑ r ∈ Finset.range 2, ev (fieldOps fn) ρ (unscaledNormal dim jn 2 1) r 0 * ρ.var jn [r, 0] (zerosD dim) false = 0) ∧
    (∀ c, c < 2 → ∑ r ∈ Finset.range 3, ev (fieldOps fn) ρ (unscaledNormal dim jn 3 2) r 0 * ρ.var jn [r, c] (zerosD dim) false = 0) :=
  ⟨fun a b c d => det2_sound fn ρ a b c d, volumeWeight_sound fn ρ dim, normal_curve_orthogonal fn ρ dim jn,
   fun c hc => normal_surface_orthogonal fn ρ dim jn c hc⟩

/-- **jacinv_right_inverse** (dims 1 and 2 in the Lean model; dim 3 by the regenerated T-alg identities `inv_right_3_*`):
the matrix `inv(Jac)` the code builds satisfies the hypothesis `hinv` of the chain-rule theorems wherever `det Jac ≠ 0`. -/
theorem jacinv_right_inverse {α : Type} [Field α] [CharZero α] (fn : String → α → α) (ρ : Env α) (dim : Nat) :
    (ρ.var "Jac" [0, 0] (zerosD dim) false ≠ 0 →
      ρ.var "Jac" [0, 0] (zerosD dim) false * ev (fieldOps fn) ρ (invL 1 (varMat "Jac" dim 1 1)) 0 0 = 1) ∧
    (ev (fieldOps fn) ρ (detL 2 (varMat "Jac" dim 2 2)) 0 0 ≠ 0 → ∀ m k, m < 2 → k < 2 →
      ∑ r ∈ Finset.range 2, ρ.var "Jac" [m, r] (zerosD dim) false * ev (fieldOps fn) ρ (invL 2 (varMat "Jac" dim 2 2)) r k
        = if m = k then 1 else 0) :=
  ⟨jacInv1_right_inverse fn ρ dim, fun hdet m k hm hk => jacInv2_right_inverse fn ρ dim m k hm hk hdet⟩

/-- **dx_expansion_sound** (dim 2): the variable `W` substituted for `dx` has the value of the volume measure. -/
theorem dx_expansion_sound {α : Type} [Field α] [CharZero α] (fn : String → α → α) (ρ : Env α) (dim : Nat)
    (hW : ρ.var "W" [] (zerosD dim) false = ev (fieldOps fn) ρ (volumeWeightDef 2) 0 0)
    (hGW : ρ.var "GaussWeight" [] (zerosD 2) false = ev (fieldOps fn) ρ (gaussWeightDef 2) 0 0)
    (hdx : ρ.dx = ρ.gw 0 * ρ.gw 1 * fn "abs" (ρ.var "Jac" [0, 0] (zerosD 2) false * ρ.var "Jac" [1, 1] (zerosD 2) false
      - ρ.var "Jac" [0, 1] (zerosD 2) false * ρ.var "Jac" [1, 0] (zerosD 2) false)) :
    ρ.var "W" [] (zerosD dim) false = ev (fieldOps fn) ρ Expr.dx 0 0 :=
  dx_expansion_sound_dim2 fn ρ dim hW hGW hdx

/-- non-vacuity of the chain-rule hypotheses: dimension 1, `J = 2`, `JacInv = 1/2`, `g = 3`, `H = 5`, flat geometry -/
example : (∑ r ∈ Finset.range 1, (2 : ℚ) * (1 / 2) = if (0 : ℕ) = 0 then 1 else 0)
    ∧ ((6 : ℚ) = ∑ m ∈ Finset.range 1, 2 * 3)
    ∧ ((20 : ℚ) = ∑ n ∈ Finset.range 1, (∑ m ∈ Finset.range 1, 2 * 5) * 2 + ∑ m ∈ Finset.range 1, 3 * 0) := by
  norm_num

/-- **phys_to_para_sound** — closes the physical-derivative pass.  `replacePhysAll dim physIn` is the transliteration of
`vf.transform(replace_physical_derivs, type=PartialDerivExpr); vf.transform(replace_physical_derivs, type=VarRefExpr)` (tied to
the real pass by exact structural diff on every corpus tree, stream `rphys`).  `ChainRuleEnv`: the environment's physical jets
satisfy the chain-rule *defining equations* (first order, and second order with the geometry-Hessian term) w.r.t. a Jacobian
`J` for every basis function and every entry of every parametric input field, `JacInv` holds a right inverse of `J`, the
`_geo_hess_trf` variables hold their definitions.  Then for EVERY expression tree whose multi-indices have `dim` entries, in
EVERY dimension, every entry of the rewritten expression equals the entry of the original one. -/
theorem phys_to_para_sound {α : Type} [Field α] [CharZero α] (fn : String → α → α) (ρ : Env α) (dim : Nat)
    (physIn : List String) (J : Nat → Nat → α) (hE : ChainRuleEnv fn ρ dim physIn J) (e : Expr)
    (hwf : allLeaves (idxLenOK dim) e = true) (i j : Nat) :
    ev (fieldOps fn) ρ (replacePhysAll dim physIn e) i j = ev (fieldOps fn) ρ e i j :=
  replacePhysAll_sound' fn ρ dim physIn J hE e hwf i j

/-! non-vacuity of `ChainRuleEnv`: a concrete environment (dim 1, `J = 2`, `JacInv = 1/2`, flat geometry,
`∂_ξ φ = 2`, `∂_x φ = 1`, `∂_ξξ φ = 4`, `∂_xx φ = 1`) satisfying all of its clauses -/
namespace NonVacuity
open Pyiga.VForm Finset
/-- a concrete environment: dim 1, `J = 2`, `JacInv = 1/2`, flat geometry, `∂_x φ = 1`, `∂_xx φ = 1` -/
def chainRuleExampleEnv : Env ℚ :=
  { var := fun _ I D _ => if I = [0, 0] ∧ D = [0] then 1 / 2 else 0
    bf := fun _ D ph => match D, ph with
      | [1], true => 1 | [1], false => 2 | [2], true => 1 | [2], false => 4 | _, _ => 7
    gw := fun _ => 1, dx := 1, ds := 1 }

example : ChainRuleEnv (fun _ x => x) chainRuleExampleEnv 1 [] (fun _ _ => 2) where
  hinv := by intro m k hm hk; have : m = 0 := by omega
             have : k = 0 := by omega
             subst_vars; simp [chainRuleExampleEnv, zerosD]
  flag_bf := by
    intro b D ph h
    simp only [chainRuleExampleEnv]
    split <;> simp_all [dsum]
  flag_var := by intro v I D p _; simp [chainRuleExampleEnv]
  bf1 := by intro b r hr; have : r = 0 := by omega
            subst this; simp [chainRuleExampleEnv, unitD, zerosD, bump]
  bf2 := by intro b r c hr hc; have : r = 0 := by omega
            have : c = 0 := by omega
            subst_vars; simp [chainRuleExampleEnv, unit2D, unitD, zerosD, bump]; norm_num
  var1 := by intro v I r _ hr; have : r = 0 := by omega
             subst this; simp only [Finset.sum_range_one]; simp [chainRuleExampleEnv, unitD, zerosD, bump]
  var2 := by intro v I r c _ hr hc; have : r = 0 := by omega
             have : c = 0 := by omega
             subst_vars; simp only [Finset.sum_range_one]; simp [chainRuleExampleEnv, unit2D, unitD, zerosD, bump]
  ght := by
    intro k i j _ _ _; rw [ev_geoHessTrfDef]
    simp only [Finset.sum_range_one]
    simp [chainRuleExampleEnv, unit2D, zerosD, bump]

end NonVacuity

/-- **jacinv_right_inverse_dim3**: the modelled `inv(Jac)` (cofactors · 1/det, as the library builds it) is a right inverse
of `Jac` in dimension 3 wherever `det Jac ≠ 0` — with `jacinv_right_inverse` this covers all dimensions pyiga supports. -/
theorem jacinv_right_inverse_dim3 {α : Type} [Field α] [CharZero α] (fn : String → α → α) (ρ : Env α) (dim : Nat)
    (m k : Nat) (hm : m < 3) (hk : k < 3) (hdet : ev (fieldOps fn) ρ (detL 3 (varMat "Jac" dim 3 3)) 0 0 ≠ 0) :
    ∑ r ∈ Finset.range 3, ρ.var "Jac" [m, r] (zerosD dim) false * ev (fieldOps fn) ρ (invL 3 (varMat "Jac" dim 3 3)) r k
      = if m = k then 1 else 0 :=
  jacInv3_right_inverse fn ρ dim m k hm hk hdet

/-- **chain_rule_env_of_defs** (dims 1–3): `ChainRuleEnv`'s hypothesis on the derived variable `JacInv` is discharged by the
modelled definitions — it suffices that the store holds the *definitions* of `Jac` (= parametric gradient of the geometry)
and `JacInv` (= `inv(Jac)`), that `det Jac ≠ 0`, and the jet definitions `JetDefs` (chain-rule defining equations, flags,
`_geo_hess_trf` definitions).  The Jacobian is read off the geometry jet: `J m i = ∂_{ξ_i} G_m`. -/
theorem chain_rule_env_of_defs {α : Type} [Field α] [CharZero α] (fn : String → α → α) (ρ : Env α) (dim : Nat)
    (hdim : dim = 1 ∨ dim = 2 ∨ dim = 3) (physIn : List String) (hS : JacStore fn ρ dim)
    (hJ : JetDefs fn ρ dim physIn (fun m i => ρ.var "geo_a" [m] (unitD dim i) true)) :
    ChainRuleEnv fn ρ dim physIn (fun m i => ρ.var "geo_a" [m] (unitD dim i) true) :=
  chainRuleEnv_of_defs fn ρ dim hdim physIn hS hJ

/-- **phys_to_para_sound_spacetime**: the pass on space-time forms (`replacePhysAllST`, tied by the `rphysST` stream) preserves
every entry of every expression tree with well-formed multi-indices, for `d` space axes + time, under the explicit cylinder
hypotheses bundled in `ChainRuleEnvST` (`∂_t G_x = 0`; pure time derivatives agree — `spacetime_time_derivs`). -/
theorem phys_to_para_sound_spacetime {α : Type} [Field α] [CharZero α] (fn : String → α → α) (ρ : Env α) (d : Nat)
    (physIn : List String) (J : Nat → Nat → α) (hE : ChainRuleEnvST fn ρ d J) (e : Expr)
    (hwf : allLeaves (idxLenOK (d + 1)) e = true) (i j : Nat) :
    ev (fieldOps fn) ρ (replacePhysAllST (d + 1) physIn e) i j = ev (fieldOps fn) ρ e i j :=
  replacePhysAllST_sound fn ρ d physIn J hE e hwf i j

/-- **scheduled_phys_to_para** (dims 1–3) — `schedule_sound` composed with `phys_to_para_sound`; nothing is assumed about
derived variables any more.  `base` holds only jets: the geometry `geo_a` with its parametric derivatives, and basis functions /
input fields whose physical derivatives are *defined* by the chain rule w.r.t. the geometry Jacobian `J m i = ∂_{ξ_i} G_m`.
Run the derived-variable program `physVarProg dim` — `Jac := grad_para Geo`, `JacInv := inv(Jac)`, every
`_geo_hess_trf_k_i_j` — from ANY store (`SLP.run`, tensor-valued variables, each definition evaluated by `ev` in the environment
`envOf` that reads derived variables from the store).  Then (1) the program is single-assignment and def-before-use, and
(2) if the Jacobian is non-singular, the pass `replacePhysAll` preserves every entry of every well-formed expression tree in
the resulting environment. -/
theorem scheduled_phys_to_para {α : Type} [Field α] [CharZero α] (fn : String → α → α) (base : Env α) (dim : Nat)
    (hdim : dim = 1 ∨ dim = 2 ∨ dim = 3) (physIn : List String) (σ0 : Store (List Nat → α))
    (flag_bf : ∀ b D ph, dsum D = 0 → base.bf b D ph = base.bf b D false)
    (flag_var : ∀ v I D p, dsum D = 0 → base.var v I D p = base.var v I D true)
    (bf1 : ∀ b r, r < dim → base.bf b (unitD dim r) false
      = ∑ m ∈ Finset.range dim, base.var "geo_a" [m] (unitD dim r) true * base.bf b (unitD dim m) true)
    (bf2 : ∀ b r c, r < dim → c < dim → base.bf b (unit2D dim r c) false
      = ∑ n ∈ Finset.range dim, (∑ m ∈ Finset.range dim, base.var "geo_a" [m] (unitD dim r) true * base.bf b (unit2D dim m n) true)
            * base.var "geo_a" [n] (unitD dim c) true
        + ∑ m ∈ Finset.range dim, base.bf b (unitD dim m) true * base.var "geo_a" [m] (unit2D dim r c) true)
    (var1 : ∀ v I r, physIn.contains v = false → r < dim → base.var v I (unitD dim r) true
      = ∑ m ∈ Finset.range dim, base.var "geo_a" [m] (unitD dim r) true * base.var v I (unitD dim m) false)
    (var2 : ∀ v I r c, physIn.contains v = false → r < dim → c < dim → base.var v I (unit2D dim r c) true
      = ∑ n ∈ Finset.range dim, (∑ m ∈ Finset.range dim, base.var "geo_a" [m] (unitD dim r) true * base.var v I (unit2D dim m n) false)
            * base.var "geo_a" [n] (unitD dim c) true
        + ∑ m ∈ Finset.range dim, base.var v I (unitD dim m) false * base.var "geo_a" [m] (unit2D dim r c) true)
    (hdet : ev (fieldOps fn) (envOf base (physLets dim) (run (semOf fn base dim) (physVarProg dim) σ0))
      (detL dim (varMat "Jac" dim dim dim)) 0 0 ≠ 0) :
    defBeforeUse [] (physVarProg dim) = true ∧
    ∀ e, allLeaves (idxLenOK dim) e = true → ∀ i j,
      ev (fieldOps fn) (envOf base (physLets dim) (run (semOf fn base dim) (physVarProg dim) σ0)) (replacePhysAll dim physIn e) i j
        = ev (fieldOps fn) (envOf base (physLets dim) (run (semOf fn base dim) (physVarProg dim) σ0)) e i j :=
  Pyiga.VForm.scheduled_phys_to_para fn base dim hdim physIn σ0 flag_bf flag_var bf1 bf2 var1 var2 hdet

/-- Full statement for the physical-derivative pass (kept as the one-line
statement over *all* trees and the pass as a black box; every branch of the pass is now transliterated in
`Model/VFormPhys.lean`, tied by exact structural diff, and proved above: `phys_to_para_first_order`,
`phys_to_para_second_order` + `geo_hess_trf_value`, `phys_to_para_spacetime` + `spacetime_time_derivs`, `input_derivs_sound`,
`measures_sound`, `jacinv_right_inverse`, `dx_expansion_sound`; and composed over all expression trees in `phys_to_para_sound`, which instantiates this statement with
`replacePhys := replacePhysAll dim physIn` and `ChainRuleEnv ρ := ChainRuleEnv fn ρ dim physIn J`; the space-time pass is `phys_to_para_sound_spacetime`; the derived variables are no longer
assumed: `scheduled_phys_to_para` runs their definitions as a def-before-use program and derives `ChainRuleEnv` (dims 1–3)): for every
expression `e`, `⟦replace_physical_derivs e⟧ = ⟦e⟧` in every environment whose physical jets satisfy
the chain-rule defining equations w.r.t. its parametric jets and the geometry jets. -/
def phys_to_para_full : Prop :=
  ∀ (α : Type) [Field α] (replacePhys : Expr → Expr) (ChainRuleEnv : Env α → Prop) (o : Ops α),
    ∀ ρ, ChainRuleEnv ρ → ∀ e i j, ev o ρ (replacePhys e) i j = ev o ρ e i j

end Pyiga.Props.C06
