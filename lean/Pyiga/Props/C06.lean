import Pyiga.Model.VForm
import Pyiga.Model.SLP
namespace Pyiga.Props.C06
end Pyiga.Props.C06
