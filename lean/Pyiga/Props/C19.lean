/-
Property C19 — knot vectors are constructed and queried exactly.
Property theorems only (helper lemmas live in Proofs/).

The statements are about the functions of `Pyiga.Model.Knots` (the functions the correspondence
driver `drv_c19` executes over `Rat`).  Order-theoretic facts hold over every `LinearOrder`
(hence for IEEE doubles without NaN as they are); the constructor facts are about the exact
constructor over an arbitrary linearly ordered field (rounding inside `np.linspace` is bounded by
the correspondence check, not modelled).
-/
import Pyiga.Proofs.BSpline
import Pyiga.Proofs.KnotsInterleave
import Pyiga.Props.C02

namespace Pyiga.Props.C19
open Pyiga.Knots Pyiga.BSpline

set_option linter.unusedSectionVars false

/-! ## span lookup (any linear order) -/

section Order
variable {K : Type} [LinearOrder K]

/-- `t` is non-decreasing on its first `n` entries -/
def Mono (t : ℕ → K) (n : ℕ) : Prop := ∀ i j, i ≤ j → j < n → t i ≤ t j

/-- **findspan_spec.**  Open knot vector with `n ≥ 2p+2` knots, `kv[p] ≤ u < kv[n-p-1]`:
`pyx_findspan` returns `s` with `p ≤ s ≤ n-p-2` and `kv[s] ≤ u < kv[s+1]` (in particular the span is
non-empty). -/
theorem findspan_spec (t : ℕ → K) (n p : ℕ) (u : K) (hn : 2 * p + 2 ≤ n) (hmono : Mono t n)
    (hlo : t p ≤ u) (hhi : u < t (n - p - 1)) :
    p ≤ findspan t n p u ∧ findspan t n p u ≤ n - p - 2 ∧
      t (findspan t n p u) ≤ u ∧ u < t (findspan t n p u + 1) :=
  findspan_interior t n p u hn hmono hlo hhi

/-- the span containing `u` is unique -/
theorem findspan_unique (t : ℕ → K) (n : ℕ) (u : K) (hmono : Mono t n) (i j : ℕ)
    (hi : i + 1 < n) (hj : j + 1 < n) (h1 : t i ≤ u ∧ u < t (i + 1)) (h2 : t j ≤ u ∧ u < t (j + 1)) :
    i = j := span_unique t n u hmono i j hi hj h1 h2

/-- at (and beyond) the right end point the last span `n-p-2` is returned; for an open knot vector
whose last interior span is non-empty this is the last non-empty span: every later span is empty. -/
theorem findspan_right_end (t : ℕ → K) (n p : ℕ) (u : K) (hn : 2 * p + 2 ≤ n) (hmono : Mono t n)
    (hu : t (n - p - 1) ≤ u) (hopen : t (n - p - 1) = t (n - 1)) (hlast : t (n - p - 2) < t (n - p - 1)) :
    findspan t n p u = n - p - 2 ∧ t (n - p - 2) < t (n - p - 2 + 1) ∧
      ∀ i, n - p - 2 < i → i + 1 < n → t i = t (i + 1) := by
  refine ⟨findspan_right t n p u hu, ?_, ?_⟩
  · have e : n - p - 2 + 1 = n - p - 1 := by omega
    rw [e]; exact hlast
  · intro i hi hin
    apply le_antisymm (hmono _ _ (by omega) hin)
    calc t (i + 1) ≤ t (n - 1) := hmono _ _ (by omega) (by omega)
      _ = t (n - p - 1) := hopen.symm
      _ ≤ t i := hmono _ _ (by omega) (by omega)

/-- the structural fuel of the modelled `while` loop is irrelevant: any fuel `≥ n-1` gives the
same answer (the loop terminates by itself) -/
theorem findspan_fuel_irrelevant (t : ℕ → K) (u : K) (n f : ℕ) (hf : n - 1 ≤ f) :
    findspanLoop t u f 0 (n - 1) = findspanLoop t u n 0 (n - 1) :=
  findspanLoop_fuel t u f n 0 (n - 1) (by omega) (by omega)

example : findspan (fun i => getK ([0, 0, 0, 1, 2, 2, 3, 3, 3] : List ℤ) i) 9 2 2 = 5 := by decide

/-! ## mesh, knot-to-mesh map, span indices, supports -/

/-- the mesh of a non-decreasing knot vector is strictly increasing -/
theorem mesh_strictly_increasing (kv : List K) (h : kv.Pairwise (· ≤ ·)) : (mesh kv).Pairwise (· < ·) := by
  cases kv with
  | nil => simp [mesh]
  | cons x xs => exact meshAux_sorted xs x h

/-- `mesh[knots_to_mesh[i]] = kv[i]` for every knot index -/
theorem mesh_knots_to_mesh [Zero K] (kv : List K) (i : ℕ) (hi : i < kv.length) :
    getK (mesh kv) ((knotsToMesh kv).getD i 0) = getK kv i := by
  cases kv with
  | nil => simp at hi
  | cons x xs =>
    cases i with
    | zero => simp [getK, mesh, knotsToMesh]
    | succ i =>
      have := mesh_k2mAux xs x 0 i (by simpa using hi)
      simpa [getK, mesh, knotsToMesh] using this

/-- `knots_to_mesh` starts at 0, never decreases and never skips a mesh index -/
theorem knots_to_mesh_monotone (kv : List K) :
    List.IsChain (fun a b => a ≤ b ∧ b ≤ a + 1) (knotsToMesh kv) ∧ (knotsToMesh kv).head? = kv.head?.map (fun _ => 0) := by
  cases kv with
  | nil => simp [knotsToMesh]
  | cons x xs => exact ⟨k2mAux_chain xs x 0, by simp [knotsToMesh]⟩

/-- `mesh_span_indices()` = the indices `j` with `kv[j] ≠ kv[j+1]` (for a non-decreasing vector:
`kv[j] < kv[j+1]`, the non-empty spans), in increasing order -/
theorem mesh_span_indices_spec [Zero K] (kv : List K) (j : ℕ) :
    j ∈ meshSpanIndices (knotsToMesh kv) ↔ j + 1 < kv.length ∧ getK kv j ≠ getK kv (j + 1) := by
  unfold meshSpanIndices
  cases kv with
  | nil => simp [knotsToMesh, meshSpanIndicesAux]
  | cons x xs =>
    have h1 : meshSpanIndicesAux 0 (knotsToMesh (x :: xs)) = spanIdxSpec 0 (x :: xs) := by
      simpa [knotsToMesh] using meshSpanIndicesAux_k2m xs x 0 0
    rw [h1, mem_spanIdxSpec]
    constructor
    · rintro ⟨k, hk, hlen, hne⟩
      have : j = k := by omega
      subst this
      exact ⟨hlen, hne⟩
    · rintro ⟨hlen, hne⟩
      exact ⟨j, by omega, hlen, hne⟩

/-- their number is `numspans` -/
theorem mesh_span_indices_count (kv : List K) : (meshSpanIndices (knotsToMesh kv)).length = numspans kv := by
  unfold meshSpanIndices numspans
  cases kv with
  | nil => simp [knotsToMesh, meshSpanIndicesAux, mesh]
  | cons x xs =>
    have h1 : meshSpanIndicesAux 0 (knotsToMesh (x :: xs)) = spanIdxSpec 0 (x :: xs) := by
      simpa [knotsToMesh] using meshSpanIndicesAux_k2m xs x 0 0
    rw [h1, spanIdxSpec_length]
    simp [mesh]

/-- `mesh_support_idx(j)` are the mesh indices of the support end points `kv[j]`, `kv[j+p+1]`, and
`mesh_support_idx_all()` lists exactly these pairs -/
theorem mesh_support_consistency [Zero K] (kv : List K) (p j : ℕ) (hj : j + p + 1 < kv.length) :
    getK (mesh kv) (meshSupportIdx (knotsToMesh kv) p j).1 = (support kv p j).1 ∧
    getK (mesh kv) (meshSupportIdx (knotsToMesh kv) p j).2 = (support kv p j).2 ∧
    (meshSupportIdxAll (knotsToMesh kv) p (numdofs kv p)).getD j (0, 0) = meshSupportIdx (knotsToMesh kv) p j := by
  refine ⟨mesh_knots_to_mesh kv j (by omega), mesh_knots_to_mesh kv (j + p + 1) hj, ?_⟩
  have hjn : j < numdofs kv p := by unfold numdofs; omega
  unfold meshSupportIdxAll meshSupportIdx supportIdx
  simp only [List.getD_eq_getElem?_getD, List.getElem?_map, List.getElem?_range hjn]
  have e : p + 1 + j = j + p + 1 := by omega
  simp [e]

/-! ## refine -/

/-- `refine(new_knots)` is non-decreasing … -/
theorem refine_sorted (kv new : List K) : (refineWith kv new).Pairwise (· ≤ ·) := sortL_sorted _

/-- … and is the multiset union of the old and the new knots -/
theorem refine_perm (kv new : List K) : (refineWith kv new).Perm (kv ++ new) := sortL_perm _

end Order

/-! ## the constructor (exact arithmetic, any linearly ordered field) -/

section Field
variable {K : Type} [Field K] [LinearOrder K] [IsStrictOrderedRing K]

/-- length `2(p+1) + mult(n-1)` -/
theorem make_knots_length (p : ℕ) (a b : K) (n mult : ℕ) :
    (makeKnots p a b n mult).length = 2 * (p + 1) + mult * (n - 1) := by
  simp [makeKnots, repeatEach_length, linspaceInterior_length]
  ring

/-- `numdofs = p + 1 + mult (n-1)` -/
theorem make_knots_numdofs (p : ℕ) (a b : K) (n mult : ℕ) :
    numdofs (makeKnots p a b n mult) p = p + 1 + mult * (n - 1) := by
  unfold numdofs
  rw [make_knots_length]
  omega

/-- non-decreasing -/
theorem make_knots_sorted (p : ℕ) (a b : K) (n mult : ℕ) (hab : a < b) (hn : 1 ≤ n) :
    (makeKnots p a b n mult).Pairwise (· ≤ ·) := by
  rw [makeKnots_eq_expand]
  apply expand_sorted
  rw [mkPairs_fst]
  exact breakpoints_increasing a b n hab hn

/-- **make_knots_spec (mesh).**  The breakpoints are exactly `a`, the `n-1` interior points
`a + i·(b-a)/n` (`i = 1..n-1`, by definition of `linspaceInterior`) and `b`. -/
theorem make_knots_mesh (p : ℕ) (a b : K) (n mult : ℕ) (hab : a < b) (hn : 1 ≤ n) (hm : 1 ≤ mult) :
    mesh (makeKnots p a b n mult) = a :: (linspaceInterior a b n ++ [b]) := by
  rw [makeKnots_eq_expand]
  unfold mkPairs
  have hp : (a :: ((linspaceInterior a b n).map (fun x => (x, mult)) ++ [(b, p + 1)]).map Prod.fst).Pairwise (· ≠ ·) := by
    have := breakpoints_increasing a b n hab hn
    rw [← mkPairs_fst p a b n mult] at this
    exact List.Pairwise.imp (fun h => ne_of_lt h) (by simpa [mkPairs] using this)
  rw [mesh_expand a p _ _ hp]
  · simp [List.map_map, Function.comp_def]
  · intro q hq
    rcases List.mem_append.mp hq with h | h
    · obtain ⟨x, _, rfl⟩ := List.mem_map.mp h; exact hm
    · have : q = (b, p + 1) := by simpa using h
      rw [this]; exact Nat.succ_pos p

/-- exactly `n` non-empty spans -/
theorem make_knots_numspans (p : ℕ) (a b : K) (n mult : ℕ) (hab : a < b) (hn : 1 ≤ n) (hm : 1 ≤ mult) :
    numspans (makeKnots p a b n mult) = n := by
  unfold numspans
  rw [make_knots_mesh p a b n mult hab hn hm]
  simp [linspaceInterior_length]
  omega

/-- the last breakpoint is exactly `b`, and it is the `n`-th point of the equally spaced grid;
the first is `a`, the `0`-th point -/
theorem make_knots_last_breakpoint (p : ℕ) (a b : K) (n mult : ℕ) (hab : a < b) (hn : 1 ≤ n) (hm : 1 ≤ mult) :
    (mesh (makeKnots p a b n mult)).getLast? = some b ∧ (mesh (makeKnots p a b n mult)).head? = some a ∧
      (n : K) * ((b - a) / (n : K)) + a = b ∧ ((0 : ℕ) : K) * ((b - a) / (n : K)) + a = a := by
  rw [make_knots_mesh p a b n mult hab hn hm]
  refine ⟨?_, by simp, last_breakpoint a b n hn, by simp⟩
  rw [← List.cons_append, List.getLast?_append]
  simp

/-- multiplicities: `p+1` at both ends, `mult` at each of the `n-1` interior breakpoints -/
theorem make_knots_mults (p : ℕ) (a b : K) (n mult : ℕ) (hab : a < b) (hn : 1 ≤ n) (hm : 1 ≤ mult) :
    mults (makeKnots p a b n mult) = (p + 1) :: (List.replicate (n - 1) mult ++ [p + 1]) := by
  rw [makeKnots_eq_expand]
  unfold mkPairs
  have hp : (a :: ((linspaceInterior a b n).map (fun x => (x, mult)) ++ [(b, p + 1)]).map Prod.fst).Pairwise (· ≠ ·) := by
    have := breakpoints_increasing a b n hab hn
    rw [← mkPairs_fst p a b n mult] at this
    exact List.Pairwise.imp (fun h => ne_of_lt h) (by simpa [mkPairs] using this)
  rw [mults_expand a p _ _ hp]
  · simp [List.map_map, Function.comp_def, linspaceInterior]
  · intro q hq
    rcases List.mem_append.mp hq with h | h
    · obtain ⟨x, _, rfl⟩ := List.mem_map.mp h; exact hm
    · have : q = (b, p + 1) := by simpa using h
      rw [this]; exact Nat.succ_pos p

/-- open: the first `p+1` knots are `a`, the last `p+1` are `b` -/
theorem make_knots_open (p : ℕ) (a b : K) (n mult : ℕ) :
    (makeKnots p a b n mult).take (p + 1) = List.replicate (p + 1) a ∧
    (makeKnots p a b n mult).drop ((makeKnots p a b n mult).length - (p + 1)) = List.replicate (p + 1) b := by
  constructor
  · unfold makeKnots
    rw [List.take_left' (by simp)]
  · have h : makeKnots p a b n mult
        = (List.replicate (p + 1) a ++ repeatEach (linspaceInterior a b n) mult) ++ List.replicate (p + 1) b := by
      simp [makeKnots]
    rw [h, List.length_append, List.length_replicate, Nat.add_sub_cancel]
    exact List.drop_left' rfl

/-- the constructor applied to an arbitrary list of interior breakpoints (what `make_knots` does after
`np.linspace` has produced its doubles) -/
def makeKnotsFrom (p : ℕ) (a b : K) (interior : List K) (mult : ℕ) : List K :=
  List.replicate (p + 1) a ++ (repeatEach interior mult ++ List.replicate (p + 1) b)

theorem makeKnots_eq_from (p : ℕ) (a b : K) (n mult : ℕ) :
    makeKnots p a b n mult = makeKnotsFrom p a b (linspaceInterior a b n) mult := rfl

/-- **make_knots_rounded** (lifting lemma for the computed doubles; needs only a linear order on the
values): whatever interior breakpoints the floating-point `linspace` produced — e.g. any monotone
rounding of `a + i·h` — as long as `a, interior…, b` is still strictly increasing (consecutive exact
breakpoints further apart than two roundoffs; the harness checks exactly this on every constructed
vector) and there are `n-1` of them, the knot vector is non-decreasing, its mesh is that breakpoint
list, it has `n` non-empty spans, the requested multiplicities and `p+1+mult(n-1)` dofs.  This does
**not** hold for the former `arange` construction, whose *length* was decided by a rounded quotient. -/
theorem make_knots_rounded (p : ℕ) (a b : K) (interior : List K) (n mult : ℕ)
    (hinc : (a :: (interior ++ [b])).Pairwise (· < ·)) (hlen : interior.length = n - 1) (hn : 1 ≤ n)
    (hm : 1 ≤ mult) :
    (makeKnotsFrom p a b interior mult).Pairwise (· ≤ ·) ∧
    mesh (makeKnotsFrom p a b interior mult) = a :: (interior ++ [b]) ∧
    numspans (makeKnotsFrom p a b interior mult) = n ∧
    mults (makeKnotsFrom p a b interior mult) = (p + 1) :: (List.replicate (n - 1) mult ++ [p + 1]) ∧
    numdofs (makeKnotsFrom p a b interior mult) p = p + 1 + mult * (n - 1) := by
  have hex : makeKnotsFrom p a b interior mult
      = expand ((a, p + 1) :: (interior.map (fun x => (x, mult)) ++ [(b, p + 1)])) := by
    simp [makeKnotsFrom, expand, repeatEach, List.flatMap_append, List.flatMap_map]
  have hfst : ((a, p + 1) :: (interior.map (fun x => (x, mult)) ++ [(b, p + 1)])).map Prod.fst
      = a :: (interior ++ [b]) := by simp [List.map_map, Function.comp_def]
  have hne : (a :: (interior.map (fun x => (x, mult)) ++ [(b, p + 1)]).map Prod.fst).Pairwise (· ≠ ·) := by
    have : (a :: (interior.map (fun x => (x, mult)) ++ [(b, p + 1)]).map Prod.fst) = a :: (interior ++ [b]) := by
      simp [List.map_map, Function.comp_def]
    rw [this]
    exact List.Pairwise.imp (fun h => ne_of_lt h) hinc
  have hcnt : ∀ q ∈ interior.map (fun x => (x, mult)) ++ [(b, p + 1)], 1 ≤ q.2 := by
    intro q hq
    rcases List.mem_append.mp hq with h | h
    · obtain ⟨x, _, rfl⟩ := List.mem_map.mp h; exact hm
    · have : q = (b, p + 1) := by simpa using h
      rw [this]; exact Nat.succ_pos p
  have hmesh : mesh (makeKnotsFrom p a b interior mult) = a :: (interior ++ [b]) := by
    rw [hex, mesh_expand a p _ hcnt hne]
    simp [List.map_map, Function.comp_def]
  refine ⟨?_, hmesh, ?_, ?_, ?_⟩
  · rw [hex]; apply expand_sorted; rw [hfst]; exact hinc
  · unfold numspans; rw [hmesh]; simp [hlen]; omega
  · rw [hex, mults_expand a p _ hcnt hne]
    simp [List.map_map, Function.comp_def, hlen]
  · unfold numdofs makeKnotsFrom
    simp [repeatEach_length, hlen]
    have : mult * (n - 1) + (p + 1) = p + 1 + mult * (n - 1) := by omega
    omega

example : makeKnots 2 (0 : ℚ) 1 4 1 = [0, 0, 0, 1/4, 1/2, 3/4, 1, 1, 1]
    ∧ numspans (makeKnots 2 (0 : ℚ) 1 4 1) = 4 ∧ mults (makeKnots 1 (0 : ℚ) 3 3 2) = [2, 2, 2, 2] := by
  decide +kernel

/-! ## the constructor's output satisfies the hypotheses of the basis theorems (C02) -/

/-- every `make_knots(p, a, b, n, mult)` with `a < b`, `n ≥ 1` is an admissible knot vector for the
B-spline theorems: at least `2p+2` knots, non-decreasing, `kv[p] = a`, `kv[N-p-1] = b`, last span
non-empty. -/
theorem make_knots_admissible (p : ℕ) (a b : K) (n mult : ℕ) (hab : a < b) (hn : 1 ≤ n) :
    2 * p + 2 ≤ (makeKnots p a b n mult).length ∧
    (∀ i j, i ≤ j → j < (makeKnots p a b n mult).length →
        getK (makeKnots p a b n mult) i ≤ getK (makeKnots p a b n mult) j) ∧
    getK (makeKnots p a b n mult) p = a ∧
    getK (makeKnots p a b n mult) ((makeKnots p a b n mult).length - p - 1) = b ∧
    getK (makeKnots p a b n mult) ((makeKnots p a b n mult).length - p - 2)
      < getK (makeKnots p a b n mult) ((makeKnots p a b n mult).length - p - 1) := by
  have hlen := make_knots_length p a b n mult
  have hfront : ∀ x ∈ List.replicate (p + 1) a ++ repeatEach (linspaceInterior a b n) mult, x < b := by
    intro x hx
    have hinc := breakpoints_increasing a b n hab hn
    have h2 : ∀ y ∈ a :: linspaceInterior a b n, y < b := by
      have h3 : ((a :: linspaceInterior a b n) ++ [b]).Pairwise (· < ·) := by simpa using hinc
      intro y hy
      exact (List.pairwise_append.mp h3).2.2 y hy b (by simp)
    rcases List.mem_append.mp hx with h | h
    · rw [(List.mem_replicate.mp h).2]; exact h2 a (by simp)
    · unfold repeatEach at h
      obtain ⟨y, hy, hxy⟩ := List.mem_flatMap.mp h
      rw [(List.mem_replicate.mp hxy).2]; exact h2 y (by simp [hy])
  have hsplit : makeKnots p a b n mult
      = (List.replicate (p + 1) a ++ repeatEach (linspaceInterior a b n) mult) ++ List.replicate (p + 1) b := by
    simp [makeKnots]
  set front := List.replicate (p + 1) a ++ repeatEach (linspaceInterior a b n) mult with hfdef
  have hfl : front.length = (makeKnots p a b n mult).length - (p + 1) := by
    rw [hsplit]; simp
  have hfpos : p + 1 ≤ front.length := by rw [hfdef]; simp
  have hb : getK (makeKnots p a b n mult) ((makeKnots p a b n mult).length - p - 1) = b := by
    have e : (makeKnots p a b n mult).length - p - 1 = front.length := by omega
    rw [e, hsplit]
    simp [getK, List.getD_eq_getElem?_getD, List.getElem?_append_right]
  refine ⟨by rw [hlen]; omega, getK_mono _ (make_knots_sorted p a b n mult hab hn), ?_, hb, ?_⟩
  · unfold makeKnots
    simp [getK, List.getD_eq_getElem?_getD, List.getElem?_append_left, List.getElem?_replicate]
  · rw [hb]
    have e : (makeKnots p a b n mult).length - p - 2 = front.length - 1 := by omega
    have hlt : front.length - 1 < front.length := by omega
    have hget : getK (makeKnots p a b n mult) (front.length - 1) = front[front.length - 1] := by
      rw [hsplit]
      simp [getK, List.getD_eq_getElem?_getD, List.getElem?_append_left hlt, List.getElem?_eq_getElem hlt]
    rw [e, hget]
    exact hfront _ (List.getElem_mem hlt)

/-- **constructor + evaluation, end to end**: for every knot vector built by `make_knots` and every
`u ∈ [a, b]`, the values returned by the modelled `active_ev` are non-negative and sum to one. -/
theorem make_knots_partition_of_unity (p : ℕ) (a b : K) (n mult : ℕ) (hab : a < b) (hn : 1 ≤ n)
    (u : K) (hua : a ≤ u) (hub : u ≤ b) :
    (∀ x ∈ activeEv (getK (makeKnots p a b n mult)) (makeKnots p a b n mult).length p u, 0 ≤ x) ∧
    (activeEv (getK (makeKnots p a b n mult)) (makeKnots p a b n mult).length p u).sum = 1 := by
  obtain ⟨h1, h2, h3, h4, h5⟩ := make_knots_admissible p a b n mult hab hn
  exact ⟨Pyiga.Props.C02.active_values_nonneg _ _ p u h1 h2 (by rw [h3]; exact hua) (by rw [h4]; exact hub) h5,
    Pyiga.Props.C02.active_values_sum_one _ _ p u h1 h2 (by rw [h3]; exact hua) (by rw [h4]; exact hub) h5⟩

/-! ## Greville abscissae -/

/-- for `p ≥ 1` the points returned by `greville()` lie in `[kv[0], kv[-1]]` -/
theorem greville_in_domain (kv : List K) (p : ℕ) (hp : 1 ≤ p)
    (hends : getK kv 0 ≤ getK kv (kv.length - 1)) :
    ∀ g ∈ greville kv p, getK kv 0 ≤ g ∧ g ≤ getK kv (kv.length - 1) := by
  intro g hg
  unfold greville at hg
  have : ¬ p = 0 := by omega
  simp only [this, if_false] at hg
  obtain ⟨i, _, rfl⟩ := List.mem_map.mp hg
  exact clip_mem _ _ _ hends

/-- in exact arithmetic the clip is the identity: the running average of `p` knots of a
non-decreasing knot vector already lies in `[kv[0], kv[-1]]` -/
theorem greville_raw_in_domain (t : ℕ → K) (kv : List K) (ht : ∀ i, getK kv i = t i) (n p i : ℕ)
    (hlen : kv.length = n) (hmono : ∀ i j, i ≤ j → j < n → t i ≤ t j) (hp : 1 ≤ p) (hi : i + p < n) :
    t 0 ≤ runningAvg kv p i ∧ runningAvg kv p i ≤ t (n - 1) := by
  apply runningAvg_bounds kv p i (t 0) (t (n - 1)) hp
  intro j hj
  rw [ht]
  exact ⟨hmono _ _ (Nat.zero_le _) (by omega), hmono _ _ (by omega) (by omega)⟩

/-! ## uniform refinement -/

theorem mem_meshAux : ∀ (xs : List K) (prev x : K), x ∈ prev :: meshAux prev xs ↔ x ∈ prev :: xs := by
  intro xs
  induction xs with
  | nil => intro prev x; simp [meshAux]
  | cons y ys ih =>
    intro prev x
    by_cases hy : y = prev
    · subst hy
      simp only [meshAux, if_true]
      rw [ih y x]; simp
    · simp only [meshAux, hy, if_false, List.mem_cons]
      have := ih y x
      simp only [List.mem_cons] at this
      rw [this]

theorem mem_mesh (kv : List K) (x : K) : x ∈ mesh kv ↔ x ∈ kv := by
  cases kv with
  | nil => simp [mesh]
  | cons a l => simpa [mesh] using mem_meshAux l a x

/-- **uniform refinement** of a non-decreasing, non-empty knot vector: the result is non-decreasing,
is the multiset union of the old knots and the span midpoints, has exactly twice as many non-empty
spans, and every old knot keeps its multiplicity. -/
theorem refine_uniform_spec (kv : List K) (h : kv.Pairwise (· ≤ ·)) (hne : kv ≠ []) :
    (refineUniform kv).Pairwise (· ≤ ·) ∧
    (refineUniform kv).Perm (kv ++ midpoints (mesh kv)) ∧
    numspans (refineUniform kv) = 2 * numspans kv ∧
    ∀ x ∈ kv, (refineUniform kv).count x = kv.count x := by
  have hs : (refineUniform kv).Pairwise (· ≤ ·) := sortL_sorted _
  have hp : (refineUniform kv).Perm (kv ++ midpoints (mesh kv)) := sortL_perm _
  have hmesh := mesh_strictly_increasing kv h
  obtain ⟨hml, hmp, hmnot, _⟩ := midpoints_props (mesh kv) hmesh
  have hnotkv : ∀ m ∈ midpoints (mesh kv), m ∉ kv := fun m hm hk => hmnot m hm ((mem_mesh kv m).mpr hk)
  refine ⟨hs, hp, ?_, ?_⟩
  · unfold numspans
    rw [mesh_card _ hs, List.toFinset_eq_of_perm _ _ hp, List.toFinset_append]
    have hdisj : Disjoint kv.toFinset (midpoints (mesh kv)).toFinset := by
      rw [Finset.disjoint_left]
      intro x hx hm
      exact hnotkv x (List.mem_toFinset.mp hm) (List.mem_toFinset.mp hx)
    rw [Finset.card_union_of_disjoint hdisj, ← mesh_card kv h]
    have hnd : (midpoints (mesh kv)).Nodup := List.Pairwise.imp (fun hlt => ne_of_lt hlt) hmp
    rw [List.toFinset_card_of_nodup hnd, hml]
    have hpos : 1 ≤ (mesh kv).length := by
      cases kv with
      | nil => exact absurd rfl hne
      | cons a l => simp [mesh]
    omega
  · intro x hx
    rw [hp.count_eq, List.count_append]
    have : (midpoints (mesh kv)).count x = 0 :=
      List.count_eq_zero_of_not_mem (fun hm => hnotkv x hm hx)
    omega

example : refineUniform ([0, 0, 0, 1, 1, 3, 3, 3] : List ℚ) = [0, 0, 0, 1/2, 1, 1, 2, 3, 3, 3] := by
  decide +kernel

/-- **uniform refinement halves every span** (stated on the breakpoints themselves, stronger than the
count in `refine_uniform_spec`): the mesh of the refined knot vector is the old mesh interleaved with
the span midpoints, `x₀, (x₁+x₀)/2, x₁, (x₂+x₁)/2, …, x_m`. -/
theorem refine_uniform_mesh (kv : List K) (h : kv.Pairwise (· ≤ ·)) :
    mesh (refineUniform kv) = interleave (mesh kv) (midpoints (mesh kv)) := by
  have hs : (refineUniform kv).Pairwise (· ≤ ·) := sortL_sorted _
  have hp : (refineUniform kv).Perm (kv ++ midpoints (mesh kv)) := sortL_perm _
  have hmesh := mesh_strictly_increasing kv h
  have hL := mesh_strictly_increasing (refineUniform kv) hs
  have hR := (interleave_midpoints_sorted (mesh kv) hmesh).1
  refine List.Pairwise.eq_of_mem_iff hL hR ?_
  intro x
  rw [mem_mesh, hp.mem_iff, List.mem_append, mem_interleave_midpoints, mem_mesh]

example : mesh (refineUniform ([0, 0, 0, 1, 1, 3, 3, 3] : List ℚ)) = [0, 1/2, 1, 2, 3] ∧
    interleave (mesh ([0, 0, 0, 1, 1, 3, 3, 3] : List ℚ)) (midpoints (mesh ([0, 0, 0, 1, 1, 3, 3, 3] : List ℚ)))
      = [0, 1/2, 1, 2, 3] := by
  decide +kernel

/-! ## equality -/

theorem absK_nonneg (x : K) : 0 ≤ absK x := by
  unfold absK
  split_ifs with h
  · exact le_of_lt (neg_pos.mpr h)
  · exact not_lt.mp h

theorem allclose_refl (atol rtol : K) (ha : 0 ≤ atol) (hr : 0 ≤ rtol) : ∀ l : List K, allclose atol rtol l l = true := by
  intro l
  induction l with
  | nil => rfl
  | cons x xs ih =>
    unfold allclose
    have h0 : absK (x - x) = 0 := by simp [absK]
    have : absK (x - x) ≤ atol + rtol * absK x := by
      rw [h0]; exact add_nonneg ha (mul_nonneg hr (absK_nonneg x))
    rw [h0] at this
    have h00 : absK (0 : K) = 0 := by simp [absK]
    simp [h00, this, ih]

/-- `__eq__` (as it is now, `kvEqSym`, and the former one-directional `kvEq`) is reflexive
(non-negative tolerances) -/
theorem eq_refl (atol rtol : K) (ha : 0 ≤ atol) (hr : 0 ≤ rtol) (kv : List K) (p : ℕ) :
    kvEqSym atol rtol kv p kv p = true ∧ kvEq atol rtol kv p kv p = true := by
  unfold kvEqSym kvEq
  simp [allclose_refl atol rtol ha hr]

/-- the former `__eq__` (`allclose(self.kv, other.kv)` only: tolerance `atol + rtol·|other|`; repaired
in /repo commit 4e760ef after this finding) was **not** symmetric: witness with the library's tolerances `atol = rtol = 10⁻⁸` in exact arithmetic.  (The
harness exhibits a pair of doubles on the real code: `make_knots(2,0,1,4)` vs
`make_knots(2,0,1.00000002,4)`.) -/
theorem eq_not_symm :
    kvEq (1 / 10^8 : ℚ) (1 / 10^8) [0, 0, 1, 1] 1 [0, 0, 1 + 2/10^8 + 1/10^16, 1 + 2/10^8 + 1/10^16] 1 = true ∧
    kvEq (1 / 10^8 : ℚ) (1 / 10^8) [0, 0, 1 + 2/10^8 + 1/10^16, 1 + 2/10^8 + 1/10^16] 1 [0, 0, 1, 1] 1 = false := by
  decide +kernel

/-- `__eq__` as it is now (`allclose(a,b) and allclose(b,a)`) is symmetric -/
theorem eq_sym_repaired (atol rtol : K) (kv1 : List K) (p1 : ℕ) (kv2 : List K) (p2 : ℕ) :
    kvEqSym atol rtol kv1 p1 kv2 p2 = kvEqSym atol rtol kv2 p2 kv1 p1 := by
  unfold kvEqSym
  exact Bool.and_comm _ _

/-! ## derivative of a spline as a spline -/

/-- entry `i` of `Spline.derivative().coeffs` as computed by `derivCoeffs` -/
theorem derivCoeffs_get (kv : List K) (p : ℕ) (c : List K) (i : ℕ) (hi : i < kv.length - p - 2) :
    getK (derivCoeffs kv p c) i
      = ((p : K) / (getK kv (p + 1 + i) - getK kv (1 + i))) * (getK c (i + 1) - getK c i) := by
  unfold derivCoeffs getK
  exact getD_map_range _ _ _ hi

/-- **spline_derivative.**  With `d_i = p (c_{i+1} - c_i)/(t_{i+p+1} - t_{i+1})` (the formula of
`derivCoeffs`) and the knot vector `kv[1:-1]` (accessor `k ↦ t (k+1)`), degree `p-1`:
`Σ_i c_i N'_{i,p}(u) = Σ_i d_i N_{i,p-1}(u)` at every point of every span `s = j+p`, where `N'` is the
derivative recursion of C02 (`p = q+1`; the sums run over the active functions). -/
theorem spline_derivative (t : ℕ → K) (c : ℕ → K) (j q : ℕ) (u : K) :
    ∑ r ∈ Finset.range (q + 2), c (j + r) * dcoxS t (j + q + 1) u 1 (q + 1) (j + r)
      = ∑ r ∈ Finset.range (q + 1),
          (((q + 1 : ℕ) : K) / (t (q + 1 + 1 + (j + r)) - t (1 + (j + r))) * (c (j + r + 1) - c (j + r)))
            * coxS (fun k => t (k + 1)) (j + q) u q (j + r) :=
  spline_derivative_sum t c j q u

example : derivCoeffs ([0, 0, 0, 1, 2, 2, 2] : List ℚ) 2 [1, 3, 2, 5] = [4, -1, 6]
    ∧ derivKnots ([0, 0, 0, 1, 2, 2, 2] : List ℚ) = [0, 0, 1, 2, 2] := by decide +kernel

end Field

end Pyiga.Props.C19
