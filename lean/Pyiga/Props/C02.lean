/-
Property C02 — B-spline basis evaluation is exact, local, non-negative and sums to one.
Property theorems only (helper lemmas live in Proofs/).

All statements are about the functions of `Pyiga.Model.Knots` / `Pyiga.Model.BSpline` (the very
functions the correspondence driver runs over `Rat`), for *every* degree, every knot sequence
`t : ℕ → K` that is non-decreasing on its `n` knots, every point of the domain, over an arbitrary
linearly ordered field `K`.  `coxS t s u p i` is the Cox-de Boor recursion anchored at the span
`s` that contains `u` (right-continuous; left-continuous at the right end point), `dcoxS` its
derivative recursion.
-/
import Pyiga.Proofs.BSpline

namespace Pyiga.Props.C02
open Pyiga.Knots Pyiga.BSpline

set_option linter.unusedSectionVars false

variable {K : Type} [Field K] [LinearOrder K] [IsStrictOrderedRing K]

/-- `t` is non-decreasing on its first `n` entries -/
def Mono (t : ℕ → K) (n : ℕ) : Prop := ∀ i j, i ≤ j → j < n → t i ≤ t j

/-- `s` is a non-empty span containing `u` (closed on the right: covers the right end point) -/
def IsSpan (t : ℕ → K) (s : ℕ) (u : K) : Prop := t s ≤ u ∧ u ≤ t (s + 1) ∧ t s < t (s + 1)

/-! ## span lookup -/

/-- **findspan_spec.**  For an open knot vector (`2p+2 ≤ n` knots, non-decreasing, last span
`[kv[n-p-2], kv[n-p-1]]` non-empty) and `kv[p] ≤ u ≤ kv[n-p-1]`, the transliterated binary search
`pyx_findspan` returns `s ∈ [p, n-p-2]` with `kv[s] ≤ u ≤ kv[s+1]`, `kv[s] < kv[s+1]`; moreover
`u < kv[s+1]` unless `u` is the right end point, where `s` is the last span `n-p-2`. -/
theorem findspan_spec (t : ℕ → K) (n p : ℕ) (u : K) (hn : 2 * p + 2 ≤ n) (hmono : Mono t n)
    (hlo : t p ≤ u) (hhi : u ≤ t (n - p - 1)) (hlast : t (n - p - 2) < t (n - p - 1)) :
    p ≤ findspan t n p u ∧ findspan t n p u ≤ n - p - 2 ∧ IsSpan t (findspan t n p u) u ∧
      (u < t (n - p - 1) → u < t (findspan t n p u + 1)) ∧
      (u = t (n - p - 1) → findspan t n p u = n - p - 2) := by
  rcases lt_or_eq_of_le hhi with h | h
  · have := findspan_interior t n p u hn hmono hlo h
    refine ⟨this.1, this.2.1, ⟨this.2.2.1, le_of_lt this.2.2.2, lt_of_le_of_lt this.2.2.1 this.2.2.2⟩,
      fun _ => this.2.2.2, fun he => absurd he (ne_of_lt h)⟩
  · have hs := findspan_right t n p u (le_of_eq h.symm)
    rw [hs]
    have e : n - p - 2 + 1 = n - p - 1 := by omega
    refine ⟨by omega, le_refl _, ⟨?_, ?_, ?_⟩, ?_, fun _ => rfl⟩
    · rw [h]; exact le_of_lt hlast
    · rw [e, h]
    · rw [e]; exact hlast
    · intro hlt; exact absurd h (ne_of_lt hlt)

example : findspan (fun i => getK ([0, 0, 0, 1/2, 1, 1, 1] : List ℚ) i) 7 2 (1/4) = 2
    ∧ findspan (fun i => getK ([0, 0, 0, 1/2, 1, 1, 1] : List ℚ) i) 7 2 (1/2) = 3
    ∧ findspan (fun i => getK ([0, 0, 0, 1/2, 1, 1, 1] : List ℚ) i) 7 2 1 = 3 := by
  decide +kernel

/-! ## Cox-de Boor facts (induction on the degree) -/

/-- **N_nonneg** -/
theorem N_nonneg (t : ℕ → K) (s N : ℕ) (u : K) (hmono : Mono t N) (hs : IsSpan t s u)
    (p i : ℕ) (hN : s + p + 1 < N) : 0 ≤ coxS t s u p i :=
  coxS_nonneg t s N u hmono hs.1 hs.2.1 p i hN

/-- **N_local_support**: only the `p+1` functions `s-p .. s` can be non-zero at a point of span `s`. -/
theorem N_local_support (t : ℕ → K) (s : ℕ) (u : K) (p i : ℕ) (h : s < i ∨ i + p < s) :
    coxS t s u p i = 0 := coxS_support t s u p i h

/-- **N_partition_of_unity**: the `p+1` active functions sum to one. -/
theorem N_partition_of_unity (t : ℕ → K) (s N : ℕ) (u : K) (hmono : Mono t N) (hs : IsSpan t s u)
    (p : ℕ) (hp : p ≤ s) (hN : s + p + 1 < N) :
    ∑ r ∈ Finset.range (p + 1), coxS t s u p (s - p + r) = 1 :=
  coxS_pu t s N u hmono hs.2.2 p (s - p) (by omega) hN

/-- **dN_sum_zero**: derivatives of every order `≥ 1` of the active functions sum to zero. -/
theorem dN_sum_zero (t : ℕ → K) (s : ℕ) (u : K) (k p : ℕ) (hp : p ≤ s) :
    ∑ r ∈ Finset.range (p + 1), dcoxS t s u (k + 1) p (s - p + r) = 0 :=
  dcoxS_sum_zero t s u k p (s - p) (by omega)

/-- **dN_vanish**: derivatives of order `> p` vanish. -/
theorem dN_vanish (t : ℕ → K) (s : ℕ) (u : K) (k p i : ℕ) (h : p < k) : dcoxS t s u k p i = 0 :=
  dcoxS_vanish t s u k p i h

/-- derivatives have the same local support -/
theorem dN_local_support (t : ℕ → K) (s : ℕ) (u : K) (k p i : ℕ) (h : s < i ∨ i + p < s) :
    dcoxS t s u k p i = 0 := dcoxS_support t s u k p i h

/-- on `[t s, t (s+1))` the span-anchored recursion is the usual right-continuous Cox-de Boor
recursion with half-open degree-0 indicators. -/
theorem coxS_eq_cox (t : ℕ → K) (s N : ℕ) (u : K) (hmono : Mono t N) (hlo : t s ≤ u)
    (hhi : u < t (s + 1)) (p i : ℕ) (hi : i + p + 1 < N) (hs : s + 1 < N) :
    cox t u p i = coxS t s u p i := cox_eq_coxS t s N u hmono hlo hhi p i hi hs

/-- at the right end point of an open knot vector the last function has the value 1
(left-continuity: the half-open recursion would give 0 there). -/
theorem coxS_right_end (t : ℕ → K) (s p : ℕ) (hspan : t s < t (s + 1))
    (hopen : ∀ k, k ≤ p → t (s + 1 + k) = t (s + 1)) : coxS t s (t (s + 1)) p s = 1 :=
  Pyiga.BSpline.coxS_right_end t s hspan p hopen

example : Mono (fun i : ℕ => (i : ℚ)) 100 ∧ IsSpan (fun i : ℕ => (i : ℚ)) 3 (7/2) := by
  refine ⟨fun i j h _ => by show (i : ℚ) ≤ (j : ℚ); exact_mod_cast h, by norm_num [IsSpan]⟩

/-! ## the transliterated A2.3 table -/

/-- **basisFuns_eq_cox**: column `j` of the modelled `NDU` table (for every `j ≤ s`, in
particular the result row `j = p`) equals the Cox-de Boor values of the `j+1` functions
`s-j .. s` of degree `j`. -/
theorem basisFuns_eq_cox (t : ℕ → K) (s : ℕ) (u : K) (j : ℕ) (hj : j ≤ s) :
    nduCol (leftK t s u) (rightK t s u) j
      = (List.range (j + 1)).map (fun k => coxS t s u j (s - j + k)) := nduCol_eq t s u j hj

/-- the denominators `NDU[j, r] = right[r] + left[j-r-1]` the C code divides by are positive -/
theorem ndu_denominators_pos (t : ℕ → K) (s N : ℕ) (u : K) (hmono : Mono t N) (hs : IsSpan t s u)
    (j r : ℕ) (hr : r < j) (hj : j ≤ s) (hN : s + j < N) :
    0 < rightK t s u r + leftK t s u (j - r - 1) :=
  ndu_den_pos t s N u hmono hs.2.2 j r hr hj hN

/-- row 0 of `bspline_active_deriv_single` (hence `active_ev`, the collocation values) is the
vector of Cox-de Boor values of the `p+1` functions starting at `first_active_at(u) = span - p`. -/
theorem activeDeriv_row0 (t : ℕ → K) (n p : ℕ) (u : K) (nd : ℕ) (hp : p ≤ findspan t n p u) :
    (activeDeriv t n p u nd).headD []
      = (List.range (p + 1)).map (fun r => coxS t (findspan t n p u) u p (findspan t n p u - p + r)) := by
  unfold activeDeriv
  simp only [List.headD_cons]
  rw [nduTable_head, nduCol_eq _ _ _ _ hp]

theorem sum_map_range (f : ℕ → K) : ∀ n, ((List.range n).map f).sum = ∑ i ∈ Finset.range n, f i := by
  intro n
  induction n with
  | zero => simp
  | succ n ih => rw [List.sum_range_succ, Finset.sum_range_succ, ih]

/-- values returned by `active_ev` are non-negative -/
theorem active_values_nonneg (t : ℕ → K) (n p : ℕ) (u : K) (hn : 2 * p + 2 ≤ n) (hmono : Mono t n)
    (hlo : t p ≤ u) (hhi : u ≤ t (n - p - 1)) (hlast : t (n - p - 2) < t (n - p - 1)) :
    ∀ x ∈ activeEv t n p u, 0 ≤ x := by
  have hs := findspan_spec t n p u hn hmono hlo hhi hlast
  intro x hx
  unfold activeEv at hx
  rw [activeDeriv_row0 t n p u 0 hs.1] at hx
  obtain ⟨r, _, rfl⟩ := List.mem_map.mp hx
  exact N_nonneg t _ n u hmono hs.2.2.1 p _ (by omega)

/-- values returned by `active_ev` sum to one -/
theorem active_values_sum_one (t : ℕ → K) (n p : ℕ) (u : K) (hn : 2 * p + 2 ≤ n) (hmono : Mono t n)
    (hlo : t p ≤ u) (hhi : u ≤ t (n - p - 1)) (hlast : t (n - p - 2) < t (n - p - 1)) :
    (activeEv t n p u).sum = 1 := by
  have hs := findspan_spec t n p u hn hmono hlo hhi hlast
  unfold activeEv
  rw [activeDeriv_row0 t n p u 0 hs.1, sum_map_range]
  exact N_partition_of_unity t _ n u hmono hs.2.2.1 p hs.1 (by omega)

/-! ## the single-function route -/

/-- **single_ev_eq_cox**: `_bspline_single_ev_single(kv, i, u)` — the in-place triangular table with
its `N[j+1] == 0.0` short cuts — returns the right-continuous Cox-de Boor value `N_{i,p}(u)`, for every
degree, every non-decreasing knot sequence, every `u` (inside or outside the support), except at the two
hard-wired boundary cases treated by `single_ev_boundary`. -/
theorem single_ev_eq_cox (t : ℕ → K) (N m p i : ℕ) (u : K) (hmono : Mono t N) (hi : i + p + 1 < N)
    (hb : ¬ ((i = 0 ∧ u = t 0) ∨ (i = m - p - 2 ∧ u = t (m - 1)))) :
    singleEv t m p i u = cox t u p i := by
  unfold singleEv
  rw [if_neg hb]
  by_cases hout : u < t i ∨ u ≥ t (i + p + 1)
  · rw [if_pos hout]
    exact (cox_support t N u hmono p i hi hout).symm
  · rw [if_neg hout]
    apply singleOuter_spec t i p u p 1 _ (by omega) (le_refl _) (by simp)
    intro x hx
    rw [getD_map_range _ _ _ (by omega)]
    simp [cox, ge_iff_le]

/-- the two hard-wired cases: first function at the left end, last function at the right end
(value 1 = the left-continuous value, cf. `coxS_right_end`) -/
theorem single_ev_boundary (t : ℕ → K) (m p i : ℕ) (u : K)
    (h : (i = 0 ∧ u = t 0) ∨ (i = m - p - 2 ∧ u = t (m - 1))) : singleEv t m p i u = 1 := by
  unfold singleEv
  rw [if_pos h]

example : singleEv (fun i => getK ([0, 0, 0, 1/2, 1, 1, 1] : List ℚ) i) 7 2 1 (1/4) = 5/8 := by
  decide +kernel

/-! ## derivative rows -/

/-- full statement (all derivative orders): row `k` of the A2.3 result is the `k`-th derivative
by the derivative recursion.  **Proved** as `Pyiga.Props.C02.ders_eq_cox` in `Props/C02Full.lean`
(Piegl-Tiller (2.10) `dN_eq_sum_a` + the invariant of the two-row buffers `ders_buffer_invariant`);
the special cases `k = 0` (`activeDeriv_row0`), `k = 1` (`ders_row1_eq_cox`), `k > p`
(`ders_rows_high_zero`) below were proved first and are kept. -/
def ders_eq_cox_full : Prop :=
  ∀ (t : ℕ → K) (n p : ℕ) (u : K) (nd k r : ℕ), 2 * p + 2 ≤ n → Mono t n → t p ≤ u → u ≤ t (n - p - 1) →
    t (n - p - 2) < t (n - p - 1) → k ≤ nd → r ≤ p →
    ((activeDeriv t n p u nd).getD k []).getD r 0
      = dcoxS t (findspan t n p u) u k p (findspan t n p u - p + r)

/-- **ders1_eq_cox (partial: the `k = 1` pass).**  Entered with `a1[0] = 1` and `fac = p` (the
state the `r`-loop establishes before `k = 1`), the body of the `k`-loop returns
`p·(N_{i,p-1}/(t_{i+p}-t_i) − N_{i+1,p-1}/(t_{i+p+1}-t_{i+1}))`, `i = span-p+r`. -/
theorem ders1_eq_cox_partial (t : ℕ → K) (s p : ℕ) (u : K) (r : ℕ) (hp : 1 ≤ p) (hps : p ≤ s)
    (hr : r ≤ p) (st : DState K) (ha : st.a1.getD 0 0 = 1) (hf : st.fac = (p : ℤ)) :
    (dersStep (nduAt (nduTable (leftK t s u) (rightK t s u) p).reverse.toArray
        (leftK t s u) (rightK t s u)) p r 1 st).2 = dcoxS t s u 1 p (s - p + r) := by
  obtain ⟨q, rfl⟩ : ∃ q, p = q + 1 := ⟨p - 1, by omega⟩
  obtain ⟨j0, rfl⟩ : ∃ j0, s = j0 + q + 1 := ⟨s - (q + 1), by omega⟩
  have e : j0 + q + 1 - (q + 1) + r = j0 + r := by omega
  rw [e]
  exact ders1_eq t j0 q u r hr st ha hf

/-- **ders_high_zero**: for `k > p` the loop body performs no table access and no buffer write
(`r ≥ k` false, `j1 > j2`, `r ≤ pk` false) and returns `0`, for every table and buffer content —
so rows `k > p` of the result are zero and no `NDU[pk+1, …]` with `pk+1 ≤ 0` is read. -/
theorem ders_high_zero (ndu : ℕ → ℕ → K) (p r k : ℕ) (st : DState K) (hk : p < k) (hr : r ≤ p) :
    (dersStep ndu p r k st).2 = 0 ∧ (dersStep ndu p r k st).1.a1 = st.a2
      ∧ (dersStep ndu p r k st).1.a2 = st.a1 := dersStep_high ndu p r k st hk hr

/-- reading entry `(k, r)`, `k ≥ 1`, of the result of `activeDeriv` -/
theorem activeDeriv_entry (t : ℕ → K) (n p : ℕ) (u : K) (nd k r : ℕ) (hk : k < nd) (hr : r ≤ p) :
    ((activeDeriv t n p u nd).getD (k + 1) []).getD r 0
      = ((dersR (nduAt (nduTable (leftK t (findspan t n p u) u) (rightK t (findspan t n p u) u) p).reverse.toArray
            (leftK t (findspan t n p u) u) (rightK t (findspan t n p u) u)) p nd (p + 1) 0
            (List.replicate (p + 1) 0) (List.replicate (p + 1) 0)).getD r []).getD k 0 := by
  unfold activeDeriv
  simp only [List.getD_cons_succ]
  have hlen := dersR_length (nduAt (nduTable (leftK t (findspan t n p u) u) (rightK t (findspan t n p u) u) p).reverse.toArray
      (leftK t (findspan t n p u) u) (rightK t (findspan t n p u) u)) p nd (p + 1) 0
      (List.replicate (p + 1) 0) (List.replicate (p + 1) 0)
  have hr' : r < (dersR (nduAt (nduTable (leftK t (findspan t n p u) u) (rightK t (findspan t n p u) u) p).reverse.toArray
      (leftK t (findspan t n p u) u) (rightK t (findspan t n p u) u)) p nd (p + 1) 0
      (List.replicate (p + 1) 0) (List.replicate (p + 1) 0)).length := by rw [hlen]; omega
  simp [List.getD_eq_getElem?_getD, List.getElem?_map, List.getElem?_range hk, hr']

/-- **row 1 of the result of `active_deriv` is the first derivative** (derivative recursion) of the
`p+1` active functions, for every degree `p ≥ 1`, every knot sequence, every `numderiv ≥ 1` — this is
`ders1_eq_cox_partial` carried through the `r`- and `k`-loops (buffer lengths are invariant, the
`r`-loop re-establishes `a1[0] = 1`, `fac = p`). -/
theorem ders_row1_eq_cox (t : ℕ → K) (n p : ℕ) (u : K) (nd r : ℕ) (hnd : 1 ≤ nd) (hp : 1 ≤ p)
    (hps : p ≤ findspan t n p u) (hr : r ≤ p) :
    ((activeDeriv t n p u nd).getD 1 []).getD r 0
      = dcoxS t (findspan t n p u) u 1 p (findspan t n p u - p + r) := by
  rw [activeDeriv_entry t n p u nd 0 r (by omega) hr]
  obtain ⟨st, ha, hf, hget⟩ := dersR_get (nduAt (nduTable (leftK t (findspan t n p u) u) (rightK t (findspan t n p u) u) p).reverse.toArray
      (leftK t (findspan t n p u) u) (rightK t (findspan t n p u) u)) p nd (p + 1) (Nat.succ_pos p) (p + 1) 0
      (List.replicate (p + 1) 0) (List.replicate (p + 1) 0) r (by simp) (by simp) (by omega)
  rw [hget]
  obtain ⟨st', h1, h0⟩ := dersK_get (nduAt (nduTable (leftK t (findspan t n p u) u) (rightK t (findspan t n p u) u) p).reverse.toArray
      (leftK t (findspan t n p u) u) (rightK t (findspan t n p u) u)) p (0 + r) nd 1 st 0 (by omega)
  rw [h1, h0 rfl]
  have e : 0 + r = r := by omega
  rw [e]
  exact ders1_eq_cox_partial t _ p u r hp hps hr st ha hf

/-- **rows `k > p` of the result of `active_deriv` are zero** (derivatives of order `> p` vanish,
cf. `dN_vanish`), for every table content -/
theorem ders_rows_high_zero (t : ℕ → K) (n p : ℕ) (u : K) (nd k r : ℕ) (hk : p < k) (hknd : k ≤ nd) (hr : r ≤ p) :
    ((activeDeriv t n p u nd).getD k []).getD r 0 = 0 := by
  obtain ⟨k', rfl⟩ : ∃ k', k = k' + 1 := ⟨k - 1, by omega⟩
  rw [activeDeriv_entry t n p u nd k' r (by omega) hr]
  obtain ⟨st, _, _, hget⟩ := dersR_get (nduAt (nduTable (leftK t (findspan t n p u) u) (rightK t (findspan t n p u) u) p).reverse.toArray
      (leftK t (findspan t n p u) u) (rightK t (findspan t n p u) u)) p nd (p + 1) (Nat.succ_pos p) (p + 1) 0
      (List.replicate (p + 1) 0) (List.replicate (p + 1) 0) r (by simp) (by simp) (by omega)
  rw [hget]
  obtain ⟨st', h1, _⟩ := dersK_get (nduAt (nduTable (leftK t (findspan t n p u) u) (rightK t (findspan t n p u) u) p).reverse.toArray
      (leftK t (findspan t n p u) u) (rightK t (findspan t n p u) u)) p (0 + r) nd 1 st k' (by omega)
  rw [h1]
  exact (dersStep_high _ p (0 + r) (1 + k') st' (by omega) (by omega)).1

/-- non-vacuity of the derivative statements: degree 2, knots `0,0,0,1/2,1,1,1`, `u = 1/4`:
values `1/4, 5/8, 1/8`, first derivatives `-2, 1, 1`, second `8, -12, 4`, third `0`. -/
example : activeDeriv (fun i => getK ([0, 0, 0, 1/2, 1, 1, 1] : List ℚ) i) 7 2 (1/4) 3
    = [[1/4, 5/8, 1/8], [-2, 1, 1], [8, -12, 4], [0, 0, 0]] := by decide +kernel

end Pyiga.Props.C02
