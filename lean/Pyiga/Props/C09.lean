import Pyiga.Proofs.Galerkin
