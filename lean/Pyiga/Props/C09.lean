/-
Property C09 — tensor-product fast paths and closed-form Galerkin identities.
Property theorems only (helper lemmas live in Proofs/Galerkin*.lean).

All statements are generic: any commutative ring `α` (ordered where an inequality is stated), any
number of spans / quadrature nodes / degree / matrix size; sums are `Finset` sums over `range`.
The B-spline values at the nodes are *functions* `V I q` (value of the — possibly differentiated —
global function `I` at node `q`) constrained only by the hypotheses written in each theorem
(local support, partition of unity, derivative sum zero): these are the C02 theorems.
The regenerated closed-form determinant/inverse theorems live in `Pyiga.Gen.DetInv`.
-/
import Pyiga.Proofs.GalerkinAsm
import Pyiga.Proofs.GalerkinKron
import Pyiga.Proofs.GalerkinKron3
import Pyiga.Proofs.GalerkinTprod
import Mathlib.LinearAlgebra.Matrix.Determinant.Basic
import Mathlib.Tactic.NormNum

namespace Pyiga.Props.C09
open Pyiga.Galerkin Finset

section Ring
variable {α : Type} [CommRing α]

/-! ## COO index construction (`np.repeat` / `np.tile` / `np.mgrid`) -/

/-- `_create_coo_1d_custom`: the `repeat/tile/mgrid` construction yields, for span `k` (outer),
local row `a`, local column `b` (inner), the index pair `(first_act1[k]+a, first_act2[k]+b)` —
for any number of spans and any block sizes. -/
theorem coo_index_lists (n1 n2 : Nat) (fa1 fa2 : List Nat) (h : fa2.length = fa1.length) :
    cooCustom fa1.length n1 n2 fa1 fa2 =
      (fa1.flatMap fun f => (List.range n1).flatMap fun a => (List.range n2).map fun _ => f + a,
       fa2.flatMap fun f => (List.range n1).flatMap fun _ => (List.range n2).map fun b => f + b) :=
  cooCustom_eq n1 n2 fa1 fa2 h

/-- `_create_coo_1d_from_kv`: same with `first_act[k] = spanIdx[k] - p` for both bases and
`(p+1)²` pairs per span. -/
theorem coo_from_kv_index_lists (p : Nat) (spanIdx : List Nat) :
    cooFromKv p spanIdx.length spanIdx =
      ((spanIdx.map (· - p)).flatMap fun f => (List.range (p+1)).flatMap fun a => (List.range (p+1)).map fun _ => f + a,
       (spanIdx.map (· - p)).flatMap fun f => (List.range (p+1)).flatMap fun _ => (List.range (p+1)).map fun b => f + b) := by
  have := cooCustom_eq (p + 1) (p + 1) (spanIdx.map (· - p)) (spanIdx.map (· - p)) rfl
  rw [List.length_map] at this
  exact this

/-! ## `biform_1d`: span-by-span COO assembly = global Gram matrix -/

/-- **`bsp_mixed_deriv_biform_1d`** (hence `bsp_mass_1d`, `bsp_stiffness_1d`, with weight function
and explicit `nqp`): let `fa[k] = spanIdx[k] − p` be the first active function of span `k`.
If the arrays `Dv = derivs[dv]`, `Du = derivs[du]` hold at node `q = nqp·k+t` the values of the
`p+1` functions `fa[k] … fa[k]+p` and every other function vanishes at the nodes of span `k`
(local support, C02), then the matrix produced by `coo_matrix((elMats.ravel(),(I,J))).tocsr()`
has entries  `M[I,J] = Σ_{all nodes q} w_q · V_I(x_q) · U_J(x_q)`  where `w` are the quadrature
weights after `qweights *= weightfunc(nodes)` — for every knot vector, degree and `nqp`. -/
theorem biform_1d [DecidableEq α] (half : α) (kv : List α) (p nqp : Nat) (xg wg : List α)
    (Dv Du : List (List α)) (wf : Option (List α)) (V U : Nat → Nat → α)
    (hDv : Dv.length = p + 1) (hDu : Du.length = p + 1)
    (hv : ∀ k < (spanIndices kv).length, ∀ a < p + 1, ∀ t < nqp,
      get2 Dv a (nqp * k + t) = V (((spanIndices kv).map (· - p)).getD k 0 + a) (nqp * k + t))
    (hu : ∀ k < (spanIndices kv).length, ∀ b < p + 1, ∀ t < nqp,
      get2 Du b (nqp * k + t) = U (((spanIndices kv).map (· - p)).getD k 0 + b) (nqp * k + t))
    (hsv : ∀ k < (spanIndices kv).length, ∀ t < nqp, ∀ I,
      ¬ (((spanIndices kv).map (· - p)).getD k 0 ≤ I ∧ I < ((spanIndices kv).map (· - p)).getD k 0 + (p + 1)) →
        V I (nqp * k + t) = 0)
    (hsu : ∀ k < (spanIndices kv).length, ∀ t < nqp, ∀ J,
      ¬ (((spanIndices kv).map (· - p)).getD k 0 ≤ J ∧ J < ((spanIndices kv).map (· - p)).getD k 0 + (p + 1)) →
        U J (nqp * k + t) = 0)
    (I J : Nat) :
    cooEntry (biform1d half kv p nqp xg wg Dv Du wf).2.2 I J =
      ∑ q ∈ range ((spanIndices kv).length * nqp),
        (biform1d half kv p nqp xg wg Dv Du wf).2.1.getD q 0 * V I q * U J q := by
  have hlen : (uniqueSorted kv).length - 1 = ((spanIndices kv).map (· - p)).length := by
    rw [List.length_map]; exact (length_spanIndices kv).symm
  have key := cooEntry_assembleCustom_gram nqp Dv Du ((spanIndices kv).map (· - p)) ((spanIndices kv).map (· - p))
    (biform1d half kv p nqp xg wg Dv Du wf).2.1 rfl V U
    (by simpa [hDv] using hv) (by simpa [hDu] using hu) (by simpa [hDv] using hsv) (by simpa [hDu] using hsu) I J
  rw [List.length_map] at key
  have e : (biform1d half kv p nqp xg wg Dv Du wf).2.2 =
      assembleCustom (spanIndices kv).length nqp Dv Du
        (cooCustom (spanIndices kv).length Dv.length Du.length ((spanIndices kv).map (· - p)) ((spanIndices kv).map (· - p))).1
        (cooCustom (spanIndices kv).length Dv.length Du.length ((spanIndices kv).map (· - p)) ((spanIndices kv).map (· - p))).2
        (biform1d half kv p nqp xg wg Dv Du wf).2.1 := by
    rw [hDv, hDu]
    simp only [biform1d, cooFromKv, cooCustom, hlen, List.length_map]
  rw [e, key]
  apply Finset.sum_congr rfl; intro q _; ring

/-- **`bsp_mixed_deriv_biform_1d_asym`** (two knot vectors, custom quadrature grid).
`faN1 q`, `faN2 q` = first active function of each basis *at node `q`* (what `active_deriv` uses);
the code takes `first_active_at` of the **first** node of every quadrature cell for the whole
cell.  Under the explicit hypothesis `hcell*` that these agree on every cell (each quadrature
cell lies in one span of both knot vectors) the assembled matrix is the Gram matrix
`M[I,J] = Σ_q w_q · V_I(x_q) · U_J(x_q)` (`V` = test functions of `kv2`, `U` = trial functions of
`kv1`), for any pair of degrees/knot vectors/quadrature grid. -/
theorem biform_1d_asym [DecidableEq α] [LinearOrder α] (half : α) (kv1 : List α) (p1 : Nat) (kv2 : List α) (p2 : Nat)
    (quadgrid : List α) (nqp : Nat) (xg wg : List α) (derivs1 derivs2 : List (List α))
    (V U : Nat → Nat → α) (faN1 faN2 : Nat → Nat)
    (fa1 fa2 : List Nat)
    (hfa1 : fa1 = (everyNth (iteratedQuadrature half xg wg quadgrid).1 nqp).map fun u => findspan kv1 p1 u 0 - p1)
    (hfa2 : fa2 = (everyNth (iteratedQuadrature half xg wg quadgrid).1 nqp).map fun u => findspan kv2 p2 u 0 - p2)
    (hn : fa2.length = quadgrid.length - 1)
    -- the forced hypothesis: first-active index constant on every quadrature cell, for both bases
    (hcell1 : ∀ k < fa2.length, ∀ t < nqp, faN1 (nqp * k + t) = fa1.getD k 0)
    (hcell2 : ∀ k < fa2.length, ∀ t < nqp, faN2 (nqp * k + t) = fa2.getD k 0)
    -- what `active_deriv` returns, and local support of both bases
    (hd1 : ∀ k < fa2.length, ∀ b < derivs1.length, ∀ t < nqp,
      get2 derivs1 b (nqp * k + t) = U (faN1 (nqp * k + t) + b) (nqp * k + t))
    (hd2 : ∀ k < fa2.length, ∀ a < derivs2.length, ∀ t < nqp,
      get2 derivs2 a (nqp * k + t) = V (faN2 (nqp * k + t) + a) (nqp * k + t))
    (hs1 : ∀ k < fa2.length, ∀ t < nqp, ∀ J,
      ¬ (faN1 (nqp * k + t) ≤ J ∧ J < faN1 (nqp * k + t) + derivs1.length) → U J (nqp * k + t) = 0)
    (hs2 : ∀ k < fa2.length, ∀ t < nqp, ∀ I,
      ¬ (faN2 (nqp * k + t) ≤ I ∧ I < faN2 (nqp * k + t) + derivs2.length) → V I (nqp * k + t) = 0)
    (I J : Nat) :
    cooEntry (biform1dAsym half kv1 p1 kv2 p2 quadgrid nqp xg wg derivs1 derivs2).2.2 I J =
      ∑ q ∈ range (fa2.length * nqp),
        (iteratedQuadrature half xg wg quadgrid).2.getD q 0 * V I q * U J q := by
  have hl : fa1.length = fa2.length := by rw [hfa1, hfa2]; simp
  have key := cooEntry_assembleCustom_gram nqp derivs2 derivs1 fa2 fa1
    (iteratedQuadrature half xg wg quadgrid).2 hl V U
    (fun k hk a ha t ht => by rw [hd2 k hk a ha t ht, hcell2 k hk t ht])
    (fun k hk b hb t ht => by rw [hd1 k hk b hb t ht, hcell1 k hk t ht])
    (fun k hk t ht I hI => hs2 k hk t ht I (by rw [hcell2 k hk t ht]; exact hI))
    (fun k hk t ht J hJ => hs1 k hk t ht J (by rw [hcell1 k hk t ht]; exact hJ)) I J
  have e : (biform1dAsym half kv1 p1 kv2 p2 quadgrid nqp xg wg derivs1 derivs2).2.2 =
      assembleCustom fa2.length nqp derivs2 derivs1
        (cooCustom fa2.length derivs2.length derivs1.length fa2 fa1).1
        (cooCustom fa2.length derivs2.length derivs1.length fa2 fa1).2
        (iteratedQuadrature half xg wg quadgrid).2 := by
    simp only [biform1dAsym, ← hfa1, ← hfa2, hn]
  rw [e, key]
  apply Finset.sum_congr rfl; intro q _; ring

end Ring

/-- The cell hypothesis of `biform_1d_asym` cannot be dropped: a quadrature grid coarser than
`kv2` (`kv1 = [0,0,1,1]`, `kv2 = [0,0,½,1,1]`, degree 1, `quadgrid = [0,1]`, two nodes ¼, ¾ with
weight ½).  The model (as the code) takes the first active function of `kv2` at the first node
for the whole cell, so row 2 of the assembled matrix is empty, whereas the Gram entry
`Σ_q w_q N₂(x_q) N₀(x_q) = ½·½·¼ = 1/16 ≠ 0`.  (Replayed on the implementation by the harness;
outside the property: its quantifier is "on a common mesh".) -/
theorem biform_1d_asym_needs_cell_hyp :
    cooEntry (biform1dAsym (1/2 : ℚ) [0,0,1,1] 1 [0,0,1/2,1,1] 1 [0,1] 2 [-1/2, 1/2] [1, 1]
      [[3/4, 1/4], [1/4, 3/4]] [[1/2, 1/2], [1/2, 1/2]]).2.2 2 0 = 0 ∧
    (1/2 : ℚ) * (1/2) * (1/4) ≠ 0 := by
  constructor
  · decide +kernel
  · norm_num

section Ring
variable {α : Type} [CommRing α]

/-! ## `kron_path`: Kronecker fast paths = full tensor-product Gauss sum -/

/-- **`bsp_mass_2d` (geo=None)**: if the 1-D matrices are Gram matrices of their quadrature rules
then `kron(M1,M2)` at the Kronecker index `(i₁·n₂+i₂, j₁·m₂+j₂)` is the full tensor-product
Gauss sum of the separable integrand `v_{i₁}(x)v_{i₂}(y)·u_{j₁}(x)u_{j₂}(y)` — the generic
assembler's specification with identity geometry. -/
theorem kron_path_mass_2d (M1 M2 : List (List α)) (Q1 Q2 : Nat) (w1 w2 : Nat → α) (V1 U1 V2 U2 : Nat → Nat → α)
    (h1 : ∀ i j, get2 M1 i j = gram Q1 w1 V1 U1 i j) (h2 : ∀ i j, get2 M2 i j = gram Q2 w2 V2 U2 i j)
    (i1 i2 j1 j2 : Nat) (hi1 : i1 < matRows M1) (hi2 : i2 < matRows M2) (hj1 : j1 < matCols M1) (hj2 : j2 < matCols M2) :
    get2 (mass2d M1 M2) (i1 * matRows M2 + i2) (j1 * matCols M2 + j2) =
      ∑ q1 ∈ range Q1, ∑ q2 ∈ range Q2,
        (w1 q1 * w2 q2) * (V1 i1 q1 * V2 i2 q2) * (U1 j1 q1 * U2 j2 q2) := by
  unfold mass2d
  rw [get2_kron _ _ _ _ _ _ hi1 hi2 hj1 hj2, h1, h2, gram_mul_gram]

/-- **`bsp_stiffness_2d` (geo=None)**: `kron(K1,M2)+kron(M1,K2)` is the sum of the two
tensor-product Gauss sums `∂ₓv ∂ₓu · v u` and `v u · ∂ᵧv ∂ᵧu` (each 1-D factor with its own rule:
the code uses `nqp = p` for `K` and `p+1` for `M`; with equal rules this is `Σ w ∇v·∇u`). -/
theorem kron_path_stiffness_2d (M1 K1 M2 K2 : List (List α))
    (QM1 QK1 QM2 QK2 : Nat) (wM1 wK1 wM2 wK2 : Nat → α) (N1 D1 N2 D2 N1' D1' N2' D2' : Nat → Nat → α)
    (hM1 : ∀ i j, get2 M1 i j = gram QM1 wM1 N1 N1' i j) (hK1 : ∀ i j, get2 K1 i j = gram QK1 wK1 D1 D1' i j)
    (hM2 : ∀ i j, get2 M2 i j = gram QM2 wM2 N2 N2' i j) (hK2 : ∀ i j, get2 K2 i j = gram QK2 wK2 D2 D2' i j)
    (hr1 : matRows K1 = matRows M1) (hc1 : matCols K1 = matCols M1)
    (hr2 : matRows K2 = matRows M2) (hc2 : matCols K2 = matCols M2)
    (i1 i2 j1 j2 : Nat) (hi1 : i1 < matRows M1) (hi2 : i2 < matRows M2) (hj1 : j1 < matCols M1) (hj2 : j2 < matCols M2) :
    get2 (stiffness2d M1 K1 M2 K2) (i1 * matRows M2 + i2) (j1 * matCols M2 + j2) =
      (∑ q1 ∈ range QK1, ∑ q2 ∈ range QM2,
        (wK1 q1 * wM2 q2) * (D1 i1 q1 * N2 i2 q2) * (D1' j1 q1 * N2' j2 q2)) +
      (∑ q1 ∈ range QM1, ∑ q2 ∈ range QK2,
        (wM1 q1 * wK2 q2) * (N1 i1 q1 * D2 i2 q2) * (N1' j1 q1 * D2' j2 q2)) := by
  unfold stiffness2d
  have hi : i1 * matRows M2 + i2 < matRows M1 * matRows M2 := by
    calc i1 * matRows M2 + i2 < i1 * matRows M2 + matRows M2 := by omega
      _ = (i1 + 1) * matRows M2 := by ring
      _ ≤ matRows M1 * matRows M2 := Nat.mul_le_mul_right _ hi1
  have hj : j1 * matCols M2 + j2 < matCols M1 * matCols M2 := by
    calc j1 * matCols M2 + j2 < j1 * matCols M2 + matCols M2 := by omega
      _ = (j1 + 1) * matCols M2 := by ring
      _ ≤ matCols M1 * matCols M2 := Nat.mul_le_mul_right _ hj1
  rw [get2_matAdd]
  · have a := get2_kron K1 M2 i1 i2 j1 j2 (hr1 ▸ hi1) hi2 (hc1 ▸ hj1) hj2
    have b := get2_kron M1 K2 i1 i2 j1 j2 hi1 (hr2 ▸ hi2) hj1 (hc2 ▸ hj2)
    rw [hr2, hc2] at b
    rw [a, b, hK1, hM2, hM1, hK2, gram_mul_gram, gram_mul_gram]
  · show _ < matRows (kron K1 M2); rw [matRows_kron, hr1]; exact hi
  · show _ < matRows (kron M1 K2); rw [matRows_kron, hr2]; exact hi
  · rw [rowlen_kron _ _ _ (by rw [hr1]; exact hi), hc1]; exact hj
  · rw [rowlen_kron _ _ _ (by rw [hr2]; exact hi), hc2]; exact hj

/-- **`bsp_mass_3d` (geo=None)**: `k(M0, k(M1, M2))` at the Kronecker index
`i₀·(n₁n₂) + (i₁·n₂+i₂)` is the triple tensor-product Gauss sum. -/
theorem kron_path_mass_3d (M0 M1 M2 : List (List α)) (Q0 Q1 Q2 : Nat) (w0 w1 w2 : Nat → α)
    (V0 U0 V1 U1 V2 U2 : Nat → Nat → α)
    (h0 : ∀ i j, get2 M0 i j = gram Q0 w0 V0 U0 i j)
    (h1 : ∀ i j, get2 M1 i j = gram Q1 w1 V1 U1 i j) (h2 : ∀ i j, get2 M2 i j = gram Q2 w2 V2 U2 i j)
    (i0 i1 i2 j0 j1 j2 : Nat) (hi0 : i0 < matRows M0) (hi1 : i1 < matRows M1) (hi2 : i2 < matRows M2)
    (hj0 : j0 < matCols M0) (hj1 : j1 < matCols M1) (hj2 : j2 < matCols M2) :
    get2 (mass3d M0 M1 M2) (i0 * (matRows M1 * matRows M2) + (i1 * matRows M2 + i2))
        (j0 * (matCols M1 * matCols M2) + (j1 * matCols M2 + j2)) =
      ∑ q0 ∈ range Q0, ∑ q1 ∈ range Q1, ∑ q2 ∈ range Q2,
        (w0 q0 * (w1 q1 * w2 q2)) * (V0 i0 q0 * (V1 i1 q1 * V2 i2 q2)) * (U0 j0 q0 * (U1 j1 q1 * U2 j2 q2)) := by
  unfold mass3d
  have hi : i1 * matRows M2 + i2 < matRows M1 * matRows M2 := by
    calc i1 * matRows M2 + i2 < i1 * matRows M2 + matRows M2 := by omega
      _ = (i1 + 1) * matRows M2 := by ring
      _ ≤ matRows M1 * matRows M2 := Nat.mul_le_mul_right _ hi1
  have hj : j1 * matCols M2 + j2 < matCols M1 * matCols M2 := by
    calc j1 * matCols M2 + j2 < j1 * matCols M2 + matCols M2 := by omega
      _ = (j1 + 1) * matCols M2 := by ring
      _ ≤ matCols M1 * matCols M2 := Nat.mul_le_mul_right _ hj1
  have hr : matRows (kron M1 M2) = matRows M1 * matRows M2 := matRows_kron _ _
  have hc : matCols (kron M1 M2) = matCols M1 * matCols M2 := matCols_kron _ _ (by omega)
  have a := get2_kron M0 (kron M1 M2) i0 (i1 * matRows M2 + i2) j0 (j1 * matCols M2 + j2) hi0
    (by rw [hr]; exact hi) hj0 (by rw [hc]; exact hj)
  rw [hr, hc] at a
  rw [a, get2_kron _ _ _ _ _ _ hi1 hi2 hj1 hj2, h0, h1, h2]
  unfold gram
  rw [Finset.sum_mul_sum, Finset.sum_mul]
  apply Finset.sum_congr rfl; intro q0 _
  rw [Finset.mul_sum]
  apply Finset.sum_congr rfl; intro q1 _
  rw [Finset.mul_sum]
  apply Finset.sum_congr rfl; intro q2 _
  ring

/-- **`bsp_stiffness_3d` (geo=None)**: `k(K0, k(M1,M2)) + k(M0, k(K1,M2)+k(M1,K2))` at the Kronecker
index `i₀·(n₁n₂)+(i₁·n₂+i₂)` is the Kronecker sum `K₀⊗M₁⊗M₂ + M₀⊗K₁⊗M₂ + M₀⊗M₁⊗K₂` of the 1-D Gram
matrices (each product of Gram entries is a tensor-product Gauss sum by `gram_mul_gram`, as in
`kron_path_mass_3d`). -/
theorem kron_path_stiffness_3d (M0 K0 M1 K1 M2 K2 : List (List α))
    (QM0 QK0 QM1 QK1 QM2 QK2 : Nat) (wM0 wK0 wM1 wK1 wM2 wK2 : Nat → α) (N0 D0 N1 D1 N2 D2 : Nat → Nat → α)
    (hM0 : ∀ i j, get2 M0 i j = gram QM0 wM0 N0 N0 i j) (hK0 : ∀ i j, get2 K0 i j = gram QK0 wK0 D0 D0 i j)
    (hM1 : ∀ i j, get2 M1 i j = gram QM1 wM1 N1 N1 i j) (hK1 : ∀ i j, get2 K1 i j = gram QK1 wK1 D1 D1 i j)
    (hM2 : ∀ i j, get2 M2 i j = gram QM2 wM2 N2 N2 i j) (hK2 : ∀ i j, get2 K2 i j = gram QK2 wK2 D2 D2 i j)
    (hr0 : matRows K0 = matRows M0) (hc0 : matCols K0 = matCols M0)
    (hr1 : matRows K1 = matRows M1) (hc1 : matCols K1 = matCols M1)
    (hr2 : matRows K2 = matRows M2) (hc2 : matCols K2 = matCols M2)
    (i0 i1 i2 j0 j1 j2 : Nat) (hi0 : i0 < matRows M0) (hi1 : i1 < matRows M1) (hi2 : i2 < matRows M2)
    (hj0 : j0 < matCols M0) (hj1 : j1 < matCols M1) (hj2 : j2 < matCols M2) :
    get2 (stiffness3d M0 K0 M1 K1 M2 K2) (i0 * (matRows M1 * matRows M2) + (i1 * matRows M2 + i2))
        (j0 * (matCols M1 * matCols M2) + (j1 * matCols M2 + j2)) =
      gram QK0 wK0 D0 D0 i0 j0 * (gram QM1 wM1 N1 N1 i1 j1 * gram QM2 wM2 N2 N2 i2 j2) +
      gram QM0 wM0 N0 N0 i0 j0 * (gram QK1 wK1 D1 D1 i1 j1 * gram QM2 wM2 N2 N2 i2 j2 +
        gram QM1 wM1 N1 N1 i1 j1 * gram QK2 wK2 D2 D2 i2 j2) := by
  rw [stiffness3d_entry M0 K0 M1 K1 M2 K2 hr0 hc0 hr1 hc1 hr2 hc2 i0 i1 i2 j0 j1 j2 hi0 hi1 hi2 hj0 hj1 hj2,
    hM0, hK0, hM1, hK1, hM2, hK2]

/-- `integrate` on a two-axis tensor grid (C order): `Σ_{q₁,q₂} (w₁[q₁]·w₂[q₂]) · f[q₁·n₂+q₂]` -/
theorem integrate_spec_2d (w1 w2 fv : List α) (hf : fv.length = w1.length * w2.length) :
    integrate [w1, w2] fv none =
      ∑ q1 ∈ range w1.length, ∑ q2 ∈ range w2.length,
        (w1.getD q1 0 * w2.getD q2 0) * fv.getD (q1 * w2.length + q2) 0 := by
  have hT : tensorWeights [w1, w2] =
      (List.range w1.length).flatMap fun a => (List.range w2.length).map fun b => w1.getD a 0 * w2.getD b 0 := by
    unfold tensorWeights tensorWeights
    rw [flatMap_eq_range w1 0]
    apply List.flatMap_congr; intro a _
    exact map_eq_map_range w2 0 _
  have hlen : (tensorWeights [w1, w2]).length = w1.length * w2.length := by rw [hT, length_block]
  unfold integrate weightedVals
  simp only
  rw [list_sum_eq_range, List.length_zipWith, hlen, hf, Nat.min_self, sum_range_kron]
  apply Finset.sum_congr rfl; intro q1 hq1
  apply Finset.sum_congr rfl; intro q2 hq2
  rw [getD_zipWith_mul]
  congr 1
  rw [hT]
  exact getD_block _ _ _ _ _ _ (Finset.mem_range.mp hq1) (Finset.mem_range.mp hq2)

/-! ## Gauss rule affine map -/

/-- `make_iterated_quadrature`: the weights sum to `0.5 · Σw · (last − first)` of the interval
list, for any number of intervals and nodes; with `0.5·Σw = 1` (Gauss weights sum to 2) this is
the length `b − a` of the knot vector's domain. -/
theorem gauss_weights_sum (half : α) (xg wg : List α) (a : α) (mesh : List α) (hw : half * wg.sum = 1) :
    (iteratedQuadrature half xg wg (a :: mesh)).2.sum = (a :: mesh).getLast (by simp) - a := by
  unfold iteratedQuadrature
  rw [gaussRule_weights_sum, sum_consecutive_diffs, hw, one_mul]

/-! ## consequences for Gram matrices -/


/-- **total mass**: partition of unity of test and trial basis at every node ⇒ the entries of the
mass matrix sum to the sum of the quadrature weights (`= b − a` by `gauss_weights_sum`). -/
theorem total_mass (Q n m : Nat) (w : Nat → α) (V U : Nat → Nat → α)
    (hV : ∀ q < Q, ∑ I ∈ range n, V I q = 1) (hU : ∀ q < Q, ∑ J ∈ range m, U J q = 1) :
    ∑ I ∈ range n, ∑ J ∈ range m, gram Q w V U I J = ∑ q ∈ range Q, w q :=
  gram_total Q n m w V U hV hU

/-- **End-to-end total mass of `bsp_mass_1d`** (model function `biform1d`, no weight function):
with local support and partition of unity of the basis at every node, and Gauss weights that sum
to 2 (`half·Σw = 1`), the entries of the assembled mass matrix sum to `b − a` (last minus first
mesh point), for every knot vector, degree and number of nodes. -/
theorem mass_total_1d [DecidableEq α] (half : α) (kv : List α) (a : α) (rest : List α)
    (hmesh : uniqueSorted kv = a :: rest) (p nqp n : Nat) (xg wg : List α)
    (D : List (List α)) (N : Nat → Nat → α) (hD : D.length = p + 1)
    (hv : ∀ k < (spanIndices kv).length, ∀ b < p + 1, ∀ t < nqp,
      get2 D b (nqp * k + t) = N (((spanIndices kv).map (· - p)).getD k 0 + b) (nqp * k + t))
    (hs : ∀ k < (spanIndices kv).length, ∀ t < nqp, ∀ I,
      ¬ (((spanIndices kv).map (· - p)).getD k 0 ≤ I ∧ I < ((spanIndices kv).map (· - p)).getD k 0 + (p + 1)) →
        N I (nqp * k + t) = 0)
    (hw : half * wg.sum = 1) (hwl : wg.length = nqp)
    (hpu : ∀ q < (spanIndices kv).length * nqp, ∑ I ∈ range n, N I q = 1) :
    ∑ I ∈ range n, ∑ J ∈ range n, cooEntry (biform1d half kv p nqp xg wg D D none).2.2 I J =
      (a :: rest).getLast (by simp) - a := by
  have hb := fun I J => biform_1d half kv p nqp xg wg D D none N N hD hD hv hv hs hs I J
  simp only [hb]
  have ht := gram_total ((spanIndices kv).length * nqp) n n
    (fun q => (biform1d half kv p nqp xg wg D D none).2.1.getD q 0) N N hpu hpu
  unfold gram at ht
  rw [ht]
  have hq : (biform1d half kv p nqp xg wg D D none).2.1 = (iteratedQuadrature half xg wg (a :: rest)).2 := by
    simp only [biform1d, hmesh]
  have hl : (spanIndices kv).length * nqp = (iteratedQuadrature half xg wg (a :: rest)).2.length := by
    rw [length_iteratedQuadrature_weights, length_spanIndices, hmesh, hwl]; simp
  rw [hq, hl, ← list_sum_eq_range, gauss_weights_sum half xg wg a rest hw]

/-- **`K·1 = 0`**: if the trial-function derivatives sum to zero at every node (`dN_sum_zero`, C02)
every row of the stiffness matrix sums to zero. -/
theorem stiffness_row_sum_zero (Q m : Nat) (w : Nat → α) (V U : Nat → Nat → α)
    (hU : ∀ q < Q, ∑ J ∈ range m, U J q = 0) (I : Nat) :
    ∑ J ∈ range m, gram Q w V U I J = 0 := by
  rw [gram_row_sum]
  apply Finset.sum_eq_zero; intro q hq
  rw [hU q (Finset.mem_range.mp hq), mul_zero]

/-- **End-to-end `K·1 = 0` for `bsp_stiffness_1d`** (model function `biform1d`, any weight
function): if the (differentiated) trial functions sum to zero at every node, every row of the
assembled matrix sums to zero. -/
theorem stiffness_row_sum_1d [DecidableEq α] (half : α) (kv : List α) (p nqp n : Nat) (xg wg : List α)
    (D : List (List α)) (wf : Option (List α)) (N : Nat → Nat → α) (hD : D.length = p + 1)
    (hv : ∀ k < (spanIndices kv).length, ∀ b < p + 1, ∀ t < nqp,
      get2 D b (nqp * k + t) = N (((spanIndices kv).map (· - p)).getD k 0 + b) (nqp * k + t))
    (hs : ∀ k < (spanIndices kv).length, ∀ t < nqp, ∀ I,
      ¬ (((spanIndices kv).map (· - p)).getD k 0 ≤ I ∧ I < ((spanIndices kv).map (· - p)).getD k 0 + (p + 1)) →
        N I (nqp * k + t) = 0)
    (hz : ∀ q < (spanIndices kv).length * nqp, ∑ J ∈ range n, N J q = 0) (I : Nat) :
    ∑ J ∈ range n, cooEntry (biform1d half kv p nqp xg wg D D wf).2.2 I J = 0 := by
  have hb := fun J => biform_1d half kv p nqp xg wg D D wf N N hD hD hv hv hs hs I J
  simp only [hb]
  have ht := stiffness_row_sum_zero ((spanIndices kv).length * nqp) n
    (fun q => (biform1d half kv p nqp xg wg D D wf).2.1.getD q 0) N N hz I
  unfold gram at ht
  exact ht

/-- **End-to-end symmetry of `bsp_mass_1d` / `bsp_stiffness_1d`** (`du = dv`, any weight function) -/
theorem symmetric_1d [DecidableEq α] (half : α) (kv : List α) (p nqp : Nat) (xg wg : List α)
    (D : List (List α)) (wf : Option (List α)) (N : Nat → Nat → α) (hD : D.length = p + 1)
    (hv : ∀ k < (spanIndices kv).length, ∀ b < p + 1, ∀ t < nqp,
      get2 D b (nqp * k + t) = N (((spanIndices kv).map (· - p)).getD k 0 + b) (nqp * k + t))
    (hs : ∀ k < (spanIndices kv).length, ∀ t < nqp, ∀ I,
      ¬ (((spanIndices kv).map (· - p)).getD k 0 ≤ I ∧ I < ((spanIndices kv).map (· - p)).getD k 0 + (p + 1)) →
        N I (nqp * k + t) = 0) (I J : Nat) :
    cooEntry (biform1d half kv p nqp xg wg D D wf).2.2 I J =
      cooEntry (biform1d half kv p nqp xg wg D D wf).2.2 J I := by
  rw [biform_1d half kv p nqp xg wg D D wf N N hD hD hv hv hs hs I J,
    biform_1d half kv p nqp xg wg D D wf N N hD hD hv hv hs hs J I]
  apply Finset.sum_congr rfl; intro q _; ring

/-- **`1ᵀK = 0`** -/
theorem stiffness_col_sum_zero (Q n : Nat) (w : Nat → α) (V U : Nat → Nat → α)
    (hV : ∀ q < Q, ∑ I ∈ range n, V I q = 0) (J : Nat) :
    ∑ I ∈ range n, gram Q w V U I J = 0 := by
  rw [gram_col_sum]
  apply Finset.sum_eq_zero; intro q hq
  rw [hV q (Finset.mem_range.mp hq), mul_zero]

/-- `M`, `K` symmetric (same basis and derivative order on both sides) -/
theorem gram_symmetric (Q : Nat) (w : Nat → α) (V : Nat → Nat → α) (I J : Nat) :
    gram Q w V V I J = gram Q w V V J I := gram_symm Q w V I J

/-- `xᵀ M x = Σ_q w_q (Σ_I x_I N_I(x_q))²` -/
theorem gram_quadratic_form (Q n : Nat) (w : Nat → α) (V : Nat → Nat → α) (x : Nat → α) :
    ∑ I ∈ range n, ∑ J ∈ range n, x I * gram Q w V V I J * x J =
      ∑ q ∈ range Q, w q * (∑ I ∈ range n, x I * V I q) ^ 2 := gram_quadratic Q n w V x

/-- Kronecker product of symmetric matrices is symmetric (entry level, every index) -/
theorem kron_symmetric (A B : Nat → Nat → α) (m : Nat) (hA : ∀ i j, A i j = A j i) (hB : ∀ i j, B i j = B j i)
    (i j : Nat) : kronEntry A B m m i j = kronEntry A B m m j i := by
  unfold kronEntry; rw [hA, hB]

/-- the entries of a Kronecker product sum to the product of the factors' sums: with
`total_mass` in every direction, `Σ bsp_mass_2d/3d = area / volume` of the parameter box. -/
theorem kron_total (A B : Nat → Nat → α) (mA nA mB nB : Nat) :
    ∑ i ∈ range (mA * mB), ∑ j ∈ range (nA * nB), kronEntry A B mB nB i j =
      (∑ i ∈ range mA, ∑ j ∈ range nA, A i j) * (∑ i ∈ range mB, ∑ j ∈ range nB, B i j) :=
  kron_total_fn A B mA nA mB nB

/-! ## load vector / integrate -/

/-- `bspline.load_vector`: entry `i` of `C.T.dot(w * f(nodes))` is `Σ_q C[q,i] · (w_q f_q)`. -/
theorem load_vector_spec (C : List (List α)) (w fv : List α) (i : Nat) (hi : i < matCols C) :
    (loadVector C w fv).getD i 0 = ∑ q ∈ range C.length, get2 C q i * (w.getD q 0 * fv.getD q 0) := by
  unfold loadVector
  rw [getD_colT _ _ _ hi]
  apply Finset.sum_congr rfl; intro q _
  rw [getD_zipWith_mul]

/-- `integrate` in one dimension (with optional `|det J|` factor): `Σ_q w_q f_q (d_q)`. -/
theorem integrate_spec (w fv : List α) :
    integrate [w] fv none = ∑ q ∈ range (min w.length fv.length), w.getD q 0 * fv.getD q 0 := by
  unfold integrate weightedVals tensorWeights
  simp only
  rw [list_sum_eq_range, List.length_zipWith]
  apply Finset.sum_congr rfl; intro q _
  rw [getD_zipWith_mul]

/-! ## the Leibniz formulas of `Pyiga.Gen.DetInv.*_det_eq` are `Matrix.det` -/

theorem det2_eq_matrix_det (x00 x01 x10 x11 : α) :
    x00 * x11 - x01 * x10 = Matrix.det !![x00, x01; x10, x11] := by
  rw [Matrix.det_fin_two_of]

theorem det3_eq_matrix_det (x00 x01 x02 x10 x11 x12 x20 x21 x22 : α) :
    x00 * x11 * x22 - x00 * x12 * x21 - x01 * x10 * x22 + x01 * x12 * x20 + x02 * x10 * x21 - x02 * x11 * x20 =
      Matrix.det !![x00, x01, x02; x10, x11, x12; x20, x21, x22] := by
  rw [Matrix.det_fin_three]
  simp [Matrix.of_apply, Matrix.cons_val', Matrix.cons_val_zero, Matrix.cons_val_one]

end Ring

section Ordered
variable {α : Type} [CommRing α] [LinearOrder α] [IsStrictOrderedRing α]

/-- **`M ⪰ 0`, `K ⪰ 0`** for non-negative weights: `xᵀ G x ≥ 0` for every `x`. -/
theorem gram_psd (Q n : Nat) (w : Nat → α) (V : Nat → Nat → α) (x : Nat → α) (hw : ∀ q < Q, 0 ≤ w q) :
    0 ≤ ∑ I ∈ range n, ∑ J ∈ range n, x I * gram Q w V V I J * x J :=
  Pyiga.Galerkin.gram_psd Q n w V x hw


/-- **End-to-end `M ⪰ 0` / `K ⪰ 0` for the 1-D model function**: with non-negative quadrature
weights (after multiplication with the weight function) `xᵀ A x ≥ 0` for every `x`. -/
theorem psd_1d [DecidableEq α] (half : α) (kv : List α) (p nqp n : Nat) (xg wg : List α)
    (D : List (List α)) (wf : Option (List α)) (N : Nat → Nat → α) (hD : D.length = p + 1)
    (hv : ∀ k < (spanIndices kv).length, ∀ b < p + 1, ∀ t < nqp,
      get2 D b (nqp * k + t) = N (((spanIndices kv).map (· - p)).getD k 0 + b) (nqp * k + t))
    (hs : ∀ k < (spanIndices kv).length, ∀ t < nqp, ∀ I,
      ¬ (((spanIndices kv).map (· - p)).getD k 0 ≤ I ∧ I < ((spanIndices kv).map (· - p)).getD k 0 + (p + 1)) →
        N I (nqp * k + t) = 0)
    (hw : ∀ q < (spanIndices kv).length * nqp, 0 ≤ (biform1d half kv p nqp xg wg D D wf).2.1.getD q 0)
    (x : Nat → α) :
    0 ≤ ∑ I ∈ range n, ∑ J ∈ range n, x I * cooEntry (biform1d half kv p nqp xg wg D D wf).2.2 I J * x J := by
  have hb := fun I J => biform_1d half kv p nqp xg wg D D wf N N hD hD hv hv hs hs I J
  simp only [hb]
  have := Pyiga.Galerkin.gram_psd ((spanIndices kv).length * nqp) n
    (fun q => (biform1d half kv p nqp xg wg D D wf).2.1.getD q 0) N x hw
  unfold gram at this
  exact this

end Ordered

section Field
variable {α : Type} [Field α] [LinearOrder α] [IsStrictOrderedRing α]

/-- `gauss_rule` maps reference nodes in `(-1,1)` strictly inside `(a,b)` (so every node of a
span lies in the interior of that span and `findspan` of a node is the span's knot index). -/
theorem gauss_nodes_inside (a b : α) (x w : List α) (hab : a < b) (hx : ∀ xi ∈ x, -1 < xi ∧ xi < 1) :
    ∀ node ∈ (gaussRule (1 / 2 : α) x w [a] [b]).1, a < node ∧ node < b := by
  intro node hnode
  simp only [gaussRule, List.zipWith_cons_cons, List.zipWith_nil_right, List.zip_cons_cons, List.zip_nil_right,
    List.flatMap_cons, List.flatMap_nil, List.append_nil, List.mem_map] at hnode
  obtain ⟨xi, hxi, rfl⟩ := hnode
  exact gauss_node_inside a b xi hab (hx xi hxi).1 (hx xi hxi).2

end Field

/-! ## end-to-end totals / row sums / symmetry of the Kronecker paths -/

section KronConsequences
variable {α : Type} [CommRing α]

/-- **total mass of the Kronecker paths**: the entries of `bsp_mass_2d` sum to the product of the
1-D totals (`= area` of the parameter box by `mass_total_1d` on each axis) -/
theorem mass_total_2d (M1 M2 : List (List α)) :
    ∑ i ∈ range (matRows M1 * matRows M2), ∑ j ∈ range (matCols M1 * matCols M2), get2 (mass2d M1 M2) i j =
      (∑ i ∈ range (matRows M1), ∑ j ∈ range (matCols M1), get2 M1 i j) *
      (∑ i ∈ range (matRows M2), ∑ j ∈ range (matCols M2), get2 M2 i j) := by
  rw [← kron_total_fn]
  apply Finset.sum_congr rfl; intro i hi
  apply Finset.sum_congr rfl; intro j hj
  unfold mass2d kron
  exact get2_map_range _ _ _ i j (Finset.mem_range.mp hi) (Finset.mem_range.mp hj)

/-- … and of `bsp_mass_3d`: product of the three 1-D totals (`= volume`) -/
theorem mass_total_3d (M0 M1 M2 : List (List α)) (h : 0 < matRows M1 * matRows M2) :
    ∑ i ∈ range (matRows M0 * (matRows M1 * matRows M2)), ∑ j ∈ range (matCols M0 * (matCols M1 * matCols M2)),
        get2 (mass3d M0 M1 M2) i j =
      (∑ i ∈ range (matRows M0), ∑ j ∈ range (matCols M0), get2 M0 i j) *
      ((∑ i ∈ range (matRows M1), ∑ j ∈ range (matCols M1), get2 M1 i j) *
       (∑ i ∈ range (matRows M2), ∑ j ∈ range (matCols M2), get2 M2 i j)) := by
  have h2 := mass_total_2d M0 (kron M1 M2)
  rw [matRows_kron, matCols_kron _ _ h] at h2
  unfold mass3d
  unfold mass2d at h2
  rw [h2]
  congr 1
  exact mass_total_2d M1 M2

/-- row sums of `bsp_stiffness_2d` (geo=None) in terms of the 1-D row sums -/
theorem stiffness_row_sum_2d (M1 K1 M2 K2 : List (List α))
    (hr1 : matRows K1 = matRows M1) (hc1 : matCols K1 = matCols M1)
    (hr2 : matRows K2 = matRows M2) (hc2 : matCols K2 = matCols M2)
    (i1 i2 : Nat) (hi1 : i1 < matRows M1) (hi2 : i2 < matRows M2) :
    ∑ j ∈ range (matCols M1 * matCols M2), get2 (stiffness2d M1 K1 M2 K2) (i1 * matRows M2 + i2) j =
      (∑ j1 ∈ range (matCols M1), get2 K1 i1 j1) * (∑ j2 ∈ range (matCols M2), get2 M2 i2 j2) +
      (∑ j1 ∈ range (matCols M1), get2 M1 i1 j1) * (∑ j2 ∈ range (matCols M2), get2 K2 i2 j2) := by
  rw [sum_range_kron, Finset.sum_mul_sum, Finset.sum_mul_sum, ← Finset.sum_add_distrib]
  apply Finset.sum_congr rfl; intro j1 hj1
  rw [← Finset.sum_add_distrib]
  apply Finset.sum_congr rfl; intro j2 hj2
  exact stiffness2d_entry M1 K1 M2 K2 hr1 hc1 hr2 hc2 i1 i2 j1 j2 hi1 hi2
    (Finset.mem_range.mp hj1) (Finset.mem_range.mp hj2)

/-- **`K·1 = 0` for the 2-D Kronecker path**: if the rows of both 1-D stiffness matrices sum to zero
(`stiffness_row_sum_1d`), so do the rows of `kron(K1,M2) + kron(M1,K2)`. -/
theorem stiffness_row_sum_zero_2d (M1 K1 M2 K2 : List (List α))
    (hr1 : matRows K1 = matRows M1) (hc1 : matCols K1 = matCols M1)
    (hr2 : matRows K2 = matRows M2) (hc2 : matCols K2 = matCols M2)
    (i1 i2 : Nat) (hi1 : i1 < matRows M1) (hi2 : i2 < matRows M2)
    (hz1 : ∑ j1 ∈ range (matCols M1), get2 K1 i1 j1 = 0) (hz2 : ∑ j2 ∈ range (matCols M2), get2 K2 i2 j2 = 0) :
    ∑ j ∈ range (matCols M1 * matCols M2), get2 (stiffness2d M1 K1 M2 K2) (i1 * matRows M2 + i2) j = 0 := by
  rw [stiffness_row_sum_2d M1 K1 M2 K2 hr1 hc1 hr2 hc2 i1 i2 hi1 hi2, hz1, hz2]; ring

/-- symmetry of the 2-D Kronecker matrices at Kronecker indices from symmetry of the factors -/
theorem stiffness_symmetric_2d (M1 K1 M2 K2 : List (List α))
    (hr1 : matRows K1 = matRows M1) (hc1 : matCols K1 = matCols M1)
    (hr2 : matRows K2 = matRows M2) (hc2 : matCols K2 = matCols M2)
    (hsq1 : matCols M1 = matRows M1) (hsq2 : matCols M2 = matRows M2)
    (hM1 : ∀ i j, get2 M1 i j = get2 M1 j i) (hK1 : ∀ i j, get2 K1 i j = get2 K1 j i)
    (hM2 : ∀ i j, get2 M2 i j = get2 M2 j i) (hK2 : ∀ i j, get2 K2 i j = get2 K2 j i)
    (i1 i2 j1 j2 : Nat) (hi1 : i1 < matRows M1) (hi2 : i2 < matRows M2) (hj1 : j1 < matRows M1) (hj2 : j2 < matRows M2) :
    get2 (stiffness2d M1 K1 M2 K2) (i1 * matRows M2 + i2) (j1 * matCols M2 + j2) =
      get2 (stiffness2d M1 K1 M2 K2) (j1 * matRows M2 + j2) (i1 * matCols M2 + i2) := by
  rw [stiffness2d_entry M1 K1 M2 K2 hr1 hc1 hr2 hc2 i1 i2 j1 j2 hi1 hi2 (hsq1 ▸ hj1) (hsq2 ▸ hj2),
    stiffness2d_entry M1 K1 M2 K2 hr1 hc1 hr2 hc2 j1 j2 i1 i2 hj1 hj2 (hsq1 ▸ hi1) (hsq2 ▸ hi2),
    hK1 i1 j1, hM2 i2 j2, hM1 i1 j1, hK2 i2 j2]

end KronConsequences

/-! ## n-D `inner_products` / `integrate`, tensor-product and boundary quadrature -/

section Tprod
open Pyiga.Index
variable {α : Type} [CommRing α]

/-- **tensor-product weights = outer product of the 1-D weights** (every dimension): the raveled
weight array of `apply_tprod([Diag(w_k)], ·)` holds `∏_k w_k[q_k]` at the C-order index of `q`. -/
theorem tensor_weights_outer (ws : List (List α)) (q : List Nat) (hne : ws ≠ [])
    (hq : Below q (ws.map List.length)) :
    (tensorWeights ws).getD (toSeq q (ws.map List.length)) 0 = wprod ws q :=
  getD_tensorWeights ws q hne hq

/-- … and they sum to the product of the 1-D sums -/
theorem tensor_weights_sum (ws : List (List α)) (hne : ws ≠ []) :
    (tensorWeights ws).sum = (ws.map List.sum).prod := sum_tensorWeights ws hne

/-- `tensor.apply_tprod([C₀ᵀ, C₁ᵀ, …], X)` as modelled: the nested sum over all node multi-indices,
for any number of axes. -/
theorem apply_tprod_T_spec (Cs : List (List (List α))) (x : List α) (i : List Nat) (g : List Nat → α)
    (hlen : x.length = prod (Cs.map List.length))
    (hx : ∀ q, Below q (Cs.map List.length) → x.getD (toSeq q (Cs.map List.length)) 0 = g q)
    (hi : Below i (Cs.map matCols)) :
    (applyTprodT Cs x).getD (toSeq i (Cs.map matCols)) 0 = nestSum Cs i g :=
  applyTprodT_spec Cs x i g hlen hx hi

/-- **`inner_products` without geometry, every dimension**: entry `i = (i₀,…)` (C order) is
`Σ_{q₀} C₀[q₀,i₀] Σ_{q₁} C₁[q₁,i₁] … (∏_k w_k[q_k]) · f[q]`  =  `(Cᵀ (w ⊙ f))[i]`. -/
theorem inner_products_spec (Cs : List (List (List α))) (ws : List (List α)) (fv : List α)
    (hne : Cs ≠ []) (hw : ws.map List.length = Cs.map List.length)
    (hf : fv.length = prod (Cs.map List.length)) (i : List Nat) (hi : Below i (Cs.map matCols)) :
    (innerProducts Cs ws fv none).getD (toSeq i (Cs.map matCols)) 0 =
      nestSum Cs i (fun q => wprod ws q * fv.getD (toSeq q (Cs.map List.length)) 0) := by
  have hws : ws ≠ [] := by
    intro h; rw [h] at hw; simp at hw; exact hne (by simpa using hw.symm)
  have hT := length_tensorWeights ws hws
  rw [hw] at hT
  unfold innerProducts weightedVals
  simp only
  apply applyTprodT_spec Cs _ i _ (by rw [List.length_zipWith, hT, hf, Nat.min_self]) _ hi
  intro q hq
  rw [getD_zipWith_mul, ← hw, getD_tensorWeights ws q hws (by rw [hw]; exact hq)]

end Tprod

section TprodOrdered
open Pyiga.Index
variable {α : Type} [CommRing α] [LinearOrder α] [IsStrictOrderedRing α]

/-- the model's `np.abs` is the absolute value -/
theorem absVal_eq_abs (x : α) : absVal x = |x| := by
  unfold absVal
  split
  · rename_i h; exact (abs_of_neg h).symm
  · rename_i h; exact (abs_of_nonneg (not_lt.mp h)).symm

theorem getD_map_absVal (d : List α) (k : Nat) : (d.map absVal).getD k 0 = |d.getD k 0| := by
  simp only [List.getD_eq_getElem?_getD, List.getElem?_map]
  cases h : d[k]? with
  | none => simp
  | some v => simp [absVal_eq_abs]

/-- **`inner_products` with geometry, every dimension, including the sign**: the signed Jacobian
determinants enter through `|·|`:  entry `i` is
`Σ_{q₀} C₀[q₀,i₀] … (∏_k w_k[q_k]) · f[q] · |det J[q]|`  =  `(Cᵀ (w ⊙ f ⊙ |det J|))[i]`. -/
theorem inner_products_geo_spec (Cs : List (List (List α))) (ws : List (List α)) (fv dets : List α)
    (hne : Cs ≠ []) (hw : ws.map List.length = Cs.map List.length)
    (hf : fv.length = prod (Cs.map List.length)) (hd : dets.length = prod (Cs.map List.length))
    (i : List Nat) (hi : Below i (Cs.map matCols)) :
    (innerProductsGeo Cs ws fv dets).getD (toSeq i (Cs.map matCols)) 0 =
      nestSum Cs i (fun q => wprod ws q * fv.getD (toSeq q (Cs.map List.length)) 0 *
        |dets.getD (toSeq q (Cs.map List.length)) 0|) := by
  have hws : ws ≠ [] := by
    intro h; rw [h] at hw; simp at hw; exact hne (by simpa using hw.symm)
  have hT := length_tensorWeights ws hws
  rw [hw] at hT
  unfold innerProductsGeo innerProducts weightedVals
  simp only
  apply applyTprodT_spec Cs _ i _
    (by rw [List.length_zipWith, List.length_zipWith, List.length_map, hT, hf, hd, Nat.min_self, Nat.min_self]) _ hi
  intro q hq
  rw [getD_zipWith_mul, getD_zipWith_mul, getD_map_absVal, ← hw,
    getD_tensorWeights ws q hws (by rw [hw]; exact hq)]

/-- **`integrate` with geometry, every dimension (in particular 3-D)**: `Σ_q w[q] · f[q] · |det J[q]|`
over all raveled nodes, where `w = tensorWeights ws` is the outer product of the 1-D weights
(`tensor_weights_outer`). -/
theorem integrate_geo_spec (ws : List (List α)) (fv dets : List α) (P : Nat)
    (hT : (tensorWeights ws).length = P) (hf : fv.length = P) (hd : dets.length = P) :
    integrateGeo ws fv dets =
      ∑ k ∈ range P, (tensorWeights ws).getD k 0 * fv.getD k 0 * |dets.getD k 0| := by
  unfold integrateGeo integrate weightedVals
  simp only
  rw [list_sum_eq_range, List.length_zipWith, List.length_zipWith, List.length_map, hT, hf, hd,
    Nat.min_self, Nat.min_self]
  apply Finset.sum_congr rfl; intro k _
  rw [getD_zipWith_mul, getD_zipWith_mul, getD_map_absVal]

/-- non-negative data give a non-negative integral for **either orientation** of the geometry -/
theorem integrate_geo_nonneg (ws : List (List α)) (fv dets : List α) (P : Nat)
    (hT : (tensorWeights ws).length = P) (hf : fv.length = P) (hd : dets.length = P)
    (hw : ∀ k < P, 0 ≤ (tensorWeights ws).getD k 0) (hfv : ∀ k < P, 0 ≤ fv.getD k 0) :
    0 ≤ integrateGeo ws fv dets := by
  rw [integrate_geo_spec ws fv dets P hT hf hd]
  apply Finset.sum_nonneg; intro k hk
  have hk' := Finset.mem_range.mp hk
  exact mul_nonneg (mul_nonneg (hw k hk') (hfv k hk')) (abs_nonneg _)

end TprodOrdered

/-- non-vacuity, orientation-reversing geometry: 2×1 nodes, weights `[1,1]⊗[2]`, `f = 1`, signed
`det J = −3/2` at both nodes: the model integrates to the positive measure `2·(1+1)·3/2 = 6`, and the
inner products with a 1×1 collocation pair are positive. -/
example : integrateGeo [[1, 1], [2]] [1, 1] [(-3/2 : ℚ), -3/2] = 6 ∧
    innerProductsGeo [[[1], [1]], [[1]]] [[1, 1], [2]] [1, 1] [(-3/2 : ℚ), -3/2] = [6] := by
  constructor <;> decide +kernel

section Quad
open Pyiga.Index
variable {α : Type} [CommRing α]

/-- `make_tensor_quadrature`: nodes and weights are the per-axis iterated rules -/
theorem tensor_quadrature_axes (half : α) (xg wg : List α) (meshes : List (List α)) :
    tensorQuadrature half xg wg meshes =
      (meshes.map fun m => (iteratedQuadrature half xg wg m).1,
       meshes.map fun m => (iteratedQuadrature half xg wg m).2) := by
  simp [tensorQuadrature, List.map_map, Function.comp_def]

/-- **`make_tensor_quadrature`: the tensor-product weights (outer product of the per-axis weights)
sum to the measure of the parameter box** `∏_k (b_k − a_k)` — any number of axes, any meshes
(each given as first point and rest), Gauss weights with `½·Σw = 1`. -/
theorem tensor_quadrature_measure (half : α) (xg wg : List α) (ms : List (α × List α)) (hne : ms ≠ [])
    (hw : half * wg.sum = 1) :
    (tensorWeights (tensorQuadrature half xg wg (ms.map fun m => m.1 :: m.2)).2).sum =
      (ms.map fun m => (m.1 :: m.2).getLast (by simp) - m.1).prod := by
  rw [tensor_quadrature_axes, sum_tensorWeights _ (by simpa using hne)]
  simp only [List.map_map]
  congr 1
  apply List.map_congr_left
  intro m _
  exact gauss_weights_sum half xg wg m.1 m.2 hw

/-- **`make_boundary_quadrature`**: on axis `bdax` the rule is the single node `mesh[0]` (side 0) or
`mesh[-1]` with weight 1; the other axes keep their iterated rule … -/
theorem boundary_quadrature_axes (half : α) (xg wg : List α) (meshes : List (List α)) (bdax side : Nat) (d : α) :
    boundaryQuadrature half 1 xg wg meshes bdax side d =
      ((meshes.map fun m => (iteratedQuadrature half xg wg m).1).set bdax
          [if side = 0 then (meshes.getD bdax []).getD 0 d else (meshes.getD bdax []).getLastD d],
       (meshes.map fun m => (iteratedQuadrature half xg wg m).2).set bdax [1]) := by
  simp [boundaryQuadrature, List.map_set, List.map_map, Function.comp_def]

/-- … so **the boundary weights sum to the measure of the face**: `∏_{k ≠ bdax} (b_k − a_k)`. -/
theorem boundary_quadrature_measure (half : α) (xg wg : List α) (ms : List (α × List α)) (hne : ms ≠ [])
    (bdax side : Nat) (d : α) (hw : half * wg.sum = 1) :
    (tensorWeights (boundaryQuadrature half 1 xg wg (ms.map fun m => m.1 :: m.2) bdax side d).2).sum =
      ((ms.map fun m => (m.1 :: m.2).getLast (by simp) - m.1).set bdax 1).prod := by
  rw [boundary_quadrature_axes, sum_tensorWeights _ (by simpa using hne)]
  simp only [List.map_map, List.map_set, List.sum_singleton]
  congr 2
  apply List.map_congr_left
  intro m _
  exact gauss_weights_sum half xg wg m.1 m.2 hw

end Quad

/-! ## non-vacuity -/

/-- the hypotheses of `biform_1d` are satisfiable: degree 1, one span `[0,1]`, two nodes -/
example : ∃ V : Nat → Nat → ℚ,
    (∀ k < 1, ∀ a < 2, ∀ t < 2, get2 [[3/4, 1/4], [1/4, 3/4]] a (2 * k + t) = V (0 + a) (2 * k + t)) ∧
    (∀ k < 1, ∀ t < 2, ∀ I, ¬ (0 ≤ I ∧ I < 0 + 2) → V I (2 * k + t) = 0) :=
  ⟨fun I q => if I < 2 then get2 [[3/4, 1/4], [1/4, 3/4]] I q else 0,
   by intro k _ a ha t _; simp [ha],
   by intro k _ t _ I hI; have : ¬ I < 2 := by omega
      simp [this]⟩

/-- `total_mass` hypotheses hold for the hat functions at those nodes, and the model's matrix sums to 1 -/
example : (∑ I ∈ range 2, ∑ J ∈ range 2,
    cooEntry (biform1d (1/2 : ℚ) [0,0,1,1] 1 2 [-1/2, 1/2] [1, 1] [[3/4, 1/4], [1/4, 3/4]] [[3/4, 1/4], [1/4, 3/4]] none).2.2 I J) = 1 := by
  decide +kernel

end Pyiga.Props.C09
