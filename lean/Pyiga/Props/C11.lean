/-
Property C11 — relaxation and multigrid are consistent, contractive iterations.
Property theorems only (helper lemmas: Proofs/Relax.lean, Proofs/RelaxMG.lean).

All statements are about the transliterated model `Pyiga.Model.Relax` (CSR kernel of
`relaxation_cy.pyx`, dense branch and sweep dispatch of `solvers.gauss_seidel`,
`local_mg_step`, `iterative_solve`, `twogrid`, smoothing sets) and hold for every
matrix size, every stored row, every index list, every sweep count, every level count.
-/
import Pyiga.Proofs.Relax
-- import Pyiga.Proofs.RelaxMG

namespace Pyiga.Props.C11
open Pyiga.Relax Finset

section gs
variable {K : Type} [Field K] [DecidableEq K]

/-! ## Gauss-Seidel: what the kernel computes -/

/-- **As coded** (no assumption on the CSR row): the inner loop returns
`rsum = Σ a·x[col]` over *all* stored entries with `col ≠ i` (duplicates all used, in
storage order) and `diag` = the *last* stored `(i,i)` entry (`0` if none). -/
theorem gs_as_coded (i : ℕ) (x : List K) (es : List (ℕ × K)) (r0 d0 : K) :
    gsRowAcc i x es (r0, d0) = (r0 + offSum es i x, lastDiag es i d0) :=
  gsRowAcc_eq i x es r0 d0

/-- **Textbook update.**  If row `i` stores at most one diagonal entry and all columns are
`< n`, one modelled row update is `x_i ← (b_i − Σ_{j≠i} a_ij x_j) / a_ii` with the current
(already updated) entries of `x`, where `a_ij = rowVal es j` is the matrix entry the row
denotes (off-diagonal duplicates summed, explicit zeros and unsorted columns irrelevant);
rows with `a_ii = 0` (zero or missing diagonal) are left unchanged. -/
theorem gs_textbook (es : List (ℕ × K)) (b : ℕ → K) (x : List K) (i n : ℕ)
    (hdiag : (es.filter (fun e => e.1 = i)).length ≤ 1) (hcols : ∀ e ∈ es, e.1 < n) :
    gsUpdate es b x i =
      if rowVal es i ≠ 0 then
        x.set i ((b i - ∑ j ∈ (range n).erase i, rowVal es j * x.getD j 0) / rowVal es i)
      else x :=
  gsUpdate_textbook es b x i n hdiag hcols

/-- non-vacuity: row `[(1,2),(0,4),(1,-1)]` (unsorted, duplicate off-diagonal) of a 2×2 system. -/
example : gsUpdate [((1 : ℕ), (2 : ℚ)), (0, 4), (1, -1)] (fun _ => 6) [0, 2] 0 = [1, 2] := by
  decide +kernel

/-- **The canonicity hypothesis is forced**: with two stored diagonal entries `(0,1),(0,1)`
(the matrix entry is `a_00 = 2`) the kernel divides by the last one only: it returns `2`
where the textbook update of the denoted matrix gives `1`.  (scipy's `csr_matrix(coo)`
sums duplicates, a hand-built CSR need not.) -/
theorem gs_duplicate_diagonal_not_textbook :
    gsUpdate [((0 : ℕ), (1 : ℚ)), (0, 1)] (fun _ => 2) [0] 0 = [2] ∧
    rowVal [((0 : ℕ), (1 : ℚ)), (0, 1)] 0 = 2 ∧
    ([0] : List ℚ).set 0 ((2 - ∑ j ∈ (range 1).erase 0, rowVal [((0 : ℕ), (1 : ℚ)), (0, 1)] j * 0) / 2) = [1] := by
  refine ⟨by decide +kernel, by decide +kernel, by simp⟩

/-- **Order of a sweep**: the index list is processed front to back, each update seeing the
previous ones (so a pass over `l₁ ++ l₂` is a pass over `l₁` followed by one over `l₂`). -/
theorem gs_sweep_order (A : CSR K) (b : ℕ → K) (i : ℕ) (idx l₁ l₂ : List ℕ) (x : List K) :
    gsSweep A b (i :: idx) x = gsSweep A b idx (gsUpdate (A.row i) b x i) ∧
    gsSweep A b (l₁ ++ l₂) x = gsSweep A b l₂ (gsSweep A b l₁ x) :=
  ⟨gsSweep_cons A b i idx x, gsSweep_append A b l₁ l₂ x⟩

/-- `sweep='backward'` is the forward sweep over the reversed index list
(`range(N-1,-1,-1)` when no index list is given). -/
theorem gs_backward_is_reversed {β : Type} (relax : List ℕ → β → β) (N : ℕ)
    (indices : Option (List ℕ)) (k : ℕ) (x : β) :
    gaussSeidel relax N indices k .backward x
      = gaussSeidel relax N (some ((indices.getD (List.range N)).reverse)) k .forward x := by
  simp [gaussSeidel]

/-- `sweep='symmetric'` is `iterations` × (one forward pass, then one backward pass). -/
theorem gs_symmetric_is_forward_backward {β : Type} (relax : List ℕ → β → β) (N : ℕ)
    (indices : Option (List ℕ)) (k : ℕ) (x : β) :
    gaussSeidel relax N indices k .symmetric x
      = iter (fun x => gaussSeidel relax N indices 1 .backward
          (gaussSeidel relax N indices 1 .forward x)) k x := by
  simp [gaussSeidel, iter]

/-- **Dense and sparse branches agree** on a canonical row with nonzero diagonal. -/
theorem gs_dense_sparse_agree (es : List (ℕ × K)) (A : ℕ → ℕ → K) (b : ℕ → K) (x : List K)
    (i n : ℕ) (hdiag : (es.filter (fun e => e.1 = i)).length ≤ 1) (hcols : ∀ e ∈ es, e.1 < n)
    (hi : i < n) (hne : rowVal es i ≠ 0) (hA : ∀ j < n, A i j = rowVal es j) :
    denseUpdate n A b x i = gsUpdate es b x i :=
  gs_dense_sparse es A b x i n hdiag hcols hi hne hA

/-- **Fixed point**: if `x` satisfies the equations of all rows in the index list
(`Σ_j a_ij x_j = b_i`), any sweep over that list — with repetitions, in any order —
returns `x` unchanged.  In particular an exact solution is a fixed point of every
forward/backward/symmetric sweep and every iteration count. -/
theorem gs_fixed_point (A : CSR K) (b : ℕ → K) (idx : List ℕ) (x : List K) (n : ℕ)
    (h : ∀ i ∈ idx, i < n ∧ ((A.row i).filter (fun e => e.1 = i)).length ≤ 1 ∧
      (∀ e ∈ A.row i, e.1 < n) ∧ ∑ j ∈ range n, rowVal (A.row i) j * x.getD j 0 = b i) :
    gsSweep A b idx x = x :=
  gsSweep_fixed A b idx x n h

/-- non-vacuity of `gs_fixed_point`: `[[2,1],[1,3]] · (1,1) = (3,4)`. -/
example : gsSweep ({ indptr := [0, 2, 4], indices := [0, 1, 1, 0], data := [2, 1, 3, 1] } : CSR ℚ)
    (fun i => if i = 0 then 3 else 4) [1, 0, 1] [1, 1] = [1, 1] := by decide +kernel

/-! ## Gauss-Seidel never increases the energy -/

/-- **Energy identity.**  `A` symmetric, `a_ii ≠ 0`: the coordinate update of row `i` changes
`E(x) = ½ xᵀAx − bᵀx` by exactly `−r_i² / (2 a_ii)` with `r_i = b_i − (Ax)_i`. -/
theorem gs_energy (n : ℕ) (A : ℕ → ℕ → K) (b : ℕ → K) (x : List K) (i : ℕ)
    (hi : i < n) (hlen : n ≤ x.length) (hsym : ∀ i < n, ∀ j < n, A i j = A j i)
    (hne : A i i ≠ 0) [NeZero (2 : K)] :
    energy n A b (vecFn (denseUpdate n A b x i))
      = energy n A b (vecFn x) - (rowRes n A b x i) ^ 2 / (2 * A i i) :=
  denseUpdate_energy n A b x i hi hlen hsym hne

end gs

section ordered
variable {K : Type} [Field K] [LinearOrder K] [IsStrictOrderedRing K]

/-- one update with `a_ii > 0` does not increase the energy. -/
theorem gs_energy_le (n : ℕ) (A : ℕ → ℕ → K) (b : ℕ → K) (x : List K) (i : ℕ)
    (hi : i < n) (hlen : n ≤ x.length) (hsym : ∀ i < n, ∀ j < n, A i j = A j i)
    (hpos : 0 < A i i) :
    energy n A b (vecFn (denseUpdate n A b x i)) ≤ energy n A b (vecFn x) :=
  denseUpdate_energy_le n A b x i hi hlen hsym hpos

/-- **Monotonicity of every sweep.**  `A` symmetric with positive diagonal on the smoothed
rows: for every index list (any order, repetitions), every iteration count and each of the
three sweep directions, `E(gauss_seidel(x)) ≤ E(x)`.  For SPD `A` with `A x* = b`,
`E(x) − E(x*) = ½‖x − x*‖²_A`, so the energy-norm error never increases. -/
theorem gs_sweep_energy_le (n : ℕ) (A : ℕ → ℕ → K) (b : ℕ → K)
    (hsym : ∀ i < n, ∀ j < n, A i j = A j i) (idx : List ℕ)
    (hidx : ∀ i ∈ idx, i < n ∧ 0 < A i i) (iterations : ℕ) (sweep : Sweep)
    (x : List K) (hlen : n ≤ x.length) :
    energy n A b (vecFn (gaussSeidel (denseSweep n A b) n (some idx) iterations sweep x))
      ≤ energy n A b (vecFn x) :=
  gaussSeidel_dense_energy_le n A b hsym idx hidx iterations sweep x hlen

/-- non-vacuity: `A = [[2,1],[1,2]]`, `b = (3,4)`, one symmetric sweep from `x = (0,0)`. -/
example : energy 2 (fun i j => if i = j then 2 else (1 : ℚ)) (fun i => if i = 0 then 3 else 4)
      (vecFn (gaussSeidel (denseSweep 2 (fun i j => if i = j then 2 else (1 : ℚ))
        (fun i => if i = 0 then 3 else 4)) 2 (some [0, 1]) 1 .symmetric [0, 0]))
    ≤ energy 2 (fun i j => if i = j then 2 else (1 : ℚ)) (fun i => if i = 0 then 3 else 4)
        (vecFn [0, 0]) :=
  gs_sweep_energy_le 2 _ _ (by intro i _ j _; by_cases h : i = j <;> simp [h, eq_comm])
    [0, 1] (by intro i hi; simp at hi; constructor <;> [omega; simp]) 1 .symmetric [0, 0] (by simp)

end ordered

end Pyiga.Props.C11
