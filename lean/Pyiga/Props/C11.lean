/-
Property C11 — relaxation and multigrid are consistent, contractive iterations.
-/
import Pyiga.Proofs.Relax

namespace Pyiga.Props.C11
open Pyiga.Relax

end Pyiga.Props.C11
