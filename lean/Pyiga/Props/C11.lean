/-
Property C11 — relaxation and multigrid are consistent, contractive iterations.
Property theorems only (helper lemmas: Proofs/Relax.lean, Proofs/RelaxMG.lean).

All statements are about the transliterated model `Pyiga.Model.Relax` (CSR kernel of
`relaxation_cy.pyx`, dense branch and sweep dispatch of `solvers.gauss_seidel`,
`local_mg_step`, `iterative_solve`, `twogrid`, smoothing sets) and hold for every
matrix size, every stored row, every index list, every sweep count, every level count.
-/
import Pyiga.Proofs.Relax
import Pyiga.Proofs.RelaxMG
import Pyiga.Proofs.LocalMG

namespace Pyiga.Props.C11
open Pyiga.Relax Finset

section gs
variable {K : Type} [Field K] [DecidableEq K]

/-! ## Gauss-Seidel: what the kernel computes -/

/-- **As coded** (no assumption on the CSR row): the inner loop returns
`rsum = Σ a·x[col]` over *all* stored entries with `col ≠ i` (duplicates all used, in
storage order) and `diag` = the *last* stored `(i,i)` entry (`0` if none). -/
theorem gs_as_coded (i : ℕ) (x : List K) (es : List (ℕ × K)) (r0 d0 : K) :
    gsRowAcc i x es (r0, d0) = (r0 + offSum es i x, lastDiag es i d0) :=
  gsRowAcc_eq i x es r0 d0

/-- **Textbook update.**  If row `i` stores at most one diagonal entry and all columns are
`< n`, one modelled row update is `x_i ← (b_i − Σ_{j≠i} a_ij x_j) / a_ii` with the current
(already updated) entries of `x`, where `a_ij = rowVal es j` is the matrix entry the row
denotes (off-diagonal duplicates summed, explicit zeros and unsorted columns irrelevant);
rows with `a_ii = 0` (zero or missing diagonal) are left unchanged. -/
theorem gs_textbook (es : List (ℕ × K)) (b : ℕ → K) (x : List K) (i n : ℕ)
    (hdiag : (es.filter (fun e => e.1 = i)).length ≤ 1) (hcols : ∀ e ∈ es, e.1 < n) :
    gsUpdate es b x i =
      if rowVal es i ≠ 0 then
        x.set i ((b i - ∑ j ∈ (range n).erase i, rowVal es j * x.getD j 0) / rowVal es i)
      else x :=
  gsUpdate_textbook es b x i n hdiag hcols

/-- non-vacuity: row `[(1,2),(0,4),(1,-1)]` (unsorted, duplicate off-diagonal) of a 2×2 system. -/
example : gsUpdate [((1 : ℕ), (2 : ℚ)), (0, 4), (1, -1)] (fun _ => 6) [0, 2] 0 = [1, 2] := by
  decide +kernel

/-- **The canonicity hypothesis is forced**: with two stored diagonal entries `(0,1),(0,1)`
(the matrix entry is `a_00 = 2`) the kernel divides by the last one only: it returns `2`
where the textbook update of the denoted matrix gives `1`.  (scipy's `csr_matrix(coo)`
sums duplicates, a hand-built CSR need not.) -/
theorem gs_duplicate_diagonal_not_textbook :
    gsUpdate [((0 : ℕ), (1 : ℚ)), (0, 1)] (fun _ => 2) [0] 0 = [2] ∧
    rowVal [((0 : ℕ), (1 : ℚ)), (0, 1)] 0 = 2 ∧
    ([0] : List ℚ).set 0 ((2 - ∑ j ∈ (range 1).erase 0, rowVal [((0 : ℕ), (1 : ℚ)), (0, 1)] j * 0) / 2) = [1] := by
  refine ⟨by decide +kernel, by decide +kernel, by simp⟩

/-- **Order of a sweep**: the index list is processed front to back, each update seeing the
previous ones (so a pass over `l₁ ++ l₂` is a pass over `l₁` followed by one over `l₂`). -/
theorem gs_sweep_order (A : CSR K) (b : ℕ → K) (i : ℕ) (idx l₁ l₂ : List ℕ) (x : List K) :
    gsSweep A b (i :: idx) x = gsSweep A b idx (gsUpdate (A.row i) b x i) ∧
    gsSweep A b (l₁ ++ l₂) x = gsSweep A b l₂ (gsSweep A b l₁ x) :=
  ⟨gsSweep_cons A b i idx x, gsSweep_append A b l₁ l₂ x⟩

/-- `sweep='backward'` is the forward sweep over the reversed index list
(`range(N-1,-1,-1)` when no index list is given). -/
theorem gs_backward_is_reversed {β : Type} (relax : List ℕ → β → β) (N : ℕ)
    (indices : Option (List ℕ)) (k : ℕ) (x : β) :
    gaussSeidel relax N indices k .backward x
      = gaussSeidel relax N (some ((indices.getD (List.range N)).reverse)) k .forward x := by
  simp [gaussSeidel]

/-- `sweep='symmetric'` is `iterations` × (one forward pass, then one backward pass). -/
theorem gs_symmetric_is_forward_backward {β : Type} (relax : List ℕ → β → β) (N : ℕ)
    (indices : Option (List ℕ)) (k : ℕ) (x : β) :
    gaussSeidel relax N indices k .symmetric x
      = iter (fun x => gaussSeidel relax N indices 1 .backward
          (gaussSeidel relax N indices 1 .forward x)) k x := by
  simp [gaussSeidel, iter]

/-- **Dense and sparse branches agree** on a canonical row with nonzero diagonal. -/
theorem gs_dense_sparse_agree (es : List (ℕ × K)) (A : ℕ → ℕ → K) (b : ℕ → K) (x : List K)
    (i n : ℕ) (hdiag : (es.filter (fun e => e.1 = i)).length ≤ 1) (hcols : ∀ e ∈ es, e.1 < n)
    (hi : i < n) (hne : rowVal es i ≠ 0) (hA : ∀ j < n, A i j = rowVal es j) :
    denseUpdate n A b x i = gsUpdate es b x i :=
  gs_dense_sparse es A b x i n hdiag hcols hi hne hA

/-- **Fixed point**: if `x` satisfies the equations of all rows in the index list
(`Σ_j a_ij x_j = b_i`), any sweep over that list — with repetitions, in any order —
returns `x` unchanged.  In particular an exact solution is a fixed point of every
forward/backward/symmetric sweep and every iteration count. -/
theorem gs_fixed_point (A : CSR K) (b : ℕ → K) (idx : List ℕ) (x : List K) (n : ℕ)
    (h : ∀ i ∈ idx, i < n ∧ ((A.row i).filter (fun e => e.1 = i)).length ≤ 1 ∧
      (∀ e ∈ A.row i, e.1 < n) ∧ ∑ j ∈ range n, rowVal (A.row i) j * x.getD j 0 = b i) :
    gsSweep A b idx x = x :=
  gsSweep_fixed A b idx x n h

/-- non-vacuity of `gs_fixed_point`: `[[2,1],[1,3]] · (1,1) = (3,4)`. -/
example : gsSweep ({ indptr := [0, 2, 4], indices := [0, 1, 1, 0], data := [2, 1, 3, 1] } : CSR ℚ)
    (fun i => if i = 0 then 3 else 4) [1, 0, 1] [1, 1] = [1, 1] := by decide +kernel

/-! ## Gauss-Seidel never increases the energy -/

/-- **Energy identity.**  `A` symmetric, `a_ii ≠ 0`: the coordinate update of row `i` changes
`E(x) = ½ xᵀAx − bᵀx` by exactly `−r_i² / (2 a_ii)` with `r_i = b_i − (Ax)_i`. -/
theorem gs_energy (n : ℕ) (A : ℕ → ℕ → K) (b : ℕ → K) (x : List K) (i : ℕ)
    (hi : i < n) (hlen : n ≤ x.length) (hsym : ∀ i < n, ∀ j < n, A i j = A j i)
    (hne : A i i ≠ 0) [NeZero (2 : K)] :
    energy n A b (vecFn (denseUpdate n A b x i))
      = energy n A b (vecFn x) - (rowRes n A b x i) ^ 2 / (2 * A i i) :=
  denseUpdate_energy n A b x i hi hlen hsym hne

end gs

section ordered
variable {K : Type} [Field K] [LinearOrder K] [IsStrictOrderedRing K]

/-- one update with `a_ii > 0` does not increase the energy. -/
theorem gs_energy_le (n : ℕ) (A : ℕ → ℕ → K) (b : ℕ → K) (x : List K) (i : ℕ)
    (hi : i < n) (hlen : n ≤ x.length) (hsym : ∀ i < n, ∀ j < n, A i j = A j i)
    (hpos : 0 < A i i) :
    energy n A b (vecFn (denseUpdate n A b x i)) ≤ energy n A b (vecFn x) :=
  denseUpdate_energy_le n A b x i hi hlen hsym hpos

/-- **Monotonicity of every sweep.**  `A` symmetric with positive diagonal on the smoothed
rows: for every index list (any order, repetitions), every iteration count and each of the
three sweep directions, `E(gauss_seidel(x)) ≤ E(x)`.  For SPD `A` with `A x* = b`,
`E(x) − E(x*) = ½‖x − x*‖²_A`, so the energy-norm error never increases. -/
theorem gs_sweep_energy_le (n : ℕ) (A : ℕ → ℕ → K) (b : ℕ → K)
    (hsym : ∀ i < n, ∀ j < n, A i j = A j i) (idx : List ℕ)
    (hidx : ∀ i ∈ idx, i < n ∧ 0 < A i i) (iterations : ℕ) (sweep : Sweep)
    (x : List K) (hlen : n ≤ x.length) :
    energy n A b (vecFn (gaussSeidel (denseSweep n A b) n (some idx) iterations sweep x))
      ≤ energy n A b (vecFn x) :=
  gaussSeidel_dense_energy_le n A b hsym idx hidx iterations sweep x hlen

/-- non-vacuity: `A = [[2,1],[1,2]]`, `b = (3,4)`, one symmetric sweep from `x = (0,0)`. -/
example : energy 2 (fun i j => if i = j then 2 else (1 : ℚ)) (fun i => if i = 0 then 3 else 4)
      (vecFn (gaussSeidel (denseSweep 2 (fun i j => if i = j then 2 else (1 : ℚ))
        (fun i => if i = 0 then 3 else 4)) 2 (some [0, 1]) 1 .symmetric [0, 0]))
    ≤ energy 2 (fun i j => if i = j then 2 else (1 : ℚ)) (fun i => if i = 0 then 3 else 4)
        (vecFn [0, 0]) :=
  gs_sweep_energy_le 2 _ _ (by intro i _ j _; by_cases h : i = j <;> simp [h, eq_comm])
    [0, 1] (by intro i hi; simp at hi; constructor <;> [omega; simp]) 1 .symmetric [0, 0] (by simp)

end ordered

/-! ## subspace correction, multigrid cycle, drivers, smoothing sets (proofs: Proofs/RelaxMG.lean)

The multigrid statements are abstract: the level spaces are embedded in one module `V`, the
operators `A_lv`, `P_lv`, `P_lvᵀ` are arbitrary linear maps related by the Galerkin and
adjointness identities, the smoothers are arbitrary maps with the stated property.  The concrete
smoothers of `local_mg_step` satisfy those hypotheses by `gs_sweep_energy_le` / `gs_fixed_point`
(Gauss-Seidel on `lv_inds[lv]`) and `subspace_correction_energy_le` (`exact`). -/

section
variable {K V W : Type} [Field K] [NeZero (2 : K)] [AddCommGroup V] [Module K V]
  [AddCommGroup W] [Module K W]

/-- **Subspace correction and the energy.**  For a symmetric bilinear form `a`, a linear
functional `ℓ` and `E(v) = ½ a(v,v) − ℓ(v)`:
(i) `E(x + y) = E(x) + (a(x,y) − ℓ(y)) + ½ a(y,y)` for all `x, y`;
(ii) if `c` solves the Galerkin equation of the subspace `range P` at the iterate `x`, i.e.
`a(x + P c, P w) = ℓ(P w)` for all `w` (in matrices `PᵀAP c = Pᵀ(b − A x)`), then the
correction lowers the energy by exactly `½ a(P c, P c)`.
(`[NeZero (2 : K)]` is necessary: in characteristic 2, `½ = 0` and (i) fails; it is found
automatically for `ℚ`, `ℝ` and every ordered field.) -/
theorem subspace_correction_energy (a : V →ₗ[K] V →ₗ[K] K) (hs : ∀ u v, a u v = a v u)
    (ℓ : V →ₗ[K] K) (P : W →ₗ[K] V) :
    (∀ x y, energyForm a ℓ (x + y)
        = energyForm a ℓ x + (a x y - ℓ y) + (1 / 2) * a y y) ∧
    (∀ x c, (∀ w, a (x + P c) (P w) = ℓ (P w)) →
        energyForm a ℓ (x + P c) = energyForm a ℓ x - (1 / 2) * a (P c) (P c)) :=
  Pyiga.Relax.subspace_correction_energy a hs ℓ P

end

section
variable {K V W : Type} [Field K] [LinearOrder K] [IsStrictOrderedRing K]
  [AddCommGroup V] [Module K V] [AddCommGroup W] [Module K W]

/-- **A Galerkin subspace correction never increases the energy** when `a` is symmetric
positive semidefinite: if `a(x + P c, P w) = ℓ(P w)` for all `w` then
`E(x + P c) ≤ E(x)`. -/
theorem subspace_correction_energy_le (a : V →ₗ[K] V →ₗ[K] K) (hs : ∀ u v, a u v = a v u)
    (hpos : ∀ v, 0 ≤ a v v) (ℓ : V →ₗ[K] K) (P : W →ₗ[K] V) (x : V) (c : W)
    (hc : ∀ w, a (x + P c) (P w) = ℓ (P w)) :
    energyForm a ℓ (x + P c) ≤ energyForm a ℓ x :=
  Pyiga.Relax.subspace_correction_energy_le a hs hpos ℓ P x c hc

end

section
variable {K V : Type} [Field K] [LinearOrder K] [IsStrictOrderedRing K]
  [AddCommGroup V] [Module K V]

/-- **Energy monotonicity of the multigrid V-cycle `local_mg_step`.**  With symmetric level
operators related by the Galerkin condition `A_lv = Pᵀ A_{lv+1} P`, `PT` the adjoint of `P`
w.r.t. the pairing `ip`, pre- and post-smoothers that do not increase the level energy
`E_lv(x; f) = ½⟨A_lv x, x⟩ − ⟨f, x⟩` and a level-0 solver with `E_0(solve0 0 f; f) ≤ 0`:
on every level the cycle started from `0` returns an iterate of non-positive energy, and on
every level `≥ 1` one cycle does not increase the energy of any iterate. -/
theorem mg_energy (ip : V →ₗ[K] V →ₗ[K] K) (A P PT : ℕ → (V →ₗ[K] V))
    (pre post : ℕ → V → V → V) (solve0 : V → V → V)
    (hsymA : ∀ lv x y, ip (A lv x) y = ip (A lv y) x)
    (hgal : ∀ lv x, A lv x = PT lv (A (lv + 1) (P lv x)))
    (hadj : ∀ lv r c, ip (PT lv r) c = ip r (P lv c))
    (hpre : ∀ lv x f, levelEnergy ip A lv (pre lv x f) f ≤ levelEnergy ip A lv x f)
    (hpost : ∀ lv x f, levelEnergy ip A lv (post lv x f) f ≤ levelEnergy ip A lv x f)
    (h0 : ∀ f, levelEnergy ip A 0 (solve0 0 f) f ≤ 0) :
    ∀ lv,
      (∀ f, levelEnergy ip A lv (mgStep (fun l => ⇑(A l)) (fun l => ⇑(P l))
          (fun l => ⇑(PT l)) pre post solve0 lv 0 f) f ≤ 0) ∧
      (∀ x f, levelEnergy ip A (lv + 1) (mgStep (fun l => ⇑(A l)) (fun l => ⇑(P l))
          (fun l => ⇑(PT l)) pre post solve0 (lv + 1) x f) f
            ≤ levelEnergy ip A (lv + 1) x f) :=
  Pyiga.Relax.mg_energy ip A P PT pre post solve0 hsymA hgal hadj hpre hpost h0

end

section
variable {V : Type} [AddCommGroup V]

/-- **Fixed point of `local_mg_step`.**  `Z lv r` reads "`r` vanishes on the non-Dirichlet
dofs of level `lv`".  If the operators map `0` to `0`, restriction preserves `Z`, the
smoothers leave an iterate with `Z`-residual alone and the level-0 solver returns `0` for a
`Z` right-hand side, then on every level the cycle started from `0` with a `Z` right-hand
side returns `0`, and every iterate whose residual satisfies `Z` (in particular the exact
discrete solution) is a fixed point of the cycle. -/
theorem mg_fixed_point (A P PT : ℕ → V → V) (pre post : ℕ → V → V → V) (solve0 : V → V → V)
    (Z : ℕ → V → Prop)
    (hA0 : ∀ lv, A lv 0 = 0) (hP0 : ∀ lv, P lv 0 = 0)
    (hZ : ∀ lv r, Z (lv + 1) r → Z lv (PT lv r))
    (hpre : ∀ lv x f, Z lv (f - A lv x) → pre lv x f = x)
    (hpost : ∀ lv x f, Z lv (f - A lv x) → post lv x f = x)
    (hs0 : ∀ f, Z 0 f → solve0 0 f = 0) :
    ∀ lv, (∀ f, Z lv f → mgStep A P PT pre post solve0 lv 0 f = 0) ∧
      (∀ x f, Z (lv + 1) (f - A (lv + 1) x) →
        mgStep A P PT pre post solve0 (lv + 1) x f = x) :=
  Pyiga.Relax.mg_fixed_point A P PT pre post solve0 Z hA0 hP0 hZ hpre hpost hs0

end

section
variable {V : Type}

/-- **Exit conditions of `iterative_solve`.**  With `m = max maxiter 1` (the loop body runs
at least once): if the driver reports `k` iterations then `1 ≤ k ≤ m`, the returned iterate
is `step^k x0`, it is the first one that satisfies the convergence test; if it reports
`np.inf` (`none`) then exactly `m` steps were made and none of the iterates
`step^1 x0, …, step^m x0` satisfied the test. -/
theorem driver_stop (step : V → V) (conv : V → Bool) (maxiter : ℕ) (x0 x : V) (r : Option ℕ)
    (h : iterativeSolve step conv maxiter x0 = (x, r)) :
    (∀ k, r = some k → 1 ≤ k ∧ k ≤ max maxiter 1 ∧ x = step^[k] x0 ∧ conv x = true ∧
        ∀ j, 1 ≤ j → j < k → conv (step^[j] x0) = false) ∧
    (r = none → x = step^[max maxiter 1] x0 ∧
        ∀ j, 1 ≤ j → j ≤ max maxiter 1 → conv (step^[j] x0) = false) :=
  Pyiga.Relax.driver_stop step conv maxiter x0 x r h

end

section
variable {V : Type}

/-- **Exit conditions of `twogrid`.**  The driver never runs out of (model) fuel; it returns
after `k` rounds with `1 ≤ k ≤ maxiter + 1`, the result is the iterate after `k` full rounds
(the correction is applied in the last round too); `converged` means the smoothed iterate
of the last round passed the `small` test, `diverged` that it failed `small` and passed
`large`, `tooMany` that `k = maxiter + 1`; in all earlier rounds no exit test fired. -/
theorem twogrid_stop (smooth corr : V → V) (small large : V → Bool) (s maxiter : ℕ)
    (u0 u : V) (k : ℕ) (e : TGExit)
    (h : twogrid smooth corr small large s maxiter u0 = (u, k, e)) :
    e ≠ .outOfFuel ∧ 1 ≤ k ∧ k ≤ maxiter + 1 ∧ u = tgRound smooth corr s k u0 ∧
    (e = .converged → small (iter smooth s (tgRound smooth corr s (k - 1) u0)) = true) ∧
    (e = .diverged → small (iter smooth s (tgRound smooth corr s (k - 1) u0)) = false ∧
      large (iter smooth s (tgRound smooth corr s (k - 1) u0)) = true) ∧
    (e = .tooMany → k = maxiter + 1) ∧
    (∀ j, j + 1 < k → tgJudge small large maxiter
      (iter smooth s (tgRound smooth corr s j u0)) (j + 1) = none) :=
  Pyiga.Relax.twogrid_stop smooth corr small large s maxiter u0 u k e h

end

section
variable {ι : Type} [DecidableEq ι]

/-- **Smoothing sets.**  For every smoothing strategy (`new`, `trunc`, `func_supp`,
`cell_supp`, any disparity): the set used on level `lv` for level `lv` itself contains every
new (active or deactivated) dof of that level that is not a Dirichlet dof, and no set
contains a Dirichlet dof. -/
theorem smoothing_sets (useExtra : Bool) (disparity : Option ℕ) (act deact : ℕ → List ι)
    (dir extra : ℕ → ℕ → List ι) (lv : ℕ) :
    (∀ e, (e ∈ act lv ∨ e ∈ deact lv) → e ∉ dir lv lv →
      e ∈ smoothIndices useExtra disparity act deact dir extra lv lv) ∧
    (∀ i e, e ∈ smoothIndices useExtra disparity act deact dir extra lv i → e ∉ dir lv i) :=
  Pyiga.Relax.smoothing_sets useExtra disparity act deact dir extra lv

end

section
variable {V : Type}

/-- **`iterative_solve` as repaired (fix 507ca7d)**: a zero initial residual returns the
starting vector with iteration count `0` (the old code raised `ZeroDivisionError`, finding
D18); otherwise the driver is the loop characterised by `driver_stop`. -/
theorem driver_stop_zero_residual (z : Bool) (step : V → V) (conv : V → Bool) (maxiter : ℕ) (x0 : V) :
    (z = true → iterativeSolveNow z step conv maxiter x0 = (x0, some 0)) ∧
    (z = false → iterativeSolveNow z step conv maxiter x0 = iterativeSolve step conv maxiter x0) := by
  constructor <;> intro h <;> simp [iterativeSolveNow, h]

end

/-! ## the transliterated `local_mg_step` itself (`Model/LocalMG.lean`, executed by the driver)

`localMgStep S` is `mgStep` with the concrete ingredients of `solvers.local_mg_step`: dense views
of the Galerkin matrices `As[lv]`, the prolongators, Gauss-Seidel sweeps of the modelled CSR kernel
over `lv_inds[lv]` in the prescribed directions, the `exact` subspace correction and the level-0
solve (direct solvers as the parameter `subSolve` with the contract `A[ind,ind]·solve(rhs) = rhs`). -/

section concrete
variable {K : Type} [Field K] [LinearOrder K] [IsStrictOrderedRing K]

/-- **Energy monotonicity of `local_mg_step`** for every number of levels, each of the five
smoothers, every `smooth_steps` and all smoothing sets: under `MGHyp` (level matrices symmetric
positive semidefinite and Galerkin-related, positive diagonal on the smoothing sets, index lists
without repetitions, solver contract) the cycle started from `0` has non-positive energy on every
level and, on every level `≥ 1`, `E(step x) ≤ E(x)` for every iterate `x`. -/
theorem local_mg_step_energy (S : MGSetup K) (h : MGHyp S) :
    ∀ lv ≤ S.top, (∀ f, lvE S lv (localMgStepAt S lv 0 f) f ≤ 0) ∧
      (1 ≤ lv → ∀ x f, lvE S lv (localMgStepAt S lv x f) f ≤ lvE S lv x f) :=
  localMgStepAt_energy S h

/-- the statement for the function `local_mg_step` returns (`numlevels ≥ 2`). -/
theorem local_mg_step_energy_top (S : MGSetup K) (h : MGHyp S) (h1 : 1 ≤ S.top) (x f : LVec K) :
    lvE S S.top (localMgStep S x f) f ≤ lvE S S.top x f :=
  ((localMgStepAt_energy S h) S.top (le_refl _)).2 h1 x f

end concrete

section concreteFixed
variable {K : Type} [Field K] [DecidableEq K]

/-- **Fixed point of `local_mg_step`** (every level count, each of the five smoothers): if the
smoothing sets contain no Dirichlet dof, non-Dirichlet coarse dofs are prolongated to non-Dirichlet
fine dofs only and the direct solvers map `0` to `0` (`MGFixHyp`), then an iterate whose residual
vanishes on all non-Dirichlet rows — in particular the exact discrete solution — is returned
unchanged; from a zero start with such a right-hand side every level returns `0`. -/
theorem local_mg_step_fixed_point (S : MGSetup K) (dir : ℕ → List ℕ) (h : MGFixHyp S dir)
    (h1 : 1 ≤ S.top) (x f : LVec K) (hlen : x.d.length = S.size S.top)
    (hres : ResZ S dir S.top x.d f.d) : (localMgStep S x f).d = x.d := by
  have := ((localMgStepAt_fixed S dir h) S.top (le_refl _)).2 h1 x f hres
  rw [localMgStep, this, padTo_of_length _ _ hlen]

theorem local_mg_step_fixed_point_levels (S : MGSetup K) (dir : ℕ → List ℕ) (h : MGFixHyp S dir) :
    ∀ lv ≤ S.top,
      (∀ f : LVec K, (∀ j < S.size lv, j ∉ dir lv → f.d.getD j 0 = 0) →
        (localMgStepAt S lv 0 f).d = List.replicate (S.size lv) 0) ∧
      (1 ≤ lv → ∀ x f : LVec K, ResZ S dir lv x.d f.d →
        (localMgStepAt S lv x f).d = padTo (S.size lv) x.d) :=
  localMgStepAt_fixed S dir h

end concreteFixed

/-- non-vacuity / execution: two levels, `A = [[2,1],[1,2]]`, `P = [[1],[1]]`, `A_c = PᵀAP = [[6]]`,
Gauss-Seidel (`gs`), one step: from `x = 0`, `f = (3,3)` the cycle returns `(35/32, 13/16)`;
the exact solution `(1,1)` of `A x = f` is a fixed point. -/
def exampleSetup : MGSetup ℚ :=
  { top := 1, size := fun lv => if lv = 0 then 1 else 2,
    A := fun lv i j => if lv = 0 then 6 else (if i = j then 2 else 1),
    P := fun _ _ _ => 1, ind := fun lv => if lv = 0 then [0] else [0, 1],
    smoother := 0, steps := 1, subSolve := fun _ rhs => rhs.map (· / 6) }

example : (localMgStep exampleSetup ⟨[0, 0]⟩ ⟨[3, 3]⟩).d = [35 / 32, 13 / 16] ∧
    (localMgStep exampleSetup ⟨[1, 1]⟩ ⟨[3, 3]⟩).d = [1, 1] := by decide +kernel

example : ∀ i < 1, ∀ j < 1, exampleSetup.A 0 i j
    = galerkinEntry (exampleSetup.size 1) (exampleSetup.A 1) (exampleSetup.P 0) i j := by decide +kernel

example : MGFixHyp exampleSetup (fun _ => []) where
  ind := by
    intro lv hlv i hi
    have : lv = 0 ∨ lv = 1 := by simp [exampleSetup] at hlv; omega
    rcases this with rfl | rfl <;> simp [exampleSetup] at hi ⊢ <;> omega
  prol := by intro lv _ j _ _ k _ hk; simp at hk
  solve0 := by intro lv _ m; simp [exampleSetup]

section fromTop
variable {K : Type} [Field K] [LinearOrder K] [IsStrictOrderedRing K]

/-- `local_mg_step_energy` with the matrix hypotheses on the **finest level only**: symmetry and
positive semidefiniteness of `A` propagate to all Galerkin matrices (`galerkin_sym`,
`galerkin_psd`); what remains per level is the positive diagonal on the smoothing sets, the
absence of repeated indices and the solver contract. -/
theorem local_mg_step_energy_from_top (S : MGSetup K)
    (symTop : ∀ i < S.size S.top, ∀ j < S.size S.top, S.A S.top i j = S.A S.top j i)
    (psdTop : ∀ v : ℕ → K, 0 ≤ ∑ i ∈ range (S.size S.top), ∑ j ∈ range (S.size S.top), v i * S.A S.top i j * v j)
    (gal : ∀ lv < S.top, ∀ i < S.size lv, ∀ j < S.size lv,
      S.A lv i j = galerkinEntry (S.size (lv + 1)) (S.A (lv + 1)) (S.P lv) i j)
    (ind : ∀ lv ≤ S.top, ∀ i ∈ S.ind lv, i < S.size lv ∧ 0 < S.A lv i i)
    (nodup : ∀ lv ≤ S.top, (S.ind lv).Nodup)
    (solve : ∀ lv ≤ S.top, ∀ rhs : List K, rhs.length = (S.ind lv).length →
      ∀ k < (S.ind lv).length,
        ∑ m ∈ range (S.ind lv).length,
          S.A lv ((S.ind lv).getD k 0) ((S.ind lv).getD m 0) * (S.subSolve lv rhs).getD m 0 = rhs.getD k 0)
    (h1 : 1 ≤ S.top) (x f : LVec K) :
    lvE S S.top (localMgStep S x f) f ≤ lvE S S.top x f :=
  local_mg_step_energy_top S (MGHyp.of_top S symTop psdTop gal ind nodup solve) h1 x f

end fromTop

/-- non-vacuity of `MGHyp`: the two-level example with exact 1×1 / 2×2 subspace solvers. -/
def exampleSetup2 : MGSetup ℚ :=
  { exampleSetup with
    subSolve := fun lv rhs => if lv = 0 then rhs.map (· / 6)
      else [(2 * rhs.getD 0 0 - rhs.getD 1 0) / 3, (2 * rhs.getD 1 0 - rhs.getD 0 0) / 3] }

example : MGHyp exampleSetup2 := by
  refine MGHyp.of_top exampleSetup2 ?_ ?_ ?_ ?_ ?_ ?_
  · intro i _ j _
    simp only [exampleSetup2, exampleSetup]
    by_cases h : i = j <;> simp [h, eq_comm]
  · intro v
    have e : exampleSetup2.size exampleSetup2.top = 0 + 1 + 1 := by decide
    rw [e]
    simp only [Finset.sum_range_succ, Finset.sum_range_zero]
    simp [exampleSetup2, exampleSetup]
    nlinarith [sq_nonneg (v 0 + v 1), sq_nonneg (v 0), sq_nonneg (v 1)]
  · intro lv hlv i hi j hj
    have h0 : lv = 0 := by simp [exampleSetup2, exampleSetup] at hlv; omega
    subst h0
    have hi0 : i = 0 := by simp [exampleSetup2, exampleSetup] at hi; omega
    have hj0 : j = 0 := by simp [exampleSetup2, exampleSetup] at hj; omega
    subst hi0; subst hj0
    decide +kernel
  · intro lv hlv i hi
    have : lv = 0 ∨ lv = 1 := by simp [exampleSetup2, exampleSetup] at hlv; omega
    rcases this with rfl | rfl <;> simp [exampleSetup2, exampleSetup] at hi ⊢
    · omega
    · rcases hi with rfl | rfl <;> simp
  · intro lv hlv
    have : lv = 0 ∨ lv = 1 := by simp [exampleSetup2, exampleSetup] at hlv; omega
    rcases this with rfl | rfl <;> simp [exampleSetup2, exampleSetup]
  · intro lv hlv rhs hlen k hk
    have : lv = 0 ∨ lv = 1 := by simp [exampleSetup2, exampleSetup] at hlv; omega
    rcases this with rfl | rfl
    · have hk0 : k = 0 := by
        have : k < 1 := by simpa [exampleSetup2, exampleSetup] using hk
        omega
      have hl : rhs.length = 1 := by simpa [exampleSetup2, exampleSetup] using hlen
      subst hk0
      match rhs, hl with
      | [a], _ =>
        have e : (exampleSetup2.ind 0).length = 0 + 1 := by decide
        rw [e]
        simp only [Finset.sum_range_succ, Finset.sum_range_zero]
        simp [exampleSetup2, exampleSetup]
        ring
    · have hk2 : k < 2 := by simpa [exampleSetup2, exampleSetup] using hk
      have hl : rhs.length = 2 := by simpa [exampleSetup2, exampleSetup] using hlen
      match rhs, hl with
      | [a, b], _ =>
        have e : (exampleSetup2.ind 1).length = 0 + 1 + 1 := by decide
        rw [e]
        simp only [Finset.sum_range_succ, Finset.sum_range_zero]
        have : k = 0 ∨ k = 1 := by omega
        rcases this with rfl | rfl <;> simp [exampleSetup2, exampleSetup] <;> ring

section chainSpec
variable {K : Type} [Field K] [DecidableEq K]

/-- **The Galerkin chain the driver executes satisfies `MGHyp.gal`.**  The list
`[As[0], …, As[top]]` built like `As = [A]; for P in reversed(Ps): As.append(P.T·As[-1]·P); As.reverse()`
has `As[top] = A` and `As[lv] = Ps[lv]ᵀ · As[lv+1] · Ps[lv]` entrywise on the level sizes. -/
theorem galerkin_chain_spec (size : ℕ → ℕ) (Ps : ℕ → List (List K)) (A : List (List K)) (top : ℕ) :
    (galerkinChain size Ps A top).getD top [] = A ∧
    ∀ lv < top, ∀ i < size lv, ∀ j < size lv,
      matFn ((galerkinChain size Ps A top).getD lv []) i j
        = galerkinEntry (size (lv + 1)) (matFn ((galerkinChain size Ps A top).getD (lv + 1) []))
            (matFn (Ps lv)) i j :=
  ⟨galerkinChain_top size Ps A top, galerkinChain_gal size Ps A top⟩

end chainSpec

end Pyiga.Props.C11
