/-
Property C10 — eliminating Dirichlet dofs is algebraically exact for any index set.
Property theorems only (helper lemmas live in Proofs/).

All statements hold for every size `m × n`, every index list in every order, every matrix,
right-hand side and value list over an arbitrary commutative ring (field where a division is
needed); none is a bounded enumeration.  `examples` instantiate the hypotheses on the D5
witness `n = 5, idx = [3,1], vals = [30,10]`.
-/
import Pyiga.Proofs.Restrict
import Pyiga.Proofs.Slice

namespace Pyiga.Props.C10
open Pyiga.Restrict

section ring
variable {α : Type} [CommRing α]

/-! ## RestrictedLinearSystem -/

/-- **The constructor succeeds on every valid input**: indices pairwise distinct (in any order)
and in `[0,n)`, at least as many values as indices, `b` of length `m` (or a scalar), and either
`elim_rows ⊆ [0,m)` given or the matrix square.  It then holds the selection rows
`R_free = I[free]`, `R_elim = I[elim]`, the argsort-permuted values, `A_r = R_v A R_fᵀ` and
`b_r = R_v (b − A R_eᵀ values)`. -/
theorem build_ok (m n : Nat) (A : List (List α)) (b : ScalarOr α) (isArr : Bool) (idx : List Nat)
    (vals : List α) (er : Option (List Nat)) (hn : ∀ i ∈ idx, i < n) (hnd : idx.Nodup)
    (hl : idx.length ≤ vals.length) (hb : (b.toList m).length = m)
    (her : ∀ r, er = some r → ∀ i ∈ r, i < m) (hsq : er = none → n = m) :
    Sys.build m n A b isArr idx (.array vals) er = .ok
        { m := m, n := n, rfree := free n idx, relim := elim n idx,
          rfreeV := free m (er.getD idx), relimV := elim m (er.getD idx), values := sortedVals idx vals,
          A := selectMatrix (free m (er.getD idx)) (free n idx) A,
          b := gather (free m (er.getD idx))
            (vsub (b.toList m) (matVec n A (scatter n (elim n idx) (sortedVals idx vals)))) } :=
  build_ok_core m n A b isArr idx vals er hn hnd hl hb her hsq

/-- ★ **`complete_spec`** (array values, with or without `elim_rows`, scalar or array `b`).
Whenever the constructor succeeds on an `m × n` matrix `A` — the indices may come in *any*
order — and `u_f` solves the restricted system `A_r u_f = b_r`, the completed vector
`u = complete u_f` has length `n`, takes the prescribed value at every constrained dof,
`u[idx[k]] = vals[k]`, and satisfies every non-eliminated equation of the original system,
`(A u)_r = b_r` for all rows `r` not in `elim_rows` (not in `idx` when `elim_rows` is absent).
No sortedness hypothesis: distinctness of the indices follows from the success of the
constructor. -/
theorem complete_spec (m n : Nat) (A : List (List α)) (hA : A.length = m) (b : ScalarOr α)
    (isArr : Bool) (idx : List Nat) (vals : List α) (er : Option (List Nat)) (S : Sys α)
    (hS : Sys.build m n A b isArr idx (.array vals) er = .ok S)
    (uf : List α) (huf : uf.length = S.rfree.length) (hsolve : matVec S.rfree.length S.A uf = S.b) :
    (S.complete uf).length = n ∧
    (∀ k (hk : k < idx.length), (S.complete uf).getD idx[k] 0 = vals.getD k 0) ∧
    (∀ r, r < m → r ∉ er.getD idx → dotN n (A.getD r []) (S.complete uf) = (b.toList m).getD r 0) := by
  obtain ⟨hl, hn, hnd, hb, _, _, rfl⟩ := build_inv hS
  exact complete_core m n A (b.toList m) idx vals (er.getD idx) hn hnd hl hA hb uf huf hsolve

/-- scalar `values` (broadcast over an ndarray of indices) build the same system as the
constant array of that value. -/
theorem scalar_values_broadcast (m n : Nat) (A : List (List α)) (b : ScalarOr α) (idx : List Nat)
    (v : α) (er : Option (List Nat)) :
    Sys.build m n A b true idx (.scalar v) er =
      Sys.build m n A b true idx (.array (List.replicate idx.length v)) er :=
  build_scalar_values m n A b idx v er

/-- ★ `complete_spec` for a scalar value `v`: every constrained dof gets `v`. -/
theorem complete_spec_scalar (m n : Nat) (A : List (List α)) (hA : A.length = m) (b : ScalarOr α)
    (idx : List Nat) (v : α) (er : Option (List Nat)) (S : Sys α)
    (hS : Sys.build m n A b true idx (.scalar v) er = .ok S)
    (uf : List α) (huf : uf.length = S.rfree.length) (hsolve : matVec S.rfree.length S.A uf = S.b) :
    (S.complete uf).length = n ∧
    (∀ i ∈ idx, (S.complete uf).getD i 0 = v) ∧
    (∀ r, r < m → r ∉ er.getD idx → dotN n (A.getD r []) (S.complete uf) = (b.toList m).getD r 0) := by
  rw [scalar_values_broadcast] at hS
  obtain ⟨h1, h2, h3⟩ := complete_spec m n A hA b true idx _ er S hS uf huf hsolve
  refine ⟨h1, ?_, h3⟩
  intro i hi
  obtain ⟨k, hk, rfl⟩ := List.mem_iff_getElem.1 hi
  rw [h2 k hk, List.getD_replicate _ hk]

/-- ★ `restrict (extend u_f) = u_f` for every system the constructor returns. -/
theorem restrict_extend (m n : Nat) (A : List (List α)) (b : ScalarOr α) (isArr : Bool)
    (idx : List Nat) (vals : List α) (er : Option (List Nat)) (S : Sys α)
    (hS : Sys.build m n A b isArr idx (.array vals) er = .ok S)
    (uf : List α) (huf : uf.length = S.rfree.length) : S.restrict (S.extend uf) = uf := by
  obtain ⟨_, _, _, _, _, _, rfl⟩ := build_inv hS
  exact gather_scatter (free_nodup n idx) (fun i hi => (mem_free.1 hi).1) uf huf

/-- ★ `extend (restrict u)` is the projection onto the free dofs: entry `j` is `u[j]` when `j`
is not constrained and `0` when it is. -/
theorem extend_restrict (m n : Nat) (A : List (List α)) (b : ScalarOr α) (isArr : Bool)
    (idx : List Nat) (vals : List α) (er : Option (List Nat)) (S : Sys α)
    (hS : Sys.build m n A b isArr idx (.array vals) er = .ok S) (u : List α) :
    (S.extend (S.restrict u)).length = n ∧
    ∀ j, j < n → (S.extend (S.restrict u)).getD j 0 = if j ∈ idx then 0 else u.getD j 0 := by
  obtain ⟨_, _, _, _, _, _, rfl⟩ := build_inv hS
  refine ⟨length_scatter _ _ _, fun j hj => ?_⟩
  show (scatter n (free n idx) (gather (free n idx) u)).getD j 0 = _
  rw [getD_scatter _ _ _ hj, scatterAt_gather (free_nodup n idx)]
  by_cases hm : j ∈ idx
  · rw [if_pos hm, if_neg (fun h => (mem_free.1 h).2 hm)]
  · rw [if_neg hm, if_pos (mem_free.2 ⟨hj, hm⟩)]

/-- ★ `restrict_matrix B = R_v B R_fᵀ`: entry `(r', c')` is `B[freeV[r']][free[c']]`. -/
theorem restrict_matrix_spec (S : Sys α) (B : List (List α)) (r c : Nat) (hr : r < S.rfreeV.length)
    (hc : c < S.rfree.length) :
    entry (S.restrictMatrix B) r c = entry B S.rfreeV[r] S.rfree[c] :=
  entry_selectMatrix _ _ B r c hr hc

/-- ★ `complete (restrict u) = u` for every full vector that carries the prescribed values. -/
theorem complete_restrict (m n : Nat) (A : List (List α)) (b : ScalarOr α) (isArr : Bool)
    (idx : List Nat) (vals : List α) (er : Option (List Nat)) (S : Sys α)
    (hS : Sys.build m n A b isArr idx (.array vals) er = .ok S) (u : List α) (hu : u.length = n)
    (hv : ∀ k (hk : k < idx.length), u.getD idx[k] 0 = vals.getD k 0) :
    S.complete (S.restrict u) = u := by
  obtain ⟨hl, hn, hnd, _, _, _, rfl⟩ := build_inv hS
  exact complete_gather hn hnd hl u hu hv

/-- error branch: a repeated index makes `R_elim` shorter than `values`, which the code
reports as a `ValueError` (shape mismatch in `R_elim.T.dot(values)`) — never a silently wrong
system. -/
theorem duplicate_indices_error (m n : Nat) (A : List (List α)) (b : ScalarOr α) (isArr : Bool)
    (idx : List Nat) (vals : List α) (er : Option (List Nat)) (hn : ∀ i ∈ idx, i < n)
    (hdup : ¬ idx.Nodup) (hl : idx.length ≤ vals.length) (her : ∀ r, er = some r → ∀ i ∈ r, i < m) :
    Sys.build m n A b isArr idx (.array vals) er = .error .value :=
  build_dup_error m n A b isArr idx vals er hn hdup hl her

/-- error branch: an index `≥ n` is an `IndexError`. -/
theorem out_of_range_error (m n : Nat) (A : List (List α)) (b : ScalarOr α) (isArr : Bool)
    (idx : List Nat) (vals : List α) (er : Option (List Nat)) (i : Nat) (hi : i ∈ idx) (hin : n ≤ i) :
    Sys.build m n A b isArr idx (.array vals) er = .error .index :=
  build_oor_error m n A b isArr idx vals er i hi hin

end ring

/-! ### non-vacuity: the D5 witness `idx = [3,1]`, `vals = [30,10]` on a 5 × 5 integer system -/

def exA : List (List Int) :=
  [[10,1,2,3,4],[5,16,7,8,9],[10,11,22,13,14],[15,16,17,28,19],[20,21,22,23,34]]
def exB : List Int := [0,1,2,3,4]
def exSys : Sys Int :=
  { m := 5, n := 5, rfree := [0,2,4], relim := [1,3], rfreeV := [0,2,4], relimV := [1,3],
    values := [10,30], A := [[10,2,4],[10,22,14],[20,22,34]], b := [-100,-498,-896] }

example : Sys.build 5 5 exA (.array exB) false [3,1] (.array [30,10]) none = .ok exSys := rfl
example : exSys.complete [1,2,3] = [1,10,2,30,3] := by decide
/-- a solvable instance: `b := A·[1,10,2,30,3]`; the restricted system is solved by `[1,2,3]` and the
hypotheses of `complete_spec` hold. -/
example : ∃ S, Sys.build 5 5 exA (.array [126,446,596,1106,1066]) true [3,1] (.array [30,10]) none = .ok S ∧
    matVec S.rfree.length S.A [1,2,3] = S.b ∧ S.complete [1,2,3] = [1,10,2,30,3] := by
  refine ⟨_, rfl, ?_, ?_⟩ <;> decide
example : Sys.build 5 5 exA (.array exB) true [3,1,3] (.array [30,10,5]) none = .error .value := rfl
example : Sys.build 5 5 exA (.array exB) true [3,5] (.array [30,10]) none = .error .index := rfl
example : Sys.build 3 5 (exA.take 3) (.scalar 2) true [3,1] (.scalar 7) (some [2]) =
    .ok { m := 3, n := 5, rfree := [0,2,4], relim := [1,3], rfreeV := [0,1], relimV := [2], values := [7,7],
          A := [[10,2,4],[5,7,9]], b := [-26,-166] } := rfl

end Pyiga.Props.C10
