/-
Property C10 — eliminating Dirichlet dofs is algebraically exact for any index set.
Property theorems only (helper lemmas live in Proofs/).

All statements hold for every size `m × n`, every index list in every order, every matrix,
right-hand side and value list over an arbitrary commutative ring (field where a division is
needed); none is a bounded enumeration.  `examples` instantiate the hypotheses on the D5
witness `n = 5, idx = [3,1], vals = [30,10]`.
-/
import Pyiga.Proofs.Restrict
import Pyiga.Proofs.Slice
import Pyiga.Proofs.CombineDisjoint
import Mathlib.Data.List.Sort

namespace Pyiga.Props.C10
open Pyiga.Restrict

section ring
variable {α : Type} [CommRing α]

/-! ## RestrictedLinearSystem -/

/-- **The constructor succeeds on every valid input**: indices pairwise distinct (in any order)
and in `[0,n)`, at least as many values as indices, `b` of length `m` (or a scalar), and either
`elim_rows ⊆ [0,m)` given or the matrix square.  It then holds the selection rows
`R_free = I[free]`, `R_elim = I[elim]`, the argsort-permuted values, `A_r = R_v A R_fᵀ` and
`b_r = R_v (b − A R_eᵀ values)`. -/
theorem build_ok (m n : Nat) (A : List (List α)) (b : ScalarOr α) (isArr : Bool) (idx : List Nat)
    (vals : List α) (er : Option (List Nat)) (hn : ∀ i ∈ idx, i < n) (hnd : idx.Nodup)
    (hl : idx.length ≤ vals.length) (hb : (b.toList m).length = m)
    (her : ∀ r, er = some r → ∀ i ∈ r, i < m) (hsq : er = none → n = m) :
    Sys.build m n A b isArr idx (.array vals) er = .ok
        { m := m, n := n, rfree := free n idx, relim := elim n idx,
          rfreeV := free m (er.getD idx), relimV := elim m (er.getD idx), values := sortedVals idx vals,
          A := selectMatrix (free m (er.getD idx)) (free n idx) A,
          b := gather (free m (er.getD idx))
            (vsub (b.toList m) (matVec n A (scatter n (elim n idx) (sortedVals idx vals)))) } :=
  build_ok_core m n A b isArr idx vals er hn hnd hl hb her hsq

/-- ★ **`complete_spec`** (array values, with or without `elim_rows`, scalar or array `b`).
Whenever the constructor succeeds on an `m × n` matrix `A` — the indices may come in *any*
order — and `u_f` solves the restricted system `A_r u_f = b_r`, the completed vector
`u = complete u_f` has length `n`, takes the prescribed value at every constrained dof,
`u[idx[k]] = vals[k]`, and satisfies every non-eliminated equation of the original system,
`(A u)_r = b_r` for all rows `r` not in `elim_rows` (not in `idx` when `elim_rows` is absent).
No sortedness hypothesis: distinctness of the indices follows from the success of the
constructor. -/
theorem complete_spec (m n : Nat) (A : List (List α)) (hA : A.length = m) (b : ScalarOr α)
    (isArr : Bool) (idx : List Nat) (vals : List α) (er : Option (List Nat)) (S : Sys α)
    (hS : Sys.build m n A b isArr idx (.array vals) er = .ok S)
    (uf : List α) (huf : uf.length = S.rfree.length) (hsolve : matVec S.rfree.length S.A uf = S.b) :
    (S.complete uf).length = n ∧
    (∀ k (hk : k < idx.length), (S.complete uf).getD idx[k] 0 = vals.getD k 0) ∧
    (∀ r, r < m → r ∉ er.getD idx → dotN n (A.getD r []) (S.complete uf) = (b.toList m).getD r 0) := by
  obtain ⟨hl, hn, hnd, hb, _, _, rfl⟩ := build_inv hS
  exact complete_core m n A (b.toList m) idx vals (er.getD idx) hn hnd hl hA hb uf huf hsolve

/-- scalar `values` (broadcast over an ndarray of indices) build the same system as the
constant array of that value. -/
theorem scalar_values_broadcast (m n : Nat) (A : List (List α)) (b : ScalarOr α) (idx : List Nat)
    (v : α) (er : Option (List Nat)) :
    Sys.build m n A b true idx (.scalar v) er =
      Sys.build m n A b true idx (.array (List.replicate idx.length v)) er :=
  build_scalar_values m n A b idx v er

/-- ★ `complete_spec` for a scalar value `v`: every constrained dof gets `v`. -/
theorem complete_spec_scalar (m n : Nat) (A : List (List α)) (hA : A.length = m) (b : ScalarOr α)
    (idx : List Nat) (v : α) (er : Option (List Nat)) (S : Sys α)
    (hS : Sys.build m n A b true idx (.scalar v) er = .ok S)
    (uf : List α) (huf : uf.length = S.rfree.length) (hsolve : matVec S.rfree.length S.A uf = S.b) :
    (S.complete uf).length = n ∧
    (∀ i ∈ idx, (S.complete uf).getD i 0 = v) ∧
    (∀ r, r < m → r ∉ er.getD idx → dotN n (A.getD r []) (S.complete uf) = (b.toList m).getD r 0) := by
  rw [scalar_values_broadcast] at hS
  obtain ⟨h1, h2, h3⟩ := complete_spec m n A hA b true idx _ er S hS uf huf hsolve
  refine ⟨h1, ?_, h3⟩
  intro i hi
  obtain ⟨k, hk, rfl⟩ := List.mem_iff_getElem.1 hi
  rw [h2 k hk, List.getD_replicate _ hk]

/-- ★ `restrict (extend u_f) = u_f` for every system the constructor returns. -/
theorem restrict_extend (m n : Nat) (A : List (List α)) (b : ScalarOr α) (isArr : Bool)
    (idx : List Nat) (vals : List α) (er : Option (List Nat)) (S : Sys α)
    (hS : Sys.build m n A b isArr idx (.array vals) er = .ok S)
    (uf : List α) (huf : uf.length = S.rfree.length) : S.restrict (S.extend uf) = uf := by
  obtain ⟨_, _, _, _, _, _, rfl⟩ := build_inv hS
  exact gather_scatter (free_nodup n idx) (fun i hi => (mem_free.1 hi).1) uf huf

/-- ★ `extend (restrict u)` is the projection onto the free dofs: entry `j` is `u[j]` when `j`
is not constrained and `0` when it is. -/
theorem extend_restrict (m n : Nat) (A : List (List α)) (b : ScalarOr α) (isArr : Bool)
    (idx : List Nat) (vals : List α) (er : Option (List Nat)) (S : Sys α)
    (hS : Sys.build m n A b isArr idx (.array vals) er = .ok S) (u : List α) :
    (S.extend (S.restrict u)).length = n ∧
    ∀ j, j < n → (S.extend (S.restrict u)).getD j 0 = if j ∈ idx then 0 else u.getD j 0 := by
  obtain ⟨_, _, _, _, _, _, rfl⟩ := build_inv hS
  refine ⟨length_scatter _ _ _, fun j hj => ?_⟩
  show (scatter n (free n idx) (gather (free n idx) u)).getD j 0 = _
  rw [getD_scatter _ _ _ hj, scatterAt_gather (free_nodup n idx)]
  by_cases hm : j ∈ idx
  · rw [if_pos hm, if_neg (fun h => (mem_free.1 h).2 hm)]
  · rw [if_neg hm, if_pos (mem_free.2 ⟨hj, hm⟩)]

/-- ★ `restrict_matrix B = R_v B R_fᵀ`: entry `(r', c')` is `B[freeV[r']][free[c']]`. -/
theorem restrict_matrix_spec (S : Sys α) (B : List (List α)) (r c : Nat) (hr : r < S.rfreeV.length)
    (hc : c < S.rfree.length) :
    entry (S.restrictMatrix B) r c = entry B S.rfreeV[r] S.rfree[c] :=
  entry_selectMatrix _ _ B r c hr hc

/-- ★ `complete (restrict u) = u` for every full vector that carries the prescribed values. -/
theorem complete_restrict (m n : Nat) (A : List (List α)) (b : ScalarOr α) (isArr : Bool)
    (idx : List Nat) (vals : List α) (er : Option (List Nat)) (S : Sys α)
    (hS : Sys.build m n A b isArr idx (.array vals) er = .ok S) (u : List α) (hu : u.length = n)
    (hv : ∀ k (hk : k < idx.length), u.getD idx[k] 0 = vals.getD k 0) :
    S.complete (S.restrict u) = u := by
  obtain ⟨hl, hn, hnd, _, _, _, rfl⟩ := build_inv hS
  exact complete_gather hn hnd hl u hu hv

/-- error branch: a repeated index makes `R_elim` shorter than `values`, which the code
reports as a `ValueError` (shape mismatch in `R_elim.T.dot(values)`) — never a silently wrong
system. -/
theorem duplicate_indices_error (m n : Nat) (A : List (List α)) (b : ScalarOr α) (isArr : Bool)
    (idx : List Nat) (vals : List α) (er : Option (List Nat)) (hn : ∀ i ∈ idx, i < n)
    (hdup : ¬ idx.Nodup) (hl : idx.length ≤ vals.length) (her : ∀ r, er = some r → ∀ i ∈ r, i < m) :
    Sys.build m n A b isArr idx (.array vals) er = .error .value :=
  build_dup_error m n A b isArr idx vals er hn hdup hl her

/-- error branch: an index `≥ n` is an `IndexError`. -/
theorem out_of_range_error (m n : Nat) (A : List (List α)) (b : ScalarOr α) (isArr : Bool)
    (idx : List Nat) (vals : List α) (er : Option (List Nat)) (i : Nat) (hi : i ∈ idx) (hin : n ≤ i) :
    Sys.build m n A b isArr idx (.array vals) er = .error .index :=
  build_oor_error m n A b isArr idx vals er i hi hin

end ring

/-! ## combine_bcs, blocked numbering -/

section combine
variable {β : Type} [Inhabited β]

/-- `combine_bcs` succeeds whenever every `(indices, values)` pair has matching sizes
(otherwise it is the `AssertionError` branch). -/
theorem combine_bcs_ok (bcs : List (List Nat × List β)) (h : ∀ bc ∈ bcs, bc.1.length = bc.2.length) :
    ∃ r, combineBcs bcs = .ok r := ⟨_, combineBcs_ok bcs h⟩

/-- ★ **`combine_bcs_spec`**: the combined index array is strictly increasing (so every dof
occurs exactly once), contains exactly the dofs that occur in some input condition, and there
is one value per dof. -/
theorem combine_bcs_spec (bcs : List (List Nat × List β)) (ui : List Nat) (uv : List β)
    (h : combineBcs bcs = .ok (ui, uv)) :
    ui.Pairwise (· < ·) ∧ (∀ i, i ∈ ui ↔ ∃ bc ∈ bcs, i ∈ bc.1) ∧ uv.length = ui.length := by
  obtain ⟨_, rfl, rfl⟩ := combineBcs_inv h
  refine ⟨unique_pairwise _, fun i => ?_, by simp [uniqueIndex]⟩
  rw [mem_unique, List.mem_flatMap]

/-- ★ the value kept for the `k`-th combined dof is the value at the **first** occurrence of that
dof in the concatenation of the inputs (`np.unique(..., return_index=True)`): there is a position
`p` with `indices[p] = ui[k]`, no earlier position holds that dof, and `uv[k] = values[p]`. -/
theorem combine_bcs_value (bcs : List (List Nat × List β)) (ui : List Nat) (uv : List β)
    (h : combineBcs bcs = .ok (ui, uv)) (k : Nat) (hk : k < ui.length) :
    ∃ p, p < (bcs.flatMap (·.1)).length ∧ (bcs.flatMap (·.1)).getD p 0 = ui[k] ∧
      (∀ q, q < p → (bcs.flatMap (·.1)).getD q 0 ≠ ui[k]) ∧
      uv.getD k default = (bcs.flatMap (·.2)).getD p default := by
  obtain ⟨_, rfl, rfl⟩ := combineBcs_inv h
  have hm : (unique (bcs.flatMap (·.1)))[k] ∈ bcs.flatMap (·.1) := mem_unique.1 (List.getElem_mem hk)
  obtain ⟨h1, h2, h3⟩ := idxOf_first _ _ hm
  refine ⟨_, h1, h2, h3, ?_⟩
  simp [uniqueIndex, List.getD_eq_getElem?_getD, List.getElem?_map, List.getElem?_eq_getElem hk]

/-- ★ **the combined dof set does not depend on the order of the conditions**: for any permutation of
the list of `(indices, values)` pairs (`compute_dirichlet_bcs` lists its faces in the caller's order)
`combine_bcs` returns the same index array. -/
theorem combine_bcs_indices_order_independent (bcs bcs' : List (List Nat × List β)) (hp : bcs.Perm bcs')
    (ui ui' : List Nat) (uv uv' : List β)
    (h : combineBcs bcs = .ok (ui, uv)) (h' : combineBcs bcs' = .ok (ui', uv')) : ui = ui' := by
  obtain ⟨hs, hm, _⟩ := combine_bcs_spec bcs ui uv h
  obtain ⟨hs', hm', _⟩ := combine_bcs_spec bcs' ui' uv' h'
  refine List.Pairwise.eq_of_mem_iff hs hs' (fun i => ?_)
  rw [hm, hm']
  constructor
  · rintro ⟨bc, hb, hi⟩; exact ⟨bc, hp.mem_iff.mp hb, hi⟩
  · rintro ⟨bc, hb, hi⟩; exact ⟨bc, hp.mem_iff.mpr hb, hi⟩

example : combineBcs [([4, 1], [40, 10]), ([2, 1], [20, 11])] = .ok ([1, 2, 4], [10, 20, 40]) ∧
    combineBcs [([2, 1], [20, 11]), ([4, 1], [40, 10])] = .ok ([1, 2, 4], [11, 20, 40]) := by
  decide

/-- ★ **conditions on pairwise disjoint dof sets** (no dof is listed twice at all, e.g. opposite faces of a
patch): the whole result of `combine_bcs` — indices *and* values — is independent of the order in which the
conditions are listed.  (With shared dofs only the indices are; see the `example` above.) -/
theorem combine_bcs_disjoint_order_independent (bcs bcs' : List (List Nat × List β)) (hp : bcs.Perm bcs')
    (hlen : ∀ bc ∈ bcs, bc.1.length = bc.2.length) (hnd : (bcs.flatMap (·.1)).Nodup)
    (ui ui' : List Nat) (uv uv' : List β)
    (h : combineBcs bcs = .ok (ui, uv)) (h' : combineBcs bcs' = .ok (ui', uv')) : ui = ui' ∧ uv = uv' := by
  have hui := combine_bcs_indices_order_independent bcs bcs' hp ui ui' uv uv' h h'
  refine ⟨hui, ?_⟩
  have hlen' : ∀ bc ∈ bcs', bc.1.length = bc.2.length := fun bc hb => hlen bc (hp.mem_iff.mpr hb)
  have hnd' : (bcs'.flatMap (·.1)).Nodup := (hp.flatMap_right _).nodup_iff.mp hnd
  obtain ⟨_, e1, e2⟩ := combineBcs_inv h
  obtain ⟨_, e1', e2'⟩ := combineBcs_inv h'
  have hpp : (pairsOf bcs).Perm (pairsOf bcs') := hp.flatMap_right _
  rw [e2, e2']
  unfold uniqueIndex
  rw [List.map_map, List.map_map, ← e1, ← e1', ← hui]
  apply List.map_congr_left
  intro i hi
  have hi1 : i ∈ bcs.flatMap (·.1) := mem_unique.mp (e1 ▸ hi)
  rw [← pairsOf_fst bcs hlen] at hi1
  obtain ⟨⟨i', v⟩, hm, hiv⟩ := List.mem_map.mp hi1
  simp only at hiv
  subst hiv
  have a := lookup_of_nodup (pairsOf bcs) (by rw [pairsOf_fst bcs hlen]; exact hnd) i' v hm
  have b := lookup_of_nodup (pairsOf bcs') (by rw [pairsOf_fst bcs' hlen']; exact hnd') i' v (hpp.mem_iff.mp hm)
  rw [pairsOf_fst bcs hlen, pairsOf_snd bcs hlen] at a
  rw [pairsOf_fst bcs' hlen', pairsOf_snd bcs' hlen'] at b
  simp only [Function.comp]
  rw [a, b]

example : combineBcs [([4, 1], [40, 10]), ([2, 0], [20, 5])] = .ok ([0, 1, 2, 4], [5, 10, 20, 40]) ∧
    combineBcs [([2, 0], [20, 5]), ([4, 1], [40, 10])] = .ok ([0, 1, 2, 4], [5, 10, 20, 40]) ∧
    ([([4, 1], [40, 10]), ([2, 0], [20, 5])] : List (List Nat × List Nat)).flatMap (·.1) = [4, 1, 2, 0] := by
  decide

end combine

/-- ★ blocked vector numbering `i + comp·N` (`bdindices + j*NN` in `compute_dirichlet_bc`) is
injective for `i < N`: different components never share a dof. -/
theorem blocked_numbering_injective {N i i' j j' : Nat} (hi : i < N) (hi' : i' < N)
    (h : i + j * N = i' + j' * N) : j = j' ∧ i = i' := blocked_inj hi hi' h

example : combineBcs [([5, 2, 7], [50, 20, 70]), ([2, 9, 5], [(21 : Int), 90, 51])] =
    .ok ([2, 5, 7, 9], [20, 50, 70, 90]) := rfl
example : combineBcs [([5, 2], [(50 : Int)])] = .error .assertion := rfl

/-! ## several conditions at once -/

/-- ★ `compute_dirichlet_bcs` (several faces, incl. the `'all'` shorthand): every dof occurs
exactly once in the result (indices strictly increasing) with one value. -/
theorem dirichlet_bcs_once {β : Type} (N : List Nat)
    (conds : List (BdSpec × Option Nat × List (Option β))) (ui : List Nat) (uv : List (Option β))
    (h : dirichletBcs N conds = .ok (ui, uv)) : ui.Pairwise (· < ·) ∧ uv.length = ui.length := by
  unfold dirichletBcs at h
  cases hm : conds.mapM (fun (x : BdSpec × Option Nat × List (Option β)) => dirichletBc N x.1 x.2.1 x.2.2) with
  | error e => simp [hm, bind, Except.bind] at h
  | ok bcs =>
    simp only [hm, bind, Except.bind] at h
    exact ⟨(combine_bcs_spec bcs ui uv h).1, (combine_bcs_spec bcs ui uv h).2.2⟩

/-- ★ `Multipatch.compute_dirichlet_bcs` (glued numbering): every global dof occurs exactly once. -/
theorem multipatch_bcs_once {β : Type} (Ns p2g : List (List Nat))
    (conds : List (Nat × BdSpec × Option Nat × List (Option β))) (ui : List Nat) (uv : List (Option β))
    (h : mpDirichletBcs Ns p2g conds = .ok (ui, uv)) : ui.Pairwise (· < ·) ∧ uv.length = ui.length := by
  unfold mpDirichletBcs at h
  generalize hm : List.mapM (m := Except Err) _ conds = r at h
  cases r with
  | error e => simp [bind, Except.bind] at h
  | ok bcs =>
    simp only [bind, Except.bind] at h
    exact ⟨(combine_bcs_spec bcs ui uv h).1, (combine_bcs_spec bcs ui uv h).2.2⟩

/-- ★ `_drop_nans` keeps exactly the positions whose value is not NaN (`none`), in their order,
and keeps the index and the value of a position together (`ks` is the list of kept positions). -/
theorem drop_nans_spec {β : Type} (idx : List Nat) (vals : List (Option β)) (h : idx.length = vals.length) :
    ∃ ks : List Nat, ks.Sublist (List.range vals.length) ∧
      (∀ k, k ∈ ks ↔ k < vals.length ∧ (vals.getD k none).isSome) ∧
      (dropNans idx vals).1 = ks.map (fun k => idx.getD k 0) ∧
      (dropNans idx vals).2 = ks.map (fun k => vals.getD k none) := dropNans_spec idx vals h

example : dropNans [4, 7, 9] [some (1 : Int), none, some 3] = ([4, 9], [some 1, some 3]) := by decide

/-! ## boundary dofs: faces of the tensor-product index set -/

section faces
open Pyiga.Slice Pyiga.Index

/-- ★ **`boundary_dofs_spec`** (unflipped face, any number of axes, any sizes).  For a valid axis
`ax` of extent `n` and `i < n`, `slice_indices(ax, i, shape)` lists exactly the multi-indices `I`
with all digits in range (`Below I shape`) and `I[ax] = i`, each exactly once; raveled, the list
is strictly increasing (= row-major order of the remaining axes, and no dof twice) and its
members are exactly the mixed-radix numbers `to_seq I shape` of those multi-indices. -/
theorem boundary_dofs_spec (shape : List Nat) (ax i n : Nat) (hax : shape[ax]? = some n) (hi : i < n) :
    (sliceMulti ax i shape none).Nodup ∧
    (∀ I, I ∈ sliceMulti ax i shape none ↔ Below I shape ∧ I[ax]? = some i) ∧
    (sliceRavel ax i shape none).Pairwise (· < ·) ∧
    (∀ v, v ∈ sliceRavel ax i shape none ↔ ∃ I, Below I shape ∧ I[ax]? = some i ∧ toSeq I shape = v) := by
  have hF : Factors ((shape.map List.range).set ax [i]) shape :=
    factors_set _ _ ax i (factors_range shape) (fun m hm => by
      have : m = n := by rw [hax] at hm; exact (Option.some.inj hm).symm
      omega)
  have hpw : (sliceRavel ax i shape none).Pairwise (· < ·) := product_toSeq_pairwise _ _ hF
  have hmem : ∀ I, I ∈ sliceMulti ax i shape none ↔ Below I shape ∧ I[ax]? = some i := fun I => by
    unfold sliceMulti axDofs
    rw [mem_product, picks_face shape ax i I n hax hi]
  refine ⟨?_, hmem, hpw, fun v => ?_⟩
  · have hnd : (sliceRavel ax i shape none).Nodup := hpw.imp (fun h => Nat.ne_of_lt h)
    exact List.Nodup.of_map _ hnd
  · unfold sliceRavel
    rw [List.mem_map]
    constructor
    · rintro ⟨I, hI, rfl⟩
      exact ⟨I, ((hmem I).1 hI).1, ((hmem I).1 hI).2, rfl⟩
    · rintro ⟨I, hb, hax', rfl⟩
      exact ⟨I, (hmem I).2 ⟨hb, hax'⟩, rfl⟩

/-- ★ the face has `∏_{k ≠ ax} shape[k]` dofs, flipped or not. -/
theorem boundary_dofs_count (shape : List Nat) (ax i : Nat) (hax : ax < shape.length)
    (flip : Option (List Bool)) :
    (sliceMulti ax i shape flip).length = prod (shape.eraseIdx ax) ∧
    (sliceRavel ax i shape flip).length = prod (shape.eraseIdx ax) := by
  have h0 : (sliceMulti ax i shape none).length = prod (shape.eraseIdx ax) := by
    unfold sliceMulti axDofs
    rw [length_product, prod_face shape ax i hax]
  cases flip with
  | none => exact ⟨h0, by simp [sliceRavel, h0]⟩
  | some fl =>
    have h1 : (sliceMulti ax i shape (some fl)).length = prod (shape.eraseIdx ax) := by
      rw [sliceMulti_flip, List.length_map, h0]
    exact ⟨h1, by simp [sliceRavel, h1]⟩

/-- ★ **flip law**: the `k`-th dof of the flipped face is the `k`-th dof of the unflipped face
with the coordinate of every flipped axis `j` replaced by `shape[j]-1-c` (axis `ax` is never
flipped).  (`Pyiga.Slice.sliceMulti_flip`; this is what `join_boundaries` relies on, C14.) -/
theorem boundary_dofs_flip (shape : List Nat) (ax i : Nat) (fl : List Bool) :
    sliceMulti ax i shape (some fl) =
      (sliceMulti ax i shape none).map (flipCoords shape (insertFalse ax fl)) ∧
    sliceRavel ax i shape (some fl) =
      (sliceMulti ax i shape none).map (fun I => toSeq (flipCoords shape (insertFalse ax fl) I) shape) := by
  refine ⟨sliceMulti_flip ax i shape fl, ?_⟩
  unfold sliceRavel
  rw [sliceMulti_flip, List.map_map]
  rfl

/-- `boundary_dofs(kvs, (bdax, side), ravel=True, flip)` is the face `0` (side 0) resp. `n-1`
(side 1, `idx = -1` wrapped) of the dof-count tuple whenever the axis is non-empty. -/
theorem boundary_dofs_face (N : List Nat) (bdax side n : Nat) (h : N[bdax]? = some n) (hn : 0 < n) :
    boundaryDofs N bdax side none = .ok (sliceRavel bdax (if side = 0 then 0 else n - 1) N none) :=
  boundaryDofs_eq N bdax side n none h hn (fun _ hfl => by cases hfl)

example : sliceRavel 1 2 [2, 3, 2] none = [4, 5, 10, 11] := by decide
example : sliceMulti 1 2 [2, 3, 2] (some [true, false]) = [[1,2,0],[1,2,1],[0,2,0],[0,2,1]] := by decide
example : boundaryDofs [2, 3, 2] 1 1 (some [false, true]) = .ok [5, 4, 11, 10] := by decide

end faces

/-! ## compute_initial_condition_01 -/

/-- ★ **`initial_condition_01`** (over any field).  When `compute_initial_condition_01` returns
`(indices, values)`, the indices are the two dof slices next to the face
(`slice_indices(ax, first)` followed by `slice_indices(ax, first+1)`, `first = 0` resp. `-2`),
the values are the coefficient rows `x0 ++ x1` of those slices, and for every face dof `k`
`a·x0[k] + b·x1[k] = c0[k]` and `c·x0[k] + d·x1[k] = c1[k]`: with `[[a,b],[c,d]]` the values and
first derivatives of the two end basis functions on the face (the collocation contract: no other
basis function has a non-zero value or first derivative there), the returned coefficients
reproduce the interpolants of the prescribed value `g0` and time derivative `g1`. -/
theorem initial_condition_01 {α : Type} [Field α] [DecidableEq α] (N : List Nat) (bd : BdSpec)
    (a b c d : α) (c0 c1 : List α) (idx : List Nat) (vals : List α)
    (h : initialCondition01 N bd a b c d c0 c1 = .ok (idx, vals)) :
    ∃ ax side s0 s1 x0 x1, parseBdspec bd N.length = .ok (ax, side) ∧
      Pyiga.Slice.sliceIndices ax (if side = 0 then 0 else -2) N none = .ok s0 ∧
      Pyiga.Slice.sliceIndices ax ((if side = 0 then 0 else -2) + 1) N none = .ok s1 ∧
      idx = s0 ++ s1 ∧ vals = x0 ++ x1 ∧ a * d - b * c ≠ 0 ∧
      x0.length = c0.length ∧ x1.length = c0.length ∧
      ∀ k, k < c0.length → a * x0.getD k 0 + b * x1.getD k 0 = c0.getD k 0 ∧
        c * x0.getD k 0 + d * x1.getD k 0 = c1.getD k 0 := by
  obtain ⟨ax, side, s0, s1, x0, x1, hp, hlen, hs, h0, h1, rfl, rfl⟩ := initialCondition01_inv h
  obtain ⟨hdet, hx0, hx1, hk⟩ := solve2_spec hlen hs
  exact ⟨ax, side, s0, s1, x0, x1, hp, h0, h1, rfl, rfl, hdet, hx0, hx1, hk⟩

/-- non-vacuity (degree-2 time axis with 2 spans at the start face: `N₀(0)=1, N₀'(0)=-4, N₁'(0)=4`) -/
example : initialCondition01 [4, 3] (.pair 0 0) (1 : Rat) 0 (-4) 4 [1, 2, 3] [4, 8, 12] =
    .ok ([0, 1, 2, 3, 4, 5], [1, 2, 3, 2, 4, 6]) := by decide +kernel

/-! ### non-vacuity: the D5 witness `idx = [3,1]`, `vals = [30,10]` on a 5 × 5 integer system -/

def exA : List (List Int) :=
  [[10,1,2,3,4],[5,16,7,8,9],[10,11,22,13,14],[15,16,17,28,19],[20,21,22,23,34]]
def exB : List Int := [0,1,2,3,4]
def exSys : Sys Int :=
  { m := 5, n := 5, rfree := [0,2,4], relim := [1,3], rfreeV := [0,2,4], relimV := [1,3],
    values := [10,30], A := [[10,2,4],[10,22,14],[20,22,34]], b := [-100,-498,-896] }

example : Sys.build 5 5 exA (.array exB) false [3,1] (.array [30,10]) none = .ok exSys := rfl
example : exSys.complete [1,2,3] = [1,10,2,30,3] := by decide
/-- a solvable instance: `b := A·[1,10,2,30,3]`; the restricted system is solved by `[1,2,3]` and the
hypotheses of `complete_spec` hold. -/
example : ∃ S, Sys.build 5 5 exA (.array [126,446,596,1106,1066]) true [3,1] (.array [30,10]) none = .ok S ∧
    matVec S.rfree.length S.A [1,2,3] = S.b ∧ S.complete [1,2,3] = [1,10,2,30,3] := by
  refine ⟨_, rfl, ?_, ?_⟩ <;> decide
example : Sys.build 5 5 exA (.array exB) true [3,1,3] (.array [30,10,5]) none = .error .value := rfl
example : Sys.build 5 5 exA (.array exB) true [3,5] (.array [30,10]) none = .error .index := rfl
example : Sys.build 3 5 (exA.take 3) (.scalar 2) true [3,1] (.scalar 7) (some [2]) =
    .ok { m := 3, n := 5, rfree := [0,2,4], relim := [1,3], rfreeV := [0,1], relimV := [2], values := [7,7],
          A := [[10,2,4],[5,7,9]], b := [-26,-166] } := rfl

end Pyiga.Props.C10
