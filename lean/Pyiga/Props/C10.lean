/-
Property C10 — eliminating Dirichlet dofs is algebraically exact for any index set.
Property theorems only (helper lemmas live in Proofs/).
-/
import Pyiga.Proofs.Restrict
import Pyiga.Proofs.Slice

namespace Pyiga.Props.C10

end Pyiga.Props.C10
