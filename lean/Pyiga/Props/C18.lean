/-
Property C18 — low-rank tensor formats are faithful to the full tensor they represent.
Property theorems only (helper lemmas live in Proofs/Tensor*.lean).

`asarray : Ten α → Full α` expands any tensor object (ndarray, CanonicalTensor, TuckerTensor,
TensorSum, TensorProd — arbitrarily nested) to its full tensor: a shape and an entry function
that is `0` outside the index box, so `=` between full tensors is equality of all entries.
All statements are over an arbitrary commutative ring `α` (resp. field for ACA), for every
order, shape, rank (rank 0 and singleton axes included) and every nesting depth.
-/
import Pyiga.Proofs.TensorPad
import Pyiga.Proofs.TensorOperator
import Pyiga.Proofs.TensorGen
import Pyiga.Proofs.TensorT2C
import Pyiga.Proofs.TensorGreedy
import Pyiga.Proofs.TensorGetitemT
import Pyiga.Proofs.TensorTrunc
import Pyiga.Proofs.TensorTruncate
import Pyiga.Proofs.TensorGetitemAll
import Mathlib.Tactic.NormNum
import Mathlib.Tactic.FieldSimp

set_option linter.unusedSectionVars false
set_option linter.unusedSimpArgs false
set_option linter.unusedVariables false

namespace Pyiga.Props.C18
open Pyiga.Index Pyiga.Tensor

section Ring
variable {α : Type} [CommRing α]

/-! ## one lemma per operation: the operation commutes with `asarray` -/

/-- `asarray(-T) = -asarray(T)` for every tensor class (first factor / core / every term /
first factor of a product negated, as the code does). -/
theorem faithful_neg (T T' : Ten α) (hw : T.WF) (h : T.neg = .ok T') :
    T'.asarray = T.asarray.neg ∧ T'.WF := by
  obtain ⟨hw', hs, he⟩ := neg_spec T T' hw h
  refine ⟨?_, hw'⟩
  simp only [Ten.asarray, Full.neg, ofFn_shape, hs]
  exact ofFn_congr _ _ _ (fun I hI => by rw [he I hI, ofFn_get _ _ _ hI])

/-- `asarray(T1 + T2) = asarray(T1) + asarray(T2)` whenever the library accepts the pair:
Canonical+Canonical (`hstack`), Tucker+Tucker (`join_tucker_bases`), Canonical+Tucker and
Tucker+Canonical (through `TuckerTensor.from_tensor`), either + ndarray, TensorSum + anything,
TensorProd + anything, ndarray + ndarray. -/
theorem faithful_add (T1 T2 T' : Ten α) (w1 : T1.WF) (w2 : T2.WF) (h : T1.add T2 = .ok T') :
    T1.asarray.add T2.asarray = .ok T'.asarray ∧ T'.WF := by
  obtain ⟨hw, hs, hs2, he⟩ := add_spec T1 T2 T' w1 w2 h
  refine ⟨?_, hw⟩
  simp only [Full.add, Ten.asarray, ofFn_shape, hs2, if_true, hs]
  congr 1
  exact ofFn_congr _ _ _ (fun I hI => by
    rw [he I hI, ofFn_get _ _ _ hI, ofFn_get _ _ _ hI])

/-- `asarray(T1 - T2) = asarray(T1) - asarray(T2)` (Tucker−Tucker in the joint basis, all other
pairs as `T1 + (-T2)`). -/
theorem faithful_sub (T1 T2 T' : Ten α) (w1 : T1.WF) (w2 : T2.WF) (h : T1.sub T2 = .ok T') :
    T1.asarray.sub T2.asarray = .ok T'.asarray ∧ T'.WF := by
  obtain ⟨hw, hs, hs2, he⟩ := sub_spec T1 T2 T' w1 w2 h
  refine ⟨?_, hw⟩
  simp only [Full.sub, Ten.asarray, ofFn_shape, hs2, if_true, hs]
  congr 1
  exact ofFn_congr _ _ _ (fun I hI => by
    rw [he I hI, ofFn_get _ _ _ hI, ofFn_get _ _ _ hI])

/-- `join_tucker_bases(T1, T2)` (its docstring): in the concatenated basis with the zero-padded
cores, the sum / difference of the cores represents `T1 ± T2`. -/
theorem join_tucker_bases_spec (sub : Bool) (U1 U2 : List (Mat α)) (C1 C2 : Full α) (T' : Ten α)
    (h1 : (Ten.tucker U1 C1).WF) (h2 : (Ten.tucker U2 C2).WF)
    (hs : (Ten.tucker U1 C1).shape = (Ten.tucker U2 C2).shape)
    (h : tuckerJoin sub U1 C1 U2 C2 = .ok T') (I : List Nat) (hI : inBox I (Ten.tucker U1 C1).shape = true) :
    T'.entry I = if sub then (Ten.tucker U1 C1).entry I - (Ten.tucker U2 C2).entry I
                 else (Ten.tucker U1 C1).entry I + (Ten.tucker U2 C2).entry I :=
  (tuckerJoin_spec sub U1 U2 C1 C2 T' h1 h2 hs h).2.2 I hI

/-- `TuckerTensor.from_tensor(CanonicalTensor)`: identity core, same full tensor, for every order ≥ 1
(order 1 since fix 9307d65; before it the code raised, see `from_tensor_order1_raises`). -/
theorem faithful_can_to_tucker (Xs : List (Mat α)) (T : Ten α) (hw : (Ten.can Xs).WF)
    (h : tuckerFromTensor (.can Xs) = .ok T) : T.asarray = (Ten.can Xs).asarray ∧ T.WF := by
  obtain ⟨C, rfl, hC, he⟩ := canToTucker_spec Xs T hw h
  refine ⟨?_, hC⟩
  simp only [Ten.asarray, Ten.shape]
  exact ofFn_congr _ _ _ (fun I hI => by
    simp only [Ten.entry]
    exact he I (by have := inBox_length hI; simpa using this))

/-- negation witness for the repaired finding `tucker-from-order1` (fix 9307d65): as coded before,
the conversion of every order-1 canonical tensor raised `ValueError` (np.fill_diagonal needs 2 axes). -/
theorem from_tensor_order1_raises (X : Mat α) : tuckerFromCanAsCoded [X] = .error .value := rfl

/-- negation witness for the repaired finding `squeeze-negative-axis` (fix 303a07a): as coded before,
`CanonicalTensor.squeeze(axis=-1)` on the shape-(2,1) tensor with factors `[[1],[1]]`, `[[2]]` kept both
axes and multiplied the singleton factor in twice (entry 4 instead of 2); the repaired code drops the axis. -/
theorem squeeze_negative_axis_asCoded_wrong :
    (match canSqueeze [Mat.ones 2 1, (⟨1, 1, fun _ _ => (2 : Int)⟩ : Mat Int)] (some [-1]) true with
      | .ok (.t T) => (T.shape, T.entry [0, 0]) | _ => ([], 0)) = ([2, 1], 4) ∧
    (match canSqueeze [Mat.ones 2 1, (⟨1, 1, fun _ _ => (2 : Int)⟩ : Mat Int)] (some [-1]) false with
      | .ok (.t T) => (T.shape, T.entry [0]) | _ => ([], 0)) = ([2], 2) := by decide

/-- negation witness for the repaired finding `pad-empty-axis` (fix 5dd70f0): as coded before, padding an
ndarray along an empty axis raised `ValueError`; now it returns the zero tensor of the padded shape. -/
theorem pad_empty_axis_asCoded_raises :
    (match (Ten.full (Full.ofFn [0, 2] (fun _ => (0 : Int)))).pad [some (0, 1), some (1, 0)] true with
      | .error e => some e | .ok _ => none) = some Err.value ∧
    (match (Ten.full (Full.ofFn [0, 2] (fun _ => (0 : Int)))).pad [some (0, 1), some (1, 0)] false with
      | .ok T => T.shape | .error _ => []) = [1, 3] := by decide

/-- `CanonicalTensor.from_tensor(TuckerTensor)`: one rank-one term per non-zero core entry (exact zeros only,
fix D17) — or the rank-0 tensor when the core vanishes — has the same expansion. -/
theorem faithful_tucker_to_can [DecidableEq α] (Us : List (Mat α)) (X : Full α) (T : Ten α)
    (hw : (Ten.tucker Us X).WF) (h : canFromTensor (.tucker Us X) = .ok T) :
    T.asarray = (Ten.tucker Us X).asarray ∧ T.WF := by
  obtain ⟨hw', hs, he⟩ := t2c_spec Us X T hw h
  refine ⟨?_, hw'⟩
  simp only [Ten.asarray, hs]
  exact ofFn_congr _ _ _ (fun I hI => by
    simp only [Ten.entry]
    exact he I (by have := inBox_length hI; simpa using this))

/-- expanding an expanded tensor changes nothing (`asarray` is idempotent) -/
theorem asarray_idem (T : Ten α) : (Ten.full T.asarray).asarray = T.asarray := by
  simp only [Ten.asarray, Ten.shape, ofFn_shape, Ten.entry]
  exact ofFn_get_self _ _

/-- `TensorSum(*Xs)`: the expansion is the entrywise sum of the expansions -/
theorem entrySum_eq : ∀ (Xs : List (Ten α)) (s : List Nat) (I : List Nat), AllShape s Xs → inBox I s = true →
    entrySum Xs I = sumL (Xs.map (fun X => X.asarray.get I))
  | [], _, _, _, _ => rfl
  | X :: Xs, s, I, h, hI => by
    simp only [entrySum, List.map_cons, sumL_cons]
    rw [entrySum_eq Xs s I h.2 hI]
    congr 1
    simp only [Ten.asarray]
    rw [ofFn_get _ _ _ (by rw [h.1]; exact hI)]

/-- sum of full tensors of one shape -/
def sumFull : List (Full α) → Except Err (Full α)
  | [] => .error .assertion
  | A :: As => if (A :: As).all (fun B => B.shape = A.shape) then
      .ok (Full.ofFn A.shape (fun I => sumL ((A :: As).map (fun B => B.get I)))) else .error .assertion

theorem allShape_asarray (s : List Nat) : ∀ (Xr : List (Ten α)), AllShape s Xr →
    (Xr.map Ten.asarray).all (fun B => B.shape = s) = true
  | [], _ => rfl
  | X :: Xr, h => by
    simp only [List.map_cons, List.all_cons, Bool.and_eq_true, decide_eq_true_eq]
    exact ⟨h.1, allShape_asarray s Xr h.2⟩

theorem faithful_tsum (Xs : List (Ten α)) (T : Ten α) (hw : WFList Xs) (h : mkSum Xs = .ok T) :
    sumFull (Xs.map Ten.asarray) = .ok T.asarray ∧ T.WF := by
  obtain ⟨X, Xr, rfl, rfl, hall⟩ := mkSum_ok Xs T h
  refine ⟨?_, by simp, hw, hall⟩
  have hX : X.asarray.shape = X.shape := rfl
  have h1 : sumFull ((X :: Xr).map Ten.asarray) =
      .ok (Full.ofFn X.shape (fun I => sumL (((X :: Xr).map Ten.asarray).map (fun B => B.get I)))) := by
    simp only [List.map_cons, sumFull]
    rw [if_pos (by
      have := allShape_asarray X.shape (X :: Xr) hall
      simpa [hX] using this)]
    rfl
  rw [h1]
  congr 1
  have h2 : (Ten.sum X.shape (X :: Xr)).asarray = Full.ofFn X.shape (entrySum (X :: Xr)) := rfl
  rw [h2]
  refine ofFn_congr _ _ _ (fun I hI => ?_)
  rw [entrySum_eq (X :: Xr) X.shape I hall hI, List.map_map]
  rfl

/-- `apply_tprod(ops, T)` (`nway_prod`; `None` = identity, fewer operators than axes allowed) for an
ndarray, Canonical or Tucker operand is the multi-mode product of the expansion. -/
theorem faithful_nway_leaf (T T' : Ten α) (ops : List (Option (Mat α))) (hw : T.WF) (hleaf : T.isLeaf)
    (h : T.nway false ops = .ok T') : T.asarray.nway ops = .ok T'.asarray ∧ T'.WF ∧ T'.isLeaf := by
  obtain ⟨hw', hleaf', hsh, he⟩ := nway_leaf_spec T T' ops hw hleaf h
  refine ⟨?_, hw', hleaf'⟩
  simp only [Full.nway]
  have : nwayShape ops T.asarray.shape = some T'.shape := hsh
  rw [this]
  show Except.ok (Full.ofFn T'.shape (fun I => nwayEntry ops I T.asarray.get)) = Except.ok (Full.ofFn T'.shape T'.entry)
  rw [ofFn_congr _ _ _ (fun I hI => (he I hI).symm)]

/-- `pad(T, pad_width)` (`None` = `(0,0)`) for an ndarray, Canonical or Tucker operand is `np.pad` of the
expansion. -/
theorem faithful_pad_leaf (T T' : Ten α) (pw : List (Option (Nat × Nat))) (hw : T.WF) (hleaf : T.isLeaf)
    (h : T.pad pw = .ok T') : T.asarray.pad (padWidths pw) = .ok T'.asarray ∧ T'.WF ∧ T'.isLeaf := by
  obtain ⟨hw', hleaf', e⟩ := pad_leaf_spec T T' pw hw hleaf h
  exact ⟨e, hw', hleaf'⟩

/-- decidable form of `Ten.isLeaf` -/
def leafB : Ten α → Bool
  | .full _ => true
  | .can _ => true
  | .tucker _ _ => true
  | _ => false

theorem leafB_isLeaf (T : Ten α) (h : leafB T = true) : T.isLeaf := by
  cases T <;> simp [leafB, Ten.isLeaf] at h ⊢

/-! ## index expressions: `_normalize_indices`, `__getitem__`, `squeeze` -/

/-- **Python slice semantics**: `range(n)[slice(a, b, c)]` raises `ValueError` for step 0 and is otherwise the
arithmetic progression `range(*slice(a, b, c).indices(n))`: start `pyStart`, step `c`, `pyCount` terms, where
`pyStart/pyStop` wrap negative bounds once, clamp to `[0, n]` (`[-1, n-1]` for negative steps) and default to the
ends.  (Transliteration of CPython's `PySlice_AdjustIndices`; `None` = missing.) -/
theorem slice_semantics (n : Nat) (a b c : Option Int) :
    sliceRange n a b c = if c.getD 1 = 0 then .error .value else
      .ok ((List.range (pyCount (pyStart n (c.getD 1) a) (pyStop n (c.getD 1) b) (c.getD 1))).map
        (fun (k : Nat) => (pyStart n (c.getD 1) a + Int.ofNat k * c.getD 1).toNat)) := sliceRange_eq n a b c

/-- the terms of that progression are exactly inside the adjusted bounds: for a positive step
`start ≤ x < stop`, for a negative step `stop < x ≤ start` -/
theorem slice_terms_between (s e st : Int) (k : Nat) (hst : st ≠ 0) (hk : k < pyCount s e st) :
    (st < 0 → e < s + (k : Int) * st ∧ s + (k : Int) * st ≤ s) ∧
    (¬ st < 0 → s ≤ s + (k : Int) * st ∧ s + (k : Int) * st < e) := progression_between s e st k hst hk

/-- **`_normalize_indices` spec**: on success the tuple is not longer than the number of axes (missing trailing axes
are full slices), every selected position — from an int (negative wraps), a slice (any step) or an index list — lies
inside its axis, `shape_new` lists the selection lengths, and `singleton` is the strictly increasing list of the
int-indexed axes, each selecting exactly one position. -/
theorem normalize_indices_spec (I : List PyIndex) (s : List Nat) (nm : NormIdx) (h : normalizeIndices I s = .ok nm) :
    I.length ≤ s.length ∧ IdxOK nm.idx s ∧ nm.shape = nm.idx.map List.length ∧ StrictFrom 0 nm.singl ∧
      ∀ j ∈ nm.singl, j < s.length ∧ (nm.idx.map List.length).getD j 0 = 1 := normalizeIndices_ok I s nm h

section GetItem

/-- **`T[I]` for Canonical and Tucker tensors**: row selection of the factor matrices followed by `squeeze` of the
int-indexed axes expands to the per-axis selection of the expansion with those axes removed — for every index
tuple (ints, negative ints, slices with steps, index lists, missing trailing axes); the scalar case (all ints)
returns the entry. -/
theorem faithful_getitem_leaf (T : Ten α) (hw : T.WF) (I : List PyIndex) (r : Res α)
    (hleaf : (∃ Xs, T = .can Xs) ∨ (∃ Us X, T = .tucker Us X)) (h : T.getitem I = .ok r) :
    ∃ nm, normalizeIndices I T.shape = .ok nm ∧ (T.asarray.take nm.idx).squeeze nm.singl = .ok r.asarray ∧
      (∀ T', r = .t T' → T'.WF ∧ T'.isLeaf) := by
  rcases hleaf with ⟨Xs, rfl⟩ | ⟨Us, X, rfl⟩
  · simp only [Ten.getitem] at h
    exact canGetitem_spec Xs hw I r h
  · simp only [Ten.getitem] at h
    exact tuckerGetitem_spec Us X hw I r h

/-- **`squeeze(axis)`** of Canonical and Tucker tensors (axis `None`, an int or a tuple, negative values allowed,
no repetitions): `np.squeeze` of the expansion — the singleton factors are multiplied into the first remaining
factor (Canonical) resp. contracted into the core (Tucker); squeezing every axis returns the single entry. -/
theorem faithful_squeeze_leaf (T : Ten α) (hw : T.WF) (axis : Option (List Int)) (r : Res α)
    (h : T.squeeze axis = .ok r) :
    ∃ pos : List Nat, squeezeAxes false T.shape axis = .ok (pos.map Int.ofNat) ∧
      (pos.Nodup → T.asarray.squeeze pos = .ok r.asarray ∧ (∀ T', r = .t T' → T'.WF ∧ T'.isLeaf)) := by
  cases T with
  | can Xs => exact canSqueeze_spec Xs hw axis r h
  | tucker Us X => exact tuckerSqueeze_spec Us X hw axis r h
  | full _ => simp [Ten.squeeze] at h
  | sum _ _ => simp [Ten.squeeze] at h
  | prod _ _ => simp [Ten.squeeze] at h

/-- a result of indexing as a tensor object (a scalar becomes a 0-dimensional array) -/
def resToTen : Res α → Ten α
  | .t T => T
  | .s a => .full (Full.ofFn [] (fun _ => a))

theorem resToTen_asarray (r : Res α) : (resToTen r).asarray = r.asarray := by
  cases r with
  | t T => rfl
  | s a =>
    simp only [resToTen, Res.asarray, Ten.asarray, Ten.shape, ofFn_shape, Ten.entry]
    exact ofFn_get_self _ _
end GetItem

/-- **`TuckerTensor.truncate(k)`**: slicing every factor matrix to its first `k_j` columns and the core to `X[:k]`
(Python slice clamping) expands to the Tucker tensor with the *same* factors whose core is zeroed outside the leading
box `k` (`Full.mask`).  Truncation is not an operation on the expansion (it depends on the representation), so it is
not a step of `faithful_seq_partial`; together with `truncation_budget` it says: with orthonormal factors the squared
truncation error is the squared norm of the zeroed core entries, which `find_truncation_rank` keeps ≤ tol². -/
theorem faithful_truncate (Us : List (Mat α)) (X : Full α) (k : List Nat) (T' : Ten α)
    (hw : (Ten.tucker Us X).WF) (h : (Ten.tucker Us X).truncate k = .ok T') :
    T'.WF ∧ T'.asarray = (Ten.tucker Us (X.mask k)).asarray := truncate_spec Us X k T' hw h

/-- **`apply_tprod(ops, T)` for every tensor object** (ndarray, Canonical, Tucker, TensorSum term by term,
TensorProd factor by factor, arbitrarily nested; at most one operator per axis): the multi-mode product of the
expansion. -/
theorem faithful_nway (T T' : Ten α) (ops : List (Option (Mat α))) (hw : T.WF) (hl : ops.length ≤ T.shape.length)
    (h : T.nway false ops = .ok T') : T.asarray.nway ops = .ok T'.asarray ∧ T'.WF := by
  obtain ⟨hw', hsh, he⟩ := nway_spec T T' ops hw hl h
  refine ⟨?_, hw'⟩
  simp only [Full.nway]
  have : nwayShape ops T.asarray.shape = some T'.shape := hsh
  rw [this]
  show Except.ok (Full.ofFn T'.shape (fun I => nwayEntry ops I T.asarray.get)) = Except.ok (Full.ofFn T'.shape T'.entry)
  rw [ofFn_congr _ _ _ (fun I hI => (he I hI).symm)]

/-- **`pad(T, pad_width)` for every tensor object**: `np.pad` of the expansion -/
theorem faithful_pad (T T' : Ten α) (pw : List (Option (Nat × Nat))) (hw : T.WF) (h : T.pad pw = .ok T') :
    T.asarray.pad (padWidths pw) = .ok T'.asarray ∧ T'.WF := by
  obtain ⟨hw', e⟩ := pad_spec T T' pw hw h
  exact ⟨e, hw'⟩

/-- **`T[I]` for ndarray, Canonical, Tucker and arbitrarily nested TensorSum objects** (linearity over the terms;
scalars are added when every term returns a scalar): per-axis selection of the expansion with the int axes squeezed.
TensorProd operands (index tuple split among the factors) are NOT covered, see `faithful_seq_full`. -/
theorem faithful_getitem (T : Ten α) (hw : T.WF) (hn : T.NoProd) (I : List PyIndex) (r : Res α)
    (h : T.getitem I = .ok r) :
    ∃ nm, normalizeIndices I T.shape = .ok nm ∧ (T.asarray.take nm.idx).squeeze nm.singl = .ok r.asarray ∧
      (∀ T', r = .t T' → T'.WF) := by
  obtain ⟨nm, a, b, c⟩ := getitem_spec T I r hw hn h
  exact ⟨nm, a, b, fun T' hT => (c T' hT).1⟩

mutual
/-- decidable form of `Ten.NoProd` -/
def noProdB : Ten α → Bool
  | .prod _ _ => false
  | .sum _ Xs => noProdListB Xs
  | _ => true
def noProdListB : List (Ten α) → Bool
  | [] => true
  | X :: Xs => noProdB X && noProdListB Xs
end

mutual
theorem noProdB_sound : ∀ (T : Ten α), noProdB T = true → T.NoProd
  | .full _, _ => trivial
  | .can _, _ => trivial
  | .tucker _ _, _ => trivial
  | .prod _ _, h => by simp [noProdB] at h
  | .sum _ Xs, h => by
    simp only [noProdB] at h
    exact noProdListB_sound Xs h
theorem noProdListB_sound : ∀ (Xs : List (Ten α)), noProdListB Xs = true → NoProdList Xs
  | [], _ => trivial
  | X :: Xs, h => by
    simp only [noProdListB, Bool.and_eq_true] at h
    exact ⟨noProdB_sound X h.1, noProdListB_sound Xs h.2⟩
end

/-! ## every operation sequence -/

/-- operations of the arithmetic fragment; operands are positions in the environment, a
successful result is appended to it -/
inductive SeqOp (α : Type) where
  | neg (a : Nat) | add (a b : Nat) | sub (a b : Nat) | tsum (refs : List Nat) | asarr (a : Nat) | c2t (a : Nat)
  | nway (a : Nat) (ops : List (Option (Mat α))) | pad (a : Nat) (pw : List (Option (Nat × Nat))) | t2c (a : Nat)
  | get (a : Nat) (I : List PyIndex) | squeeze (a : Nat)

/-- fetch operands by position -/
def getAll {β : Type} (env : List β) : List Nat → Option (List β)
  | [] => some []
  | r :: rs => match env[r]?, getAll env rs with
    | some x, some xs => some (x :: xs)
    | _, _ => none

/-- the operation on tensor objects (the library's code) -/
def stepT [DecidableEq α] (env : List (Ten α)) : SeqOp α → Option (Except Err (Ten α))
  | .neg a => (env[a]?).map Ten.neg
  | .add a b => do let A ← env[a]?; let B ← env[b]?; pure (A.add B)
  | .sub a b => do let A ← env[a]?; let B ← env[b]?; pure (A.sub B)
  | .tsum refs => (getAll env refs).map mkSum
  | .asarr a => (env[a]?).map (fun T => .ok (.full T.asarray))
  | .c2t a => do
      let A ← env[a]?
      match A with
      | .can Xs => pure (tuckerFromTensor (.can Xs))
      | _ => none
  | .nway a ops => do
      let A ← env[a]?
      if ops.length ≤ A.shape.length then pure (A.nway false ops) else none
  | .pad a pw => (env[a]?).map (fun A => A.pad pw)
  | .t2c a => do
      let A ← env[a]?
      match A with
      | .tucker Us X => pure (canFromTensor (.tucker Us X))
      | _ => none
  | .get a I => do
      let A ← env[a]?
      if noProdB A then pure ((A.getitem I).map resToTen) else none
  | .squeeze a => do
      let A ← env[a]?
      match A with
      | .can Xs => pure ((canSqueeze Xs none).map resToTen)
      | .tucker Us X => pure ((tuckerSqueeze Us X none).map resToTen)
      | _ => none

/-- the same operation on the expanded tensors (numpy) -/
def stepF (env : List (Full α)) : SeqOp α → Option (Except Err (Full α))
  | .neg a => (env[a]?).map (fun A => .ok A.neg)
  | .add a b => do let A ← env[a]?; let B ← env[b]?; pure (A.add B)
  | .sub a b => do let A ← env[a]?; let B ← env[b]?; pure (A.sub B)
  | .tsum refs => (getAll env refs).map sumFull
  | .asarr a => (env[a]?).map (fun A => .ok A)
  | .c2t a => (env[a]?).map (fun A => .ok A)
  | .nway a ops => (env[a]?).map (fun A => A.nway ops)
  | .pad a pw => (env[a]?).map (fun A => A.pad (padWidths pw))
  | .t2c a => (env[a]?).map (fun A => .ok A)
  | .get a I => (env[a]?).map (fun A => do let nm ← normalizeIndices I A.shape; (A.take nm.idx).squeeze nm.singl)
  | .squeeze a => (env[a]?).map (fun A => A.squeeze ((List.range A.shape.length).filter (fun i => A.shape.getD i 0 = 1)))

/-- run a sequence; `none` as soon as a step refers to a missing operand or raises -/
def runT [DecidableEq α] : List (Ten α) → List (SeqOp α) → Option (List (Ten α))
  | env, [] => some env
  | env, op :: ops => match stepT env op with
      | some (.ok T) => runT (env ++ [T]) ops
      | _ => none
def runF : List (Full α) → List (SeqOp α) → Option (List (Full α))
  | env, [] => some env
  | env, op :: ops => match stepF env op with
      | some (.ok T) => runF (env ++ [T]) ops
      | _ => none

theorem getAll_map (env : List (Ten α)) : ∀ (refs : List Nat) (Xs : List (Ten α)),
    getAll env refs = some Xs →
    getAll (env.map Ten.asarray) refs = some (Xs.map Ten.asarray) ∧ (∀ X ∈ Xs, X ∈ env)
  | [], Xs, h => by
    simp only [getAll] at h; injection h with h; subst h
    exact ⟨rfl, fun X hX => by simp at hX⟩
  | r :: refs, Xs, h => by
    simp only [getAll] at h
    split at h
    · rename_i x xs hx hxs
      injection h with h; subst h
      obtain ⟨ih, hm⟩ := getAll_map env refs xs hxs
      refine ⟨?_, ?_⟩
      · simp only [getAll, List.getElem?_map, hx, Option.map_some, ih, List.map_cons]
      · intro Y hY
        simp only [List.mem_cons] at hY
        rcases hY with rfl | hY
        · exact List.mem_of_getElem? hx
        · exact hm Y hY
    · cases h

theorem wfList_of_forall : ∀ (Xs : List (Ten α)), (∀ X ∈ Xs, X.WF) → WFList Xs
  | [], _ => trivial
  | X :: Xs, h => ⟨h X (by simp), wfList_of_forall Xs (fun Y hY => h Y (by simp [hY]))⟩

/-- one step: if the library's operation succeeds on tensor objects, the numpy operation on
their expansions succeeds with the expansion of the result -/
theorem step_faithful [DecidableEq α] (env : List (Ten α)) (hw : ∀ T ∈ env, T.WF) (op : SeqOp α) (T : Ten α)
    (h : stepT env op = some (.ok T)) :
    stepF (env.map Ten.asarray) op = some (.ok T.asarray) ∧ T.WF := by
  cases op with
  | neg a =>
    simp only [stepT, Option.map_eq_some_iff] at h
    obtain ⟨A, hA, h⟩ := h
    obtain ⟨e, w⟩ := faithful_neg A T (hw A (List.mem_of_getElem? hA)) h
    exact ⟨by simp [stepF, hA, e], w⟩
  | add a b =>
    simp only [stepT, Option.bind_eq_bind, Option.bind_eq_some_iff] at h
    obtain ⟨A, hA, B, hB, h⟩ := h
    simp at h
    obtain ⟨e, w⟩ := faithful_add A B T (hw A (List.mem_of_getElem? hA)) (hw B (List.mem_of_getElem? hB)) h
    exact ⟨by simp [stepF, hA, hB, e], w⟩
  | sub a b =>
    simp only [stepT, Option.bind_eq_bind, Option.bind_eq_some_iff] at h
    obtain ⟨A, hA, B, hB, h⟩ := h
    simp at h
    obtain ⟨e, w⟩ := faithful_sub A B T (hw A (List.mem_of_getElem? hA)) (hw B (List.mem_of_getElem? hB)) h
    exact ⟨by simp [stepF, hA, hB, e], w⟩
  | tsum refs =>
    simp only [stepT, Option.map_eq_some_iff] at h
    obtain ⟨Xs, hXs, h⟩ := h
    obtain ⟨hm, hmem⟩ := getAll_map env refs Xs hXs
    obtain ⟨e, w⟩ := faithful_tsum Xs T (wfList_of_forall Xs (fun X hX => hw X (hmem X hX))) h
    exact ⟨by simp [stepF, hm, e], w⟩
  | asarr a =>
    simp only [stepT, Option.map_eq_some_iff] at h
    obtain ⟨A, hA, h⟩ := h
    injection h with h; subst h
    exact ⟨by simp [stepF, hA, asarray_idem], trivial⟩
  | c2t a =>
    simp only [stepT, Option.bind_eq_bind, Option.bind_eq_some_iff] at h
    obtain ⟨A, hA, h⟩ := h
    cases A with
    | can Xs =>
      simp at h
      obtain ⟨e, w⟩ := faithful_can_to_tucker Xs T (hw _ (List.mem_of_getElem? hA)) h
      exact ⟨by simp [stepF, hA, e], w⟩
    | full _ => simp at h
    | tucker _ _ => simp at h
    | sum _ _ => simp at h
    | prod _ _ => simp at h
  | nway a ops =>
    simp only [stepT, Option.bind_eq_bind, Option.bind_eq_some_iff] at h
    obtain ⟨A, hA, h⟩ := h
    split at h
    · rename_i hl
      simp at h
      obtain ⟨e, w⟩ := faithful_nway A T ops (hw A (List.mem_of_getElem? hA)) hl h
      exact ⟨by simp [stepF, hA, e], w⟩
    · cases h
  | pad a pw =>
    simp only [stepT, Option.map_eq_some_iff] at h
    obtain ⟨A, hA, h⟩ := h
    obtain ⟨e, w⟩ := faithful_pad A T pw (hw A (List.mem_of_getElem? hA)) h
    exact ⟨by simp [stepF, hA, e], w⟩
  | t2c a =>
    simp only [stepT, Option.bind_eq_bind, Option.bind_eq_some_iff] at h
    obtain ⟨A, hA, h⟩ := h
    cases A with
    | tucker Us X =>
      simp at h
      obtain ⟨e, w⟩ := faithful_tucker_to_can Us X T (hw _ (List.mem_of_getElem? hA)) h
      exact ⟨by simp [stepF, hA, e], w⟩
    | full _ => simp at h
    | can _ => simp at h
    | sum _ _ => simp at h
    | prod _ _ => simp at h
  | get a I =>
    simp only [stepT, Option.bind_eq_bind, Option.bind_eq_some_iff] at h
    obtain ⟨A, hA, h⟩ := h
    have hwA := hw A (List.mem_of_getElem? hA)
    split at h
    · rename_i hnp
      simp only [Option.pure_def, Option.some.injEq] at h
      cases hr : A.getitem I with
      | error e => rw [hr] at h; cases h
      | ok r =>
        rw [hr] at h
        injection h with h
        subst h
        obtain ⟨nm, hnm, hsq, hwf⟩ := faithful_getitem A hwA (noProdB_sound A hnp) I r hr
        refine ⟨?_, ?_⟩
        · simp only [stepF, List.getElem?_map, hA, Option.map_some]
          have : normalizeIndices I A.asarray.shape = .ok nm := hnm
          rw [this]
          simp only [bind, Except.bind, hsq, resToTen_asarray]
        · cases r with
          | t T' => exact hwf T' rfl
          | s a => trivial
    · cases h
  | squeeze a =>
    simp only [stepT, Option.bind_eq_bind, Option.bind_eq_some_iff] at h
    obtain ⟨A, hA, h⟩ := h
    have hwA := hw A (List.mem_of_getElem? hA)
    have filt : ∀ (shape : List Nat),
        (∀ p ∈ (List.range shape.length).filter (fun i => shape.getD i 0 = 1), p < shape.length ∧ shape.getD p 0 = 1) ∧
        ((List.range shape.length).filter (fun i => shape.getD i 0 = 1)).Nodup := by
      intro shape
      refine ⟨fun p hp => ?_, List.Nodup.sublist List.filter_sublist List.nodup_range⟩
      simpa [List.mem_filter] using hp
    cases A with
    | can Xs =>
      simp only [Option.pure_def, Option.some.injEq] at h
      cases hr : canSqueeze Xs none with
      | error e => rw [hr] at h; cases h
      | ok r =>
        rw [hr] at h; injection h with h; subst h
        obtain ⟨hf1, hf2⟩ := filt (Xs.map (·.rows))
        obtain ⟨e, w⟩ := canSqueeze_core Xs hwA _ hf2 (fun p hp => by simpa using (hf1 p hp).1)
          (fun p hp => (hf1 p hp).2) none rfl r hr
        refine ⟨?_, ?_⟩
        · simp only [stepF, List.getElem?_map, hA, Option.map_some]
          have : (Ten.can Xs).asarray.shape = Xs.map (·.rows) := rfl
          rw [this, e, resToTen_asarray]
        · cases r with
          | t T' => exact (w T' rfl).1
          | s a => trivial
    | tucker Us X =>
      simp only [Option.pure_def, Option.some.injEq] at h
      cases hr : tuckerSqueeze Us X none with
      | error e => rw [hr] at h; cases h
      | ok r =>
        rw [hr] at h; injection h with h; subst h
        obtain ⟨hf1, hf2⟩ := filt (Us.map (·.rows))
        obtain ⟨e, w⟩ := tuckerSqueeze_core Us X hwA _ hf2 (fun p hp => by simpa using (hf1 p hp).1)
          (fun p hp => (hf1 p hp).2) none rfl r hr
        refine ⟨?_, ?_⟩
        · simp only [stepF, List.getElem?_map, hA, Option.map_some]
          have : (Ten.tucker Us X).asarray.shape = Us.map (·.rows) := rfl
          rw [this, e, resToTen_asarray]
        · cases r with
          | t T' => exact (w T' rfl).1
          | s a => trivial
    | full _ => simp at h
    | sum _ _ => simp at h
    | prod _ _ => simp at h

/-- **faithfulness for every operation sequence** of the arithmetic fragment
(`neg`, `+`, `-`, `TensorSum(...)`, `asarray`, Canonical→Tucker and Tucker→Canonical conversion on all five tensor (`getitem` with every index kind on every object without TensorProd nodes, `squeeze()` on Canonical/Tucker)
classes arbitrarily nested, mixed formats, any order/shape/rank; `apply_tprod` and `pad` on every tensor object): running the library's
operations on tensor objects and expanding at the end equals running numpy's operations on
the expansions, for sequences of any length.  The remaining operations of the model
(getitem/squeeze/truncate, apply_tprod/pad on TensorSum/TensorProd) are tied by the correspondence
stream and the numpy oracle; their sequence theorem is `faithful_seq_full` below (statement). -/
theorem faithful_seq_partial [DecidableEq α] : ∀ (ops : List (SeqOp α)) (env env' : List (Ten α)), (∀ T ∈ env, T.WF) →
    runT env ops = some env' →
    runF (env.map Ten.asarray) ops = some (env'.map Ten.asarray) ∧ ∀ T ∈ env', T.WF
  | [], env, env', hw, h => by
    simp only [runT] at h; injection h with h; subst h
    exact ⟨rfl, hw⟩
  | op :: ops, env, env', hw, h => by
    simp only [runT] at h
    split at h
    · rename_i T hT
      obtain ⟨e, w⟩ := step_faithful env hw op T hT
      have hw' : ∀ X ∈ env ++ [T], X.WF := by
        intro X hX
        simp only [List.mem_append, List.mem_singleton] at hX
        rcases hX with hX | rfl
        · exact hw X hX
        · exact w
      obtain ⟨r, w'⟩ := faithful_seq_partial ops (env ++ [T]) env' hw' h
      refine ⟨?_, w'⟩
      simp only [runF, e]
      simpa using r
    · cases h

/-- non-vacuity: a mixed-format sequence runs (Canonical 2×2 of rank 1 plus its Tucker form,
negated, summed) -/
example : (runT (α := Int) [Ten.can [Mat.ones 2 1, Mat.ones 2 1]] [.c2t 0, .add 0 1, .neg 2, .tsum [2, 3], .pad 1 [some (1, 0), none], .nway 0 [some (Mat.ones 3 2)], .t2c 1]).isSome = true := by
  decide

end Ring

/-! ## the full operation set (statement; proved part above, rest tied by correspondence) -/

/-- What is still missing for the full-strength sequence statement over the driver's complete operation set: `getitem`
on operands containing a TensorProd node (the index tuple is split among the factors).  Everything else — `getitem` on
ndarray/Canonical/Tucker/nested TensorSum (`faithful_getitem`), `squeeze`, `apply_tprod` and `pad` on every object
(`faithful_nway`, `faithful_pad`) — is proved and is a step of `faithful_seq_partial`.  The statement below is the getitem
clause for an arbitrary tensor object.  NOT proved in this generality; covered by the exact correspondence diff and the
numpy oracle on every generated step. -/
def faithful_seq_full (α : Type) [CommRing α] [DecidableEq α] : Prop :=
  ∀ (T T' : Ten α) (I : List PyIndex), T.WF → T.getitem I = .ok (.t T') →
    ∃ n, normalizeIndices I T.shape = .ok n ∧ (T.asarray.take n.idx).squeeze n.singl = .ok T'.asarray

/-! ## CanonicalOperator: the algebra commutes with `asmatrix()` (partial: `+`, `-`, unary `-`, `.T`) -/
section Operator
variable {α : Type} [CommRing α]

/-- `(A + B).asmatrix() = A.asmatrix() + B.asmatrix()` entrywise, any Kronecker ranks and any number of factors -/
theorem operator_add (A B C : COp α) (h : A.add B = .ok C) (i j : Nat) :
    C.asmatrix.get i j = A.asmatrix.get i j + B.asmatrix.get i j := by
  simp only [COp.add] at h
  split at h
  · rw [asmatrix_get, asmatrix_get, asmatrix_get, mkCOp_terms _ _ h, List.map_append, sumL_append]
  · cases h

/-- `(-A).asmatrix() = -A.asmatrix()`: negating the first factor of every term negates every Kronecker product -/
theorem operator_neg (A C : COp α) (h : A.neg = .ok C) (i j : Nat) :
    C.asmatrix.get i j = - A.asmatrix.get i j := by
  simp only [COp.neg] at h
  split at h
  · cases h
  · rename_i hne
    rw [asmatrix_get, asmatrix_get, mkCOp_terms _ _ h, List.map_map, ← sumL_map_neg]
    refine sumL_map_congr _ _ _ (fun t ht => ?_)
    cases t with
    | nil =>
      exfalso; apply hne
      exact List.any_eq_true.2 ⟨[], ht, rfl⟩
    | cons X r => exact multiKron_neg_get X r i j

/-- `(A - B).asmatrix() = A.asmatrix() - B.asmatrix()` -/
theorem operator_sub (A B C : COp α) (h : A.sub B = .ok C) (i j : Nat) :
    C.asmatrix.get i j = A.asmatrix.get i j - B.asmatrix.get i j := by
  simp only [COp.sub] at h
  obtain ⟨N, hN, h⟩ := bind_ok _ _ _ h
  rw [operator_add A N C h, operator_neg B N hN]; ring

/-- `A.T.asmatrix()` is the transpose of `A.asmatrix()` (entries and shape of every Kronecker product) -/
theorem operator_T (A C : COp α) (h : A.T = .ok C) (i j : Nat) :
    C.asmatrix.get i j = A.asmatrix.get j i := by
  simp only [COp.T] at h
  rw [asmatrix_get, asmatrix_get, mkCOp_terms _ _ h, List.map_map]
  refine sumL_map_congr _ _ _ (fun t _ => ?_)
  show (multiKron (t.map Mat.transpose)).get i j = _
  rw [multiKron_transpose]; rfl

/-- full statement of `operator_faithful` for the two operations that are NOT proved in Lean: composition is
the matrix product of the `asmatrix()` forms and `apply` is `asmatrix() · vec`.  (Both are checked on every
generated operator sequence by the correspondence stream and the dense numpy oracle.) -/
def operator_faithful_full (α : Type) [CommRing α] : Prop :=
  (∀ (A B C : COp α), A.mul B = .ok C → ∀ i j, i < C.asmatrix.rows → j < C.asmatrix.cols →
      C.asmatrix.get i j = sumN A.asmatrix.cols (fun k => A.asmatrix.get i k * B.asmatrix.get k j)) ∧
  (∀ (A : COp α) (X Y : Ten α), X.WF → A.apply X = .ok Y → ∀ I, inBox I Y.shape = true →
      Y.entry I = sumN A.asmatrix.cols (fun k => A.asmatrix.get (toSeq I Y.shape) k * X.entry (fromSeq k X.shape)))
end Operator

/-! ## entry generators -/
section Generator
variable {α : Type} [Zero α]

/-- **`TensorGenerator.from_array(X)[I]` returns exactly the entries `X[I]`** for every index expression
(ints, negative ints, slices with steps, index lists, missing trailing axes; the same errors for malformed
ones): the entries computed along `utils.cartesian_product` of the normalised index ranges and reshaped in C
order are the per-axis selection of `X`, with the integer-indexed axes squeezed. -/
theorem generator_getitem (X : Full α) (I : List PyIndex) :
    (Gen.fromArray X).getitem I =
      (do let n ← normalizeIndices I X.shape; (X.take n.idx).squeeze n.singl) := by
  simp only [Gen.getitem, Gen.fromArray]
  cases h : normalizeIndices I X.shape with
  | error e => rfl
  | ok n =>
    simp only [bind, Except.bind]
    rw [normalizeIndices_shape I X.shape n h, gen_values]

/-- non-vacuity: `G[::-1, [1,0]]` on a 3×2 array -/
example : ((Gen.fromArray (Full.ofList [3, 2] [0, 1, 2, 3, 4, 5] : Full Int)).getitem
    [.slice none none (some (-1)), .list [1, 0]]).toOption.map Full.toList = some [5, 4, 3, 2, 1, 0] := by decide
end Generator

/-! ## find_truncation_rank: the error budget (loop invariant) -/
section Trunc
variable {α : Type} [CommRing α] [LinearOrder α]

/-- `findTruncLoop` (the `while` loop of `find_truncation_rank`) instrumented with the list of
squared norms of the slices it removes -/
def truncTrace (get : List Nat → α) (tolsq : α) : Nat → List Nat → α → List Nat × List α
  | 0, s, _ => (s, [])
  | fuel + 1, s, total =>
      if prod s = 0 then (s, []) else
      let errs := (List.range s.length).map (lastSliceSq get s)
      let ax := argmin errs
      let total' := total + errs.getD ax 0
      if tolsq < total' then (s, [])
      else
        let r := truncTrace get tolsq fuel (s.set ax (s.getD ax 0 - 1)) total'
        (r.1, errs.getD ax 0 :: r.2)

/-- the instrumented loop returns the same shape as the model of the code -/
theorem truncTrace_shape (get : List Nat → α) (tolsq : α) : ∀ (fuel : Nat) (s : List Nat) (total : α),
    (truncTrace get tolsq fuel s total).1 = findTruncLoop get tolsq fuel s total
  | 0, s, total => rfl
  | fuel + 1, s, total => by
    simp only [truncTrace, findTruncLoop]
    split
    · rfl
    · split
      · rfl
      · exact truncTrace_shape get tolsq fuel _ _

/-- **truncation budget (loop invariant)**: whatever the tensor, the tolerance and the number of
iterations, the squared norms of all slices removed by `find_truncation_rank` (plus the initial
`total_err_squ`) sum to at most `tol²`.  Partial: that these slices are disjoint, so that the sum
*is* `‖X - X[:r]‖²`, is not proved in Lean (checked by the harness oracle on every instance). -/
theorem truncation_budget_partial (get : List Nat → α) (tolsq : α) : ∀ (fuel : Nat) (s : List Nat) (total : α),
    total ≤ tolsq → total + sumL (truncTrace get tolsq fuel s total).2 ≤ tolsq
  | 0, s, total, h => by simpa [truncTrace] using h
  | fuel + 1, s, total, h => by
    simp only [truncTrace]
    split
    · simpa using h
    · split
      · simpa using h
      · rename_i hlt
        have h' := truncation_budget_partial get tolsq fuel
          (s.set (argmin ((List.range s.length).map (lastSliceSq get s)))
            (s.getD (argmin ((List.range s.length).map (lastSliceSq get s))) 0 - 1))
          (total + ((List.range s.length).map (lastSliceSq get s)).getD
            (argmin ((List.range s.length).map (lastSliceSq get s))) 0) (not_lt.1 hlt)
        simp only [sumL_cons]
        rw [← add_assoc]
        exact h'

/-- **truncation budget, disjointness half**: the slices removed by the loop are pairwise disjoint and disjoint from
the kept leading box, so the squared norm over the original box is the squared norm over the kept box plus the sum of
the recorded slice norms — for every tensor, tolerance and iteration count. -/
theorem truncation_disjoint (get : List Nat → α) (tolsq : α) : ∀ (fuel : Nat) (s : List Nat) (total : α), s ≠ [] →
    boxSum s (fun I => get I * get I) =
      boxSum (truncTrace get tolsq fuel s total).1 (fun I => get I * get I) + sumL (truncTrace get tolsq fuel s total).2
  | 0, s, total, _ => by simp [truncTrace]
  | fuel + 1, s, total, hs => by
    simp only [truncTrace]
    split
    · simp
    · rename_i hp
      split
      · simp
      · have herr : ((List.range s.length).map (lastSliceSq get s)) ≠ [] := by
          cases s with
          | nil => exact absurd rfl hs
          | cons n s => simp [List.range_succ]
        have hax := argmin_lt _ herr
        simp only [List.length_map, List.length_range] at hax
        have hs' : s.set (argmin ((List.range s.length).map (lastSliceSq get s)))
            (s.getD (argmin ((List.range s.length).map (lastSliceSq get s))) 0 - 1) ≠ [] := by
          intro h0
          have := congrArg List.length h0
          simp at this
          exact hs this
        have ih := truncation_disjoint get tolsq fuel _
          (total + ((List.range s.length).map (lastSliceSq get s)).getD
            (argmin ((List.range s.length).map (lastSliceSq get s))) 0) hs'
        simp only [sumL_cons]
        rw [boxSum_split_last _ s (fun I => get I * get I) hax (prod_pos_getD s _ hp hax), ih]
        have hget : ((List.range s.length).map (lastSliceSq get s)).getD
            (argmin ((List.range s.length).map (lastSliceSq get s))) 0
            = lastSliceSq get s (argmin ((List.range s.length).map (lastSliceSq get s))) := by
          rw [List.getD_eq_getElem?_getD, List.getElem?_map, List.getElem?_range hax]; rfl
        rw [hget]
        simp only [lastSliceSq]
        ring

/-- **`truncation_budget`**: `find_truncation_rank` returns a leading box `r` such that the squared Frobenius norm of
everything outside it, `‖X‖² − ‖X[:r]‖²` (= the squared truncation error of the core, hence of the tensor when the
factor matrices are orthonormal), is a sum of removed slice norms that stays within `tol²`. -/
theorem truncation_budget (get : List Nat → α) (tolsq : α) (h0 : 0 ≤ tolsq) (fuel : Nat) (s : List Nat) (hs : s ≠ []) :
    ∃ removed : α,
      boxSum s (fun I => get I * get I)
        = boxSum (findTruncLoop get tolsq fuel s 0) (fun I => get I * get I) + removed ∧ 0 + removed ≤ tolsq :=
  ⟨sumL (truncTrace get tolsq fuel s 0).2,
   by rw [← truncTrace_shape]; exact truncation_disjoint get tolsq fuel s 0 hs,
   truncation_budget_partial get tolsq fuel s 0 h0⟩

/-- non-vacuity: on the 1-D core `[3, 1, 1]` with `tol² = 5/2` two slices of squared norm 1 are removed -/
example : truncTrace (fun I => ([3, 1, 1] : List Rat).getD (I.getD 0 0) 0) (5/2) 10 [3] 0 = ([1], [1, 1]) := by
  decide +kernel
end Trunc

/-! ## greedy Tucker approximation: control logic of the basis extension -/
section Greedy
variable {α : Type} [Field α] [LinearOrder α]

/-- **`gta` keeps its mode bases orthonormal** (exact arithmetic, any field): one pass of the extension loop
maps an orthonormal `U[j]` to an orthonormal basis, whether the skip rule fires or a column `y/‖y‖` is appended
(`ny² = Σ y²`; `ny ≠ 0` is needed exactly when a column is appended — this is what "skip almost zero vectors"
guarantees).  Error histories and ALS quality remain numerical evidence (harness stream `greedy`). -/
theorem gta_extend_orthonormal (rule : SkipRule α) (U : Mat α) (v : Nat → α) (ny nv : α) (h : OrthoCols U)
    (hny : ny * ny = sumN U.rows (fun i => gsResidual U v i * gsResidual U v i))
    (hpos : (gtaExtend rule U v ny nv).cols = U.cols + 1 → ny ≠ 0) :
    OrthoCols (gtaExtend rule U v ny nv) := gtaExtend_orthonormal rule U v ny nv h hny hpos

/-- the skip rule as coded now (fix 2f34e7d, `gta` and `gta_ls`): `ny ≤ c·‖v‖` or a complete basis leaves the
rank unchanged, otherwise it grows by exactly one -/
theorem gta_extend_skip_rule (c : α) (U : Mat α) (v : Nat → α) (ny nv : α) :
    (gtaExtend (.relative c) U v ny nv).cols = if ny ≤ c * nv ∨ U.rows ≤ U.cols then U.cols else U.cols + 1 :=
  gtaExtend_cols c U v ny nv

/-- with that rule the rank of a mode never exceeds the mode size (so `UᵀU = I` stays possible) -/
theorem gta_extend_rank_le_size (c : α) (U : Mat α) (v : Nat → α) (ny nv : α) (h : U.cols ≤ U.rows) :
    (gtaExtend (.relative c) U v ny nv).cols ≤ (gtaExtend (.relative c) U v ny nv).rows :=
  gtaExtend_rank_le c U v ny nv h

/-- negation witness for the repaired finding `gta_ls-no-skip` (and for `gta` if the skip is lost): without a skip
rule a direction inside the span (`y = 0`, `ny = 0`) is "normalised" and appended; the basis (two columns in a
one-dimensional mode) is no longer orthonormal. -/
theorem gta_extend_noskip_not_orthonormal :
    ¬ OrthoCols (gtaExtend (SkipRule.never : SkipRule Rat) ⟨1, 1, fun _ _ => 1⟩ (fun _ => 2) 0 2) := by
  intro h
  have h11 := h 1 1 (by decide) (by decide)
  norm_num [gtaExtend, gsResidual, sumN, sumL] at h11

/-- negation witness for the repaired finding `gta-skip-threshold-absolute`: with the absolute test `ny < 1e-14`
a residual of relative size `1e-13` (pure rounding noise of a vector of norm `1`... here `ny = 1e-13`, `‖v‖ = 1`)
is appended to an already complete one-dimensional basis, which the repaired rule refuses. -/
theorem gta_extend_absolute_appends_noise :
    (gtaExtend (SkipRule.absolute (1 / 100000000000000 : Rat)) ⟨1, 1, fun _ _ => 1⟩ (fun _ => 1) (1 / 10000000000000) 1).cols = 2 ∧
    (gtaExtend (SkipRule.relative (1 / 10000000000 : Rat)) ⟨1, 1, fun _ _ => 1⟩ (fun _ => 1) (1 / 10000000000000) 1).cols = 1 := by
  constructor <;> decide +kernel
end Greedy

/-! ## adaptive cross approximation -/
section Field
variable {α : Type} [Field α]

theorem getD_map_range (n k : Nat) (f : Nat → α) (h : k < n) : ((List.range n).map f).getD k 0 = f k := by
  simp [List.getD, h]

/-- **cross step of `aca`** (lowrank.py 129-130, `rank_1_update`): with pivot `(i, j0)`,
`E = X - A` and `E[i,j0] ≠ 0`, after `X += (A[:,j0]-X[:,j0]) ⊗ E[i,:] / E[i,j0]` the error
vanishes on row `i` and on column `j0`, and every row / column on which it vanished before
still vanishes — hence, by induction over the loop, on all earlier pivot rows and columns. -/
theorem aca_cross (A X : Mat α) (i j0 : Nat) (hi : i < A.rows) (hj : j0 < A.cols)
    (hp : X.get i j0 - A.get i j0 ≠ 0) :
    let Erow := (List.range A.cols).map (fun j => X.get i j - A.get i j)
    let col := (List.range A.rows).map (fun a => A.get a j0 - X.get a j0)
    let X' := rank1Update X (1 / Erow.getD j0 0) col Erow
    (∀ b, b < A.cols → X'.get i b - A.get i b = 0) ∧
    (∀ a, a < A.rows → X'.get a j0 - A.get a j0 = 0) ∧
    (∀ a, a < A.rows → (∀ b, b < A.cols → X.get a b - A.get a b = 0) →
        ∀ b, b < A.cols → X'.get a b - A.get a b = 0) ∧
    (∀ b, b < A.cols → (∀ a, a < A.rows → X.get a b - A.get a b = 0) →
        ∀ a, a < A.rows → X'.get a b - A.get a b = 0) := by
  intro Erow col X'
  have hX' : ∀ a b, a < A.rows → b < A.cols →
      X'.get a b = X.get a b + (1 / (X.get i j0 - A.get i j0) * (A.get a j0 - X.get a j0)) * (X.get i b - A.get i b) := by
    intro a b ha hb
    simp only [X', rank1Update, Erow, col]
    rw [getD_map_range _ _ _ hj, getD_map_range _ _ _ ha, getD_map_range _ _ _ hb]
  refine ⟨fun b hb => ?_, fun a ha => ?_, fun a ha hz b hb => ?_, fun b hb hz a ha => ?_⟩
  · rw [hX' i b hi hb]; field_simp; ring
  · rw [hX' a j0 ha hj]; field_simp; ring
  · rw [hX' a b ha hb]
    have h1 := hz b hb
    have h2 := hz j0 hj
    have : A.get a j0 - X.get a j0 = 0 := by rw [← neg_sub, h2, neg_zero]
    rw [this, mul_zero, zero_mul, add_zero]; exact h1
  · rw [hX' a b ha hb]
    have h1 := hz a ha
    have h2 := hz i hi
    rw [h2, mul_zero, add_zero]; exact h1

/-- **exact recovery, rank 1 (partial)**: if `A = u vᵀ` and the approximation is still zero, one cross step of `aca`
with any pivot `(i, j0)` at which `A` does not vanish reproduces `A` exactly (exact arithmetic, any field) — the
Wedderburn rank-reduction step for rank 1.  Ranks `r ≥ 2` (each cross step lowers the rank of the error by one) are
NOT proved in Lean; they are exercised by the replayed `aca`/`aca_lr` stream on exactly-rank-r matrices. -/
theorem aca_exact_rank1_partial (A X : Mat α) (u v : Nat → α) (i j0 : Nat) (hi : i < A.rows) (hj : j0 < A.cols)
    (hA : ∀ a b, a < A.rows → b < A.cols → A.get a b = u a * v b)
    (hX : ∀ a b, a < A.rows → b < A.cols → X.get a b = 0)
    (hp : u i * v j0 ≠ 0) :
    let Erow := (List.range A.cols).map (fun j => X.get i j - A.get i j)
    let col := (List.range A.rows).map (fun a => A.get a j0 - X.get a j0)
    let X' := rank1Update X (1 / Erow.getD j0 0) col Erow
    ∀ a b, a < A.rows → b < A.cols → X'.get a b = A.get a b := by
  intro Erow col X' a b ha hb
  have hui : u i ≠ 0 := fun h => hp (by rw [h, zero_mul])
  have hvj : v j0 ≠ 0 := fun h => hp (by rw [h, mul_zero])
  simp only [X', rank1Update, Erow, col]
  rw [getD_map_range _ _ _ hj, getD_map_range _ _ _ ha, getD_map_range _ _ _ hb]
  rw [hX a b ha hb, hX i j0 hi hj, hX a j0 ha hj, hX i b hi hb, hA i j0 hi hj, hA a j0 ha hj, hA i b hi hb, hA a b ha hb]
  field_simp
  ring

/-- non-vacuity of `aca_cross`: a 2×2 matrix, zero start, pivot (1,0) -/
example : ((⟨2, 2, fun a b => if a = 1 ∧ b = 0 then (3 : Rat) else 1⟩ : Mat Rat).get 1 0) ≠ 0 := by
  norm_num

end Field

end Pyiga.Props.C18
