/-
Property C02 — the derivative rows of `bspline_active_deriv_single` (A2.3), all orders.
Closes `Pyiga.Props.C02.ders_eq_cox_full` (helper lemmas: `Pyiga/Proofs/Ders.lean`).
-/
import Pyiga.Props.C02
import Pyiga.Proofs.Ders

namespace Pyiga.Props.C02
open Pyiga.Knots Pyiga.BSpline

set_option linter.unusedSectionVars false

variable {K : Type} [Field K] [LinearOrder K] [IsStrictOrderedRing K]

/-- **Piegl-Tiller eq. (2.10)** for the derivative recursion `dcoxS` (= eq. (2.9)), every knot sequence
(repeated knots included, `x/0 = 0`): `N⁽ᵏ⁾_{i,p} = p!/(p-k)! · Σ_{j≤k} a_{k,j} N_{i+j,p-k}` with the
three-term recursion `aCoef` of the coefficients. -/
theorem dN_eq_sum_a (t : ℕ → K) (s : ℕ) (u : K) (k p i : ℕ) (hk : k ≤ p) :
    dcoxS t s u k p i
      = (p.descFactorial k : K) * ∑ j ∈ Finset.range (k + 1), aCoef t i p k j * coxS t s u (p - k) (i + j) :=
  dcoxS_eq_sum_a t s u k p i hk

/-- **invariant of the two-row buffers** (`a1`/`a2` with the `j1/j2` bounds, literal loop body): if before
pass `k'+1` for function `r` the current row holds `a_{k',j}` in the cells `max(0,k'-r) ≤ j ≤ min(k',p-r)`
and `fac = p!/(p-k'-1)!`-in-progress, then after the pass the (swapped) current row holds `a_{k'+1,j}` in
the cells of the next window, `fac` is advanced, and the pass returned
`p!/(p-k'-1)! · Σ_j a_{k'+1,j} N_{i+j,p-k'-1}`.  `ndu` is any table with the two read properties. -/
theorem ders_buffer_invariant (t : ℕ → K) (ndu : ℕ → ℕ → K) (N : ℕ → K) (i p r k' : ℕ) (st : DState K)
    (hkp : k' + 1 ≤ p) (hr : r ≤ p) (hinv : Inv t i p r k' st)
    (hden : ∀ x, k' + 1 ≤ r + x → x + r ≤ p →
      ndu (p - (k' + 1) + 1) (r + x - (k' + 1)) = t (i + x + (p - k')) - t (i + x))
    (hval : ∀ x, k' + 1 ≤ r + x → x + r ≤ p → ndu (r + x - (k' + 1)) (p - (k' + 1)) = N (i + x))
    (hN0 : ∀ x, r + x < k' + 1 → N (i + x) = 0) (hN1 : ∀ x, p < x + r → N (i + x) = 0) :
    Inv t i p r (k' + 1) (dersStep ndu p r (k' + 1) st).1 ∧
    (dersStep ndu p r (k' + 1) st).2
      = (∑ j ∈ Finset.range (k' + 2), aCoef t i p (k' + 1) j * N (i + j)) * ((p.descFactorial (k' + 1) : ℕ) : K) :=
  dersStep_inv t ndu N i p r k' st hkp hr hinv hden hval hN0 hN1

/-- rows `1 ≤ k ≤ p` of the result of `active_deriv` -/
theorem ders_rows_mid_eq_cox (t : ℕ → K) (n p : ℕ) (u : K) (nd k r : ℕ) (hk1 : 1 ≤ k) (hkp : k ≤ p)
    (hknd : k ≤ nd) (hps : p ≤ findspan t n p u) (hr : r ≤ p) :
    ((activeDeriv t n p u nd).getD k []).getD r 0
      = dcoxS t (findspan t n p u) u k p (findspan t n p u - p + r) := by
  obtain ⟨k'', rfl⟩ : ∃ k'', k = k'' + 1 := ⟨k - 1, by omega⟩
  rw [activeDeriv_entry t n p u nd k'' r (by omega) hr]
  exact dersR_entry_eq_dcoxS t _ p u nd r k'' hps hr hkp (by omega)

/-- **ders_eq_cox** — the full statement: every row `k ≤ numderiv` (orders `0`, `1..p`, `> p`) of the
transliterated A2.3 equals the `k`-th derivative by the derivative recursion, for every degree, every
non-decreasing open knot vector (any multiplicities), every point of the domain, over any linearly
ordered field. -/
theorem ders_eq_cox : ders_eq_cox_full (K := K) := by
  intro t n p u nd k r hn hmono hlo hhi hlast hk hr
  have hs := findspan_spec t n p u hn hmono hlo hhi hlast
  rcases Nat.eq_zero_or_pos k with h0 | hpos
  · subst h0
    have h := activeDeriv_row0 t n p u nd hs.1
    have e : (activeDeriv t n p u nd).getD 0 [] = (activeDeriv t n p u nd).headD [] := by
      cases (activeDeriv t n p u nd) <;> rfl
    rw [e, h, getD_map_range _ _ _ (by omega)]
    rfl
  · by_cases hkp : k ≤ p
    · exact ders_rows_mid_eq_cox t n p u nd k r hpos hkp hk hs.1 hr
    · rw [ders_rows_high_zero t n p u nd k r (by omega) hk hr, dcoxS_vanish t _ u k p _ (by omega)]

end Pyiga.Props.C02
