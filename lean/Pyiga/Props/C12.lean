/-
Property C12 — time integrators realise consistent RK/Rosenbrock schemes of their
stated order.  Property theorems only (helper lemmas live in Proofs/ODE.lean).

(a) per shipped tableau (regenerated from the running library into Gen/Tableaux.lean on
    every check run): rooted-tree order conditions up to the documented order, main and
    embedded weights, hold within the derived tolerance in exact rational arithmetic on
    the doubles the code uses; `dirk34` provably does *not* (known finding D4);
(b) over an arbitrary field: stage equations of `dirk_step` / `rosenbrock_step`, the
    stiffly accurate shortcut, exact integration of `y' = c`;
(c) drivers as loops with fuel: `constant_driver`, `adaptive_driver`, `newton_contract`.
-/
import Pyiga.Gen.Tableaux
import Pyiga.Proofs.ODE

namespace Pyiga.Props.C12
open Pyiga.ODE Pyiga.Gen.Tableaux

/-! ## (a) order conditions of the shipped tableaux (T-tab, re-proved on every run)

`withinTol (rkResiduals A w) eps q = true` says: every rooted-tree condition of order
`≤ q` for the Runge-Kutta pair `(A, w)` has residual `|·| ≤ eps` (exact `Rat` arithmetic,
kernel-evaluated; no `native_decide`).  Documented orders: DESIGN §6/C12. -/

theorem crank_nicolson_order2 :
    withinTol (rkResiduals crank_nicolson.A crank_nicolson.b) crank_nicolson_eps 2 = true := by
  decide +kernel

theorem sdirk3_order3 : withinTol (rkResiduals sdirk3.A sdirk3.b) sdirk3_eps 3 = true := by
  decide +kernel

theorem sdirk3_b_order4 : withinTol (rkResiduals sdirk3_b.A sdirk3_b.b) sdirk3_b_eps 4 = true := by
  decide +kernel

theorem sdirk21_order2 : withinTol (rkResiduals sdirk21.A sdirk21.b) sdirk21_eps 2 = true := by
  decide +kernel
theorem sdirk21_embedded_order1 :
    withinTol (rkResiduals sdirk21.A (sdirk21.bhat.getD [])) sdirk21_epsHat 1 = true := by
  decide +kernel

theorem esdirk23_order2 : withinTol (rkResiduals esdirk23.A esdirk23.b) esdirk23_eps 2 = true := by
  decide +kernel
theorem esdirk23_embedded_order3 :
    withinTol (rkResiduals esdirk23.A (esdirk23.bhat.getD [])) esdirk23_epsHat 3 = true := by
  decide +kernel

theorem esdirk34_order3 : withinTol (rkResiduals esdirk34.A esdirk34.b) esdirk34_eps 3 = true := by
  decide +kernel
theorem esdirk34_embedded_order4 :
    withinTol (rkResiduals esdirk34.A (esdirk34.bhat.getD [])) esdirk34_epsHat 4 = true := by
  decide +kernel

theorem ros3p_order3 : withinTol (rosResiduals ros3p.A ros3p.G ros3p.b) ros3p_eps 3 = true := by
  decide +kernel
theorem ros3p_embedded_order2 :
    withinTol (rosResiduals ros3p.A ros3p.G (ros3p.bhat.getD [])) ros3p_epsHat 2 = true := by
  decide +kernel

theorem ros3pw_order3 : withinTol (rosResiduals ros3pw.A ros3pw.G ros3pw.b) ros3pw_eps 3 = true := by
  decide +kernel
theorem ros3pw_embedded_order2 :
    withinTol (rosResiduals ros3pw.A ros3pw.G (ros3pw.bhat.getD [])) ros3pw_epsHat 2 = true := by
  decide +kernel

theorem rowdaind2_order3 :
    withinTol (rosResiduals rowdaind2.A rowdaind2.G rowdaind2.b) rowdaind2_eps 3 = true := by
  decide +kernel
theorem rowdaind2_embedded_order2 :
    withinTol (rosResiduals rowdaind2.A rowdaind2.G (rowdaind2.bhat.getD [])) rowdaind2_epsHat 2 = true := by
  decide +kernel

theorem rodasp_order4 : withinTol (rosResiduals rodasp.A rodasp.G rodasp.b) rodasp_eps 4 = true := by
  decide +kernel
theorem rodasp_embedded_order3 :
    withinTol (rosResiduals rodasp.A rodasp.G (rodasp.bhat.getD [])) rodasp_epsHat 3 = true := by
  decide +kernel

theorem rosi2p1_order3 : withinTol (rosResiduals rosi2p1.A rosi2p1.G rosi2p1.b) rosi2p1_eps 3 = true := by
  decide +kernel
theorem rosi2p1_embedded_order2 :
    withinTol (rosResiduals rosi2p1.A rosi2p1.G (rosi2p1.bhat.getD [])) rosi2p1_epsHat 2 = true := by
  decide +kernel

/-- `rosenbrock_step` takes `gamma = Gamma[0,0]` and sums `j < i` only: every shipped
Rosenbrock tableau indeed has a constant diagonal `Γ_ii = γ` and strictly lower
triangular `α`, lower triangular `Γ`. -/
theorem shipped_const_diag : allRos.all constDiag = true := by decide +kernel

/-- Whenever `np.allclose(b, A[s-1,:])` makes `dirk_step` take the stiffly accurate
shortcut for a shipped tableau, `b` and the last row are *equal* (not merely close), so
`stiffly_accurate_shortcut` applies exactly. -/
theorem shipped_sa_exact :
    allRK.all (fun T => !(allcloseQ rtolDefault atolDefault T.b (T.A.getD (T.s - 1) [])) ||
      T.b == T.A.getD (T.s - 1) []) = true := by decide +kernel

/-! ### known finding D4: `dirk34` is not a consistent scheme -/

/-- The main weights of `coeffs_dirk34` do not sum to one (they sum to 1.02109…): the
residual exceeds one hundredth, twelve orders of magnitude above the tolerance. -/
theorem dirk34_sum_b_ne_one : sumL dirk34.b - 1 > 1 / 100 := by decide +kernel

/-- Hence even the order-1 condition fails at the derived tolerance … -/
theorem dirk34_not_order1 : withinTol (rkResiduals dirk34.A dirk34.b) dirk34_eps 1 = false := by
  decide +kernel

/-- … and so do `Σ b c = ½` and `Σ b A c = ⅙` (by several thousandths). -/
theorem dirk34_order2_3_residuals :
    absQ (dotL dirk34.b (dirk34.A.map sumL) - 1/2) > 1 / 1000 ∧
    absQ (dotL dirk34.b (matVecL dirk34.A (dirk34.A.map sumL)) - 1/6) > 1 / 1000 := by
  decide +kernel

/-- The embedded weights of `dirk34` do sum to one but miss order 2. -/
theorem dirk34_embedded_order1_only :
    withinTol (rkResiduals dirk34.A (dirk34.bhat.getD [])) dirk34_epsHat 1 = true ∧
    withinTol (rkResiduals dirk34.A (dirk34.bhat.getD [])) dirk34_epsHat 2 = false := by
  decide +kernel

/-- meaning of `withinTol` for the first group: `|Σ w − 1| ≤ ε₁`. -/
example : absQ (sumL sdirk3.b - 1) ≤ (sdirk3_eps.getD 0 []).getD 0 0 := by decide +kernel

end Pyiga.Props.C12
