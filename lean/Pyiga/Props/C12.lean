/-
Property C12 — time integrators realise consistent RK/Rosenbrock schemes of their
stated order.  Property theorems only (helper lemmas live in Proofs/ODE.lean).

(a) per shipped tableau (regenerated from the running library into Gen/Tableaux.lean on
    every check run): rooted-tree order conditions up to the documented order, main and
    embedded weights, hold within the derived tolerance in exact rational arithmetic on
    the doubles the code uses; `dirk34` provably does *not* (known finding D4);
(b) over an arbitrary field: stage equations of `dirk_step` / `rosenbrock_step`, the
    stiffly accurate shortcut, exact integration of `y' = c`;
(c) drivers as loops with fuel: `constant_driver`, `adaptive_driver`, `newton_contract`.
-/
import Pyiga.Gen.Tableaux
import Pyiga.Proofs.ODE
import Mathlib.Tactic.FieldSimp

namespace Pyiga.Props.C12
open Pyiga.ODE Pyiga.Gen.Tableaux

/-! ## (a) order conditions of the shipped tableaux (T-tab, re-proved on every run)

`withinTol (rkResiduals A w) eps q = true` says: every rooted-tree condition of order
`≤ q` for the Runge-Kutta pair `(A, w)` has residual `|·| ≤ eps` (exact `Rat` arithmetic,
kernel-evaluated; no `native_decide`).  Documented orders: DESIGN §6/C12. -/

theorem crank_nicolson_order2 :
    withinTol (rkResiduals crank_nicolson.A crank_nicolson.b) crank_nicolson_eps 2 = true := by
  decide +kernel

theorem sdirk3_order3 : withinTol (rkResiduals sdirk3.A sdirk3.b) sdirk3_eps 3 = true := by
  decide +kernel

theorem sdirk3_b_order4 : withinTol (rkResiduals sdirk3_b.A sdirk3_b.b) sdirk3_b_eps 4 = true := by
  decide +kernel

theorem sdirk21_order2 : withinTol (rkResiduals sdirk21.A sdirk21.b) sdirk21_eps 2 = true := by
  decide +kernel
theorem sdirk21_embedded_order1 :
    withinTol (rkResiduals sdirk21.A (sdirk21.bhat.getD [])) sdirk21_epsHat 1 = true := by
  decide +kernel

theorem esdirk23_order2 : withinTol (rkResiduals esdirk23.A esdirk23.b) esdirk23_eps 2 = true := by
  decide +kernel
theorem esdirk23_embedded_order3 :
    withinTol (rkResiduals esdirk23.A (esdirk23.bhat.getD [])) esdirk23_epsHat 3 = true := by
  decide +kernel

theorem esdirk34_order3 : withinTol (rkResiduals esdirk34.A esdirk34.b) esdirk34_eps 3 = true := by
  decide +kernel
theorem esdirk34_embedded_order4 :
    withinTol (rkResiduals esdirk34.A (esdirk34.bhat.getD [])) esdirk34_epsHat 4 = true := by
  decide +kernel

theorem ros3p_order3 : withinTol (rosResiduals ros3p.A ros3p.G ros3p.b) ros3p_eps 3 = true := by
  decide +kernel
theorem ros3p_embedded_order2 :
    withinTol (rosResiduals ros3p.A ros3p.G (ros3p.bhat.getD [])) ros3p_epsHat 2 = true := by
  decide +kernel

theorem ros3pw_order3 : withinTol (rosResiduals ros3pw.A ros3pw.G ros3pw.b) ros3pw_eps 3 = true := by
  decide +kernel
theorem ros3pw_embedded_order2 :
    withinTol (rosResiduals ros3pw.A ros3pw.G (ros3pw.bhat.getD [])) ros3pw_epsHat 2 = true := by
  decide +kernel

theorem rowdaind2_order3 :
    withinTol (rosResiduals rowdaind2.A rowdaind2.G rowdaind2.b) rowdaind2_eps 3 = true := by
  decide +kernel
theorem rowdaind2_embedded_order2 :
    withinTol (rosResiduals rowdaind2.A rowdaind2.G (rowdaind2.bhat.getD [])) rowdaind2_epsHat 2 = true := by
  decide +kernel

theorem rodasp_order4 : withinTol (rosResiduals rodasp.A rodasp.G rodasp.b) rodasp_eps 4 = true := by
  decide +kernel
theorem rodasp_embedded_order3 :
    withinTol (rosResiduals rodasp.A rodasp.G (rodasp.bhat.getD [])) rodasp_epsHat 3 = true := by
  decide +kernel

theorem rosi2p1_order3 : withinTol (rosResiduals rosi2p1.A rosi2p1.G rosi2p1.b) rosi2p1_eps 3 = true := by
  decide +kernel
theorem rosi2p1_embedded_order2 :
    withinTol (rosResiduals rosi2p1.A rosi2p1.G (rosi2p1.bhat.getD [])) rosi2p1_epsHat 2 = true := by
  decide +kernel

/-- `rosenbrock_step` takes `gamma = Gamma[0,0]` and sums `j < i` only: every shipped
Rosenbrock tableau indeed has a constant diagonal `Γ_ii = γ` and strictly lower
triangular `α`, lower triangular `Γ`. -/
theorem shipped_const_diag : allRos.all constDiag = true := by decide +kernel

/-- Whenever `np.allclose(b, A[s-1,:])` makes `dirk_step` take the stiffly accurate
shortcut for a shipped tableau, `b` and the last row are *equal* (not merely close), so
`stiffly_accurate_shortcut` applies exactly. -/
theorem shipped_sa_exact :
    allRK.all (fun T => !(allcloseQ rtolDefault atolDefault T.b (T.A.getD (T.s - 1) [])) ||
      T.b == T.A.getD (T.s - 1) []) = true := by decide +kernel

/-! ### known finding D4: `dirk34` is not a consistent scheme -/

/-- The main weights of `coeffs_dirk34` do not sum to one (they sum to 1.02109…): the
residual exceeds one hundredth, twelve orders of magnitude above the tolerance. -/
theorem dirk34_sum_b_ne_one : sumL dirk34.b - 1 > 1 / 100 := by decide +kernel

/-- Hence even the order-1 condition fails at the derived tolerance … -/
theorem dirk34_not_order1 : withinTol (rkResiduals dirk34.A dirk34.b) dirk34_eps 1 = false := by
  decide +kernel

/-- … and so do `Σ b c = ½` and `Σ b A c = ⅙` (by several thousandths). -/
theorem dirk34_order2_3_residuals :
    absQ (dotL dirk34.b (dirk34.A.map sumL) - 1/2) > 1 / 1000 ∧
    absQ (dotL dirk34.b (matVecL dirk34.A (dirk34.A.map sumL)) - 1/6) > 1 / 1000 := by
  decide +kernel

/-- The embedded weights of `dirk34` do sum to one but miss order 2. -/
theorem dirk34_embedded_order1_only :
    withinTol (rkResiduals dirk34.A (dirk34.bhat.getD [])) dirk34_epsHat 1 = true ∧
    withinTol (rkResiduals dirk34.A (dirk34.bhat.getD [])) dirk34_epsHat 2 = false := by
  decide +kernel

/-- meaning of `withinTol` for the first group: `|Σ w − 1| ≤ ε₁`. -/
example : absQ (sumL sdirk3.b - 1) ≤ (sdirk3_eps.getD 0 []).getD 0 0 := by decide +kernel

/-! ## (c) `newton` (solvers.py:335-361) as a loop with fuel -/

section newton
variable {V : Type} [Sub V]

/-- **Contract of `newton`.**  If `newton` returns `x` (after `k` updates) then `x` passed
the convergence test `norm(F(x)) < max(atol, rtol*norm(F(x0)))` — `convOf (G x0) (G x)` —
and fewer than `maxiter` updates were made.  (`G` is the residual function, `jsolve` the
linear solve with the possibly frozen Jacobian; both arbitrary.) -/
theorem newton_contract (G : V → V) (jsolve : V → V → V) (convOf : V → V → Bool)
    (maxiter freeze : Nat) (x0 x : V) (k : Nat)
    (h : newton G jsolve convOf maxiter freeze x0 = .converged x k) :
    convOf (G x0) (G x) = true ∧ k < maxiter :=
  newton_converged G jsolve convOf maxiter freeze x0 x k h

/-- **`newton` raises only after `maxiter` updates.**  `NoConvergenceError` is raised
exactly when the loop is exhausted: the reported iterate is the result of `maxiter`
updates. -/
theorem newton_raises_after_maxiter (G : V → V) (jsolve : V → V → V) (convOf : V → V → Bool)
    (maxiter freeze : Nat) (x0 x : V) (k : Nat)
    (h : newton G jsolve convOf maxiter freeze x0 = .noConvergence x k) : k = maxiter :=
  newton_noConvergence G jsolve convOf maxiter freeze x0 x k h

/-- **Linear problems need one update.**  If one Newton update from any point `z` (with the
Jacobian evaluated at any point `xJ`) lands on a zero of `G` — `G` affine, `jsolve` an exact
solve with its linear part — and a zero residual passes the convergence test, then `newton`
(with `maxiter ≥ 2`) converges: either immediately at `x0`, or after exactly one update at a
point with `G x = 0`. -/
theorem newton_linear_one_update [Zero V] (G : V → V) (jsolve : V → V → V)
    (convOf : V → V → Bool) (maxiter freeze : Nat) (x0 : V)
    (hJ : ∀ z xJ, G (z - jsolve xJ (G z)) = 0) (hzero : ∀ r0, convOf r0 0 = true)
    (hm : 2 ≤ maxiter) :
    ∃ x k, newton G jsolve convOf maxiter freeze x0 = .converged x k ∧
      ((k = 0 ∧ x = x0) ∨ (k = 1 ∧ G x = 0)) :=
  newton_linear G jsolve convOf maxiter freeze x0 hJ hzero hm

end newton

/-- non-vacuity: `2z - 4 = 0` over `ℚ` with the exact Jacobian solve converges to `2` after
one update; the hypotheses of `newton_linear_one_update` hold for it. -/
example : newton (fun z : ℚ => 2 * z - 4) (fun _ r => r / 2) (fun _ r => decide (r = 0)) 5 1 0
    = .converged 2 1 := by
  norm_num [newton, newtonLoop]
example : (∀ z xJ : ℚ, (fun z : ℚ => 2 * z - 4) (z - (fun _ r => r / 2) xJ ((fun z : ℚ => 2 * z - 4) z)) = 0)
    ∧ ∀ r0 : ℚ, (fun (_ r : ℚ) => decide (r = 0)) r0 0 = true :=
  ⟨fun z _ => by ring, fun _ => by simp⟩
/-- non-vacuity of `newton_raises_after_maxiter`: a solve that makes no progress. -/
example : newton (fun z : ℚ => z) (fun _ _ => 0) (fun _ r => decide (r = 0)) 3 1 1
    = .noConvergence 1 3 := by
  norm_num [newton, newtonLoop]

/-! ## (b) `dirk_step` (solvers.py:366-435) over an arbitrary field -/

section dirk
variable {K V : Type} [Field K] [DecidableEq K] [AddCommGroup V] [Module K V]

/-- **Stage equations of `dirk_step`, general (nonlinear) case.**  If the stage loop ran
`n` stages without exception then it produced `n` stage values `ys` and `n` slopes `Fy`, and
for every stage `i`:
* explicit stage (`a_ii = 0`): it is stage 0, `y_0 = x` and `Fy_0 = Fx or F(x)`;
* implicit stage (`a_ii ≠ 0`): `Fy_i = F(y_i)` and `y_i` satisfies the stage equation
  `M y_i − τ a_ii F(y_i) − (M x + τ Σ_{j<i} a_ij Fy_j) = ρ` up to a residual `ρ` that passed
  Newton's convergence test (`convOf r0 ρ`, `r0` the initial residual).
`M`, `F`, the Jacobian solve `jsolve` and the test `convOf` are arbitrary. -/
theorem dirk_stage_equations (A : Nat → Nat → K) (M F : V → V) (jsolve : K → V → V → V)
    (convOf : V → V → Bool) (x : V) (tau : K) (Fx : Option V) (n : Nat) (st : StageState V)
    (h : dirkStages A M F jsolve convOf x tau Fx n = .ok st) :
    st.ys.length = n ∧ st.Fy.length = n ∧ ∀ i, i < n →
      (A i i = 0 → i = 0 ∧ st.ys.getD i 0 = x ∧ st.Fy.getD i 0 = Fx.getD (F x)) ∧
      (A i i ≠ 0 → st.Fy.getD i 0 = F (st.ys.getD i 0) ∧
        ∃ r0, convOf r0 (M (st.ys.getD i 0) - (tau * A i i) • F (st.ys.getD i 0)
          - (M x + tau • sumRange i (fun j => A i j • st.Fy.getD j 0))) = true) :=
  dirkStages_spec n st h

/-- **Stage equations, exact solves.**  If the convergence test only accepts a zero residual
(e.g. `F` affine and exact linear algebra) and the caller's `Fx` is `None` or really `F(x)`,
then every stage satisfies the textbook DIRK stage equation
`M y_i = M x + τ Σ_{j ≤ i} a_ij F(y_j)` and `Fy_i = F(y_i)`. -/
theorem dirk_stage_equations_linear (A : Nat → Nat → K) (M F : V → V) (jsolve : K → V → V → V)
    (convOf : V → V → Bool) (x : V) (tau : K) (Fx : Option V) (n : Nat) (st : StageState V)
    (hexact : ∀ r0 r, convOf r0 r = true → r = 0) (hFx : Fx = none ∨ Fx = some (F x))
    (h : dirkStages A M F jsolve convOf x tau Fx n = .ok st) :
    ∀ i, i < n → st.Fy.getD i 0 = F (st.ys.getD i 0) ∧
      M (st.ys.getD i 0) = M x + tau • sumRange (i + 1) (fun j => A i j • F (st.ys.getD j 0)) :=
  dirkStages_linear hexact hFx h

variable (s : Nat) (A : Nat → Nat → K) (b : Nat → K) (bhat : Option (Nat → K))
  (M Minv F : V → V) (jsolve : K → V → V → V) (convOf : V → V → Bool) (x : V) (tau : K)
  (Fx : Option V) (o : DirkOut V)

/-- **Update equation.**  Without the stiffly accurate shortcut, and with `Minv` a right
inverse of `M` (`make_solver(M)`), the new value satisfies
`M x_new = M x + τ Σ_i b_i Fy_i`, no `F_x_new` is handed on, and the returned stage lists
are those of the stage loop (so the stage-equation theorems apply to them). -/
theorem dirk_update_equation
    (h : dirkStep s A b bhat false M Minv F jsolve convOf x tau Fx = .ok o)
    (hM : ∀ v, M (Minv v) = v) :
    M o.xnew = M x + tau • sumRange s (fun i => b i • o.Fy.getD i 0) ∧ o.Fxnew = none ∧
    dirkStages A M F jsolve convOf x tau Fx s = .ok ⟨o.ys, o.Fy, o.fcalls⟩ :=
  dirkStep_update h hM

/-- **Stiffly accurate shortcut.**  If `b` equals the last row of `A`, the last stage is
implicit, solves are exact and `Fx` is consistent, then the shortcut `x_new = ys[s-1]`
satisfies the update equation of the tableau, `M x_new = M x + τ Σ_i b_i F(y_i)`, and the
`F_x_new` handed to the next step is really `F(x_new)`. -/
theorem stiffly_accurate_shortcut
    (h : dirkStep s A b bhat true M Minv F jsolve convOf x tau Fx = .ok o)
    (hs : 0 < s) (hb : ∀ j, j < s → b j = A (s - 1) j) (ha : A (s - 1) (s - 1) ≠ 0)
    (hexact : ∀ r0 r, convOf r0 r = true → r = 0) (hFx : Fx = none ∨ Fx = some (F x)) :
    M o.xnew = M x + tau • sumRange s (fun i => b i • F (o.ys.getD i 0)) ∧
    o.Fxnew = some (F o.xnew) :=
  dirkStep_sa h hs hb ha hexact hFx

/-- **Stiffly accurate shortcut, residual form** (inexact Newton, arbitrary `Fx`): the
shortcut value satisfies the update equation up to a residual `ρ` that passed Newton's
convergence test, and `F_x_new = F(x_new)`. -/
theorem stiffly_accurate_shortcut_residual
    (h : dirkStep s A b bhat true M Minv F jsolve convOf x tau Fx = .ok o)
    (hs : 0 < s) (hb : ∀ j, j < s → b j = A (s - 1) j) (ha : A (s - 1) (s - 1) ≠ 0) :
    (∃ r0 ρ, convOf r0 ρ = true ∧
      M o.xnew = M x + tau • sumRange s (fun i => b i • o.Fy.getD i 0) + ρ) ∧
    o.Fxnew = some (F o.xnew) ∧ o.xnew = o.ys.getD (s - 1) 0 :=
  dirkStep_sa_residual h hs hb ha

/-- **Embedded solution.**  With weights `ŵ` (row `s+1` of the tableau) the estimate
satisfies `M x_est = M x + τ Σ_i ŵ_i Fy_i` (in either branch); without them there is none. -/
theorem dirk_embedded_equation (isSA : Bool)
    (h : dirkStep s A b bhat isSA M Minv F jsolve convOf x tau Fx = .ok o)
    (hM : ∀ v, M (Minv v) = v) :
    (∀ w, bhat = some w → ∃ xe, o.xest = some xe ∧
      M xe = M x + tau • sumRange s (fun i => w i • o.Fy.getD i 0)) ∧
    (bhat = none → o.xest = none) :=
  dirkStep_embedded h hM

/-- **Exact integration of `M y' = c`.**  For a constant right-hand side the step gives
`M x_new = M x + (τ Σ_i b_i) c`, hence `M x_new = M x + τ c` for a consistent tableau
(`Σ b = 1`): the solution `y(t) = y₀ + t M⁻¹c` is reproduced exactly, whatever the stages,
the Newton solver and the convergence test do. -/
theorem const_rhs_exact (c : V)
    (h : dirkStep s A b bhat false M Minv (fun _ => c) jsolve convOf x tau Fx = .ok o)
    (hFx : Fx = none ∨ Fx = some c) (hM : ∀ v, M (Minv v) = v) :
    M o.xnew = M x + (tau * sumRange s b) • c ∧
    (sumRange s b = 1 → M o.xnew = M x + tau • c) :=
  dirkStep_const h hFx hM

/-- the same in the stiffly accurate branch (exact solves). -/
theorem const_rhs_exact_sa (c : V)
    (h : dirkStep s A b bhat true M Minv (fun _ => c) jsolve convOf x tau Fx = .ok o)
    (hs : 0 < s) (hb : ∀ j, j < s → b j = A (s - 1) j) (ha : A (s - 1) (s - 1) ≠ 0)
    (hexact : ∀ r0 r, convOf r0 r = true → r = 0) (hFx : Fx = none ∨ Fx = some c) :
    M o.xnew = M x + (tau * sumRange s b) • c ∧
    (sumRange s b = 1 → M o.xnew = M x + tau • c) :=
  dirkStep_const_sa h hs hb ha hexact hFx

end dirk

/-- trapezoidal-rule tableau used in the examples -/
private def exA : Nat → Nat → ℚ := fun i j => (([[0, 0], [1/2, 1/2]] : List (List ℚ)).getD i []).getD j 0
private def exb : Nat → ℚ := fun j => ([1/2, 1/2] : List ℚ).getD j 0

/-- non-vacuity (both branches): `2 y' = 1 - y`, `y(0) = 0`, `τ = ½`, exact Jacobian solve
`(2 + c)⁻¹`, exact convergence test: the step succeeds with `x_new = 2/9`. -/
example : ∃ o, dirkStep 2 exA exb (some exb) true (fun v : ℚ => 2 * v) (fun v => v / 2)
      (fun y => -y + 1) (fun c _ r => r / (2 + c)) (fun _ r => decide (r = 0)) (0 : ℚ) (1/2 : ℚ) none
      = .ok o ∧ decide (o.xnew = 2/9 ∧ o.ys = [0, 2/9]) = true :=
  exists_ok_of_okAnd (by decide +kernel)
example : ∃ o, dirkStep 2 exA exb (some exb) false (fun v : ℚ => 2 * v) (fun v => v / 2)
      (fun y => -y + 1) (fun c _ r => r / (2 + c)) (fun _ r => decide (r = 0)) (0 : ℚ) (1/2 : ℚ) none
      = .ok o ∧ decide (o.xnew = 2/9 ∧ o.xest = some (2/9)) = true :=
  exists_ok_of_okAnd (by decide +kernel)
example : (∀ j, j < 2 → exb j = exA (2 - 1) j) ∧ exA (2 - 1) (2 - 1) ≠ 0 ∧
    (∀ r0 r : ℚ, (fun (_ r : ℚ) => decide (r = 0)) r0 r = true → r = 0) ∧
    (∀ v : ℚ, (fun v : ℚ => 2 * v) ((fun v : ℚ => v / 2) v) = v) ∧ sumRange 2 exb = 1 :=
  ⟨by decide +kernel, by decide +kernel, fun _ r h => by simpa using h, fun v => by ring,
   by decide +kernel⟩
/-- non-vacuity of `const_rhs_exact`: `2 y' = 3`. -/
example : ∃ o, dirkStep 2 exA exb none false (fun v : ℚ => 2 * v) (fun v => v / 2)
      (fun _ => 3) (fun _ _ r => r / 2) (fun _ r => decide (r = 0)) (1 : ℚ) (1/2 : ℚ) none
      = .ok o ∧ decide (o.xnew = 1 + 1/2 * (3/2)) = true :=
  exists_ok_of_okAnd (by decide +kernel)

/-! ## (b) `rosenbrock_step` (solvers.py:684-707) over an arbitrary field -/

section ros
variable {K V : Type} [Field K] [AddCommGroup V] [Module K V]
variable (s : Nat) (A G : Nat → Nat → K) (b : Nat → K) (bhat : Option (Nat → K))
  (F jac : V → V) (csolve : K → V → V) (x : V) (tau : K)

/-- **Stage equations of `rosenbrock_step`.**  If `csolve (τγ)` inverts `M − τγ J`
(`γ = Γ₀₀`, `jac = J(x)·`), the `n` stages `k_i` satisfy
`(M − τγ J) k_i = F(x + τ Σ_{j<i} α_ij k_j) + τ J Σ_{j<i} γ_ij k_j` (the second term absent
for `i = 0`, as in the code).  `M` only appears through the hypothesis on `csolve`. -/
theorem rosenbrock_stage_equations (M : V → V) (n : Nat)
    (hC : ∀ r, M (csolve (tau * G 0 0) r) - (tau * G 0 0) • jac (csolve (tau * G 0 0) r) = r) :
    (rosStages A G F jac csolve x tau n).length = n ∧ ∀ i, i < n →
      M ((rosStages A G F jac csolve x tau n).getD i 0)
          - (tau * G 0 0) • jac ((rosStages A G F jac csolve x tau n).getD i 0)
        = F (x + tau • sumRange i (fun j => A i j • (rosStages A G F jac csolve x tau n).getD j 0))
          + (if i > 0 then
              tau • jac (sumRange i (fun j => G i j • (rosStages A G F jac csolve x tau n).getD j 0))
             else 0) :=
  ⟨rosStages_length A G F jac csolve x tau n,
   fun _ hi => rosStages_equation A G F jac csolve x tau M hC hi⟩

/-- **Update of `rosenbrock_step`:** `x_new = x + τ Σ_i b_i k_i`; the embedded value is
`x + τ Σ_i ŵ_i k_i` when the tableau has weights `ŵ`, absent otherwise. -/
theorem rosenbrock_update :
    (rosStep s A G b bhat F jac csolve x tau).xnew
      = x + tau • sumRange s (fun i => b i • (rosStages A G F jac csolve x tau s).getD i 0) ∧
    (∀ w, bhat = some w → (rosStep s A G b bhat F jac csolve x tau).xest
      = some (x + tau • sumRange s (fun i => w i • (rosStages A G F jac csolve x tau s).getD i 0))) ∧
    (bhat = none → (rosStep s A G b bhat F jac csolve x tau).xest = none) ∧
    (rosStep s A G b bhat F jac csolve x tau).ks = rosStages A G F jac csolve x tau s :=
  ⟨rfl, by rintro w rfl; rfl, by rintro rfl; rfl, rfl⟩

/-- **Consistency of `rosenbrock_step`.**  For `F ≡ c` (so `J = 0`) every stage equals
`k = csolve (τγ) c`, `x_new = x + (τ Σ b) k`, and `M k = c` whenever `csolve (τγ)` inverts
`M − τγ·0`: the step is `x + τ (Σ b) M⁻¹ c`, exact for a consistent tableau. -/
theorem rosenbrock_consistency (c : V) :
    (∀ i, i < s → (rosStages A G (fun _ => c) (fun _ => 0) csolve x tau s).getD i 0
      = csolve (tau * G 0 0) c) ∧
    (rosStep s A G b bhat (fun _ => c) (fun _ => 0) csolve x tau).xnew
      = x + (tau * sumRange s b) • csolve (tau * G 0 0) c ∧
    (∀ M : V → V, (∀ r, M (csolve (tau * G 0 0) r)
        - (tau * G 0 0) • (fun _ : V => (0 : V)) (csolve (tau * G 0 0) r) = r) →
      M (csolve (tau * G 0 0) c) = c) :=
  ⟨fun _ hi => rosStages_const A G csolve x tau c hi, rosStep_const A G csolve x tau s b bhat c,
   fun M hC => by simpa using hC c⟩

end ros

/-- non-vacuity of the hypothesis on `csolve`: `M = 1`, `J = −1`, `τγ = ¼`,
`csolve c r = r / (1 + c)`; the two-stage step from `x = 1` is a concrete rational. -/
example : ∀ r : ℚ, (fun v : ℚ => v) ((fun (c r : ℚ) => r / (1 + c)) ((1/2 : ℚ) * (1/2)) r)
    - ((1/2 : ℚ) * (1/2)) • (fun v : ℚ => -v) ((fun (c r : ℚ) => r / (1 + c)) ((1/2 : ℚ) * (1/2)) r)
    = r := by
  intro r
  rw [smul_eq_mul]
  ring
example : (rosStep 2 exA (fun _ _ => (1/2 : ℚ)) exb none (fun y : ℚ => -y) (fun v => -v)
    (fun c r => r / (1 + c)) (1 : ℚ) (1/2)).xnew = 17/25 := by decide +kernel

/-! ## (c) `_constant_step_method` (solvers.py:437-473) as a loop with fuel -/

section constDriver
variable {K V : Type} [Ring K]

/-- **Constant-step driver.**  Whatever the stepper does, a returned pair `(times, sols)`
has equally many entries, at least the initial one and at most `num_iter + 1`, and
`times[k] = t0 + k·τ` exactly (no accumulated `t += τ`). -/
theorem constant_driver (step : V → Option V → Except StepErr (V × Option V)) (x0 : V)
    (tau t0 : K) (n : Nat) (ts : List K) (xs : List V)
    (h : constDriver step x0 tau t0 n = .ok (ts, xs)) :
    ts.length = xs.length ∧ 1 ≤ ts.length ∧ ts.length ≤ n + 1 ∧
      ∀ k, k < ts.length → ts.getD k 0 = t0 + (k : K) * tau :=
  constDriver_spec step x0 tau t0 n ts xs h

/-- **…and it is complete:** if the stepper never raises, all `num_iter` steps are taken. -/
theorem constant_driver_complete (step : V → Option V → Except StepErr (V × Option V)) (x0 : V)
    (tau t0 : K) (n : Nat) (hstep : ∀ x Fx, ∃ r, step x Fx = .ok r) :
    ∃ ts xs, constDriver step x0 tau t0 n = .ok (ts, xs) ∧ ts.length = n + 1 := by
  obtain ⟨ts, xs, h1, h2⟩ := constLoop_complete step t0 tau hstep n 0 x0 none [t0] [x0]
  exact ⟨ts, xs, h1, by simpa [Nat.add_comm] using h2⟩

/-- **Partial results are prefixes.**  A run with fewer iterations `m ≤ n` of a run that
returned normally also returns normally (it cannot meet an exception the longer run did not
meet) and its lists are prefixes of the longer run's lists.  In particular the lists returned
after a `NoConvergenceError` are a prefix of what an unperturbed run would return. -/
theorem constant_driver_prefix (step : V → Option V → Except StepErr (V × Option V)) (x0 : V)
    (tau t0 : K) (m n : Nat) (hmn : m ≤ n) (ts : List K) (xs : List V)
    (h : constDriver step x0 tau t0 n = .ok (ts, xs)) :
    ∃ ts' xs', constDriver step x0 tau t0 m = .ok (ts', xs') ∧ ts' <+: ts ∧ xs' <+: xs :=
  constLoop_prefix step t0 tau m n hmn 0 x0 none [t0] [x0] ts xs h

end constDriver

/-- non-vacuity: four steps of size `¼`; and a stepper that raises `NoConvergenceError` at
the third step returns the partial lists. -/
example : constDriver (fun (x : ℚ) _ => .ok (x + 1, none)) 0 (1/4 : ℚ) 0 4
    = .ok ([0, 1/4, 1/2, 3/4, 1], [0, 1, 2, 3, 4]) := by
  norm_num [constDriver, constLoop]
example : constDriver (fun (x : ℚ) _ => if x < 2 then .ok (x + 1, none) else .error .noConvergence)
    0 (1/4 : ℚ) 0 5 = .ok ([0, 1/4, 1/2], [0, 1, 2]) := by
  norm_num [constDriver, constLoop]

/-! ## (c) `_adaptive_step_method` (solvers.py:475-534) as a loop with fuel -/

section adapt
variable {K V : Type} [Field K] [LinearOrder K] [IsStrictOrderedRing K]

/-- **Adaptive driver.**  For controller constants `0 < lo ≤ hi`, `0 < half` and a positive
initial step, any result of the loop (stopped by reaching `t_end` or by the model's fuel)
satisfies:
(i) the step size stays positive;
(ii) as many times as solutions;
(iii) the times are strictly increasing, start at `t0` and end at the current time `t`;
(iv) every computed step was accepted iff its scaled error `r ≤ 1`, and the factor applied
     to `τ` lies in `[lo, hi]` (`[0.2, 5]`);
(v) exactly the accepted steps were recorded (`len(times) = 1 + #accepted`);
(vi) if the fuel did not run out, the loop stopped because `t ≥ t_end`.
The stepper, the error norm `ratio` and the power function `powf` are arbitrary. -/
theorem adaptive_driver (step : V → K → Option V → Except StepErr (V × V × Option V))
    (ratio : V → V → V → K) (powf : K → K) (c : Ctl K) (x0 : V) (tau0 tEnd t0 : K) (fuel : Nat)
    (o : AdaptOut K V)
    (hlo : 0 < c.lo) (hlh : c.lo ≤ c.hi) (hh : 0 < c.half) (htau : 0 < tau0)
    (h : adaptDriver step ratio powf c x0 tau0 tEnd t0 fuel = .ok o) :
    0 < o.tau ∧
    o.times.length = o.sols.length ∧
    (o.times.Pairwise (· < ·) ∧ o.times.head? = some t0 ∧ o.times.getLast? = some o.t) ∧
    (∀ e ∈ o.log, ∀ r acc fac, e = .stepped r acc fac →
      (acc = true ↔ r ≤ c.one) ∧ c.lo ≤ fac ∧ fac ≤ c.hi) ∧
    o.times.length = 1 + o.log.countP (fun e => match e with
      | .stepped _ acc _ => acc
      | .newtonFailed => false) ∧
    (o.outOfFuel = false → ¬ o.t < tEnd) := by
  obtain ⟨inv, hend⟩ := adaptLoop_spec step ratio powf c tEnd t0 hlo hlh hh fuel t0 tau0 x0 none
    [t0] [x0] [] o h (AdaptInv.init c t0 tau0 x0 htau)
  refine ⟨inv.tau_pos, inv.len, ⟨inv.sorted, inv.head, inv.last⟩, ?_, ?_, hend⟩
  · rintro e he r acc fac rfl
    exact inv.log_ok _ he
  · exact inv.count

end adapt

/-- non-vacuity: the controller constants of the source, a stepper that always succeeds
with zero error estimate (`r` is replaced by `1e-15`, factor clamped to `5`): the run
`t = 0 → ½ → 3` reaches `t_end = 1` with fuel left. -/
example : ∃ o, adaptDriver (fun (x : ℚ) tau _ => .ok (x + tau, x + tau, none))
      (fun _ _ _ => 0) (fun _ => 100) ⟨1, 1 / 10 ^ 15, 1 / 5, 5, 1 / 2, 9 / 10⟩ (0 : ℚ) (1 / 2 : ℚ) 1 0 10
      = .ok o ∧ decide (o.times = [0, 1/2, 3] ∧ o.outOfFuel = false ∧ o.tau = 25/2) = true :=
  exists_ok_of_okAnd (by decide +kernel)

/-! ## outside the property: the adaptive loop need not terminate (user parameter `step_factor = 1`)

`adaptive_driver` is relative to the model's fuel because the Python `while t < t_end` loop has no
lower bound on `tau`.  The following witness is the observation made with the scripted stepper:
with `step_factor = 1` and an error estimate proportional to the step size, a rejected step
is retried with `tau' = tau·fac`, `fac = r**(-1/q)` clamped to `[0.2, 5]`, so the new scaled
error is `r' = r·fac`; for `q > 1` and `r > 1` this is `r**(1-1/q) > 1` again (and `0.2·r > 1`
when the clamp is active, since then `r > 5^q`): `r` tends to `1` from above, no step is ever
accepted.  This is **not** a violation of C12 (the default `step_factor` is `0.9` and the
parameter is the user's); it documents why termination is not claimed. -/

section nontermination
variable {K : Type} [Field K] [LinearOrder K] [IsStrictOrderedRing K]

/-- the stepper of the witness: the state does not move, the embedded estimate differs by `ρ·tau`. -/
def stuckStep (ρ : K) : K → K → Option K → Except StepErr (K × K × Option K) :=
  fun x tau _ => .ok (x, x + ρ * tau, none)

theorem stuck_loop (ρ : K) (powf : K → K) (c : Ctl K) (tEnd t0 : K)
    (hone : c.one = 1) (hsf : c.stepFactor = 1) (ht : t0 < tEnd)
    (hp : ∀ r, 1 < r → 1 < r * pmin c.hi (pmax c.lo (powf r))) :
    ∀ (fuel : ℕ) (tau x : K) (Fx : Option K) (log : List (Event K)), 1 < ρ * tau →
      ∃ o, adaptLoop (stuckStep ρ) (fun _ xn xh => xh - xn) powf c tEnd fuel t0 tau x Fx [t0] [x] log = .ok o ∧
        o.outOfFuel = true ∧ o.times = [t0] ∧ o.sols = [x] := by
  intro fuel
  induction fuel with
  | zero =>
    intro tau x Fx log _
    exact ⟨_, rfl, by simp [ht], rfl, rfl⟩
  | succ fuel ih =>
    intro tau x Fx log hr
    have hr0 : (x + ρ * tau - x) = ρ * tau := by ring
    have hne : ¬ (ρ * tau = 0) := by intro h; rw [h] at hr; linarith
    have hnle : ¬ (ρ * tau ≤ 1) := not_le.mpr hr
    have hnext : 1 < ρ * (tau * pmin c.hi (pmax c.lo (powf (ρ * tau)))) := by
      have := hp (ρ * tau) hr
      calc (1 : K) < ρ * tau * pmin c.hi (pmax c.lo (powf (ρ * tau))) := this
        _ = ρ * (tau * pmin c.hi (pmax c.lo (powf (ρ * tau)))) := by ring
    obtain ⟨o, ho, h1, h2, h3⟩ := ih (tau * pmin c.hi (pmax c.lo (powf (ρ * tau)))) x Fx
      (log ++ [.stepped (ρ * tau) false (pmin c.hi (pmax c.lo (powf (ρ * tau))))]) hnext
    refine ⟨o, ?_, h1, h2, h3⟩
    simp only [adaptLoop, stuckStep, ht, if_true, hr0, beq_iff_eq, hne, if_false, hone, hnle, hsf, one_mul]
    exact ho

/-- **Non-termination witness (outside the property).**  With `step_factor = 1`, any `powf`
with `r > 1 → r·clamp(powf r) > 1` (true for `r ↦ r^(-1/q)`, `q > 1`, with the clamp `[0.2,5]`)
and an error estimate `ρ·tau` that starts above `1`, the adaptive driver never accepts a step:
for every amount of fuel it returns only the initial state and reports `outOfFuel`. -/
theorem adaptive_driver_nontermination_witness (ρ : K) (powf : K → K) (c : Ctl K) (tEnd t0 tau0 x0 : K)
    (hone : c.one = 1) (hsf : c.stepFactor = 1) (ht : t0 < tEnd)
    (hp : ∀ r, 1 < r → 1 < r * pmin c.hi (pmax c.lo (powf r))) (h0 : 1 < ρ * tau0) (fuel : ℕ) :
    ∃ o, adaptDriver (stuckStep ρ) (fun _ xn xh => xh - xn) powf c x0 tau0 tEnd t0 fuel = .ok o ∧
      o.outOfFuel = true ∧ o.times = [t0] ∧ o.sols = [x0] :=
  stuck_loop ρ powf c tEnd t0 hone hsf ht hp fuel tau0 x0 none [] h0

/-- the hypotheses are satisfiable over `ℚ`: `powf r = (1 + r)/(2r)` is a rational stand-in for
`r^(-1/2)` with `r·powf r = (1+r)/2 > 1` for `r > 1`, and it stays inside the clamp `[1/5, 5]`. -/
example : ∀ r : ℚ, 1 < r → 1 < r * pmin 5 (pmax (1 / 5) ((1 + r) / (2 * r))) := by
  intro r hr
  have hpos : (0 : ℚ) < 2 * r := by linarith
  have h1 : (1 : ℚ) / 5 < (1 + r) / (2 * r) := by rw [div_lt_div_iff₀ (by norm_num) hpos]; linarith
  have h2 : (1 + r) / (2 * r) < 5 := by rw [div_lt_iff₀ hpos]; linarith
  have e1 : pmax (1 / 5 : ℚ) ((1 + r) / (2 * r)) = (1 + r) / (2 * r) := by unfold pmax; rw [if_pos h1]
  have e2 : pmin (5 : ℚ) ((1 + r) / (2 * r)) = (1 + r) / (2 * r) := by unfold pmin; rw [if_pos h2]
  rw [e1, e2]
  have : r * ((1 + r) / (2 * r)) = (1 + r) / 2 := by field_simp
  rw [this]; linarith

end nontermination

end Pyiga.Props.C12
