/-
C13 — form-compilation caching never substitutes a different assembler.

`cacheKey kt t (vf, on_demand)` is the tuple `compile.compile_vform` hashes (`VForm.hash`, `AsmVar.hash`,
`BasisFun/InputField/Parameter.hash`, `Expr.hash`, `(on_demand,)`), where the tables `kt`, `t` say which
attributes enter; they are REGENERATED from the source on every run (`Pyiga/Gen/HashKeys.lean`,
translator/c13_keys.py) and their completeness is re-decided there.  Python's `hash` of a tuple is
modelled as injective (the key *is* the tuple); the correspondence stream compares the model's
partition of expressions/forms with the partition by the real `hash()` values, so a systematic
collision of the real hash (such as `hash(-1.0) == hash(-2.0)`) shows up as a disagreement.
-/
import Pyiga.Proofs.VFormKey
import Pyiga.Proofs.SLP
import Pyiga.Proofs.CompileHist
import Pyiga.Gen.HashKeys

namespace Pyiga.Props.C13
open Pyiga.VForm Pyiga.VForm.Expr Pyiga.SLP

variable (kt : KeyTable) (t : FKeyTable)

/-- **key ⇒ projection ⇒ source.**  With complete tables, two requests with the same cache key are
the same request (all attributes the code generator can read agree), so *any* function of the
request — in particular `generate(vf, on_demand)` — gives the same result. -/
theorem equal_key_equal_source (hk : KeyTableComplete kt = true) (ht : FKeyTableComplete t = true)
    (r₁ r₂ : Form × Bool) (h : cacheKey kt t r₁ = cacheKey kt t r₂) :
    r₁ = r₂ ∧ ∀ {Src : Type} (gen : Form × Bool → Src), gen r₁ = gen r₂ := by
  have := cacheKey_injective kt hk t ht r₁ r₂ h
  subst this
  exact ⟨rfl, fun _ => rfl⟩

/-- **cache_sound.**  Invariant over every sequence of compile requests, starting from any cache
whose entries were generated from requests with their keys (the pre-seeded shipped assemblers
satisfy this exactly when they are fresh — the freshness clause): every request returns the
assembler generated from *its own* form. -/
theorem cache_sound {Asm : Type} (gen : Form × Bool → Asm) (hk : KeyTableComplete kt = true)
    (ht : FKeyTableComplete t = true) (c : AsmCache Asm) (hc : CacheInv gen kt t c)
    (rs : List (Form × Bool)) :
    (compileAll gen kt t c rs).2 = rs.map gen :=
  (compileAll_sound gen kt hk t ht rs c hc).1

/-- **history_sound.**  The same for histories that mix `compile_vform(vf, on_demand)` and `compile_vforms([…])` — the model
contains `compile_vforms` exactly as coded (no cache lookup, no cache update) and is diffed against the real functions on random
histories (driver `hist`): every class returned for every requested form is the one generated from that form. -/
theorem history_sound {Asm : Type} (gen : Form × Bool → Asm) (hk : KeyTableComplete kt = true)
    (ht : FKeyTableComplete t = true) (c : AsmCache Asm) (hc : CacheInv gen kt t c) (qs : List CompileReq) :
    (compileHistory gen kt t c qs).2 = qs.map (fun q => q.forms.map gen) :=
  (compileHistory_sound gen kt hk t ht qs c hc).1

/-- the theorem for the tables extracted from the tree under test *now* -/
theorem cache_sound_current {Asm : Type} (gen : Form × Bool → Asm) (c : AsmCache Asm)
    (hc : CacheInv gen Pyiga.Gen.HashKeys.keyTable Pyiga.Gen.HashKeys.fkeyTable c) (rs : List (Form × Bool)) :
    (compileAll gen Pyiga.Gen.HashKeys.keyTable Pyiga.Gen.HashKeys.fkeyTable c rs).2 = rs.map gen :=
  cache_sound _ _ gen Pyiga.Gen.HashKeys.keyTable_complete Pyiga.Gen.HashKeys.fkeyTable_complete c hc rs

/-- non-vacuity: the empty cache satisfies the invariant -/
example {Asm : Type} (gen : Form × Bool → Asm) : CacheInv gen kt t [] := by
  intro p hp; cases hp

/-- negation witness (defect D15, repaired): with `isBoundary` missing from the form-key table a
volume form and the same form with `boundary=True` share a cache key. -/
example :
    let t' : FKeyTable := allFAttrs.filter (· != .isBoundary)
    let f : Form := { dim := 2, geoDim := 2, isBoundary := false, arity := 2, vec := 0, spacetime := false,
                      basisFuns := [], inputs := [], vars := [], exprs := [gw 0] }
    FKeyTableComplete t' = false ∧
    cacheKey [] t' (f, false) = cacheKey [] t' ({ f with isBoundary := true }, false) := by
  constructor
  · decide
  · simp [cacheKey, formKey, fld, allFAttrs]

section separation
variable (hk : KeyTableComplete kt = true) (ht : FKeyTableComplete t = true)
include hk ht

/-- different requests never share a cache entry -/
theorem sep (r₁ r₂ : Form × Bool) (h : r₁ ≠ r₂) : cacheKey kt t r₁ ≠ cacheKey kt t r₂ :=
  fun e => h (cacheKey_injective kt hk t ht r₁ r₂ e)

/-! The property's list of differences that must separate two forms, one corollary each
(`f` is an arbitrary form, the differing item sits in an arbitrary context). -/

/-- 1. operator -/
theorem sep_operator (f : Form) (od : Bool) (op op' : Op) (x y : Expr) (es : List Expr) (h : op ≠ op') :
    cacheKey kt t ({ f with exprs := sop op x y :: es }, od) ≠ cacheKey kt t ({ f with exprs := sop op' x y :: es }, od) :=
  sep kt t hk ht _ _ (by intro e; simp at e; exact h e)

/-- 2. function name -/
theorem sep_funcname (f : Form) (od : Bool) (g g' : String) (x : Expr) (es : List Expr) (h : g ≠ g') :
    cacheKey kt t ({ f with exprs := builtin g x :: es }, od) ≠ cacheKey kt t ({ f with exprs := builtin g' x :: es }, od) :=
  sep kt t hk ht _ _ (by intro e; simp at e; exact h e)

/-- 3. constant (in the model a constant is its exact value; see the header for `hash(-1)==hash(-2)`) -/
theorem sep_constant (f : Form) (od : Bool) (a b : Rat) (es : List Expr) (h : a ≠ b) :
    cacheKey kt t ({ f with exprs := const a :: es }, od) ≠ cacheKey kt t ({ f with exprs := const b :: es }, od) :=
  sep kt t hk ht _ _ (by intro e; simp at e; exact h e)

/-- 4. shape -/
theorem sep_shape (f : Form) (od : Bool) (m n m' n' : Nat) (l : List Expr) (es : List Expr) (h : (m, n) ≠ (m', n')) :
    cacheKey kt t ({ f with exprs := litmat m n l :: es }, od) ≠ cacheKey kt t ({ f with exprs := litmat m' n' l :: es }, od) :=
  sep kt t hk ht _ _ (by intro e; simp at e; exact h (by rw [e.1, e.2]))

/-- 5. derivative (multi-index or physical/parametric flag of a basis function or an input field) -/
theorem sep_derivative (f : Form) (od : Bool) (b : BFun) (D D' : List Nat) (p p' : Bool) (es : List Expr)
    (h : (D, p) ≠ (D', p')) :
    cacheKey kt t ({ f with exprs := pderiv b D p :: es }, od) ≠ cacheKey kt t ({ f with exprs := pderiv b D' p' :: es }, od) :=
  sep kt t hk ht _ _ (by intro e; simp at e; exact h (by rw [e.1, e.2]))

theorem sep_derivative_input (f : Form) (od : Bool) (v : String) (I D D' : List Nat) (p p' : Bool) (es : List Expr)
    (h : (D, p) ≠ (D', p')) :
    cacheKey kt t ({ f with exprs := varref v I D p :: es }, od) ≠ cacheKey kt t ({ f with exprs := varref v I D' p' :: es }, od) :=
  sep kt t hk ht _ _ (by intro e; simp at e; exact h (by rw [e.1, e.2]))

/-- 6. measure -/
theorem sep_measure (f : Form) (od : Bool) (x : Expr) (es : List Expr) :
    cacheKey kt t ({ f with exprs := sop .mul x dx :: es }, od) ≠ cacheKey kt t ({ f with exprs := sop .mul x ds :: es }, od) :=
  sep kt t hk ht _ _ (by intro e; simp at e)

/-- 7. boundary flag (and 7'. geometry dimension) -/
theorem sep_boundary (f : Form) (od : Bool) :
    cacheKey kt t ({ f with isBoundary := true }, od) ≠ cacheKey kt t ({ f with isBoundary := false }, od) :=
  sep kt t hk ht _ _ (by intro e; simp at e)

theorem sep_geo_dim (f : Form) (od : Bool) (g g' : Nat) (h : g ≠ g') :
    cacheKey kt t ({ f with geoDim := g }, od) ≠ cacheKey kt t ({ f with geoDim := g' }, od) :=
  sep kt t hk ht _ _ (by intro e; simp at e; exact h e)

/-- 8. arity -/
theorem sep_arity (f : Form) (od : Bool) (a a' : Nat) (h : a ≠ a') :
    cacheKey kt t ({ f with arity := a }, od) ≠ cacheKey kt t ({ f with arity := a' }, od) :=
  sep kt t hk ht _ _ (by intro e; simp at e; exact h e)

/-- 9. component count -/
theorem sep_components (f : Form) (od : Bool) (b : BFun) (nc nc' : Option Nat) (bs : List BFun) (h : nc ≠ nc') :
    cacheKey kt t ({ f with basisFuns := { b with numcomp := nc } :: bs }, od)
      ≠ cacheKey kt t ({ f with basisFuns := { b with numcomp := nc' } :: bs }, od) :=
  sep kt t hk ht _ _ (by intro e; simp at e; exact h e)

/-- 10. space index -/
theorem sep_space (f : Form) (od : Bool) (b : BFun) (s s' : Nat) (bs : List BFun) (h : s ≠ s') :
    cacheKey kt t ({ f with basisFuns := { b with space := s } :: bs }, od)
      ≠ cacheKey kt t ({ f with basisFuns := { b with space := s' } :: bs }, od) :=
  sep kt t hk ht _ _ (by intro e; simp at e; exact h e)

/-- 11. updatable flag -/
theorem sep_updatable (f : Form) (od : Bool) (i : InputField) (is : List InputField) :
    cacheKey kt t ({ f with inputs := { i with updatable := true } :: is }, od)
      ≠ cacheKey kt t ({ f with inputs := { i with updatable := false } :: is }, od) :=
  sep kt t hk ht _ _ (by intro e; simp at e)

/-- 12. on-demand mode -/
theorem sep_on_demand (f : Form) :
    cacheKey kt t (f, true) ≠ cacheKey kt t (f, false) :=
  sep kt t hk ht _ _ (by intro e; simp at e)

end separation

/-- **slp_perm_sound**: "identical up to the order of independent statements" — the verified checker
`permEquiv` used for the freshness comparison of the shipped assemblers. -/
theorem slp_perm_sound {α : Type} (sem : String → Store α → α) (inputs : List String) (p q : Prog)
    (h : permEquiv inputs p q = true) (hloc : Local sem p) (σ : Store α) :
    run sem p σ = run sem q σ :=
  permEquiv_sound sem inputs p q h hloc σ

/-- **modname_deterministic**: the on-disk module name is `'mod' + shake_128(src).hexdigest(8)`
(compile.py:69) — a function of the source text only. -/
theorem modname_deterministic (digest : String → String) (s₁ s₂ : String) (h : s₁ = s₂) :
    "mod" ++ digest s₁ = "mod" ++ digest s₂ := by rw [h]

end Pyiga.Props.C13
