/-
Property C17 — interpolation and L2 projection are projections onto the spline space.
Property theorems only (helpers in Proofs/Approx, Proofs/Tprod).

The model's `interpolate` / `projectL2` are `applyTprod` of the per-axis solver operators
(`Pyiga.Model.Approx`); by `Props.C16.apply_tprod_spec` their entries are the multi-index contraction
`Σ_j ∏_k S_k[i_k,j_k] · rhs[j, t]` used below, for any dimension and any trailing (component) shape.
Unisolvence of the nodes (Schoenberg-Whitney) and convergence of CG are *hypotheses* here: the
solver contract `S_k · C_k = 1` is assumed per axis and decided per instance by the exact model.
-/
import Pyiga.Proofs.Approx
import Pyiga.Proofs.Tprod

namespace Pyiga.Props.C17
open Pyiga.Index Pyiga.LA Pyiga.Approx

variable {α : Type} [CommSemiring α]

/-- **interp_reproduces.**  Any number of axes, any trailing component shape `t`: if every 1-D
collocation matrix `C_k` (n_k × n_k, at the chosen nodes) has the left inverse `S_k` (what
`make_solver` returns under its contract), then interpolating the node-grid values of `Σ c_I N_I`
returns `c`: `Σ_i (⊗S)[I,i] · (Σ_j (⊗C)[i,j] · c[j,t]) = c[I,t]`. -/
theorem interp_reproduces (facs : List ((Nat → Nat → α) × (Nat → Nat → α) × Nat))
    (hinv : ∀ f ∈ facs, ∀ i k, i < f.2.2 → k < f.2.2 → mulEnt f.1 f.2.1 f.2.2 i k = delta i k)
    (c : List Nat → α) (I t : List Nat) (hI : Below I (facs.map (·.2.2))) :
    boxSum (facs.map (·.2.2)) (fun i => kronEntry (facs.map (·.1)) I i *
        boxSum (facs.map (·.2.2)) (fun j => kronEntry (facs.map (·.2.1)) i j * c (j ++ t)))
      = c (I ++ t) :=
  kron_apply_inverse facs hinv c I t hI

/-- **the interpolant matches the data at the nodes**: with the solver contract in the form
`C_k · S_k = 1` (`B · solve(x) = x`), evaluating the interpolant `(⊗C)(⊗S) d` at the node grid gives
back arbitrary data `d`, component-wise. -/
theorem interp_matches_data (facs : List ((Nat → Nat → α) × (Nat → Nat → α) × Nat))
    (hinv : ∀ f ∈ facs, ∀ i k, i < f.2.2 → k < f.2.2 → mulEnt f.2.1 f.1 f.2.2 i k = delta i k)
    (d : List Nat → α) (I t : List Nat) (hI : Below I (facs.map (·.2.2))) :
    boxSum (facs.map (·.2.2)) (fun i => kronEntry (facs.map (·.2.1)) I i *
        boxSum (facs.map (·.2.2)) (fun j => kronEntry (facs.map (·.1)) i j * d (j ++ t)))
      = d (I ++ t) := by
  have h := kron_apply_inverse (facs.map (fun f => (f.2.1, f.1, f.2.2)))
    (by
      intro f hf
      obtain ⟨g, hg, rfl⟩ := List.mem_map.1 hf
      exact hinv g hg) d I t (by simpa [List.map_map, Function.comp_def] using hI)
  simpa [List.map_map, Function.comp_def] using h

/-- non-vacuity: a 2×2 pair with `S·B = 1` over `Int`, used on two axes (a 2-D space, 2 dofs per axis) -/
def exS : Nat → Nat → Int := fun i j => if i = 0 ∧ j = 0 then 1 else if i = 1 ∧ j = 1 then 2 else -1
def exB : Nat → Nat → Int := fun i j => if i = 0 ∧ j = 0 then 2 else 1
example : ∀ f ∈ [(exS, exB, 2), (exS, exB, 2)], ∀ i k, i < f.2.2 → k < f.2.2 →
    mulEnt f.1 f.2.1 f.2.2 i k = delta i k := by
  intro f hf i k hi hk
  simp only [List.mem_cons, List.not_mem_nil, or_false, or_self] at hf
  subst hf
  have h2 : ∀ i, i < 2 → i = 0 ∨ i = 1 := by omega
  rcases h2 i hi with rfl | rfl <;> rcases h2 k hk with rfl | rfl <;> decide

/-! ## Greville abscissae -/

section greville
variable {K : Type} [Field K] [LinearOrder K] [IsStrictOrderedRing K]

/-- **greville_in_support.**  For a non-decreasing knot sequence and `p ≥ 1`, the exact running
average `g_j = (t_{j+1}+…+t_{j+p})/p` lies in `[t_{j+1}, t_{j+p}] ⊆ [t_j, t_{j+p+1}] = supp N_j`. -/
theorem greville_in_support (t : ℕ → K) (hmono : Monotone t) (p j : ℕ) (hp : 0 < p) :
    t j ≤ avg t p j ∧ avg t p j ≤ t (j + p + 1) := by
  obtain ⟨h1, h2⟩ := avg_bounds t hmono p j hp
  exact ⟨le_trans (hmono (by omega)) h1, le_trans h2 (hmono (by omega))⟩

/-- **greville_in_domain.**  Every exact Greville point of a knot vector with `n + p + 1` knots
(`j < n`) lies in `[t_0, t_{n+p}]`. -/
theorem greville_in_domain (t : ℕ → K) (hmono : Monotone t) (p n j : ℕ) (hp : 0 < p) (hj : j < n) :
    t 0 ≤ avg t p j ∧ avg t p j ≤ t (n + p) := by
  obtain ⟨h1, h2⟩ := avg_bounds t hmono p j hp
  exact ⟨le_trans (hmono (by omega)) h1, le_trans h2 (hmono (by omega))⟩

/-- **the clip is the identity on exact values** (so `np.clip` can only repair rounding) -/
theorem greville_clip_id (lo hi g : K) (h1 : lo ≤ g) (h2 : g ≤ hi) :
    (if g < lo then lo else if g > hi then hi else g) = g := by
  rw [if_neg (not_lt.2 h1), if_neg (not_lt.2 h2)]

/-- non-vacuity: knots `0,0,1,2,2` (p = 1 … any p): the sequence `min i 2` is monotone -/
example : Monotone (fun i : ℕ => ((min i 2 : ℕ) : ℚ)) := by
  intro a b h
  show ((min a 2 : ℕ) : ℚ) ≤ ((min b 2 : ℕ) : ℚ)
  exact_mod_cast min_le_min_right 2 h

end greville

/-! ## discrete L2 projection (Mathlib matrices over a commutative ring) -/

section l2
open Matrix
variable {Q N K : Type*} [Fintype Q] [Fintype N] [DecidableEq Q] [DecidableEq N] [CommRing K]

/-- **l2_projection (orthogonality).**  `C` = collocation at the quadrature nodes, `w` = weights (times
`|det J|` with a geometry), `M = CᵀWC`, `b = CᵀW f`.  If `M x = b` then the residual `f − C x` is
orthogonal to every basis function in the quadrature inner product: `CᵀW(f − Cx) = 0`. -/
theorem l2_projection_orthogonal (C : Matrix Q N K) (w f : Q → K) (x : N → K)
    (hsys : (Cᵀ * diagonal w * C) *ᵥ x = Cᵀ *ᵥ (diagonal w *ᵥ f)) :
    Cᵀ *ᵥ (diagonal w *ᵥ (f - C *ᵥ x)) = 0 :=
  l2_orth C w f x hsys

/-- **l2_projection (reproduction).**  If `f = C c` lies in the space and `M` is invertible then the
solution of `M x = CᵀW f` is `c`.  (Hierarchical variant: the same statement with `C := C_fine · I`.) -/
theorem l2_projection_reproduces (C : Matrix Q N K) (w : Q → K) (c x : N → K) (S : Matrix N N K)
    (hS : S * (Cᵀ * diagonal w * C) = 1)
    (hsys : (Cᵀ * diagonal w * C) *ᵥ x = Cᵀ *ᵥ (diagonal w *ᵥ (C *ᵥ c))) : x = c :=
  l2_repro C w c x S hS hsys

end l2

/-! ## clauses that are hypotheses / tied by correspondence only -/

/-- Schoenberg-Whitney: Greville nodes are unisolvent.  Classical; not proved here — the model decides
invertibility of each collocation matrix per instance by exact elimination. -/
def greville_unisolvent_full : Prop :=
  ∀ (kv : Array Rat) (p : Nat), kv.size ≥ 2 * (p + 1) → (∀ i, i + 1 < kv.size → kv.getD i 0 ≤ kv.getD (i + 1) 0) →
    (∀ i, i + p + 1 < kv.size → kv.getD i 0 < kv.getD (i + p + 1) 0) →
    (makeSolver (collocation kv p (greville kv p).toArray)).isSome

end Pyiga.Props.C17
