/-
Property C03 — hierarchical assembly is the level-wise Galerkin restriction.
Property theorems only (helper lemmas in Proofs/HAssemble, Proofs/Transfer).

All statements are over an arbitrary commutative ring, arbitrary (abstract) level matrices `Ak`,
representation matrices `I` and arbitrary index lists; nothing is bounded.
-/
import Pyiga.Proofs.HAssemble
import Pyiga.Proofs.HAssemble2
import Pyiga.Proofs.Transfer

namespace Pyiga.Props.C03
open Pyiga.Transfer Pyiga.HAsm Finset

variable {K : Type} [CommRing K] [DecidableEq K]

/-- **COO block insertion with duplicate summation.**  If the row and column index lists of a block
are injective on the block's extent, every matrix position `(rows[a], cols[b])` receives exactly the
one value `B[a,b]` from this block, and positions outside `rows × cols` receive nothing: nothing is
added twice, nothing is lost. -/
theorem scatter_unique (B : Mat K) (rows cols : List Nat) (hr : InjOn rows B.m) (hc : InjOn cols B.n) :
    (∀ a b, a < B.m → b < B.n →
        Input.scatterGet B rows cols (rows.getD a 0) (cols.getD b 0) = B.f a b) ∧
    (∀ i j, (∀ a, a < B.m → rows.getD a 0 ≠ i) → Input.scatterGet B rows cols i j = 0) ∧
    (∀ i j, (∀ b, b < B.n → cols.getD b 0 ≠ j) → Input.scatterGet B rows cols i j = 0) :=
  ⟨fun _ _ ha hb => scatterGet_hit B rows cols hr hc ha hb,
   fun i j h => scatterGet_miss_row B rows cols i j h,
   fun i j h => scatterGet_miss_col B rows cols i j h⟩

/-- **Diagonal block**: for two active functions of the same level `k` the assembled entry is the
level-`k` tensor-product entry `A_k[loc a, loc b]` (`= (I_kᵀ A_k I_k)[i,j]` because both columns of
`I_k` are unit vectors). -/
theorem hb_entry_same_level (Ak : Mat K) (newLoc nw : List Nat)
    (hnw : InjOn nw newLoc.length) {a b : Nat} (ha : a < newLoc.length) (hb : b < newLoc.length) :
    Input.scatterGet (blockD Ak newLoc) nw nw (nw.getD a 0) (nw.getD b 0)
      = Ak.f (newLoc.getD a 0) (newLoc.getD b 0) := by
  have := scatterGet_hit (blockD Ak newLoc) nw nw hnw hnw (a := a) (b := b) ha hb
  rw [this]; rfl

/-- **Inter-level blocks = level-wise Galerkin restriction.**  Let `i = nb[n]` be a coarser active
function interacting with level `k`, `j = new[b]` an active function of level `k` with
tensor-product index `loc b`.  Hypotheses: `I[new_loc][:, new]` is the identity (C05), `interlevel_ix`
has no duplicates and indexes level-`k` functions, and — the only place where supports enter —
every level-`k` function `r` with `I[r,i] · A_k[r, loc b] ≠ 0` lies in `interlevel_ix`
(H1: `A_k[r,c] = 0` for disjoint supports; the representation of `i` is supported on its
grand-children; H2: admissibility for the configured disparity).  Then the value written by the block
`A_hb_interlevel` at `(i,j)` is the full Galerkin sum `Σ_r I[r,i] · A_k[r, loc b] = (I_kᵀ A_k I_k)[i,j]`,
and the block `A_hb_interlevel2` writes `Σ_r A_k[loc b, r] · I[r,i] = (I_kᵀ A_k I_k)[j,i]` at `(j,i)`. -/
theorem hb_entry (Ak I : Mat K) (N : Nat) (ilx newLoc nb nw : List Nat)
    (hid : NewIsId I newLoc nw) (hlen : nw.length = newLoc.length)
    (hnb : InjOn nb nb.length) (hnw : InjOn nw nw.length)
    (hilx : ilx.Nodup) (hilxN : ∀ r ∈ ilx, r < N)
    {n b : Nat} (hn : n < nb.length) (hb : b < nw.length)
    (hsupp : ∀ r, r < N → I.f r (nb.getD n 0) * Ak.f r (newLoc.getD b 0) ≠ 0 → r ∈ ilx)
    (hsupp2 : ∀ r, r < N → Ak.f (newLoc.getD b 0) r * I.f r (nb.getD n 0) ≠ 0 → r ∈ ilx) :
    Input.scatterGet (blockE Ak I ilx newLoc nb nw) nb nw (nb.getD n 0) (nw.getD b 0)
        = ∑ r ∈ range N, I.f r (nb.getD n 0) * Ak.f r (newLoc.getD b 0) ∧
    Input.scatterGet (blockE2 Ak I ilx newLoc nb nw) nw nb (nw.getD b 0) (nb.getD n 0)
        = ∑ r ∈ range N, Ak.f (newLoc.getD b 0) r * I.f r (nb.getD n 0) := by
  constructor
  · have h1 := scatterGet_hit (blockE Ak I ilx newLoc nb nw) nb nw hnb hnw (a := n) (b := b) hn hb
    rw [h1, blockE_f Ak I ilx newLoc nb nw hid hlen hb]
    exact restricted_sum_eq_full ilx hilx N hilxN
      (fun r => I.f r (nb.getD n 0) * Ak.f r (newLoc.getD b 0)) hsupp
  · have h1 := scatterGet_hit (blockE2 Ak I ilx newLoc nb nw) nw nb hnw hnb (a := b) (b := n) hb hn
    rw [h1, blockE2_f Ak I ilx newLoc nb nw hid hlen hb]
    exact restricted_sum_eq_full ilx hilx N hilxN
      (fun r => Ak.f (newLoc.getD b 0) r * I.f r (nb.getD n 0)) hsupp2

/-- **`symmetric=True`**: if the level matrix is symmetric, `A_hb_interlevel2 := A_hb_interlevel.T`
is entry for entry the block the general branch computes. -/
theorem sym_flag (Ak I : Mat K) (ilx newLoc nb nw : List Nat) (hid : NewIsId I newLoc nw)
    (hlen : nw.length = newLoc.length) (hsym : ∀ r c, Ak.f r c = Ak.f c r)
    {a n : Nat} (ha : a < nw.length) :
    (blockE Ak I ilx newLoc nb nw).transpose.f a n = (blockE2 Ak I ilx newLoc nb nw).f a n := by
  show (blockE Ak I ilx newLoc nb nw).f n a = _
  rw [blockE_f Ak I ilx newLoc nb nw hid hlen ha, blockE2_f Ak I ilx newLoc nb nw hid hlen ha]
  refine Finset.sum_congr rfl (fun q _ => ?_)
  rw [hsym (ilx.getD q 0) (newLoc.getD a 0), mul_comm]

/-- **THB congruence**: for a truncated space `assemble_matrix` returns `Tᵀ · A_hb · T` with
`T = thb_to_hb()` (entrywise; the tabulations used for execution change nothing). -/
theorem thb_congruence (X : Input K) (Ahb : Mat K) :
    Mat.Eqv (X.assembleWith Ahb true) ((X.H.thbToHb.transpose.mul Ahb).mul X.H.thbToHb) ∧
    X.assembleWith Ahb false = Ahb := by
  refine ⟨?_, rfl⟩
  show Mat.Eqv (((X.H.thbToHb.transpose.mul Ahb).freeze.mul X.H.thbToHb).freeze) _
  exact Mat.Eqv.trans (Mat.freeze_eqv _) (Mat.Eqv.mul_left _ (Mat.freeze_eqv _))

/-- the model's tabulated blocks of a level are entrywise the specification blocks used above -/
theorem level_blocks_spec (X : Input K) (k : Nat) :
    ∃ (Ak I : Mat K) (E E2 : Mat K),
      X.levelBlocks k = [(blockD Ak (X.H.ia k), X.newCan k, X.newCan k), (E, X.neighborsCan k, X.newCan k),
                         (E2, X.newCan k, X.neighborsCan k)] ∧
      Mat.Eqv E (blockE Ak I (X.interlevelIx k) (X.H.ia k) (X.neighborsCan k) (X.newCan k)) ∧
      (X.symmetric = false →
        Mat.Eqv E2 (blockE2 Ak I (X.interlevelIx k) (X.H.ia k) (X.neighborsCan k) (X.newCan k))) ∧
      (X.symmetric = true → E2 = E.transpose) := by
  refine ⟨((X.Ak k).keepRows (X.toAssemble k)).freeze,
          (X.H.representFine k false (some (X.toAssemble k)) false).freeze, _, _, rfl, ?_, ?_, ?_⟩
  · refine Mat.Eqv.trans (Mat.freeze_eqv _) ?_
    refine Mat.Eqv.mul (Nat.le_refl _) ?_ (Mat.freeze_eqv _)
    refine Mat.Eqv.trans (Mat.freeze_eqv _) ?_
    refine Mat.Eqv.mul (Nat.le_refl _) ?_ (Mat.freeze_eqv _)
    exact ⟨rfl, rfl, fun i hi j hj => Mat.freeze_f _ hj hi⟩
  · intro hs
    simp only [hs]
    refine Mat.Eqv.trans (Mat.freeze_eqv _) ?_
    refine Mat.Eqv.mul (Nat.le_refl _) ?_ (Mat.freeze_eqv _)
    refine Mat.Eqv.trans (Mat.freeze_eqv _) ?_
    refine Mat.Eqv.mul (Nat.le_refl _) ?_ (Mat.freeze_eqv _)
    exact ⟨rfl, rfl, fun i hi j hj => Mat.freeze_f _ hj hi⟩
  · intro hs
    simp only [hs]
    rfl


/-! ## the transliterated bookkeeping as a whole (`Input.hbEntry` = value of the assembled COO data) -/

/-- **The unique block that writes `(i,j)` is assembled on the finer level.**  For an active function
`i` (level `ki`, position `a`) and `j` (level `kj`, position `b`) — canonical indices `off ki + a`,
`off kj + b` — every block of every level other than `max ki kj` contributes nothing to the assembled
entry: `hbEntry i j` is the contribution of level `max ki kj` alone, hence integrated with that
level's quadrature.  Only hypothesis: the neighbour lists contain active functions of their level. -/
theorem hb_entry_level (X : Input K) (hnb : ∀ k l, l < k → ∀ x ∈ X.nbrs k l, x ∈ X.H.ia l)
    {ki kj a b : Nat} (ha : a < (X.H.ia ki).length) (hb : b < (X.H.ia kj).length)
    (hki : ki < X.H.numlevels) (hkj : kj < X.H.numlevels) :
    X.hbEntry (X.off ki + a) (X.off kj + b) = contrib X (max ki kj) (X.off ki + a) (X.off kj + b) :=
  hbEntry_eq_contrib X hnb ha hb hki hkj

/-- … and inside that level exactly one block writes it: the diagonal block if `ki = kj`, the block
`A_hb_interlevel` if `ki < kj`, `A_hb_interlevel2` if `ki > kj`; the other two write nothing there. -/
theorem hb_entry_unique_block (X : Input K) (hnb : ∀ k l, l < k → ∀ x ∈ X.nbrs k l, x ∈ X.H.ia l)
    {ki kj a b : Nat} (ha : a < (X.H.ia ki).length) (hb : b < (X.H.ia kj).length)
    (hki : ki < X.H.numlevels) (hkj : kj < X.H.numlevels) :
    (ki = kj → X.hbEntry (X.off ki + a) (X.off kj + b)
        = Input.scatterGet (blkD X ki) (X.newCan ki) (X.newCan ki) (X.off ki + a) (X.off kj + b)) ∧
    (ki < kj → X.hbEntry (X.off ki + a) (X.off kj + b)
        = Input.scatterGet (blkE X kj) (X.neighborsCan kj) (X.newCan kj) (X.off ki + a) (X.off kj + b)) ∧
    (kj < ki → X.hbEntry (X.off ki + a) (X.off kj + b)
        = Input.scatterGet (blkE2 X ki) (X.newCan ki) (X.neighborsCan ki) (X.off ki + a) (X.off kj + b)) :=
  ⟨fun h => (hbEntry_same X hnb ha hb hki h).1, fun h => (hbEntry_lt X hnb ha hb hkj h).1,
   fun h => (hbEntry_gt X hnb ha hb hki h).1⟩

/-- **`interlevel_ix` loses nothing** (no hypothesis about it): every level-`k` function `r` on which
the representation of a listed neighbour `x = ia lv [q]` (within the disparity range) is non-zero lies
in `interlevel_ix[k]`, because a non-zero entry of the tensor-product prolongation product is a chain
of non-zero prolongation entries, i.e. `r` is a grand-child of `x`. -/
theorem interlevel_ix_covers (X : Input K) (hwf : X.H.WF) {k lv q r : Nat} (hk : k < X.H.numlevels)
    (hlv : lv < k) (hfirst : X.firstLevel k ≤ lv) (hq : q < (X.H.ia lv).length)
    (hx : (X.H.ia lv).getD q 0 ∈ X.nbrs k lv) (hr : r < X.H.Nl k)
    (hne : (X.H.representFine k false none false).f r (X.H.ntb lv + q) ≠ 0) :
    r ∈ X.interlevelIx k :=
  interlevelIx_covers X hwf hk hlv hfirst hq hx hr hne

/-- **C03 entrywise, for the transliterated bookkeeping.**  For active `i` (level `ki`) and `j`
(level `kj`) the value the assembled COO data gives at `(i,j)` is the entry of `I_kᵀ A_k I_k` on the
finer level `k = max ki kj` (`I_k` = the full `represent_fine(lv=k)`, `A_k` = the full level matrix).
Residual hypotheses, all about the *inputs*: well-formed space data and square `A_k` (`LevelHyp`,
incl. neighbours are duplicate-free active functions), and **neighbour coverage** (`NbrCoverage`,
the one statement about supports — a mesh query of the refinement model, C04): whenever a coarser
active function interacts with a level-`k` active function (`I_k[r,i]·A_k[r,c] ≠ 0` for some `r`),
`cell_supp_indices` lists it and it is within the disparity range `range(max(0,k-d),k)`.  No
hypothesis about `interlevel_ix`, `to_assemble`, the restricted `represent_fine(rows=…)` or the row-
restricted level assembly remains; for `symmetric=True` the level matrix is assumed symmetric. -/
theorem hb_entry_galerkin (X : Input K) {ki kj a b : Nat} (ha : a < (X.H.ia ki).length)
    (hb : b < (X.H.ia kj).length) (h : LevelHyp X (max ki kj)) (hcov : NbrCoverage X (max ki kj))
    (hsym : X.symmetric = true → ∀ r, r < X.H.Nl (max ki kj) → ∀ c, c < X.H.Nl (max ki kj) →
      (X.Ak (max ki kj)).f r c = (X.Ak (max ki kj)).f c r) :
    X.hbEntry (X.off ki + a) (X.off kj + b)
      = (galerkin X (max ki kj)).f (X.off ki + a) (X.off kj + b) :=
  Pyiga.HAsm.hb_entry_galerkin X ha hb h hcov hsym

/-- non-vacuity of the hypotheses of `hb_entry` / `sym_flag`: a 3-function level with one
interacting coarse function -/
example :
    NewIsId (K := ℚ) ⟨3, 3, fun r c => if c = 0 then 1 / 2 else if r = c then 1 else 0⟩ [1, 2] [1, 2] ∧
    InjOn [0] 1 ∧ InjOn [1, 2] 2 := by
  refine ⟨?_, ?_, ?_⟩
  · intro c b hc hb
    have hc' : c < 2 := hc
    have hb' : b < 2 := hb
    obtain rfl | rfl : c = 0 ∨ c = 1 := by omega
    all_goals (obtain rfl | rfl : b = 0 ∨ b = 1 := by omega) <;> simp
  · intro a a' ha ha' _; omega
  · intro a a' ha ha' h
    obtain rfl | rfl : a = 0 ∨ a = 1 := by omega
    all_goals (obtain rfl | rfl : a' = 0 ∨ a' = 1 := by omega) <;> simp_all

end Pyiga.Props.C03
