/-
Property C05 — every transfer between nested spline spaces preserves the function.
Property theorems only (helper lemmas live in Proofs/CoxDeBoor, Proofs/Boehm, Proofs/Transfer).

The knot-insertion statements quantify over every degree, every monotone knot sequence (any
multiplicities, any spacing) and every position; the hierarchical statements over every number of
levels and every well-formed family of index sets / tensor-product prolongations.
-/
import Pyiga.Proofs.Boehm
import Pyiga.Proofs.Transfer
import Pyiga.Proofs.ProlongateTo
import Pyiga.Proofs.TransferRows
import Pyiga.Proofs.TransferBoundary
import Mathlib.LinearAlgebra.Lagrange

namespace Pyiga.Props.C05
open Pyiga.Transfer Pyiga.Cox Finset

/-! ## sampled agreement of piecewise polynomials is identity of functions -/

/-- Two piecewise polynomials of degree `≤ p` on a common family of spans that agree at `p+1`
distinct points of every span agree on every span (and have the same polynomial pieces).  This is
what turns the harness's "p+1 points per span" evaluations into identities of functions. -/
theorem pw_poly_eq_of_samples {K : Type*} [Field K] {ι : Type*} (p : ℕ) (span : ι → Set K)
    (f g : K → K) (F G : ι → Polynomial K)
    (hF : ∀ s, (F s).natDegree ≤ p) (hG : ∀ s, (G s).natDegree ≤ p)
    (hf : ∀ s, ∀ x ∈ span s, f x = (F s).eval x) (hg : ∀ s, ∀ x ∈ span s, g x = (G s).eval x)
    (S : ι → Finset K) (hS : ∀ s, ∀ x ∈ S s, x ∈ span s) (hcard : ∀ s, (S s).card = p + 1)
    (hsamp : ∀ s, ∀ x ∈ S s, f x = g x) :
    (∀ s, F s = G s) ∧ ∀ s, ∀ x ∈ span s, f x = g x := by
  have key : ∀ s, F s = G s := by
    intro s
    apply Polynomial.eq_of_degrees_lt_of_eval_finset_eq (S s)
    · rw [hcard s]
      exact lt_of_le_of_lt (Polynomial.degree_le_natDegree) (by exact_mod_cast Nat.lt_succ_of_le (hF s))
    · rw [hcard s]
      exact lt_of_le_of_lt (Polynomial.degree_le_natDegree) (by exact_mod_cast Nat.lt_succ_of_le (hG s))
    · intro x hx
      rw [← hf s x (hS s x hx), ← hg s x (hS s x hx)]
      exact hsamp s x hx
  refine ⟨key, fun s x hx => ?_⟩
  rw [hf s x hx, hg s x hx, key s]


/-! ## knot insertion (Boehm) for the matrix exactly as coded -/

section Boehm
variable {K : Type} [Field K] [LinearOrder K] [IsStrictOrderedRing K]

/-- **Boehm's identity for `bspline.knot_insertion`.**  For every degree `p`, every monotone knot
sequence `t` (arbitrary multiplicities), every `u` with `t k ≤ u < t (k+1)` (`k = findspan u`), the
coarse B-spline `N_{i,p}^t` equals the combination of the two refined B-splines with the coded
coefficients `P[i,i]`, `P[i+1,i]`, pointwise for every `x`. -/
theorem boehm (t : ℕ → K) (ht : Monotone t) (k : ℕ) (u : K) (hk : t k ≤ u) (hk' : u < t (k + 1))
    (p i : ℕ) (x : K) :
    cox t p i x = insEntry t p k u i i * cox (insertKnot t k u) p i x
                + insEntry t p k u (i + 1) i * cox (insertKnot t k u) p (i + 1) x :=
  Pyiga.Boehm.boehm t ht k u hk hk' p i x

/-- the same as a matrix identity: column `i` of the coded `(n+1) × n` matrix represents `N_i` in
the refined basis, `N_i^t = Σ_j P[j,i] N_j^{t ∪ {u}}`. -/
theorem boehm_matrix (t : ℕ → K) (ht : Monotone t) (k : ℕ) (u : K) (hk : t k ≤ u) (hk' : u < t (k + 1))
    (p i : ℕ) (x : K) {n : ℕ} (hn : i < n) :
    cox t p i x = ∑ j ∈ range (n + 1), insEntry t p k u j i * cox (insertKnot t k u) p j x :=
  Pyiga.Boehm.boehm_sum t ht k u hk hk' p i x hn

/-- **Structure of the two-scale matrix**: entries are non-negative, every row sums to one (row `0`
needs `p ≤ k`, row `n` needs `k+1 ≤ n`, both guaranteed by `findspan` on an open knot vector), column
`i` is supported on its two children `i`, `i+1`, and the refined sequence is again monotone. -/
theorem prolongation_structure (t : ℕ → K) (ht : Monotone t) (k : ℕ) (u : K) (hk : t k ≤ u)
    (hk' : u < t (k + 1)) (p : ℕ) :
    (∀ j i, 0 ≤ insEntry t p k u j i) ∧
    (∀ n j, j ≤ n → (j = 0 → p ≤ k) → (j = n → k + 1 ≤ n) → ∑ i ∈ range n, insEntry t p k u j i = 1) ∧
    (∀ j i, j ≠ i → j ≠ i + 1 → insEntry t p k u j i = 0) ∧
    Monotone (insertKnot t k u) :=
  ⟨fun j i => Pyiga.Boehm.insEntry_nonneg t ht k u hk hk' p j i,
   fun _ _ hjn h0 hn => Pyiga.Boehm.insEntry_row_sum t p k u hjn h0 hn,
   fun _ _ h1 h2 => Pyiga.Boehm.insEntry_eq_zero t p k u h1 h2,
   Pyiga.Boehm.insertKnot_monotone ht hk (le_of_lt hk')⟩

/-- non-vacuity: the hypotheses hold for the uniform integer knots and `u = 5/2` -/
example : Monotone (fun i : ℕ => (i : ℚ)) ∧ ((2 : ℕ) : ℚ) ≤ 5 / 2 ∧ (5 / 2 : ℚ) < ((2 + 1 : ℕ) : ℚ) :=
  ⟨fun _ _ h => Nat.cast_le.mpr h, by norm_num, by norm_num⟩

end Boehm

/-! ## hierarchical transfers (matrix level) -/

section Hier
variable {K : Type} [CommRing K] [DecidableEq K]

/-- **`represent_fine` recursion / HB virtual prolongator.**  For well-formed inputs (in particular
every child of a deactivated function is active or deactivated one level up),
`I_{ℓ+1} · P^{hb}_ℓ = T_ℓ · I_ℓ`: prolonging HB coefficients of virtual level `ℓ` with the coded block
matrix and representing on level `ℓ+1` is the tensor-product prolongation of the level-`ℓ`
representation — the function is preserved. -/
theorem represent_fine_rec (H : HSp K) (hwf : H.WF) (lv : Nat) (hlv : lv + 1 < H.numlevels) :
    Mat.Eqv ((H.representFine (lv + 1) false none false).mul (H.virtualProlongatorHB lv))
            ((H.Tl lv).mul (H.representFine lv false none false)) :=
  HSp.represent_fine_rec H hwf lv hlv

/-- hence the composition of all HB virtual prolongators from level `l`, followed by
`represent_fine`, is the tensor-product prolongation `T_{L-2} ⋯ T_l` of the level-`l` representation
(for `l = 0`: of the coarsest tensor-product space). -/
theorem virtual_composition (H : HSp K) (hwf : H.WF) (l : Nat) (hl : l + 1 ≤ H.numlevels) :
    Mat.Eqv ((H.representFine (H.numlevels - 1) false none false).mul (H.vprod l))
            ((H.tprod l).mul (H.representFine l false none false)) :=
  HSp.virtual_composition H hwf l hl

/-- **Level-wise evaluation.**  For any family of level bases `B l r` (values, or any fixed linear
functional such as a derivative at a point) obeying the tensor-product two-scale relation, the sum
of the level-wise contributions built by `coeffs_to_levelwise_funcs` equals the evaluation of the
finest-level representation `represent_fine · c`. -/
theorem levelwise_eval (H : HSp K) (hwf : H.WF) (B : Nat → Nat → K)
    (hB : ∀ l r, l + 1 < H.numlevels → r < H.Nl l →
      B l r = ∑ s ∈ range (H.Nl (l + 1)), (H.Tl l).f s r * B (l + 1) s)
    (c : Nat → K) :
    ∑ l ∈ range H.numlevels, ∑ r ∈ range (H.Nl l),
        ((H.levelwiseCoeffs c).getD l []).getD r 0 * B l r
      = ∑ s ∈ range (H.Nl (H.numlevels - 1)),
          (∑ j ∈ range H.numdofs,
            (H.representFine (H.numlevels - 1) false none false).f s j * c j)
          * B (H.numlevels - 1) s :=
  HSp.levelwise_eval' H hwf B hB c

/-- full THB statement (same identity with the truncated representation and the coded THB
prolongators).  **False on the current tree for ≥ 3 levels** (defect D9): see
`thb_virtual_prolongators_wrong`. -/
def thb_virtual_step_full : Prop :=
  ∀ (H : HSp Rat), H.WF → ∀ lv, lv + 1 < H.numlevels →
    Mat.Eqv ((H.representFine (lv + 1) true none false).mul ((H.virtualProlongators true).getD lv (Mat.zero 0 0)))
            ((H.Tl lv).mul (H.representFine lv true none false))

/-- **`prolongate_to` preserves the function** (the loop as it is in /repo since 6ce171d, for every
number of levels of both spaces, any disparity).  If `C` is a hierarchical space and `F` a refinement
of it (`Nested`: same tensor-product data on the common levels, every active coarse function is
active or deactivated in `F`, no deactivated functions on the finest levels, both well-formed —
in particular child closure in `F`), then `I_F · prolongate_to = T_{Lc-1 → Lf-1} · I_C`: the HB
coefficients returned for a coarse coefficient vector describe the identical function. -/
theorem prolongate_to_spec (C F : HSp K) (nest : Nested C F) :
    Mat.Eqv
      ((F.representFine (F.numlevels - 1) false none false).mul (prolongateTo C F none false))
      ((F.tprodN (F.numlevels - C.numlevels) (C.numlevels - 1)).mul
        (C.representFine (C.numlevels - 1) false none false)) :=
  Pyiga.Transfer.prolongate_to_spec C F nest

/-- the repaired loop does not read the disparity, and for `disparity = ∞` the bounds of the earlier
source coincide with it: `prolongate_to` under `disparity = np.inf` was always the repaired loop -/
theorem prolongate_to_disparity_irrelevant (C F : HSp K) (d : Option Nat) :
    prolongateTo C F d false = prolongateTo C F none false ∧
    prolongateTo C F none true = prolongateTo C F none false := ⟨rfl, rfl⟩

/-- hence **`prolongate_to` preserves the function for `disparity = ∞`** also with the loop bounds
as they were before 6ce171d (special case of `prolongate_to_spec`), and for every disparity now. -/
theorem prolongate_to_inf (C F : HSp K) (nest : Nested C F) (d : Option Nat) :
    Mat.Eqv ((F.representFine (F.numlevels - 1) false none false).mul (prolongateTo C F none true))
      ((F.tprodN (F.numlevels - C.numlevels) (C.numlevels - 1)).mul
        (C.representFine (C.numlevels - 1) false none false)) ∧
    Mat.Eqv ((F.representFine (F.numlevels - 1) false none false).mul (prolongateTo C F d false))
      ((F.tprodN (F.numlevels - C.numlevels) (C.numlevels - 1)).mul
        (C.representFine (C.numlevels - 1) false none false)) :=
  ⟨Pyiga.Transfer.prolongate_to_spec C F nest, Pyiga.Transfer.prolongate_to_spec C F nest⟩

/-- **`rows=` / `restrict=` variants of `represent_fine`** (any `truncate`): with `restrict=False` the
given rows of the full matrix are kept and all others are zero; with `restrict=True` the result is
the row selection `I[rows, :]` — for every list of rows (duplicates allowed in the first case). -/
theorem represent_fine_rows (H : HSp K) (lv : Nat) (trunc : Bool) (rows : List Nat) :
    Mat.Eqv (H.representFine lv trunc (some rows) false) ((H.representFine lv trunc none false).keepRows rows) ∧
    ((∀ r ∈ rows, r < H.Nl lv) →
      Mat.Eqv (H.representFine lv trunc (some rows) true) ((H.representFine lv trunc none false).selRows rows)) :=
  ⟨HSp.representFine_rows_keep_eqv H lv trunc rows, fun h => HSp.representFine_rows_restrict_eqv H lv trunc rows h⟩

/-- entry form of the same statement for the HB matrix -/
theorem represent_fine_rows_entries (H : HSp K) (lv : Nat) (rows : List Nat) :
    ∀ i j, i < H.Nl lv → j < (H.representFine lv false none false).n →
      (H.representFine lv false (some rows) false).f i j
        = if i ∈ rows then (H.representFine lv false none false).f i j else 0 :=
  (HSp.representFine_rows_keep H lv rows).2.2

/-- the same identity with the loop bounds `min(f_numlevels, · + disparity + 1)` of the source
before 6ce171d (`asCoded_D13 = true`) — **false under finite disparity** (defect D13, repaired):
see `prolongate_to_finite_disparity_wrong`. -/
def prolongate_to_identity_asCoded_D13 (C F : HSp Rat) (d : Option Nat) : Prop :=
  Mat.Eqv ((F.representFine (F.numlevels - 1) false none false).mul (prolongateTo C F d true))
          ((F.tprodN (F.numlevels - C.numlevels) (C.numlevels - 1)).mul
            (C.representFine (C.numlevels - 1) false none false))

/-- non-vacuity of `Nested`: a one-level space refined to two levels with one deactivated function -/
example : Nested exC exF := ex_nested

end Hier


/-! ## restriction to a boundary face -/

/-- **`HSpace.boundary(bdspec)`: the index bookkeeping is an order-preserving bijection**, for every
number of levels, every dimension and every face.  With sorted per-level active lists `IA`:
the returned index array `bdMap` is strictly increasing (canonical order is preserved) and has as many
entries as the boundary space has dofs; every level's boundary index list (`faceIndices`: the
functions whose component on `axis` is the end index, with that component dropped) is strictly
increasing, so its order *is* the raveled order of the boundary space; position `bdOffsetAt l + t` of
the array — the `t`-th dof of level `l` of the boundary space, uniquely determined by the position —
holds the canonical index `offsetAt l + q` of a parent active function on the face whose face index is
that dof's tensor-product index; every parent active function on the face is hit exactly once and
nothing else is hit. -/
theorem boundary_map (IA dims : List (List Nat)) (axis side : Nat)
    (hsorted : ∀ ia ∈ IA, ia.Pairwise (· < ·)) :
    (bdMap IA dims axis side).Pairwise (· < ·) ∧
    (bdMap IA dims axis side).length = (bdLens IA dims axis side).sum ∧
    (∀ l (hl : l < IA.length) (hd : l < dims.length),
      (faceIndices dims[l] axis side IA[l]).Pairwise (· < ·)) ∧
    (∀ k, k < (bdMap IA dims axis side).length →
      ∃ l t, ∃ (hl : l < IA.length) (hd : l < dims.length),
        t < (faceIndices dims[l] axis side IA[l]).length ∧
        k = bdOffsetAt IA dims axis side l + t) ∧
    (∀ l l' t t' (hl : l < IA.length) (hd : l < dims.length) (hl' : l' < IA.length)
      (hd' : l' < dims.length), t < (faceIndices dims[l] axis side IA[l]).length →
      t' < (faceIndices dims[l'] axis side IA[l']).length →
      bdOffsetAt IA dims axis side l + t = bdOffsetAt IA dims axis side l' + t' → l = l' ∧ t = t') ∧
    (∀ l t (hl : l < IA.length) (hd : l < dims.length),
      t < (faceIndices dims[l] axis side IA[l]).length →
      ∃ q, ∃ hq : q < IA[l].length,
        (bdMap IA dims axis side)[bdOffsetAt IA dims axis side l + t]? = some (offsetAt IA l + q) ∧
        onFace dims[l] axis side IA[l][q] = true ∧
        (faceIndices dims[l] axis side IA[l])[t]? = some (faceIndex dims[l] axis IA[l][q])) ∧
    (∀ l q (hl : l < IA.length) (hd : l < dims.length) (hq : q < IA[l].length),
      onFace dims[l] axis side IA[l][q] = true →
      (bdMap IA dims axis side).count (offsetAt IA l + q) = 1) ∧
    (∀ x ∈ bdMap IA dims axis side,
      ∃ l q, ∃ (hl : l < IA.length) (hd : l < dims.length) (hq : q < IA[l].length),
        onFace dims[l] axis side IA[l][q] = true ∧ x = offsetAt IA l + q) :=
  bdMap_bijection IA dims axis side hsorted

/-- on one face the map "drop the `axis` component" is strictly monotone and injective in the raveled
index, and onto the face's tensor-product space (`faceLift` is its inverse) — the reason why the
boundary space's canonical order is the parent's -/
theorem face_index_order (d : List Nat) (axis side : Nat) :
    (∀ r r', axisDigit d axis r = axisDigit d axis r' →
      (r < r' ↔ faceIndex d axis r < faceIndex d axis r')) ∧
    (0 < strideOf d axis → 0 < axisSize d axis → ∀ t,
      faceIndex d axis (faceLift d axis side t) = t ∧ onFace d axis side (faceLift d axis side t) = true) :=
  ⟨fun r r' h => faceIndex_lt_iff d axis r r' h,
   fun hs hn t => ⟨faceIndex_faceLift d axis side t hs hn, onFace_faceLift d axis side t hs hn⟩⟩

example : bdMap [[0, 1, 5, 8, 10, 11]] [[3, 4]] 0 1 = [3, 4, 5] := by decide

/-! ## witnesses of the two known defects (exact dyadic prolongations, 1-D, p = 2) -/

def matOfLists (m n : Nat) (rows : List (List Rat)) : Mat Rat :=
  ⟨m, n, fun i j => (rows.getD i []).getD j 0⟩

def w9T0 : Mat Rat := matOfLists 10 6
   [[1, 0, 0, 0, 0, 0],
    [1/2, 1/2, 0, 0, 0, 0],
    [0, 3/4, 1/4, 0, 0, 0],
    [0, 1/4, 3/4, 0, 0, 0],
    [0, 0, 3/4, 1/4, 0, 0],
    [0, 0, 1/4, 3/4, 0, 0],
    [0, 0, 0, 3/4, 1/4, 0],
    [0, 0, 0, 1/4, 3/4, 0],
    [0, 0, 0, 0, 1/2, 1/2],
    [0, 0, 0, 0, 0, 1]]
def w9T1 : Mat Rat := matOfLists 18 10
   [[1, 0, 0, 0, 0, 0, 0, 0, 0, 0],
    [1/2, 1/2, 0, 0, 0, 0, 0, 0, 0, 0],
    [0, 3/4, 1/4, 0, 0, 0, 0, 0, 0, 0],
    [0, 1/4, 3/4, 0, 0, 0, 0, 0, 0, 0],
    [0, 0, 3/4, 1/4, 0, 0, 0, 0, 0, 0],
    [0, 0, 1/4, 3/4, 0, 0, 0, 0, 0, 0],
    [0, 0, 0, 3/4, 1/4, 0, 0, 0, 0, 0],
    [0, 0, 0, 1/4, 3/4, 0, 0, 0, 0, 0],
    [0, 0, 0, 0, 3/4, 1/4, 0, 0, 0, 0],
    [0, 0, 0, 0, 1/4, 3/4, 0, 0, 0, 0],
    [0, 0, 0, 0, 0, 3/4, 1/4, 0, 0, 0],
    [0, 0, 0, 0, 0, 1/4, 3/4, 0, 0, 0],
    [0, 0, 0, 0, 0, 0, 3/4, 1/4, 0, 0],
    [0, 0, 0, 0, 0, 0, 1/4, 3/4, 0, 0],
    [0, 0, 0, 0, 0, 0, 0, 3/4, 1/4, 0],
    [0, 0, 0, 0, 0, 0, 0, 1/4, 3/4, 0],
    [0, 0, 0, 0, 0, 0, 0, 0, 1/2, 1/2],
    [0, 0, 0, 0, 0, 0, 0, 0, 0, 1]]
def w9 : HSp Rat := { N := [6, 10, 18], IA := [[2, 3, 4, 5], [2, 3], [0, 1, 2, 3]], ID := [[0, 1], [0, 1], []], T := [w9T0, w9T1] }
def c13 : HSp Rat := { N := [8], IA := [[0, 1, 2, 3, 4, 5, 6, 7]], ID := [[]], T := [] }
def f13T0 : Mat Rat := matOfLists 14 8
   [[1, 0, 0, 0, 0, 0, 0, 0],
    [1/2, 1/2, 0, 0, 0, 0, 0, 0],
    [0, 3/4, 1/4, 0, 0, 0, 0, 0],
    [0, 1/4, 3/4, 0, 0, 0, 0, 0],
    [0, 0, 3/4, 1/4, 0, 0, 0, 0],
    [0, 0, 1/4, 3/4, 0, 0, 0, 0],
    [0, 0, 0, 3/4, 1/4, 0, 0, 0],
    [0, 0, 0, 1/4, 3/4, 0, 0, 0],
    [0, 0, 0, 0, 3/4, 1/4, 0, 0],
    [0, 0, 0, 0, 1/4, 3/4, 0, 0],
    [0, 0, 0, 0, 0, 3/4, 1/4, 0],
    [0, 0, 0, 0, 0, 1/4, 3/4, 0],
    [0, 0, 0, 0, 0, 0, 1/2, 1/2],
    [0, 0, 0, 0, 0, 0, 0, 1]]
def f13T1 : Mat Rat := matOfLists 26 14
   [[1, 0, 0, 0, 0, 0, 0, 0, 0, 0, 0, 0, 0, 0],
    [1/2, 1/2, 0, 0, 0, 0, 0, 0, 0, 0, 0, 0, 0, 0],
    [0, 3/4, 1/4, 0, 0, 0, 0, 0, 0, 0, 0, 0, 0, 0],
    [0, 1/4, 3/4, 0, 0, 0, 0, 0, 0, 0, 0, 0, 0, 0],
    [0, 0, 3/4, 1/4, 0, 0, 0, 0, 0, 0, 0, 0, 0, 0],
    [0, 0, 1/4, 3/4, 0, 0, 0, 0, 0, 0, 0, 0, 0, 0],
    [0, 0, 0, 3/4, 1/4, 0, 0, 0, 0, 0, 0, 0, 0, 0],
    [0, 0, 0, 1/4, 3/4, 0, 0, 0, 0, 0, 0, 0, 0, 0],
    [0, 0, 0, 0, 3/4, 1/4, 0, 0, 0, 0, 0, 0, 0, 0],
    [0, 0, 0, 0, 1/4, 3/4, 0, 0, 0, 0, 0, 0, 0, 0],
    [0, 0, 0, 0, 0, 3/4, 1/4, 0, 0, 0, 0, 0, 0, 0],
    [0, 0, 0, 0, 0, 1/4, 3/4, 0, 0, 0, 0, 0, 0, 0],
    [0, 0, 0, 0, 0, 0, 3/4, 1/4, 0, 0, 0, 0, 0, 0],
    [0, 0, 0, 0, 0, 0, 1/4, 3/4, 0, 0, 0, 0, 0, 0],
    [0, 0, 0, 0, 0, 0, 0, 3/4, 1/4, 0, 0, 0, 0, 0],
    [0, 0, 0, 0, 0, 0, 0, 1/4, 3/4, 0, 0, 0, 0, 0],
    [0, 0, 0, 0, 0, 0, 0, 0, 3/4, 1/4, 0, 0, 0, 0],
    [0, 0, 0, 0, 0, 0, 0, 0, 1/4, 3/4, 0, 0, 0, 0],
    [0, 0, 0, 0, 0, 0, 0, 0, 0, 3/4, 1/4, 0, 0, 0],
    [0, 0, 0, 0, 0, 0, 0, 0, 0, 1/4, 3/4, 0, 0, 0],
    [0, 0, 0, 0, 0, 0, 0, 0, 0, 0, 3/4, 1/4, 0, 0],
    [0, 0, 0, 0, 0, 0, 0, 0, 0, 0, 1/4, 3/4, 0, 0],
    [0, 0, 0, 0, 0, 0, 0, 0, 0, 0, 0, 3/4, 1/4, 0],
    [0, 0, 0, 0, 0, 0, 0, 0, 0, 0, 0, 1/4, 3/4, 0],
    [0, 0, 0, 0, 0, 0, 0, 0, 0, 0, 0, 0, 1/2, 1/2],
    [0, 0, 0, 0, 0, 0, 0, 0, 0, 0, 0, 0, 0, 1]]
def f13 : HSp Rat := { N := [8, 14, 26], IA := [[0, 1, 2, 3, 4], [8, 9, 10, 11, 12], [24, 25]], ID := [[5, 6, 7], [13], []], T := [f13T0, f13T1] }

/-- D9: 1-D, p = 2, 4 coarse cells, refine `{0:[0,1]}` then `{1:[0,1]}` (3 levels).  The coded THB
prolongator from virtual level 1 to 2 does not satisfy `I₂ᵗʰᵇ · P₁ = T₁ · I₁ᵗʰᵇ`: entry `(3,0)`
is off by `3/16 = 0.1875` (the value observed on the implementation). -/
theorem thb_virtual_prolongators_wrong :
    ((w9.representFine 2 true none false).mul ((w9.virtualProlongators true).getD 1 (Mat.zero 0 0))).f 3 0
      - ((w9.Tl 1).mul (w9.representFine 1 true none false)).f 3 0 = 3 / 16 := by
  decide +kernel

/-- … while the HB prolongators of the same space are exact at that entry (and everywhere, by
`represent_fine_rec`). -/
example :
    ((w9.representFine 2 false none false).mul (w9.virtualProlongatorHB 1)).f 3 0
      = ((w9.Tl 1).mul (w9.representFine 1 false none false)).f 3 0 := by
  decide +kernel

/-- D13: 1-D, p = 2, 6 cells, `disparity = 1`, coarse unrefined, fine = refine `{0:[5]}`, `{1:[11]}`.
With the loop bound `min(f_numlevels, lv + disparity + 1)` of the source before 6ce171d the last coarse function is not
prolongated to level 2: the entry for (fine dof 11 = level-2 function 25, coarse dof 7) is `0`
although the tensor-product prolongation has `1` there. -/
theorem prolongate_to_finite_disparity_wrong :
    (prolongateTo c13 f13 (some 1) true).f 11 7 = 0 ∧
    ((f13.representFine 2 false none false).mul (prolongateTo c13 f13 (some 1) true)).f 25 7 = 0 ∧
    ((f13.tprodN 2 0).mul (c13.representFine 0 false none false)).f 25 7 = 1 := by
  decide +kernel

/-- with both loop bounds `f_numlevels` (the code as it is now) the same entry is right -/
theorem prolongate_to_fixed_witness :
    ((f13.representFine 2 false none false).mul (prolongateTo c13 f13 (some 1) false)).f 25 7 = 1 := by
  decide +kernel

end Pyiga.Props.C05
