/-
Property C04 — hierarchical spaces stay well-formed under every refinement history.
Property theorems only (helper lemmas live in Proofs/Hier*.lean).

Every statement quantifies over *every* history of `HSpace.refine` calls (no bound on its
length), every space dimension, every coarse knot vector (any degree, any interior
multiplicities), every disparity (finite or `np.inf`), both values of the `truncate` argument,
marks on any number of levels at once, duplicates allowed.  The only hypothesis on a call is what
the property grants: the marked cells are currently active.
-/
import Pyiga.Proofs.HierRefine
import Pyiga.Proofs.HierOrder
import Pyiga.Proofs.HierTP
import Pyiga.Proofs.HierTrunc
import Pyiga.Proofs.HierPU
import Pyiga.Proofs.HierTwoScale
import Pyiga.Proofs.HierAdm
import Pyiga.Proofs.HierTPAdm
import Pyiga.Proofs.HierCover
import Pyiga.Proofs.HierInc
import Pyiga.Proofs.HierIndep

namespace Pyiga.Props.C04
open Pyiga.Hier Pyiga.Index

/-- admissible coarse knot vectors: what `np.unique(kv, return_counts=True)` reports for a
`KnotVector` with at least one basis function (every multiplicity in `1 .. p+1`). -/
def GoodMesh (kvs : Mesh) : Prop := (∀ kv ∈ kvs, GoodKV kv) ∧ (∀ kv ∈ kvs, 1 ≤ kv.numdofs)

/-- the spaces produced by `HSpace(kvs, disparity=d)` followed by any sequence of `refine` calls
whose marked cells are active at the time of the call -/
inductive Reachable (kvs : Mesh) (d : Option Nat) : HSpace → Prop
  | init : Reachable kvs d (HSpace.init kvs d)
  | refine {s s' : HSpace} {M M' : Marks} {tr : Bool} :
      Reachable kvs d s → MarksActive s.levels M → s.refine M tr = .ok (s', M') → Reachable kvs d s'

/-- the well-formedness invariant (tiling + selection rule on every level, see `Inv`, `LevelOK`) -/
def WF (kvs : Mesh) (s : HSpace) : Prop :=
  s.kvs = kvs ∧ Inv (tpOps kvs) (VCtp kvs) (VFtp kvs) parTp 0 (VCtp kvs 0) s.levels

/-- the set of level-`lv` cells in the support of function `f` (`TPMesh.support([f])`) -/
abbrev supp (kvs : Mesh) (lv : Nat) (f : Idx) : List Idx := (meshAt kvs lv).support [f]

/-! ## the invariant holds after every history -/

theorem init_wf (kvs : Mesh) (d : Option Nat) (hg : GoodMesh kvs) : WF kvs (HSpace.init kvs d) :=
  ⟨rfl, tp_init_ok kvs hg.1 hg.2, rfl⟩

/-- one `refine` call preserves well-formedness, and the cells it reports as refined are a
superset... of active cells (they were all active). -/
theorem refine_wf (kvs : Mesh) (hg : GoodMesh kvs) (s s' : HSpace) (M M' : Marks) (tr : Bool)
    (hs : WF kvs s) (hM : MarksActive s.levels M) (hr : s.refine M tr = .ok (s', M')) :
    WF kvs s' ∧ MarksActive (ensureLevels s'.levels.length s.levels) M' := by
  obtain ⟨hk, hinv⟩ := hs
  unfold HSpace.refine at hr
  split at hr
  · simp at hr
  · rename_i levels' M'' hrl
    simp only [Except.ok.injEq, Prod.mk.injEq] at hr
    obtain ⟨hs', hM'⟩ := hr
    subst hs'; subst hM'
    have hops : s.ops = tpOps kvs := by rw [← hk]; rfl
    rw [hops] at hrl
    have := refineLevels_inv (tp_laws kvs hg.1 hg.2) s.disparity s.levels levels' M M'' tr hinv hM hrl
    exact ⟨⟨hk, this.1⟩, this.2⟩

theorem reachable_wf (kvs : Mesh) (d : Option Nat) (hg : GoodMesh kvs) {s : HSpace}
    (h : Reachable kvs d s) : WF kvs s := by
  induction h with
  | init => exact init_wf kvs d hg
  | refine _ hM hr ih => exact (refine_wf kvs hg _ _ _ _ _ ih hM hr).1

/-! ## tiling -/

theorem wf_level (kvs : Mesh) {s : HSpace} (h : WF kvs s) (lv : Nat) (hlv : lv < s.numlevels) :
    ∃ Ω, LevelOK (tpOps kvs) (VFtp kvs) lv Ω (s.level lv) := by
  cases lv with
  | zero =>
    cases hl : s.levels with
    | nil => simp [HSpace.numlevels, hl] at hlv
    | cons l rest =>
      have := h.2; rw [hl] at this
      exact ⟨_, by simpa [HSpace.level, hl] using Inv.head this⟩
  | succ i =>
    have := inv_level_succ s.levels 0 _ i h.2 hlv
    exact ⟨_, by simpa [HSpace.level] using this⟩

/-- **tiling.** After any history: `Ω⁰` is the whole coarse mesh; `Ω^{ℓ+1}` is exactly the set of
children of the deactivated cells of level `ℓ`; on every level the active and the deactivated cells
are disjoint and together make up `Ω^ℓ`; nothing is deactivated on the finest level; and every
cell of the finest level has exactly one ancestor-or-self that is an active cell (the active cells
tile the domain exactly once). -/
theorem tiling (kvs : Mesh) (d : Option Nat) (hg : GoodMesh kvs) {s : HSpace} (h : Reachable kvs d s) :
    (∀ c, (c ∈ (s.level 0).act ∨ c ∈ (s.level 0).deact) ↔ VCtp kvs 0 c) ∧
    (∀ lv, lv + 1 < s.numlevels → ∀ c,
      (c ∈ (s.level (lv + 1)).act ∨ c ∈ (s.level (lv + 1)).deact) ↔
        (VCtp kvs (lv + 1) c ∧ parTp c ∈ (s.level lv).deact)) ∧
    (∀ lv c, c ∈ (s.level lv).act → c ∉ (s.level lv).deact) ∧
    (s.level (s.numlevels - 1)).deact = [] ∧
    (∀ c, VCtp kvs (s.numlevels - 1) c → hits parTp s.levels c = 1) := by
  have hw := reachable_wf kvs d hg h
  have L := tp_laws kvs hg.1 hg.2
  refine ⟨?_, ?_, ?_, ?_, ?_⟩
  · intro c
    cases hl : s.levels with
    | nil => have := hw.2; rw [hl] at this; exact this.elim
    | cons l rest =>
      have := hw.2; rw [hl] at this
      simpa [HSpace.level, hl] using (Inv.head this).cover c
  · intro lv hlv c
    have := (inv_level_succ s.levels 0 _ lv hw.2 hlv).cover c
    simpa [HSpace.level] using this
  · intro lv c hc
    by_cases hlv : lv < s.numlevels
    · obtain ⟨Ω, hΩ⟩ := wf_level kvs hw lv hlv
      exact hΩ.disj c hc
    · have : s.level lv = emptyLevel := by
        simp [HSpace.level, List.getD_eq_getElem?_getD,
          List.getElem?_eq_none (Nat.le_of_not_lt hlv : s.levels.length ≤ lv)]
      rw [this] at hc; simp [emptyLevel] at hc
  · exact inv_last s.levels 0 _ hw.2
  · intro c hc
    have := hits_spec L s.levels 0 (VCtp kvs 0) c hw.2 (by simpa [HSpace.numlevels] using hc)
    refine this.1 ?_
    have hv := anc_valid L 0 (s.levels.length - 1) c (by simpa [HSpace.numlevels] using hc)
    exact hv

/-! ## selection rule -/

/-- **Kraft selection rule.** After any history, for every level `ℓ` and every function `f` of the
level-`ℓ` tensor-product basis: `f` is active iff `supp f ⊆ Ω^ℓ` and `supp f ⊄ Ω^{ℓ+1}`; `f` is
deactivated iff `supp f ⊆ Ω^ℓ` and `supp f ⊆ Ω^{ℓ+1}` (with `Ω^ℓ = active[ℓ] ∪ deactivated[ℓ]`
and `Ω^{ℓ+1}` read on level-`ℓ` cells as `deactivated[ℓ]`).  Nothing else is ever in
`actfun[ℓ]`/`deactfun[ℓ]`, and the two sets are disjoint. -/
theorem selection_rule (kvs : Mesh) (d : Option Nat) (hg : GoodMesh kvs) {s : HSpace}
    (h : Reachable kvs d s) (lv : Nat) (hlv : lv < s.numlevels) (f : Idx) :
    (f ∈ (s.level lv).actfun ↔ VFtp kvs lv f ∧
        (∀ c ∈ supp kvs lv f, c ∈ (s.level lv).act ∨ c ∈ (s.level lv).deact) ∧
        ¬ (∀ c ∈ supp kvs lv f, c ∈ (s.level lv).deact)) ∧
    (f ∈ (s.level lv).deactfun ↔ VFtp kvs lv f ∧
        (∀ c ∈ supp kvs lv f, c ∈ (s.level lv).act ∨ c ∈ (s.level lv).deact) ∧
        (∀ c ∈ supp kvs lv f, c ∈ (s.level lv).deact)) := by
  obtain ⟨Ω, hΩ⟩ := wf_level kvs (reachable_wf kvs d hg h) lv hlv
  refine ⟨hΩ.actfun_iff f, ?_⟩
  rw [hΩ.deactfun_iff f]
  constructor
  · rintro ⟨h1, h2⟩; exact ⟨h1, fun c hc => Or.inr (h2 c hc), h2⟩
  · rintro ⟨h1, _, h2⟩; exact ⟨h1, h2⟩

/-- the support used in `selection_rule` is the box of cells `[ms0, ms1)` per axis, i.e. the cells
between the first and last knot of the B-spline (geometric reading of the rule) -/
theorem supp_is_box (kvs : Mesh) (lv : Nat) (f c : Idx) :
    c ∈ supp kvs lv f ↔
      AllIn c (List.zipWith (fun kv j => rangeFT (kv.ms0 j) (kv.ms1 j)) (meshAt kvs lv) f) := by
  unfold supp
  rw [mem_support_singleton]
  exact mem_cart

/-! ## the space is determined by its refined cells -/

/-- **history independence.**  Two reachable spaces over the same coarse mesh with the same number of
levels and the same *sets* of deactivated (refined) cells on every level have the same sets of
active cells, active functions and deactivated functions on every level — whatever the histories,
mark containers, multiplicities of marks, disparities or `truncate` flags that produced them. -/
theorem state_determined_by_deactivated (kvs : Mesh) (d1 d2 : Option Nat) (hg : GoodMesh kvs)
    {s1 s2 : HSpace} (h1 : Reachable kvs d1 s1) (h2 : Reachable kvs d2 s2)
    (hL : s1.numlevels = s2.numlevels)
    (hD : ∀ lv c, c ∈ (s1.level lv).deact ↔ c ∈ (s2.level lv).deact) (lv : Nat) (hlv : lv < s1.numlevels) :
    (∀ c, c ∈ (s1.level lv).act ↔ c ∈ (s2.level lv).act) ∧
    (∀ f, f ∈ (s1.level lv).actfun ↔ f ∈ (s2.level lv).actfun) ∧
    (∀ f, f ∈ (s1.level lv).deactfun ↔ f ∈ (s2.level lv).deactfun) := by
  have t1 := tiling kvs d1 hg h1
  have t2 := tiling kvs d2 hg h2
  have hΩ : ∀ c, ((c ∈ (s1.level lv).act ∨ c ∈ (s1.level lv).deact) ↔
      (c ∈ (s2.level lv).act ∨ c ∈ (s2.level lv).deact)) := by
    intro c
    cases lv with
    | zero => rw [t1.1 c, t2.1 c]
    | succ i => rw [t1.2.1 i hlv c, t2.2.1 i (by omega) c, hD i (parTp c)]
  have hact : ∀ c, c ∈ (s1.level lv).act ↔ c ∈ (s2.level lv).act := by
    intro c
    constructor
    · intro hc
      rcases (hΩ c).1 (Or.inl hc) with h | h
      · exact h
      · exact absurd ((hD lv c).2 h) (t1.2.2.1 lv c hc)
    · intro hc
      rcases (hΩ c).2 (Or.inl hc) with h | h
      · exact h
      · exact absurd ((hD lv c).1 h) (t2.2.2.1 lv c hc)
  refine ⟨hact, ?_, ?_⟩
  · intro f
    rw [(selection_rule kvs d1 hg h1 lv hlv f).1, (selection_rule kvs d2 hg h2 lv (by omega) f).1]
    simp only [hact, hD]
  · intro f
    rw [(selection_rule kvs d1 hg h1 lv hlv f).2, (selection_rule kvs d2 hg h2 lv (by omega) f).2]
    simp only [hact, hD]

/-! ## canonical order -/

/-- **canonical order.** After any history the flat listings `active_functions(flat=True)` and
`active_cells(flat=True)` are strictly increasing in (level, lexicographic multi-index) order —
hence duplicate-free —, contain exactly the active functions / cells, and the function listing has
length `numdofs`: position in the listing is a bijection between `range(numdofs)` and the active
functions. -/
theorem canonical_order (kvs : Mesh) (d : Option Nat) (hg : GoodMesh kvs) {s : HSpace}
    (h : Reachable kvs d s) :
    s.activeFunctionsFlat.Pairwise canonLt ∧ s.activeCellsFlat.Pairwise canonLt ∧
    s.activeFunctionsFlat.length = s.numdofs ∧
    (∀ a : Nat × Idx, a ∈ s.activeFunctionsFlat ↔ a.1 < s.numlevels ∧ a.2 ∈ (s.level a.1).actfun) ∧
    (∀ a : Nat × Idx, a ∈ s.activeCellsFlat ↔ a.1 < s.numlevels ∧ a.2 ∈ (s.level a.1).act) := by
  have hw := reachable_wf kvs d hg h
  have hnd : ∀ l ∈ s.levels, l.actfun.Nodup ∧ l.act.Nodup := by
    intro l hl
    obtain ⟨i, hi, rfl⟩ := List.getElem_of_mem hl
    obtain ⟨Ω, hΩ⟩ := wf_level kvs hw i hi
    have : s.level i = s.levels[i] := by
      simp [HSpace.level, List.getD_eq_getElem?_getD, List.getElem?_eq_getElem hi]
    rw [this] at hΩ
    exact ⟨hΩ.nd_actfun, hΩ.nd_act⟩
  refine ⟨?_, ?_, ?_, ?_, ?_⟩
  · exact pairwise_flat (fun l => sortIdx l.actfun) s.levels 0 (fun l hl => sorted_sortIdx (hnd l hl).1)
  · exact pairwise_flat (fun l => sortIdx l.act) s.levels 0 (fun l hl => sorted_sortIdx (hnd l hl).2)
  · unfold HSpace.activeFunctionsFlat HSpace.numdofs HSpace.numactive
    rw [length_flat (fun l => sortIdx l.actfun)]
    simp
  · intro a
    unfold HSpace.activeFunctionsFlat
    rw [mem_flat (fun l => sortIdx l.actfun)]
    simp [HSpace.numlevels, HSpace.level]
  · intro a
    unfold HSpace.activeCellsFlat
    rw [mem_flat (fun l => sortIdx l.act)]
    simp [HSpace.numlevels, HSpace.level]

/-- raveled indices (`active_indices()[lv]`, `deactivated_indices()[lv]`) of every level are
strictly increasing: `ravel_multi_index` is strictly monotone on in-range multi-indices and the
active functions of a reachable space are in range. -/
theorem ravel_strictly_increasing (kvs : Mesh) (d : Option Nat) (hg : GoodMesh kvs) {s : HSpace}
    (h : Reachable kvs d s) (lv : Nat) (hlv : lv < s.numlevels) :
    ((sortIdx (s.level lv).actfun).map (s.ravel lv)).Pairwise (· < ·) ∧
    ((sortIdx (s.level lv).deactfun).map (s.ravel lv)).Pairwise (· < ·) := by
  have hw := reachable_wf kvs d hg h
  obtain ⟨Ω, hΩ⟩ := wf_level kvs hw lv hlv
  have hm : s.mesh lv = meshAt kvs lv := by rw [← hw.1]; rfl
  constructor
  · refine pairwise_ravel _ _ (sorted_sortIdx hΩ.nd_actfun) ?_
    intro f hf
    rw [hm]
    exact ((hΩ.actfun_iff f).1 (mem_sortIdx.1 hf)).1
  · refine pairwise_ravel _ _ (sorted_sortIdx hΩ.nd_deactfun) ?_
    intro f hf
    rw [hm]
    exact ((hΩ.deactfun_iff f).1 (mem_sortIdx.1 hf)).1

/-! ## the disparity-preserving marking never leaves the active cells -/

/-- the cells `refine` reports as actually refined (`_mark_recursive` closure of the input) are
active cells of the space before the call — for every disparity and both neighbourhood flavours. -/
theorem refined_cells_were_active (kvs : Mesh) (d : Option Nat) (hg : GoodMesh kvs) {s s' : HSpace}
    {M M' : Marks} {tr : Bool} (h : Reachable kvs d s) (hM : MarksActive s.levels M)
    (hr : s.refine M tr = .ok (s', M')) :
    ∀ lv c, c ∈ getM M' lv → c ∈ (s.level lv).act := by
  intro lv c hc
  have := (refine_wf kvs hg s s' M M' tr (reachable_wf kvs d hg h) hM hr).2 lv c hc
  rwa [getD_ensureLevels] at this

/-! ## truncation algebra (matrix level) -/

open Pyiga.Hier.Trunc in
/-- **HB ↔ THB transforms.**  Over any ring, for any number of levels: if every truncation matrix
`A_k = I - truncate_one_level(k)` has its non-zeros only in rows `≥ nt[k]` and columns `< nt[k]`
(rows of level `k+1`, columns of levels `≤ k`: the shape `truncate_one_level` builds), then
`truncate_one_level(k, inverse=True)` is the two-sided inverse of `truncate_one_level(k)` and
`hb_to_thb()`, `thb_to_hb()` are mutually inverse. -/
theorem truncation_algebra {R : Type} [Ring R] {N : Nat} (As : List (Matrix (Fin N) (Fin N) R))
    (hA : ∀ A ∈ As, ∃ a, StrictBlock a A) :
    (∀ A ∈ As, (1 + A) * (1 - A) = 1 ∧ (1 - A) * (1 + A) = 1) ∧
    hbToThb As * thbToHb As = 1 ∧ thbToHb As * hbToThb As = 1 := by
  have hsq : ∀ A ∈ As, A * A = 0 := fun A h => by
    obtain ⟨a, ha⟩ := hA A h
    exact sq_zero_of_strictBlock ha
  exact ⟨fun A h => truncate_inverse_pair (hsq A h), hb_thb_inverse As hsq⟩

open Pyiga.Hier.Trunc in
example : StrictBlock (R := Int) (N := 3) 2 (fun i j => if i.val = 2 ∧ j.val < 2 then 5 else 0) := by
  intro i j h
  by_cases hc : i.val = 2 ∧ j.val < 2
  · omega
  · simp [hc] at h

/-! ## truncated basis: partition of unity and non-negativity -/

/-- **children of deactivated functions stay in the refinement region.**  After any history, every
child `g` (non-zero of the two-scale relation, `HMesh.function_children`) of a deactivated function
`f` of level `lv` is active or deactivated on level `lv+1`.  This is the structural hypothesis
`hstar` of `thb_partition_of_unity`, derived from `selection_rule`, `tiling` and the two-scale
support inclusion `tp_child_support_sub`. -/
theorem children_of_deactivated (kvs : Mesh) (d : Option Nat) (hg : GoodMesh kvs) {s : HSpace}
    (h : Reachable kvs d s) (lv : Nat) (hlv : lv + 1 < s.numlevels) (f g : Idx)
    (hf : f ∈ (s.level lv).deactfun) (hgc : g ∈ s.functionChildren lv [f]) :
    g ∈ (s.level (lv + 1)).actfun ∨ g ∈ (s.level (lv + 1)).deactfun := by
  have hw := reachable_wf kvs d hg h
  have hm : s.mesh lv = meshAt kvs lv := by rw [← hw.1]; rfl
  have hsel := selection_rule kvs d hg h lv (by omega) f
  obtain ⟨hvf, _, hdeact⟩ := hsel.2.1 hf
  have hgc' : g ∈ cart (List.zipWith (fun kv j => kv.funChildren j) (meshAt kvs lv) f) := by
    simpa [HSpace.functionChildren, hm] using hgc
  obtain ⟨hvg, hsub⟩ := tp_child_support_sub kvs hg.1 lv f g hvf hgc'
  have L := tp_laws kvs hg.1 hg.2
  have hcov : ∀ c ∈ supp kvs (lv + 1) g, c ∈ (s.level (lv + 1)).act ∨ c ∈ (s.level (lv + 1)).deact := by
    intro c hc
    refine ((tiling kvs d hg h).2.1 lv hlv c).2 ⟨L.support_valid (lv + 1) g c hvg hc, hdeact _ (hsub c hc)⟩
  have hsel' := selection_rule kvs d hg h (lv + 1) hlv g
  by_cases hall : ∀ c ∈ supp kvs (lv + 1) g, c ∈ (s.level (lv + 1)).deact
  · exact Or.inr (hsel'.2.2 ⟨hvg, hcov, hall⟩)
  · exact Or.inl (hsel'.1.2 ⟨hvg, hcov, hall⟩)

/-- **THB partition of unity and non-negativity (matrix level).**  Over any ordered commutative
ring, for any number of levels `L`, tensor-product prolongations `P k` as parameters with
non-negative entries and unit row sums, `F k`/`G k` the (raveled) active/deactivated functions:
if every level-0 function is active or deactivated, every child of a deactivated function is active
or deactivated one level up (`children_of_deactivated`) and nothing is deactivated on the finest
level (`tiling`), then all entries of the blocks `M` of `represent_fine(truncate=True)` are `≥ 0` and
every row of the assembled matrix sums to one (`blockSum … = 1`). -/
theorem thb_partition_of_unity {R : Type} [CommRing R] [LinearOrder R] [IsStrictOrderedRing R]
    (N : ℕ → ℕ) (P : ℕ → ℕ → ℕ → R) (F G : ℕ → Finset ℕ) (L : ℕ)
    (hP : ∀ k i j, 0 ≤ P k i j)
    (hrow : ∀ k i, i < N (k + 1) → ∑ j ∈ Finset.range (N k), P k i j = 1)
    (h0 : ∀ i, i < N 0 → i ∈ F 0 ∨ i ∈ G 0)
    (hstar : ∀ k i j, i < N (k + 1) → j < N k → P k i j ≠ 0 → j ∈ G k → i ∈ F (k + 1) ∨ i ∈ G (k + 1))
    (htop : G L = ∅) :
    (∀ d r j, 0 ≤ PU.M N P F L d r j) ∧ (∀ r, r < N L → PU.blockSum N P F L r L = 1) :=
  ⟨PU.M_nonneg N P F L hP, fun r hr => by
    rw [PU.blocks_rowsum N P F L r hr]
    exact PU.thb_partition_of_unity N P F G L hrow h0 hstar htop r hr⟩

/-- non-vacuity of `thb_partition_of_unity`: one coarse function, deactivated, with two active
children (`P = [[1],[1]]`). -/
example :
    let N : ℕ → ℕ := fun k => if k = 0 then 1 else if k = 1 then 2 else 0
    let F : ℕ → Finset ℕ := fun k => if k = 1 then {0, 1} else ∅
    ∀ r, r < N 1 → PU.blockSum N (fun _ _ _ => (1 : Int)) F 1 r 1 = 1 := by
  intro N F
  let G : ℕ → Finset ℕ := fun k => if k = 0 then {0} else ∅
  refine (thb_partition_of_unity N (fun _ _ _ => (1 : Int)) F G 1 (fun _ _ _ => by decide) ?_ ?_ ?_ ?_).2
  · intro k i hi
    match k with
    | 0 => simp [N]
    | k + 1 => simp [N] at hi
  · intro i hi
    have : i = 0 := by simp [N] at hi; exact hi
    subst this; right; simp [G]
  · intro k i j hi hj _ hG
    match k with
    | 0 =>
      left
      have : i < 2 := by simpa [N] using hi
      simp [F]; omega
    | k + 1 => simp [G] at hG
  · simp [G]

/-! ## admissibility for finite disparity (default marking) -/

/-- level-`k` cell `c` is one on which the level-`lv` function `f` does not vanish: its ancestor on
level `lv` lies in the support of `f` -/
def overlaps (kvs : Mesh) (lv : Nat) (f : Idx) (k : Nat) (c : Idx) : Prop :=
  lv ≤ k ∧ anc parTp (k - lv) c ∈ supp kvs lv f

/-- histories that only use the default marking (`refine(marked)`, i.e. `truncate=False`) -/
inductive ReachableDefault (kvs : Mesh) (d : Option Nat) : HSpace → Prop
  | init : ReachableDefault kvs d (HSpace.init kvs d)
  | refine {s s' : HSpace} {M M' : Marks} :
      ReachableDefault kvs d s → MarksActive s.levels M → s.refine M false = .ok (s', M') →
      ReachableDefault kvs d s'

theorem reachableDefault_reachable {kvs : Mesh} {d : Option Nat} {s : HSpace}
    (h : ReachableDefault kvs d s) : Reachable kvs d s := by
  induction h with
  | init => exact Reachable.init
  | refine _ hM hr ih => exact Reachable.refine ih hM hr

theorem reachableDefault_J (kvs : Mesh) (d : Nat) (hd : 1 ≤ d) (hg : GoodMesh kvs) {s : HSpace}
    (h : ReachableDefault kvs (some d) s) :
    s.disparity = some d ∧ J (tpOps kvs) (VFtp kvs) parTp d s.levels := by
  induction h with
  | init => exact ⟨rfl, J_init d hd _⟩
  | @refine s s' M M' hs hM hr ih =>
    have hw := reachable_wf kvs (some d) hg (reachableDefault_reachable hs)
    unfold HSpace.refine at hr
    split at hr
    · simp at hr
    · rename_i levels' M'' hrl
      simp only [Except.ok.injEq, Prod.mk.injEq] at hr
      obtain ⟨hs', hM'⟩ := hr
      subst hs'; subst hM'
      have hops : s.ops = tpOps kvs := by rw [← hw.1]; rfl
      rw [hops, ih.1] at hrl
      exact ⟨ih.1, refineLevels_J (tp_laws kvs hg.1 hg.2) (tp_lawsAdm kvs hg.1 hg.2) d hd s.levels levels' M M''
        hw.2 ih.2 hM hrl⟩

/-- **admissibility.**  For a finite disparity `d ≥ 1`, after any history of calls with the default
marking (`truncate=False`), no active function of level `lv` is non-zero on an active cell of
level `> lv + d` (Bracco–Giannelli–Vázquez): the disparity-preserving marking closes the marks under
`_cell_neighborhood`, which keeps the strict-admissibility invariant `J`. -/
theorem admissible (kvs : Mesh) (d : Nat) (hd : 1 ≤ d) (hg : GoodMesh kvs) {s : HSpace}
    (h : ReachableDefault kvs (some d) s) (lv : Nat) (f : Idx) (k : Nat) (c : Idx)
    (hf : f ∈ (s.level lv).actfun) (hc : c ∈ (s.level k).act) (ho : overlaps kvs lv f k c) :
    k ≤ lv + d :=
  admissible_of_J d s.levels (reachable_wf kvs (some d) hg (reachableDefault_reachable h)).2
    (reachableDefault_J kvs d hd hg h).2 lv k f c hf hc ho.1 ho.2

/-! ## support queries: the active cover -/

/-- **active cover (`_TP_to_HMesh_cells_up`, the part of `hmesh_cells`/`compute_supports` acting on
cells inside the refinement region).**  After any history, for a set `cells` of level-`lv` cells of
`Ω^lv`, entry `i` of the result is exactly the set of active cells of level `lv+i` whose level-`lv`
ancestor is in `cells` — by `tiling` these tile `cells` exactly once (smallest active cover). -/
theorem active_cover_up (kvs : Mesh) (d : Option Nat) (hg : GoodMesh kvs) {s : HSpace}
    (h : Reachable kvs d s) (lv : Nat) (hlv : lv < s.numlevels) (cells : List Idx)
    (hc : ∀ c ∈ cells, c ∈ (s.level lv).act ∨ c ∈ (s.level lv).deact)
    (i : Nat) (hi : lv + i < s.numlevels) (c : Idx) :
    c ∈ (tpUp (s.levels.drop lv) cells).getD i [] ↔
      c ∈ (s.level (lv + i)).act ∧ anc parTp i c ∈ cells := by
  have hw := reachable_wf kvs d hg h
  have L := tp_laws kvs hg.1 hg.2
  obtain ⟨Ω', h1, h2, h3⟩ := inv_drop s.levels 0 (VCtp kvs 0) lv hw.2 (fun c hc => hc) hlv
  have := tpUp_mem L (fun _ _ => rfl) (s.levels.drop lv) (0 + lv) Ω' cells h1 h2
    (fun c hcc => (h3 c).2 (hc c hcc)) i c (by simp [HSpace.numlevels] at hi ⊢; omega)
  rw [this]
  simp [lvl, HSpace.level, List.getD_eq_getElem?_getD, List.getElem?_drop]

/-- **active cover, downward part (`_TP_to_HMesh_cells_down`).**  After any history, for any list
`aux` of level-`lv` cells, entry `j` of the result (level `lv-j`) is exactly the set of active cells
of level `lv-j` that are the `j`-th ancestor of some cell of `aux` (the unique active ancestor, by
`tiling`). -/
theorem active_cover_down (kvs : Mesh) (d : Option Nat) (hg : GoodMesh kvs) {s : HSpace}
    (h : Reachable kvs d s) (lv : Nat) (hlv : lv < s.numlevels) (aux : List Idx)
    (j : Nat) (hj : j ≤ lv) (c : Idx) :
    c ∈ (tpDown ((s.levels.take (lv + 1)).reverse) aux).getD j [] ↔
      c ∈ (s.level (lv - j)).act ∧ ∃ q ∈ aux, anc parTp j q = c := by
  have hw := reachable_wf kvs d hg h
  have hlen : ((s.levels.take (lv + 1)).reverse).length = lv + 1 := by
    simp [HSpace.numlevels] at hlv ⊢; omega
  have hl : ∀ i, i ≤ lv → lvl ((s.levels.take (lv + 1)).reverse) i = s.level (lv - i) := by
    intro i hi
    have hlen2 : (s.levels.take (lv + 1)).length = lv + 1 := by simpa using hlen
    simp only [lvl, HSpace.level, List.getD_eq_getElem?_getD]
    rw [List.getElem?_reverse (by omega), hlen2, List.getElem?_take]
    have : lv + 1 - 1 - i = lv - i := by omega
    rw [this, if_pos (by omega)]
  rw [tpDown_mem _ aux j c (by omega), hl j hj]
  constructor
  · rintro ⟨h1, q, hq, hc, _⟩; exact ⟨h1, q, hq, hc⟩
  · rintro ⟨h1, q, hq, hc⟩
    refine ⟨h1, q, hq, hc, ?_⟩
    intro j' hj' hact
    rw [hl j' (by omega)] at hact
    have hΩ : InΩ s.levels (lv - j + (j - j' - 1) + 1) (anc parTp j' q) := by
      rw [show lv - j + (j - j' - 1) + 1 = lv - j' by omega]
      exact Or.inl hact
    have hde := anc_deact s.levels hw.2 (j - j' - 1) (lv - j) _ hΩ
    rw [← anc_add, show j - j' - 1 + 1 + j' = j by omega, hc] at hde
    obtain ⟨Ω, hΩ'⟩ := wf_level kvs hw (lv - j) (by omega)
    exact hΩ'.disj c h1 hde

/-! ## incidence matrix -/

/-- **incidence.**  After any history, `incidence_matrix()` (model: one list of column numbers per
row) has its rows in canonical function order — level by level, functions sorted, i.e. the order of
`active_functions(flat=True)` — and the row of the active function `f` of level `k` is the list of
canonical numbers `encP` of the cells in `cellRow … k f`; a pair `(m, c)` is in that cell row iff
`c` is an active cell of a level `m ≥ k` whose level-`k` ancestor lies in `supp f` (the
cell-prolongation product computes exactly the active descendants of the support); and the
canonical number of an active cell is its position in `active_cells(flat=True)`. -/
theorem incidence (kvs : Mesh) (d : Option Nat) (hg : GoodMesh kvs) {s : HSpace}
    (h : Reachable kvs d s) :
    s.incidence = (mapFrom (fun k (_ : Level) => (sortIdx (s.level k).actfun).map
        (fun f => (cellRow kvs s.levels (s.numlevels - 1) k f).map (encP s.levels))) 0 s.levels).flatten ∧
    (∀ k f m c, k < s.numlevels → f ∈ (s.level k).actfun →
      ((m, c) ∈ cellRow kvs s.levels (s.numlevels - 1) k f ↔
        k ≤ m ∧ m < s.numlevels ∧ c ∈ (s.level m).act ∧ anc parTp (m - k) c ∈ supp kvs k f)) ∧
    (∀ m c, m < s.numlevels → c ∈ (s.level m).act →
      s.activeCellsFlat[encP s.levels (m, c)]? = some (m, c)) := by
  have hw := reachable_wf kvs d hg h
  obtain ⟨hk, hinv⟩ := hw
  refine ⟨?_, ?_, ?_⟩
  · have := incidence_eq s (by rw [hk]; exact hg.1) (by rw [hk]; exact hinv)
    rw [hk] at this
    exact this
  · intro k f m c hkl hf
    exact mem_cellRow_final hg.1 hinv k hkl f hf m c
  · intro m c hm hc
    have h1 := (enc_active s.levels (t := m) (c := c) hm hc).1
    have h2 := flat_getElem_enc s.levels 0 m c hm hc
    unfold HSpace.activeCellsFlat
    show (mapFrom _ 0 s.levels).flatten[encCell s.levels m c]? = _
    rw [h1, h2, Nat.zero_add]

/-! ## linear independence -/

/-- **linear independence (Kraft), relative to local linear independence of B-splines.**  Let
`G : Geometry kvs P R` provide the values `val ℓ f x` of the tensor-product B-splines and the cell
`cellOf ℓ x` containing a point, with the two classical facts as hypotheses: a B-spline vanishes
outside its support cells, and the B-splines that do not vanish on a cell are linearly independent
on that cell.  Then after any refinement history the active functions of all levels are linearly
independent: a combination that vanishes at every point has all coefficients zero. -/
theorem linear_independence (kvs : Mesh) (d : Option Nat) (hg : GoodMesh kvs) {P R : Type} [CommRing R]
    (G : Geometry kvs P R) {s : HSpace} (h : Reachable kvs d s) (a : Nat → Idx → R)
    (h0 : ∀ x, comb G s.levels a x = 0) (l : Nat) (hl : l < s.numlevels) (f : Idx)
    (hf : f ∈ (s.level l).actfun) : a l f = 0 :=
  indep_of_inv G s.levels (reachable_wf kvs d hg h).2 a h0 l hl f hf

/-- the hypotheses of `Geometry` are consistent (zero-dimensional instance: one cell, the constant
function) -/
example : Geometry ([] : Mesh) Unit Int where
  cellOf := fun _ _ => []
  val := fun _ _ _ => 1
  cell_valid := fun _ _ => by simp [VCtp, meshAt, Below]
  cell_par := fun _ _ => rfl
  loc := fun l f x hf hn => by
    have : f = [] := by
      cases f with
      | nil => rfl
      | cons a as => simp [VFtp, meshAt, Below] at hf
    subst this
    exact absurd (by simp [meshAt, Mesh.support, Mesh.supportOne, cart, dedup]) hn
  indep := fun l c a hvc hsum f hf _ => by
    have hf' : f = [] := by
      cases f with
      | nil => rfl
      | cons a as => simp [VFtp, meshAt, Below] at hf
    subst hf'
    have hc : c = [] := by
      cases c with
      | nil => rfl
      | cons a as => simp [VCtp, meshAt, Below] at hvc
    subst hc
    have := hsum () rfl
    simpa [Mesh.functions, meshAt, cart, Mesh.support, Mesh.supportOne, dedup] using this

/-! ## non-vacuity -/

/-- a concrete two-step history (1-D, p = 2, knots `0,0,0,1,2,2,3,4,4,4`, disparity 1, second call
marks two levels at once): the hypotheses are satisfiable and the model state is the expected one. -/
def kvEx : Mesh := [{ p := 2, mults := [3, 1, 2, 1, 3] }]

theorem kvEx_good : GoodMesh kvEx := by
  refine ⟨?_, ?_⟩ <;> intro kv hkv <;> simp [kvEx] at hkv <;> subst hkv
  · exact ⟨by simp, by decide⟩
  · decide

/-- executable form of `MarksActive` -/
def marksActiveB (levels : List Level) (M : Marks) : Bool :=
  (List.range M.length).all (fun lv => (getM M lv).all (fun c => c ∈ (levels.getD lv emptyLevel).act))

theorem marksActive_of_B (levels : List Level) (M : Marks) (h : marksActiveB levels M = true) :
    MarksActive levels M := by
  intro lv c hc
  by_cases hl : lv < M.length
  · simp only [marksActiveB, List.all_eq_true, List.mem_range, decide_eq_true_eq] at h
    exact h lv hl c hc
  · rw [getM_of_length_le M lv (Nat.le_of_not_lt hl)] at hc
    simp at hc

/-- the two-call history exists, satisfies the hypotheses of the theorems, and produces a
three-level space with a deactivated cell on level 1 (so `Reachable` is inhabited non-trivially). -/
def exampleCheck : Bool :=
  match (HSpace.init kvEx (some 1)).refine [[[0], [1]]] false with
  | .ok (s1, _) =>
    marksActiveB (HSpace.init kvEx (some 1)).levels [[[0], [1]]] &&
    marksActiveB s1.levels [[[3]], [[0]]] &&
    (match s1.refine [[[3]], [[0]]] false with
     | .ok (s2, _) => s2.numlevels == 3 && (s2.level 1).deact == [[0]] && (s2.level 0).deactfun.length == 4
     | .error _ => false)
  | .error _ => false

theorem example_history : exampleCheck = true := by decide +kernel

example : ∃ s, Reachable kvEx (some 1) s ∧ s.numlevels = 3 := by
  have h := example_history
  unfold exampleCheck at h
  split at h
  · rename_i s1 M1 h1
    simp only [Bool.and_eq_true] at h
    obtain ⟨⟨ha, hb⟩, h2⟩ := h
    split at h2
    · rename_i s2 M2 h2'
      simp only [Bool.and_eq_true, beq_iff_eq] at h2
      exact ⟨s2, Reachable.refine (Reachable.refine Reachable.init (marksActive_of_B _ _ ha) h1)
        (marksActive_of_B _ _ hb) h2', h2.1.1⟩
    · cases h2
  · cases h

/-! ## negation witness: marks aliasing the space's own sets (defect `refine-aliased-marks`) -/

/-- With the evaluation order of the code as it is, `hs.refine({0: hs.active_cells(0)})` on the
example knot vector deactivates every level-0 cell but no level-0 function: the selection rule is
violated (whereas `refineCore` on the same marks deactivates all seven functions, cf. `refine_wf`).
Replayed on the implementation by `check_aliased_marks` of the harness. -/
theorem aliased_marks_break_selection_rule :
    let s0 := HSpace.init kvEx none
    let M : Marks := [(s0.level 0).act]
    let bad := refineCoreAliased s0.ops (fun _ => true) M (ensureLevels 2 s0.levels)
    let good := refineCore s0.ops M (ensureLevels 2 s0.levels)
    (bad.getD 0 emptyLevel).act = [] ∧ (bad.getD 0 emptyLevel).deact.length = 4 ∧
    (bad.getD 0 emptyLevel).deactfun = [] ∧ (bad.getD 0 emptyLevel).actfun.length = 7 ∧
    (good.getD 0 emptyLevel).deactfun.length = 7 ∧ (good.getD 0 emptyLevel).actfun = [] := by
  decide +kernel

/-- the same history uses only the default marking with disparity 1: `admissible` is not vacuous -/
example : ∃ s, ReachableDefault kvEx (some 1) s ∧ s.numlevels = 3 := by
  have h := example_history
  unfold exampleCheck at h
  split at h
  · rename_i s1 M1 h1
    simp only [Bool.and_eq_true] at h
    obtain ⟨⟨ha, hb⟩, h2⟩ := h
    split at h2
    · rename_i s2 M2 h2'
      simp only [Bool.and_eq_true, beq_iff_eq] at h2
      exact ⟨s2, ReachableDefault.refine (ReachableDefault.refine ReachableDefault.init
        (marksActive_of_B _ _ ha) h1) (marksActive_of_B _ _ hb) h2', h2.1.1⟩
    · cases h2
  · cases h

end Pyiga.Props.C04
