/-
Property C16 — linear-operator building blocks equal their dense definitions.
Property theorems only (helper lemmas live in Proofs/LinAlg, Proofs/Tprod, Proofs/Operators).

Scalars: an arbitrary commutative (semi)ring `α`.  Every statement quantifies over an arbitrary
number of factors / blocks / trailing axes and arbitrary (rectangular) extents; proofs are by
induction over the factor list (`loopF_spec`, `foldr_agree`), never by enumeration.
-/
import Pyiga.Proofs.Tprod
import Pyiga.Proofs.KronDense
import Pyiga.Proofs.Operators
import Pyiga.Proofs.Blocks
import Pyiga.Proofs.CsrSubspace
import Pyiga.Proofs.Linops
import Pyiga.Proofs.FastDiag

namespace Pyiga.Props.C16
open Pyiga.Index Pyiga.LA Pyiga.Ops

variable {α : Type} [CommSemiring α]

/-! ## `apply_tprod` -/

/-- **apply_tprod_spec.**  For any number of factors (ndarray / sparse / LinearOperator — the
`tensordot` path or the `_modek_tensordot_sparse` path per factor — or `None` placeholders), any
rectangular extents and any trailing axes: if the leading axes of `A` match the factors' column counts
(`ColsOk`), then `apply_tprod` succeeds, the result has shape `rows ++ trailing`, and
`apply_tprod(ops, A)[i₀…i_{n-1}, t] = Σ_j ∏_k ops_k[i_k, j_k] · A[j₀…j_{n-1}, t]`. -/
theorem apply_tprod_spec (ops : List (Option (Op α))) (A : Tensor α) (cols trail : List Nat)
    (hs : A.shape = cols ++ trail) (hc : ColsOk ops cols) :
    ∃ T, applyTprod ops A = .ok T ∧ T.shape = rowsOf ops cols ++ trail ∧
      ∀ i t, Below i (rowsOf ops cols) → Below t trail →
        T.get (i ++ t) = boxSum cols (fun j => kronEntry (ops.map entOf) i j * A.get (j ++ t)) :=
  applyTprod_spec ops A cols trail hs hc

/-- shape clause alone -/
theorem apply_tprod_shape (ops : List (Option (Op α))) (A : Tensor α) (cols trail : List Nat)
    (hs : A.shape = cols ++ trail) (hc : ColsOk ops cols) :
    ∃ T, applyTprod ops A = .ok T ∧ T.shape = rowsOf ops cols ++ trail := by
  obtain ⟨T, h1, h2, _⟩ := applyTprod_spec ops A cols trail hs hc
  exact ⟨T, h1, h2⟩

/-- non-vacuity: three rectangular factors of different kinds, one placeholder, one trailing axis -/
example : ColsOk (α := Int)
    [some ⟨.dense, 2, 3, fun i j => i + j⟩, none, some ⟨.csr, 1, 2, fun _ j => j⟩] [3, 4, 2] := by
  simp [ColsOk]

/-- **Corollary (Kronecker form).**  Without trailing axes the result, read in C order, is
`(ops₀ ⊗ … ⊗ ops_{n-1}) · vec(A)`: entry `I` is `Σ_{J < ∏cols} K[I,J] · vec(A)[J]` with
`K[I,J] = ∏_k ops_k[unravel(I)_k, unravel(J)_k]` — exactly `numpy.kron` of the factors. -/
theorem apply_tprod_kron_vec (ops : List (Option (Op α))) (A : Tensor α) (cols : List Nat)
    (hs : A.shape = cols) (hc : ColsOk ops cols) :
    ∃ T, applyTprod ops A = .ok T ∧ T.shape = rowsOf ops cols ∧
      ∀ I, I < prod (rowsOf ops cols) →
        T.data.getD I 0 = ∑ J ∈ Finset.range (prod cols),
          kronEntry (ops.map entOf) (fromSeq I (rowsOf ops cols)) (fromSeq J cols) * A.data.getD J 0 :=
  applyTprod_kron_vec ops A cols hs hc

/-- **`_modek_tensordot_sparse` = `tensordot`.**  The sparse/LinearOperator path (roll axis `k` to the
front, matricize, `B.dot`, reshape back) and `np.tensordot(B, X, axes=([1],[k]))` produce the same
array, for every shape and every axis. -/
theorem modek_sparse_eq_tensordot (B : Op α) (X : Tensor α) (k : Nat)
    (hk : k < X.shape.length) (hn : X.shape.getD k 0 = B.n) :
    ∃ T, modekTensordotSparse B X k = .ok T ∧
      T.shape = (contractFront B.ent B.m B.n k X).shape ∧
      ∀ idx, Below idx T.shape → T.get idx = (contractFront B.ent B.m B.n k X).get idx := by
  obtain ⟨T, h1, h2, h3⟩ := modekSparse_agree B X k X.get (agree_get X) hk hn
  refine ⟨T, h1, by simp [h2, contractFront], ?_⟩
  intro idx hb
  have hc := contractFront_agree B.ent B.m B.n k X X.get (agree_get X) hk hn.symm
  rw [h3 idx hb, hc idx (by simpa [h2, contractFront] using hb)]

/-! ## `_apply_kronecker_dense` / KroneckerOperator (dense path) -/

/-- **kron_dense_spec.**  For factors of any shapes and a right-hand side of shape `(N,)`, `(N,1)` or
`(N,m)` (`N = ∏ cols`), `_apply_kronecker_dense` succeeds with shape `(M,) ++ x.shape[1:]`
(`M = ∏ rows`) and `y[I(,k)] = Σ_J (⊗ops)[I,J] · x[J(,k)]`; the `(N,1)` input takes the vector path
(no trailing axis in `shape_in`) and still yields `(M,1)`. -/
theorem kron_dense_spec (ops : List (Op α)) (x : Tensor α) (tl : List Nat)
    (hx : x.shape = prod (ops.map (·.n)) :: tl) (htl : tl = [] ∨ ∃ m, tl = [m] ∧ 0 < m) :
    ∃ T, applyKroneckerDense ops x = .ok T ∧ T.shape = prod (ops.map (·.m)) :: tl ∧
      ∀ i k, Below i (ops.map (·.m)) → Below k tl →
        T.get (toSeq i (ops.map (·.m)) :: k)
          = boxSum (ops.map (·.n)) (fun j =>
              kronEntry (ops.map (·.ent)) i j * x.get (toSeq j (ops.map (·.n)) :: k)) :=
  applyKroneckerDense_spec ops x tl hx htl

/-! ## Kronecker algebra: mixed product and inverse -/

/-- **Mixed-product property**, any number of factors, rectangular:
`(A₀⊗…⊗A_{n-1})(B₀⊗…⊗B_{n-1}) = (A₀B₀)⊗…⊗(A_{n-1}B_{n-1})`, entrywise on multi-indices. -/
theorem kron_mixed_product (facs : List ((Nat → Nat → α) × (Nat → Nat → α) × Nat)) (I K : List Nat) :
    boxSum (facs.map (·.2.2)) (fun J => kronEntry (facs.map (·.1)) I J * kronEntry (facs.map (·.2.1)) J K)
      = kronEntry (facs.map (fun f => mulEnt f.1 f.2.1 f.2.2)) I K :=
  kron_mixed facs I K

/-- **kron_inverse.**  If every factor solver satisfies its contract `S_k · B_k = 1` on `n_k × n_k`
(`make_solver`), then `(S₀⊗…⊗S_{n-1})(B₀⊗…⊗B_{n-1}) = 1`: `make_kronecker_solver` applies the inverse
of the Kronecker product. -/
theorem kron_inverse (facs : List ((Nat → Nat → α) × (Nat → Nat → α) × Nat))
    (hinv : ∀ f ∈ facs, ∀ i k, i < f.2.2 → k < f.2.2 → mulEnt f.1 f.2.1 f.2.2 i k = delta i k)
    (I K : List Nat) (hI : Below I (facs.map (·.2.2))) (hK : Below K (facs.map (·.2.2))) :
    boxSum (facs.map (·.2.2)) (fun J => kronEntry (facs.map (·.1)) I J * kronEntry (facs.map (·.2.1)) J K)
      = if I = K then 1 else 0 :=
  kron_inv facs hinv I K hI hK

/-- non-vacuity of the solver contract: `[[2,1],[1,1]] · [[1,-1],[-1,2]] = 1` over `Int` -/
def exB : Nat → Nat → Int := fun i j => if i = 0 ∧ j = 0 then 2 else 1
def exS : Nat → Nat → Int := fun i j => if i = 0 ∧ j = 0 then 1 else if i = 1 ∧ j = 1 then 2 else -1
example : ∀ f ∈ [(exS, exB, 2), (exS, exB, 2)], ∀ i k, i < f.2.2 → k < f.2.2 →
    mulEnt f.1 f.2.1 f.2.2 i k = delta i k := by
  intro f hf i k hi hk
  simp only [List.mem_cons, List.not_mem_nil, or_false, or_self] at hf
  subst hf
  have h2 : ∀ i, i < 2 → i = 0 ∨ i = 1 := by omega
  rcases h2 i hi with rfl | rfl <;> rcases h2 k hk with rfl | rfl <;> decide

/-! ## Block operators -/

/-- `_sizes_to_ranges`: consecutive ranges `[Σ_{l<k} s_l, Σ_{l≤k} s_l)`. -/
theorem sizes_to_ranges_spec (sizes : List Nat) :
    sizesToRanges sizes = consecutive 0 sizes :=
  sizesToRanges_eq sizes

/-- **block_spec** (vector argument).  With in-bounds ranges and blocks of matching shapes,
`BaseBlockOperator._matvec` (hence `BlockOperator` / `BlockDiagonalOperator`, whose ranges come from
`_sizes_to_ranges` and whose `None`/`NullOperator` entries are skipped, i.e. contribute zero blocks)
computes `y[r] = Σ_c D[r,c]·x[c]` with `D = blockDense`, the sum of the blocks placed at their ranges. -/
theorem block_spec (B : BaseBlock α) (x : Tensor α) (hx : x.shape = [B.N]) (hw : B.WellFormed) :
    ∃ y, blockAccum B x (Tensor.ofFn [B.M] (fun _ => 0)) = .ok y ∧ y.shape = [B.M] ∧
      ∀ r, r < B.M → y.get [r] = sumRange B.N (fun c => B.blockDense r c * x.get [c]) :=
  blockAccum_spec B x hx hw

/-- **Transpose**: swapping `ran_in`/`ran_out` and transposing every block transposes the block matrix. -/
theorem block_transpose (B : BaseBlock α) (r c : Nat) : B.T.blockDense r c = B.blockDense c r :=
  blockDense_T B r c

theorem block_transpose_wf (B : BaseBlock α) (hw : B.WellFormed) : B.T.WellFormed :=
  wellFormed_T B hw

/-! ## Fast diagonalisation (Mathlib matrices over a commutative ring) -/

section fastdiag
open Matrix
open scoped Kronecker
variable {n m K : Type*} [Fintype n] [DecidableEq n] [Fintype m] [DecidableEq m] [CommRing K]

/-- **fastdiag (abstract).**  If `Uᵀ A U = D`, `D` has the two-sided inverse `Dinv` (a diagonal matrix
with non-zero entries in the application) and `U` is invertible, then `U · Dinv · Uᵀ` is a left inverse
of `A`. -/
theorem fastdiag_abstract (A U V D Dinv : Matrix n n K) (hD : Uᵀ * A * U = D) (hDi : Dinv * D = 1)
    (hUV : U * V = 1) : (U * Dinv * Uᵀ) * A = 1 :=
  Pyiga.Ops.fastdiag_abs A U V D Dinv hD hDi hUV

/-- **fastdiag, d = 1**: `K U = M U Λ`, `Uᵀ M U = 1` (what `eigh(K, M)` returns), `Λ⁻¹ Λ = 1`
⇒ `(U Λ⁻¹ Uᵀ) K = 1`. -/
theorem fastdiag_1d (Km M U L Linv : Matrix n n K) (hgen : Km * U = M * U * L) (horth : Uᵀ * M * U = 1)
    (hL : Linv * L = 1) : (U * Linv * Uᵀ) * Km = 1 :=
  Pyiga.Ops.fastdiag_one Km M U L Linv hgen horth hL

/-- **fastdiag, d = 2**: with generalised eigenpairs in each direction,
`(U₁⊗U₂) · Dinv · (U₁⊗U₂)ᵀ` inverts `K₁⊗M₂ + M₁⊗K₂`, where `Dinv` inverts `Λ₁⊗1 + 1⊗Λ₂`
(the code's `diag = kron(λ₁, 1) + kron(1, λ₂)`). -/
theorem fastdiag_2d (K1 M1 U1 L1 : Matrix n n K) (K2 M2 U2 L2 : Matrix m m K) (Dinv : Matrix (n × m) (n × m) K)
    (h1 : K1 * U1 = M1 * U1 * L1) (o1 : U1ᵀ * M1 * U1 = 1)
    (h2 : K2 * U2 = M2 * U2 * L2) (o2 : U2ᵀ * M2 * U2 = 1)
    (hD : Dinv * (L1 ⊗ₖ (1 : Matrix m m K) + (1 : Matrix n n K) ⊗ₖ L2) = 1) :
    ((U1 ⊗ₖ U2) * Dinv * (U1 ⊗ₖ U2)ᵀ) * (K1 ⊗ₖ M2 + M1 ⊗ₖ K2) = 1 :=
  Pyiga.Ops.fastdiag_two K1 M1 U1 L1 K2 M2 U2 L2 Dinv h1 o1 h2 o2 hD

/-- **fastdiag, d = 3**: `((U₁⊗U₂)⊗U₃) · Dinv · (…)ᵀ` inverts `K₁⊗M₂⊗M₃ + M₁⊗K₂⊗M₃ + M₁⊗M₂⊗K₃`, where
`Dinv` inverts `Λ₁⊗1⊗1 + 1⊗Λ₂⊗1 + 1⊗1⊗Λ₃` (the code's `diag = Σ_d kron(1,…,λ_d,…,1)`). -/
theorem fastdiag_3d {l : Type*} [Fintype l] [DecidableEq l]
    (K1 M1 U1 L1 : Matrix n n K) (K2 M2 U2 L2 : Matrix m m K) (K3 M3 U3 L3 : Matrix l l K)
    (Dinv : Matrix ((n × m) × l) ((n × m) × l) K)
    (h1 : K1 * U1 = M1 * U1 * L1) (o1 : U1ᵀ * M1 * U1 = 1)
    (h2 : K2 * U2 = M2 * U2 * L2) (o2 : U2ᵀ * M2 * U2 = 1)
    (h3 : K3 * U3 = M3 * U3 * L3) (o3 : U3ᵀ * M3 * U3 = 1)
    (hD : Dinv * ((L1 ⊗ₖ (1 : Matrix m m K)) ⊗ₖ (1 : Matrix l l K)
                + ((1 : Matrix n n K) ⊗ₖ L2) ⊗ₖ (1 : Matrix l l K)
                + ((1 : Matrix n n K) ⊗ₖ (1 : Matrix m m K)) ⊗ₖ L3) = 1) :
    (((U1 ⊗ₖ U2) ⊗ₖ U3) * Dinv * ((U1 ⊗ₖ U2) ⊗ₖ U3)ᵀ)
      * ((K1 ⊗ₖ M2) ⊗ₖ M3 + (M1 ⊗ₖ K2) ⊗ₖ M3 + (M1 ⊗ₖ M2) ⊗ₖ K3) = 1 :=
  Pyiga.Ops.fastdiag_three K1 M1 U1 L1 K2 M2 U2 L2 K3 M3 U3 L3 Dinv h1 o1 h2 o2 h3 o3 hD

/-- non-vacuity (d = 1, 1×1 matrices over ℤ): `K = 6, M = 1, U = 1, Λ = 6`… needs a field for `Λ⁻¹`;
over ℤ take `K = M = U = Λ = Λ⁻¹ = 1`. -/
example : (1 : Matrix (Fin 2) (Fin 2) Int) * 1 = 1 * 1 * 1 ∧ (1 : Matrix (Fin 2) (Fin 2) Int)ᵀ * 1 * 1 = 1 := by
  simp

end fastdiag

/-! ## `_apply_kronecker_linops`, SubspaceOperator, CSR row slices -/

/-- **kron_linops_spec.**  The column-major sweep algorithm (`q0.reshape(order='F')`, `q1.resize`, per
right-hand-side blocks, swap) equals the same Kronecker product: for ≥ 2 square factors and an `(N, n)`
right-hand side, `y[I,k] = Σ_J (⊗ops)[I,J] · x[J,k]`.  (One factor: the code returns `ops[0].dot(x)`.)
The loop invariant is `loopF_spec` with the right-hand-side index as untouched head axis. -/
theorem kron_linops_spec (ops : List (Op α)) (x : Tensor α) (nrhs : Nat)
    (hlen : 2 ≤ ops.length) (hsq : ∀ B ∈ ops, B.m = B.n)
    (hx : x.shape = [prod (ops.map (·.n)), nrhs]) :
    ∃ T, applyKroneckerLinops ops x = .ok T ∧ T.shape = x.shape ∧
      ∀ i k, Below i (ops.map (·.n)) → k < nrhs →
        T.get [toSeq i (ops.map (·.n)), k]
          = boxSum (ops.map (·.n)) (fun j => kronEntry (ops.map (·.ent)) i j * x.get [toSeq j (ops.map (·.n)), k]) :=
  applyKroneckerLinops_spec ops x nrhs hlen hsq hx

/-- non-vacuity: two square factors of different sizes -/
example : ∀ B ∈ [(⟨.linop, 2, 2, fun i j => (i + j : Int)⟩ : Op Int), ⟨.csr, 3, 3, fun i _ => (i : Int)⟩], B.m = B.n := by
  intro B hB
  simp only [List.mem_cons, List.not_mem_nil, or_false] at hB
  rcases hB with rfl | rfl <;> rfl

/-- **subspace_spec.**  `SubspaceOperator._matvec` computes `Σ_j P_j (B_j (P_jᵀ x))`
(with `B_jᵀ` when `_is_transpose`), for any family of prolongations `P_j : n × n_j`, `B_j : n_j × n_j`. -/
theorem subspace_spec (Ps Bs : List (Op α)) (isT : Bool) (x : Tensor α) (n : Nat)
    (hok : ∀ p ∈ Ps.zip Bs, SubOk n p) (hx : x.shape = [n]) :
    ∃ y, subspaceMatvec Ps Bs isT x = .ok y ∧ y.shape = [n] ∧
      ∀ r, r < n → y.get [r] = ((Ps.zip Bs).map (fun p => subspaceTerm p.1 p.2 isT n x r)).sum :=
  subspaceMatvec_spec Ps Bs isT x n hok hx

/-- **csr_row_slice.**  `CSRRowSlice(A,(a,b)).dot(x)` equals rows `[a,b)` of the dense matrix the CSR
arrays denote (duplicates summed) times `x`, for a vector … -/
theorem csr_row_slice (A : CSR α) (a b : Nat) (x : Tensor α) (hab : a ≤ b) (hb : b ≤ A.nrows)
    (hx : x.shape = [A.ncols]) (hr : ∀ i, i < b - a → RowInRange A (a + i)) :
    ∃ y, csrRowSlice A a b x = .ok y ∧ y.shape = [b - a] ∧
      ∀ i, i < b - a → y.get [i] = sumRange A.ncols (fun c => csrDense A (a + i) c * x.get [c]) :=
  csrRowSlice_spec A a b x hab hb hx hr

/-- … and for several columns. -/
theorem csr_row_slice_mat (A : CSR α) (a b K : Nat) (x : Tensor α) (hab : a ≤ b) (hb : b ≤ A.nrows)
    (hx : x.shape = [A.ncols, K]) (hr : ∀ i, i < b - a → RowInRange A (a + i)) :
    ∃ y, csrRowSlice A a b x = .ok y ∧ y.shape = [b - a, K] ∧
      ∀ i k, i < b - a → k < K →
        y.get [i, k] = sumRange A.ncols (fun c => csrDense A (a + i) c * x.get [c, k]) :=
  csrRowSlice_spec_mat A a b K x hab hb hx hr

/-- `CSRRowSubset(A, rows).dot(x)`: the listed rows (any order, repetitions allowed) times `x`. -/
theorem csr_row_subset (A : CSR α) (rows : List Nat) (x : Tensor α) (hx : x.shape = [A.ncols])
    (hr : ∀ r ∈ rows, RowInRange A r) :
    ∃ y, csrRowSubset A rows x = .ok y ∧ y.shape = [rows.length] ∧
      ∀ i, (hi : i < rows.length) →
        y.get [i] = sumRange A.ncols (fun c => csrDense A rows[i] c * x.get [c]) :=
  csrRowSubset_spec A rows x hx hr

/-! ## words over `{T, H}` -/

/-- **Transposition is an involution on every operator class** (model side of `.T.T`, `.H.H`, `.T.H = .H.T`):
operands, Kronecker factor tuples, block operators, subspace operators. -/
theorem transpose_involutive (B : Op α) (ops : List (Op α)) (Bb : BaseBlock α) (S : Subspace α) :
    B.T.T = B ∧ kronT (kronT ops) = ops ∧ Bb.T.T = Bb ∧ S.T.T = S ∧ S.H.H = S ∧ S.T.H = S.H.T :=
  ⟨Op.T_T B, kronT_kronT ops, BaseBlock.T_T Bb, Subspace.T_T S, Subspace.H_H S, Subspace.T_H_comm S⟩

/-- **`X.T.H` acts like `X`** for a `SubspaceOperator` (real data): the adjoint carries the
`_is_transpose` flag over, so transposing the `B_j` and flipping the flag cancel — for any family of
subspaces and nonsymmetric `B_j`.  (Dropping the flag in `_adjoint` makes this false; the executable
model is then the witness the correspondence stream compares with.) -/
theorem subspace_T_H_same (S : Subspace α) (x : Tensor α) (n : Nat)
    (hok : ∀ p ∈ S.Ps.zip S.Bs, SubOk n p) (hx : x.shape = [n]) :
    ∃ y y', subspaceMatvec S.T.H.Ps S.T.H.Bs S.T.H.isT x = .ok y ∧ subspaceMatvec S.Ps S.Bs S.isT x = .ok y' ∧
      y.shape = [n] ∧ y'.shape = [n] ∧ ∀ r, r < n → y.get [r] = y'.get [r] :=
  subspace_TH_same S x n hok hx

end Pyiga.Props.C16
