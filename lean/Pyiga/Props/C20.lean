/-
Property C20 — the on-disk compile cache survives crashes and concurrent compilation.
Property theorems only (model: Pyiga/Model/CompileCache.lean, lemmas: Proofs/CompileCache.lean).

Quantifiers: *every* list of scheduler events (any number of processes, any interleaving at
step granularity, kills between and inside any write, restarts), every source, every digest
function that is injective (assumption "digest injectivity"); `pub` is one atomic step
(assumption "POSIX rename atomicity"); tools turn complete inputs into complete outputs
(toolchain contract); `mkdtemp` returns a name never used before.

* current protocol (`pyiga/compile.py` before fix bd865f5): `¬ Safe .current`, by concrete traces;
* repaired protocol (/repo since bd865f5 = fixes/C20-atomic-publish.patch): `Safe .repaired`, through an
  inductive invariant, plus stability of published entries, liveness and recovery.
-/
import Pyiga.Proofs.CompileCache

namespace Pyiga.Props.C20
open Pyiga.CompileCache

/-- What the property demands of a state: every final path is absent or a complete module
for a source with that digest; no request has killed the interpreter (`crashed`) or raised
(`failed`); a request that returned got the module of *its own* source. -/
def Good (digest : Src → Nat) (σ : State) : Prop :=
  (∀ n, σ.dir (final n) = .absent ∨ ∃ s, σ.dir (final n) = .complete s ∧ digest s = n) ∧
  (∀ i, (σ.procs i).pc ≠ .crashed ∧ (σ.procs i).pc ≠ .failed ∧
        ∀ s, (σ.procs i).pc = .loaded s → s = (σ.procs i).src)

def isFault : Event → Bool
  | .fault _ _ => true
  | _ => false

/-- traces made of the protocol's own behaviour only: spawns, steps, kills -/
def NoFault (tr : List Event) : Prop := ∀ e ∈ tr, isFault e = false

instance (tr : List Event) : Decidable (NoFault tr) :=
  inferInstanceAs (Decidable (∀ e ∈ tr, isFault e = false))

/-- A protocol is safe if `Good` holds after every fault-free trace from the empty cache. -/
def Safe (proto : Proto) : Prop :=
  ∀ digest : Src → Nat, Function.Injective digest →
    ∀ tr : List Event, NoFault tr → Good digest (exec proto digest State.init tr)

/-! ## the current protocol is not safe (defect D12) -/

/-- eight steps of a lone builder: import fails, `.pyx`, `.c`, `.o` written, the linker has
opened the final path (`shared 7 .so = part`) -/
def toMidLink (i : Nat) : List Event := runs i false 8

/-- Witness 1 (crash, then restart): a builder is killed while the linker writes the final
path; the next fresh process imports the truncated file and the interpreter dies. -/
def witnessCrash : List Event :=
  [.spawn 0 7] ++ toMidLink 0 ++ [.kill 0, .spawn 1 7, .run 1 true]

theorem current_interrupted_link_leaves_partial :
    (exec .current id State.init ([.spawn 0 7] ++ toMidLink 0 ++ [.kill 0])).dir (final 7) = .part := by
  decide

theorem current_crash_witness :
    ((exec .current id State.init witnessCrash).procs 1).pc = .crashed := by decide

/-- … and the damage persists: every later fresh process meets the same file (this is why
`scripts/clear-cache.py` exists). -/
theorem current_crash_persists :
    ((exec .current id State.init (witnessCrash ++ [.spawn 2 7, .run 2 true])).procs 2).pc = .crashed ∧
    (exec .current id State.init (witnessCrash ++ [.spawn 2 7, .run 2 true])).dir (final 7) = .part := by
  decide

/-- Witness 2 (pure race, nobody is killed): a second process imports while the first one's
linker is writing the final path. -/
def witnessRaceImport : List Event := [.spawn 0 7] ++ toMidLink 0 ++ [.spawn 1 7, .run 1 true]

theorem current_race_import_witness :
    ((exec .current id State.init witnessRaceImport).procs 1).pc = .crashed := by decide

/-- Witness 3 (pure race between two builders, no kill, no loader nondeterminism): B reopens
the shared `.pyx` (truncating it) just before A's `cythonize` reads it; A's request raises. -/
def witnessRaceBuild : List Event :=
  [.spawn 0 7] ++ runs 0 false 3 ++ [.spawn 1 7] ++ runs 1 false 2 ++ [.run 0 false]

theorem current_race_build_witness :
    ((exec .current id State.init witnessRaceBuild).procs 0).pc = .failed := by decide

theorem noFault_witnessCrash : NoFault witnessCrash := by decide
theorem noFault_witnessRaceImport : NoFault witnessRaceImport := by decide

/-- **`¬ safe current`.** -/
theorem current_unsafe : ¬ Safe .current := by
  intro h
  have := (h id (fun _ _ h => h) witnessRaceImport noFault_witnessRaceImport).2 1
  exact this.1 current_race_import_witness

/-- … while a *lone, uninterrupted* process of the current protocol is fine whatever stale
`.pyx/.c/.o` files it finds (it rewrites them all) — which is all the test-suite exercises,
and what the fault stream observes for those three kinds of files. -/
theorem current_lone_builder_ok (digest : Src → Nat) (σ : State) (i : Nat) (s : Src)
    (hi : (σ.procs i).pc = .unborn) (c : Bool)
    (h : σ.dir (final (digest s)) = .absent ∨ (σ.dir (final (digest s)) = .part ∧ c = false)) :
    ((exec .current digest σ (.spawn i s :: runs i c 10)).procs i).pc = .loaded s := by
  rcases h with h | ⟨h, hc⟩
  · have h' : σ.dir (Path.shared (digest s) Kind.so) = .absent := h
    simp [exec, runs, List.replicate, step, hi, State.setProc, pstep, importStep, h', readSrc,
      fileAt, final, Dir.set]
  · subst hc
    have h' : σ.dir (Path.shared (digest s) Kind.so) = .part := h
    simp [exec, runs, List.replicate, step, hi, State.setProc, pstep, importStep, h', readSrc,
      fileAt, final, Dir.set]

/-! ## the repaired protocol is safe -/

theorem noFault_admissible (digest : Src → Nat) (tr : List Event) :
    ∀ σ, NoFault tr → AdmissibleTrace digest σ tr := by
  induction tr with
  | nil => intro _ _; trivial
  | cons e tr ih =>
      intro σ h
      refine ⟨?_, ih _ (fun e' he' => h e' (List.mem_cons_of_mem _ he'))⟩
      have he := h e (List.mem_cons_self ..)
      cases e <;> simp [isFault] at he <;> simp [Admissible]

theorem good_of_inv {digest : Src → Nat} {σ : State} (h : Inv digest σ) : Good digest σ := by
  refine ⟨h.final_ok, fun i => ?_⟩
  have := h.procs_ok i
  refine ⟨?_, ?_, ?_⟩
  · intro hc; rw [hc] at this; simp [ProcOK] at this
  · intro hc; rw [hc] at this; simp [ProcOK] at this
  · intro s hs; rw [hs] at this; simpa [ProcOK] using this

/-- **`safe repaired`, general form.**  From *any* state satisfying the invariant (in
particular any state reachable through crashes) and for every admissible trace — all
interleavings, process counts, kill points, restarts, and arbitrary corruption of stale
build directories and of the old layout's `.pyx/.c/.o` files — the state stays `Good`:
the final path is always absent or complete with `digest src = name`, no import ever meets a
partial file, no request raises, every returned module is the requester's own source. -/
theorem safe_repaired_from (digest : Src → Nat) (hinj : Function.Injective digest)
    (σ : State) (hσ : Inv digest σ) (tr : List Event) (ha : AdmissibleTrace digest σ tr) :
    Good digest (exec .repaired digest σ tr) :=
  good_of_inv (exec_inv hinj tr σ hσ ha)

/-- **`safe repaired`.** -/
theorem safe_repaired : Safe .repaired := by
  intro digest hinj tr htr
  exact safe_repaired_from digest hinj _ (Inv_init digest) tr (noFault_admissible digest tr _ htr)

/-- **A published entry is never replaced by different content**: once the final path of
module `n` holds the complete module of source `s`, it holds exactly that after every
admissible trace (later publishes of the same name carry the same source, by digest
injectivity; nothing else writes the final path). -/
theorem published_never_replaced (digest : Src → Nat) (hinj : Function.Injective digest)
    (tr : List Event) : ∀ (σ : State), Inv digest σ → AdmissibleTrace digest σ tr →
    ∀ n s, σ.dir (final n) = .complete s →
      (exec .repaired digest σ tr).dir (final n) = .complete s := by
  induction tr with
  | nil => intro σ _ _ n s h; exact h
  | cons e tr ih =>
      intro σ hσ ha n s h
      exact ih _ (step_inv hinj hσ e ha.1) ha.2 n s (step_final_stable hinj hσ e ha.1 n s h)

/-- **Every request that is scheduled and not itself killed succeeds** with the module of
its own source, under arbitrary interference (see `request_succeeds`). -/
theorem request_succeeds (digest : Src → Nat) (hinj : Function.Injective digest) (i : Nat)
    (tr : List Event) (σ : State) (hσ : Inv digest σ) (ha : AdmissibleTrace digest σ tr)
    (hk : noKill i tr) (hact : Active (σ.procs i).pc) (hr : rank (σ.procs i).pc ≤ runsOf i tr) :
    ((exec .repaired digest σ tr).procs i).pc = .loaded (σ.procs i).src :=
  Pyiga.CompileCache.request_succeeds hinj i tr σ hσ ha hk hact hr

theorem runsOf_runs (i : Nat) (c : Bool) (k : Nat) : runsOf i (runs i c k) = k := by
  induction k with
  | zero => rfl
  | succ k ih => simp only [runs, List.replicate] at ih ⊢; simp only [runsOf, if_true, ih]; omega

theorem noKill_runs (i : Nat) (c : Bool) (k : Nat) : noKill i (runs i c k) := by
  induction k with
  | zero => trivial
  | succ k ih => simp only [runs, List.replicate] at ih ⊢; exact ih

theorem noFault_runs (i : Nat) (c : Bool) (k : Nat) : NoFault (runs i c k) := by
  intro e he
  simp only [runs, List.mem_replicate] at he
  rw [he.2]; rfl

/-- **`recovery`.**  From any state satisfying the invariant — i.e. whatever earlier builders
were killed at whatever point, whatever garbage their build directories contain — a fresh
process requesting source `s` terminates within 13 steps with the correct module (it either
loads the published entry at once or builds exactly once), without any cache clearing. -/
theorem recovery (digest : Src → Nat) (hinj : Function.Injective digest) (σ : State)
    (hσ : Inv digest σ) (i : Nat) (hi : (σ.procs i).pc = .unborn) (s : Src) (c : Bool) :
    ((exec .repaired digest σ (.spawn i s :: runs i c 13)).procs i).pc = .loaded s := by
  show ((exec .repaired digest (step .repaired digest σ (.spawn i s)) (runs i c 13)).procs i).pc = _
  have hinv := step_inv hinj hσ (.spawn i s) trivial
  have hp : (step .repaired digest σ (.spawn i s)).procs i = ⟨s, .imp⟩ := by
    simp [step, hi, State.setProc]
  have := Pyiga.CompileCache.request_succeeds hinj i (runs i c 13) _ hinv
    (noFault_admissible digest _ _ (noFault_runs i c 13)) (noKill_runs i c 13)
    (by rw [hp]; simp [Active]) (by rw [hp, runsOf_runs]; simp [rank])
  rw [this, hp]

/-- recovery after any crash history of the repaired protocol itself -/
theorem recovery_after_crashes (digest : Src → Nat) (hinj : Function.Injective digest)
    (tr : List Event) (htr : NoFault tr) (i : Nat)
    (hi : ((exec .repaired digest State.init tr).procs i).pc = .unborn) (s : Src) (c : Bool) :
    ((exec .repaired digest (exec .repaired digest State.init tr) (.spawn i s :: runs i c 13)).procs i).pc
      = .loaded s :=
  recovery digest hinj _ (exec_inv hinj tr _ (Inv_init digest) (noFault_admissible digest tr _ htr)) i hi s c

/-- **Requests for different forms do not interfere**: a step of a process of the repaired
protocol changes no shared file except (by `pub`) the final path of its own module name. -/
theorem step_touches_only_own_entry (digest : Src → Nat) (hinj : Function.Injective digest)
    (σ : State) (hσ : Inv digest σ) (i : Nat) (c : Bool) (n : Nat) (k : Kind)
    (h : Path.shared n k ≠ final (digest (σ.procs i).src)) :
    (step .repaired digest σ (.run i c)).dir (.shared n k) = σ.dir (.shared n k) :=
  (pstep_facts hinj c hσ.final_ok hσ.fresh (hσ.procs_ok i)).shared_frame n k h

/-- **A published entry that the loader rejects is healed.**  If the final path has been
corrupted from outside (state `part`; not reachable by the protocol itself) and the loader
answers with `ImportError` rather than dying, the next lone request rebuilds in a private
directory and atomically replaces the entry: it returns its module and the final path is
complete again.  (This is the `except ImportError` branch of `compile_cython_module`.) -/
theorem repaired_heals_rejected_entry (digest : Src → Nat) (σ : State) (i : Nat) (s : Src)
    (hi : (σ.procs i).pc = .unborn) (h : σ.dir (final (digest s)) = .part) :
    ((exec .repaired digest σ (.spawn i s :: runs i false 13)).procs i).pc = .loaded s ∧
    (exec .repaired digest σ (.spawn i s :: runs i false 13)).dir (final (digest s)) = .complete s := by
  have h' : σ.dir (Path.shared (digest s) Kind.so) = .part := h
  constructor <;>
  simp [exec, runs, List.replicate, step, hi, State.setProc, pstep, importStep, h', readSrc,
      fileAt, final, Dir.set, Dir.rmtree]

/-- A lone request that finds no entry builds once and publishes it: it returns its module
and afterwards the final path holds the complete module of its source. -/
theorem repaired_rebuilds_absent_entry (digest : Src → Nat) (σ : State) (i : Nat) (s : Src)
    (hi : (σ.procs i).pc = .unborn) (h : σ.dir (final (digest s)) = .absent) (c : Bool) :
    ((exec .repaired digest σ (.spawn i s :: runs i c 13)).procs i).pc = .loaded s ∧
    (exec .repaired digest σ (.spawn i s :: runs i c 13)).dir (final (digest s)) = .complete s := by
  have h' : σ.dir (Path.shared (digest s) Kind.so) = .absent := h
  constructor <;>
  simp [exec, runs, List.replicate, step, hi, State.setProc, pstep, importStep, h', readSrc,
      fileAt, final, Dir.set, Dir.rmtree]

/-- **An external cache wipe between requests is harmless.**  Deleting the whole modules
directory (`scripts/clear-cache.py` from another process) while no request is in progress
keeps the invariant, so everything proved from `Inv` — safety, liveness, recovery — goes on
holding afterwards, for fresh processes and for the later requests of long-lived ones. -/
theorem wipe_keeps_invariant (digest : Src → Nat) (σ : State) (hσ : Inv digest σ)
    (hq : σ.Quiescent) : Inv digest σ.wipe := wipe_inv hσ hq

/-- … and the next request after the wipe recompiles, succeeds and republishes its entry. -/
theorem request_after_wipe (digest : Src → Nat) (σ : State) (i : Nat) (s : Src)
    (hi : (σ.procs i).pc = .unborn) (c : Bool) :
    ((exec .repaired digest σ.wipe (.spawn i s :: runs i c 13)).procs i).pc = .loaded s ∧
    (exec .repaired digest σ.wipe (.spawn i s :: runs i c 13)).dir (final (digest s)) = .complete s :=
  repaired_rebuilds_absent_entry digest σ.wipe i s hi rfl c

/-! ## the named assumptions are needed, and a tempting wrong repair is unsafe -/

/-- Without digest injectivity even the repaired protocol hands out the wrong module: with a
colliding digest the second request loads the first request's assembler. -/
theorem digest_injectivity_needed :
    ((exec .repaired (fun _ => 0) State.init
        ([.spawn 0 1] ++ runs 0 false 13 ++ [.spawn 1 2, .run 1 false])).procs 1).pc = .loaded 1 := by
  decide

/-- "Build in a temporary directory" is not enough if its name is shared: two builders in the
same fixed directory break each other exactly as in MODDIR (nobody is killed; A raises). -/
theorem sharedTmp_unsafe : ¬ Safe .sharedTmp := by
  intro h
  have := (h id (fun _ _ h => h) witnessRaceBuild (by decide)).2 0
  exact this.2.1 (by decide)

/-- Rename atomicity is needed: if the finished `.so` is *copied* onto the final path, a request
arriving between the two halves of the copy imports a partial file (nobody is killed). -/
theorem rename_atomicity_needed : ¬ Safe .copyPublish := by
  intro h
  have := (h id (fun _ _ h => h) ([.spawn 0 7] ++ runs 0 false 11 ++ [.spawn 1 7, .run 1 true]) (by decide)).2 1
  exact this.1 (by decide)

/-! ## non-vacuity: the hypotheses are satisfiable and the repaired protocol does something -/

/-- the same three schedules that break the current protocol, run under the repaired one:
the killed builder leaves garbage only in its private directory, the racing importer simply
builds, everybody who finishes holds the right module and the published entry is complete. -/
example :
    ((exec .repaired id State.init
        ([.spawn 0 7] ++ runs 0 false 9 ++ [.kill 0, .spawn 1 7] ++ runs 1 true 13)).procs 1).pc = .loaded 7 ∧
    (exec .repaired id State.init
        ([.spawn 0 7] ++ runs 0 false 9 ++ [.kill 0, .spawn 1 7] ++ runs 1 true 13)).dir (final 7) = .complete 7 ∧
    (exec .repaired id State.init
        ([.spawn 0 7] ++ runs 0 false 9 ++ [.kill 0, .spawn 1 7] ++ runs 1 true 13)).dir (.priv 0 .so) = .part := by
  decide

example : Inv id State.init := Inv_init id

example : AdmissibleTrace id State.init
    [.spawn 0 7, .run 0 false, .run 0 false, .kill 0, .fault (.priv 0 .pyx) .part,
     .fault (.shared 7 .c) (.complete 9), .spawn 1 7] := by
  simp [AdmissibleTrace, Admissible, step, State.init, State.setProc, pstep, importStep, final,
    Dir.empty, tmpOf, PC.live]
  intro i
  by_cases h : i = 0 <;> simp [h]

end Pyiga.Props.C20
