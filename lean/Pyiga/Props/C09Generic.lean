/-
Property C09, clause "generic path with identity geometry = Kronecker path".

The generic compiled assembler is modelled by b-assembler (`Pyiga.Model.Assembler`): `entryImpl2` is
the generated `entry_impl`, `combine N kernel` the loop nest over all quadrature nodes, and
`Pyiga.Props.C01.entry_eq_full_sum` proves `entry_impl = Σ over ALL nodes of the integrand`.
Here: with the identity geometry (`JacInv = 1`, `|det J| = 1`, so `W[q] = ∏ w_k[q_k]` and physical
gradients = parametric gradients) and tensor-product basis jets, that full sum **is** the entry of
the C09 Kronecker matrices `mass2d / stiffness2d / mass3d / stiffness3d` at the Kronecker index —
for mass and stiffness, any quadrature sizes, any 1-D Gram matrices.
-/
import Pyiga.Props.C01
import Pyiga.Props.C09
import Pyiga.Proofs.GalerkinGeneric

namespace Pyiga.Props.C09
open Pyiga.Galerkin Pyiga.Asm Finset

variable {α : Type} [CommRing α]

/-! ## the full Gauss sum of the generic assembler = Kronecker entry -/

/-- **mass, 2-D.**  `combine [Q₁,Q₂]` of the mass integrand `u·v·W` with tensor-product basis values
and `W = w₁⊗w₂` (identity geometry) equals `kron(M₁,M₂)` at the Kronecker index. -/
theorem generic_identity_mass_2d (M1 M2 : List (List α)) (Q1 Q2 : Nat) (w1 w2 : Nat → α) (V1 U1 V2 U2 : Nat → Nat → α)
    (h1 : ∀ i j, get2 M1 i j = gram Q1 w1 V1 U1 i j) (h2 : ∀ i j, get2 M2 i j = gram Q2 w2 V2 U2 i j)
    (i1 i2 j1 j2 : Nat) (hi1 : i1 < matRows M1) (hi2 : i2 < matRows M2) (hj1 : j1 < matCols M1) (hj2 : j2 < matCols M2) :
    combine [Q1, Q2] (fun q =>
        (U1 j1 (q.getD 0 0) * U2 j2 (q.getD 1 0)) * (V1 i1 (q.getD 0 0) * V2 i2 (q.getD 1 0)) *
          (w1 (q.getD 0 0) * w2 (q.getD 1 0))) =
      get2 (mass2d M1 M2) (i1 * matRows M2 + i2) (j1 * matCols M2 + j2) := by
  rw [kron_path_mass_2d M1 M2 Q1 Q2 w1 w2 V1 U1 V2 U2 h1 h2 i1 i2 j1 j2 hi1 hi2 hj1 hj2, combine_two]
  apply Finset.sum_congr rfl; intro a _
  apply Finset.sum_congr rfl; intro b _
  simp only [List.getD_cons_zero, List.getD_cons_succ]
  ring

/-- **stiffness, 2-D.**  With `JacInv = 1` the integrand is `(∂ₓu ∂ₓv + ∂ᵧu ∂ᵧv)·W`; its full Gauss
sum equals `kron(K₁,M₂) + kron(M₁,K₂)` at the Kronecker index when all four 1-D matrices are Gram
matrices of the same per-axis rule (the generic path uses one rule, `nqp = max p + 1`). -/
theorem generic_identity_stiffness_2d (M1 K1 M2 K2 : List (List α)) (Q1 Q2 : Nat) (w1 w2 : Nat → α)
    (N1 D1 N2 D2 N1' D1' N2' D2' : Nat → Nat → α)
    (hM1 : ∀ i j, get2 M1 i j = gram Q1 w1 N1 N1' i j) (hK1 : ∀ i j, get2 K1 i j = gram Q1 w1 D1 D1' i j)
    (hM2 : ∀ i j, get2 M2 i j = gram Q2 w2 N2 N2' i j) (hK2 : ∀ i j, get2 K2 i j = gram Q2 w2 D2 D2' i j)
    (hr1 : matRows K1 = matRows M1) (hc1 : matCols K1 = matCols M1)
    (hr2 : matRows K2 = matRows M2) (hc2 : matCols K2 = matCols M2)
    (i1 i2 j1 j2 : Nat) (hi1 : i1 < matRows M1) (hi2 : i2 < matRows M2) (hj1 : j1 < matCols M1) (hj2 : j2 < matCols M2) :
    combine [Q1, Q2] (fun q =>
        ((D1' j1 (q.getD 0 0) * N2' j2 (q.getD 1 0)) * (D1 i1 (q.getD 0 0) * N2 i2 (q.getD 1 0)) +
         (N1' j1 (q.getD 0 0) * D2' j2 (q.getD 1 0)) * (N1 i1 (q.getD 0 0) * D2 i2 (q.getD 1 0))) *
          (w1 (q.getD 0 0) * w2 (q.getD 1 0))) =
      get2 (stiffness2d M1 K1 M2 K2) (i1 * matRows M2 + i2) (j1 * matCols M2 + j2) := by
  rw [kron_path_stiffness_2d M1 K1 M2 K2 Q1 Q1 Q2 Q2 w1 w1 w2 w2 N1 D1 N2 D2 N1' D1' N2' D2'
    hM1 hK1 hM2 hK2 hr1 hc1 hr2 hc2 i1 i2 j1 j2 hi1 hi2 hj1 hj2, combine_two, ← Finset.sum_add_distrib]
  apply Finset.sum_congr rfl; intro a _
  rw [← Finset.sum_add_distrib]
  apply Finset.sum_congr rfl; intro b _
  simp only [List.getD_cons_zero, List.getD_cons_succ]
  ring

/-- **mass, 3-D.** -/
theorem generic_identity_mass_3d (M0 M1 M2 : List (List α)) (Q0 Q1 Q2 : Nat) (w0 w1 w2 : Nat → α)
    (V0 U0 V1 U1 V2 U2 : Nat → Nat → α)
    (h0 : ∀ i j, get2 M0 i j = gram Q0 w0 V0 U0 i j)
    (h1 : ∀ i j, get2 M1 i j = gram Q1 w1 V1 U1 i j) (h2 : ∀ i j, get2 M2 i j = gram Q2 w2 V2 U2 i j)
    (i0 i1 i2 j0 j1 j2 : Nat) (hi0 : i0 < matRows M0) (hi1 : i1 < matRows M1) (hi2 : i2 < matRows M2)
    (hj0 : j0 < matCols M0) (hj1 : j1 < matCols M1) (hj2 : j2 < matCols M2) :
    combine [Q0, Q1, Q2] (fun q =>
        (U0 j0 (q.getD 0 0) * (U1 j1 (q.getD 1 0) * U2 j2 (q.getD 2 0))) *
        (V0 i0 (q.getD 0 0) * (V1 i1 (q.getD 1 0) * V2 i2 (q.getD 2 0))) *
          (w0 (q.getD 0 0) * (w1 (q.getD 1 0) * w2 (q.getD 2 0)))) =
      get2 (mass3d M0 M1 M2) (i0 * (matRows M1 * matRows M2) + (i1 * matRows M2 + i2))
        (j0 * (matCols M1 * matCols M2) + (j1 * matCols M2 + j2)) := by
  rw [kron_path_mass_3d M0 M1 M2 Q0 Q1 Q2 w0 w1 w2 V0 U0 V1 U1 V2 U2 h0 h1 h2
    i0 i1 i2 j0 j1 j2 hi0 hi1 hi2 hj0 hj1 hj2, combine_three]
  apply Finset.sum_congr rfl; intro a _
  apply Finset.sum_congr rfl; intro b _
  apply Finset.sum_congr rfl; intro c _
  simp only [List.getD_cons_zero, List.getD_cons_succ]
  ring

/-- product of three Gram entries = triple tensor-product Gauss sum -/
theorem gram3_mul (Q0 Q1 Q2 : Nat) (w0 w1 w2 : Nat → α) (A0 B0 A1 B1 A2 B2 : Nat → Nat → α) (i0 j0 i1 j1 i2 j2 : Nat) :
    gram Q0 w0 A0 B0 i0 j0 * (gram Q1 w1 A1 B1 i1 j1 * gram Q2 w2 A2 B2 i2 j2) =
      ∑ a ∈ range Q0, ∑ b ∈ range Q1, ∑ c ∈ range Q2,
        (B0 j0 a * (B1 j1 b * B2 j2 c)) * (A0 i0 a * (A1 i1 b * A2 i2 c)) * (w0 a * (w1 b * w2 c)) := by
  unfold gram
  rw [Finset.sum_mul_sum, Finset.sum_mul]
  apply Finset.sum_congr rfl; intro a _
  rw [Finset.mul_sum]
  apply Finset.sum_congr rfl; intro b _
  rw [Finset.mul_sum]
  apply Finset.sum_congr rfl; intro c _
  ring

/-- **stiffness, 3-D.**  With `JacInv = 1` the integrand is `(∂ₓu∂ₓv + ∂ᵧu∂ᵧv + ∂_zu∂_zv)·W`; its full
Gauss sum equals `bsp_stiffness_3d`'s Kronecker sum at the Kronecker index (one rule per axis). -/
theorem generic_identity_stiffness_3d (M0 K0 M1 K1 M2 K2 : List (List α)) (Q0 Q1 Q2 : Nat) (w0 w1 w2 : Nat → α)
    (N0 D0 N1 D1 N2 D2 : Nat → Nat → α)
    (hM0 : ∀ i j, get2 M0 i j = gram Q0 w0 N0 N0 i j) (hK0 : ∀ i j, get2 K0 i j = gram Q0 w0 D0 D0 i j)
    (hM1 : ∀ i j, get2 M1 i j = gram Q1 w1 N1 N1 i j) (hK1 : ∀ i j, get2 K1 i j = gram Q1 w1 D1 D1 i j)
    (hM2 : ∀ i j, get2 M2 i j = gram Q2 w2 N2 N2 i j) (hK2 : ∀ i j, get2 K2 i j = gram Q2 w2 D2 D2 i j)
    (hr0 : matRows K0 = matRows M0) (hc0 : matCols K0 = matCols M0)
    (hr1 : matRows K1 = matRows M1) (hc1 : matCols K1 = matCols M1)
    (hr2 : matRows K2 = matRows M2) (hc2 : matCols K2 = matCols M2)
    (i0 i1 i2 j0 j1 j2 : Nat) (hi0 : i0 < matRows M0) (hi1 : i1 < matRows M1) (hi2 : i2 < matRows M2)
    (hj0 : j0 < matCols M0) (hj1 : j1 < matCols M1) (hj2 : j2 < matCols M2) :
    combine [Q0, Q1, Q2] (fun q =>
        ((D0 j0 (q.getD 0 0) * (N1 j1 (q.getD 1 0) * N2 j2 (q.getD 2 0))) *
           (D0 i0 (q.getD 0 0) * (N1 i1 (q.getD 1 0) * N2 i2 (q.getD 2 0))) +
         (N0 j0 (q.getD 0 0) * (D1 j1 (q.getD 1 0) * N2 j2 (q.getD 2 0))) *
           (N0 i0 (q.getD 0 0) * (D1 i1 (q.getD 1 0) * N2 i2 (q.getD 2 0))) +
         (N0 j0 (q.getD 0 0) * (N1 j1 (q.getD 1 0) * D2 j2 (q.getD 2 0))) *
           (N0 i0 (q.getD 0 0) * (N1 i1 (q.getD 1 0) * D2 i2 (q.getD 2 0)))) *
          (w0 (q.getD 0 0) * (w1 (q.getD 1 0) * w2 (q.getD 2 0)))) =
      get2 (stiffness3d M0 K0 M1 K1 M2 K2) (i0 * (matRows M1 * matRows M2) + (i1 * matRows M2 + i2))
        (j0 * (matCols M1 * matCols M2) + (j1 * matCols M2 + j2)) := by
  rw [kron_path_stiffness_3d M0 K0 M1 K1 M2 K2 Q0 Q0 Q1 Q1 Q2 Q2 w0 w0 w1 w1 w2 w2 N0 D0 N1 D1 N2 D2
    hM0 hK0 hM1 hK1 hM2 hK2 hr0 hc0 hr1 hc1 hr2 hc2 i0 i1 i2 j0 j1 j2 hi0 hi1 hi2 hj0 hj1 hj2,
    mul_add, gram3_mul, gram3_mul, gram3_mul, combine_three,
    ← Finset.sum_add_distrib, ← Finset.sum_add_distrib]
  apply Finset.sum_congr rfl; intro a _
  rw [← Finset.sum_add_distrib, ← Finset.sum_add_distrib]
  apply Finset.sum_congr rfl; intro b _
  rw [← Finset.sum_add_distrib, ← Finset.sum_add_distrib]
  apply Finset.sum_congr rfl; intro c _
  simp only [List.getD_cons_zero, List.getD_cons_succ]
  ring

/-! ## chained with C01: the value the generated `entry_impl` computes -/

/-- **`entry_impl` of the compiled mass assembler with identity geometry = Kronecker entry (2-D).**
Hypotheses of `Props.C01.entry_eq_full_sum` (jets vanish outside `nqp·meshsupp`, supports fit the
node grid) + the 1-D Gram hypotheses of `kron_path_mass_2d`. -/
theorem generic_entry_mass_2d (suppU suppV : List Intv)
    (M1 M2 : List (List α)) (Q1 Q2 : Nat) (w1 w2 : Nat → α) (V1 U1 V2 U2 : Nat → Nat → α)
    (h1 : ∀ i j, get2 M1 i j = gram Q1 w1 V1 U1 i j) (h2 : ∀ i j, get2 M2 i j = gram Q2 w2 V2 U2 i j)
    (i1 i2 j1 j2 : Nat) (hi1 : i1 < matRows M1) (hi2 : i2 < matRows M2) (hj1 : j1 < matCols M1) (hj2 : j2 < matCols M2)
    (hU : ∀ q ∈ loopNest [Q1, Q2], ¬ InSupp suppU q → U1 j1 (q.getD 0 0) * U2 j2 (q.getD 1 0) = 0)
    (hV : ∀ q ∈ loopNest [Q1, Q2], ¬ InSupp suppV q → V1 i1 (q.getD 0 0) * V2 i2 (q.getD 1 0) = 0)
    (hfU : SuppFits suppU [Q1, Q2]) (hfV : SuppFits suppV [Q1, Q2]) :
    entryImpl2 suppU suppV (zeros [Q1, Q2]) (fun q =>
        (U1 j1 (q.getD 0 0) * U2 j2 (q.getD 1 0)) * (V1 i1 (q.getD 0 0) * V2 i2 (q.getD 1 0)) *
          (w1 (q.getD 0 0) * w2 (q.getD 1 0))) =
      get2 (mass2d M1 M2) (i1 * matRows M2 + i2) (j1 * matCols M2 + j2) := by
  have h := Pyiga.Props.C01.entry_eq_full_sum (α := α) (Jet := α) suppU suppV [Q1, Q2]
    (fun q => U1 j1 (q.getD 0 0) * U2 j2 (q.getD 1 0)) (fun q => V1 i1 (q.getD 0 0) * V2 i2 (q.getD 1 0))
    (fun x y q => x * y * (w1 (q.getD 0 0) * w2 (q.getD 1 0)))
    (by intro y q; ring) (by intro x q; ring) hU hV hfU hfV
  rw [h]
  exact generic_identity_mass_2d M1 M2 Q1 Q2 w1 w2 V1 U1 V2 U2 h1 h2 i1 i2 j1 j2 hi1 hi2 hj1 hj2

/-- **`entry_impl` of the compiled stiffness assembler with identity geometry = Kronecker entry (2-D).**
The jet of a basis function is its parametric gradient `(∂ₓ, ∂ᵧ)`. -/
theorem generic_entry_stiffness_2d (suppU suppV : List Intv)
    (M1 K1 M2 K2 : List (List α)) (Q1 Q2 : Nat) (w1 w2 : Nat → α)
    (N1 D1 N2 D2 N1' D1' N2' D2' : Nat → Nat → α)
    (hM1 : ∀ i j, get2 M1 i j = gram Q1 w1 N1 N1' i j) (hK1 : ∀ i j, get2 K1 i j = gram Q1 w1 D1 D1' i j)
    (hM2 : ∀ i j, get2 M2 i j = gram Q2 w2 N2 N2' i j) (hK2 : ∀ i j, get2 K2 i j = gram Q2 w2 D2 D2' i j)
    (hr1 : matRows K1 = matRows M1) (hc1 : matCols K1 = matCols M1)
    (hr2 : matRows K2 = matRows M2) (hc2 : matCols K2 = matCols M2)
    (i1 i2 j1 j2 : Nat) (hi1 : i1 < matRows M1) (hi2 : i2 < matRows M2) (hj1 : j1 < matCols M1) (hj2 : j2 < matCols M2)
    (hU : ∀ q ∈ loopNest [Q1, Q2], ¬ InSupp suppU q →
      ((D1' j1 (q.getD 0 0) * N2' j2 (q.getD 1 0), N1' j1 (q.getD 0 0) * D2' j2 (q.getD 1 0)) : α × α) = 0)
    (hV : ∀ q ∈ loopNest [Q1, Q2], ¬ InSupp suppV q →
      ((D1 i1 (q.getD 0 0) * N2 i2 (q.getD 1 0), N1 i1 (q.getD 0 0) * D2 i2 (q.getD 1 0)) : α × α) = 0)
    (hfU : SuppFits suppU [Q1, Q2]) (hfV : SuppFits suppV [Q1, Q2]) :
    entryImpl2 suppU suppV (zeros [Q1, Q2]) (fun q =>
        ((D1' j1 (q.getD 0 0) * N2' j2 (q.getD 1 0)) * (D1 i1 (q.getD 0 0) * N2 i2 (q.getD 1 0)) +
         (N1' j1 (q.getD 0 0) * D2' j2 (q.getD 1 0)) * (N1 i1 (q.getD 0 0) * D2 i2 (q.getD 1 0))) *
          (w1 (q.getD 0 0) * w2 (q.getD 1 0))) =
      get2 (stiffness2d M1 K1 M2 K2) (i1 * matRows M2 + i2) (j1 * matCols M2 + j2) := by
  have h := Pyiga.Props.C01.entry_eq_full_sum (α := α) (Jet := α × α) suppU suppV [Q1, Q2]
    (fun q => (D1' j1 (q.getD 0 0) * N2' j2 (q.getD 1 0), N1' j1 (q.getD 0 0) * D2' j2 (q.getD 1 0)))
    (fun q => (D1 i1 (q.getD 0 0) * N2 i2 (q.getD 1 0), N1 i1 (q.getD 0 0) * D2 i2 (q.getD 1 0)))
    (fun x y q => (x.1 * y.1 + x.2 * y.2) * (w1 (q.getD 0 0) * w2 (q.getD 1 0)))
    (by intro y q; simp) (by intro x q; simp) hU hV hfU hfV
  rw [h]
  exact generic_identity_stiffness_2d M1 K1 M2 K2 Q1 Q2 w1 w2 N1 D1 N2 D2 N1' D1' N2' D2'
    hM1 hK1 hM2 hK2 hr1 hc1 hr2 hc2 i1 i2 j1 j2 hi1 hi2 hj1 hj2

/-- **`entry_impl` of the compiled mass assembler with identity geometry = Kronecker entry (3-D).** -/
theorem generic_entry_mass_3d (suppU suppV : List Intv)
    (M0 M1 M2 : List (List α)) (Q0 Q1 Q2 : Nat) (w0 w1 w2 : Nat → α) (V0 U0 V1 U1 V2 U2 : Nat → Nat → α)
    (h0 : ∀ i j, get2 M0 i j = gram Q0 w0 V0 U0 i j)
    (h1 : ∀ i j, get2 M1 i j = gram Q1 w1 V1 U1 i j) (h2 : ∀ i j, get2 M2 i j = gram Q2 w2 V2 U2 i j)
    (i0 i1 i2 j0 j1 j2 : Nat) (hi0 : i0 < matRows M0) (hi1 : i1 < matRows M1) (hi2 : i2 < matRows M2)
    (hj0 : j0 < matCols M0) (hj1 : j1 < matCols M1) (hj2 : j2 < matCols M2)
    (hU : ∀ q ∈ loopNest [Q0, Q1, Q2], ¬ InSupp suppU q →
      U0 j0 (q.getD 0 0) * (U1 j1 (q.getD 1 0) * U2 j2 (q.getD 2 0)) = 0)
    (hV : ∀ q ∈ loopNest [Q0, Q1, Q2], ¬ InSupp suppV q →
      V0 i0 (q.getD 0 0) * (V1 i1 (q.getD 1 0) * V2 i2 (q.getD 2 0)) = 0)
    (hfU : SuppFits suppU [Q0, Q1, Q2]) (hfV : SuppFits suppV [Q0, Q1, Q2]) :
    entryImpl2 suppU suppV (zeros [Q0, Q1, Q2]) (fun q =>
        (U0 j0 (q.getD 0 0) * (U1 j1 (q.getD 1 0) * U2 j2 (q.getD 2 0))) *
        (V0 i0 (q.getD 0 0) * (V1 i1 (q.getD 1 0) * V2 i2 (q.getD 2 0))) *
          (w0 (q.getD 0 0) * (w1 (q.getD 1 0) * w2 (q.getD 2 0)))) =
      get2 (mass3d M0 M1 M2) (i0 * (matRows M1 * matRows M2) + (i1 * matRows M2 + i2))
        (j0 * (matCols M1 * matCols M2) + (j1 * matCols M2 + j2)) := by
  have h := Pyiga.Props.C01.entry_eq_full_sum (α := α) (Jet := α) suppU suppV [Q0, Q1, Q2]
    (fun q => U0 j0 (q.getD 0 0) * (U1 j1 (q.getD 1 0) * U2 j2 (q.getD 2 0)))
    (fun q => V0 i0 (q.getD 0 0) * (V1 i1 (q.getD 1 0) * V2 i2 (q.getD 2 0)))
    (fun x y q => x * y * (w0 (q.getD 0 0) * (w1 (q.getD 1 0) * w2 (q.getD 2 0))))
    (by intro y q; ring) (by intro x q; ring) hU hV hfU hfV
  rw [h]
  exact generic_identity_mass_3d M0 M1 M2 Q0 Q1 Q2 w0 w1 w2 V0 U0 V1 U1 V2 U2 h0 h1 h2
    i0 i1 i2 j0 j1 j2 hi0 hi1 hi2 hj0 hj1 hj2

end Pyiga.Props.C09
