/-
Property C08 — assembly is independent of symmetry flag, sparse format, vector layout, subset of
entries/rows/bounding box, update of fields/parameters, thread count and chunking.
Property theorems only (helper lemmas: Proofs/Chunks, AsmSym, AsmFormat, AsmSum, AsmUpdate).

Everything is stated over an abstract entry oracle `e(i,j)` (block oracle for vector forms) and an
arbitrary commutative additive monoid of values; sizes, patterns, thread counts and interleavings
are unbounded.
-/
import Pyiga.Proofs.Chunks
import Pyiga.Proofs.AsmSym
import Pyiga.Proofs.AsmFormat
import Pyiga.Proofs.AsmSum
import Pyiga.Proofs.AsmUpdate
import Pyiga.Proofs.AsmBbox
import Pyiga.Proofs.AsmFormatMaps

namespace Pyiga.Props.C08
open Pyiga.Index Pyiga.ML Pyiga.Asm Pyiga.Layout

/-! ## thread count and chunking -/

/-- **chunks_partition.**  For every list and every `k`, `chunk_tasks` yields the consecutive
slices `tasks[c·n : (c+1)·n]`, `n = len // k + 1`, whose concatenation is the input. -/
theorem chunks_partition {α : Type} (l : List α) (k : Nat) :
    (chunkTasks l k).flatten = l ∧
    (∀ c, c < numChunks l.length k →
      (chunkTasks l k).getD c [] = (l.drop (c * (l.length / k + 1))).take (l.length / k + 1)) ∧
    (chunkTasks l k).length = numChunks l.length k :=
  ⟨chunkTasks_flatten l k, fun c hc => chunkTasks_getD l k c hc, chunkTasks_length l k⟩

/-- index array and result array (same length) are cut at the same places -/
theorem chunks_same_cuts {α β : Type} (l : List α) (l' : List β) (h : l.length = l'.length) (k : Nat) :
    (chunkTasks l k).map List.length = (chunkTasks l' k).map List.length :=
  chunkTasks_same_cuts l l' h k

/-- never more chunks than requested, every chunk non-empty -/
theorem chunks_at_most_k {α : Type} (l : List α) (k : Nat) (hk : 0 < k) :
    numChunks l.length k ≤ k ∧
    ∀ c, c < numChunks l.length k → 0 < ((chunkTasks l k).getD c []).length :=
  ⟨numChunks_le _ k hk, fun c hc => (chunkTasks_chunk_length l k c hc).1⟩

/-- `multi_entries` returns `entry` of the requested pairs, in order, for every thread count
(this is also **subset**: the result for any index subset is the restriction of the same map). -/
theorem multi_entries_any_thread_count {α : Type} (e : Nat → Nat → α) (idx : List (Nat × Nat)) (threads : Nat) :
    multiEntries e idx threads = idx.map (fun p => e p.1 p.2) := multiEntries_eq e idx threads

/-- writes to pairwise distinct positions commute: any permutation of the write sequence (hence any
interleaving of the workers) leaves the same memory -/
theorem writes_commute {α : Type} (mem : Nat → α) (ws ws' : List (Nat × α)) (hp : ws.Perm ws')
    (hnd : (ws.map (·.1)).Nodup) : applyWrites mem ws = applyWrites mem ws' :=
  applyWrites_perm mem ws ws' hp hnd

/-- **schedule independence.**  The workers' write positions are exactly `0 … len-1`, each once
(write-sets pairwise disjoint, every output slot written once); therefore for every thread count
and every interleaving `ws'` of all workers' writes the result array holds `entry(idx[s])` at
every position `s` — the sequential result. -/
theorem schedule_independent {α : Type} (e : Nat → Nat → α) (idx : List (Nat × Nat)) (threads : Nat) :
    (allWorkerWrites e idx threads).map (·.1) = List.range idx.length ∧
    ∀ (ws' : List (Nat × α)), (allWorkerWrites e idx threads).Perm ws' →
      ∀ (mem : Nat → α) (s : Nat), s < idx.length →
        applyWrites mem ws' s = e (idx.getD s (0, 0)).1 (idx.getD s (0, 0)).2 :=
  ⟨allWorkerWrites_positions e idx threads,
   fun ws' hp mem s hs => threads_schedule_independent e idx threads ws' hp mem s hs⟩

example : chunkTasks [0, 1, 2, 3, 4, 5, 6] 3 = [[0, 1, 2], [3, 4, 5], [6]] := by decide
example : chunkTasks [0, 1] 5 = [[0], [1]] := by decide
/-- the mutation `n = len // k` (without `+ 1`) has step 0 for `len < k` (Python raises) -/
example : (2 / 5 : Nat) = 0 := by decide

/-! ## symmetry flag -/

/-- **sym_equiv** (scalar).  If the pattern is symmetric and `e(i,j) = e(j,i)`, the matrix built from
the lower-triangular enumeration plus the mirrored strictly-lower part equals the matrix built
from the full enumeration, as finite maps with COO duplicate summation. -/
theorem sym_equiv {α : Type} [AddCommMonoid α] (nz : List (Nat × Nat)) (e : Nat → Nat → α)
    (hpat : ∀ i j, nz.count (i, j) = nz.count (j, i)) (he : ∀ i j, e i j = e j i) (i j : Nat) :
    cooGet (assembleEntries nz true e) i j = cooGet (assembleEntries nz false e) i j ∧
    cooGet (assembleEntries nz false e) i j = nz.count (i, j) • e i j :=
  ⟨assembleEntries_sym nz e hpat he i j, assembleEntries_full nz e i j⟩

/-- the witness that the hypothesis `e(i,j) = e(j,i)` is needed (and what swapping `J[off_diag]`,
`I[off_diag]` in the mirroring would do): for a non-symmetric oracle the two flags differ -/
example : cooGet (assembleEntries [(0, 0), (0, 1), (1, 0), (1, 1)] true (fun i j => (10 * i + j : Nat))) 0 1 = 10 ∧
    cooGet (assembleEntries [(0, 0), (0, 1), (1, 0), (1, 1)] false (fun i j => (10 * i + j : Nat))) 0 1 = 1 := by decide

/-- vector core: the skip test `diag0 == 0 and … and diag{k-1} == 0 and diag{k} > 0` is exactly
"`J > I` lexicographically", which for in-range digits of a square structure is `J > I` on the
sequential indices -/
theorem vec_skip_is_upper (i j dims : List Nat) (hi : Below i dims) (hj : Below j dims) :
    vecSkip i j = true ↔ toSeq j dims > toSeq i dims := by
  rw [vecSkip_iff, lexGt_iff_toSeq i j dims hi hj]

/-- the mirrored copy is blockwise transposition: entry `(c, r)` of `blocks_T` is entry `(r, c)` of
the block (square-block hypothesis not needed for this index identity; for the *mirroring in the
generic core* `col*numcomp[0]+row` is the transposed slot only if `numcomp[0] = numcomp[1]`). -/
theorem block_transpose {α : Type} [Inhabited α] (br bc : Nat) (B : List α) (r c : Nat) (hr : r < br) (hc : c < bc) :
    (blockT br bc B).getD (c * br + r) default = B.getD (r * bc + c) default :=
  blockT_getD br bc B r c hr hc

/-! ## format and layout -/

/-- **format_layout** (index part): `blocked = Π · packed · Πᵀ` with
`Π(I·nc + c) = c·N + I`. -/
theorem format_layout_index (N nc I c : Nat) (hc : c < nc) :
    packedToBlocked N nc (I * nc + c) = c * N + I := packedToBlocked_spec N nc I c hc

/-- `Π` is a bijection of `range (N·nc)` -/
theorem format_layout_perm_bijective (N nc : Nat) :
    (∀ r, r < N * nc → packedToBlocked N nc r < N * nc) ∧
    (∀ r r', r < N * nc → r' < N * nc → packedToBlocked N nc r = packedToBlocked N nc r' → r = r') :=
  ⟨fun r hr => packedToBlocked_lt N nc r hr, fun r r' hr hr' h => packedToBlocked_inj N nc r r' hr hr' h⟩

/-- every stored datum `(μ, m)` sits, in the blocked structure (component level moved to the
front by `reorder((dim, 0, …, dim-1))`), at the `Π`-image of its packed position — rows and
columns alike. -/
theorem format_layout_entry (bs : List (Nat × Nat)) (bidx : List Pattern) (nc1 nc0 : Nat) (pc : Pattern)
    (μ : List Nat) (m : Nat) (hμ : μ.length = bidx.length) (hbs : bs.length = bidx.length)
    (hr : (pc.getD m (0, 0)).1 < nc1) (hc : (pc.getD m (0, 0)).2 < nc0) :
    let Sp : MLStructure := { bs := bs ++ [(nc1, nc0)], bidx := bidx ++ [pc] }
    let Sb : MLStructure := { bs := (nc1, nc0) :: bs, bidx := pc :: bidx }
    Sb.entryAt (m :: μ) =
      (packedToBlocked (prod (bs.map (·.1))) nc1 (Sp.entryAt (μ ++ [m])).1,
       packedToBlocked (prod (bs.map (·.2))) nc0 (Sp.entryAt (μ ++ [m])).2) :=
  entryAt_blocked_packed bs bidx nc1 nc0 pc μ m hμ hbs hr hc

/-- **format_layout as finite maps** (`blocked = Π·packed·Πᵀ`): for every position, the value of
the matrix denoted by the blocked ML matrix (component level in front, data transposed) equals the
value of the packed matrix with rows and columns relabelled by `Π` — COO duplicate summation on both
sides, any data reader `rd`, any number of levels. -/
theorem format_layout_maps {α : Type} [AddCommMonoid α] (bs : List (Nat × Nat)) (bidx : List Pattern)
    (nc1 nc0 : Nat) (rd : List Nat → Nat → α) (hbs : bs.length = bidx.length) (i j : Nat) :
    cooGet (blockedTriplesWith bs bidx nc1 nc0 rd) i j =
      cooGet ((packedTriplesWith bs bidx nc1 nc0 rd).map
        (permTriple (prod (bs.map (·.1))) (prod (bs.map (·.2))) nc1 nc0)) i j :=
  blocked_eq_perm_packed bs bidx nc1 nc0 rd hbs i j

/-- entrywise: with in-range level patterns, `blocked[Π r, Π c] = packed[r, c]` for all in-range
positions (`Π` does not merge entries). -/
theorem format_layout_maps_entrywise {α : Type} [AddCommMonoid α] (bs : List (Nat × Nat)) (bidx : List Pattern)
    (nc1 nc0 : Nat) (rd : List Nat → Nat → α) (hbs : bs.length = bidx.length) (hr : PatsInRange bidx bs)
    (r c : Nat) (hrr : r < prod (bs.map (·.1)) * nc1) (hcc : c < prod (bs.map (·.2)) * nc0) :
    cooGet (blockedTriplesWith bs bidx nc1 nc0 rd)
        (packedToBlocked (prod (bs.map (·.1))) nc1 r) (packedToBlocked (prod (bs.map (·.2))) nc0 c)
      = cooGet (packedTriplesWith bs bidx nc1 nc0 rd) r c :=
  blocked_entry_eq_packed bs bidx nc1 nc0 rd hbs (packedTriples_pos bs bidx nc1 nc0 rd hbs hr) r c hrr hcc

/-- the formerly open statement: the two data loop nests enumerate the same positions up to the
rotation `μ ++ [m] ↦ m :: μ` -/
theorem format_layout_loop_rotation : loopNest_rotate_stmt := loopNest_rotate

example : packedToBlocked 5 2 7 = 8 := by decide

/-! ## subsets -/

/-- **subset** (rows / arbitrary duplicate-free position lists): the matrix assembled from any
sub-list of positions is the restriction of the same map `e` to those positions. -/
theorem subset_restriction {α : Type} [AddCommMonoid α] (l : List (Nat × Nat)) (e : Nat → Nat → α)
    (hnd : l.Nodup) (i j : Nat) :
    cooGet (l.map (fun p => (p.1, p.2, e p.1 p.2))) i j = if (i, j) ∈ l then e i j else 0 :=
  cooGet_restrict l e i j hnd

/-- **subset** (bounding box), full statement — NOT proved in Lean (only the statement is kept;
the clause is tied by the `bbox` correspondence stream: on-demand assembler vs full assembler vs
the driver model run with the real `bbox_ofs`): an on-demand assembler whose arrays are restricted
to a bounding box starting at `bbox_ofs` (not beyond the start of the joint support) computes the
same entry as the unrestricted assembler. -/
def subset_bbox_full : Prop := entryImpl2_bbox_stmt

/-- instance of the bbox statement (non-vacuity / sanity): supports `[2,5)`,`[3,7)`, offset 2 -/
example : entryImpl2 [⟨2, 5⟩] [⟨3, 7⟩] [2] (fun q => (List.zipWith (· + ·) q [2]).getD 0 0)
    = entryImpl2 [⟨2, 5⟩] [⟨3, 7⟩] [0] (fun q => (q.getD 0 0 : Nat)) := by decide

/-- **subset (bounding box)** — the formerly open statement, now proved for all supports, offsets
and kernels. -/
theorem subset_bbox : subset_bbox_full := entryImpl2_bbox

/-- the on-demand entry is the full Gauss sum: with every array restricted to a bounding box that
starts at `bbox_ofs` (not beyond the joint support), the entry computed with the shifted pointers
equals the sum of the integrand over ALL nodes of the unrestricted grid (C01 `entry_eq_full_sum`
composed with the shift) — the restriction of the same finite map. -/
theorem subset_bbox_full_sum {α : Type} [AddCommMonoid α] {Jet : Type} [Zero Jet]
    (suppU suppV : List Intv) (N ofs : List Nat)
    (jetU jetV : List Nat → Jet) (integrand : Jet → Jet → List Nat → α)
    (hlinU : ∀ y q, integrand 0 y q = 0) (hlinV : ∀ x q, integrand x 0 q = 0)
    (hU : ∀ q ∈ loopNest N, ¬ InSupp suppU q → jetU q = 0)
    (hV : ∀ q ∈ loopNest N, ¬ InSupp suppV q → jetV q = 0)
    (hfU : SuppFits suppU N) (hfV : SuppFits suppV N)
    (hofs : OfsBelow suppU suppV ofs) (hlen : ofs.length = N.length) :
    entryImpl2 suppU suppV ofs
        (fun q => (fun q' => integrand (jetU q') (jetV q') q') (List.zipWith (· + ·) q ofs))
      = combine N (fun q => integrand (jetU q) (jetV q) q) := by
  have hb := entryImpl2_bbox suppU suppV ofs (fun q' => integrand (jetU q') (jetV q') q') hofs
  rw [hb]
  have hz : zeros ofs = zeros N := by
    unfold zeros
    rw [List.map_const', List.map_const', hlen]
  rw [hz]
  exact entryImpl2_eq_full suppU suppV N jetU jetV integrand hlinU hlinV hU hV hfU hfV

/-! ## update -/

/-- **update_equiv.**  With pairwise disjoint slot ranges (C01 `layout_disjoint`) and *no precomputed
variable depending on the updated field*, `update(f=…)` applied to the state constructed with the
old field gives exactly the state constructed afresh with the new field. -/
theorem update_equiv {α : Type} (info : List (GVar × Nat × Nat)) (hd : DisjointRanges info)
    (f : Nat) (inp : Nat × Nat → Nat → α) (newf : Nat → Nat → α)
    (comp : Var → (Nat × Nat → Nat → α) → Nat → α) (mem0 : Nat → α)
    (hindep : ∀ e ∈ info, e.1.src = none → comp e.1.var (override inp f newf) = comp e.1.var inp) :
    update info f newf (fresh info inp comp mem0) = fresh info (override inp f newf) comp mem0 :=
  update_eq_fresh info hd f inp newf comp mem0 hindep

/-- **update_equiv, hypothesis discharged by the repaired code** (/repo 5ff56ef): `dependency_analysis`
no longer precomputes descendants of variables sourced from an updatable field
(`precompRule true`).  If the precomputed globals of the assembler are among the variables that rule
selects, then for every updatable field `update(f=…)` equals constructing afresh — without any
independence assumption. -/
theorem update_equiv_repaired {α : Type} (info : List (GVar × Nat × Nat)) (hd : DisjointRanges info)
    (f : Nat) (inp : Nat × Nat → Nat → α) (newf : Nat → Nat → α) (mem0 : Nat → α)
    (deps : Nat → List Nat) (srcOf : Nat → Option (Nat × Nat)) (op : Nat → List (Nat → α) → Nat → α)
    (isUpd basisScope : Nat → Bool) (fuel : Nat) (linearDeps : List Nat)
    (hflag : ∀ v d, srcOf v = some (f, d) → isUpd v = true)
    (hcomp : ∀ v, srcOf v = none → isUpd v = false)
    (hsrc : ∀ e ∈ info, e.1.src = srcOf e.1.var.name)
    (hpre : ∀ e ∈ info, e.1.src = none →
      e.1.var.name ∈ precompRule true deps isUpd basisScope fuel linearDeps) :
    update info f newf (fresh info inp (fun v i => evalVar deps srcOf op i fuel v.name) mem0)
      = fresh info (override inp f newf) (fun v i => evalVar deps srcOf op i fuel v.name) mem0 :=
  update_eq_fresh_repaired info hd f inp newf mem0 deps srcOf op isUpd basisScope fuel linearDeps
    hflag hcomp hsrc hpre

/-- the rule as coded before the fix precomputed `_tmp = f·f` (variable 1, depending on the
updatable-sourced variable 0); the repaired rule keeps it in the kernel. -/
theorem precompute_rule_before_after :
    precompRule false (fun v => if v = 1 then [0] else []) (fun v => v == 0) (fun _ => false) 2 [0, 1] = [0, 1] ∧
    precompRule true (fun v => if v = 1 then [0] else []) (fun v => v == 0) (fun _ => false) 2 [0, 1] = [0] := by
  decide

/-- parameters are sources too: `update_params` rewrites only the parameter's slots, so
`update_equiv_repaired` covers it exactly when parameter-sourced variables are flagged `isUpd` as
well.  The rule as coded between /repo 5ff56ef and dde8508 flagged updatable *fields* only: a constant
derived from a parameter (variable 1 = `c·c` of the parameter variable 0) was still precomputed, hence
stale after `update_params` (finding `update-params-derived-constants`, fixed by dde8508: with the
parameter flagged — the rule as coded now — it stays in the kernel). -/
theorem precompute_rule_parameters :
    precompRule true (fun v => if v = 1 then [0] else []) (fun _ => false) (fun _ => false) 2 [0, 1] = [0, 1] ∧
    precompRule true (fun v => if v = 1 then [0] else []) (fun v => v == 0) (fun _ => false) 2 [0, 1] = [0] := by
  decide

/-- the independence hypothesis is forced: one input-field variable `f` (slot 0) and one precomputed
variable `t = f·f` (slot 1) — after `update` the precomputed slot is stale.  (Replayed on the real
code by the harness: known finding `update-stale-precomputed`.) -/
theorem update_needs_independence :
    let info : List (GVar × Nat × Nat) := [(⟨⟨0, [], false⟩, some (0, 0)⟩, 1, 0), (⟨⟨1, [], false⟩, none⟩, 1, 1)]
    let comp : Var → (Nat × Nat → Nat → Nat) → Nat → Nat := fun _ inp _ => inp (0, 0) 0 * inp (0, 0) 0
    update info 0 (fun _ _ => 3) (fresh info (fun _ _ => 2) comp (fun _ => 0)) 1 = 4 ∧
    fresh info (override (fun _ _ => 2) 0 (fun _ _ => 3)) comp (fun _ => 0) 1 = 9 := by
  decide

/-- `update_params` rewrites exactly the slots `[ofs, ofs+sz)` of that parameter -/
theorem update_params_slots {α : Type} (mem : Nat → α) (ofs sz : Nat) (values : Nat → α) :
    updateParam mem ofs sz values = writeSlots mem ofs sz values := updateParam_eq mem ofs sz values

end Pyiga.Props.C08
