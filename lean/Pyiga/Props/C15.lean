/-
Property C15 — multi-level structured matrices behave as the sparse matrices
they denote.  Property theorems only (helper lemmas live in Proofs/).

All statements quantify over *every* number of levels, every block size and
every per-level pattern (lists in their stored order), with no bound.
-/
import Pyiga.Proofs.MLRows
import Pyiga.Proofs.MLSparsity
import Pyiga.Proofs.MLMatvec
import Pyiga.Proofs.MLGenerator
import Pyiga.Proofs.MLKron

namespace Pyiga.Props.C15
open Pyiga.Index Pyiga.ML

/-! ## index maps are mutually inverse bijections -/

/-- `to_seq (from_seq i dims) dims = i` for every `i` in range, any number of levels. -/
theorem seq_bijection_left (i : Nat) (dims : List Nat) (h : i < prod dims) :
    toSeq (fromSeq i dims) dims = i := toSeq_fromSeq i dims h

/-- `from_seq (to_seq I dims) dims = I` for every multi-index with digits in range. -/
theorem seq_bijection_right (I dims : List Nat) (h : Below I dims) :
    fromSeq (toSeq I dims) dims = I := fromSeq_toSeq I dims h

/-- the sequential index of an in-range multi-index is in range (so the two maps are
bijections between `{I | Below I dims}` and `range (prod dims)`). -/
theorem seq_range (I dims : List Nat) (h : Below I dims) : toSeq I dims < prod dims :=
  toSeq_lt I dims h

theorem seq_digits_range (i : Nat) (dims : List Nat) (hpos : ∀ m ∈ dims, 0 < m) :
    Below (fromSeq i dims) dims := fromSeq_below i dims hpos

example : Below [1, 0, 2] [2, 3, 4] ∧ toSeq [1, 0, 2] [2, 3, 4] = 14 ∧ fromSeq 14 [2, 3, 4] = [1, 0, 2] := by
  refine ⟨by simp [Below], by decide, by decide⟩

/-! ## reported nonzeros = compact data layout of the Kronecker pattern -/

/-- The (repaired) n-level odometer of `ml_nonzero_nd` emits, for every level count and
every pattern, exactly entry `m ↦ entryAt (unravel m)` of the C-ordered data tensor,
restricted to `J ≤ I` when `lower_tri` is set. -/
theorem odometer_refines (S : MLStructure) (lower : Bool) :
    nonzeroNd S lower false = S.nonzeroSpec lower := nonzeroNd_eq_spec S lower

/-- The initialisation in the pinned source (`block_j[i] = bidx_ptr[0][1]`) does **not**
refine the specification: 4-level witness whose level-1 pattern starts in a column
different from level 0's.  (Replayed on the implementation by the harness: defect D11.) -/
def witnessD11 : MLStructure :=
  { bs := [(2,2),(2,2),(1,1),(1,1)], bidx := [[(0,0),(1,1)], [(0,1),(1,0)], [(0,0)], [(0,0)]] }

theorem odometer_as_coded_wrong :
    nonzeroNd witnessD11 false true ≠ witnessD11.nonzeroSpec false := by decide

/-- nested-loop fast paths agree with the same specification -/
theorem nonzero_2d_refines (b1 b2 : Pattern) (m1 n1 m2 n2 : Nat) (lower : Bool) :
    nonzero2d b1 b2 m2 n2 lower =
      MLStructure.nonzeroSpec { bs := [(m1, n1), (m2, n2)], bidx := [b1, b2] } lower :=
  nonzero2d_eq_spec b1 b2 m1 n1 m2 n2 lower

theorem nonzero_3d_refines (b1 b2 b3 : Pattern) (m1 n1 m2 n2 m3 n3 : Nat) (lower : Bool) :
    nonzero3d b1 b2 b3 m2 n2 m3 n3 lower =
      MLStructure.nonzeroSpec { bs := [(m1, n1), (m2, n2), (m3, n3)], bidx := [b1, b2, b3] } lower :=
  nonzero3d_eq_spec b1 b2 b3 m1 n1 m2 n2 m3 n3 lower

/-- the layout specification is the lexicographic Cartesian product of the level patterns -/
theorem nonzero_spec_product (S : MLStructure) (lower : Bool) :
    S.nonzeroSpec lower = MLStructure.lowerFilter lower
      ((product S.bidx).map (fun es => (toSeq (es.map (·.1)) S.rows, toSeq (es.map (·.2)) S.cols))) :=
  nonzeroSpec_eq_product S lower

/-- `lower_tri` returns exactly the subsequence with `J ≤ I`. -/
theorem lower_tri_subset (S : MLStructure) :
    S.nonzeroSpec true = (S.nonzeroSpec false).filter (fun p => p.2 ≤ p.1) := rfl

/-- every stored entry of every level lies inside its block -/
def InRange : List Pattern → List (Nat × Nat) → Prop
  | [], [] => True
  | p :: ps, b :: bs => (∀ e ∈ p, e.1 < b.1 ∧ e.2 < b.2) ∧ InRange ps bs
  | _, _ => False

theorem allMem_inRange : ∀ (es : List (Nat × Nat)) (ps : List Pattern) (bs : List (Nat × Nat)),
    AllMem es ps → InRange ps bs →
      Below (es.map (·.1)) (bs.map (·.1)) ∧ Below (es.map (·.2)) (bs.map (·.2))
  | [], [], [], _, _ => ⟨trivial, trivial⟩
  | e :: es, p :: ps, b :: bs, h, hr => by
    have ih := allMem_inRange es ps bs h.2 hr.2
    exact ⟨⟨(hr.1 e h.1).1, ih.1⟩, ⟨(hr.1 e h.1).2, ih.2⟩⟩
  | [], _ :: _, _, h, _ => by simp [AllMem] at h
  | _ :: _, [], _, h, _ => by simp [AllMem] at h
  | [], [], _ :: _, _, hr => by simp [InRange] at hr
  | _ :: _, _ :: _, [], _, hr => by simp [InRange] at hr

theorem zip_map_fst_snd : ∀ (es : List (Nat × Nat)), (es.map (·.1)).zip (es.map (·.2)) = es
  | [] => rfl
  | e :: es => by simp [zip_map_fst_snd es]

theorem allMem_of_zip : ∀ (I J : List Nat) (ps : List Pattern),
    AllMem (I.zip J) ps → I.length = ps.length → J.length = ps.length →
      (I.zip J).map (·.1) = I ∧ (I.zip J).map (·.2) = J := by
  intro I J ps _ hI hJ
  have : I.length = J.length := by omega
  exact ⟨List.map_fst_zip (by omega), List.map_snd_zip (by omega)⟩

/-- **Kronecker support**: the reported positions are exactly the `(I,J)` whose mixed-radix
digits `(I_k, J_k)` are stored entries of level `k` for every `k` — i.e. the support of the
Kronecker product of the level patterns — for every level count and every pattern. -/
theorem nonzero_support_kron (S : MLStructure) (hr : InRange S.bidx S.bs) (I J : Nat) :
    (I, J) ∈ S.nonzeroSpec false ↔
      I < prod S.rows ∧ J < prod S.cols ∧ AllMem ((fromSeq I S.rows).zip (fromSeq J S.cols)) S.bidx := by
  rw [nonzeroSpec_eq_product]
  simp only [MLStructure.lowerFilter, Bool.false_eq_true, if_false, List.mem_map, Prod.mk.injEq]
  constructor
  · rintro ⟨es, hes, hI, hJ⟩
    have hm := (mem_product _ _).1 hes
    obtain ⟨bI, bJ⟩ := allMem_inRange es S.bidx S.bs hm hr
    subst hI; subst hJ
    refine ⟨toSeq_lt _ _ bI, toSeq_lt _ _ bJ, ?_⟩
    unfold MLStructure.rows MLStructure.cols
    rw [fromSeq_toSeq _ _ bI, fromSeq_toSeq _ _ bJ, zip_map_fst_snd]
    exact hm
  · rintro ⟨hI, hJ, hm⟩
    refine ⟨_, (mem_product _ _).2 hm, ?_, ?_⟩
    · have hl : (fromSeq I S.rows).length = (fromSeq J S.cols).length := by
        simp [fromSeq_length, MLStructure.rows, MLStructure.cols]
      rw [List.map_fst_zip (by omega)]
      exact toSeq_fromSeq I _ hI
    · have hl : (fromSeq I S.rows).length = (fromSeq J S.cols).length := by
        simp [fromSeq_length, MLStructure.rows, MLStructure.cols]
      rw [List.map_snd_zip (by omega)]
      exact toSeq_fromSeq J _ hJ

/-- non-vacuity: a concrete 3-level rectangular structure satisfies `InRange`, and the
support theorem's right-hand side is inhabited. -/
def exS : MLStructure :=
  { bs := [(2,3),(2,2),(3,1)], bidx := [[(1,2),(0,0)], [(0,1),(1,1),(1,0)], [(2,0),(0,0)]] }
example : InRange exS.bidx exS.bs := by
  simp [InRange, exS]
example : exS.nonzeroSpec false =
    [(8,5),(6,5),(11,5),(9,5),(11,4),(9,4),(2,1),(0,1),(5,1),(3,1),(5,0),(3,0)] := by decide
example : nonzeroNd exS false false = exS.nonzeroSpec false := by decide

/-- `MLStructure.nonzero` (dispatch on the number of levels) returns the specification
whenever it does not raise; it raises exactly for `L = 1 ∧ lower_tri` and `L > 8`. -/
theorem nonzero_dispatch (S : MLStructure) (lower : Bool) (hL : S.bs.length = S.bidx.length) :
    S.nonzero lower false =
      if (S.bidx.length = 1 ∧ lower = true) ∨ 8 < S.bidx.length then .error .assertion
      else .ok (S.nonzeroSpec lower) := by
  obtain ⟨bs, bidx⟩ := S
  simp only at hL
  match bs, bidx, hL with
  | [], [], _ =>
    simp [MLStructure.nonzero, nonzeroNd_eq_spec]
  | [b], [b1], _ =>
    cases lower
    · simp only [MLStructure.nonzero, Bool.false_eq_true, if_false, List.length_cons,
        List.length_nil, and_false, false_or]
      rw [if_neg (by omega), nonzeroSpec_eq_product]
      simp only [MLStructure.lowerFilter, product, toSeq, MLStructure.rows, MLStructure.cols,
        Bool.false_eq_true, if_false, List.map_cons, List.map_nil, ← List.map_eq_flatMap,
        List.map_map]
      conv => lhs; rw [← List.map_id b1]
      congr 1
      apply List.map_congr_left
      intro e _
      simp
    · simp [MLStructure.nonzero]
  | [(m1, n1), (m2, n2)], [b1, b2], _ =>
    simp only [MLStructure.nonzero, List.length_cons, List.length_nil]
    rw [if_neg (by omega), nonzero2d_eq_spec b1 b2 m1 n1 m2 n2]
  | [(m1, n1), (m2, n2), (m3, n3)], [b1, b2, b3], _ =>
    simp only [MLStructure.nonzero, List.length_cons, List.length_nil]
    rw [if_neg (by omega), nonzero3d_eq_spec b1 b2 b3 m1 n1 m2 n2 m3 n3]
  | _ :: _ :: _ :: _ :: bs', _ :: _ :: _ :: _ :: bidx', h =>
    simp only [MLStructure.nonzero, nonzeroNd_eq_spec, List.length_cons]
    by_cases h8 : bidx'.length + 1 + 1 + 1 + 1 ≤ 8
    · rw [if_pos h8, if_neg (by omega)]
    · rw [if_neg h8, if_pos (by omega)]

/-! ## transposition, reindexing, per-row / per-column queries -/

/-- the transposed structure reports the swapped positions, in the same layout order -/
theorem transpose_nonzero (S : MLStructure) :
    S.transpose.nonzeroSpec false = (S.nonzeroSpec false).map (fun e => (e.2, e.1)) :=
  transpose_spec S

/-- `reindex_from_multilevel ∘ reindex_to_multilevel = id` for every level count -/
theorem reindex_inverse (i j : Nat) (bs : List (Nat × Nat))
    (hpos : ∀ b ∈ bs, 0 < b.1 ∧ 0 < b.2)
    (hi : i < prod (bs.map (·.1))) (hj : j < prod (bs.map (·.2))) :
    reindexFromMultilevel (reindexToMultilevel i j bs) bs = (i, j) :=
  reindex_roundtrip i j bs hpos hi hj

example : reindexToMultilevel 7 5 [(2,3),(4,2)] = [5, 7] ∧
    reindexFromMultilevel [5, 7] [(2,3),(4,2)] = (7, 5) := by decide

/-- `reindex_from_reordered` is the two-level instance -/
theorem reindex_from_reordered_two_level (i j m1 n1 m2 n2 : Nat) (hi : i < m1 * n1) (hj : j < m2 * n2) :
    reindexFromReordered i j m1 n1 m2 n2 = reindexFromMultilevel [i, j] [(m1, n1), (m2, n2)] :=
  reindexFromReordered_eq i j m1 n1 m2 n2 hi hj

/-- the raveled-Cartesian-product odometer (used per requested row) emits the raveled
lexicographic product for any number of arrays, including empty ones -/
theorem raveled_cartesian_product_refines (arrays : List (List Nat)) (dims : List Nat) :
    ravCart arrays dims = (cartesian arrays).map (fun K => toSeq K dims) := ravCart_eq arrays dims

theorem pos_of_prod_pos : ∀ (l : List Nat), 0 < prod l → ∀ m ∈ l, 0 < m
  | [], _, m, hm => by simp at hm
  | x :: xs, h, m, hm => by
    simp only [prod_cons] at h
    have hx : 0 < x := Nat.pos_of_mul_pos_right h
    have hxs : 0 < prod xs := Nat.pos_of_mul_pos_left h
    simp only [List.mem_cons] at hm
    rcases hm with rfl | hm
    · exact hx
    · exact pos_of_prod_pos xs hxs m hm

/-- one requested row: the columns reported for row `r` are exactly the entries of the layout
specification lying in row `r`, in layout order -/
theorem row_spec (S : MLStructure) (hL : S.bs.length = S.bidx.length) (hr : InRange S.bidx S.bs)
    (r : Nat) (hrow : r < prod S.rows) :
    ravCart (((S.bs.zip S.bidx).map (fun (bb : (Nat × Nat) × Pattern) => rowwise bb.1.1 bb.2)).zip
        (fromSeq r S.rows) |>.map (fun (li : List (List Nat) × Nat) => li.1.getD li.2 [])) S.cols
      = ((S.nonzeroSpec false).filter (fun p => p.1 = r)).map (·.2) := by
  have hpos := pos_of_prod_pos S.rows (by omega)
  have hb : Below (fromSeq r S.rows) (S.bs.map (·.1)) := fromSeq_below r S.rows hpos
  have hlen : (fromSeq r S.rows).length = S.bidx.length := by
    rw [fromSeq_length]; simp [MLStructure.rows, hL]
  rw [ia_eq S.bs S.bidx _ hL hb, ravCart_eq, cartesian_map_snd, product_filter _ _ hlen,
    nonzeroSpec_eq_product]
  simp only [MLStructure.lowerFilter, Bool.false_eq_true, if_false, List.filter_map, List.map_map]
  have hf : (product S.bidx).filter (fun es => es.map (·.1) = fromSeq r S.rows) =
      (product S.bidx).filter ((fun p : Nat × Nat => decide (p.1 = r)) ∘
        fun es => (toSeq (es.map (·.1)) S.rows, toSeq (es.map (·.2)) S.cols)) := by
    apply List.filter_congr
    intro es hes
    have hm := (mem_product _ _).1 hes
    obtain ⟨bI, _⟩ := allMem_inRange es S.bidx S.bs hm hr
    simp only [Function.comp, decide_eq_decide]
    constructor
    · intro h; rw [h]; exact toSeq_fromSeq r _ hrow
    · intro h; rw [← h]; exact (fromSeq_toSeq _ _ bI).symm
  rw [hf]
  rfl

/-- **per-row query**: `nonzeros_for_rows(R)` (any order of `R`, duplicates allowed) returns, row
by row in the order of `R`, exactly the entries of the layout specification in that row, each
tagged with the row's position in `R` (the `renumber_rows` output). -/
theorem rows_spec (S : MLStructure) (hL : S.bs.length = S.bidx.length) (hr : InRange S.bidx S.bs)
    (R : List Nat) (hR : ∀ r ∈ R, r < prod S.rows) :
    S.nonzerosForRows R = R.zipIdx.flatMap (fun ri =>
      ((S.nonzeroSpec false).filter (fun p => p.1 = ri.1)).map (fun p => (ri.1, p.2, ri.2))) := by
  unfold MLStructure.nonzerosForRows
  apply flatMap_congr'
  intro ri hri
  have hmem : ri.1 ∈ R := by
    have := List.mem_zipIdx hri
    rcases ri with ⟨r, k⟩
    simp only at this ⊢
    rw [this.2.2]; exact List.getElem_mem _
  have := row_spec S hL hr ri.1 (hR _ hmem)
  simp only [] at this ⊢
  rw [this, List.map_map]
  rfl

/-- **pattern from two spline spaces**: the `searchsorted` + `while` loop of
`compute_sparsity_ij`, run on the mesh-support tables of the two knot vectors, returns exactly the
pairs `(i, j)` of basis functions whose supports overlap in a set of positive length, row by row
in increasing `j` — whenever the column space's table is monotone in both end points with
non-empty supports (true for `mesh_support_idx_all` of every knot vector; re-checked on every
table the harness sends). -/
theorem sparsity_from_kvs (ms1 ms2 : List (Nat × Nat)) (hm : MonoSupp ms1)
    (h2 : ∀ a ∈ ms2, a.1 < a.2) : sparsityIJ ms1 ms2 = sparsitySpec ms1 ms2 :=
  sparsityIJ_eq_spec ms1 ms2 hm h2

example : sparsityIJ [(0,1),(0,2),(1,3),(2,3)] [(0,2),(1,3)] =
    [(0,0),(0,1),(0,2),(1,1),(1,2),(1,3)] ∧
    sparsitySpec [(0,1),(0,2),(1,3),(2,3)] [(0,2),(1,3)] =
    [(0,0),(0,1),(0,2),(1,1),(1,2),(1,3)] := by decide

/-- **partial Kronecker product**: `kron_partial(As, rows, restrict)` produces, row by row in the
order of `rows`, exactly the positions of the Kronecker pattern lying in that row, each with the
value `∏_k A_k[I_k, J_k]` of the full Kronecker product at that position; with `restrict` the
row index is the position of the row in `rows`. -/
theorem kron_partial_spec (As : List SpMat) (rows : List Nat) (restrict : Bool)
    (hr : InRange (fromKronecker As).bidx (fromKronecker As).bs)
    (hR : ∀ r ∈ rows, r < prod (fromKronecker As).rows) :
    kronPartialRaw As rows restrict = rows.zipIdx.flatMap (fun ri =>
      (((fromKronecker As).nonzeroSpec false).filter (fun p => p.1 = ri.1)).map
        (fun p => ((if restrict then ri.2 else ri.1), p.2, kronValue As ri.1 p.2))) := by
  unfold kronPartialRaw
  rw [rows_spec _ (by simp [fromKronecker]) hr rows hR, List.map_flatMap]
  apply flatMap_congr'
  intro ri _
  rw [List.map_map]
  rfl

example : kronPartialRaw [⟨2, 2, [(0,0,2),(1,1,3)]⟩, ⟨1, 2, [(0,0,5),(0,1,7)]⟩] [1] true
    = [(0,2,15),(0,3,21)] := by decide

/-! ## sequential per-level numbering and the element generators -/

/-- **`ReorderedTensorGenerator`**: for the data-tensor index `μ` the generator asks the assembler for
the matrix position `reindex_from_multilevel([sequential_bidx[k][μ_k]], bs)`; with the row-major ravel
(stride = number of block columns) this is exactly the position `entryAt μ` where the compact layout
(`nonzero()`, `asmatrix`, `matvec`) stores that entry -- any number of levels, rectangular blocks. -/
theorem generator_entry_spec (S : MLStructure) (μ : List Nat) (hr : InRangeZ S.bs S.bidx) :
    S.generatorEntry false μ = S.entryAt μ :=
  generatorEntry_eq_entryAt S μ hr

/-- **`ReorderedMatrixGenerator`** (two levels, through `reindex_from_reordered`) asks for the same position -/
theorem generator_entry_2_spec (b1 b2 : Nat × Nat) (p1 p2 : Pattern) (i j : Nat)
    (hr : InRangeZ [b1, b2] [p1, p2]) (hi : i < p1.length) (hj : j < p2.length) :
    ({ bs := [b1, b2], bidx := [p1, p2] } : MLStructure).generatorEntry2 false i j
      = ({ bs := [b1, b2], bidx := [p1, p2] } : MLStructure).entryAt [i, j] :=
  generatorEntry2_eq b1 b2 p1 p2 i j hr hi hj

/-- the pinned `sequential_bidx` (`bs[j][0] * i + j`: stride = number of block ROWS) does not: for one
2x3 block the entry stored at `(1,2)` is requested at `(1,1)` (replayed on the code; repaired in /repo) -/
theorem sequential_bidx_as_coded_wrong :
    let S : MLStructure := { bs := [(2, 3)], bidx := [[(0, 0), (1, 2)]] }
    S.generatorEntry true [1] = (1, 1) ∧ S.entryAt [1] = (1, 2) ∧ S.generatorEntry false [1] = (1, 2) :=
  generator_as_coded_wrong

example : InRangeZ [(2, 3), (3, 2)] [[(0,0),(1,2)], [(2,1),(0,0)]] := by
  simp [InRangeZ]

/-- **level reordering** (`MLMatrix.reorder(axes)` = `structure.reorder(axes)` + `np.transpose(data, axes)`): the
entry with data index `μ` is found at data index `(μ[axes[0]], μ[axes[1]], …)` of the reordered matrix, at the
position whose per-level (row, column) digits are those of the original entry permuted by `axes` -- i.e. the
reordered matrix is the Kronecker-structured matrix of the permuted level factors, for any `axes`. -/
theorem reorder_entry (S : MLStructure) (axes μ : List Nat) :
    (S.reorder axes).entryAt (axes.map (fun j => μ.getD j 0)) =
      (toSeq (axes.map (fun j => ((S.bidx.getD j []).getD (μ.getD j 0) (0, 0)).1)) (axes.map (fun j => (S.bs.getD j (0, 0)).1)),
       toSeq (axes.map (fun j => ((S.bidx.getD j []).getD (μ.getD j 0) (0, 0)).2)) (axes.map (fun j => (S.bs.getD j (0, 0)).2))) :=
  reorder_entryAt S axes μ

example : ({ bs := [(2,2),(3,3)], bidx := [[(1,0)],[(0,2),(2,1)]] } : MLStructure).entryAt [0, 1] = (5, 1) ∧
    (({ bs := [(2,2),(3,3)], bidx := [[(1,0)],[(0,2),(2,1)]] } : MLStructure).reorder [1, 0]).entryAt [1, 0] = (5, 2) := by
  decide

/-- **the compact data of a Kronecker product**: for `S = MLStructure.from_kronecker(As)` (factors with stored
positions in range and pairwise distinct, as scipy hands them over) the data-tensor index `μ` sits at a
position where the dense Kronecker product `A_1 ⊗ … ⊗ A_L` has the value `∏_k A_k.data[μ_k]`; a data tensor
holding the outer product of the factors' stored values therefore denotes exactly the Kronecker product
(with `nonzero_support_kron`: same support, same values), for any number of rectangular factors. -/
theorem kron_data_layout (As : List SpMat) (hwf : ∀ A ∈ As, A.WF) (μ : List Nat)
    (hμ : Below μ (fromKronecker As).NN) :
    kronValue As ((fromKronecker As).entryAt μ).1 ((fromKronecker As).entryAt μ).2
      = ((As.zip μ).map (fun (am : SpMat × Nat) => (am.1.ent.getD am.2 (0, 0, 0)).2.2)).foldl (· * ·) 1 :=
  kron_value_at As hwf μ hμ

example : (⟨2, 3, [(0,1,2),(1,2,3)]⟩ : SpMat).WF ∧ (⟨1, 2, [(0,0,5),(0,1,7)]⟩ : SpMat).WF ∧
    Below [1, 1] (fromKronecker [⟨2, 3, [(0,1,2),(1,2,3)]⟩, ⟨1, 2, [(0,0,5),(0,1,7)]⟩]).NN ∧
    (fromKronecker [⟨2, 3, [(0,1,2),(1,2,3)]⟩, ⟨1, 2, [(0,0,5),(0,1,7)]⟩]).entryAt [1, 1] = (1, 5) ∧
    kronValue [⟨2, 3, [(0,1,2),(1,2,3)]⟩, ⟨1, 2, [(0,0,5),(0,1,7)]⟩] 1 5 = 21 := by
  refine ⟨⟨by decide, by decide⟩, ⟨by decide, by decide⟩, ?_, by decide, by decide⟩
  simp [fromKronecker, MLStructure.NN, Below]

/-! ## the matrix-vector product -/

/-- **`MLMatrix._matvec` as coded = the denoted sparse matrix applied to `x`**: on every route -- the
`y[I] += X[i,j]*x[J]` accumulation loops of `ml_matvec_2d/3d` started from `np.zeros(shape[0])`, and
`asmatrix().dot(x)` for one or more than three levels -- component `I` of the result is the sum of
`X[μ] * x[J]` over exactly the stored entries `μ` that the layout specification places in row `I`
(duplicates add up), for any number of levels, any pattern order, rectangular blocks, any data. -/
theorem matvec_refines (S : MLStructure) (data x : List Int) :
    S.matvecImpl data x =
      (List.range S.shape.1).map (fun I =>
        wsum (fun pd => pd.2 * x.getD pd.1.2 0)
          (((S.nonzeroSpec false).zip data).filter (fun pd => pd.1.1 = I))) := by
  rw [matvecImpl_eq, matvec_eq_rowSums]; rfl

/-- the conversion to canonical sparse form (duplicates summed, sorted row-major, explicit zeros
dropped) does not change the operator: `asmatrix().dot(x)` = the specification's product -/
theorem asmatrix_preserves_matvec (S : MLStructure) (data x : List Int) :
    cooMatvec S.shape.1 (S.asmatrix data) x = S.matvec data x :=
  asmatrix_matvec S data x

/-- the result has one component per row of the denoted matrix, also for rectangular level blocks
(the pinned tree allocated `len(x)` components: repaired in /repo, commit f9cc98d) -/
theorem matvec_length (S : MLStructure) (data x : List Int) :
    (S.matvecImpl data x).length = prod S.rows := by
  rw [matvec_refines]; simp [MLStructure.shape]

example : ({ bs := [(2,1),(1,2)], bidx := [[(1,0),(0,0)],[(0,1),(0,0)]] } : MLStructure).matvecImpl
    [1,2,3,4] [10,100] = [340, 120] := by decide

end Pyiga.Props.C15
