/-
Part 7: `JacInv` for dim 3, and `ChainRuleEnv` from the definitions of the derived variables.
-/
import Pyiga.Proofs.VFormPhys3

namespace Pyiga.VForm
open Expr Finset

variable {α : Type} [Field α] [CharZero α]

theorem varMat3 (dim : Nat) : varMat "Jac" dim 3 3 =
    [[varref "Jac" [0, 0] (zerosD dim) false, varref "Jac" [0, 1] (zerosD dim) false, varref "Jac" [0, 2] (zerosD dim) false],
     [varref "Jac" [1, 0] (zerosD dim) false, varref "Jac" [1, 1] (zerosD dim) false, varref "Jac" [1, 2] (zerosD dim) false],
     [varref "Jac" [2, 0] (zerosD dim) false, varref "Jac" [2, 1] (zerosD dim) false, varref "Jac" [2, 2] (zerosD dim) false]] := by
  simp [varMat, List.range_succ]

/-- **JacInv, dim 3**: the cofactor matrix times `1/det` built by the modelled `inv` is a right inverse of `Jac` -/
theorem jacInv3_right_inverse (fn : String → α → α) (ρ : Env α) (dim : Nat) (m k : Nat) (hm : m < 3) (hk : k < 3)
    (hdet : ev (fieldOps fn) ρ (detL 3 (varMat "Jac" dim 3 3)) 0 0 ≠ 0) :
    ∑ r ∈ range 3, ρ.var "Jac" [m, r] (zerosD dim) false * ev (fieldOps fn) ρ (invL 3 (varMat "Jac" dim 3 3)) r k
      = if m = k then 1 else 0 := by
  have hd := hdet
  rw [detJac3] at hd
  rw [varMat3]
  have hm' : m = 0 ∨ m = 1 ∨ m = 2 := by omega
  have hk' : k = 0 ∨ k = 1 ∨ k = 2 := by omega
  rcases hm' with rfl | rfl | rfl <;> rcases hk' with rfl | rfl | rfl <;>
    simp [invL, detL, reduceAdd, minorRows, pmOne, ev, evL, Ops.bin, fieldOps, broadcast, List.range_succ, Finset.sum_range_succ] <;>
    (generalize ρ.var "Jac" [0, 0] (zerosD dim) false = a at *
     generalize ρ.var "Jac" [0, 1] (zerosD dim) false = b at *
     generalize ρ.var "Jac" [0, 2] (zerosD dim) false = c at *
     generalize ρ.var "Jac" [1, 0] (zerosD dim) false = d at *
     generalize ρ.var "Jac" [1, 1] (zerosD dim) false = e at *
     generalize ρ.var "Jac" [1, 2] (zerosD dim) false = f at *
     generalize ρ.var "Jac" [2, 0] (zerosD dim) false = g at *
     generalize ρ.var "Jac" [2, 1] (zerosD dim) false = h at *
     generalize ρ.var "Jac" [2, 2] (zerosD dim) false = i at *
     first
     | ring1
     | (rw [← mul_inv_cancel₀ hd]; ring1))


/-- everything `ChainRuleEnv` asks of the *jets* (the defining equations of physical derivatives of basis functions and
parametric input fields w.r.t. the Jacobian `J`, the flag convention) and of the `_geo_hess_trf` variables — but nothing
about `JacInv` -/
structure JetDefs (fn : String → α → α) (ρ : Env α) (dim : Nat) (physIn : List String) (J : Nat → Nat → α) : Prop where
  flag_bf : ∀ b D ph, dsum D = 0 → ρ.bf b D ph = ρ.bf b D false
  flag_var : ∀ v I D p, dsum D = 0 → ρ.var v I D p = ρ.var v I D true
  bf1 : ∀ b r, r < dim → ρ.bf b (unitD dim r) false = ∑ m ∈ range dim, J m r * ρ.bf b (unitD dim m) true
  bf2 : ∀ b r c, r < dim → c < dim → ρ.bf b (unit2D dim r c) false
      = ∑ n ∈ range dim, (∑ m ∈ range dim, J m r * ρ.bf b (unit2D dim m n) true) * J n c
        + ∑ m ∈ range dim, ρ.bf b (unitD dim m) true * ρ.var "geo_a" [m] (unit2D dim r c) true
  var1 : ∀ v I r, physIn.contains v = false → r < dim →
      ρ.var v I (unitD dim r) true = ∑ m ∈ range dim, J m r * ρ.var v I (unitD dim m) false
  var2 : ∀ v I r c, physIn.contains v = false → r < dim → c < dim → ρ.var v I (unit2D dim r c) true
      = ∑ n ∈ range dim, (∑ m ∈ range dim, J m r * ρ.var v I (unit2D dim m n) false) * J n c
        + ∑ m ∈ range dim, ρ.var v I (unitD dim m) false * ρ.var "geo_a" [m] (unit2D dim r c) true
  ght : ∀ k i j, k < dim → i < dim → j < dim →
    ρ.var (geoHessTrfName k i j) [] (zerosD dim) false = ev (fieldOps fn) ρ (geoHessTrfDef dim k i j) 0 0

/-- the variable `Jac` holds the parametric gradient of the geometry, the variable `JacInv` holds the value of its
definition `inv(Jac)` (what evaluating the variable list in a def-before-use order gives, `schedule_sound`) -/
structure JacStore (fn : String → α → α) (ρ : Env α) (dim : Nat) : Prop where
  jac : ∀ i j, i < dim → j < dim → ρ.var "Jac" [i, j] (zerosD dim) false = ρ.var "geo_a" [i] (unitD dim j) true
  jacInv : ∀ r c, r < dim → c < dim → ρ.var "JacInv" [r, c] (zerosD dim) false = ev (fieldOps fn) ρ (jacInvDef dim) r c
  det : ev (fieldOps fn) ρ (detL dim (varMat "Jac" dim dim dim)) 0 0 ≠ 0

/-- `JacInv` as computed by the modelled `inv(Jac)` is a right inverse of the Jacobian, dims 1–3 -/
theorem hinv_of_store (fn : String → α → α) (ρ : Env α) (dim : Nat) (hdim : dim = 1 ∨ dim = 2 ∨ dim = 3)
    (hS : JacStore fn ρ dim) (m k : Nat) (hm : m < dim) (hk : k < dim) :
    ∑ r ∈ range dim, ρ.var "geo_a" [m] (unitD dim r) true * ρ.var "JacInv" [r, k] (zerosD dim) false
      = if m = k then 1 else 0 := by
  have e : ∀ r, r ∈ range dim → ρ.var "geo_a" [m] (unitD dim r) true * ρ.var "JacInv" [r, k] (zerosD dim) false
      = ρ.var "Jac" [m, r] (zerosD dim) false * ev (fieldOps fn) ρ (jacInvDef dim) r k := by
    intro r hr
    rw [hS.jac m r hm (Finset.mem_range.mp hr), hS.jacInv r k (Finset.mem_range.mp hr) hk]
  rw [Finset.sum_congr rfl e]
  rcases hdim with rfl | rfl | rfl
  · have hm0 : m = 0 := by omega
    have hk0 : k = 0 := by omega
    subst hm0 hk0
    have hd : ρ.var "Jac" [0, 0] (zerosD 1) false ≠ 0 := by
      have := hS.det; rwa [detJac1] at this
    simpa [jacInvDef, Finset.sum_range_one] using jacInv1_right_inverse fn ρ 1 hd
  · exact jacInv2_right_inverse fn ρ 2 m k hm hk hS.det
  · exact jacInv3_right_inverse fn ρ 3 m k hm hk hS.det

/-- **chainRuleEnv_of_defs**: `ChainRuleEnv` no longer has to be assumed for the derived variable `JacInv` — it follows
from the store holding the *definitions* of `Jac` and `JacInv` (dims 1–3), a non-singular Jacobian, and the jet definitions. -/
theorem chainRuleEnv_of_defs (fn : String → α → α) (ρ : Env α) (dim : Nat) (hdim : dim = 1 ∨ dim = 2 ∨ dim = 3)
    (physIn : List String) (hS : JacStore fn ρ dim)
    (hJ : JetDefs fn ρ dim physIn (fun m i => ρ.var "geo_a" [m] (unitD dim i) true)) :
    ChainRuleEnv fn ρ dim physIn (fun m i => ρ.var "geo_a" [m] (unitD dim i) true) :=
  { hinv := fun m k hm hk => hinv_of_store fn ρ dim hdim hS m k hm hk
    flag_bf := hJ.flag_bf, flag_var := hJ.flag_var, bf1 := hJ.bf1, bf2 := hJ.bf2, var1 := hJ.var1, var2 := hJ.var2, ght := hJ.ght }

end Pyiga.VForm
