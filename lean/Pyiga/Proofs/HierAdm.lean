/-
L-hier: admissibility (mesh level disparity) for the default marking — abstract hierarchy.

`J d levels`: for every cell `Q` of the level-`l` refinement region (`l ≥ d+1`), every level-`(l-d-1)`
cell in the support extension of `Q` is deactivated.  `J` is preserved by `refineLevels` with a
finite disparity `d ≥ 1` and `truncate=False` (because `_mark_recursive` closes the marks under
`_cell_neighborhood`), and it implies that no active function of level `k` is non-zero on an
active cell of level `> k + d`.
-/
import Pyiga.Proofs.HierRefine
import Pyiga.Proofs.HierAdmLaws

namespace Pyiga.Hier

section adm
variable {O : Ops} {VC VF : Nat → Idx → Prop} {par : Idx → Idx}

/-- `c` lies in the level-`lv` support extension of the cell `q`: some level-`lv` function is
non-zero on both -/
def Ext (O : Ops) (VF : Nat → Idx → Prop) (lv : Nat) (q c : Idx) : Prop :=
  ∃ f, VF lv f ∧ q ∈ O.support lv [f] ∧ c ∈ O.support lv [f]

abbrev lvl (levels : List Level) (i : Nat) : Level := levels.getD i emptyLevel

def InΩ (levels : List Level) (l : Nat) (Q : Idx) : Prop :=
  Q ∈ (lvl levels l).act ∨ Q ∈ (lvl levels l).deact

/-- strict admissibility invariant of class `d+1` -/
def J (O : Ops) (VF : Nat → Idx → Prop) (par : Idx → Idx) (d : Nat) (levels : List Level) : Prop :=
  ∀ l Q c, d + 1 ≤ l → InΩ levels l Q → Ext O VF (l - d - 1) (anc par (d + 1) Q) c →
    c ∈ (lvl levels (l - d - 1)).deact

theorem anc_succ' (par : Idx → Idx) : ∀ (n : Nat) (c : Idx), anc par (n + 1) c = anc par n (par c)
  | 0, _ => rfl
  | n + 1, c => by
    show par (anc par (n + 1) c) = par (anc par n (par c))
    rw [anc_succ' par n c]

theorem anc_add (par : Idx → Idx) : ∀ (m n : Nat) (c : Idx), anc par (m + n) c = anc par m (anc par n c)
  | 0, n, c => by simp [anc]
  | m + 1, n, c => by
    rw [show m + 1 + n = (m + n) + 1 by omega]
    show par (anc par (m + n) c) = par (anc par m (anc par n c))
    rw [anc_add par m n c]

/-! ### reading `Inv` by index -/

theorem lvl_of_le (levels : List Level) (i : Nat) (h : levels.length ≤ i) : lvl levels i = emptyLevel := by
  simp [lvl, List.getD_eq_getElem?_getD, List.getElem?_eq_none h]

theorem inΩ_lt {levels : List Level} {l : Nat} {Q : Idx} (h : InΩ levels l Q) : l < levels.length := by
  apply Classical.byContradiction
  intro hn
  rw [InΩ, lvl_of_le levels l (Nat.le_of_not_lt hn)] at h
  simp [emptyLevel] at h

theorem inv_levelOK (levels : List Level) (h : Inv O VC VF par 0 (VC 0) levels) (i : Nat)
    (hi : i < levels.length) : ∃ Ω, LevelOK O VF i Ω (lvl levels i) := by
  cases i with
  | zero =>
    cases levels with
    | nil => simp at hi
    | cons l rest => exact ⟨_, by simpa [lvl] using Inv.head h⟩
  | succ i =>
    have := inv_level_succ levels 0 _ i h hi
    exact ⟨_, by simpa [lvl] using this⟩

theorem inv_cover0 (levels : List Level) (h : Inv O VC VF par 0 (VC 0) levels) (c : Idx) :
    InΩ levels 0 c ↔ VC 0 c := by
  cases levels with
  | nil => exact h.elim
  | cons l rest => simpa [InΩ, lvl] using (Inv.head h).cover c

theorem inv_cover_succ (levels : List Level) (h : Inv O VC VF par 0 (VC 0) levels) (i : Nat)
    (hi : i + 1 < levels.length) (c : Idx) :
    InΩ levels (i + 1) c ↔ VC (i + 1) c ∧ par c ∈ (lvl levels i).deact := by
  have := (inv_level_succ levels 0 _ i h hi).cover c
  simpa [InΩ, lvl] using this

theorem inv_valid (levels : List Level) (h : Inv O VC VF par 0 (VC 0) levels) (i : Nat) (c : Idx)
    (hc : InΩ levels i c) : VC i c := by
  have hi := inΩ_lt hc
  cases i with
  | zero => exact (inv_cover0 levels h c).1 hc
  | succ i => exact ((inv_cover_succ levels h i hi c).1 hc).1

/-- ancestors of cells of a refinement region lie in the coarser refinement regions -/
theorem anc_inΩ (levels : List Level) (h : Inv O VC VF par 0 (VC 0) levels) :
    ∀ (n l : Nat) (Q : Idx), InΩ levels (l + n) Q → InΩ levels l (anc par n Q)
  | 0, _, _, hQ => hQ
  | n + 1, l, Q, hQ => by
    rw [anc_succ']
    apply anc_inΩ levels h n l (par Q)
    have hQ' : InΩ levels ((l + n) + 1) Q := by rwa [show l + (n + 1) = l + n + 1 by omega] at hQ
    have hlt := inΩ_lt hQ'
    exact Or.inr ((inv_cover_succ levels h (l + n) hlt Q).1 hQ').2

/-! ### `J` implies admissibility -/

/-- **admissibility from the invariant**: an active function of level `k` and an active cell of
level `l` on which it does not vanish satisfy `l ≤ k + d`. -/
theorem admissible_of_J (d : Nat) (levels : List Level)
    (h : Inv O VC VF par 0 (VC 0) levels) (hJ : J O VF par d levels)
    (k l : Nat) (f Q : Idx) (hf : f ∈ (lvl levels k).actfun) (hQ : Q ∈ (lvl levels l).act)
    (hkl : k ≤ l) (hov : anc par (l - k) Q ∈ O.support k [f]) : l ≤ k + d := by
  apply Classical.byContradiction
  intro hn
  have hlt : k + d + 1 ≤ l := by omega
  have hk : k < levels.length := by
    apply Classical.byContradiction
    intro hk
    rw [lvl_of_le levels k (Nat.le_of_not_lt hk)] at hf
    simp [emptyLevel] at hf
  obtain ⟨Ω, hΩ⟩ := inv_levelOK levels h k hk
  obtain ⟨hvf, _, hnd⟩ := (hΩ.actfun_iff f).1 hf
  apply hnd
  intro c hc
  -- the ancestor of `Q` on level `k+d+1`
  have hQ' : InΩ levels (k + d + 1) (anc par (l - (k + d + 1)) Q) :=
    anc_inΩ levels h (l - (k + d + 1)) (k + d + 1) Q
      (by rw [show k + d + 1 + (l - (k + d + 1)) = l by omega]; exact Or.inl hQ)
  have := hJ (k + d + 1) _ c (by omega) hQ'
  rw [show k + d + 1 - d - 1 = k by omega, ← anc_add, show d + 1 + (l - (k + d + 1)) = l - k by omega] at this
  exact this ⟨f, hvf, hov, hc⟩

/-! ### the marks are closed under `_cell_neighborhood` -/

theorem foldl_parent_mem (LA : LawsAdm O VC VF par) (l : Nat) (cells : List Idx) : ∀ (n : Nat) (c : Idx),
    c ∈ (List.range n).foldl (fun cs i => O.parent (l - i) cs) cells ↔ ∃ q ∈ cells, c = anc par n q
  | 0, c => by simp [anc]
  | n + 1, c => by
    rw [List.range_succ, List.foldl_append]
    simp only [List.foldl_cons, List.foldl_nil, LA.mem_parent]
    constructor
    · rintro ⟨q', hq', rfl⟩
      obtain ⟨q, hq, rfl⟩ := (foldl_parent_mem LA l cells n q').1 hq'
      exact ⟨q, hq, rfl⟩
    · rintro ⟨q, hq, rfl⟩
      exact ⟨anc par n q, (foldl_parent_mem LA l cells n _).2 ⟨q, hq, rfl⟩, rfl⟩

theorem cse_mem (L : Laws O VC VF par) (LA : LawsAdm O VC VF par) (l k : Nat) (hk : k ≤ l)
    (cells : List Idx) (hv : ∀ q ∈ cells, VC l q) (c : Idx) :
    c ∈ cellSupportExtension O l cells k ↔ ∃ q ∈ cells, Ext O VF k (anc par (l - k) q) c := by
  have haux : (if (k == l) = true then cells
      else (List.range (l - k)).foldl (fun cs i => O.parent (l - i) cs) cells)
      = (List.range (l - k)).foldl (fun cs i => O.parent (l - i) cs) cells := by
    split
    · rename_i e
      have : k = l := by simpa using e
      subst this; simp
    · rfl
  unfold cellSupportExtension
  simp only [haux]
  have hvalid : ∀ q' ∈ (List.range (l - k)).foldl (fun cs i => O.parent (l - i) cs) cells, VC k q' := by
    intro q' hq'
    obtain ⟨q, hq, rfl⟩ := (foldl_parent_mem LA l cells (l - k) q').1 hq'
    exact anc_valid L k (l - k) q (by rw [show k + (l - k) = l by omega]; exact hv q hq)
  rw [LA.mem_support]
  constructor
  · rintro ⟨f, hf, hc⟩
    obtain ⟨hvf, q', hq', hq'f⟩ := (L.mem_supportedIn k _ f hvalid).1 hf
    obtain ⟨q, hq, rfl⟩ := (foldl_parent_mem LA l cells (l - k) q').1 hq'
    exact ⟨q, hq, f, hvf, hq'f, hc⟩
  · rintro ⟨q, hq, f, hvf, hqf, hc⟩
    exact ⟨f, (L.mem_supportedIn k _ f hvalid).2
      ⟨hvf, anc par (l - k) q, (foldl_parent_mem LA l cells (l - k) _).2 ⟨q, hq, rfl⟩, hqf⟩, hc⟩

/-- the marks of level `j` have their neighbourhood among the marks of level `j-d` -/
def ClosedAt (O : Ops) (d : Nat) (levels : List Level) (M : Marks) (j : Nat) : Prop :=
  ∀ c ∈ cellNeighborhood O d levels j (getM M j) false, c ∈ getM M (j - d)

theorem markRec_closed (L : Laws O VC VF par) (d : Nat) (hd : 1 ≤ d) (levels : List Level) :
    ∀ (fuel l : Nat) (M : Marks), l + 1 ≤ fuel → (∀ j, j < l → ClosedAt O d levels M j) →
      (∀ j, j ≤ l → ClosedAt O d levels (markRec O d levels false fuel l M) j) ∧
      (∀ j, l ≤ j → getM (markRec O d levels false fuel l M) j = getM M j) ∧
      (∀ j c, c ∈ getM M j → c ∈ getM (markRec O d levels false fuel l M) j)
  | 0, l, M, hf, _ => by omega
  | fuel + 1, l, M, hf, hcl => by
    unfold markRec
    simp only
    split
    · rename_i he
      refine ⟨fun j hj => ?_, fun _ _ => rfl, fun _ _ h => h⟩
      by_cases hjl : j < l
      · exact hcl j hjl
      · have : j = l := by omega
        subst this
        intro c hc
        rw [List.isEmpty_iff.1 he] at hc
        simp at hc
    · rename_i hne
      have hld : d ≤ l := by
        apply Classical.byContradiction
        intro h
        apply hne
        unfold cellNeighborhood
        rw [if_pos (by omega)]
        rfl
      -- the marks after adding the neighbours on level l-d
      generalize hnb : cellNeighborhood O d levels l (getM M l) false = nb at hne
      generalize hM1 : setM M (l - d) (union (dedup (getM M (l - d))) nb) = M1
      have hget : ∀ j, getM M1 j = if j = l - d then union (dedup (getM M (l - d))) nb else getM M j := by
        intro j; rw [← hM1, getM_setM]
      have hcl1 : ∀ j, j < l - d → ClosedAt O d levels M1 j := by
        intro j hj c hc
        rw [hget j, if_neg (by omega)] at hc
        rw [hget (j - d), if_neg (by omega)]
        exact hcl j (by omega) c hc
      obtain ⟨r1, r2, r3⟩ := markRec_closed L d hd levels fuel (l - d) M1 (by omega) hcl1
      refine ⟨?_, ?_, ?_⟩
      · intro j hj
        by_cases hjd : j ≤ l - d
        · exact r1 j hjd
        · intro c hc
          rw [r2 j (by omega), hget j, if_neg (by omega)] at hc
          apply r3
          by_cases hjl : j = l
          · subst hjl
            rw [hget, if_pos rfl]
            rw [hnb] at hc
            exact mem_union.2 (Or.inr hc)
          · have := hcl j (by omega) c hc
            rw [hget (j - d)]
            split
            · exact mem_union.2 (Or.inl (mem_dedup.2 (by rename_i e; rw [← e]; exact this)))
            · exact this
      · intro j hj
        rw [r2 j (by omega), hget j, if_neg (by omega)]
      · intro j c hc
        apply r3
        rw [hget j]
        split
        · rename_i e; subst e
          exact mem_union.2 (Or.inl (mem_dedup.2 hc))
        · exact hc

theorem markAll_closed (L : Laws O VC VF par) (d : Nat) (hd : 1 ≤ d) (levels : List Level) (M : Marks) :
    ∀ j, j < levels.length → ClosedAt O d levels (markAll O d levels false M) j := by
  unfold markAll
  have key : ∀ n, ∀ j, j < n → ClosedAt O d levels
      ((List.range n).foldl (fun M l => markRec O d levels false (l + 1) l M) M) j := by
    intro n
    induction n with
    | zero => intro j hj; omega
    | succ n ih =>
      intro j hj
      rw [List.range_succ, List.foldl_append]
      simp only [List.foldl_cons, List.foldl_nil]
      exact (markRec_closed L d hd levels (n + 1) n _ (Nat.le_refl _) ih).1 j (by omega)
  exact key levels.length

/-! ### `J` is preserved by `refineLevels` -/

theorem J_ensureLevels (d K : Nat) (levels : List Level) (h : J O VF par d levels) :
    J O VF par d (ensureLevels K levels) := by
  intro l Q c hl hQ hE
  simp only [InΩ, lvl, getD_ensureLevels] at hQ ⊢
  exact h l Q c hl hQ hE

theorem lvl_mapFrom_step (M : Marks) (levels : List Level) (i : Nat) (hi : i < levels.length) :
    lvl (mapFrom (stepLevel O M) 0 levels) i = stepLevel O M i (lvl levels i) := by
  simp only [lvl]
  rw [getD_mapFrom (stepLevel O M) levels 0 i emptyLevel emptyLevel hi, Nat.zero_add]

theorem refineLevels_J (L : Laws O VC VF par) (LA : LawsAdm O VC VF par) (d : Nat) (hd : 1 ≤ d)
    (levels levels' : List Level) (M M' : Marks)
    (hinv : Inv O VC VF par 0 (VC 0) levels) (hJ : J O VF par d levels) (hM : MarksActive levels M)
    (hr : refineLevels O (some d) levels M false = .ok (levels', M')) :
    J O VF par d levels' := by
  unfold refineLevels at hr
  split at hr
  · simp at hr
  · rename_i mx hmx
    simp only [Except.ok.injEq, Prod.mk.injEq] at hr
    obtain ⟨hl', hM'⟩ := hr
    rw [if_neg (by omega)] at hM' hl'
    generalize hl1 : ensureLevels (mx + 2) levels = levels1 at hl' hM'
    have hinv1 : Inv O VC VF par 0 (VC 0) levels1 := by rw [← hl1]; exact inv_ensureLevels L levels 0 (VC 0) (mx + 2) hinv
    have hJ1 : J O VF par d levels1 := by rw [← hl1]; exact J_ensureLevels d _ levels hJ
    have hM1 : MarksActive levels1 M := by
      rw [← hl1]; intro lv c hc; rw [getD_ensureLevels]; exact hM lv c hc
    have hB : MarksBelow (mx + 1) M := fun lv hlv => maxLevel_spec M mx hmx lv (by omega)
    have hmark := markAll_ok L d hd levels1 false (mx + 1) M hM1 hB
    rw [hM'] at hmark
    have hclosed : ∀ j, j < levels1.length → ClosedAt O d levels1 M' j := by
      rw [← hM']; exact markAll_closed L d hd levels1 M
    have hlen : mx + 2 ≤ levels1.length := by rw [← hl1]; exact length_ensureLevels _ _
    have hlast : getM M' (levels1.length - 1) = [] := hmark.2 _ (by omega)
    have hcore : levels' = mapFrom (stepLevel O M') 0 levels1 := by
      rw [← hl', hM']; exact refineCore_eq L M' levels1 hlast
    -- the proof proper
    intro l Q c hl hQ hE
    have hl'lt : l < levels'.length := inΩ_lt hQ
    have hllt : l < levels1.length := by rw [hcore, mapFrom_length] at hl'lt; exact hl'lt
    have hdeact_mono : ∀ i c, c ∈ (lvl levels1 i).deact ∨ c ∈ getM M' i → i < levels1.length →
        c ∈ (lvl levels' i).deact := by
      intro i c hc hi
      rw [hcore, lvl_mapFrom_step M' levels1 i hi, mem_step_deact]
      exact hc
    have hQ1 : InΩ levels1 l Q ∨ Q ∈ newCells O M' l := by
      rw [InΩ, hcore, lvl_mapFrom_step M' levels1 l hllt, mem_step_act, mem_step_deact] at hQ
      rcases hQ with ⟨h1 | h1, _⟩ | h1 | h1
      · exact Or.inl (Or.inl h1)
      · exact Or.inr h1
      · exact Or.inl (Or.inr h1)
      · exact Or.inl (Or.inl (hmark.1 l Q h1))
    rcases hQ1 with hQ1 | hQ1
    · have := hJ1 l Q c hl hQ1 hE
      exact hdeact_mono _ c (Or.inl this) (by omega)
    · -- `Q` is a child of a marked cell `Qp` of level `l0 = l - 1`
      obtain ⟨l0, rfl⟩ : ∃ l0, l = l0 + 1 := ⟨l - 1, by omega⟩
      have hmv : ∀ q ∈ dedup (getM M' l0), VC l0 q := fun q hq =>
        inv_valid levels1 hinv1 l0 q (Or.inl (hmark.1 l0 q (mem_dedup.1 hq)))
      have hQp := ((L.mem_children l0 _ Q hmv).1 hQ1).2
      rw [mem_dedup] at hQp
      have hQpa : par Q ∈ (lvl levels1 l0).act := hmark.1 l0 _ hQp
      have hl0 : l0 < levels1.length := inΩ_lt (Or.inl hQpa)
      rw [show l0 + 1 - d - 1 = l0 - d by omega, anc_succ'] at hE
      rw [show l0 + 1 - d - 1 = l0 - d by omega]
      obtain ⟨g, hvg, hqg, hcg⟩ := hE
      -- step 1: `c` lies in the refinement region of level `l0 - d`
      have hcΩ : InΩ levels1 (l0 - d) c := by
        cases hk : l0 - d with
        | zero => rw [hk] at hvg hcg; exact (inv_cover0 levels1 hinv1 c).2 (L.support_valid 0 g c hvg hcg)
        | succ k =>
          rw [hk] at hvg hqg hcg
          obtain ⟨f, hvf, hsub⟩ := LA.has_parent k g hvg
          have hE' : Ext O VF (l0 - d - 1) (anc par (d + 1) (par Q)) (par c) := by
            rw [show l0 - d - 1 = k by omega]
            exact ⟨f, hvf, hsub _ hqg, hsub _ hcg⟩
          have := hJ1 l0 (par Q) (par c) (by omega) (Or.inl hQpa) hE'
          rw [show l0 - d - 1 = k by omega] at this
          exact (inv_cover_succ levels1 hinv1 k (by omega) c).2 ⟨L.support_valid (k + 1) g c hvg hcg, this⟩
      -- step 2: deactivated already, or active and then marked by the closure
      rcases hcΩ with hca | hcd
      · apply hdeact_mono _ c _ (by omega)
        right
        apply hclosed l0 hl0
        unfold cellNeighborhood
        rw [if_neg (by omega)]
        simp only [Bool.false_eq_true, if_false]
        refine mem_inter.2 ⟨hca, ?_⟩
        rw [cse_mem L LA l0 (l0 - d) (by omega) _ (fun q hq => hmv q (mem_dedup.2 hq))]
        refine ⟨par Q, hQp, g, hvg, ?_, hcg⟩
        rw [show l0 - (l0 - d) = d by omega]
        exact hqg
      · exact hdeact_mono _ c (Or.inl hcd) (by omega)

theorem J_init (d : Nat) (hd : 1 ≤ d) (l0 : Level) : J O VF par d [l0] := by
  intro l Q c hl hQ _
  have := inΩ_lt hQ
  simp at this
  omega

end adm

end Pyiga.Hier
