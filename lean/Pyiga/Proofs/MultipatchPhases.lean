/-
Helper lemmas for C14: one Multipatch object through several phases
(joins → `finalize()` → more joins → `finalize()` → …).  `finalize` mutates the tables (drops emptied
shared dofs and renumbers); the invariants survive it, so everything recomputed from the current tables
after any phase is glued along *all* identifications declared so far.
-/
import Pyiga.Proofs.Multipatch

namespace Pyiga.MP
open Relation

/-- joins of phase 1, `finalize()`, joins of phase 2, `finalize()`, … on one object -/
def runPhases (cfg : Cfg) (st : State) : List (List (Dof × Dof)) → State
  | [] => st
  | L :: Ls => runPhases cfg (finalize cfg (runPairs cfg st L)) Ls

/-- the same for API calls -/
def runCallPhases (cfg : Cfg) (shapes : List (List Nat)) (st : State) : List (List Call) → State
  | [] => st
  | cs :: css => runCallPhases cfg shapes (finalize cfg (runCalls cfg shapes st cs)) css

theorem runCallPhases_eq (cfg : Cfg) (shapes : List (List Nat)) :
    ∀ (phases : List (List Call)) (st : State),
      runCallPhases cfg shapes st phases = runPhases cfg st (phases.map (declaredOf shapes))
  | [], _ => rfl
  | cs :: css, st => by
    simp only [runCallPhases, runPhases, List.map_cons, runCalls_eq]
    exact runCallPhases_eq cfg shapes css _

theorem Sound.compact {st : State} {L : List (Dof × Dof)} (hI : Inv st) (h : Sound st L) : Sound (compact st) L := by
  intro k x y hx hy
  rcases (cls_compact hI x y).1 (Or.inr ⟨k, hx, hy⟩) with e | ⟨s, hx', hy'⟩
  · subst e; exact EqvGen.refl _
  · exact h s x y hx' hy'

/-- the bundle of invariants that makes a finalized object correctly glued -/
structure Good (P : Nat) (N : Nat → Nat) (st : State) (L : List (Dof × Dof)) : Prop where
  inv : Inv st
  sound : Sound st L
  valid : ValidSt P N st
  cls : ∀ ab ∈ L, Cls st ab.1 ab.2
  nonempty : AllNonempty st

theorem Good.init (P : Nat) (N : Nat → Nat) : Good P N State.init [] :=
  ⟨Inv.init, fun s x y hx _ => by simp [State.init] at hx, fun s x hx => by simp [State.init] at hx,
   fun _ h => by simp at h, fun _ hk => by simp [State.init] at hk⟩

theorem runPhases_good {P : Nat} {N : Nat → Nat} :
    ∀ (phases : List (List (Dof × Dof))) (st : State) (L0 : List (Dof × Dof)), Good P N st L0 →
      (∀ L ∈ phases, ∀ ab ∈ L, ValidDof P N ab.1 ∧ ValidDof P N ab.2) →
      Good P N (runPhases Cfg.repaired st phases) (L0 ++ phases.flatten)
  | [], st, L0, h, _ => by simpa [runPhases] using h
  | L :: Ls, st, L0, h, hval => by
    obtain ⟨hI, hS, hV, hC⟩ := runPairs_ok (P := P) (N := N) Cfg.repaired rfl L st L0 h.inv h.sound h.valid h.cls
      (hval L (by simp))
    have g : Good P N (finalize Cfg.repaired (runPairs Cfg.repaired st L)) (L0 ++ L) :=
      ⟨hI.compact, Sound.compact hI hS, hV.compact, fun ab hab => (cls_compact hI _ _).2 (hC ab hab),
       allNonempty_compact _⟩
    have := runPhases_good Ls _ (L0 ++ L) g (fun L' hL' => hval L' (by simp [hL']))
    simpa [runPhases, List.append_assoc] using this

end Pyiga.MP
