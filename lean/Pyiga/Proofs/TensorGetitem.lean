/-
C18: `CanonicalTensor.squeeze` and `CanonicalTensor.__getitem__` commute with expansion.
-/
import Pyiga.Proofs.TensorSqueeze
import Pyiga.Proofs.TensorNway

set_option linter.unusedSectionVars false
set_option linter.unusedSimpArgs false
set_option linter.unusedVariables false

namespace Pyiga.Tensor
open Pyiga.Index

theorem pyPos_ofNat (d p : Nat) (h : p < d) : pyPos d (Int.ofNat p) = .ok p := by
  simp only [pyPos, intIndex]
  have h1 : ¬ (Int.ofNat p < 0) := by simp
  simp only [h1, if_false]
  rw [if_pos ⟨by simp, by simp; omega⟩]
  simp

theorem mapM_pyPos (d : Nat) : ∀ (pos : List Nat), (∀ p ∈ pos, p < d) →
    (pos.map Int.ofNat).mapM (pyPos d) = .ok pos
  | [], _ => rfl
  | p :: pos, h => by
    simp only [List.map_cons, List.mapM_cons, pyPos_ofNat d p (h p (by simp)),
      mapM_pyPos d pos (fun q hq => h q (by simp [hq]))]
    rfl

theorem contains_map_ofNat (pos : List Nat) (k : Nat) :
    (pos.map Int.ofNat).contains (Int.ofNat k) = pos.contains k := by
  induction pos with
  | nil => rfl
  | cons p pos ih =>
    simp only [List.map_cons, List.contains_cons, ih]
    congr 1
    by_cases h : k = p <;> simp [h]

variable {α : Type} [CommRing α]

theorem takeRows_canTerm : ∀ (Xs : List (Mat α)) (idx : List (List Nat)) (J : List Nat) (r : Nat),
    canTerm ((Xs.zip idx).map (fun p => p.1.takeRows p.2)) J r = canTerm (Xs.take idx.length) (pick idx J) r
  | [], _, _, _ => by simp [canTerm]
  | X :: Xs, [], J, r => by simp [canTerm]
  | X :: Xs, i :: idx, [], r => by simp [canTerm, pick]
  | X :: Xs, i :: idx, j :: J, r => by
    have ih := takeRows_canTerm Xs idx J r
    simp only [canTerm, List.zip_cons_cons, List.map_cons, prodL_cons, pick, List.length_cons,
      List.take_succ_cons] at ih ⊢
    rw [ih]; rfl

/-- `CanonicalTensor(X[Ik] for (X,Ik) in zip(Xs, I))`: row selection commutes with the outer-product expansion -/
theorem takeRows_entry (Xs : List (Mat α)) (idx : List (List Nat)) (J : List Nat) (hl : idx.length = Xs.length) :
    canEntry ((Xs.zip idx).map (fun p => p.1.takeRows p.2)) J = canEntry Xs (pick idx J) := by
  have hR : canR ((Xs.zip idx).map (fun p => p.1.takeRows p.2)) = canR Xs := by
    cases Xs with
    | nil => rfl
    | cons X Xs => cases idx with
      | nil => simp at hl
      | cons i idx => rfl
  rw [canEntry_eq, canEntry_eq, hR]
  refine sumN_congr _ _ _ (fun r _ => ?_)
  rw [takeRows_canTerm, hl, List.take_length]

theorem takeRows_rows : ∀ (Xs : List (Mat α)) (idx : List (List Nat)), idx.length = Xs.length →
    ((Xs.zip idx).map (fun p => p.1.takeRows p.2)).map (·.rows) = idx.map List.length
  | [], [], _ => rfl
  | X :: Xs, i :: idx, h => by
    simp only [List.zip_cons_cons, List.map_cons]
    rw [takeRows_rows Xs idx (by simpa using h)]; rfl
  | [], _ :: _, h => by simp at h
  | _ :: _, [], h => by simp at h

theorem inBox_replicate_zero : ∀ (s : List Nat), (∀ j, j < s.length → s.getD j 0 = 1) →
    inBox (List.replicate s.length 0) s = true
  | [], _ => rfl
  | n :: s, h => by
    have hn : n = 1 := by simpa using h 0 (by simp)
    simp only [List.length_cons, List.replicate_succ, inBox_cons]
    exact ⟨by omega, inBox_replicate_zero s (fun j hj => by simpa using h (j + 1) (by simp; omega))⟩

/-- **`CanonicalTensor.squeeze`** for a duplicate-free list of (normalised) axes: same as `np.squeeze` of the
expansion — unchanged tensor for no axis, the single entry when every axis is squeezed, otherwise the remaining
factors with the singleton factors multiplied into the first of them. -/
theorem canSqueeze_core (Xs : List (Mat α)) (hw : (Ten.can Xs).WF) (pos : List Nat) (hn : pos.Nodup)
    (hlt : ∀ p ∈ pos, p < Xs.length) (hone : ∀ p ∈ pos, (Xs.map (·.rows)).getD p 0 = 1)
    (axis : Option (List Int)) (hax : squeezeAxes false (Xs.map (·.rows)) axis = .ok (pos.map Int.ofNat))
    (r : Res α) (h : canSqueeze Xs axis = .ok r) :
    (Ten.can Xs).asarray.squeeze pos = .ok r.asarray ∧ (∀ T', r = .t T' → T'.WF ∧ T'.isLeaf) := by
  have hall : (pos.all (fun k => (Ten.can Xs).asarray.shape.getD k 0 = 1)) = true := by
    simp only [List.all_eq_true, decide_eq_true_eq]
    exact fun p hp => hone p hp
  simp only [Full.squeeze, hall, if_true]
  simp only [canSqueeze] at h
  obtain ⟨ax, h1, h⟩ := bind_ok _ _ _ h
  rw [hax] at h1
  injection h1 with h1
  subst h1
  simp only [List.length_map] at h
  split at h
  · -- no axis
    rename_i h0
    have hp : pos = [] := List.eq_nil_of_length_eq_zero h0
    subst hp
    injection h with h; subst h
    refine ⟨?_, fun T' hT => by injection hT with hT; subst hT; exact ⟨hw, trivial⟩⟩
    congr 1
    simp only [Res.asarray, Ten.asarray, dropAxes, dropAxesGo_nil, ofFn_shape, Full.ndim, unsqueeze]
    refine ofFn_congr _ _ _ (fun I hI => ?_)
    rw [unsqueezeGo_nil_ax _ 0 I (inBox_length hI), ofFn_get _ _ _ hI]
  · split at h
    · -- every axis: the single entry
      rename_i h0 hd
      injection h with h; subst h
      refine ⟨?_, fun T' hT => by cases hT⟩
      congr 1
      have hdrop : dropAxes pos (Ten.can Xs).asarray.shape = [] :=
        dropAxes_all pos _ hn (by simpa [Ten.asarray, Ten.shape] using hlt) (by simpa [Ten.asarray, Ten.shape] using hd)
      simp only [Res.asarray, hdrop]
      refine ofFn_congr _ _ _ (fun I hI => ?_)
      have hI' : I = [] := by
        cases I with
        | nil => rfl
        | cons _ _ => simp [inBox] at hI
      subst hI'
      simp only [unsqueeze, unsqueezeGo_nil_I, Full.ndim, Ten.asarray, ofFn_shape, Ten.shape, List.length_map]
      have hall1 : ∀ j, j < (Xs.map (·.rows)).length → (Xs.map (·.rows)).getD j 0 = 1 := by
        intro j hj
        have hperm := filter_contains_perm pos Xs.length hn hlt
        have hcnt := dropAxesGo_length pos 0 Xs
        have hjm : j ∈ pos := by
          by_contra hnm
          -- j would be a kept position, but nothing is kept
          have hk := dropAxes_all pos Xs hn hlt hd
          have hf := dropAxesGo_eq_filter pos (Mat.zeros 0 0 : Mat α) 0 Xs
          simp only [dropAxes] at hk
          rw [hk] at hf
          have : j ∈ (List.range' 0 Xs.length).filter (fun j => !pos.contains j) := by
            simp only [List.mem_filter, List.mem_range'_1]
            refine ⟨⟨by omega, by simpa using hj⟩, by simpa using hnm⟩
          have hne : ((List.range' 0 Xs.length).filter (fun j => !pos.contains j)) ≠ [] :=
            List.ne_nil_of_mem this
          simp only [List.map_eq_nil_iff] at hf
          exact hne hf
        exact hone j hjm
      have hb := inBox_replicate_zero (Xs.map (·.rows)) hall1
      simp only [List.length_map] at hb
      rw [ofFn_get _ _ _ hb]; rfl
    · -- some, not all
      rename_i h0 hd
      simp only [mapM_pyPos Xs.length pos hlt] at h
      have hrem : ((List.range Xs.length).filter (fun k => !((pos.map Int.ofNat).contains (Int.ofNat k)))).map
          (fun k => Xs.getD k (Mat.zeros 0 0)) = dropAxesGo 0 pos Xs := by
        have := dropAxesGo_eq_filter pos (Mat.zeros 0 0 : Mat α) 0 Xs
        rw [← List.range_eq_range'] at this
        simp only [Nat.sub_zero] at this
        rw [← this]
        congr 1
        exact List.filter_congr (fun k _ => by rw [contains_map_ofNat])
      simp only [bind, Except.bind, hrem] at h
      cases hY : dropAxesGo 0 pos Xs with
      | nil => simp [hY] at h
      | cons Y Ys =>
        simp only [hY] at h
        obtain ⟨T, hT, h⟩ := bind_ok _ _ _ h
        injection h with h; subst h
        obtain ⟨rfl, hne, hc⟩ := mkCan_ok _ _ hT
        -- all remaining factors have R columns
        have hYmem : ∀ Z ∈ Y :: Ys, Z ∈ Xs := by
          intro Z hZ
          rw [← hY, ← dropAxesGo_eq_filter pos (Mat.zeros 0 0 : Mat α) 0 Xs] at hZ
          simp only [List.mem_map, List.mem_filter, List.mem_range'_1] at hZ
          obtain ⟨j, ⟨⟨_, hj⟩, _⟩, rfl⟩ := hZ
          simp only [Nat.sub_zero]
          rw [List.getD_eq_getElem?_getD, List.getElem?_eq_getElem (by omega)]
          exact List.getElem_mem _
        have hYR : Y.cols = canR Xs := hw.2 Y (hYmem Y (by simp))
        refine ⟨?_, fun T' hT' => by injection hT' with hT'; subst hT'; exact ⟨⟨hne, hc⟩, trivial⟩⟩
        congr 1
        have hshape : (Ten.can (Y.mulRow (fun r => prodL (pos.map (fun p => (Xs.getD p (Mat.zeros 0 0)).get 0 r))) :: Ys)).shape
            = dropAxes pos (Ten.can Xs).asarray.shape := by
          simp only [Ten.shape, Ten.asarray, ofFn_shape, dropAxes, ← dropAxesGo_map, hY]
          rfl
        simp only [Res.asarray, Ten.asarray]
        rw [hshape]
        refine ofFn_congr _ _ _ (fun K hK => ?_)
        have hK' : inBox K (dropAxesGo 0 pos (Xs.map (·.rows))) = true := hK
        have hub : inBox (unsqueezeGo (Xs.map (·.rows)).length pos 0 K) (Xs.map (·.rows)) = true :=
          unsqueezeGo_inBox pos _ 0 K (fun j hj hcj => by
            have : j ∈ pos := by simpa using hcj
            exact hone j this) hK'
        simp only [List.length_map] at hub
        simp only [unsqueeze, Full.ndim, ofFn_shape, Ten.shape, List.length_map]
        rw [ofFn_get _ _ _ hub]
        simp only [Ten.entry]
        have hKl : K.length = (dropAxesGo 0 pos Xs).length := by
          have := inBox_length hK'
          rw [this, ← dropAxesGo_map, List.length_map]
        have hKne : K ≠ [] := by
          intro hk; rw [hk, hY] at hKl; simp at hKl
        rw [canEntry_eq, canEntry_eq]
        have hR : canR (Y.mulRow (fun r => prodL (pos.map (fun p => (Xs.getD p (Mat.zeros 0 0)).get 0 r))) :: Ys) = canR Xs := hYR
        rw [hR]
        refine sumN_congr _ _ _ (fun r _ => ?_)
        rw [canTerm_mulRow _ _ _ _ _ hKne, factors_eq_singP pos r _ Xs hn hlt,
          canTerm_unsqueeze pos r Xs 0 K hKl, hY]

end Pyiga.Tensor

namespace Pyiga.Tensor
open Pyiga.Index
variable {α : Type} [CommRing α]

theorem mapM_pyPos_lt (d : Nat) : ∀ (ax : List Int) (pos : List Nat), ax.mapM (pyPos d) = .ok pos → ∀ p ∈ pos, p < d
  | [], pos, h => by
    have : pos = [] := by
      simp only [List.mapM_nil, pure, Except.pure] at h
      injection h with h; exact h.symm
    subst this; simp
  | a :: ax, pos, h => by
    simp only [List.mapM_cons] at h
    cases h1 : pyPos d a with
    | error e => simp [h1, bind, Except.bind] at h
    | ok p =>
      cases h2 : ax.mapM (pyPos d) with
      | error e => simp [h1, h2, bind, Except.bind] at h
      | ok ps =>
        simp [h1, h2, bind, Except.bind, pure, Except.pure] at h
        subst h
        intro q hq
        simp only [List.mem_cons] at hq
        rcases hq with rfl | hq
        · exact intIndex_lt d a _ h1
        · exact mapM_pyPos_lt d ax ps h2 q hq

/-- what a successful prologue of `squeeze` returns (repaired code): normalised, in-range, singleton axes -/
theorem squeezeAxes_ok (shape : List Nat) (axis : Option (List Int)) (ax : List Int)
    (h : squeezeAxes false shape axis = .ok ax) :
    ∃ pos : List Nat, ax = pos.map Int.ofNat ∧ (∀ p ∈ pos, p < shape.length ∧ shape.getD p 0 = 1) ∧
      (axis = none → pos.Nodup) := by
  cases axis with
  | none =>
    simp only [squeezeAxes] at h
    injection h with h
    refine ⟨(List.range shape.length).filter (fun i => shape.getD i 0 = 1), h.symm, fun p hp => ?_,
      fun _ => List.Nodup.sublist List.filter_sublist List.nodup_range⟩
    simp only [List.mem_filter, List.mem_range, decide_eq_true_eq] at hp
    exact hp
  | some ax0 =>
    simp only [squeezeAxes] at h
    obtain ⟨pos, hpos, h⟩ := bind_ok _ _ _ h
    split at h
    · rename_i hall
      simp only [Bool.false_eq_true, if_false] at h
      injection h with h
      refine ⟨pos, h.symm, fun p hp => ⟨mapM_pyPos_lt _ ax0 pos hpos p hp, ?_⟩, fun hh => by cases hh⟩
      have := List.all_eq_true.1 hall p hp
      simpa using this
    · cases h

/-- **`CanonicalTensor.squeeze(axis)`** (public method; `axis=None`, an int, or a tuple incl. negative values, without
repetitions): `np.squeeze` of the expansion. -/
theorem canSqueeze_spec (Xs : List (Mat α)) (hw : (Ten.can Xs).WF) (axis : Option (List Int)) (r : Res α)
    (h : canSqueeze Xs axis = .ok r) :
    ∃ pos : List Nat, squeezeAxes false (Xs.map (·.rows)) axis = .ok (pos.map Int.ofNat) ∧
      (pos.Nodup → (Ten.can Xs).asarray.squeeze pos = .ok r.asarray ∧ (∀ T', r = .t T' → T'.WF ∧ T'.isLeaf)) := by
  have h' := h
  simp only [canSqueeze] at h'
  obtain ⟨ax, h1, _⟩ := bind_ok _ _ _ h'
  obtain ⟨pos, rfl, hp, _⟩ := squeezeAxes_ok _ axis ax h1
  refine ⟨pos, h1, fun hn => ?_⟩
  exact canSqueeze_core Xs hw pos hn (fun p hq => by simpa using (hp p hq).1) (fun p hq => (hp p hq).2) axis h1 r h

theorem squeezeAxes_singl (shape : List Nat) (singl : List Nat) (hlt : ∀ j ∈ singl, j < shape.length)
    (hone : ∀ j ∈ singl, shape.getD j 0 = 1) :
    squeezeAxes false shape (some (singl.map Int.ofNat)) = .ok (singl.map Int.ofNat) := by
  simp only [squeezeAxes, mapM_pyPos shape.length singl hlt, bind, Except.bind]
  rw [if_pos (List.all_eq_true.2 (fun p hp => by simpa using hone p hp))]
  rfl

/-- **`CanonicalTensor.__getitem__`**: `T[I]` expands to the per-axis selection of the expansion with the
integer-indexed axes squeezed, for every index tuple that `_normalize_indices` accepts. -/
theorem canGetitem_spec (Xs : List (Mat α)) (hw : (Ten.can Xs).WF) (I : List PyIndex) (r : Res α)
    (h : canGetitem Xs I = .ok r) :
    ∃ nm, normalizeIndices I (Xs.map (·.rows)) = .ok nm ∧
      ((Ten.can Xs).asarray.take nm.idx).squeeze nm.singl = .ok r.asarray ∧
      (∀ T', r = .t T' → T'.WF ∧ T'.isLeaf) := by
  simp only [canGetitem] at h
  obtain ⟨nm, hnm, h⟩ := bind_ok _ _ _ h
  obtain ⟨A, hA, h⟩ := bind_ok _ _ _ h
  obtain ⟨hAe, hne, hc⟩ := mkCan_ok _ _ hA
  subst hAe
  split at h
  · cases h
  · simp only at h
    obtain ⟨_, hidx, hshape, hstr, hs⟩ := normalizeIndices_ok I _ nm hnm
    have hlen : nm.idx.length = Xs.length := by have := IdxOK.length hidx; simpa using this
    refine ⟨nm, hnm, ?_⟩
    -- the row-selected tensor expands to the selection of the expansion
    have htake : (Ten.can ((Xs.zip nm.idx).map (fun p => p.1.takeRows p.2))).asarray
        = (Ten.can Xs).asarray.take nm.idx := by
      simp only [Ten.asarray, Full.take, Ten.shape, takeRows_rows Xs nm.idx hlen]
      refine ofFn_congr _ _ _ (fun J hJ => ?_)
      simp only [Ten.entry]
      rw [takeRows_entry Xs nm.idx J hlen, ofFn_get _ _ _ (pick_inBox nm.idx _ J hidx hJ)]
    rw [← htake]
    have hrows := takeRows_rows Xs nm.idx hlen
    have hYlen : ((Xs.zip nm.idx).map (fun p => p.1.takeRows p.2)).length = Xs.length := by
      have := congrArg List.length hrows; simpa [hlen] using this
    exact canSqueeze_core _ ⟨hne, hc⟩ nm.singl (StrictFrom.nodup hstr)
      (fun j hj => by rw [hYlen]; simpa using (hs j hj).1)
      (fun j hj => by rw [hrows]; exact (hs j hj).2) _
      (squeezeAxes_singl _ nm.singl (fun j hj => by rw [hrows]; simpa [hlen] using (hs j hj).1)
        (fun j hj => by rw [hrows]; exact (hs j hj).2)) r h

end Pyiga.Tensor
