/-
Part 9: the derived variables as a scheduled program; `schedule_sound` composed with `phys_to_para_sound`.
-/
import Pyiga.Proofs.VFormPhys5
import Pyiga.Proofs.SLP

namespace Pyiga.VForm
open Expr Finset Pyiga.SLP

variable {α : Type} [Field α] [CharZero α]

/-- environment seen by the generated code: the derived (`let`) variables are read from the store, everything else
(geometry / field / basis-function jets, parameters, Gauss weights) from the base environment -/
def envOf (base : Env α) (lets : List String) (σ : Store (List Nat → α)) : Env α :=
  { base with var := fun v I D p => if lets.contains v && dsum D == 0 then σ v I else base.var v I D p }

def physLets (dim : Nat) : List String := SLP.defs (physVarProg dim)

/-- value of a variable's defining expression, entry by entry, in the environment given by the store -/
def semOf (fn : String → α → α) (base : Env α) (dim : Nat) : String → Store (List Nat → α) → (List Nat → α) :=
  fun rhs σ I =>
    match (physVarDefs dim).find? (·.1 == rhs) with
    | some d => ev (fieldOps fn) (envOf base (physLets dim) σ) d.2 (I.getD 0 0) (I.getD 1 0)
    | none => 0

/-- a leaf whose value does not depend on the store except through the variables in `allowed` -/
def refsOnly (allowed lets : List String) : Expr → Bool
  | varref v _ D _ => allowed.contains v || !(lets.contains v && dsum D == 0)
  | _ => true

def isLeafE : Expr → Bool
  | const _ | varref .. | pderiv .. | gw _ | dx | ds => true
  | _ => false

theorem ev_congr_leaves (o : Ops α) (ρ ρ' : Env α) (p : Expr → Bool)
    (hp : ∀ e, isLeafE e = true → p e = true → ∀ i j, ev o ρ e i j = ev o ρ' e i j) (e : Expr) :
    allLeaves p e = true → ∀ i j, ev o ρ e i j = ev o ρ' e i j := by
  induction e using Expr.rec
    (motive_2 := fun es => (es.map (allLeaves p)).all id = true → ∀ i, evL o ρ es i = evL o ρ' es i) with
  | nil => simp [evL]
  | cons e es ihe ihes =>
    rename_i h i
    simp only [List.map_cons, List.all_cons, id, Bool.and_eq_true] at h
    cases i with
    | zero => simp [evL, ihe h.1]
    | succ i => simpa [evL] using ihes h.2 i
  | litvec es ih => intro h; simp only [allLeaves] at h; simp [ev, ih h]
  | litmat m n es ih => intro h; simp only [allLeaves] at h; simp [ev, ih h]
  | neg x ih => intro h; simp only [allLeaves] at h; simp [ev, ih h]
  | builtin g x ih => intro h; simp only [allLeaves] at h; simp [ev, ih h]
  | sop op x y ihx ihy => intro h; simp only [allLeaves, Bool.and_eq_true] at h; simp [ev, ihx h.1, ihy h.2]
  | top op x y ihx ihy => intro h; simp only [allLeaves, Bool.and_eq_true] at h; simp [ev, ihx h.1, ihy h.2]
  | cross x y ihx ihy =>
    intro h; simp only [allLeaves, Bool.and_eq_true] at h
    intro i j; rcases i with _ | _ | i <;> simp [ev, ihx h.1, ihy h.2]
  | outer x y ihx ihy => intro h; simp only [allLeaves, Bool.and_eq_true] at h; simp [ev, ihx h.1, ihy h.2]
  | matvec x y ihx ihy => intro h; simp only [allLeaves, Bool.and_eq_true] at h; simp [ev, ihx h.1, ihy h.2]
  | matmat x y ihx ihy => intro h; simp only [allLeaves, Bool.and_eq_true] at h; simp [ev, ihx h.1, ihy h.2]
  | const v => intro h; exact hp _ rfl (by simpa [allLeaves] using h)
  | varref v I D q => intro h; exact hp _ rfl (by simpa [allLeaves] using h)
  | pderiv b D ph => intro h; exact hp _ rfl (by simpa [allLeaves] using h)
  | gw a => intro h; exact hp _ rfl (by simpa [allLeaves] using h)
  | dx => intro h; exact hp _ rfl (by simpa [allLeaves] using h)
  | ds => intro h; exact hp _ rfl (by simpa [allLeaves] using h)

/-! ### what the definitions read -/

theorem mem_headD_getD (p : Expr → Bool) (hc : p (const 0) = true) (A : List (List Expr)) (j : Nat)
    (hA : ∀ row ∈ A, ∀ x ∈ row, allLeaves p x = true) : allLeaves p ((A.headD []).getD j (const 0)) = true := by
  cases A with
  | nil => simpa [allLeaves] using hc
  | cons row rest =>
    simp only [List.headD_cons]
    by_cases hj : j < row.length
    · have : row.getD j (const 0) = row[j] := by simp [List.getD_eq_getElem?_getD, hj]
      rw [this]; exact hA row (by simp) _ (List.getElem_mem hj)
    · have : row.getD j (const 0) = const 0 := by
        simp [List.getD_eq_getElem?_getD, List.getElem?_eq_none (by omega : row.length ≤ j)]
      rw [this]; simpa [allLeaves] using hc

theorem allLeaves_detL (p : Expr → Bool) (hc : ∀ q, p (const q) = true) :
    ∀ (n : Nat) (A : List (List Expr)), (∀ row ∈ A, ∀ x ∈ row, allLeaves p x = true) → allLeaves p (detL n A) = true
  | 0, _, _ => by simpa [detL, allLeaves] using hc 1
  | 1, A, hA => by
      have := mem_headD_getD p (hc 0) A 0 hA
      simpa [detL, List.getD_eq_getElem?_getD, List.headD_eq_head?_getD, List.head?_eq_getElem?] using this
  | n + 2, A, hA => by
      simp only [detL]
      apply allLeaves_reduceAdd_map _ _ _ (by simpa using hc 0)
      intro j
      simp only [allLeaves, Bool.and_eq_true]
      refine ⟨by simpa using hc _, mem_headD_getD p (hc 0) A j hA, ?_⟩
      apply allLeaves_detL p hc (n + 1)
      intro row' hrow' x hx
      simp only [minorRows, List.mem_map] at hrow'
      obtain ⟨row, hrow, rfl⟩ := hrow'
      exact hA row (List.mem_of_mem_eraseIdx hrow) x (List.mem_of_mem_eraseIdx hx)

theorem allLeaves_invL (p : Expr → Bool) (hc : ∀ q, p (const q) = true) (n : Nat) (A : List (List Expr))
    (hA : ∀ row ∈ A, ∀ x ∈ row, allLeaves p x = true) : allLeaves p (invL n A) = true := by
  have hdet := allLeaves_detL p hc n A hA
  have hminor : ∀ i j m, allLeaves p (detL m (minorRows A i j)) = true := by
    intro i j m
    apply allLeaves_detL p hc
    intro row' hrow' x hx
    simp only [minorRows, List.mem_map] at hrow'
    obtain ⟨row, hrow, rfl⟩ := hrow'
    exact hA row (List.mem_of_mem_eraseIdx hrow) x (List.mem_of_mem_eraseIdx hx)
  unfold invL
  simp only []
  split
  · simp [allLeaves, hc, hdet]
  · simp only [allLeaves, broadcast, Bool.and_eq_true, List.all_eq_true, List.mem_map, id]
    constructor
    · rintro b ⟨e, he, rfl⟩
      rw [List.mem_replicate] at he
      rw [he.2]; simp [allLeaves, hc, hdet]
    · rintro b ⟨e, he, rfl⟩
      obtain ⟨k, _, rfl⟩ := he
      simp [allLeaves, hc, hminor]


theorem dsum_bump (l : List Nat) (k t : Nat) (hk : k < l.length) : dsum (bump l k t) = dsum l + t := by
  induction l generalizing k with
  | nil => simp at hk
  | cons x l ih =>
    cases k with
    | zero => rw [bump_cons_zero, dsum_cons, dsum_cons]; omega
    | succ k =>
      rw [bump_cons_succ, dsum_cons, dsum_cons, ih k (by simpa using hk)]; omega

theorem dsum_unitD (dim r : Nat) (hr : r < dim) : dsum (unitD dim r) = 1 := by
  rw [unitD, dsum_bump _ _ _ (by simp [zerosD, hr]), zerosD, dsum_zeros]

theorem dsum_unit2D (dim r c : Nat) (hr : r < dim) (hc : c < dim) : dsum (unit2D dim r c) = 2 := by
  rw [unit2D, dsum_bump _ _ _ (by simp [length_bump, zerosD, hc]), dsum_bump _ _ _ (by simp [zerosD, hr]), zerosD, dsum_zeros]

theorem reads_jacDef (allowed lets : List String) (dim gd : Nat) :
    allLeaves (refsOnly allowed lets) (jacDef dim gd) = true := by
  simp only [jacDef, allLeaves, List.all_eq_true, List.mem_map, id]
  rintro b ⟨e, ⟨k, hk, rfl⟩, rfl⟩
  have hk' : k < gd * dim := List.mem_range.mp hk
  have hd : 0 < dim := by
    rcases Nat.eq_zero_or_pos dim with h | h
    · subst h; simp at hk'
    · exact h
  simp [allLeaves, refsOnly, dsum_unitD dim (k % dim) (Nat.mod_lt _ hd)]

theorem reads_jacInvDef (allowed lets : List String) (dim : Nat) (h : allowed.contains "Jac" = true) :
    allLeaves (refsOnly allowed lets) (jacInvDef dim) = true := by
  apply allLeaves_invL _ (fun _ => rfl)
  intro row hrow x hx
  simp only [varMat, List.mem_map] at hrow
  obtain ⟨i, _, rfl⟩ := hrow
  obtain ⟨j, _, rfl⟩ := List.mem_map.mp hx
  have h' : "Jac" ∈ allowed := by simpa using h
  simp [allLeaves, refsOnly, h']

theorem reads_ghtDef (allowed lets : List String) (dim a i j : Nat) (h : allowed.contains "JacInv" = true) :
    allLeaves (refsOnly allowed lets) (geoHessTrfDef dim a i j) = true := by
  have h' : "JacInv" ∈ allowed := by simpa using h
  have hj : ∀ r c, allLeaves (refsOnly allowed lets) (jinvRef dim r c) = true := fun r c => by
    simp [jinvRef, allLeaves, refsOnly, h']
  simp only [geoHessTrfDef, allLeaves]
  apply allLeaves_foldl_sop _ _ _ (by simp [allLeaves, refsOnly])
  intro x hx
  simp only [List.mem_flatMap, List.mem_map, List.mem_range] at hx
  obtain ⟨m, hm, e, he, u, hu, rfl⟩ := hx
  simp [allLeaves, hj, refsOnly, dsum_unit2D dim e u he hu]

theorem mem_physVarDefs (dim : Nat) (d : String × Expr) (hd : d ∈ physVarDefs dim) :
    d.2 = jacDef dim dim ∨ d.2 = jacInvDef dim ∨ ∃ k i j, d.2 = geoHessTrfDef dim k i j := by
  simp only [physVarDefs, List.mem_append, List.mem_cons, List.mem_map] at hd
  rcases hd with (rfl | rfl | h) | ⟨⟨k, i, j⟩, _, rfl⟩
  · exact Or.inl rfl
  · exact Or.inr (Or.inl rfl)
  · simp at h
  · exact Or.inr (Or.inr ⟨k, i, j, rfl⟩)

/-- the interpretation of the variable program is local: a definition depends on the store only through its reads -/
theorem local_semOf (fn : String → α → α) (base : Env α) (dim : Nat) :
    Local (semOf fn base dim) (physVarProg dim) := by
  intro s hs σ τ hagree
  funext I
  simp only [semOf]
  cases hfind : (physVarDefs dim).find? (·.1 == s.rhs) with
  | none => rfl
  | some d =>
    simp only []
    have hmem := List.mem_of_find?_eq_some hfind
    have hname : d.1 = s.rhs := by simpa using List.find?_some hfind
    -- which leaves may depend on the store
    have hleaves : allLeaves (refsOnly s.reads (physLets dim)) d.2 = true := by
      simp only [physVarProg, List.mem_append, List.mem_cons, List.mem_map] at hs
      rcases hs with (rfl | rfl | h) | ⟨⟨k, i, j⟩, _, rfl⟩
      · -- "Jac": the only definition with that name is the first one
        have : d.2 = jacDef dim dim := by
          simp [physVarDefs, List.find?_cons] at hfind
          rw [← hfind]
        rw [this]; exact reads_jacDef _ _ _ _
      · have : d.2 = jacInvDef dim := by
          simp [physVarDefs, List.find?_cons] at hfind
          rw [← hfind]
        rw [this]; exact reads_jacInvDef _ _ _ (by decide)
      · simp at h
      · rcases mem_physVarDefs dim d hmem with h | h | ⟨k', i', j', h⟩
        · rw [h]; exact reads_jacDef _ _ _ _
        · rw [h]; exact reads_jacInvDef _ _ _ (by simp)
        · rw [h]; exact reads_ghtDef _ _ _ _ _ _ (by simp)
    apply ev_congr_leaves (fieldOps fn) _ _ _ _ d.2 hleaves
    intro e hleaf he i j
    cases e with
    | varref v I' D q =>
      simp only [refsOnly, Bool.or_eq_true, Bool.not_eq_eq_eq_not, Bool.not_true] at he
      simp only [ev, envOf]
      by_cases hl : ((physLets dim).contains v && dsum D == 0) = true
      · simp only [hl, if_true]
        rcases he with he | he
        · have hv : v ∈ s.reads := by simpa using he
          rw [hagree v hv]
        · rw [hl] at he; cases he
      · have hl' : ((physLets dim).contains v && dsum D == 0) = false := by simpa using hl
        simp only [hl', Bool.false_eq_true, if_false]
    | const _ => simp [ev]
    | pderiv _ _ _ => simp [ev, envOf]
    | gw _ => simp [ev, envOf]
    | dx => simp [ev, envOf]
    | ds => simp [ev, envOf]
    | _ => simp [isLeafE] at hleaf


/-! ### composing `schedule_sound` with `phys_to_para_sound` -/

theorem dbu_physVarProg_1 : defBeforeUse [] (physVarProg 1) = true := by decide
theorem dbu_physVarProg_2 : defBeforeUse [] (physVarProg 2) = true := by decide
set_option maxRecDepth 100000 in
theorem dbu_physVarProg_3 : defBeforeUse [] (physVarProg 3) = true := by decide

theorem dbu_physVarProg (dim : Nat) (hdim : dim = 1 ∨ dim = 2 ∨ dim = 3) : defBeforeUse [] (physVarProg dim) = true := by
  rcases hdim with rfl | rfl | rfl
  · exact dbu_physVarProg_1
  · exact dbu_physVarProg_2
  · exact dbu_physVarProg_3

/-- looking a `_geo_hess_trf` name up in the definition list finds the definition with those indices (dims 1–3: the
names are pairwise different and differ from `Jac`, `JacInv`) -/
theorem find_ght (dim : Nat) (hdim : dim = 1 ∨ dim = 2 ∨ dim = 3) (k i j : Nat) (hk : k < dim) (hi : i < dim) (hj : j < dim) :
    (physVarDefs dim).find? (·.1 == geoHessTrfName k i j) = some (geoHessTrfName k i j, geoHessTrfDef dim k i j) := by
  rcases hdim with rfl | rfl | rfl
  · have : k = 0 := by omega
    have : i = 0 := by omega
    have : j = 0 := by omega
    subst_vars; rfl
  · have hk' : k = 0 ∨ k = 1 := by omega
    have hi' : i = 0 ∨ i = 1 := by omega
    have hj' : j = 0 ∨ j = 1 := by omega
    rcases hk' with rfl | rfl <;> rcases hi' with rfl | rfl <;> rcases hj' with rfl | rfl <;> rfl
  · have hk' : k = 0 ∨ k = 1 ∨ k = 2 := by omega
    have hi' : i = 0 ∨ i = 1 ∨ i = 2 := by omega
    have hj' : j = 0 ∨ j = 1 ∨ j = 2 := by omega
    rcases hk' with rfl | rfl | rfl <;> rcases hi' with rfl | rfl | rfl <;> rcases hj' with rfl | rfl | rfl <;> rfl

theorem mem_physLets_ght (dim k i j : Nat) (hk : k < dim) (hi : i < dim) (hj : j < dim) :
    geoHessTrfName k i j ∈ physLets dim := by
  simp only [physLets, SLP.defs, physVarProg, List.map_append, List.map_cons, List.map_nil, List.map_map, List.mem_append,
    List.mem_map, Function.comp_def]
  right
  refine ⟨(k, i, j), ?_, rfl⟩
  simp only [ghtIndices, List.mem_flatMap, List.mem_map, List.mem_range]
  exact ⟨k, hk, i, hi, j, hj, rfl⟩

theorem envOf_var_ne (base : Env α) (lets : List String) (σ : Store (List Nat → α)) (v : String) (I D : List Nat) (p : Bool)
    (h : dsum D ≠ 0) : (envOf base lets σ).var v I D p = base.var v I D p := by
  simp [envOf, h]

theorem envOf_var_let (base : Env α) (lets : List String) (σ : Store (List Nat → α)) (v : String) (I D : List Nat) (p : Bool)
    (hv : v ∈ lets) (h : dsum D = 0) : (envOf base lets σ).var v I D p = σ v I := by
  simp [envOf, h, hv]

/-- **scheduled_phys_to_para** (dims 1–3).  Start from ANY store and a base environment that contains only the jets: the
geometry (`geo_a` and its parametric derivatives), basis functions and input fields with their physical derivatives *defined*
by the chain rule w.r.t. the geometry Jacobian (`JetDefs` without the `_geo_hess_trf` clause, stated on the base), and
run the derived-variable program `physVarProg dim` (`Jac`, `JacInv`, all `_geo_hess_trf_k_i_j`) in its order.  Then
 (1) that order is single-assignment and def-before-use,
 (2) in the resulting environment — nothing about derived variables is assumed — the whole pass `replacePhysAll` preserves
     every entry of every expression tree with well-formed multi-indices, provided the Jacobian is non-singular. -/
theorem scheduled_phys_to_para (fn : String → α → α) (base : Env α) (dim : Nat) (hdim : dim = 1 ∨ dim = 2 ∨ dim = 3)
    (physIn : List String) (σ0 : Store (List Nat → α))
    (flag_bf : ∀ b D ph, dsum D = 0 → base.bf b D ph = base.bf b D false)
    (flag_var : ∀ v I D p, dsum D = 0 → base.var v I D p = base.var v I D true)
    (bf1 : ∀ b r, r < dim → base.bf b (unitD dim r) false
      = ∑ m ∈ range dim, base.var "geo_a" [m] (unitD dim r) true * base.bf b (unitD dim m) true)
    (bf2 : ∀ b r c, r < dim → c < dim → base.bf b (unit2D dim r c) false
      = ∑ n ∈ range dim, (∑ m ∈ range dim, base.var "geo_a" [m] (unitD dim r) true * base.bf b (unit2D dim m n) true)
            * base.var "geo_a" [n] (unitD dim c) true
        + ∑ m ∈ range dim, base.bf b (unitD dim m) true * base.var "geo_a" [m] (unit2D dim r c) true)
    (var1 : ∀ v I r, physIn.contains v = false → r < dim → base.var v I (unitD dim r) true
      = ∑ m ∈ range dim, base.var "geo_a" [m] (unitD dim r) true * base.var v I (unitD dim m) false)
    (var2 : ∀ v I r c, physIn.contains v = false → r < dim → c < dim → base.var v I (unit2D dim r c) true
      = ∑ n ∈ range dim, (∑ m ∈ range dim, base.var "geo_a" [m] (unitD dim r) true * base.var v I (unit2D dim m n) false)
            * base.var "geo_a" [n] (unitD dim c) true
        + ∑ m ∈ range dim, base.var v I (unitD dim m) false * base.var "geo_a" [m] (unit2D dim r c) true)
    (hdet : ev (fieldOps fn) (envOf base (physLets dim) (run (semOf fn base dim) (physVarProg dim) σ0))
      (detL dim (varMat "Jac" dim dim dim)) 0 0 ≠ 0) :
    defBeforeUse [] (physVarProg dim) = true ∧
    ∀ e, allLeaves (idxLenOK dim) e = true → ∀ i j,
      ev (fieldOps fn) (envOf base (physLets dim) (run (semOf fn base dim) (physVarProg dim) σ0)) (replacePhysAll dim physIn e) i j
        = ev (fieldOps fn) (envOf base (physLets dim) (run (semOf fn base dim) (physVarProg dim) σ0)) e i j := by
  have hdbu := dbu_physVarProg dim hdim
  refine ⟨hdbu, ?_⟩
  set σ := run (semOf fn base dim) (physVarProg dim) σ0 with hσ
  set ρ := envOf base (physLets dim) σ with hρ
  have hfix := run_fixpoint (semOf fn base dim) (physVarProg dim) [] σ0 hdbu (local_semOf fn base dim)
  have hz : dsum (zerosD dim) = 0 := by simp [zerosD, dsum_zeros]
  have hgeo : ∀ m r, r < dim → ρ.var "geo_a" [m] (unitD dim r) true = base.var "geo_a" [m] (unitD dim r) true :=
    fun m r hr => envOf_var_ne _ _ _ _ _ _ _ (by rw [dsum_unitD dim r hr]; omega)
  have hgeo2 : ∀ m r c, r < dim → c < dim → ρ.var "geo_a" [m] (unit2D dim r c) true = base.var "geo_a" [m] (unit2D dim r c) true :=
    fun m r c hr hc => envOf_var_ne _ _ _ _ _ _ _ (by rw [dsum_unit2D dim r c hr hc]; omega)
  -- the store holds the definitions
  have hJacMem : "Jac" ∈ physLets dim := by simp [physLets, SLP.defs, physVarProg]
  have hJacInvMem : "JacInv" ∈ physLets dim := by simp [physLets, SLP.defs, physVarProg]
  have hS : JacStore fn ρ dim := by
    refine ⟨?_, ?_, hdet⟩
    · intro i j hi hj
      rw [hρ, envOf_var_let _ _ _ _ _ _ _ hJacMem hz]
      have h1 := hfix ⟨"Jac", [], "Jac"⟩ (by simp [physVarProg])
      simp only at h1
      rw [← hσ] at h1
      rw [h1]
      simp only [semOf, physVarDefs, List.find?_cons, List.cons_append, beq_self_eq_true, List.getD_cons_zero,
        List.getD_cons_succ]
      have hk : i * dim + j < dim * dim := by
        calc i * dim + j < i * dim + dim := by omega
          _ = (i + 1) * dim := by rw [Nat.add_mul, Nat.one_mul]
          _ ≤ dim * dim := Nat.mul_le_mul_right dim hi
      have hd : (i * dim + j) / dim = i := by
        rw [Nat.add_comm, Nat.add_mul_div_right _ _ (by omega : 0 < dim), Nat.div_eq_of_lt hj, Nat.zero_add]
      have hm : (i * dim + j) % dim = j := by
        rw [Nat.add_comm, Nat.add_mul_mod_self_right, Nat.mod_eq_of_lt hj]
      simp only [jacDef, ev]
      rw [evL_map_range _ _ _ _ _ hk]
      simp only [ev, hd, hm]
    · intro r c hr hc
      rw [hρ, envOf_var_let _ _ _ _ _ _ _ hJacInvMem hz]
      have h1 := hfix ⟨"JacInv", ["Jac"], "JacInv"⟩ (by simp [physVarProg])
      simp only at h1
      rw [← hσ] at h1
      rw [h1]
      simp [semOf, physVarDefs, List.find?_cons]
  have hJ : JetDefs fn ρ dim physIn (fun m i => ρ.var "geo_a" [m] (unitD dim i) true) := by
    refine ⟨flag_bf, ?_, ?_, ?_, ?_, ?_, ?_⟩
    · intro v I D p h0
      simp only [hρ, envOf, h0, beq_self_eq_true, Bool.and_true]
      split
      · rfl
      · exact flag_var v I D p h0
    · intro b r hr
      show base.bf b (unitD dim r) false = _
      rw [bf1 b r hr]
      apply Finset.sum_congr rfl; intro m _
      rw [hgeo m r hr]; rfl
    · intro b r c hr hc
      show base.bf b (unit2D dim r c) false = _
      rw [bf2 b r c hr hc]
      congr 1
      · apply Finset.sum_congr rfl; intro n hn
        rw [hgeo n c hc]
        congr 1
        apply Finset.sum_congr rfl; intro m _
        rw [hgeo m r hr]; rfl
      · apply Finset.sum_congr rfl; intro m _
        rw [hgeo2 m r c hr hc]; rfl
    · intro v I r hv hr
      have e1 : ∀ q, ρ.var v I (unitD dim r) q = base.var v I (unitD dim r) q :=
        fun q => envOf_var_ne _ _ _ _ _ _ _ (by rw [dsum_unitD dim r hr]; omega)
      rw [e1, var1 v I r hv hr]
      apply Finset.sum_congr rfl; intro m hm
      rw [hgeo m r hr, envOf_var_ne _ _ _ _ _ _ _ (by rw [dsum_unitD dim m (Finset.mem_range.mp hm)]; omega)]
    · intro v I r c hv hr hc
      rw [envOf_var_ne _ _ _ _ _ _ _ (by rw [dsum_unit2D dim r c hr hc]; omega), var2 v I r c hv hr hc]
      congr 1
      · apply Finset.sum_congr rfl; intro n hn
        rw [hgeo n c hc]
        congr 1
        apply Finset.sum_congr rfl; intro m hm
        rw [hgeo m r hr, envOf_var_ne _ _ _ _ _ _ _
          (by rw [dsum_unit2D dim m n (Finset.mem_range.mp hm) (Finset.mem_range.mp hn)]; omega)]
      · apply Finset.sum_congr rfl; intro m hm
        rw [hgeo2 m r c hr hc, envOf_var_ne _ _ _ _ _ _ _ (by rw [dsum_unitD dim m (Finset.mem_range.mp hm)]; omega)]
    · intro k i j hk hi hj
      rw [hρ, envOf_var_let _ _ _ _ _ _ _ (mem_physLets_ght dim k i j hk hi hj) hz]
      have hmem : (⟨geoHessTrfName k i j, ["JacInv", "Jac"], geoHessTrfName k i j⟩ : Stmt) ∈ physVarProg dim := by
        simp only [physVarProg, List.mem_append, List.mem_map]
        right
        refine ⟨(k, i, j), ?_, rfl⟩
        simp only [ghtIndices, List.mem_flatMap, List.mem_map, List.mem_range]
        exact ⟨k, hk, i, hi, j, hj, rfl⟩
      have h1 := hfix _ hmem
      simp only at h1
      rw [← hσ] at h1
      rw [h1]
      simp only [semOf, find_ght dim hdim k i j hk hi hj, List.getD_nil]
  intro e hwf i j
  exact replacePhysAll_sound' fn ρ dim physIn _ (chainRuleEnv_of_defs fn ρ dim hdim physIn hS hJ) e hwf i j

end Pyiga.VForm
