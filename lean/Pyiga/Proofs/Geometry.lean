/-
Helper lemmas for C07 (tensor-product contraction, routes, constructors).
`nest leaf rows off` is the nested sum `Σ_{i₀<n₀} r₀ i₀ · Σ_{i₁<n₁} r₁ i₁ · … leaf(Horner index)`;
`contract c ncomp j = nest (fun k => c (k*ncomp + j))`.
-/
import Pyiga.Model.Geometry
import Pyiga.Proofs.Jet
import Mathlib.Tactic.Ring
import Mathlib.Tactic.FieldSimp
import Mathlib.Tactic.LinearCombination
import Mathlib.Algebra.Field.Basic

namespace Pyiga.Geo
variable {K : Type} [Field K]

/-! ### finite sums -/

theorem sumTo_succ (n : Nat) (f : Nat → K) : sumTo (n + 1) f = sumTo n f + f n := rfl

theorem sumTo_congr {n : Nat} {f g : Nat → K} (h : ∀ i, i < n → f i = g i) : sumTo n f = sumTo n g := by
  induction n with
  | zero => rfl
  | succ n ih =>
    rw [sumTo_succ, sumTo_succ, ih (fun i hi => h i (Nat.lt_succ_of_lt hi)), h n (Nat.lt_succ_self n)]

theorem sumTo_zero_fun (n : Nat) : sumTo n (fun _ => (0 : K)) = 0 := by
  induction n with
  | zero => rfl
  | succ n ih => rw [sumTo_succ, ih]; ring

theorem sumTo_eq_zero {n : Nat} {f : Nat → K} (h : ∀ i, i < n → f i = 0) : sumTo n f = 0 := by
  rw [sumTo_congr h, sumTo_zero_fun]

theorem sumTo_add (n : Nat) (f g : Nat → K) : sumTo n (fun i => f i + g i) = sumTo n f + sumTo n g := by
  induction n with
  | zero => show (0 : K) = 0 + 0; ring
  | succ n ih => simp only [sumTo_succ, ih]; ring

theorem sumTo_mul_left (n : Nat) (a : K) (f : Nat → K) : sumTo n (fun i => a * f i) = a * sumTo n f := by
  induction n with
  | zero => show (0 : K) = a * 0; ring
  | succ n ih => simp only [sumTo_succ, ih]; ring

theorem sumTo_mul_right (n : Nat) (a : K) (f : Nat → K) : sumTo n (fun i => f i * a) = sumTo n f * a := by
  induction n with
  | zero => show (0 : K) = 0 * a; ring
  | succ n ih => simp only [sumTo_succ, ih]; ring

theorem sumTo_split (a b : Nat) (f : Nat → K) :
    sumTo (a + b) f = sumTo a f + sumTo b (fun i => f (a + i)) := by
  induction b with
  | zero => show sumTo a f = sumTo a f + 0; ring
  | succ b ih => rw [← Nat.add_assoc, sumTo_succ, sumTo_succ, ih]; ring

/-- a sum against a Kronecker delta picks one term -/
theorem sumTo_delta (n k : Nat) (g : Nat → K) (hk : k < n) :
    sumTo n (fun i => (if i = k then (1 : K) else 0) * g i) = g k := by
  obtain ⟨m, rfl⟩ : ∃ m, n = k + 1 + m := ⟨n - (k + 1), by omega⟩
  rw [sumTo_split, sumTo_succ]
  have h1 : sumTo k (fun i => (if i = k then (1 : K) else 0) * g i) = 0 :=
    sumTo_eq_zero (fun i hi => by rw [if_neg (by omega)]; ring)
  have h2 : sumTo m (fun i => (if k + 1 + i = k then (1 : K) else 0) * g (k + 1 + i)) = 0 :=
    sumTo_eq_zero (fun i _ => by rw [if_neg (by omega)]; ring)
  rw [h1, h2, if_pos rfl]; ring

/-- **window = dense row**: a sum over all `n` basis functions against a row that vanishes
outside the active window `[first, first+m)` equals the sum over the window. -/
theorem sumTo_window (n first m : Nat) (w g : Nat → K) (h : first + m ≤ n) :
    sumTo n (fun i => (if first ≤ i ∧ i < first + m then w (i - first) else 0) * g i)
      = sumTo m (fun l => w l * g (first + l)) := by
  obtain ⟨r, rfl⟩ : ∃ r, n = first + m + r := ⟨n - (first + m), by omega⟩
  rw [sumTo_split, sumTo_split]
  have h1 : sumTo first (fun i => (if first ≤ i ∧ i < first + m then w (i - first) else 0) * g i) = 0 :=
    sumTo_eq_zero (fun i hi => by rw [if_neg (by omega)]; ring)
  have h3 : sumTo r (fun i => (if first ≤ first + m + i ∧ first + m + i < first + m then
      w (first + m + i - first) else 0) * g (first + m + i)) = 0 :=
    sumTo_eq_zero (fun i _ => by rw [if_neg (by omega)]; ring)
  have h2 : sumTo m (fun i => (if first ≤ first + i ∧ first + i < first + m then w (first + i - first) else 0)
      * g (first + i)) = sumTo m (fun l => w l * g (first + l)) :=
    sumTo_congr (fun i hi => by rw [if_pos (by omega), Nat.add_sub_cancel_left])
  rw [h1, h2, h3]; ring

/-! ### nested sums -/

/-- nested tensor-product sum with an arbitrary leaf -/
def nest (leaf : Nat → K) : List (Nat × (Nat → K)) → Nat → K
  | [], off => leaf off
  | (n, r) :: rest, off => sumTo n (fun i => r i * nest leaf rest (off * n + i))

/-- number of multi-indices -/
def size : List (Nat × (Nat → K)) → Nat
  | [] => 1
  | (n, _) :: rest => n * size rest

/-- every row sums to one (partition of unity of each 1-D basis at its evaluation point) -/
def PU (rows : List (Nat × (Nat → K))) : Prop := ∀ p ∈ rows, sumTo p.1 p.2 = 1

theorem contract_eq_nest (c : Nat → K) (nc j : Nat) (rows : List (Nat × (Nat → K))) (off : Nat) :
    contract c nc j rows off = nest (fun k => c (k * nc + j)) rows off := by
  induction rows generalizing off with
  | nil => rfl
  | cons p rest ih => obtain ⟨n, r⟩ := p; simp only [contract, nest, ih]

theorem nest_congr {leaf leaf' : Nat → K} (h : ∀ k, leaf k = leaf' k) (rows : List (Nat × (Nat → K))) (off : Nat) :
    nest leaf rows off = nest leaf' rows off := by
  have : leaf = leaf' := funext h
  rw [this]

/-- only the leaves with Horner index in `[off·size, (off+1)·size)` are read -/
theorem nest_congr_bounded {leaf leaf' : Nat → K} (rows : List (Nat × (Nat → K))) (off : Nat)
    (h : ∀ k, k < size rows → leaf (off * size rows + k) = leaf' (off * size rows + k)) :
    nest leaf rows off = nest leaf' rows off := by
  induction rows generalizing off with
  | nil => simpa [size, nest] using h 0 (by simp [size])
  | cons p rest ih =>
    obtain ⟨n, r⟩ := p
    simp only [nest]
    apply sumTo_congr
    intro i hi
    rw [ih]
    intro k hk
    have hlt : i * size rest + k < n * size rest := by
      calc i * size rest + k < i * size rest + size rest := by omega
        _ = (i + 1) * size rest := by ring
        _ ≤ n * size rest := Nat.mul_le_mul_right _ (by omega)
    have := h (i * size rest + k) (by simpa [size] using hlt)
    have e : off * size ((n, r) :: rest) + (i * size rest + k) = (off * n + i) * size rest + k := by
      simp only [size]; ring
    rw [e] at this
    exact this

theorem nest_add (f g : Nat → K) (rows : List (Nat × (Nat → K))) (off : Nat) :
    nest (fun k => f k + g k) rows off = nest f rows off + nest g rows off := by
  induction rows generalizing off with
  | nil => rfl
  | cons p rest ih =>
    obtain ⟨n, r⟩ := p
    simp only [nest, ih, mul_add, sumTo_add]

theorem nest_smul (a : K) (f : Nat → K) (rows : List (Nat × (Nat → K))) (off : Nat) :
    nest (fun k => a * f k) rows off = a * nest f rows off := by
  induction rows generalizing off with
  | nil => rfl
  | cons p rest ih =>
    obtain ⟨n, r⟩ := p
    simp only [nest, ih]
    rw [← sumTo_mul_left]
    exact sumTo_congr (fun i _ => by ring)

theorem nest_mul_right (a : K) (f : Nat → K) (rows : List (Nat × (Nat → K))) (off : Nat) :
    nest (fun k => f k * a) rows off = nest f rows off * a := by
  rw [nest_congr (fun k => mul_comm (f k) a), nest_smul, mul_comm]

/-- partition of unity: a constant leaf is reproduced -/
theorem nest_const (a : K) (rows : List (Nat × (Nat → K))) (off : Nat) (h : PU rows) :
    nest (fun _ => a) rows off = a := by
  induction rows generalizing off with
  | nil => rfl
  | cons p rest ih =>
    obtain ⟨n, r⟩ := p
    simp only [nest]
    have hrest : PU rest := fun q hq => h q (List.mem_cons_of_mem _ hq)
    rw [sumTo_congr (fun i _ => by rw [ih _ hrest]), sumTo_mul_right]
    have := h (n, r) (List.mem_cons_self ..)
    simp only at this
    rw [this]; ring

theorem nest_append (leaf : Nat → K) (r1 r2 : List (Nat × (Nat → K))) (off : Nat) :
    nest leaf (r1 ++ r2) off = nest (fun k1 => nest leaf r2 k1) r1 off := by
  induction r1 generalizing off with
  | nil => rfl
  | cons p rest ih => obtain ⟨n, r⟩ := p; simp only [List.cons_append, nest, ih]

theorem nest_offset (leaf : Nat → K) (rows : List (Nat × (Nat → K))) (off : Nat) :
    nest leaf rows off = nest (fun k => leaf (off * size rows + k)) rows 0 := by
  induction rows generalizing leaf off with
  | nil => simp [nest, size]
  | cons p rest ih =>
    obtain ⟨n, r⟩ := p
    simp only [nest]
    apply sumTo_congr
    intro i _
    rw [ih leaf (off * n + i), ih (fun k => leaf (off * size ((n, r) :: rest) + k)) (0 * n + i)]
    congr 1
    apply nest_congr
    intro k
    simp only [size]
    congr 1
    ring

/-- two-factor form: a leaf over the joint control grid of `r1 ++ r2`, read as `F k1 k2` -/
theorem nest_two (leaf : Nat → K) (r1 r2 : List (Nat × (Nat → K))) (F : Nat → Nat → K)
    (h : ∀ k1 k2, k2 < size r2 → leaf (k1 * size r2 + k2) = F k1 k2) :
    nest leaf (r1 ++ r2) 0 = nest (fun k1 => nest (fun k2 => F k1 k2) r2 0) r1 0 := by
  rw [nest_append]
  apply nest_congr
  intro k1
  rw [nest_offset]
  apply nest_congr_bounded
  intro k hk
  simp only [Nat.zero_mul, Nat.zero_add]
  exact h k1 k hk

/-- a unit row `e_f` on one axis restricts the sum to the slice `I_axis = f` -/
theorem nest_unit_axis (leaf : Nat → K) (n f : Nat) (rest : List (Nat × (Nat → K))) (off : Nat) (hf : f < n) :
    nest leaf ((n, fun i => if i = f then (1 : K) else 0) :: rest) off = nest leaf rest (off * n + f) := by
  simp only [nest]
  exact sumTo_delta n f (fun i => nest leaf rest (off * n + i)) hf

theorem nest_zero (rows : List (Nat × (Nat → K))) (off : Nat) : nest (fun _ => (0 : K)) rows off = 0 := by
  have := nest_smul (0 : K) (fun _ => (0 : K)) rows off
  simp only [zero_mul] at this
  exact this

/-- the nested sum commutes with a finite sum of leaves -/
theorem nest_sumTo (m : Nat) (f : Nat → Nat → K) (rows : List (Nat × (Nat → K))) (off : Nat) :
    nest (fun k => sumTo m (fun b => f b k)) rows off = sumTo m (fun b => nest (f b) rows off) := by
  induction m with
  | zero => exact nest_zero rows off
  | succ m ih =>
    simp only [sumTo_succ]
    rw [nest_add, ih]

/-! ### routes -/

/-- every active window lies inside its basis: `first + (p+1) ≤ numdofs` (what `findspan - p`
guarantees; C02) -/
def Fits {X : Type} (B : Nat → X → Info K) : Nat → List Nat → List X → Prop
  | i, n :: dims, y :: ys => (B i y).first + (B i y).width ≤ n ∧ Fits B (i + 1) dims ys
  | _, _, _ => True

/-- the einsum over the active slices equals the contraction with the dense CSR rows -/
theorem contractWin_eq_contract {X : Type} (B : Nat → X → Info K) (c : Nat → K) (nc j : Nat)
    (dims : List Nat) (ys : List X) (D : List Nat) (i off : Nat) (h : Fits B i dims ys) :
    contractWin c nc j (wins B i dims ys D) off = contract c nc j (rows B i dims ys D) off := by
  induction dims generalizing ys D i off with
  | nil => simp [wins, rows, contractWin, contract]
  | cons n dims ih =>
    cases ys with
    | nil => simp [wins, rows, contractWin, contract]
    | cons y ys =>
      cases D with
      | nil => simp [wins, rows, contractWin, contract]
      | cons ν D =>
        simp only [wins, rows, contractWin, contract]
        obtain ⟨hfit, hrest⟩ := h
        have hw := sumTo_window n (B i y).first (B i y).width ((B i y).win ν)
          (fun t => contract c nc j (rows B (i + 1) dims ys D) (off * n + t)) hfit
        simp only [Info.dense]
        rw [hw]
        apply sumTo_congr
        intro l _
        rw [ih ys D (i + 1) _ hrest, Nat.add_assoc]

/-- the axis map of the scattered routes is the reversal, for every number of axes -/
theorem axisMap_eq_reverse {X : Type} [Inhabited X] (pts : List X) : axisMap pts = pts.reverse := by
  apply List.ext_getElem
  · simp [axisMap]
  · intro d h1 h2
    simp only [axisMap, List.length_map, List.length_range] at h1
    simp only [axisMap, List.getElem_map, List.getElem_range, List.getElem_reverse]
    rw [List.getD_eq_getElem?_getD, List.getElem?_eq_getElem (by omega)]
    rfl

/-- slot assignment `result[..., sdim-i-1] = v i` builds the same list as appending
`v i` for `i in reversed(range(sdim))` -/
theorem slotAssign_partial (n : Nat) (v : Nat → K) (k : Nat) (hk : k ≤ n) :
    (List.range k).foldl (fun res i => res.set (n - i - 1) (v i)) (List.replicate n (0 : K))
      = (List.range n).map (fun m => if n - k ≤ m then v (n - 1 - m) else 0) := by
  induction k with
  | zero =>
    apply List.ext_getElem
    · simp
    · intro m h1 h2
      simp only [List.length_map, List.length_range] at h2
      simp only [List.range_zero, List.foldl_nil, List.getElem_replicate, List.getElem_map,
        List.getElem_range]
      rw [if_neg (by omega)]
  | succ k ih =>
    rw [List.range_succ, List.foldl_append, ih (by omega)]
    apply List.ext_getElem
    · simp
    · intro m h1 h2
      simp only [List.length_map, List.length_range] at h2
      simp only [List.foldl_cons, List.foldl_nil, List.getElem_set, List.getElem_map, List.getElem_range]
      by_cases hm : n - k - 1 = m
      · rw [if_pos hm, if_pos (by omega)]
        congr 1; omega
      · rw [if_neg hm]
        by_cases h3 : n - k ≤ m
        · rw [if_pos h3, if_pos (by omega)]
        · rw [if_neg h3, if_neg (by omega)]

theorem slotAssign_eq (n : Nat) (v : Nat → K) : slotAssign n v = (List.range n).reverse.map v := by
  unfold slotAssign
  rw [slotAssign_partial n v n (Nat.le_refl n)]
  apply List.ext_getElem
  · simp
  · intro m h1 h2
    simp only [List.length_map, List.length_range] at h1
    simp only [List.getElem_map, List.getElem_range, List.getElem_reverse, List.length_range]
    rw [if_pos (by omega)]

/-! ### Hessian packing -/

theorem reverse_range_map {β : Type} (m : Nat) (f : Nat → β) :
    (List.range m).reverse.map (fun j => f (m - 1 - j)) = (List.range m).map f := by
  apply List.ext_getElem
  · simp
  · intro k h1 h2
    simp only [List.length_map, List.length_range] at h2
    simp only [List.getElem_map, List.getElem_reverse, List.getElem_range, List.length_range]
    congr 1; omega

theorem mem_hessPairs {n : Nat} {p : Nat × Nat} (h : p ∈ hessPairs n) : p.1 < n ∧ p.2 ≤ p.1 := by
  simp only [hessPairs, List.mem_flatMap, List.mem_reverse, List.mem_range, List.mem_map] at h
  obtain ⟨i, hi, j, hj, rfl⟩ := h
  exact ⟨hi, by simp; omega⟩

theorem hessPairs_succ (n : Nat) :
    hessPairs (n + 1) = (List.range (n + 1)).reverse.map (fun j => (n, j)) ++ hessPairs n := by
  simp [hessPairs, List.range_succ]

theorem triu_succ (n : Nat) :
    triu (n + 1) = (List.range (n + 1)).map (fun b => (0, b)) ++ (triu n).map (fun p => (p.1 + 1, p.2 + 1)) := by
  simp only [triu]
  rw [List.range_succ_eq_map, List.flatMap_cons]
  congr 1
  · simp only [Nat.sub_zero, Nat.zero_add]
    rw [List.range_succ_eq_map]
  · simp only [List.flatMap_map, List.map_flatMap, List.map_map]
    apply List.flatMap_congr
    intro a _
    have : n + 1 - (a + 1) = n - a := by omega
    rw [this]
    apply List.map_congr_left
    intro b _
    simp only [Function.comp]
    congr 1; omega

/-- the order in which `grid_hessian` fills its last axis is `np.triu_indices` of the
x-first variable numbering `a = sdim-1-i` -/
theorem hessPairs_eq_triu (n : Nat) :
    (hessPairs n).map (fun p => (n - 1 - p.1, n - 1 - p.2)) = triu n := by
  induction n with
  | zero => rfl
  | succ n ih =>
    rw [hessPairs_succ, triu_succ, List.map_append, ← ih]
    congr 1
    · rw [List.map_map]
      have := reverse_range_map (n + 1) (fun b => ((0 : Nat), b))
      simp only [Nat.add_sub_cancel] at this
      rw [← this]
      apply List.map_congr_left
      intro j _
      simp
    · rw [List.map_map]
      apply List.map_congr_left
      intro p hp
      obtain ⟨h1, h2⟩ := mem_hessPairs hp
      simp only [Function.comp, Nat.add_sub_cancel]
      congr 1 <;> omega

theorem mem_triu {n : Nat} {p : Nat × Nat} (h : p ∈ triu n) : p.1 < n ∧ p.2 < n := by
  simp only [triu, List.mem_flatMap, List.mem_range, List.mem_map] at h
  obtain ⟨a, ha, b, hb, rfl⟩ := h
  exact ⟨ha, by simp; omega⟩

/-! ### `_BoundaryFunction` argument lists -/

theorem insertIdx_take_drop {X : Type} (a : X) : ∀ (n : Nat) (l : List X), n ≤ l.length →
    l.insertIdx n a = l.take n ++ a :: l.drop n
  | 0, l, _ => by simp
  | n + 1, [], h => by simp at h
  | n + 1, x :: l, h => by
    simp [List.insertIdx_succ_cons, insertIdx_take_drop a n l (by simpa using h)]

theorem reverse_insertIdx {X : Type} (x : List X) (axis : Nat) (a : X) (h : axis ≤ x.length) :
    (x.insertIdx (x.length - axis) a).reverse = x.reverse.insertIdx axis a := by
  rw [insertIdx_take_drop a _ x (by omega), insertIdx_take_drop a _ x.reverse (by simpa using h)]
  simp only [List.reverse_append, List.reverse_cons, List.append_assoc, List.singleton_append]
  rw [List.take_reverse, List.drop_reverse]

end Pyiga.Geo
