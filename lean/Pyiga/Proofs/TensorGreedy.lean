/-
C18: the basis extension step of `gta` keeps the mode bases orthonormal (exact arithmetic), and without the
"skip almost zero vectors" rule it does not.
-/
import Pyiga.Proofs.TensorBasic
import Mathlib.Tactic.FieldSimp

set_option linter.unusedSectionVars false
set_option linter.unusedSimpArgs false
set_option linter.unusedVariables false

namespace Pyiga.Tensor

variable {α : Type} [Field α] [LinearOrder α]

/-- the columns of `U` are orthonormal: `UᵀU = I` -/
def OrthoCols (U : Mat α) : Prop :=
  ∀ c c', c < U.cols → c' < U.cols →
    sumN U.rows (fun i => U.get i c * U.get i c') = if c = c' then 1 else 0

/-- the Gram-Schmidt residual is orthogonal to every column of an orthonormal `U` -/
theorem gsResidual_orth (U : Mat α) (v : Nat → α) (h : OrthoCols U) (c : Nat) (hc : c < U.cols) :
    sumN U.rows (fun i => gsResidual U v i * U.get i c) = 0 := by
  have e : ∀ i, gsResidual U v i * U.get i c
      = U.get i c * v i - sumN U.cols (fun c' => (sumN U.rows (fun k => U.get k c' * v k)) * (U.get i c' * U.get i c)) := by
    intro i
    simp only [gsResidual]
    rw [sub_mul, ← sumN_mul_right]
    congr 1
    · ring
    · exact sumN_congr _ _ _ (fun c' _ => by ring)
  rw [sumN_congr _ _ _ (fun i _ => e i), sumN_sub_fn, sumN_comm]
  have key : sumN U.cols (fun c' => sumN U.rows (fun i =>
        (sumN U.rows (fun k => U.get k c' * v k)) * (U.get i c' * U.get i c)))
      = sumN U.cols (fun c' => if c' = c then sumN U.rows (fun k => U.get k c' * v k) else 0) := by
    refine sumN_congr _ _ _ (fun c' hc' => ?_)
    rw [sumN_mul_left, h c' c hc' hc]
    by_cases he : c' = c <;> simp [he]
  rw [key, sumN_ite_eq _ _ hc]
  ring

/-- **the basis extension of `gta` preserves orthonormality**: if the columns of `U` are orthonormal and `ny`
is the norm of the residual `y = v - U Uᵀ v` (`ny² = Σ y²`, `ny ≠ 0` whenever a column is appended), then the
result of the loop body — `U` itself when the skip rule fires, `[U, y/ny]` otherwise — has orthonormal columns. -/
theorem gtaExtend_orthonormal (rule : SkipRule α) (U : Mat α) (v : Nat → α) (ny nv : α) (h : OrthoCols U)
    (hny : ny * ny = sumN U.rows (fun i => gsResidual U v i * gsResidual U v i))
    (hpos : (gtaExtend rule U v ny nv).cols = U.cols + 1 → ny ≠ 0) :
    OrthoCols (gtaExtend rule U v ny nv) := by
  obtain ⟨skip, hs⟩ : ∃ skip : Bool, gtaExtend rule U v ny nv = if skip then U else
      ⟨U.rows, U.cols + 1, fun i c => if c < U.cols then U.get i c else gsResidual U v i / ny⟩ := ⟨_, rfl⟩
  rw [hs] at hpos ⊢
  cases skip with
  | true => simpa using h
  | false =>
    simp only [Bool.false_eq_true, if_false] at hpos ⊢
    have hne : ny ≠ 0 := hpos trivial
    intro c c' hc hc'
    simp only at hc hc' ⊢
    by_cases h1 : c < U.cols <;> by_cases h2 : c' < U.cols
    · simp only [h1, h2, if_true]; exact h c c' h1 h2
    · have hc'e : c' = U.cols := by omega
      have hne' : ¬ c = c' := by omega
      simp only [h1, h2, if_true, if_false, hne']
      have : ∀ i, U.get i c * (gsResidual U v i / ny) = (1 / ny) * (gsResidual U v i * U.get i c) := by
        intro i; field_simp
      rw [sumN_congr _ _ _ (fun i _ => this i), sumN_mul_left, gsResidual_orth U v h c h1, mul_zero]
    · have hne' : ¬ c = c' := by omega
      simp only [h1, h2, if_true, if_false, hne']
      have : ∀ i, gsResidual U v i / ny * U.get i c' = (1 / ny) * (gsResidual U v i * U.get i c') := by
        intro i; field_simp
      rw [sumN_congr _ _ _ (fun i _ => this i), sumN_mul_left, gsResidual_orth U v h c' h2, mul_zero]
    · have he : c = c' := by omega
      simp only [h1, h2, if_false, he, if_true]
      have : ∀ i, gsResidual U v i / ny * (gsResidual U v i / ny)
          = (1 / (ny * ny)) * (gsResidual U v i * gsResidual U v i) := by
        intro i; field_simp
      rw [sumN_congr _ _ _ (fun i _ => this i), sumN_mul_left, ← hny]
      field_simp

/-- the repaired skip rule: the basis is returned unchanged iff `ny ≤ c·nv` or it is already complete,
otherwise exactly one column is added -/
theorem gtaExtend_cols (c : α) (U : Mat α) (v : Nat → α) (ny nv : α) :
    (gtaExtend (.relative c) U v ny nv).cols = if ny ≤ c * nv ∨ U.rows ≤ U.cols then U.cols else U.cols + 1 := by
  unfold gtaExtend
  by_cases h1 : c * nv < ny <;> by_cases h2 : U.rows ≤ U.cols <;> simp [h1, h2, not_le.2, le_of_not_gt]

/-- the rule of `gta` before 2f34e7d -/
theorem gtaExtend_cols_absolute (t : α) (U : Mat α) (v : Nat → α) (ny nv : α) :
    (gtaExtend (.absolute t) U v ny nv).cols = if ny < t then U.cols else U.cols + 1 := by
  unfold gtaExtend
  by_cases h : ny < t <;> simp [h]

/-- with the repaired rule the rank of a mode never exceeds its size -/
theorem gtaExtend_rank_le (c : α) (U : Mat α) (v : Nat → α) (ny nv : α) (h : U.cols ≤ U.rows) :
    (gtaExtend (.relative c) U v ny nv).cols ≤ (gtaExtend (.relative c) U v ny nv).rows := by
  have hr : (gtaExtend (.relative c) U v ny nv).rows = U.rows := by
    obtain ⟨skip, hs⟩ : ∃ skip : Bool, gtaExtend (.relative c) U v ny nv = if skip then U else
        ⟨U.rows, U.cols + 1, fun i c => if c < U.cols then U.get i c else gsResidual U v i / ny⟩ := ⟨_, rfl⟩
    rw [hs]; cases skip <;> rfl
  rw [hr, gtaExtend_cols]
  split
  · exact h
  · rename_i hn
    have : ¬ U.rows ≤ U.cols := fun hh => hn (Or.inr hh)
    omega

end Pyiga.Tensor
