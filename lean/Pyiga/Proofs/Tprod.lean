/-
`apply_tprod`: the loop invariant, on the functional view of tensors (`List Nat → α`), and its
transfer to the materialised model (`Tensor`).
-/
import Pyiga.Proofs.LinAlg

namespace Pyiga.LA
open Pyiga.Index

section functional
variable {α : Type} [CommSemiring α]

/-- contract axis `src` with `ent` (sum over `nj` columns), new axis inserted at position `dst` -/
def stepF (ent : Nat → Nat → α) (nj src dst : Nat) (A : List Nat → α) : List Nat → α :=
  fun idx => ∑ j ∈ Finset.range nj, ent (idx.getD dst 0) j * A (insertAt src j (idx.eraseIdx dst))

theorem stepF_apply (ent : Nat → Nat → α) (nj src dst : Nat) (A : List Nat → α) (idx : List Nat) :
    stepF ent nj src dst A idx
      = ∑ j ∈ Finset.range nj, ent (idx.getD dst 0) j * A (insertAt src j (idx.eraseIdx dst)) := rfl

/-- `for i in reversed(range(n)): A = step(ops[i], A)` -/
def loopF (facs : List ((Nat → Nat → α) × Nat)) (src dst : Nat) (A : List Nat → α) : List Nat → α :=
  facs.foldr (fun p acc => stepF p.1 p.2 src dst acc) A

/-- **Loop invariant of `apply_tprod`** (and of the column-major sweeps of `_apply_kronecker_linops`):
with `head` untouched leading axes, `pre` not-yet-touched axes that were moved behind the processed
block, `src` the position of the last unprocessed axis and `dst = |head|`, processing all `facs`
yields the full contraction. -/
theorem loopF_spec : ∀ (facs : List ((Nat → Nat → α) × Nat)) (A : List Nat → α)
    (head pre i t : List Nat) (src : Nat),
    i.length = facs.length → src + 1 = head.length + pre.length + facs.length →
    loopF facs src head.length A (head ++ i ++ pre ++ t)
      = boxSum (facs.map (·.2)) (fun j => kronEntry (facs.map (·.1)) i j * A (head ++ pre ++ j ++ t))
  | [], A, head, pre, i, t, src, hi, _ => by
    have : i = [] := List.length_eq_zero_iff.1 hi
    subst this
    simp [loopF, boxSum, kronEntry]
  | (e, nj) :: rest, A, head, pre, [], t, src, hi, _ => by simp at hi
  | (e, nj) :: rest, A, head, pre, i0 :: irest, t, src, hi, hsrc => by
    have hi' : irest.length = rest.length := by simpa using hi
    simp only [loopF, List.foldr_cons, List.map_cons, boxSum, sumRange_eq_sum]
    rw [stepF_apply]
    have e1 : head ++ (i0 :: irest) ++ pre ++ t = head ++ i0 :: (irest ++ pre ++ t) := by simp
    rw [e1, getD_length_append, eraseIdx_length_append]
    apply Finset.sum_congr rfl
    intro j0 _
    have hlen : src = (head ++ irest ++ pre).length := by
      simp only [List.length_append, List.length_cons] at hsrc ⊢; omega
    have e2 : head ++ (irest ++ pre ++ t) = (head ++ irest ++ pre) ++ t := by simp
    rw [e2, hlen, insertAt_length_append]
    have e3 : head ++ irest ++ pre ++ j0 :: t = head ++ irest ++ (pre ++ [j0]) ++ t := by simp
    rw [e3, ← hlen]
    have ih := loopF_spec rest A head (pre ++ [j0]) irest t src hi'
      (by simp only [List.length_append, List.length_cons, List.length_nil] at hsrc ⊢; omega)
    unfold loopF at ih
    rw [ih, boxSum_mul_left]
    apply boxSum_congr
    intro js
    simp only [kronEntry, List.headD_cons, List.tail_cons]
    have e4 : head ++ (pre ++ [j0]) ++ js ++ t = head ++ pre ++ j0 :: js ++ t := by simp
    rw [e4, mul_assoc]

/-- the identity placeholder contracts to a re-indexing -/
theorem stepF_delta (nj src dst : Nat) (A : List Nat → α) (idx : List Nat) (h : idx.getD dst 0 < nj) :
    stepF (delta (α := α)) nj src dst A idx = A (insertAt src (idx.getD dst 0) (idx.eraseIdx dst)) := by
  unfold stepF delta
  simp only [ite_mul, one_mul, zero_mul]
  rw [Finset.sum_ite_eq, if_pos (Finset.mem_range.2 h)]

end functional

section lifting
variable {α : Type} [CommSemiring α]

/-- the materialised tensor and the function agree on all in-range indices -/
def Agree (T : Tensor α) (F : List Nat → α) : Prop := ∀ idx, Below idx T.shape → T.get idx = F idx

theorem agree_get (T : Tensor α) : Agree T T.get := fun _ _ => rfl

theorem stepF_congr (ent : Nat → Nat → α) (nj src : Nat) (F G : List Nat → α) (r : Nat) (rest : List Nat)
    (h : ∀ j, j < nj → F (insertAt src j rest) = G (insertAt src j rest)) :
    stepF ent nj src 0 F (r :: rest) = stepF ent nj src 0 G (r :: rest) := by
  unfold stepF
  apply Finset.sum_congr rfl
  intro j hj
  simp only [List.eraseIdx_cons_zero]
  rw [h j (Finset.mem_range.1 hj)]

theorem contractFront_agree (ent : Nat → Nat → α) (m nj pos : Nat) (T : Tensor α) (F : List Nat → α)
    (hA : Agree T F) (hpos : pos < T.shape.length) (hnj : nj = T.shape.getD pos 0) :
    Agree (contractFront ent m nj pos T) (stepF ent nj pos 0 F) := by
  intro idx hb
  have hb' : Below idx (m :: T.shape.eraseIdx pos) := hb
  match idx, hb' with
  | r :: rest, hb' =>
    unfold contractFront
    rw [Tensor.get_ofFn _ _ _ hb', sumRange_eq_sum]
    unfold stepF
    apply Finset.sum_congr rfl
    intro j hj
    simp only [List.headD_cons, List.tail_cons, List.getD_cons_zero, List.eraseIdx_cons_zero]
    rw [hA _ (below_insertAt pos T.shape rest j hpos hb'.2 (by rw [← hnj]; exact Finset.mem_range.1 hj))]

theorem rollToFront_agree (pos : Nat) (T : Tensor α) (F : List Nat → α)
    (hA : Agree T F) (hpos : pos < T.shape.length) :
    Agree (rollToFront pos T) (stepF (delta (α := α)) (T.shape.getD pos 0) pos 0 F) := by
  intro idx hb
  have hb' : Below idx (T.shape.getD pos 0 :: T.shape.eraseIdx pos) := hb
  match idx, hb' with
  | r :: rest, hb' =>
    rw [stepF_delta _ _ _ _ _ (by simpa using hb'.1)]
    unfold rollToFront
    rw [Tensor.get_ofFn _ _ _ hb']
    simp only [List.headD_cons, List.tail_cons, List.getD_cons_zero, List.eraseIdx_cons_zero]
    exact hA _ (below_insertAt pos T.shape rest r hpos hb'.2 hb'.1)

theorem toSeq_pair (a b m n : Nat) : toSeq [a, b] [m, n] = a * n + b := by
  simp [toSeq]

/-- `_modek_tensordot_sparse` (roll, matricize, `B.dot`, reshape back) computes the same contraction as
`np.tensordot(B, X, axes=([1],[k]))`. -/
theorem modekSparse_agree (B : Op α) (X : Tensor α) (k : Nat) (F : List Nat → α)
    (hA : Agree X F) (hk : k < X.shape.length) (hn : X.shape.getD k 0 = B.n) :
    ∃ T, modekTensordotSparse B X k = .ok T ∧ T.shape = B.m :: X.shape.eraseIdx k ∧
      Agree T (stepF B.ent B.n k 0 F) := by
  unfold modekTensordotSparse
  simp only [hn, ne_eq, not_true_eq_false, if_false]
  refine ⟨_, rfl, ?_, ?_⟩
  · simp [rollToFront]
  · intro idx hb
    have hshape : ((matmat B ((rollToFront k X).reshape [B.n, prod (rollToFront k X).shape.tail])).reshape
        (B.m :: (rollToFront k X).shape.tail)).shape = B.m :: X.shape.eraseIdx k := by simp [rollToFront]
    rw [hshape] at hb
    match idx, hb with
    | r :: rest, hb =>
      set rs := X.shape.eraseIdx k with hrs
      have hlen : rest.length = rs.length := below_length hb.2
      have hs : toSeq rest rs < prod rs := toSeq_lt _ _ hb.2
      have htail : (rollToFront k X).shape.tail = rs := by simp [rollToFront, hrs]
      rw [htail]
      -- the flat position of (r :: rest) is that of [r, toSeq rest rs] in the matricized result
      have hmm : (matmat B ((rollToFront k X).reshape [B.n, prod rs])).shape = [B.m, prod rs] := by
        simp [matmat]
      rw [Tensor.get_reshape _ _ (r :: rest) [r, toSeq rest rs]
        (by rw [hmm, toSeq_cons _ _ _ _ hlen, toSeq_pair])]
      unfold matmat
      have hR : ((rollToFront k X).reshape [B.n, prod rs]).shape.getD 1 0 = prod rs := by simp
      rw [hR, Tensor.get_ofFn _ _ _ (show Below [r, toSeq rest rs] [B.m, prod rs] from ⟨hb.1, hs, trivial⟩),
        sumRange_eq_sum]
      unfold stepF
      apply Finset.sum_congr rfl
      intro j hj
      have hj' : j < B.n := Finset.mem_range.1 hj
      simp only [List.getD_cons_zero, List.getD_cons_succ, List.eraseIdx_cons_zero]
      have hrshape : (rollToFront k X).shape = X.shape.getD k 0 :: rs := by simp [rollToFront, hrs]
      rw [Tensor.get_reshape _ _ [j, toSeq rest rs] (j :: rest)
        (by rw [hrshape, toSeq_cons _ _ _ _ hlen, toSeq_pair])]
      have hbj : Below (j :: rest) (X.shape.getD k 0 :: rs) := ⟨by rw [hn]; exact hj', hb.2⟩
      unfold rollToFront
      rw [Tensor.get_ofFn _ _ _ hbj]
      simp only [List.headD_cons, List.tail_cons]
      rw [hA _ (below_insertAt k X.shape rest j hk hb.2 (by rw [hn]; exact hj'))]

/-- shape compatibility of the factors with the leading axes: `some B` needs `B.n = c` -/
def ColsOk : List (Option (Op α)) → List Nat → Prop
  | [], [] => True
  | op :: ops, c :: cs => (∀ B, op = some B → B.n = c) ∧ ColsOk ops cs
  | _, _ => False

/-- row extent contributed by one factor: `B.m`, resp. the unchanged extent for `None` -/
def rowOf : Option (Op α) → Nat → Nat
  | some B, _ => B.m
  | none, c => c

/-- row extents of the result -/
def rowsOf : List (Option (Op α)) → List Nat → List Nat
  | op :: ops, c :: cs => rowOf op c :: rowsOf ops cs
  | _, _ => []

/-- (entries, number of columns) per factor -/
def facsOf : List (Option (Op α)) → List Nat → List ((Nat → Nat → α) × Nat)
  | op :: ops, c :: cs => (entOf op, c) :: facsOf ops cs
  | _, _ => []

theorem colsOk_length : ∀ {ops : List (Option (Op α))} {cs : List Nat}, ColsOk ops cs → ops.length = cs.length
  | [], [], _ => rfl
  | _ :: _, _ :: _, h => by simp [colsOk_length h.2]
  | [], _ :: _, h => by simp [ColsOk] at h
  | _ :: _, [], h => by simp [ColsOk] at h

theorem rowsOf_length : ∀ {ops : List (Option (Op α))} {cs : List Nat}, ColsOk ops cs → (rowsOf ops cs).length = ops.length
  | [], [], _ => rfl
  | _ :: _, _ :: _, h => by simp [rowsOf, rowsOf_length h.2]
  | [], _ :: _, h => by simp [ColsOk] at h
  | _ :: _, [], h => by simp [ColsOk] at h

theorem facsOf_length : ∀ {ops : List (Option (Op α))} {cs : List Nat}, ColsOk ops cs → (facsOf ops cs).length = ops.length
  | [], [], _ => rfl
  | _ :: _, _ :: _, h => by simp [facsOf, facsOf_length h.2]
  | [], _ :: _, h => by simp [ColsOk] at h
  | _ :: _, [], h => by simp [ColsOk] at h

theorem facsOf_map_snd : ∀ {ops : List (Option (Op α))} {cs : List Nat}, ColsOk ops cs → (facsOf ops cs).map (·.2) = cs
  | [], [], _ => rfl
  | _ :: _, _ :: _, h => by simp [facsOf, facsOf_map_snd h.2]
  | [], _ :: _, h => by simp [ColsOk] at h
  | _ :: _, [], h => by simp [ColsOk] at h

theorem facsOf_map_fst : ∀ {ops : List (Option (Op α))} {cs : List Nat}, ColsOk ops cs →
    (facsOf ops cs).map (·.1) = ops.map entOf
  | [], [], _ => rfl
  | _ :: _, _ :: _, h => by simp [facsOf, facsOf_map_fst h.2]
  | [], _ :: _, h => by simp [ColsOk] at h
  | _ :: _, [], h => by simp [ColsOk] at h

/-- one loop iteration on the materialised tensor -/
theorem tprodStep_agree (pos : Nat) (op : Option (Op α)) (c : Nat) (T : Tensor α) (F : List Nat → α)
    (hA : Agree T F) (hpos : pos < T.shape.length) (hc : T.shape.getD pos 0 = c)
    (hop : ∀ B, op = some B → B.n = c) :
    ∃ T', tprodStep pos op T = .ok T' ∧
      T'.shape = rowOf op c :: T.shape.eraseIdx pos ∧
      Agree T' (stepF (entOf op) c pos 0 F) := by
  cases op with
  | none =>
    refine ⟨_, rfl, by simp only [rollToFront, Tensor.shape_ofFn, hc, rowOf], ?_⟩
    rw [← hc]
    exact rollToFront_agree pos T F hA hpos
  | some B =>
    have hn : B.n = c := hop B rfl
    unfold tprodStep
    by_cases hk : B.kind = Kind.dense
    · simp only [hk, if_true, hc, hn, ne_eq, not_true_eq_false, if_false]
      refine ⟨_, rfl, by simp [contractFront, rowOf], ?_⟩
      rw [← hn]
      exact contractFront_agree B.ent B.m B.n pos T F hA hpos (by rw [hc, hn])
    · simp only [hk, if_false]
      obtain ⟨T', h1, h2, h3⟩ := modekSparse_agree B T pos F hA hpos (by rw [hc, hn])
      exact ⟨T', h1, by simpa [rowOf] using h2, by rw [← hn]; exact h3⟩

/-- the whole loop on the materialised tensor, for a suffix of the factor list -/
theorem foldr_agree : ∀ (ops : List (Option (Op α))) (A : Tensor α) (pre cols trail : List Nat) (pos : Nat),
    A.shape = pre ++ cols ++ trail → ColsOk ops cols → pos + 1 = pre.length + ops.length →
    ∃ T, ops.foldr (fun op (acc : Except Err (Tensor α)) => acc.bind (tprodStep pos op)) (.ok A) = .ok T ∧
      T.shape = rowsOf ops cols ++ pre ++ trail ∧
      Agree T (loopF (facsOf ops cols) pos 0 A.get)
  | [], A, pre, [], trail, pos, hs, _, _ => by
    refine ⟨A, rfl, by simpa [rowsOf] using hs, ?_⟩
    simpa [loopF, facsOf] using agree_get A
  | [], _, _, _ :: _, _, _, _, h, _ => by simp [ColsOk] at h
  | _ :: _, _, _, [], _, _, _, h, _ => by simp [ColsOk] at h
  | op :: ops, A, pre, c :: cols, trail, pos, hs, hc, hp => by
    obtain ⟨T1, h1, hs1, ha1⟩ := foldr_agree ops A (pre ++ [c]) cols trail pos (by simp [hs]) hc.2
      (by simp only [List.length_append, List.length_cons, List.length_nil] at hp ⊢; omega)
    have hrl := rowsOf_length hc.2
    have hposeq : pos = (rowsOf ops cols ++ pre).length := by
      simp only [List.length_append, List.length_cons, hrl] at hp ⊢; omega
    have hs1' : T1.shape = (rowsOf ops cols ++ pre) ++ c :: trail := by simp [hs1]
    have hget : T1.shape.getD pos 0 = c := by rw [hs1', hposeq, getD_length_append]
    have hlt : pos < T1.shape.length := by
      rw [hs1', hposeq]; simp
    obtain ⟨T', h2, hs2, ha2⟩ := tprodStep_agree pos op c T1 _ ha1 hlt hget hc.1
    refine ⟨T', ?_, ?_, ?_⟩
    · simp only [List.foldr_cons, h1]; exact h2
    · rw [hs2, hs1', hposeq, eraseIdx_length_append]; simp [rowsOf]
    · simpa [loopF, facsOf] using ha2

/-- `apply_tprod` on the materialised model: success, shape, and the full contraction formula -/
theorem applyTprod_spec (ops : List (Option (Op α))) (A : Tensor α) (cols trail : List Nat)
    (hs : A.shape = cols ++ trail) (hc : ColsOk ops cols) :
    ∃ T, applyTprod ops A = .ok T ∧ T.shape = rowsOf ops cols ++ trail ∧
      ∀ i t, Below i (rowsOf ops cols) → Below t trail →
        T.get (i ++ t) = boxSum cols (fun j => kronEntry (ops.map entOf) i j * A.get (j ++ t)) := by
  have hlen := colsOk_length hc
  unfold applyTprod
  have hnlt : ¬ (A.shape.length < ops.length) := by rw [hs]; simp; omega
  simp only [hnlt, if_false]
  rcases Nat.eq_zero_or_pos ops.length with h0 | hpos
  · have hops : ops = [] := List.length_eq_zero_iff.1 h0
    subst hops
    have hcols : cols = [] := by
      cases cols with
      | nil => rfl
      | cons c cs => simp [ColsOk] at hc
    subst hcols
    refine ⟨A, rfl, by simpa [rowsOf] using hs, ?_⟩
    intro i t hi _
    have : i = [] := by
      cases i with
      | nil => rfl
      | cons a b => simp [rowsOf, Below] at hi
    subst this
    simp [boxSum, kronEntry]
  · obtain ⟨T, h1, h2, h3⟩ := foldr_agree ops A [] cols trail (ops.length - 1) (by simpa using hs) hc
      (by simp; omega)
    refine ⟨T, h1, by simpa using h2, ?_⟩
    intro i t hi ht
    have hb : Below (i ++ t) T.shape := by
      rw [h2]; simpa using below_append hi ht
    rw [h3 _ hb]
    have hil : i.length = (facsOf ops cols).length := by
      rw [below_length hi, rowsOf_length hc, facsOf_length hc]
    have := loopF_spec (facsOf ops cols) A.get [] [] i t (ops.length - 1) hil
      (by simp [facsOf_length hc]; omega)
    simp only [List.nil_append, List.append_nil, List.length_nil] at this
    rw [this, facsOf_map_snd hc, facsOf_map_fst hc]

end lifting

end Pyiga.LA
