/-
C01: a syntactically linear kernel expression vanishes with (and is additive in) the jet of that
basis function (DESIGN §6/C01 `IsLinearIn`).
-/
import Pyiga.Model.KernelExpr
import Mathlib.Algebra.Field.Basic
import Mathlib.Tactic.Ring

namespace Pyiga.KExpr

variable {α : Type} [Field α] [DecidableEq α]

omit [DecidableEq α] in
/-- an expression in which `bf` does not occur does not depend on its jet -/
theorem eval_free (bf : Nat) (fields : Nat → α) (jet jet' : Nat → Nat → α) (fnsem : Nat → α → α)
    (hj : ∀ b D, b ≠ bf → jet b D = jet' b D) :
    ∀ (e : KExpr α), free bf e = true → eval fields jet fnsem e = eval fields jet' fnsem e
  | .const _, _ => rfl
  | .field _, _ => rfl
  | .pderiv b D, h => by
    simp only [free, bne_iff_ne, ne_eq] at h
    exact hj b D h
  | .neg x, h => by simp only [eval, eval_free bf fields jet jet' fnsem hj x h]
  | .add x y, h => by
    simp only [free, Bool.and_eq_true] at h
    simp only [eval, eval_free bf fields jet jet' fnsem hj x h.1, eval_free bf fields jet jet' fnsem hj y h.2]
  | .sub x y, h => by
    simp only [free, Bool.and_eq_true] at h
    simp only [eval, eval_free bf fields jet jet' fnsem hj x h.1, eval_free bf fields jet jet' fnsem hj y h.2]
  | .mul x y, h => by
    simp only [free, Bool.and_eq_true] at h
    simp only [eval, eval_free bf fields jet jet' fnsem hj x h.1, eval_free bf fields jet jet' fnsem hj y h.2]
  | .div x y, h => by
    simp only [free, Bool.and_eq_true] at h
    simp only [eval, eval_free bf fields jet jet' fnsem hj x h.1, eval_free bf fields jet jet' fnsem hj y h.2]
  | .fn n x, h => by
    simp only [free] at h
    simp only [eval, eval_free bf fields jet jet' fnsem hj x h]

/-- **a syntactically linear expression evaluates to 0 when that basis function's jet is 0** -/
theorem eval_zero_of_isLinearIn (bf : Nat) (fields : Nat → α) (jet : Nat → Nat → α) (fnsem : Nat → α → α)
    (hz : ∀ D, jet bf D = 0) :
    ∀ (e : KExpr α), IsLinearIn bf e = true → eval fields jet fnsem e = 0
  | .const c, h => by
    have : c = 0 := by simpa [IsLinearIn] using h
    simp [eval, this]
  | .field _, h => by simp [IsLinearIn] at h
  | .pderiv b D, h => by
    simp only [IsLinearIn, beq_iff_eq] at h
    subst h
    exact hz D
  | .neg x, h => by
    simp only [IsLinearIn] at h
    simp [eval, eval_zero_of_isLinearIn bf fields jet fnsem hz x h]
  | .add x y, h => by
    simp only [IsLinearIn, Bool.and_eq_true] at h
    simp [eval, eval_zero_of_isLinearIn bf fields jet fnsem hz x h.1, eval_zero_of_isLinearIn bf fields jet fnsem hz y h.2]
  | .sub x y, h => by
    simp only [IsLinearIn, Bool.and_eq_true] at h
    simp [eval, eval_zero_of_isLinearIn bf fields jet fnsem hz x h.1, eval_zero_of_isLinearIn bf fields jet fnsem hz y h.2]
  | .mul x y, h => by
    simp only [IsLinearIn, Bool.or_eq_true, Bool.and_eq_true] at h
    rcases h with h | h
    · simp [eval, eval_zero_of_isLinearIn bf fields jet fnsem hz x h.1]
    · simp [eval, eval_zero_of_isLinearIn bf fields jet fnsem hz y h.2]
  | .div x y, h => by
    simp only [IsLinearIn, Bool.and_eq_true] at h
    simp [eval, eval_zero_of_isLinearIn bf fields jet fnsem hz x h.1]
  | .fn _ _, h => by simp [IsLinearIn] at h

/-- it is in fact additive in that jet (true linearity, not just vanishing) -/
theorem eval_add_of_isLinearIn (bf : Nat) (fields : Nat → α) (j1 j2 j : Nat → Nat → α) (fnsem : Nat → α → α)
    (h1 : ∀ b D, b ≠ bf → j1 b D = j b D) (h2 : ∀ b D, b ≠ bf → j2 b D = j b D)
    (hs : ∀ D, j bf D = j1 bf D + j2 bf D) :
    ∀ (e : KExpr α), IsLinearIn bf e = true →
      eval fields j fnsem e = eval fields j1 fnsem e + eval fields j2 fnsem e
  | .const c, h => by
    have : c = 0 := by simpa [IsLinearIn] using h
    simp [eval, this]
  | .field _, h => by simp [IsLinearIn] at h
  | .pderiv b D, h => by
    simp only [IsLinearIn, beq_iff_eq] at h
    subst h
    exact hs D
  | .neg x, h => by
    simp only [IsLinearIn] at h
    simp only [eval, eval_add_of_isLinearIn bf fields j1 j2 j fnsem h1 h2 hs x h]
    ring
  | .add x y, h => by
    simp only [IsLinearIn, Bool.and_eq_true] at h
    simp only [eval, eval_add_of_isLinearIn bf fields j1 j2 j fnsem h1 h2 hs x h.1,
      eval_add_of_isLinearIn bf fields j1 j2 j fnsem h1 h2 hs y h.2]
    ring
  | .sub x y, h => by
    simp only [IsLinearIn, Bool.and_eq_true] at h
    simp only [eval, eval_add_of_isLinearIn bf fields j1 j2 j fnsem h1 h2 hs x h.1,
      eval_add_of_isLinearIn bf fields j1 j2 j fnsem h1 h2 hs y h.2]
    ring
  | .mul x y, h => by
    simp only [IsLinearIn, Bool.or_eq_true, Bool.and_eq_true] at h
    rcases h with h | h
    · simp only [eval, eval_add_of_isLinearIn bf fields j1 j2 j fnsem h1 h2 hs x h.1,
        eval_free bf fields j1 j fnsem h1 y h.2, eval_free bf fields j2 j fnsem h2 y h.2]
      ring
    · simp only [eval, eval_add_of_isLinearIn bf fields j1 j2 j fnsem h1 h2 hs y h.2,
        eval_free bf fields j1 j fnsem h1 x h.1, eval_free bf fields j2 j fnsem h2 x h.1]
      ring
  | .div x y, h => by
    simp only [IsLinearIn, Bool.and_eq_true] at h
    simp only [eval, eval_add_of_isLinearIn bf fields j1 j2 j fnsem h1 h2 hs x h.1,
      eval_free bf fields j1 j fnsem h1 y h.2, eval_free bf fields j2 j fnsem h2 y h.2]
    rw [add_div]
  | .fn _ _, h => by simp [IsLinearIn] at h

end Pyiga.KExpr
