/-
C18: specification of `T1 + T2` and `T1 - T2` for every supported pair of tensor classes.
-/
import Pyiga.Proofs.TensorAdd

set_option linter.unusedSectionVars false
set_option linter.unusedSimpArgs false
set_option linter.unusedVariables false

namespace Pyiga.Tensor
open Pyiga.Index

variable {α : Type} [CommRing α]

theorem allShape_append_inv (s : List Nat) : ∀ (Xs Ys : List (Ten α)), AllShape s (Xs ++ Ys) → AllShape s Xs ∧ AllShape s Ys
  | [], _, h => ⟨trivial, h⟩
  | X :: Xs, Ys, h => by
    simp only [List.cons_append, AllShape] at h ⊢
    obtain ⟨a, b⟩ := allShape_append_inv s Xs Ys h.2
    exact ⟨⟨h.1, a⟩, b⟩

theorem fullAdd_ok (A B R : Full α) (h : A.add B = .ok R) :
    B.shape = A.shape ∧ R.shape = A.shape ∧ ∀ I, inBox I A.shape = true → R.get I = A.get I + B.get I := by
  simp only [Full.add] at h
  split at h
  · rename_i heq
    injection h with h; subst h
    exact ⟨heq.symm, rfl, fun I hI => ofFn_get _ _ _ hI⟩
  · cases h

theorem fullSub_ok (A B R : Full α) (h : A.sub B = .ok R) :
    B.shape = A.shape ∧ R.shape = A.shape ∧ ∀ I, inBox I A.shape = true → R.get I = A.get I - B.get I := by
  simp only [Full.sub] at h
  split at h
  · rename_i heq
    injection h with h; subst h
    exact ⟨heq.symm, rfl, fun I hI => ofFn_get _ _ _ hI⟩
  · cases h

/-- `T1 + T2`: same shape, well-formed result, entries add -/
theorem add_spec (T1 T2 T' : Ten α) (w1 : T1.WF) (w2 : T2.WF) (h : T1.add T2 = .ok T') :
    T'.WF ∧ T'.shape = T1.shape ∧ T2.shape = T1.shape ∧
      ∀ I, inBox I T1.shape = true → T'.entry I = T1.entry I + T2.entry I := by
  cases T1 with
  | full A =>
    cases T2 with
    | full B =>
      simp only [Ten.add] at h
      obtain ⟨R, hR, h⟩ := bind_ok _ _ _ h
      injection h with h; subst h
      obtain ⟨hs, hRs, hg⟩ := fullAdd_ok A B R hR
      exact ⟨trivial, hRs, hs, fun I hI => hg I hI⟩
    | can _ => simp [Ten.add] at h
    | tucker _ _ => simp [Ten.add] at h
    | sum _ _ => simp [Ten.add] at h
    | prod _ _ => simp [Ten.add] at h
  | can X1 =>
    simp only [Ten.add] at h
    split at h
    · cases h
    · rename_i hsh
      have hsh : (Ten.can X1).shape = T2.shape := by simpa using hsh
      cases T2 with
      | can X2 =>
        simp only at h
        obtain ⟨hT, hne, hc⟩ := mkCan_ok _ _ h
        subst hT
        have hl : X1.length = X2.length := map_rows_length X1 X2 hsh
        refine ⟨⟨hne, hc⟩, by simp [Ten.shape, hstack_rows X1 X2 hl], hsh.symm, fun I _ => ?_⟩
        simp only [Ten.entry]
        exact canEntry_hstack X1 X2 I hl w1.2
      | tucker U2 C2 =>
        simp only at h
        obtain ⟨T1', hT1, h⟩ := bind_ok _ _ _ h
        obtain ⟨C, rfl, hC, hCe⟩ := canToTucker_spec X1 T1' w1 hT1
        simp only at h
        obtain ⟨hw, hs, he⟩ := tuckerJoin_spec false X1 U2 C C2 T' hC w2 hsh h
        refine ⟨hw, hs, hsh.symm, fun I hI => ?_⟩
        rw [he I hI]
        simp only [Bool.false_eq_true, if_false, Ten.entry]
        rw [hCe I (by have := inBox_length hI; simpa [Ten.shape] using this)]
      | full B =>
        simp only at h
        obtain ⟨R, hR, h⟩ := bind_ok _ _ _ h
        injection h with h; subst h
        obtain ⟨hs, hRs, hg⟩ := fullAdd_ok _ B R hR
        refine ⟨trivial, hRs, hsh.symm, fun I hI => ?_⟩
        simp only [Ten.entry]
        rw [hg I hI]
        simp only [Ten.asarray]
        rw [ofFn_get _ _ _ hI]; rfl
      | sum _ _ => simp at h
      | prod _ _ => simp at h
  | tucker U1 C1 =>
    simp only [Ten.add] at h
    split at h
    · cases h
    · rename_i hsh
      have hsh : T2.shape = (Ten.tucker U1 C1).shape := by simpa using hsh
      cases T2 with
      | tucker U2 C2 =>
        simp only at h
        obtain ⟨hw, hs, he⟩ := tuckerJoin_spec false U1 U2 C1 C2 T' w1 w2 hsh.symm h
        exact ⟨hw, hs, hsh, fun I hI => by rw [he I hI]; simp [Ten.entry]⟩
      | can X2 =>
        simp only at h
        obtain ⟨T2', hT2, h⟩ := bind_ok _ _ _ h
        obtain ⟨C, rfl, hC, hCe⟩ := canToTucker_spec X2 T2' w2 hT2
        simp only at h
        obtain ⟨hw, hs, he⟩ := tuckerJoin_spec false U1 X2 C1 C T' w1 hC hsh.symm h
        refine ⟨hw, hs, hsh, fun I hI => ?_⟩
        rw [he I hI]
        simp only [Bool.false_eq_true, if_false, Ten.entry]
        rw [hCe I (by
          have := inBox_length hI
          have h2 := map_rows_length _ _ hsh
          simp [Ten.shape] at this; omega)]
      | full B =>
        simp only at h
        obtain ⟨R, hR, h⟩ := bind_ok _ _ _ h
        injection h with h; subst h
        obtain ⟨hs, hRs, hg⟩ := fullAdd_ok _ B R hR
        refine ⟨trivial, hRs, hsh, fun I hI => ?_⟩
        simp only [Ten.entry]
        rw [hg I hI]
        simp only [Ten.asarray]
        rw [ofFn_get _ _ _ hI]; rfl
      | sum _ _ => simp at h
      | prod _ _ => simp at h
  | sum s Xs =>
    simp only [Ten.add] at h
    obtain ⟨hne, hwl, hs⟩ := w1
    obtain ⟨X, Xr, hX, hT, hall⟩ := mkSum_ok _ _ h
    subst hT
    cases Xs with
    | nil => exact absurd rfl hne
    | cons X0 Xr0 =>
      simp only [List.cons_append, List.cons.injEq] at hX
      obtain ⟨rfl, rfl⟩ := hX
      have hXs : X0.shape = s := hs.1
      rw [hXs] at hall
      obtain ⟨_, h2⟩ := allShape_append_inv s (X0 :: Xr0) [T2] hall
      refine ⟨⟨by simp, ?_, by rw [hXs]; exact hall⟩, hXs, h2.1, fun I hI => ?_⟩
      · have := wfList_append (X0 :: Xr0) [T2] hwl ⟨w2, trivial⟩
        simpa using this
      · simp only [Ten.entry]
        rw [entrySum_append (X0 :: Xr0) [T2] I]; simp [entrySum]
  | prod s Xs =>
    simp only [Ten.add] at h
    obtain ⟨X, Xr, hX, hT, hall⟩ := mkSum_ok _ _ h
    subst hT
    simp only [List.cons.injEq] at hX
    obtain ⟨rfl, rfl⟩ := hX
    refine ⟨⟨by simp, ⟨w1, w2, trivial⟩, hall⟩, rfl, hall.2.1, fun I hI => ?_⟩
    simp [Ten.entry, entrySum]

/-- `T1 - T2` -/
theorem sub_spec (T1 T2 T' : Ten α) (w1 : T1.WF) (w2 : T2.WF) (h : T1.sub T2 = .ok T') :
    T'.WF ∧ T'.shape = T1.shape ∧ T2.shape = T1.shape ∧
      ∀ I, inBox I T1.shape = true → T'.entry I = T1.entry I - T2.entry I := by
  -- every branch except Tucker-Tucker and ndarray-ndarray is `T1 + (-T2)`
  have viaNeg : ∀ N, T2.neg = .ok N → T1.add N = .ok T' →
      T'.WF ∧ T'.shape = T1.shape ∧ T2.shape = T1.shape ∧
        ∀ I, inBox I T1.shape = true → T'.entry I = T1.entry I - T2.entry I := by
    intro N hN hA
    obtain ⟨hNw, hNs, hNe⟩ := neg_spec T2 N w2 hN
    obtain ⟨hw, hs, hs2, he⟩ := add_spec T1 N T' w1 hNw hA
    refine ⟨hw, hs, by rw [← hNs]; exact hs2, fun I hI => ?_⟩
    rw [he I hI, hNe I (by rw [← hNs, hs2]; exact hI)]; ring
  cases T1 with
  | full A =>
    cases T2 with
    | full B =>
      simp only [Ten.sub] at h
      obtain ⟨R, hR, h⟩ := bind_ok _ _ _ h
      injection h with h; subst h
      obtain ⟨hs, hRs, hg⟩ := fullSub_ok A B R hR
      exact ⟨trivial, hRs, hs, fun I hI => hg I hI⟩
    | can _ => simp [Ten.sub] at h
    | tucker _ _ => simp [Ten.sub] at h
    | sum _ _ => simp [Ten.sub] at h
    | prod _ _ => simp [Ten.sub] at h
  | can X1 =>
    simp only [Ten.sub] at h
    obtain ⟨N, hN, h⟩ := bind_ok _ _ _ h
    exact viaNeg N hN h
  | tucker U1 C1 =>
    simp only [Ten.sub] at h
    split at h
    · cases h
    · rename_i hsh
      have hsh : T2.shape = (Ten.tucker U1 C1).shape := by simpa using hsh
      cases T2 with
      | tucker U2 C2 =>
        simp only at h
        obtain ⟨hw, hs, he⟩ := tuckerJoin_spec true U1 U2 C1 C2 T' w1 w2 hsh.symm h
        exact ⟨hw, hs, hsh, fun I hI => by rw [he I hI]; simp [Ten.entry]⟩
      | can X2 =>
        simp only at h
        obtain ⟨N, hN, h⟩ := bind_ok _ _ _ h
        exact viaNeg N hN h
      | full B =>
        simp only at h
        obtain ⟨N, hN, h⟩ := bind_ok _ _ _ h
        exact viaNeg N hN h
      | sum _ _ =>
        simp only at h
        obtain ⟨N, hN, h⟩ := bind_ok _ _ _ h
        exact viaNeg N hN h
      | prod _ _ =>
        simp only at h
        obtain ⟨N, hN, h⟩ := bind_ok _ _ _ h
        exact viaNeg N hN h
  | sum s Xs =>
    simp only [Ten.sub] at h
    obtain ⟨N, hN, h⟩ := bind_ok _ _ _ h
    exact viaNeg N hN (by simpa [Ten.add] using h)
  | prod s Xs =>
    simp only [Ten.sub] at h
    obtain ⟨N, hN, h⟩ := bind_ok _ _ _ h
    exact viaNeg N hN (by simpa [Ten.add] using h)

end Pyiga.Tensor
