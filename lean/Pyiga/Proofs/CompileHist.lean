/-
Soundness of request histories mixing `compile_vform` and `compile_vforms` (Model/CompileHist.lean).  Core Lean only.
-/
import Pyiga.Model.CompileHist
import Pyiga.Proofs.VFormKey

namespace Pyiga.VForm

/-- every history of requests (single forms with an on-demand flag, lists of forms) returns, for every requested form, the
class generated from that form itself, and keeps the cache invariant -/
theorem compileHistory_sound {Asm : Type} (gen : Form × Bool → Asm) (kt : KeyTable) (hk : KeyTableComplete kt = true)
    (t : FKeyTable) (h : FKeyTableComplete t = true) :
    ∀ (qs : List CompileReq) (c : AsmCache Asm), CacheInv gen kt t c →
      (compileHistory gen kt t c qs).2 = qs.map (fun q => q.forms.map gen) ∧ CacheInv gen kt t (compileHistory gen kt t c qs).1
  | [], c, hc => ⟨rfl, hc⟩
  | .one r :: qs, c, hc => by
      have h1 := compileVform_sound gen kt hk t h c hc r
      have h2 := compileHistory_sound gen kt hk t h qs _ h1.2
      simp only [compileHistory, compileReq, List.map_cons, CompileReq.forms, List.map_nil]
      refine ⟨?_, h2.2⟩
      rw [h1.1, h2.1]
      rfl
  | .many fs :: qs, c, hc => by
      have h2 := compileHistory_sound gen kt hk t h qs c hc
      simp only [compileHistory, compileReq, compileVforms, List.map_cons, CompileReq.forms, List.map_map]
      refine ⟨?_, h2.2⟩
      rw [h2.1]
      rfl

end Pyiga.VForm
