/-
Helper lemmas for C07: the second-order jet algebra of `Pyiga.Model.Jet` over a field is a
commutative algebra in which every jet with non-zero value is a unit; quotients are unique.
-/
import Pyiga.Model.Jet
import Mathlib.Tactic.Ring
import Mathlib.Tactic.FieldSimp
import Mathlib.Tactic.LinearCombination
import Mathlib.Algebra.Field.Basic

namespace Pyiga.Jet
variable {K : Type} [Field K]

omit [Field K] in
theorem ext' {a b : Jet K} (hv : a.v = b.v) (hg : ∀ i, a.g i = b.g i) (hh : ∀ i j, a.h i j = b.h i j) :
    a = b := by
  cases a; cases b
  simp only [Jet.mk.injEq]
  exact ⟨hv, funext hg, funext fun i => funext fun j => hh i j⟩

theorem mul_comm' (a b : Jet K) : mul a b = mul b a := by
  apply ext' <;> intros <;> simp only [mul] <;> ring

theorem mul_assoc' (a b c : Jet K) : mul (mul a b) c = mul a (mul b c) := by
  apply ext' <;> intros <;> simp only [mul] <;> ring

theorem mul_one' (a : Jet K) : mul a (const 1) = a := by
  apply ext' <;> intros <;> simp only [mul, const] <;> ring

theorem mul_add' (a b c : Jet K) : mul a (add b c) = add (mul a b) (mul a c) := by
  apply ext' <;> intros <;> simp only [mul, add] <;> ring

theorem const_mul_const (x y : K) : mul (const x) (const y) = const (x * y) := by
  apply ext' <;> intros <;> simp only [mul, const] <;> ring

theorem const_add_const (x y : K) : add (const x) (const y) = const (x + y) := by
  apply ext' <;> intros <;> simp only [add, const] <;> ring

/-- `b * (1/b) = 1` in the jet algebra whenever the value of `b` is non-zero. -/
theorem mul_inv_cancel' (b : Jet K) (hb : b.v ≠ 0) : mul b (inv b) = const 1 := by
  apply ext'
  · simp only [mul, inv, const]; field_simp
  · intro i; simp only [mul, inv, const]; field_simp; ring
  · intro i j; simp only [mul, inv, const]; field_simp; ring

/-- `(a / b) * b = a`. -/
theorem div_mul_cancel' (a b : Jet K) (hb : b.v ≠ 0) : mul (div a b) b = a := by
  unfold div
  rw [mul_assoc', mul_comm' (inv b) b, mul_inv_cancel' b hb, mul_one']

/-- quotients are unique: `q * b = a → q = a / b`. -/
theorem eq_div_of_mul_eq (q a b : Jet K) (hb : b.v ≠ 0) (h : mul q b = a) : q = div a b := by
  unfold div
  rw [← h, mul_assoc', mul_inv_cancel' b hb, mul_one']

/-- the quotient of jets with symmetric Hessians has a symmetric Hessian -/
theorem div_symm (a b : Jet K) (ha : IsSymm a) (hb : IsSymm b) : IsSymm (div a b) := by
  intro i j
  simp only [div, mul, inv]
  rw [ha i j, hb i j]
  ring

/-- components of the quotient, spelled out -/
theorem div_v (a b : Jet K) : (div a b).v = a.v / b.v := by
  simp only [div, mul, inv]; ring

theorem div_g (a b : Jet K) (hb : b.v ≠ 0) (i : Nat) :
    (div a b).g i = (a.g i * b.v - a.v * b.g i) / (b.v * b.v) := by
  simp only [div, mul, inv]; field_simp; ring

end Pyiga.Jet
