/-
More L-ml lemmas: transposition, reindexing round trip, per-row queries.
-/
import Pyiga.Proofs.MLMatrix

namespace Pyiga.ML
open Pyiga.Index

/-! ### transposition -/

def swap (e : Nat × Nat) : Nat × Nat := (e.2, e.1)

theorem product_map_swap : ∀ (pats : List Pattern),
    product (pats.map (·.map swap)) = (product pats).map (·.map swap)
  | [] => rfl
  | p :: ps => by
    simp only [List.map_cons, product, product_map_swap ps, List.flatMap_map, List.map_flatMap,
      List.map_map]
    apply flatMap_congr'
    intro e _
    apply List.map_congr_left
    intro es _
    rfl

/-- the nonzeros of the transposed structure are the swapped nonzeros, in the same layout order -/
theorem transpose_spec (S : MLStructure) :
    S.transpose.nonzeroSpec false = (S.nonzeroSpec false).map swap := by
  rw [nonzeroSpec_eq_product, nonzeroSpec_eq_product]
  simp only [MLStructure.lowerFilter, Bool.false_eq_true, if_false, MLStructure.transpose]
  have h : product (S.bidx.map (·.map (fun e => (e.2, e.1)))) =
      (product S.bidx).map (·.map (fun e => (e.2, e.1))) := product_map_swap S.bidx
  rw [h, List.map_map, List.map_map]
  apply List.map_congr_left
  intro es _
  simp [Function.comp_def, swap, MLStructure.rows, MLStructure.cols, List.map_map]

/-! ### reindexing between sequential (i,j) and the per-level sequential index -/

/-- per-level combined index `I_k * n_k + J_k` (what `reindex_to_multilevel` returns) -/
def combine : List Nat → List Nat → List (Nat × Nat) → List Nat
  | i :: I, j :: J, b :: bs => (i * b.2 + j) :: combine I J bs
  | _, _, _ => []

theorem toSeq_pair (i j m n : Nat) : toSeq [i, j] [m, n] = i * n + j := by
  simp [toSeq]

theorem fromSeq_pair (x m n : Nat) : fromSeq x [m, n] = [x / n % m, x % n] := by
  simp [fromSeq, fromSeqRev]

theorem r2ml_eq_combine : ∀ (I J : List Nat) (bs : List (Nat × Nat)),
    (I.zip (J.zip bs)).map (fun (t : Nat × Nat × (Nat × Nat)) => toSeq [t.1, t.2.1] [t.2.2.1, t.2.2.2])
      = combine I J bs
  | [], _, _ => by simp [combine]
  | _ :: _, [], _ => by simp [combine]
  | _ :: _, _ :: _, [] => by simp [combine]
  | i :: I, j :: J, b :: bs => by
    have ih := r2ml_eq_combine I J bs
    simp only [List.zip_cons_cons, List.map_cons, combine]
    rw [ih, toSeq_pair]

theorem split_combine : ∀ (I J : List Nat) (bs : List (Nat × Nat)),
    Below I (bs.map (·.1)) → Below J (bs.map (·.2)) →
      ((combine I J bs).zip bs).map (fun (t : Nat × (Nat × Nat)) => fromSeq t.1 [t.2.1, t.2.2])
        = (I.zip J).map (fun p => [p.1, p.2])
  | [], [], [], _, _ => rfl
  | i :: I, j :: J, b :: bs, hI, hJ => by
    have ih := split_combine I J bs hI.2 hJ.2
    have hi : i < b.1 := hI.1
    have hj : j < b.2 := hJ.1
    have hn : 0 < b.2 := by omega
    simp only [combine, List.zip_cons_cons, List.map_cons]
    rw [ih, fromSeq_pair]
    have e1 : (i * b.2 + j) / b.2 % b.1 = i := by
      rw [Nat.mul_comm, Nat.mul_add_div hn, Nat.div_eq_of_lt hj, Nat.add_zero, Nat.mod_eq_of_lt hi]
    have e2 : (i * b.2 + j) % b.2 = j := by
      rw [Nat.mul_comm, Nat.mul_add_mod, Nat.mod_eq_of_lt hj]
    rw [e1, e2]
  | [], _ :: _, [], _, h => by simp [Below] at h
  | [], [], _ :: _, h, _ => by simp [Below] at h
  | [], _ :: _, _ :: _, h, _ => by simp [Below] at h
  | _ :: _, _, [], h, _ => by simp [Below] at h
  | _ :: _, [], _ :: _, _, h => by simp [Below] at h

theorem map_getD0_pairs : ∀ (l : List (Nat × Nat)),
    (l.map (fun p => [p.1, p.2])).map (fun d => d.getD 0 0) = l.map (·.1) ∧
    (l.map (fun p => [p.1, p.2])).map (fun d => d.getD 1 0) = l.map (·.2)
  | [] => ⟨rfl, rfl⟩
  | p :: l => by
    obtain ⟨h1, h2⟩ := map_getD0_pairs l
    simp only [List.map_cons, h1, h2]
    exact ⟨rfl, rfl⟩

/-- **reindex round trip**: `reindex_from_multilevel ∘ reindex_to_multilevel = id`
for every level count and all positive block sizes. -/
theorem reindex_roundtrip (i j : Nat) (bs : List (Nat × Nat))
    (hpos : ∀ b ∈ bs, 0 < b.1 ∧ 0 < b.2)
    (hi : i < prod (bs.map (·.1))) (hj : j < prod (bs.map (·.2))) :
    reindexFromMultilevel (reindexToMultilevel i j bs) bs = (i, j) := by
  have bI : Below (fromSeq i (bs.map (·.1))) (bs.map (·.1)) :=
    fromSeq_below _ _ (by intro m hm; simp only [List.mem_map] at hm; obtain ⟨b, hb, rfl⟩ := hm; exact (hpos b hb).1)
  have bJ : Below (fromSeq j (bs.map (·.2))) (bs.map (·.2)) :=
    fromSeq_below _ _ (by intro m hm; simp only [List.mem_map] at hm; obtain ⟨b, hb, rfl⟩ := hm; exact (hpos b hb).2)
  have hlen : (fromSeq i (bs.map (·.1))).length = (fromSeq j (bs.map (·.2))).length := by
    simp [fromSeq_length]
  unfold reindexFromMultilevel reindexToMultilevel
  simp only []
  rw [r2ml_eq_combine, split_combine _ _ _ bI bJ]
  obtain ⟨h1, h2⟩ := map_getD0_pairs ((fromSeq i (bs.map (·.1))).zip (fromSeq j (bs.map (·.2))))
  rw [h1, h2, List.map_fst_zip (by omega), List.map_snd_zip (by omega),
    toSeq_fromSeq _ _ hi, toSeq_fromSeq _ _ hj]

/-- `reindex_from_reordered` is the two-level case of `reindex_from_multilevel` -/
theorem reindexFromReordered_eq (i j m1 n1 m2 n2 : Nat) (hi : i < m1 * n1) (hj : j < m2 * n2) :
    reindexFromReordered i j m1 n1 m2 n2 = reindexFromMultilevel [i, j] [(m1, n1), (m2, n2)] := by
  have hn1 : 0 < n1 := by
    rcases Nat.eq_zero_or_pos n1 with h | h
    · simp [h] at hi
    · exact h
  have hn2 : 0 < n2 := by
    rcases Nat.eq_zero_or_pos n2 with h | h
    · simp [h] at hj
    · exact h
  have h1 : i / n1 < m1 := by rw [Nat.div_lt_iff_lt_mul hn1]; exact hi
  have h2 : j / n2 < m2 := by rw [Nat.div_lt_iff_lt_mul hn2]; exact hj
  simp [reindexFromReordered, reindexFromMultilevel, fromSeq_pair, toSeq, Nat.mod_eq_of_lt h1,
    Nat.mod_eq_of_lt h2]

end Pyiga.ML
