/-
L-hier: linear independence of the hierarchical basis (Kraft), relative to the classical local
linear independence of B-splines on a cell, which enters as a hypothesis (`Geometry.indep`).
-/
import Pyiga.Proofs.HierCover
import Pyiga.Proofs.HierTP
import Mathlib.Algebra.BigOperators.Group.Finset.Basic
import Mathlib.Algebra.BigOperators.Ring.Finset

namespace Pyiga.Hier
open Finset

/-- What the argument needs from the spline functions themselves: `cellOf ℓ x` is the level-`ℓ` cell
containing the point `x` (nested under dyadic refinement), `val ℓ f x` the value of the level-`ℓ`
tensor-product B-spline `f` at `x`.  `loc`: a B-spline vanishes outside its support cells.
`indep`: on every cell the B-splines that do not vanish there are linearly independent
(classical; not proved here). -/
structure Geometry (kvs : Mesh) (P R : Type) [CommRing R] where
  cellOf : Nat → P → Idx
  val : Nat → Idx → P → R
  cell_valid : ∀ l x, VCtp kvs l (cellOf l x)
  cell_par : ∀ l x, parTp (cellOf (l + 1) x) = cellOf l x
  loc : ∀ l f x, VFtp kvs l f → cellOf l x ∉ (meshAt kvs l).support [f] → val l f x = 0
  indep : ∀ l c (a : Idx → R), VCtp kvs l c →
    (∀ x, cellOf l x = c →
      ∑ f ∈ (Mesh.functions (meshAt kvs l)).toFinset.filter (fun f => c ∈ (meshAt kvs l).support [f]),
        a f * val l f x = 0) →
    ∀ f, VFtp kvs l f → c ∈ (meshAt kvs l).support [f] → a f = 0

variable {kvs : Mesh} {P R : Type} [CommRing R]

theorem Geometry.anc_cellOf (G : Geometry kvs P R) (l : Nat) (x : P) :
    ∀ n, anc parTp n (G.cellOf (l + n) x) = G.cellOf l x
  | 0 => rfl
  | n + 1 => by
    rw [anc_succ', show l + (n + 1) = (l + n) + 1 by omega, G.cell_par, G.anc_cellOf l x n]

/-- the hierarchical spline with coefficients `a` evaluated at `x` -/
def comb (G : Geometry kvs P R) (levels : List Level) (a : Nat → Idx → R) (x : P) : R :=
  ∑ l ∈ range levels.length, ∑ f ∈ (lvl levels l).actfun.toFinset, a l f * G.val l f x

/-- **Kraft**: on a well-formed level list the active functions are linearly independent. -/
theorem indep_of_inv (G : Geometry kvs P R) (levels : List Level)
    (hinv : Inv (tpOps kvs) (VCtp kvs) (VFtp kvs) parTp 0 (VCtp kvs 0) levels)
    (a : Nat → Idx → R) (h0 : ∀ x, comb G levels a x = 0) :
    ∀ l, l < levels.length → ∀ f, f ∈ (lvl levels l).actfun → a l f = 0 := by
  intro l
  induction l using Nat.strong_induction_on with
  | _ l ih =>
    intro hl f0 hf0
    obtain ⟨Ω, hΩ⟩ := inv_levelOK levels hinv l hl
    obtain ⟨hvf0, hcov, hnd⟩ := (hΩ.actfun_iff f0).1 hf0
    -- an active cell in the support of f0
    have hex : ∃ c, c ∈ (meshAt kvs l).support [f0] ∧ c ∈ (lvl levels l).act := by
      apply Classical.byContradiction
      intro hne
      apply hnd
      intro c hc
      rcases hcov c hc with h | h
      · exact absurd ⟨c, hc, h⟩ hne
      · exact h
    obtain ⟨c, hcs, hca⟩ := hex
    have hvc : VCtp kvs l c := inv_valid levels hinv l c (Or.inl hca)
    have key := G.indep l c (fun f => if f ∈ (lvl levels l).actfun then a l f else 0) hvc ?_ f0 hvf0 hcs
    · have key' : (if f0 ∈ (lvl levels l).actfun then a l f0 else 0) = 0 := key
      rw [if_pos hf0] at key'
      exact key'
    · intro x hx
      have hx0 := h0 x
      unfold comb at hx0
      rw [Finset.sum_eq_single l] at hx0
      · -- the level-l part of the combination, rewritten over all functions of the level
        refine Eq.trans ?_ hx0
        have hsub : (lvl levels l).actfun.toFinset
            = (Mesh.functions (meshAt kvs l)).toFinset.filter (fun f => f ∈ (lvl levels l).actfun) := by
          ext f
          simp only [List.mem_toFinset, Finset.mem_filter, mem_functions]
          constructor
          · intro hf; exact ⟨((hΩ.actfun_iff f).1 hf).1, hf⟩
          · intro hf; exact hf.2
        rw [hsub, Finset.sum_filter, Finset.sum_filter]
        apply Finset.sum_congr rfl
        intro f hf
        have hvf : VFtp kvs l f := (mem_functions _ f).1 (List.mem_toFinset.1 hf)
        by_cases hcf : c ∈ (meshAt kvs l).support [f]
        · by_cases hfa : f ∈ (lvl levels l).actfun <;> simp [hcf, hfa]
        · have hz : G.val l f x = 0 := G.loc l f x hvf (by rw [hx]; exact hcf)
          simp [hcf, hz]
      · -- other levels do not contribute at x
        intro k hk hkl
        have hk' : k < levels.length := Finset.mem_range.1 hk
        apply Finset.sum_eq_zero
        intro g hg
        have hg' : g ∈ (lvl levels k).actfun := List.mem_toFinset.1 hg
        rcases Nat.lt_or_gt_of_ne hkl with hlt | hgt
        · rw [ih k hlt hk' g hg', zero_mul]
        · obtain ⟨Ωk, hΩk⟩ := inv_levelOK levels hinv k hk'
          obtain ⟨hvg, hcovg, _⟩ := (hΩk.actfun_iff g).1 hg'
          have hz : G.val k g x = 0 := by
            apply G.loc k g x hvg
            intro hin
            have hΩin : InΩ levels (l + (k - l - 1) + 1) (G.cellOf k x) := by
              rw [show l + (k - l - 1) + 1 = k by omega]; exact hcovg _ hin
            have hde := anc_deact levels hinv (k - l - 1) l _ hΩin
            have hanc := G.anc_cellOf l x (k - l - 1 + 1)
            rw [show l + (k - l - 1 + 1) = k by omega] at hanc
            rw [hanc, hx] at hde
            exact hΩ.disj c hca hde
          rw [hz, mul_zero]
      · intro hl'
        exact absurd (Finset.mem_range.2 hl) hl'

end Pyiga.Hier
