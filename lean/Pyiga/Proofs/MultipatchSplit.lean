/-
Helper lemmas for C14: additivity of a bilinear form over a conforming decomposition.
-/
import Pyiga.Proofs.MultipatchMat

namespace Pyiga.MP
variable {α : Type} [Semiring α] {V : Type} [AddCommMonoid V]

/-- a map that is additive and maps 0 to 0 commutes with list sums -/
theorem map_list_sum (F : V → α) (h0 : F 0 = 0) (hadd : ∀ u w, F (u + w) = F u + F w) (l : List V) :
    F l.sum = (l.map F).sum := by
  induction l with
  | nil => simpa using h0
  | cons a l ih => simp [hadd, ih]

end Pyiga.MP
