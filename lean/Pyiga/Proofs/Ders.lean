/-
The derivative rows `1 ≤ k ≤ p` of the transliterated A2.3 (`bspline_active_deriv_single`):
Piegl-Tiller eq. (2.10) and the invariant of the two-row `a1/a2` buffers.

Part A (mathematics, any field): the derivative recursion `dcoxS` is a product of the difference
operators `delta t q`; peeling the *innermost* operator gives the three-term recursion of the
coefficients `aCoef` (P&T's `a_{k,j}`), hence
  `dcoxS k p i = p!/(p-k)! · Σ_{j≤k} a_{k,j} · N_{i+j,p-k}`      (`dcoxS_eq_sum_a`).
No division is ever cancelled, so repeated knots (zero denominators, `x/0 = 0`) need no hypothesis.

Part B (the code): after pass `k` the current buffer holds `a_{k,j}` in exactly the cells
`max(0,k-r) ≤ j ≤ min(k,p-r)` the next pass reads (`Inv`), and the pass returns
`p!/(p-k)! · Σ_j a_{k,j} N_{i+j,p-k}` — the cells outside the window are never read and the terms
outside it vanish by local support.
-/
import Pyiga.Proofs.BSpline
import Mathlib.Data.Nat.Factorial.Basic
import Mathlib.Algebra.BigOperators.Intervals

namespace Pyiga.BSpline
open Pyiga.Knots

set_option linter.unusedSectionVars false

variable {K : Type} [Field K] [LinearOrder K] [IsStrictOrderedRing K]

/-! ## Part A -/

/-- the difference operator of the derivative recursion at degree `q` -/
def delta (t : ℕ → K) (q : ℕ) (f : ℕ → K) (i : ℕ) : K :=
  f i / (t (i + q) - t i) - f (i + 1) / (t (i + q + 1) - t (i + 1))

/-- `Δ_p ∘ Δ_{p-1} ∘ … ∘ Δ_{p-k+1}` (defined from the outside, like `dcoxS`) -/
def opO (t : ℕ → K) : ℕ → ℕ → (ℕ → K) → ℕ → K
  | 0, _, f => f
  | _ + 1, 0, _ => fun _ => 0
  | k + 1, p + 1, f => delta t (p + 1) (opO t k p f)

theorem dcoxS_eq_opO (t : ℕ → K) (s : ℕ) (u : K) :
    ∀ k p i, k ≤ p →
      dcoxS t s u k p i = (p.descFactorial k : K) * opO t k p (coxS t s u (p - k)) i := by
  intro k
  induction k with
  | zero => intro p i _; simp [dcoxS, opO]
  | succ k ih =>
    intro p i hk
    obtain ⟨p', rfl⟩ : ∃ p', p = p' + 1 := ⟨p - 1, by omega⟩
    have hk' : k ≤ p' := by omega
    simp only [dcoxS, opO, delta, Nat.succ_sub_succ]
    rw [ih p' i hk', ih p' (i + 1) hk', Nat.succ_descFactorial_succ]
    have e : i + (p' + 1) + 1 = i + p' + 2 := by omega
    rw [e]
    push_cast
    ring_nf

/-- peeling the innermost operator -/
theorem opO_peel (t : ℕ → K) : ∀ k p, k + 1 ≤ p → ∀ f, opO t (k + 1) p f = opO t k p (delta t (p - k) f) := by
  intro k
  induction k with
  | zero =>
    intro p hp f
    obtain ⟨p', rfl⟩ : ∃ p', p = p' + 1 := ⟨p - 1, by omega⟩
    simp [opO]
  | succ k ih =>
    intro p hp f
    obtain ⟨p', rfl⟩ : ∃ p', p = p' + 1 := ⟨p - 1, by omega⟩
    have h1 : opO t (k + 1 + 1) (p' + 1) f = delta t (p' + 1) (opO t (k + 1) p' f) := rfl
    have h2 : opO t (k + 1) (p' + 1) (delta t (p' + 1 - (k + 1)) f)
        = delta t (p' + 1) (opO t k p' (delta t (p' + 1 - (k + 1)) f)) := rfl
    rw [h1, h2, ih p' (by omega) f, Nat.succ_sub_succ]

/-- Piegl-Tiller's coefficients `a_{k,j}` of function `i`, degree `p` (eq. (2.10)); uniform in `j`:
`a_{k+1,j} = (a_{k,j} - a_{k,j-1}) / (t_{i+j+p-k} - t_{i+j})` with `a_{k,-1} = a_{k,k+1} = 0` -/
def aCoef (t : ℕ → K) (i p : ℕ) : ℕ → ℕ → K
  | 0, j => if j = 0 then 1 else 0
  | k + 1, j =>
      (aCoef t i p k j - (if j = 0 then 0 else aCoef t i p k (j - 1))) / (t (i + j + (p - k)) - t (i + j))

theorem aCoef_zero_of_gt (t : ℕ → K) (i p : ℕ) : ∀ k j, k < j → aCoef t i p k j = 0 := by
  intro k
  induction k with
  | zero => intro j hj; have : j ≠ 0 := by omega
            simp [aCoef, this]
  | succ k ih =>
    intro j hj
    have h0 : j ≠ 0 := by omega
    simp [aCoef, h0, ih j (by omega), ih (j - 1) (by omega)]

theorem opO_eq_sum (t : ℕ → K) (p : ℕ) : ∀ k, k ≤ p → ∀ (f : ℕ → K) (i : ℕ),
    opO t k p f i = ∑ j ∈ Finset.range (k + 1), aCoef t i p k j * f (i + j) := by
  intro k
  induction k with
  | zero => intro _ f i; simp [opO, aCoef]
  | succ k ih =>
    intro hk f i
    rw [opO_peel t k p hk f, ih (by omega) (delta t (p - k) f) i]
    -- X j = f (i+j) / D j
    have hterm : ∀ j, aCoef t i p k j * delta t (p - k) f (i + j)
        = aCoef t i p k j * (f (i + j) / (t (i + j + (p - k)) - t (i + j)))
          - aCoef t i p k j * (f (i + (j + 1)) / (t (i + (j + 1) + (p - k)) - t (i + (j + 1)))) := by
      intro j
      unfold delta
      have e1 : i + j + (p - k) + 1 = i + (j + 1) + (p - k) := by omega
      have e2 : i + j + 1 = i + (j + 1) := by omega
      rw [e1, e2]; ring
    simp only [hterm]
    rw [Finset.sum_sub_distrib]
    have hR : ∀ j, aCoef t i p (k + 1) j * f (i + j)
        = aCoef t i p k j * (f (i + j) / (t (i + j + (p - k)) - t (i + j)))
          - (if j = 0 then 0 else aCoef t i p k (j - 1)) * (f (i + j) / (t (i + j + (p - k)) - t (i + j))) := by
      intro j; simp only [aCoef]; ring
    simp only [hR]
    rw [Finset.sum_sub_distrib, Finset.sum_range_succ _ (k + 1), aCoef_zero_of_gt t i p k (k + 1) (by omega)]
    rw [Finset.sum_range_succ' (fun j => (if j = 0 then 0 else aCoef t i p k (j - 1))
      * (f (i + j) / (t (i + j + (p - k)) - t (i + j)))) (k + 1)]
    simp

/-- **Piegl-Tiller (2.10)** for the derivative recursion, any knot sequence (repeated knots allowed) -/
theorem dcoxS_eq_sum_a (t : ℕ → K) (s : ℕ) (u : K) (k p i : ℕ) (hk : k ≤ p) :
    dcoxS t s u k p i
      = (p.descFactorial k : K) * ∑ j ∈ Finset.range (k + 1), aCoef t i p k j * coxS t s u (p - k) (i + j) := by
  rw [dcoxS_eq_opO t s u k p i hk, opO_eq_sum t p k hk]


/-! ## Part B -/

/-- what the `j`-loop writes to cell `x` -/
def midV (ndu : ℕ → ℕ → K) (a1 : List K) (pk rk : ℤ) (x : ℕ) : K :=
  (a1.getD x 0 - a1.getD (x - 1) 0) / ndu (pk + 1).toNat (rk + (x : ℤ)).toNat

theorem dersMid_spec (ndu : ℕ → ℕ → K) (a1 : List K) (pk rk : ℤ) :
    ∀ (cnt jn : ℕ) (a2 : List K) (d : K), 1 ≤ jn → jn + cnt ≤ a2.length →
      (dersMid ndu a1 pk rk cnt (jn : ℤ) a2 d).2
        = d + ∑ m ∈ Finset.range cnt, midV ndu a1 pk rk (jn + m) * ndu (rk + ((jn + m : ℕ) : ℤ)).toNat pk.toNat ∧
      (dersMid ndu a1 pk rk cnt (jn : ℤ) a2 d).1.length = a2.length ∧
      ∀ x, (dersMid ndu a1 pk rk cnt (jn : ℤ) a2 d).1.getD x 0
        = if jn ≤ x ∧ x < jn + cnt then midV ndu a1 pk rk x else a2.getD x 0 := by
  intro cnt
  induction cnt with
  | zero =>
    intro jn a2 d _ _
    refine ⟨by simp [dersMid], rfl, fun x => ?_⟩
    have : ¬ (jn ≤ x ∧ x < jn + 0) := by omega
    simp [dersMid, this]
  | succ c ih =>
    intro jn a2 d hj hlen
    have e1 : ((jn : ℤ)).toNat = jn := Int.toNat_natCast jn
    have e2 : ((jn : ℤ) - 1).toNat = jn - 1 := by omega
    have e3 : (jn : ℤ) + 1 = ((jn + 1 : ℕ) : ℤ) := by push_cast; rfl
    have hv : (a1.getD ((jn : ℤ)).toNat 0 - a1.getD ((jn : ℤ) - 1).toNat 0) / ndu (pk + 1).toNat (rk + (jn : ℤ)).toNat
        = midV ndu a1 pk rk jn := by rw [e1, e2]; rfl
    simp only [dersMid]
    rw [hv, e1, e3]
    have := ih (jn + 1) (a2.set jn (midV ndu a1 pk rk jn))
      (d + midV ndu a1 pk rk jn * ndu (rk + (jn : ℤ)).toNat pk.toNat) (by omega) (by simp; omega)
    refine ⟨?_, ?_, ?_⟩
    · rw [this.1, Finset.sum_range_succ']
      have : ∀ m, jn + 1 + m = jn + (m + 1) := by intro m; omega
      simp only [this, Nat.add_zero]
      ring
    · rw [this.2.1]; simp
    · intro x
      rw [this.2.2 x]
      by_cases hx : x = jn
      · subst hx
        have h1 : ¬ (x + 1 ≤ x ∧ x < x + 1 + c) := by omega
        have h2 : x ≤ x ∧ x < x + (c + 1) := by omega
        rw [if_neg h1, if_pos h2, getD_set_self a2 x _ (by omega)]
      · rw [getD_set_ne a2 jn x _ (fun h => hx h.symm)]
        by_cases hw : jn + 1 ≤ x ∧ x < jn + 1 + c
        · have h2 : jn ≤ x ∧ x < jn + (c + 1) := by omega
          rw [if_pos hw, if_pos h2]
        · have h2 : ¬ (jn ≤ x ∧ x < jn + (c + 1)) := by omega
          rw [if_neg hw, if_neg h2]

/-! ### the loop body in natural-number form -/

def stepJ1 (r k : ℕ) : ℕ := if k ≤ r + 1 then 1 else k - r
def stepHi (p r k : ℕ) : ℕ := if r + k ≤ p + 1 then k - 1 else p - r

def step0 (ndu : ℕ → ℕ → K) (p r k : ℕ) (st : DState K) : List K × K :=
  if k ≤ r then
    (st.a2.set 0 (st.a1.getD 0 0 / ndu (p - k + 1) (r - k)),
      st.a1.getD 0 0 / ndu (p - k + 1) (r - k) * ndu (r - k) (p - k))
  else (st.a2, 0)

def step1 (ndu : ℕ → ℕ → K) (p r k : ℕ) (st : DState K) : List K × K :=
  dersMid ndu st.a1 ((p : ℤ) - (k : ℤ)) ((r : ℤ) - (k : ℤ)) (stepHi p r k + 1 - stepJ1 r k)
    ((stepJ1 r k : ℕ) : ℤ) (step0 ndu p r k st).1 (step0 ndu p r k st).2

def step2 (ndu : ℕ → ℕ → K) (p r k : ℕ) (st : DState K) : List K × K :=
  if r + k ≤ p then
    ((step1 ndu p r k st).1.set k (-st.a1.getD (k - 1) 0 / ndu (p - k + 1) r),
      (step1 ndu p r k st).2 + -st.a1.getD (k - 1) 0 / ndu (p - k + 1) r * ndu r (p - k))
  else step1 ndu p r k st

theorem dersStep_nf (ndu : ℕ → ℕ → K) (p r k : ℕ) (st : DState K) (hk : 1 ≤ k) (hkp : k ≤ p) (hr : r ≤ p) :
    dersStep ndu p r k st
      = ({ a1 := (step2 ndu p r k st).1, a2 := st.a1, fac := st.fac * ((p : ℤ) - (k : ℤ)) },
          (step2 ndu p r k st).2 * ((st.fac : ℤ) : K)) := by
  have e1 : ((p : ℤ) - (k : ℤ) + 1).toNat = p - k + 1 := by omega
  have e2 : ((r : ℤ) - (k : ℤ)).toNat = r - k := by omega
  have e3 : ((p : ℤ) - (k : ℤ)).toNat = p - k := by omega
  have hj1 : (if (r : ℤ) - (k : ℤ) ≥ -1 then (1 : ℤ) else -((r : ℤ) - (k : ℤ))) = ((stepJ1 r k : ℕ) : ℤ) := by
    unfold stepJ1; split_ifs <;> omega
  have hcnt : ((if (r : ℤ) - 1 ≤ (p : ℤ) - (k : ℤ) then (k : ℤ) - 1 else (p : ℤ) - (r : ℤ)) + 1
      - ((stepJ1 r k : ℕ) : ℤ)).toNat = stepHi p r k + 1 - stepJ1 r k := by
    unfold stepHi stepJ1; split_ifs <;> omega
  have hc2 : ((r : ℤ) ≤ (p : ℤ) - (k : ℤ)) ↔ r + k ≤ p := by omega
  unfold dersStep
  simp only [e1, e2, e3, hcnt, hj1, hc2, ge_iff_le]
  unfold step2 step1 step0
  split_ifs <;> rfl

theorem sum_window (S : ℕ → K) (k' j1 cnt : ℕ) (h1 : 1 ≤ j1) (h2 : j1 + cnt ≤ k' + 1)
    (hz : ∀ x, 1 ≤ x → x ≤ k' → (x < j1 ∨ j1 + cnt ≤ x) → S x = 0) :
    ∑ m ∈ Finset.range cnt, S (j1 + m) = ∑ j ∈ Finset.range k', S (j + 1) := by
  have hA : ∑ m ∈ Finset.range cnt, S (j1 + m) = ∑ x ∈ Finset.Ico j1 (j1 + cnt), S x := by
    rw [Finset.sum_Ico_eq_sum_range, Nat.add_sub_cancel_left]
  have hB : ∑ j ∈ Finset.range k', S (j + 1) = ∑ x ∈ Finset.Ico 1 (k' + 1), S x := by
    rw [Finset.sum_Ico_eq_sum_range, Nat.add_sub_cancel]
    apply Finset.sum_congr rfl
    intro j _; rw [Nat.add_comm]
  rw [hA, hB]
  apply Finset.sum_subset
  · intro x hx
    rw [Finset.mem_Ico] at hx ⊢
    omega
  · intro x hx hnx
    rw [Finset.mem_Ico] at hx hnx
    exact hz x hx.1 (by omega) (by omega)

/-- the buffer invariant after pass `k` for function `r` (index `i`): lengths, `fac`, and the cells
of the window `max(0,k-r) ≤ j ≤ min(k,p-r)` hold Piegl-Tiller's `a_{k,j}` -/
def Inv (t : ℕ → K) (i p r k : ℕ) (st : DState K) : Prop :=
  st.a1.length = p + 1 ∧ st.a2.length = p + 1 ∧ st.fac = ((p.descFactorial (k + 1) : ℕ) : ℤ) ∧
  ∀ j, k ≤ r + j → j ≤ k → j + r ≤ p → st.a1.getD j 0 = aCoef t i p k j

theorem dersStep_inv (t : ℕ → K) (ndu : ℕ → ℕ → K) (N : ℕ → K) (i p r k' : ℕ) (st : DState K)
    (hkp : k' + 1 ≤ p) (hr : r ≤ p) (hinv : Inv t i p r k' st)
    (hden : ∀ x, k' + 1 ≤ r + x → x + r ≤ p →
      ndu (p - (k' + 1) + 1) (r + x - (k' + 1)) = t (i + x + (p - k')) - t (i + x))
    (hval : ∀ x, k' + 1 ≤ r + x → x + r ≤ p → ndu (r + x - (k' + 1)) (p - (k' + 1)) = N (i + x))
    (hN0 : ∀ x, r + x < k' + 1 → N (i + x) = 0) (hN1 : ∀ x, p < x + r → N (i + x) = 0) :
    Inv t i p r (k' + 1) (dersStep ndu p r (k' + 1) st).1 ∧
    (dersStep ndu p r (k' + 1) st).2
      = (∑ j ∈ Finset.range (k' + 2), aCoef t i p (k' + 1) j * N (i + j)) * ((p.descFactorial (k' + 1) : ℕ) : K) := by
  obtain ⟨hl1, hl2, hfac, hcells⟩ := hinv
  rw [dersStep_nf ndu p r (k' + 1) st (by omega) hkp hr]
  -- abbreviations
  have hj1pos : 1 ≤ stepJ1 r (k' + 1) := by unfold stepJ1; split_ifs <;> omega
  have hwin : stepJ1 r (k' + 1) + (stepHi p r (k' + 1) + 1 - stepJ1 r (k' + 1)) ≤ k' + 1 := by
    unfold stepJ1 stepHi; split_ifs <;> omega
  have hl0 : (step0 ndu p r (k' + 1) st).1.length = p + 1 := by
    unfold step0; split_ifs <;> simp [hl2]
  have hsp := dersMid_spec ndu st.a1 ((p : ℤ) - ((k' + 1 : ℕ) : ℤ)) ((r : ℤ) - ((k' + 1 : ℕ) : ℤ))
    (stepHi p r (k' + 1) + 1 - stepJ1 r (k' + 1)) (stepJ1 r (k' + 1))
    (step0 ndu p r (k' + 1) st).1 (step0 ndu p r (k' + 1) st).2 hj1pos (by rw [hl0]; omega)
  -- what the middle loop writes, inside the window
  have hmid : ∀ x, k' + 1 ≤ r + x → 1 ≤ x → x ≤ k' → x + r ≤ p →
      midV ndu st.a1 ((p : ℤ) - ((k' + 1 : ℕ) : ℤ)) ((r : ℤ) - ((k' + 1 : ℕ) : ℤ)) x = aCoef t i p (k' + 1) x := by
    intro x h1 h2 h3 h4
    unfold midV
    have e1 : ((p : ℤ) - ((k' + 1 : ℕ) : ℤ) + 1).toNat = p - (k' + 1) + 1 := by omega
    have e2 : ((r : ℤ) - ((k' + 1 : ℕ) : ℤ) + (x : ℤ)).toNat = r + x - (k' + 1) := by omega
    rw [e1, e2, hden x h1 h4, hcells x (by omega) h3 h4, hcells (x - 1) (by omega) (by omega) (by omega)]
    have hx0 : x ≠ 0 := by omega
    simp only [aCoef, hx0, if_false]
  have hmidval : ∀ x, k' + 1 ≤ r + x → x + r ≤ p →
      ndu ((r : ℤ) - ((k' + 1 : ℕ) : ℤ) + ((x : ℕ) : ℤ)).toNat ((p : ℤ) - ((k' + 1 : ℕ) : ℤ)).toNat = N (i + x) := by
    intro x h1 h4
    have e2 : ((r : ℤ) - ((k' + 1 : ℕ) : ℤ) + (x : ℤ)).toNat = r + x - (k' + 1) := by omega
    have e3 : ((p : ℤ) - ((k' + 1 : ℕ) : ℤ)).toNat = p - (k' + 1) := by omega
    rw [e2, e3, hval x h1 h4]
  -- the three contributions
  have hd0 : (step0 ndu p r (k' + 1) st).2 = aCoef t i p (k' + 1) 0 * N (i + 0) := by
    unfold step0
    by_cases hc : k' + 1 ≤ r
    · rw [if_pos hc]
      have hd := hden 0 (by omega) (by omega)
      have hv := hval 0 (by omega) (by omega)
      simp only [Nat.add_zero] at hd hv
      rw [hd, hv, hcells 0 (by omega) (by omega) (by omega)]
      simp [aCoef]
    · rw [if_neg hc, hN0 0 (by omega)]; simp
  have hsum1 : (step1 ndu p r (k' + 1) st).2
      = aCoef t i p (k' + 1) 0 * N (i + 0) + ∑ j ∈ Finset.range k', aCoef t i p (k' + 1) (j + 1) * N (i + (j + 1)) := by
    unfold step1
    rw [hsp.1, hd0]
    congr 1
    rw [← sum_window (fun x => aCoef t i p (k' + 1) x * N (i + x)) k' (stepJ1 r (k' + 1))
      (stepHi p r (k' + 1) + 1 - stepJ1 r (k' + 1)) hj1pos hwin]
    · apply Finset.sum_congr rfl
      intro m hm
      have hm' := Finset.mem_range.mp hm
      have hx : k' + 1 ≤ r + (stepJ1 r (k' + 1) + m) ∧ stepJ1 r (k' + 1) + m ≤ k' ∧ stepJ1 r (k' + 1) + m + r ≤ p := by
        revert hm'; unfold stepJ1 stepHi; split_ifs <;> omega
      rw [hmid _ hx.1 (by omega) hx.2.1 hx.2.2, hmidval _ hx.1 hx.2.2]
    · intro x hx1 hx2 hout
      have : r + x < k' + 1 ∨ p < x + r := by
        revert hout; unfold stepJ1 stepHi; split_ifs <;> omega
      rcases this with h | h
      · rw [hN0 x h]; simp
      · rw [hN1 x h]; simp
  have hlen1 : (step1 ndu p r (k' + 1) st).1.length = p + 1 := by
    unfold step1; rw [hsp.2.1, hl0]
  have hcell1 : ∀ x, x ≤ k' → k' + 1 ≤ r + x → x + r ≤ p →
      (step1 ndu p r (k' + 1) st).1.getD x 0 = aCoef t i p (k' + 1) x := by
    intro x h3 h1 h4
    unfold step1
    rw [hsp.2.2 x]
    by_cases hx0 : x = 0
    · subst hx0
      have hno : ¬ (stepJ1 r (k' + 1) ≤ 0 ∧ 0 < stepJ1 r (k' + 1) + (stepHi p r (k' + 1) + 1 - stepJ1 r (k' + 1))) := by omega
      rw [if_neg hno]
      unfold step0
      have hc : k' + 1 ≤ r := by omega
      rw [if_pos hc, getD_set_self _ _ _ (by omega)]
      have hd := hden 0 (by omega) (by omega)
      simp only [Nat.add_zero] at hd
      rw [hd, hcells 0 (by omega) (by omega) (by omega)]
      simp [aCoef]
    · have hin : stepJ1 r (k' + 1) ≤ x ∧ x < stepJ1 r (k' + 1) + (stepHi p r (k' + 1) + 1 - stepJ1 r (k' + 1)) := by
        unfold stepJ1 stepHi; split_ifs <;> omega
      rw [if_pos hin, hmid x h1 (by omega) h3 h4]
  refine ⟨⟨?_, hl1, ?_, ?_⟩, ?_⟩
  · -- length of the new current row
    show (step2 ndu p r (k' + 1) st).1.length = p + 1
    unfold step2; split_ifs <;> simp [hlen1]
  · -- fac
    show st.fac * ((p : ℤ) - ((k' + 1 : ℕ) : ℤ)) = ((p.descFactorial (k' + 1 + 1) : ℕ) : ℤ)
    rw [hfac, Nat.descFactorial_succ p (k' + 1)]
    push_cast [Nat.cast_sub hkp]
    ring
  · -- cells of the window of pass k'+1
    intro j h1 h2 h4
    show (step2 ndu p r (k' + 1) st).1.getD j 0 = aCoef t i p (k' + 1) j
    unfold step2
    by_cases hjk : j = k' + 1
    · subst hjk
      have hc2 : r + (k' + 1) ≤ p := by omega
      rw [if_pos hc2, getD_set_self _ _ _ (by rw [hlen1]; omega)]
      have hd := hden (k' + 1) (by omega) (by omega)
      have e : r + (k' + 1) - (k' + 1) = r := by omega
      rw [e] at hd
      rw [hd, Nat.add_sub_cancel, hcells k' (by omega) (by omega) (by omega)]
      simp [aCoef, aCoef_zero_of_gt t i p k' (k' + 1) (by omega)]
    · have hjle : j ≤ k' := by omega
      by_cases hc2 : r + (k' + 1) ≤ p
      · rw [if_pos hc2, getD_set_ne _ _ _ _ (fun h => hjk h.symm)]
        exact hcell1 j hjle h1 h4
      · rw [if_neg hc2]
        exact hcell1 j hjle h1 h4
  · -- the value of the pass
    show (step2 ndu p r (k' + 1) st).2 * ((st.fac : ℤ) : K) = _
    rw [hfac, Int.cast_natCast]
    congr 1
    rw [Finset.sum_range_succ _ (k' + 1), Finset.sum_range_succ' _ k']
    unfold step2
    by_cases hc2 : r + (k' + 1) ≤ p
    · rw [if_pos hc2]
      show (step1 ndu p r (k' + 1) st).2 + _ = _
      rw [hsum1]
      have hd := hden (k' + 1) (by omega) (by omega)
      have hv := hval (k' + 1) (by omega) (by omega)
      have e : r + (k' + 1) - (k' + 1) = r := by omega
      rw [e] at hd hv
      rw [hd, hv, Nat.add_sub_cancel, hcells k' (by omega) (by omega) (by omega)]
      simp only [aCoef, aCoef_zero_of_gt t i p k' (k' + 1) (by omega)]
      simp
      ring
    · rw [if_neg hc2, hsum1, hN1 (k' + 1) (by omega)]
      ring


/-! ### from the loop body to the `k`-loop and the `r`-loop -/

/-- the value pass `k` must return: `p!/(p-k)! · Σ_{j≤k} a_{k,j} N_{i+j,p-k}` -/
def rowVal (t : ℕ → K) (s : ℕ) (u : K) (i p k : ℕ) : K :=
  (∑ j ∈ Finset.range (k + 1), aCoef t i p k j * coxS t s u (p - k) (i + j)) * ((p.descFactorial k : ℕ) : K)

theorem rowVal_eq_dcoxS (t : ℕ → K) (s : ℕ) (u : K) (i p k : ℕ) (hk : k ≤ p) :
    rowVal t s u i p k = dcoxS t s u k p i := by
  rw [dcoxS_eq_sum_a t s u k p i hk, rowVal, mul_comm]

theorem dersK_rows (t : ℕ → K) (ndu : ℕ → ℕ → K) (s : ℕ) (u : K) (i p r : ℕ) (hr : r ≤ p) (hi : i + p = s + r)
    (hden : ∀ k' x, k' + 1 ≤ p → k' + 1 ≤ r + x → x + r ≤ p →
      ndu (p - (k' + 1) + 1) (r + x - (k' + 1)) = t (i + x + (p - k')) - t (i + x))
    (hval : ∀ k' x, k' + 1 ≤ p → k' + 1 ≤ r + x → x + r ≤ p →
      ndu (r + x - (k' + 1)) (p - (k' + 1)) = coxS t s u (p - (k' + 1)) (i + x)) :
    ∀ (cnt k' : ℕ) (st : DState K), Inv t i p r k' st → ∀ m, m < cnt → k' + 1 + m ≤ p →
      ((dersK ndu p r cnt (k' + 1) st).2).getD m 0 = rowVal t s u i p (k' + 1 + m) := by
  intro cnt
  induction cnt with
  | zero => intro k' st _ m hm; omega
  | succ c ih =>
    intro k' st hinv m hm hkm
    have hstep := dersStep_inv t ndu (coxS t s u (p - (k' + 1))) i p r k' st (by omega) hr hinv
      (fun x h1 h2 => hden k' x (by omega) h1 h2) (fun x h1 h2 => hval k' x (by omega) h1 h2)
      (fun x h => coxS_support t s u _ _ (Or.inr (by omega)))
      (fun x h => coxS_support t s u _ _ (Or.inl (by omega)))
    rcases hs : dersStep ndu p r (k' + 1) st with ⟨st1, v⟩
    rcases hk : dersK ndu p r c (k' + 1 + 1) st1 with ⟨st2, vs⟩
    rw [hs] at hstep
    cases m with
    | zero =>
      simp only [dersK, hs, hk, List.getD_cons_zero, Nat.add_zero]
      exact hstep.2
    | succ m =>
      have := ih (k' + 1) st1 hstep.1 m (by omega) (by omega)
      rw [hk] at this
      simp only [dersK, hs, hk, List.getD_cons_succ]
      rw [this]
      congr 1; omega

/-- `dersR_get` with the buffer lengths -/
theorem dersR_get_len (ndu : ℕ → ℕ → K) (p nd L : ℕ) (hL : 0 < L) :
    ∀ (cnt r : ℕ) (a1 a2 : List K) (m : ℕ), a1.length = L → a2.length = L → m < cnt →
      ∃ st : DState K, st.a1.getD 0 0 = 1 ∧ st.fac = (p : ℤ) ∧ st.a1.length = L ∧ st.a2.length = L ∧
        (dersR ndu p nd cnt r a1 a2).getD m [] = (dersK ndu p (r + m) nd 1 st).2 := by
  intro cnt
  induction cnt with
  | zero => intro r a1 a2 m _ _ hm; omega
  | succ c ih =>
    intro r a1 a2 m h1 h2 hm
    have hlen := dersK_length ndu p r L nd 1 { a1 := a1.set 0 1, a2 := a2, fac := p } (by simp [h1]) h2
    rcases hk : dersK ndu p r nd 1 { a1 := a1.set 0 1, a2 := a2, fac := p } with ⟨st, vs⟩
    rw [hk] at hlen
    cases m with
    | zero =>
      refine ⟨{ a1 := a1.set 0 1, a2 := a2, fac := p }, ?_, rfl, by simp [h1], h2, ?_⟩
      · have : 0 < a1.length := by omega
        simp [List.getD_eq_getElem?_getD, this]
      · simp [dersR, hk]
    | succ m =>
      obtain ⟨st', ha, hf, hl1, hl2, hget⟩ := ih (r + 1) st.a1 st.a2 m hlen.1 hlen.2 (by omega)
      refine ⟨st', ha, hf, hl1, hl2, ?_⟩
      simp only [dersR, hk, List.getD_cons_succ]
      rw [hget]
      congr 2; omega

/-- the table entries the derivative passes read, for function `r` (index `i = s-p+r`) -/
theorem ndu_window_den (t : ℕ → K) (s p : ℕ) (u : K) (r : ℕ) (hps : p ≤ s) (hr : r ≤ p) :
    ∀ k' x, k' + 1 ≤ p → k' + 1 ≤ r + x → x + r ≤ p →
      nduAt (nduTable (leftK t s u) (rightK t s u) p).reverse.toArray (leftK t s u) (rightK t s u)
          (p - (k' + 1) + 1) (r + x - (k' + 1))
        = t (s - p + r + x + (p - k')) - t (s - p + r + x) := by
  intro k' x h1 h2 h3
  rw [nduAt_lower _ _ _ _ _ (by omega), ndu_den]
  have e1 : s + (r + x - (k' + 1)) + 1 = s - p + r + x + (p - k') := by omega
  have e2 : s - (p - (k' + 1) + 1 - (r + x - (k' + 1)) - 1) = s - p + r + x := by omega
  rw [e1, e2]

theorem ndu_window_val (t : ℕ → K) (s p : ℕ) (u : K) (r : ℕ) (hps : p ≤ s) (hr : r ≤ p) :
    ∀ k' x, k' + 1 ≤ p → k' + 1 ≤ r + x → x + r ≤ p →
      nduAt (nduTable (leftK t s u) (rightK t s u) p).reverse.toArray (leftK t s u) (rightK t s u)
          (r + x - (k' + 1)) (p - (k' + 1))
        = coxS t s u (p - (k' + 1)) (s - p + r + x) := by
  intro k' x h1 h2 h3
  rw [nduAt_upper _ _ p _ _ (by omega) (by omega), nduCol_eq t s u _ (by omega), getD_map_range _ _ _ (by omega)]
  congr 1; omega

/-- **rows `1 ≤ k ≤ p` of the `r`-loop output**: entry `k-1` of the list produced for function `r`
is the `k`-th derivative (derivative recursion) of `N_{s-p+r,p}` -/
theorem dersR_entry_eq_dcoxS (t : ℕ → K) (s p : ℕ) (u : K) (nd r k'' : ℕ) (hps : p ≤ s) (hr : r ≤ p)
    (hk : k'' + 1 ≤ p) (hnd : k'' < nd) :
    ((dersR (nduAt (nduTable (leftK t s u) (rightK t s u) p).reverse.toArray (leftK t s u) (rightK t s u))
        p nd (p + 1) 0 (List.replicate (p + 1) 0) (List.replicate (p + 1) 0)).getD r []).getD k'' 0
      = dcoxS t s u (k'' + 1) p (s - p + r) := by
  obtain ⟨st, ha, hf, hl1, hl2, hget⟩ := dersR_get_len
    (nduAt (nduTable (leftK t s u) (rightK t s u) p).reverse.toArray (leftK t s u) (rightK t s u))
    p nd (p + 1) (Nat.succ_pos p) (p + 1) 0 (List.replicate (p + 1) 0) (List.replicate (p + 1) 0) r
    (by simp) (by simp) (by omega)
  rw [hget]
  have e : 0 + r = r := by omega
  rw [e]
  have hinv : Inv t (s - p + r) p r 0 st := by
    refine ⟨hl1, hl2, by rw [hf]; simp, ?_⟩
    intro j _ hj _
    have : j = 0 := by omega
    subst this
    rw [ha]; simp [aCoef]
  have := dersK_rows t _ s u (s - p + r) p r hr (by omega)
    (ndu_window_den t s p u r hps hr) (ndu_window_val t s p u r hps hr) nd 0 st hinv k'' hnd (by omega)
  rw [this, rowVal_eq_dcoxS t s u _ p _ (by omega)]
  congr 1; omega

end Pyiga.BSpline
