/-
C08 `format_layout`: `blocked = Π · packed · Πᵀ` with the explicit permutation
`Π(I·nc + c) = c·N + I` (component level moved to the front by `X.reorder((dim,0,…,dim-1))`).
-/
import Pyiga.Model.Assembler
import Pyiga.Proofs.Index
import Mathlib.Data.List.Perm.Basic
import Mathlib.Tactic.Linarith

namespace Pyiga.Asm
open Pyiga.Index Pyiga.ML

theorem toSeq_snoc (I dims : List Nat) (c nc : Nat) (h : I.length = dims.length) :
    toSeq (I ++ [c]) (dims ++ [nc]) = toSeq I dims * nc + c := by
  induction I generalizing dims with
  | nil =>
    cases dims with
    | nil => simp [toSeq]
    | cons _ _ => simp at h
  | cons i I ih =>
    cases dims with
    | nil => simp at h
    | cons m ms =>
      have hl : I.length = ms.length := by simpa using h
      rw [List.cons_append, List.cons_append, toSeq_cons i m _ _ (by simp [hl]), ih ms hl,
        toSeq_cons i m I ms hl, prod_append]
      simp only [prod_cons, prod_nil, Nat.mul_one]
      rw [Nat.add_mul, Nat.mul_assoc, Nat.add_assoc]

theorem packedToBlocked_spec (N nc I c : Nat) (hc : c < nc) :
    packedToBlocked N nc (I * nc + c) = c * N + I := by
  unfold packedToBlocked
  have hnc : 0 < nc := by omega
  rw [Nat.mul_comm I nc, Nat.mul_add_mod, Nat.mod_eq_of_lt hc, Nat.mul_add_div hnc, Nat.div_eq_of_lt hc, Nat.add_zero]

theorem packedToBlocked_lt (N nc r : Nat) (hr : r < N * nc) : packedToBlocked N nc r < N * nc := by
  unfold packedToBlocked
  have hnc : 0 < nc := by
    rcases Nat.eq_zero_or_pos nc with h | h
    · subst h; simp at hr
    · exact h
  have h1 : r % nc < nc := Nat.mod_lt _ hnc
  have h2 : r / nc < N := by rw [Nat.div_lt_iff_lt_mul hnc]; exact hr
  calc r % nc * N + r / nc < r % nc * N + N := by omega
    _ = (r % nc + 1) * N := by rw [Nat.add_mul, Nat.one_mul]
    _ ≤ nc * N := Nat.mul_le_mul_right _ h1
    _ = N * nc := Nat.mul_comm _ _

theorem packedToBlocked_inj (N nc r r' : Nat) (hr : r < N * nc) (hr' : r' < N * nc)
    (h : packedToBlocked N nc r = packedToBlocked N nc r') : r = r' := by
  unfold packedToBlocked at h
  have hnc : 0 < nc := by
    rcases Nat.eq_zero_or_pos nc with h0 | h0
    · subst h0; simp at hr
    · exact h0
  have h2 : r / nc < N := by rw [Nat.div_lt_iff_lt_mul hnc]; exact hr
  have h2' : r' / nc < N := by rw [Nat.div_lt_iff_lt_mul hnc]; exact hr'
  have hN : 0 < N := Nat.lt_of_le_of_lt (Nat.zero_le _) h2
  -- a*N + b with b < N determines a and b
  have e1 : (r % nc * N + r / nc) / N = r % nc := by
    rw [Nat.mul_comm, Nat.mul_add_div hN, Nat.div_eq_of_lt h2, Nat.add_zero]
  have e1' : (r' % nc * N + r' / nc) / N = r' % nc := by
    rw [Nat.mul_comm, Nat.mul_add_div hN, Nat.div_eq_of_lt h2', Nat.add_zero]
  have e2 : (r % nc * N + r / nc) % N = r / nc := by
    rw [Nat.mul_comm, Nat.mul_add_mod, Nat.mod_eq_of_lt h2]
  have e2' : (r' % nc * N + r' / nc) % N = r' / nc := by
    rw [Nat.mul_comm, Nat.mul_add_mod, Nat.mod_eq_of_lt h2']
  have hm : r % nc = r' % nc := by rw [← e1, ← e1', h]
  have hd : r / nc = r' / nc := by rw [← e2, ← e2', h]
  rw [← Nat.div_add_mod r nc, ← Nat.div_add_mod r' nc, hm, hd]

theorem entryAt_blocked_packed (bs : List (Nat × Nat)) (bidx : List Pattern) (nc1 nc0 : Nat) (pc : Pattern)
    (μ : List Nat) (m : Nat) (hμ : μ.length = bidx.length) (hbs : bs.length = bidx.length)
    (hr : (pc.getD m (0, 0)).1 < nc1) (hc : (pc.getD m (0, 0)).2 < nc0) :
    let Sp : MLStructure := { bs := bs ++ [(nc1, nc0)], bidx := bidx ++ [pc] }
    let Sb : MLStructure := { bs := (nc1, nc0) :: bs, bidx := pc :: bidx }
    Sb.entryAt (m :: μ) =
      (packedToBlocked (prod (bs.map (·.1))) nc1 (Sp.entryAt (μ ++ [m])).1,
       packedToBlocked (prod (bs.map (·.2))) nc0 (Sp.entryAt (μ ++ [m])).2) := by
  intro Sp Sb
  set ij := List.zipWith (fun (pat : Pattern) (k : Nat) => pat.getD k (0, 0)) bidx μ with hij
  have hlen : ij.length = bs.length := by simp [hij, hμ, hbs]
  have hp : Sp.entryAt (μ ++ [m]) =
      (toSeq (ij.map (·.1)) (bs.map (·.1)) * nc1 + (pc.getD m (0, 0)).1,
       toSeq (ij.map (·.2)) (bs.map (·.2)) * nc0 + (pc.getD m (0, 0)).2) := by
    simp only [MLStructure.entryAt, MLStructure.rows, MLStructure.cols, Sp]
    rw [List.zipWith_append (by omega)]
    simp only [List.zipWith_cons_cons, List.zipWith_nil_right, List.map_append, List.map_cons, List.map_nil]
    rw [← hij, toSeq_snoc _ _ _ _ (by simp [hlen]), toSeq_snoc _ _ _ _ (by simp [hlen])]
  have hb : Sb.entryAt (m :: μ) =
      ((pc.getD m (0, 0)).1 * prod (bs.map (·.1)) + toSeq (ij.map (·.1)) (bs.map (·.1)),
       (pc.getD m (0, 0)).2 * prod (bs.map (·.2)) + toSeq (ij.map (·.2)) (bs.map (·.2))) := by
    simp only [MLStructure.entryAt, MLStructure.rows, MLStructure.cols, Sb, List.zipWith_cons_cons, List.map_cons]
    rw [← hij, toSeq_cons _ _ _ _ (by simp [hlen]), toSeq_cons _ _ _ _ (by simp [hlen])]
  rw [hp, hb, packedToBlocked_spec _ _ _ _ hr, packedToBlocked_spec _ _ _ _ hc]

/-- NOT PROVED (kept as a statement): the loop nests of the two data tensors enumerate the same
positions up to the rotation `μ ++ [m] ↦ m :: μ` (`np.transpose(data, (dim, 0, …, dim-1))`).
Together with `entryAt_blocked_packed` this would lift the per-datum statement to equality of the
two finite maps; the per-datum statement is what `Props.C08.format_layout_entry` claims. -/
def loopNest_rotate_stmt : Prop :=
  ∀ (NN : List Nat) (nc : Nat),
    (loopNest (nc :: NN)).Perm ((loopNest (NN ++ [nc])).map (fun ν => ν.getLastD 0 :: ν.dropLast))

end Pyiga.Asm
