/-
Helper for C07 (`arcs_on_circle`): on a span of a degree-2 knot vector whose two end knots are
both double (`… a a | b b …`, the knot vectors `make_knots(2, 0, 1, n, mult=2)` of
`circular_arc_5pt/7pt`, and the open knot vector of `circular_arc_3pt`), the three active
Cox–de Boor functions are the Bernstein polynomials of the span.
-/
import Mathlib.Tactic.Ring
import Mathlib.Tactic.FieldSimp
import Mathlib.Tactic.LinearCombination
import Mathlib.Algebra.Field.Basic

namespace Pyiga.Geo
variable {K : Type} [Field K]

/-- Cox–de Boor recursion evaluated on knot span `k` (`N_{i,0} = [i = k]`, i.e. for
`u ∈ [t k, t (k+1))`); a vanishing denominator contributes `0` (division by zero is `0` in a
field, the usual `0/0 := 0` convention). -/
def cox (t : Nat → K) (k : Nat) : Nat → Nat → K → K
  | 0, i, _ => if i = k then 1 else 0
  | p + 1, i, u =>
      (u - t i) / (t (i + p + 1) - t i) * cox t k p i u
        + (t (i + p + 2) - u) / (t (i + p + 2) - t (i + 1)) * cox t k p (i + 1) u

/-- Bernstein values on a double-knot span: with `t(m+1) = t(m+2) = a`, `t(m+3) = t(m+4) = b`,
span `k = m+2`. -/
theorem cox_double_knot_span (t : Nat → K) (m : Nat) (a b u : K)
    (h1 : t (m + 1) = a) (h2 : t (m + 2) = a) (h3 : t (m + 3) = b) (h4 : t (m + 4) = b) (hab : b - a ≠ 0) :
    cox t (m + 2) 2 m u = ((b - u) / (b - a)) ^ 2 ∧
    cox t (m + 2) 2 (m + 1) u = 2 * ((u - a) / (b - a)) * ((b - u) / (b - a)) ∧
    cox t (m + 2) 2 (m + 2) u = ((u - a) / (b - a)) ^ 2 := by
  refine ⟨?_, ?_, ?_⟩
  · simp only [cox, h1, h2, h3, Nat.add_assoc, Nat.reduceAdd]
    simp
    field_simp
  · simp only [cox, h1, h2, h3, h4, Nat.add_assoc, Nat.reduceAdd]
    simp
    field_simp
    ring
  · simp only [cox, h2, h3, h4, Nat.add_assoc, Nat.reduceAdd]
    simp
    field_simp

/-- … hence they satisfy the relation used by `arc_segment_on_circle` -/
theorem cox_double_knot_relation (t : Nat → K) (m : Nat) (a b u : K)
    (h1 : t (m + 1) = a) (h2 : t (m + 2) = a) (h3 : t (m + 3) = b) (h4 : t (m + 4) = b) (hab : b - a ≠ 0) :
    (cox t (m + 2) 2 (m + 1) u) ^ 2 = 4 * cox t (m + 2) 2 m u * cox t (m + 2) 2 (m + 2) u := by
  obtain ⟨e0, e1, e2⟩ := cox_double_knot_span t m a b u h1 h2 h3 h4 hab
  rw [e0, e1, e2]; ring

/-- and they sum to one (partition of unity on the span) -/
theorem cox_double_knot_pu (t : Nat → K) (m : Nat) (a b u : K)
    (h1 : t (m + 1) = a) (h2 : t (m + 2) = a) (h3 : t (m + 3) = b) (h4 : t (m + 4) = b) (hab : b - a ≠ 0) :
    cox t (m + 2) 2 m u + cox t (m + 2) 2 (m + 1) u + cox t (m + 2) 2 (m + 2) u = 1 := by
  obtain ⟨e0, e1, e2⟩ := cox_double_knot_span t m a b u h1 h2 h3 h4 hab
  rw [e0, e1, e2]; field_simp; ring

end Pyiga.Geo
