/-
Helper lemmas for L-ten (C18): finite sums, index boxes, `Full.ofFn`, multilinearity of the
mode product `nwayEntry`.
-/
import Pyiga.Model.Tensor
import Mathlib.Tactic.Ring
import Mathlib.Tactic.Linarith

namespace Pyiga.Tensor
open Pyiga.Index

section Sums
variable {α : Type} [CommRing α]

@[simp] theorem sumL_nil : sumL ([] : List α) = 0 := rfl
@[simp] theorem sumL_cons (a : α) (l : List α) : sumL (a :: l) = a + sumL l := rfl
@[simp] theorem prodL_nil : prodL ([] : List α) = 1 := rfl
@[simp] theorem prodL_cons (a : α) (l : List α) : prodL (a :: l) = a * prodL l := rfl

theorem sumL_append (a b : List α) : sumL (a ++ b) = sumL a + sumL b := by
  induction a with
  | nil => simp
  | cons x xs ih => simp [ih, add_assoc]

theorem sumL_map_add {β : Type} (l : List β) (f g : β → α) :
    sumL (l.map (fun x => f x + g x)) = sumL (l.map f) + sumL (l.map g) := by
  induction l with
  | nil => simp
  | cons x xs ih => simp [ih]; ring

theorem sumL_map_mul_left {β : Type} (l : List β) (c : α) (f : β → α) :
    sumL (l.map (fun x => c * f x)) = c * sumL (l.map f) := by
  induction l with
  | nil => simp
  | cons x xs ih => simp [ih]; ring

theorem sumL_map_neg {β : Type} (l : List β) (f : β → α) :
    sumL (l.map (fun x => - f x)) = - sumL (l.map f) := by
  induction l with
  | nil => simp
  | cons x xs ih => simp [ih]; ring

theorem sumL_map_zero {β : Type} (l : List β) : sumL (l.map (fun _ => (0 : α))) = 0 := by
  induction l with
  | nil => simp
  | cons x xs ih => simp [ih]

theorem sumL_map_congr {β : Type} (l : List β) (f g : β → α) (h : ∀ x ∈ l, f x = g x) :
    sumL (l.map f) = sumL (l.map g) := by
  induction l with
  | nil => rfl
  | cons x xs ih =>
    simp only [List.map_cons, sumL_cons]
    rw [h x (by simp), ih (fun y hy => h y (by simp [hy]))]

theorem sumN_congr (n : Nat) (f g : Nat → α) (h : ∀ i, i < n → f i = g i) : sumN n f = sumN n g :=
  sumL_map_congr _ f g (fun x hx => h x (List.mem_range.1 hx))

@[simp] theorem sumN_zero (f : Nat → α) : sumN 0 f = 0 := rfl

theorem sumN_succ (n : Nat) (f : Nat → α) : sumN (n + 1) f = sumN n f + f n := by
  unfold sumN; rw [List.range_succ, List.map_append, sumL_append]; simp

theorem sumN_succ' (n : Nat) (f : Nat → α) : sumN (n + 1) f = f 0 + sumN n (fun i => f (i + 1)) := by
  induction n with
  | zero => simp [sumN_succ]
  | succ n ih => rw [sumN_succ, ih, sumN_succ]; ring

theorem sumN_add_fn (n : Nat) (f g : Nat → α) : sumN n (fun i => f i + g i) = sumN n f + sumN n g :=
  sumL_map_add _ f g

theorem sumN_mul_left (n : Nat) (c : α) (f : Nat → α) : sumN n (fun i => c * f i) = c * sumN n f :=
  sumL_map_mul_left _ c f

theorem sumN_neg (n : Nat) (f : Nat → α) : sumN n (fun i => - f i) = - sumN n f := sumL_map_neg _ f

theorem sumN_const_zero (n : Nat) : sumN n (fun _ => (0 : α)) = 0 := sumL_map_zero _

theorem sumN_eq_zero (n : Nat) (f : Nat → α) (h : ∀ i, i < n → f i = 0) : sumN n f = 0 := by
  rw [sumN_congr n f (fun _ => 0) h, sumN_const_zero]

/-- split a sum over `m + n` terms -/
theorem sumN_add (m n : Nat) (f : Nat → α) : sumN (m + n) f = sumN m f + sumN n (fun j => f (m + j)) := by
  induction n with
  | zero => simp
  | succ n ih => rw [← Nat.add_assoc, sumN_succ, ih, sumN_succ]; ring

theorem sumN_comm (m n : Nat) (f : Nat → Nat → α) :
    sumN m (fun i => sumN n (fun j => f i j)) = sumN n (fun j => sumN m (fun i => f i j)) := by
  induction m with
  | zero => simp [sumN_const_zero]
  | succ m ih => rw [sumN_succ, ih, ← sumN_add_fn]; exact sumN_congr _ _ _ (fun j _ => by rw [sumN_succ])

/-- a Kronecker delta selects one term -/
theorem sumN_ite_eq (n k : Nat) (hk : k < n) (f : Nat → α) :
    sumN n (fun i => if i = k then f i else 0) = f k := by
  induction n with
  | zero => omega
  | succ n ih =>
    rw [sumN_succ]
    by_cases h : k = n
    · subst h
      rw [sumN_eq_zero _ _ (fun i hi => by simp [Nat.ne_of_lt hi])]; simp
    · rw [ih (by omega)]; simp [Ne.symm h]

theorem sumN_ite_lt (n k : Nat) (hk : n ≤ k) (f : Nat → α) :
    sumN n (fun i => if i = k then f i else 0) = 0 :=
  sumN_eq_zero _ _ (fun i hi => by simp; omega)

theorem sumN_mul_right (n : Nat) (c : α) (f : Nat → α) : sumN n (fun i => f i * c) = sumN n f * c := by
  rw [mul_comm, ← sumN_mul_left]; exact sumN_congr _ _ _ (fun i _ => mul_comm _ _)

theorem sumN_sub_fn (n : Nat) (f g : Nat → α) : sumN n (fun i => f i - g i) = sumN n f - sumN n g := by
  have : (fun i => f i - g i) = (fun i => f i + (- g i)) := by funext i; ring
  rw [this, sumN_add_fn, sumN_neg]; ring
end Sums

/-! ### boxes -/

theorem inBox_length : ∀ {I s : List Nat}, inBox I s = true → I.length = s.length
  | [], [], _ => rfl
  | _ :: I, _ :: s, h => by
    simp only [inBox, Bool.and_eq_true] at h
    simp [inBox_length h.2]
  | [], _ :: _, h => by simp [inBox] at h
  | _ :: _, [], h => by simp [inBox] at h

@[simp] theorem inBox_cons (i n : Nat) (I s : List Nat) :
    inBox (i :: I) (n :: s) = true ↔ i < n ∧ inBox I s = true := by simp [inBox]

@[simp] theorem inBox_nil : inBox [] [] = true := rfl

theorem inBox_append : ∀ (I s J t : List Nat), inBox I s = true → inBox J t = true → inBox (I ++ J) (s ++ t) = true
  | [], [], J, t, _, h => h
  | i :: I, n :: s, J, t, h1, h2 => by
    simp only [List.cons_append, inBox_cons] at *
    exact ⟨h1.1, inBox_append I s J t h1.2 h2⟩
  | [], _ :: _, _, _, h, _ => by simp [inBox] at h
  | _ :: _, [], _, _, h, _ => by simp [inBox] at h

theorem inBox_take : ∀ (I s t : List Nat), inBox I (s ++ t) = true → inBox (I.take s.length) s = true
  | I, [], t, _ => by simp
  | [], _ :: _, _, h => by simp [inBox] at h
  | i :: I, n :: s, t, h => by
    simp only [List.cons_append, inBox_cons] at h
    simp only [List.length_cons, List.take_succ_cons, inBox_cons]
    exact ⟨h.1, inBox_take I s t h.2⟩

theorem inBox_drop : ∀ (I s t : List Nat), inBox I (s ++ t) = true → inBox (I.drop s.length) t = true
  | I, [], t, h => by simpa using h
  | [], _ :: _, _, h => by simp [inBox] at h
  | i :: I, n :: s, t, h => by
    simp only [List.cons_append, inBox_cons] at h
    simp only [List.length_cons, List.drop_succ_cons]
    exact inBox_drop I s t h.2

/-! ### `Full.ofFn` -/
section OfFn
variable {α : Type} [Zero α]

theorem ofFn_congr (s : List Nat) (f g : List Nat → α) (h : ∀ I, inBox I s = true → f I = g I) :
    Full.ofFn s f = Full.ofFn s g := by
  unfold Full.ofFn
  congr 1
  funext I
  by_cases hb : inBox I s = true
  · simp [hb, h I hb]
  · simp [hb]

theorem ofFn_get (s : List Nat) (f : List Nat → α) (I : List Nat) (h : inBox I s = true) :
    (Full.ofFn s f).get I = f I := by simp [Full.ofFn, h]

theorem ofFn_get_out (s : List Nat) (f : List Nat → α) (I : List Nat) (h : ¬ inBox I s = true) :
    (Full.ofFn s f).get I = 0 := by simp [Full.ofFn, h]

@[simp] theorem ofFn_shape (s : List Nat) (f : List Nat → α) : (Full.ofFn s f).shape = s := rfl

/-- re-tabulating a normal-form tensor is the identity -/
theorem ofFn_get_self (s : List Nat) (f : List Nat → α) : Full.ofFn s (Full.ofFn s f).get = Full.ofFn s f :=
  ofFn_congr _ _ _ (fun I h => ofFn_get s f I h)
end OfFn

/-! ### the mode product is multilinear -/
section Nway
variable {α : Type} [CommRing α]

theorem nwayEntry_congr : ∀ (Bs : List (Option (Mat α))) (I : List Nat) (x y : List Nat → α),
    (∀ J, x J = y J) → nwayEntry Bs I x = nwayEntry Bs I y := by
  intro Bs I x y h
  have : x = y := funext h
  rw [this]

theorem nwayEntry_add : ∀ (Bs : List (Option (Mat α))) (I : List Nat) (x y : List Nat → α),
    nwayEntry Bs I (fun J => x J + y J) = nwayEntry Bs I x + nwayEntry Bs I y
  | [], I, x, y => rfl
  | none :: Bs, i :: I, x, y => by
    simp only [nwayEntry]
    exact nwayEntry_add Bs I (fun J => x (i :: J)) (fun J => y (i :: J))
  | some B :: Bs, i :: I, x, y => by
    simp only [nwayEntry]
    rw [← sumN_add_fn]
    refine sumN_congr _ _ _ (fun j _ => ?_)
    rw [nwayEntry_add Bs I (fun J => x (j :: J)) (fun J => y (j :: J))]; ring
  | _ :: _, [], x, y => by simp [nwayEntry]

theorem nwayEntry_smul : ∀ (Bs : List (Option (Mat α))) (I : List Nat) (c : α) (x : List Nat → α),
    nwayEntry Bs I (fun J => c * x J) = c * nwayEntry Bs I x
  | [], I, c, x => rfl
  | none :: Bs, i :: I, c, x => by
    simp only [nwayEntry]
    exact nwayEntry_smul Bs I c (fun J => x (i :: J))
  | some B :: Bs, i :: I, c, x => by
    simp only [nwayEntry]
    rw [← sumN_mul_left]
    refine sumN_congr _ _ _ (fun j _ => ?_)
    rw [nwayEntry_smul Bs I c (fun J => x (j :: J))]; ring
  | _ :: _, [], c, x => by simp [nwayEntry]

theorem nwayEntry_neg (Bs : List (Option (Mat α))) (I : List Nat) (x : List Nat → α) :
    nwayEntry Bs I (fun J => - x J) = - nwayEntry Bs I x := by
  have : (fun J => - x J) = (fun J => (-1 : α) * x J) := by funext J; ring
  rw [this, nwayEntry_smul]; ring

theorem nwayEntry_zero (Bs : List (Option (Mat α))) (I : List Nat) :
    nwayEntry Bs I (fun _ => (0 : α)) = 0 := by
  have := nwayEntry_smul Bs I (0 : α) (fun _ => (0 : α))
  simpa using this

theorem nwayEntry_sub (Bs : List (Option (Mat α))) (I : List Nat) (x y : List Nat → α) :
    nwayEntry Bs I (fun J => x J - y J) = nwayEntry Bs I x - nwayEntry Bs I y := by
  have : (fun J => x J - y J) = (fun J => x J + (fun K => - y K) J) := by funext J; ring
  rw [this, nwayEntry_add, nwayEntry_neg]; ring

/-- the Tucker expansion only reads the core inside the box of the factor column counts -/
theorem tuckerEntry_congr : ∀ (Us : List (Mat α)) (I : List Nat) (x y : List Nat → α),
    I.length = Us.length →
    (∀ J, inBox J (Us.map (·.cols)) = true → x J = y J) →
    nwayEntry (Us.map some) I x = nwayEntry (Us.map some) I y
  | [], [], x, y, _, h => by
    simp only [List.map_nil, nwayEntry]
    exact h [] rfl
  | [], _ :: _, _, _, hl, _ => by simp at hl
  | U :: Us, i :: I, x, y, hl, h => by
    simp only [List.map_cons, nwayEntry]
    refine sumN_congr _ _ _ (fun j hj => ?_)
    rw [tuckerEntry_congr Us I (fun J => x (j :: J)) (fun J => y (j :: J)) (by simpa using hl)
      (fun J hJ => h (j :: J) (by simp [hj, hJ]))]
  | _ :: _, [], x, y, _, h => by simp [nwayEntry]
end Nway

end Pyiga.Tensor
