/-
L-hier: partition of unity and non-negativity of the truncated (THB) basis at matrix level.

`represent_fine(truncate=True)` builds, from the finest level downwards, `M_lv = I`,
`M_k = M_{k+1} · (Z_{k+1} P_k)` (`Z_{k+1}` zeroes the rows of the active functions of level `k+1`,
`P_k` the tensor-product prolongation) and returns the blocks `M_k[:, actfun[k]]`.  The sum of the
entries of a row of the result (= the level-`lv` B-spline coefficients of the sum of all THB
functions) therefore satisfies the Horner recursion `w` below (`rowsum = M_lv w_lv`, see
`blocks_rowsum`).  Prolongations are parameters with unit row sums (and non-negative entries).
-/
import Mathlib.Algebra.BigOperators.Group.Finset.Basic
import Mathlib.Algebra.BigOperators.Ring.Finset
import Mathlib.Algebra.Order.BigOperators.Ring.Finset
import Mathlib.Tactic.Ring

namespace Pyiga.Hier.PU
open Finset

variable {R : Type} [CommRing R]

/-- `w k i`: coefficient of the level-`k` B-spline `i` in the sum of all truncated functions of
levels `≤ k`, truncated up to level `k`:
`w_0 = 1_{F_0}`, `w_{k+1} = Z_{k+1} P_k w_k + 1_{F_{k+1}}`. -/
def w (N : ℕ → ℕ) (P : ℕ → ℕ → ℕ → R) (F : ℕ → Finset ℕ) : ℕ → ℕ → R
  | 0, i => if i ∈ F 0 then 1 else 0
  | k + 1, i => (if i ∈ F (k + 1) then 0 else ∑ j ∈ range (N k), P k i j * w N P F k j)
      + (if i ∈ F (k + 1) then 1 else 0)

/-- **THB partition of unity (level induction).**  `F k`/`G k` = active/deactivated functions of
level `k`.  If the prolongations have unit row sums, every level-0 function is active or
deactivated, and every child (non-zero of `P_k`) of a deactivated function is active or
deactivated on the next level (consequence of the selection rule, `children_of_deactivated`), then
the coefficient of every function that is not deactivated is exactly 1. -/
theorem w_eq_one (N : ℕ → ℕ) (P : ℕ → ℕ → ℕ → R) (F G : ℕ → Finset ℕ)
    (hrow : ∀ k i, i < N (k + 1) → ∑ j ∈ range (N k), P k i j = 1)
    (h0 : ∀ i, i < N 0 → i ∈ F 0 ∨ i ∈ G 0)
    (hstar : ∀ k i j, i < N (k + 1) → j < N k → P k i j ≠ 0 → j ∈ G k → i ∈ F (k + 1) ∨ i ∈ G (k + 1)) :
    ∀ k i, i < N k → i ∉ G k → w N P F k i = 1 := by
  intro k
  induction k with
  | zero =>
    intro i hi hG
    have : i ∈ F 0 := (h0 i hi).resolve_right hG
    simp [w, this]
  | succ k ih =>
    intro i hi hG
    by_cases hF : i ∈ F (k + 1)
    · simp [w, hF]
    · simp only [w, hF, if_false, add_zero]
      rw [← hrow k i hi]
      apply Finset.sum_congr rfl
      intro j hj
      have hj' : j < N k := Finset.mem_range.1 hj
      by_cases hp : P k i j = 0
      · rw [hp, zero_mul]
      · have : j ∉ G k := fun hjG => by
          rcases hstar k i j hi hj' hp hjG with h | h
          · exact hF h
          · exact hG h
        rw [ih j hj' this, mul_one]

/-- on the finest level nothing is deactivated: the THB functions sum to one -/
theorem thb_partition_of_unity (N : ℕ → ℕ) (P : ℕ → ℕ → ℕ → R) (F G : ℕ → Finset ℕ) (L : ℕ)
    (hrow : ∀ k i, i < N (k + 1) → ∑ j ∈ range (N k), P k i j = 1)
    (h0 : ∀ i, i < N 0 → i ∈ F 0 ∨ i ∈ G 0)
    (hstar : ∀ k i j, i < N (k + 1) → j < N k → P k i j ≠ 0 → j ∈ G k → i ∈ F (k + 1) ∨ i ∈ G (k + 1))
    (htop : G L = ∅) : ∀ i, i < N L → w N P F L i = 1 :=
  fun i hi => w_eq_one N P F G hrow h0 hstar L i hi (by simp [htop])

/-- the blocks of `represent_fine(lv, truncate=True)`, indexed by the distance `d = lv - k` from
the finest level: `M 0 = I`, `M (d+1) = M d · (Z_{lv-d} P_{lv-d-1})`. -/
def M (N : ℕ → ℕ) (P : ℕ → ℕ → ℕ → R) (F : ℕ → Finset ℕ) (lv : ℕ) : ℕ → ℕ → ℕ → R
  | 0, r, j => if r = j then 1 else 0
  | d + 1, r, j => ∑ i ∈ range (N (lv - d)), M N P F lv d r i *
      (if i ∈ F (lv - d) then 0 else P (lv - d - 1) i j)

/-- row sums of the first `d+1` blocks … = `M d · w_{lv-d}` — the Horner identity that reduces the row
sums of the assembled matrix to the recursion `w`.  `rowsum d r` adds the blocks of levels `0 … lv-d`
pre-multiplied down to level … -/
def blockSum (N : ℕ → ℕ) (P : ℕ → ℕ → ℕ → R) (F : ℕ → Finset ℕ) (lv : ℕ) (r : ℕ) : ℕ → R
  | 0 => ∑ j ∈ range (N 0), M N P F lv lv r j * (if j ∈ F 0 then 1 else 0)
  | k + 1 => blockSum N P F lv r k +
      ∑ j ∈ range (N (k + 1)), M N P F lv (lv - (k + 1)) r j * (if j ∈ F (k + 1) then 1 else 0)

/-- `Σ_{m ≤ k} M_m 1_{F_m} = M_k w_k` for every `k ≤ lv` -/
theorem blockSum_eq (N : ℕ → ℕ) (P : ℕ → ℕ → ℕ → R) (F : ℕ → Finset ℕ) (lv r : ℕ) :
    ∀ k, k ≤ lv → blockSum N P F lv r k = ∑ j ∈ range (N k), M N P F lv (lv - k) r j * w N P F k j := by
  intro k
  induction k with
  | zero => intro _; simp [blockSum, w]
  | succ k ih =>
    intro hk
    have hd : lv - k = (lv - (k + 1)) + 1 := by omega
    rw [blockSum, ih (by omega)]
    -- unfold M at distance (lv-(k+1))+1 and w at level k+1
    have hM : ∀ j, M N P F lv (lv - k) r j = ∑ i ∈ range (N (k + 1)), M N P F lv (lv - (k + 1)) r i *
        (if i ∈ F (k + 1) then 0 else P k i j) := by
      intro j
      rw [hd, M]
      have e1 : lv - (lv - (k + 1)) = k + 1 := by omega
      rw [e1]
      simp only [Nat.add_sub_cancel]
    simp only [hM, w, mul_add, Finset.sum_add_distrib]
    congr 1
    simp only [Finset.sum_mul]
    rw [Finset.sum_comm]
    apply Finset.sum_congr rfl
    intro i _
    by_cases hF : i ∈ F (k + 1)
    · simp [hF]
    · simp only [hF, if_false]
      rw [Finset.mul_sum]
      apply Finset.sum_congr rfl
      intro j _
      ring

/-- **row sums of `represent_fine(truncate=True)`**: the sum over all blocks equals `w_lv` -/
theorem blocks_rowsum (N : ℕ → ℕ) (P : ℕ → ℕ → ℕ → R) (F : ℕ → Finset ℕ) (lv r : ℕ) (hr : r < N lv) :
    blockSum N P F lv r lv = w N P F lv r := by
  rw [blockSum_eq N P F lv r lv (Nat.le_refl _)]
  simp only [Nat.sub_self, M]
  rw [Finset.sum_eq_single r]
  · simp
  · intro j _ hj; simp [Ne.symm hj]
  · intro h; exact absurd (Finset.mem_range.2 hr) h

section nonneg
variable [LinearOrder R] [IsStrictOrderedRing R]

/-- **non-negativity of the truncated basis**: all blocks have non-negative entries -/
theorem M_nonneg (N : ℕ → ℕ) (P : ℕ → ℕ → ℕ → R) (F : ℕ → Finset ℕ) (lv : ℕ)
    (hP : ∀ k i j, 0 ≤ P k i j) : ∀ d r j, 0 ≤ M N P F lv d r j := by
  intro d
  induction d with
  | zero => intro r j; simp only [M]; split <;> simp
  | succ d ih =>
    intro r j
    simp only [M]
    apply Finset.sum_nonneg
    intro i _
    apply mul_nonneg (ih r i)
    split
    · exact le_refl _
    · exact hP _ _ _

end nonneg

end Pyiga.Hier.PU
