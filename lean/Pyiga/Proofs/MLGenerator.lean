/-
`sequential_bidx` + `reindex_from_multilevel` / `reindex_from_reordered` (the element
generators `ReorderedTensorGenerator` / `ReorderedMatrixGenerator` used by the low-rank
assemblers): the matrix position requested for the data-tensor index `μ` is the position
`entryAt μ` at which the compact layout stores that entry -- for any number of levels and
rectangular blocks, *provided the per-level ravel uses the number of block columns as stride*.
The pinned source used the number of block rows; `generator_as_coded_wrong` is the witness.
-/
import Pyiga.Proofs.MLMatrix2

namespace Pyiga.ML
open Pyiga.Index

/-- decoding the row-major ravel of an in-range pair -/
theorem fromSeq_ravel (m n i j : Nat) (hi : i < m) (hj : j < n) :
    fromSeq (n * i + j) [m, n] = [i, j] := by
  have hn : 0 < n := Nat.lt_of_le_of_lt (Nat.zero_le _) hj
  rw [fromSeq_pair]
  have h1 : (n * i + j) / n = i := by
    rw [Nat.mul_comm, Nat.add_comm, Nat.add_mul_div_right _ _ hn, Nat.div_eq_of_lt hj, Nat.zero_add]
  have h2 : (n * i + j) % n = j := by
    rw [Nat.mul_comm, Nat.add_comm, Nat.add_mul_mod_self_right, Nat.mod_eq_of_lt hj]
  rw [h1, h2, Nat.mod_eq_of_lt hi]

theorem fromSeq_zero_pair (m n : Nat) : fromSeq 0 [m, n] = [0, 0] := by
  rw [fromSeq_pair]; simp

/-- level-wise in-range condition on the patterns (as `Props.C15.InRange`, stated on the zipped lists) -/
def InRangeZ : List (Nat × Nat) → List Pattern → Prop
  | [], [] => True
  | b :: bs, p :: ps => (∀ e ∈ p, e.1 < b.1 ∧ e.2 < b.2) ∧ InRangeZ bs ps
  | _, _ => False

/-- one level: picking position `m` of the ravelled pattern and decoding it gives the stored pair -/
theorem decode_pick (b : Nat × Nat) (p : Pattern) (m : Nat) (h : ∀ e ∈ p, e.1 < b.1 ∧ e.2 < b.2) :
    fromSeq ((p.map (fun e => b.2 * e.1 + e.2)).getD m 0) [b.1, b.2]
      = [(p.getD m (0, 0)).1, (p.getD m (0, 0)).2] := by
  by_cases hm : m < p.length
  · have hmem : p[m] ∈ p := List.getElem_mem hm
    have hr := h _ hmem
    simp only [List.getD_eq_getElem?_getD, List.getElem?_map, List.getElem?_eq_getElem hm, Option.map_some,
      Option.getD_some]
    exact fromSeq_ravel b.1 b.2 _ _ hr.1 hr.2
  · have hm' : p.length ≤ m := Nat.le_of_not_lt hm
    simp only [List.getD_eq_getElem?_getD, List.getElem?_map, List.getElem?_eq_none hm', Option.map_none,
      Option.getD_none]
    exact fromSeq_zero_pair b.1 b.2

/-- the decoded digit lists of the generator are the row / column digits of `entryAt` -/
theorem generator_digits : ∀ (bs : List (Nat × Nat)) (bidx : List Pattern) (μ : List Nat), InRangeZ bs bidx →
    List.map (fun (mb : Nat × (Nat × Nat)) => fromSeq mb.1 [mb.2.1, mb.2.2])
      ((List.map (fun (sm : List Nat × Nat) => sm.1.getD sm.2 0)
        ((List.map (fun (bp : (Nat × Nat) × Pattern) => bp.2.map (fun (e : Nat × Nat) => bp.1.2 * e.1 + e.2))
          (bs.zip bidx)).zip μ)).zip bs)
      = List.map (fun (e : Nat × Nat) => [e.1, e.2])
          (List.zipWith (fun (pat : Pattern) (m : Nat) => pat.getD m (0, 0)) bidx μ)
  | [], [], _, _ => by simp
  | [], _ :: _, _, h => by simp [InRangeZ] at h
  | _ :: _, [], _, h => by simp [InRangeZ] at h
  | _ :: _, _ :: _, [], _ => by simp
  | b :: bs, p :: ps, m :: μ, h => by
    simp only [List.zip_cons_cons, List.map_cons, List.zipWith_cons_cons]
    rw [decode_pick b p m h.1]
    congr 1
    exact generator_digits bs ps μ h.2

theorem generatorEntry_eq_entryAt (S : MLStructure) (μ : List Nat) (hr : InRangeZ S.bs S.bidx) :
    S.generatorEntry false μ = S.entryAt μ := by
  unfold MLStructure.generatorEntry MLStructure.entryAt reindexFromMultilevel MLStructure.sequentialBidx
  have h := generator_digits S.bs S.bidx μ hr
  simp only [Bool.false_eq_true, if_false] at *
  rw [h]
  simp only [List.map_map]
  rfl

/-- the pinned stride (number of block rows) requests a wrong position already for one 2x3 block:
the entry stored at `(1, 2)` is asked for at `(1, 1)` -/
theorem generator_as_coded_wrong :
    let S : MLStructure := { bs := [(2, 3)], bidx := [[(0, 0), (1, 2)]] }
    S.generatorEntry true [1] = (1, 1) ∧ S.entryAt [1] = (1, 2) ∧ S.generatorEntry false [1] = (1, 2) := by
  decide

/-- two levels: `ReorderedMatrixGenerator` asks for the same position (indices within the data shape;
the real code raises `IndexError` otherwise) -/
theorem generatorEntry2_eq (b1 b2 : Nat × Nat) (p1 p2 : Pattern) (i j : Nat)
    (hr : InRangeZ [b1, b2] [p1, p2]) (hi : i < p1.length) (hj : j < p2.length) :
    ({ bs := [b1, b2], bidx := [p1, p2] } : MLStructure).generatorEntry2 false i j
      = ({ bs := [b1, b2], bidx := [p1, p2] } : MLStructure).entryAt [i, j] := by
  rw [← generatorEntry_eq_entryAt _ _ hr]
  obtain ⟨h1, h2, _⟩ := hr
  unfold MLStructure.generatorEntry2 MLStructure.generatorEntry MLStructure.sequentialBidx
  simp only [Bool.false_eq_true, if_false, List.zip_cons_cons, List.zip_nil_right, List.map_cons, List.map_nil,
    List.getD_cons_zero, List.getD_cons_succ]
  -- both ravelled indices are in range of their level
  have hlt : ∀ (b : Nat × Nat) (p : Pattern) (m : Nat), (∀ e ∈ p, e.1 < b.1 ∧ e.2 < b.2) → m < p.length →
      (p.map (fun e => b.2 * e.1 + e.2)).getD m 0 < b.1 * b.2 := by
    intro b p m h hm
    have hr := h _ (List.getElem_mem hm)
    simp only [List.getD_eq_getElem?_getD, List.getElem?_map, List.getElem?_eq_getElem hm, Option.map_some,
      Option.getD_some]
    calc b.2 * p[m].1 + p[m].2 < b.2 * p[m].1 + b.2 := Nat.add_lt_add_left hr.2 _
      _ = b.2 * (p[m].1 + 1) := by rw [Nat.mul_add, Nat.mul_one]
      _ ≤ b.2 * b.1 := Nat.mul_le_mul_left _ hr.1
      _ = b.1 * b.2 := Nat.mul_comm _ _
  exact reindexFromReordered_eq _ _ b1.1 b1.2 b2.1 b2.2 (hlt b1 p1 i h1 hi) (hlt b2 p2 j h2 hj)

/-! ### level reordering of a matrix with data: `MLMatrix.reorder(axes)` -/

theorem zipWith_map_map {α β γ δ : Type} (f : β → γ → δ) (g : α → β) (h : α → γ) : ∀ (l : List α),
    List.zipWith f (l.map g) (l.map h) = l.map (fun a => f (g a) (h a))
  | [] => rfl
  | a :: l => by simp [zipWith_map_map f g h l]

/-- `MLMatrix.reorder(axes)` permutes the levels and transposes the data tensor with the same `axes`:
the entry with data index `μ` moves to data index `ν = (μ[axes[0]], μ[axes[1]], ...)`, and its position in the
reordered matrix has, level by level, the (row, column) digits of the original entry, permuted by `axes`. -/
theorem reorder_entryAt (S : MLStructure) (axes μ : List Nat) :
    (S.reorder axes).entryAt (axes.map (fun j => μ.getD j 0)) =
      (toSeq (axes.map (fun j => ((S.bidx.getD j []).getD (μ.getD j 0) (0, 0)).1)) (axes.map (fun j => (S.bs.getD j (0, 0)).1)),
       toSeq (axes.map (fun j => ((S.bidx.getD j []).getD (μ.getD j 0) (0, 0)).2)) (axes.map (fun j => (S.bs.getD j (0, 0)).2))) := by
  unfold MLStructure.entryAt MLStructure.reorder MLStructure.rows MLStructure.cols
  simp only [zipWith_map_map, List.map_map]
  rfl

end Pyiga.ML
