/-
The `rows=` / `restrict=` variants of `HSpace.represent_fine` are row selections of the full
matrix (`Pyiga.Model.Transfer`, `HSp.representFine H lv trunc rows restrict`).

The loop of `represent_fine` computes `P_k = P_{k+1} · T_k` starting from the partial identity
`keepRows (id N) rows` (`restrict = False`) resp. the selection matrix `selRows (id N) rows`
(`restrict = True`) instead of the identity, and every block of the result is `P_k[:, act_k]`.
The loop invariant `repLoopG_rowmap` says: if row `i` of the carried matrices of one run is
`c i ·` row `σ i` of the carried matrices of another run, the same holds for the results.  It needs
no well-formedness of the hierarchy and holds for the truncated loop (`trunc = true`) as well.

Main statements: `HSp.representFine_rows_keep`, `HSp.representFine_rows_restrict` (HB case, shape
of the task), their `Mat.Eqv` forms `…_keep_eqv` / `…_restrict_eqv`, and the versions `…_gen` for an
arbitrary `trunc` flag and all columns.
-/
import Pyiga.Proofs.Transfer

namespace Pyiga.Transfer
open Finset

set_option linter.unusedSectionVars false

variable {K : Type} [CommRing K] [DecidableEq K]

namespace Mat

/-- all entries of a tabulated matrix (out-of-range entries are `0`) -/
theorem freeze_f_all (A : Mat K) (i j : Nat) :
    A.freeze.f i j = if i < A.m ∧ j < A.n then A.f i j else 0 := by
  by_cases h : i < A.m ∧ j < A.n
  · rw [if_pos h, freeze_f A h.1 h.2]
  · rw [if_neg h]
    show (if i < A.m ∧ j < A.n then _ else 0) = (0 : K)
    rw [if_neg h]

/-- closed form of `keepRows` (same as `Mat.keepRows_f` of `Pyiga.Proofs.ProlongateTo`; restated
under another name so that both files can be imported together) -/
theorem keepRows_entry (A : Mat K) (rows : List Nat) {i : Nat} (hi : i < A.m) (j : Nat) :
    (A.keepRows rows).f i j = if i ∈ rows then A.f i j else 0 := by
  show (if (pos? (invArr A.m rows) i).isSome then A.f i j else 0) = _
  rw [pos?_invArr _ _ _ hi]
  by_cases h : i ∈ rows <;> simp [h]

theorem keepRows_m' (A : Mat K) (rows : List Nat) : (A.keepRows rows).m = A.m := rfl
theorem keepRows_n' (A : Mat K) (rows : List Nat) : (A.keepRows rows).n = A.n := rfl

end Mat

namespace HSp

/-- right factor of step `k` of the loop of `represent_fine` (`P_j` in the source) -/
def stepT (H : HSp K) (lv : Nat) (trunc : Bool) (k : Nat) : Mat K :=
  if trunc then ((H.Tl k).zeroRows (H.actv lv (k + 1))).freeze else H.Tl k

/-- the loop of `represent_fine` (any `trunc`) on the level of the concatenated matrix -/
def repLoopG (H : HSp K) (lv : Nat) (trunc : Bool) : Nat → Mat K → Mat K → Mat K
  | 0, _, M => M
  | k + 1, P, M =>
      repLoopG H lv trunc k ((P.mul (H.stepT lv trunc k)).freeze)
        (Mat.hcat (((P.mul (H.stepT lv trunc k)).freeze).selCols (H.actv lv k)) M)

theorem hcatList_repLoopG (H : HSp K) (lv m : Nat) (trunc : Bool) :
    ∀ (k : Nat) (P : Mat K) (bl : List (Mat K)), bl ≠ [] →
      Mat.hcatList m (H.repLoop lv trunc k P bl) = H.repLoopG lv trunc k P (Mat.hcatList m bl)
  | 0, _, _, _ => rfl
  | k + 1, P, bl, h => by
      show Mat.hcatList m (H.repLoop lv trunc k ((P.mul (H.stepT lv trunc k)).freeze)
        (((P.mul (H.stepT lv trunc k)).freeze).selCols (H.actv lv k) :: bl)) = _
      rw [hcatList_repLoopG H lv m trunc k _ _ (List.cons_ne_nil _ _), hcatList_cons _ _ _ h]
      rfl

/-- `represent_fine` started from an arbitrary matrix `P0` -/
theorem hcatList_start (H : HSp K) (lv : Nat) (trunc : Bool) (P0 : Mat K) :
    Mat.hcatList P0.m (H.repLoop lv trunc lv P0 [P0.selCols (H.actv lv lv)])
      = H.repLoopG lv trunc lv P0 (P0.selCols (H.ir lv)) := by
  rw [hcatList_repLoopG H lv _ trunc lv _ _ (List.cons_ne_nil _ _), actv_self]
  rfl

theorem representFine_none_eq (H : HSp K) (lv : Nat) (trunc : Bool) :
    H.representFine lv trunc none false
      = H.repLoopG lv trunc lv (Mat.id (H.Nl lv)) ((Mat.id (H.Nl lv)).selCols (H.ir lv)) :=
  hcatList_start H lv trunc (Mat.id (H.Nl lv))

theorem representFine_keep_eq (H : HSp K) (lv : Nat) (trunc : Bool) (rows : List Nat) :
    H.representFine lv trunc (some rows) false
      = H.repLoopG lv trunc lv ((Mat.id (H.Nl lv)).keepRows rows)
          (((Mat.id (H.Nl lv)).keepRows rows).selCols (H.ir lv)) :=
  hcatList_start H lv trunc ((Mat.id (H.Nl lv)).keepRows rows)

theorem representFine_restrict_eq (H : HSp K) (lv : Nat) (trunc : Bool) (rows : List Nat) :
    H.representFine lv trunc (some rows) true
      = H.repLoopG lv trunc lv ((Mat.id (H.Nl lv)).selRows rows)
          (((Mat.id (H.Nl lv)).selRows rows).selCols (H.ir lv)) :=
  hcatList_start H lv trunc ((Mat.id (H.Nl lv)).selRows rows)

theorem repLoopG_m (H : HSp K) (lv : Nat) (trunc : Bool) : ∀ (k : Nat) (P M : Mat K),
    P.m = M.m → (H.repLoopG lv trunc k P M).m = M.m
  | 0, _, _, _ => rfl
  | k + 1, P, M, h => by
      show (H.repLoopG lv trunc k _ _).m = _
      refine (repLoopG_m H lv trunc k _ _ ?_).trans h
      rfl

/-- the number of columns of the loop result does not depend on the carried matrix -/
theorem repLoopG_n_congr (H : HSp K) (lv : Nat) (trunc : Bool) : ∀ (k : Nat) (P' P M' M : Mat K),
    M'.n = M.n → (H.repLoopG lv trunc k P' M').n = (H.repLoopG lv trunc k P M).n
  | 0, _, _, _, _, h => h
  | k + 1, P', P, M', M, h => by
      show (H.repLoopG lv trunc k _ _).n = (H.repLoopG lv trunc k _ _).n
      refine repLoopG_n_congr H lv trunc k _ _ _ _ ?_
      rw [Mat.hcat_n, Mat.hcat_n, Mat.selCols_n, Mat.selCols_n, h]

/-- **loop invariant**: if row `i < m'` of `P'`, `M'` is `c i ·` row `σ i` of `P`, `M` (all
columns), then the same holds for the results of the two runs of the loop.  No hypothesis on the
hierarchy. -/
theorem repLoopG_rowmap (H : HSp K) (lv : Nat) (trunc : Bool) (m' : Nat) (c : Nat → K)
    (σ : Nat → Nat) :
    ∀ (k : Nat) (P' P M' M : Mat K), P'.m = m' → P'.n = P.n → (∀ i < m', σ i < P.m) →
      (∀ i < m', ∀ j, P'.f i j = c i * P.f (σ i) j) →
      (∀ i < m', ∀ j, M'.f i j = c i * M.f (σ i) j) →
      ∀ i < m', ∀ j,
        (H.repLoopG lv trunc k P' M').f i j = c i * (H.repLoopG lv trunc k P M).f (σ i) j
  | 0, _, _, _, _, _, _, _, _, hM => hM
  | k + 1, P', P, M', M, hm, hn, hσ, hP, hM => by
      intro i hi j
      have hstep : ∀ i < m', ∀ j, ((P'.mul (H.stepT lv trunc k)).freeze).f i j
          = c i * ((P.mul (H.stepT lv trunc k)).freeze).f (σ i) j := by
        intro i hi j
        rw [Mat.freeze_f_all, Mat.freeze_f_all, Mat.mul_m, Mat.mul_n, Mat.mul_m, Mat.mul_n]
        by_cases hj : j < (H.stepT lv trunc k).n
        · rw [if_pos ⟨by rw [hm]; exact hi, hj⟩, if_pos ⟨hσ i hi, hj⟩, Mat.mul_f, Mat.mul_f, hn,
            Finset.mul_sum]
          exact Finset.sum_congr rfl fun l _ => by rw [hP i hi l, mul_assoc]
        · rw [if_neg (fun h => hj h.2), if_neg (fun h => hj h.2), mul_zero]
      show (H.repLoopG lv trunc k ((P'.mul (H.stepT lv trunc k)).freeze)
          (Mat.hcat (((P'.mul (H.stepT lv trunc k)).freeze).selCols (H.actv lv k)) M')).f i j
        = c i * (H.repLoopG lv trunc k ((P.mul (H.stepT lv trunc k)).freeze)
          (Mat.hcat (((P.mul (H.stepT lv trunc k)).freeze).selCols (H.actv lv k)) M)).f (σ i) j
      refine repLoopG_rowmap H lv trunc m' c σ k
        ((P'.mul (H.stepT lv trunc k)).freeze) ((P.mul (H.stepT lv trunc k)).freeze)
        (Mat.hcat (((P'.mul (H.stepT lv trunc k)).freeze).selCols (H.actv lv k)) M')
        (Mat.hcat (((P.mul (H.stepT lv trunc k)).freeze).selCols (H.actv lv k)) M)
        hm rfl hσ hstep ?_ i hi j
      intro i hi j
      rw [Mat.hcat_f, Mat.hcat_f, Mat.selCols_n, Mat.selCols_n]
      split_ifs
      · rw [Mat.selCols_f, Mat.selCols_f]; exact hstep i hi _
      · exact hM i hi _

/-! ## `rows=…, restrict=False` -/

theorem representFine_rows_keep_m (H : HSp K) (lv : Nat) (trunc : Bool) (rows : List Nat) :
    (H.representFine lv trunc (some rows) false).m = H.Nl lv := by
  rw [representFine_keep_eq]
  refine (repLoopG_m H lv trunc lv _ _ ?_).trans ?_ <;> rfl

theorem representFine_none_m (H : HSp K) (lv : Nat) (trunc : Bool) :
    (H.representFine lv trunc none false).m = H.Nl lv := by
  rw [representFine_none_eq]
  refine (repLoopG_m H lv trunc lv _ _ ?_).trans ?_ <;> rfl

/-- any `trunc`, all columns: `represent_fine(lv, truncate, rows, restrict=False)` has the shape of
the full matrix, the rows in `rows` agree with it and all other rows are zero. -/
theorem representFine_rows_keep_gen (H : HSp K) (lv : Nat) (trunc : Bool) (rows : List Nat) :
    (H.representFine lv trunc (some rows) false).m = (H.representFine lv trunc none false).m ∧
    (H.representFine lv trunc (some rows) false).n = (H.representFine lv trunc none false).n ∧
    ∀ i j, i < H.Nl lv →
      (H.representFine lv trunc (some rows) false).f i j
        = if i ∈ rows then (H.representFine lv trunc none false).f i j else 0 := by
  refine ⟨?_, ?_, ?_⟩
  · rw [representFine_rows_keep_m, representFine_none_m]
  · rw [representFine_keep_eq, representFine_none_eq]
    exact repLoopG_n_congr H lv trunc lv _ _ _ _ rfl
  · intro i j hi
    rw [representFine_keep_eq, representFine_none_eq]
    have hP : ∀ i < H.Nl lv, ∀ j, ((Mat.id (H.Nl lv) : Mat K).keepRows rows).f i j
        = (if i ∈ rows then (1 : K) else 0) * (Mat.id (H.Nl lv) : Mat K).f ((fun x => x) i) j := by
      intro i hi j
      rw [Mat.keepRows_entry _ _ (show i < (Mat.id (H.Nl lv) : Mat K).m from hi)]
      split_ifs
      · rw [one_mul]
      · rw [zero_mul]
    have h := repLoopG_rowmap H lv trunc (H.Nl lv) (fun i => if i ∈ rows then (1 : K) else 0)
      (fun x => x) lv ((Mat.id (H.Nl lv)).keepRows rows) (Mat.id (H.Nl lv))
      (((Mat.id (H.Nl lv)).keepRows rows).selCols (H.ir lv))
      ((Mat.id (H.Nl lv)).selCols (H.ir lv)) rfl rfl (fun i hi => hi) hP
      (fun i hi j => hP i hi _) i hi j
    rw [h]
    show (if i ∈ rows then (1 : K) else 0) * _ = _
    split_ifs
    · rw [one_mul]
    · rw [zero_mul]

/-- **`represent_fine(lv, rows=rows, restrict=False)`** (HB case) is the full matrix with the rows
outside `rows` zeroed.  No hypothesis on the hierarchy or on `rows`. -/
theorem representFine_rows_keep (H : HSp K) (lv : Nat) (rows : List Nat) :
    (H.representFine lv false (some rows) false).m = (H.representFine lv false none false).m ∧
    (H.representFine lv false (some rows) false).n = (H.representFine lv false none false).n ∧
    ∀ i j, i < H.Nl lv → j < (H.representFine lv false none false).n →
      (H.representFine lv false (some rows) false).f i j
        = if i ∈ rows then (H.representFine lv false none false).f i j else 0 :=
  ⟨(representFine_rows_keep_gen H lv false rows).1, (representFine_rows_keep_gen H lv false rows).2.1,
    fun i j hi _ => (representFine_rows_keep_gen H lv false rows).2.2 i j hi⟩

/-- `Mat.Eqv` form (any `trunc`) -/
theorem representFine_rows_keep_eqv (H : HSp K) (lv : Nat) (trunc : Bool) (rows : List Nat) :
    Mat.Eqv (H.representFine lv trunc (some rows) false)
      ((H.representFine lv trunc none false).keepRows rows) := by
  obtain ⟨hm, hn, hf⟩ := representFine_rows_keep_gen H lv trunc rows
  refine ⟨hm, hn, fun i hi j _ => ?_⟩
  rw [representFine_rows_keep_m] at hi
  rw [hf i j hi, Mat.keepRows_entry _ _ (by rw [representFine_none_m]; exact hi)]

/-! ## `rows=…, restrict=True` -/

theorem representFine_rows_restrict_m (H : HSp K) (lv : Nat) (trunc : Bool) (rows : List Nat) :
    (H.representFine lv trunc (some rows) true).m = rows.length := by
  rw [representFine_restrict_eq]
  refine (repLoopG_m H lv trunc lv _ _ ?_).trans ?_ <;> rfl

/-- any `trunc`, all columns: row `q` of `represent_fine(lv, truncate, rows, restrict=True)` is row
`rows[q]` of the full matrix.  `hrows`: the requested rows exist. -/
theorem representFine_rows_restrict_gen (H : HSp K) (lv : Nat) (trunc : Bool) (rows : List Nat)
    (hrows : ∀ r ∈ rows, r < H.Nl lv) :
    (H.representFine lv trunc (some rows) true).m = rows.length ∧
    (H.representFine lv trunc (some rows) true).n = (H.representFine lv trunc none false).n ∧
    ∀ q j, q < rows.length →
      (H.representFine lv trunc (some rows) true).f q j
        = (H.representFine lv trunc none false).f (rows.getD q 0) j := by
  refine ⟨representFine_rows_restrict_m H lv trunc rows, ?_, ?_⟩
  · rw [representFine_restrict_eq, representFine_none_eq]
    exact repLoopG_n_congr H lv trunc lv _ _ _ _ rfl
  · intro q j hq
    rw [representFine_restrict_eq, representFine_none_eq]
    have hσ : ∀ q < rows.length, (fun q => rows.getD q 0) q < (Mat.id (H.Nl lv) : Mat K).m := by
      intro q hq
      show rows.getD q 0 < H.Nl lv
      rw [List.getD_eq_getElem _ _ hq]
      exact hrows _ (List.getElem_mem hq)
    have hP : ∀ q < rows.length, ∀ j, ((Mat.id (H.Nl lv) : Mat K).selRows rows).f q j
        = (fun _ => (1 : K)) q * (Mat.id (H.Nl lv) : Mat K).f ((fun q => rows.getD q 0) q) j := by
      intro q _ j
      rw [Mat.selRows_f, one_mul]
    have h := repLoopG_rowmap H lv trunc rows.length (fun _ => (1 : K))
      (fun q => rows.getD q 0) lv ((Mat.id (H.Nl lv)).selRows rows) (Mat.id (H.Nl lv))
      (((Mat.id (H.Nl lv)).selRows rows).selCols (H.ir lv))
      ((Mat.id (H.Nl lv)).selCols (H.ir lv)) rfl rfl hσ hP
      (fun q hq j => hP q hq _) q hq j
    rw [h, one_mul]

/-- **`represent_fine(lv, rows=rows, restrict=True)`** (HB case) consists of the rows `rows` of the
full matrix.  `hrows`: the requested rows exist; no hypothesis on the hierarchy. -/
theorem representFine_rows_restrict (H : HSp K) (lv : Nat) (rows : List Nat)
    (hrows : ∀ r ∈ rows, r < H.Nl lv) :
    (H.representFine lv false (some rows) true).m = rows.length ∧
    (H.representFine lv false (some rows) true).n = (H.representFine lv false none false).n ∧
    ∀ q j, q < rows.length → j < (H.representFine lv false none false).n →
      (H.representFine lv false (some rows) true).f q j
        = (H.representFine lv false none false).f (rows.getD q 0) j :=
  ⟨(representFine_rows_restrict_gen H lv false rows hrows).1,
    (representFine_rows_restrict_gen H lv false rows hrows).2.1,
    fun q j hq _ => (representFine_rows_restrict_gen H lv false rows hrows).2.2 q j hq⟩

/-- `Mat.Eqv` form (any `trunc`) -/
theorem representFine_rows_restrict_eqv (H : HSp K) (lv : Nat) (trunc : Bool) (rows : List Nat)
    (hrows : ∀ r ∈ rows, r < H.Nl lv) :
    Mat.Eqv (H.representFine lv trunc (some rows) true)
      ((H.representFine lv trunc none false).selRows rows) := by
  obtain ⟨hm, hn, hf⟩ := representFine_rows_restrict_gen H lv trunc rows hrows
  refine ⟨hm, hn, fun q hq j _ => ?_⟩
  rw [hm] at hq
  rw [hf q j hq, Mat.selRows_f]

/-- the matrix `A` inside `truncate_one_level(k, …)` consists of the rows `IA_{k+1}` of
`represent_fine(k+1)` (tabulated) -/
theorem truncOneLevel_block_eqv (H : HSp K) (k : Nat)
    (hrows : ∀ r ∈ H.ia (k + 1), r < H.Nl (k + 1)) :
    Mat.Eqv ((H.representFine (k + 1) false (some (H.ia (k + 1))) true).freeze)
      ((H.representFine (k + 1) false none false).selRows (H.ia (k + 1))) :=
  (Mat.freeze_eqv _).trans (representFine_rows_restrict_eqv H (k + 1) false _ hrows)

end HSp

end Pyiga.Transfer
