/-
Helper lemmas for C14: `patch_to_global` as a 0/1 matrix and the accumulation of `assemble_system`,
over an arbitrary semiring.
-/
import Pyiga.Proofs.Multipatch
import Mathlib.Algebra.BigOperators.Group.List.Basic
import Mathlib.Algebra.Ring.Defs

namespace Pyiga.MP
variable {α : Type} [Semiring α]

theorem sumList_eq_sum (l : List α) : Mat.sumList l = l.sum := rfl

/-- a sum with a single possibly non-zero term -/
theorem sum_range_ite_eq (n c : Nat) (f : Nat → α) :
    ((List.range n).map (fun g => if g = c then f g else 0)).sum = if c < n then f c else 0 := by
  induction n with
  | zero => simp
  | succ n ih =>
    rw [List.range_succ, List.map_append, List.sum_append, ih]
    simp only [List.map_cons, List.map_nil, List.sum_cons, List.sum_nil, add_zero]
    by_cases h1 : c < n
    · have : ¬ n = c := by omega
      simp [h1, this, Nat.lt_succ_of_lt h1]
    · by_cases h2 : n = c
      · subst h2; simp
      · have : ¬ c < n + 1 := by omega
        simp [h1, h2, this]

theorem sum_map_congr {l : List Nat} {f g : Nat → α} (h : ∀ i ∈ l, f i = g i) :
    (l.map f).sum = (l.map g).sum := by
  rw [List.map_congr_left h]

theorem sum_map_mul_right' (l : List Nat) (f : Nat → α) (c : α) :
    (l.map f).sum * c = (l.map (fun i => f i * c)).sum := by
  induction l with
  | nil => simp
  | cons a l ih => simp [add_mul, ih]

namespace Glob
variable (G : Glob)

/-- entry of `patch_to_global(p)` -/
theorem patchToGlobal_e (p g j : Nat) :
    (G.patchToGlobal p : Mat α).e g j = if j < G.N p ∧ G.globalIdx p j = g then 1 else 0 := by
  show (if ((List.range (G.N p)).map (G.globalIdx p))[j]? = some g then (1 : α) else 0) = _
  by_cases hj : j < G.N p
  · have : ((List.range (G.N p)).map (G.globalIdx p))[j]? = some (G.globalIdx p j) := by
      simp [List.getElem?_map, List.getElem?_range hj]
    rw [this]
    by_cases hg : G.globalIdx p j = g
    · simp [hj, hg]
    · simp [hg]
  · have : ((List.range (G.N p)).map (G.globalIdx p))[j]? = none := by
      simp [List.getElem?_eq_none_iff]; omega
    simp [this, hj]

/-- column `j` of `patch_to_global(p)` is the unit vector `e_{global(p,j)}` -/
theorem patchToGlobal_col (p j : Nat) (hj : j < G.N p) (g : Nat) :
    (G.patchToGlobal p : Mat α).e g j = if g = G.globalIdx p j then 1 else 0 := by
  rw [patchToGlobal_e]
  by_cases h : G.globalIdx p j = g
  · simp [hj, h]
  · have : ¬ g = G.globalIdx p j := fun e => h e.symm
    simp [h, this]

theorem patchToGlobal_col_sum (p j : Nat) (hj : j < G.N p) (hlt : G.globalIdx p j < G.numdofs) :
    ((List.range G.numdofs).map (fun g => (G.patchToGlobal p : Mat α).e g j)).sum = 1 := by
  rw [sum_map_congr (g := fun g => if g = G.globalIdx p j then (fun _ => (1 : α)) g else 0)
    (fun g _ => G.patchToGlobal_col p j hj g), sum_range_ite_eq, if_pos hlt]

/-- `Xᵀ X = I` when `global(p, ·)` is injective on the dofs of the patch -/
theorem patchToGlobal_gram (p : Nat) (hinj : ∀ i j, i < G.N p → j < G.N p → G.globalIdx p i = G.globalIdx p j → i = j)
    (hlt : ∀ i, i < G.N p → G.globalIdx p i < G.numdofs) (i j : Nat) (hi : i < G.N p) (hj : j < G.N p) :
    (((G.patchToGlobal p : Mat α).transpose).mul (G.patchToGlobal p)).e i j = if i = j then 1 else 0 := by
  show Mat.sumList ((List.range G.numdofs).map (fun g =>
    (G.patchToGlobal p : Mat α).e g i * (G.patchToGlobal p : Mat α).e g j)) = _
  rw [sumList_eq_sum, sum_map_congr (g := fun g => if g = G.globalIdx p i then
      (fun _ => if G.globalIdx p j = G.globalIdx p i then (1 : α) else 0) g else 0), sum_range_ite_eq,
    if_pos (hlt i hi)]
  · by_cases hij : i = j
    · subst hij; simp
    · have : ¬ G.globalIdx p j = G.globalIdx p i := fun e => hij (hinj j i hj hi e).symm
      simp [hij, this]
  · intro g _
    rw [G.patchToGlobal_col p i hi, G.patchToGlobal_col p j hj]
    by_cases h1 : g = G.globalIdx p i
    · subst h1
      by_cases h2 : G.globalIdx p j = G.globalIdx p i
      · simp [h2]
      · have : ¬ G.globalIdx p i = G.globalIdx p j := fun e => h2 e.symm
        simp [h2, this]
    · simp [h1]

/-- the accumulation loop adds one term per patch -/
theorem foldl_add_e (T : Nat → Mat α) (l : List Nat) (Z : Mat α) (g h : Nat) :
    (l.foldl (fun A p => A.add (T p)) Z).e g h = Z.e g h + (l.map (fun p => (T p).e g h)).sum := by
  induction l generalizing Z with
  | nil => simp
  | cons p l ih =>
    rw [List.foldl_cons, ih]
    simp [Mat.add, add_assoc]

theorem foldl_addVec (T : Nat → Nat → α) (l : List Nat) (z : Nat → α) (g : Nat) :
    (l.foldl (fun b p => fun g => b g + T p g) z) g = z g + (l.map (fun p => T p g)).sum := by
  induction l generalizing z with
  | nil => simp
  | cons p l ih =>
    rw [List.foldl_cons, ih]
    simp [add_assoc]

/-- entry of `X A Xᵀ` for `X = patch_to_global(p)` -/
theorem sandwich_e (p : Nat) (A : Mat α) (hn : A.n = G.N p) (g h : Nat) :
    (((G.patchToGlobal p : Mat α).mul A).mul (G.patchToGlobal p : Mat α).transpose).e g h =
      ((List.range (G.N p)).map (fun j => ((List.range (G.N p)).map (fun i =>
        if G.globalIdx p i = g ∧ G.globalIdx p j = h then A.e i j else 0)).sum)).sum := by
  show Mat.sumList ((List.range A.n).map (fun j =>
    Mat.sumList ((List.range (G.N p)).map (fun i => (G.patchToGlobal p : Mat α).e g i * A.e i j)) *
      (G.patchToGlobal p : Mat α).e h j)) = _
  rw [hn, sumList_eq_sum]
  apply sum_map_congr
  intro j hj
  have hj' : j < G.N p := List.mem_range.1 hj
  rw [sumList_eq_sum, sum_map_mul_right']
  apply sum_map_congr
  intro i hi
  have hi' : i < G.N p := List.mem_range.1 hi
  rw [patchToGlobal_e, patchToGlobal_e]
  by_cases h1 : G.globalIdx p i = g <;> by_cases h2 : G.globalIdx p j = h <;> simp [h1, h2, hi', hj']

end Glob
end Pyiga.MP
