/-
Proofs about the matrix-level model of pyiga's hierarchical transfer operators
(`Pyiga.Model.Transfer`): entry lemmas for the `Mat` operations, entrywise equality `Mat.Eqv`,
associativity of `Mat.mul`, the structure of `represent_fine` (HB case), and the recursion
`I_{lv+1} · P^hb_lv = T_lv · I_lv` for the HB virtual-hierarchy prolongators together with its
composition corollary, and `coeffs_to_levelwise_funcs` evaluated by linearity (`levelwise_eval`).

Main statements: `Mat.freeze_eqv`, `Mat.mul_assoc_eqv`, `HSp.representFine_closed`,
`HSp.represent_fine_rec`, `HSp.virtual_composition`, `pos?_invArr`, `HSp.levelwise_eval'`.
-/
import Pyiga.Model.Transfer
import Mathlib.Algebra.BigOperators.Group.Finset.Basic
import Mathlib.Algebra.BigOperators.Ring.Finset
import Mathlib.Algebra.BigOperators.Intervals
import Mathlib.Tactic.Ring
import Mathlib.Tactic.Linarith
import Mathlib.Data.List.Nodup
import Mathlib.Data.List.GetD
import Mathlib.Data.List.Basic

namespace Pyiga.Transfer
open Finset

set_option linter.unusedSectionVars false

variable {K : Type} [CommRing K] [DecidableEq K]

/-! ## STEP 1: entry lemmas -/

theorem sumRange_eq_sum (n : Nat) (g : Nat → K) : sumRange n g = ∑ k ∈ range n, g k := by
  induction n with
  | zero => simp [sumRange]
  | succ n ih => simp [sumRange, ih, Finset.sum_range_succ]

namespace Mat

@[simp] theorem freeze_m (A : Mat K) : A.freeze.m = A.m := rfl
@[simp] theorem freeze_n (A : Mat K) : A.freeze.n = A.n := rfl

theorem idx_lt {m n i j : Nat} (hi : i < m) (hj : j < n) : i * n + j < m * n := by
  calc i * n + j < i * n + n := by omega
    _ = (i + 1) * n := by ring
    _ ≤ m * n := Nat.mul_le_mul_right n hi

theorem freeze_f (A : Mat K) {i j : Nat} (hi : i < A.m) (hj : j < A.n) :
    A.freeze.f i j = A.f i j := by
  have hn : 0 < A.n := by omega
  have hlt : i * A.n + j < A.m * A.n := idx_lt hi hj
  have h1 : (i * A.n + j) / A.n = i := by
    rw [Nat.mul_comm, Nat.mul_add_div hn, Nat.div_eq_of_lt hj, Nat.add_zero]
  have h2 : (i * A.n + j) % A.n = j := by
    rw [Nat.mul_comm, Nat.mul_add_mod, Nat.mod_eq_of_lt hj]
  simp only [freeze, hi, hj, and_self, if_true]
  rw [Array.getD_eq_getD_getElem?, Array.getElem?_ofFn]
  simp [hlt, h1, h2]

@[simp] theorem mul_m (A B : Mat K) : (A.mul B).m = A.m := rfl
@[simp] theorem mul_n (A B : Mat K) : (A.mul B).n = B.n := rfl
@[simp] theorem selCols_m (A : Mat K) (c : List Nat) : (A.selCols c).m = A.m := rfl
@[simp] theorem selCols_n (A : Mat K) (c : List Nat) : (A.selCols c).n = c.length := rfl
@[simp] theorem selRows_m (A : Mat K) (r : List Nat) : (A.selRows r).m = r.length := rfl
@[simp] theorem selRows_n (A : Mat K) (r : List Nat) : (A.selRows r).n = A.n := rfl
@[simp] theorem hcat_m (A B : Mat K) : (A.hcat B).m = A.m := rfl
@[simp] theorem hcat_n (A B : Mat K) : (A.hcat B).n = A.n + B.n := rfl
@[simp] theorem blockDiag_m (A B : Mat K) : (A.blockDiag B).m = A.m + B.m := rfl
@[simp] theorem blockDiag_n (A B : Mat K) : (A.blockDiag B).n = A.n + B.n := rfl
@[simp] theorem id_m (n : Nat) : (Mat.id n : Mat K).m = n := rfl
@[simp] theorem id_n (n : Nat) : (Mat.id n : Mat K).n = n := rfl
theorem id_f (n i j : Nat) : (Mat.id n : Mat K).f i j = if i = j then 1 else 0 := rfl
theorem selCols_f (A : Mat K) (c : List Nat) (i j : Nat) :
    (A.selCols c).f i j = A.f i (c.getD j 0) := rfl
theorem selRows_f (A : Mat K) (r : List Nat) (i j : Nat) :
    (A.selRows r).f i j = A.f (r.getD i 0) j := rfl
theorem hcat_f (A B : Mat K) (i j : Nat) :
    (A.hcat B).f i j = if j < A.n then A.f i j else B.f i (j - A.n) := rfl
theorem blockDiag_f (A B : Mat K) (i j : Nat) :
    (A.blockDiag B).f i j =
      if i < A.m then (if j < A.n then A.f i j else 0)
      else (if j < A.n then 0 else B.f (i - A.m) (j - A.n)) := rfl

theorem mul_f (A B : Mat K) (i j : Nat) :
    (A.mul B).f i j = ∑ k ∈ range A.n, A.f i k * B.f k j := by
  show sumRange A.n (fun k => if A.f i k = 0 then 0 else A.f i k * B.f k j) = _
  rw [sumRange_eq_sum]
  refine Finset.sum_congr rfl fun k _ => ?_
  split_ifs with h
  · rw [h, zero_mul]
  · rfl

/-- entrywise equality of matrices (same shape, same in-range entries) -/
def Eqv (A B : Mat K) : Prop :=
  A.m = B.m ∧ A.n = B.n ∧ ∀ i < A.m, ∀ j < A.n, A.f i j = B.f i j

theorem Eqv.refl (A : Mat K) : Eqv A A := ⟨rfl, rfl, fun _ _ _ _ => rfl⟩

theorem Eqv.symm {A B : Mat K} (h : Eqv A B) : Eqv B A :=
  ⟨h.1.symm, h.2.1.symm, fun i hi j hj => (h.2.2 i (h.1 ▸ hi) j (h.2.1 ▸ hj)).symm⟩

theorem Eqv.trans {A B C : Mat K} (h : Eqv A B) (h' : Eqv B C) : Eqv A C :=
  ⟨h.1.trans h'.1, h.2.1.trans h'.2.1, fun i hi j hj =>
    (h.2.2 i hi j hj).trans (h'.2.2 i (h.1 ▸ hi) j (h.2.1 ▸ hj))⟩

theorem Eqv.equivalence : Equivalence (Eqv (K := K)) :=
  ⟨Eqv.refl, Eqv.symm, Eqv.trans⟩

theorem freeze_eqv (A : Mat K) : Eqv A.freeze A :=
  ⟨rfl, rfl, fun _ hi _ hj => freeze_f A hi hj⟩

/-- `mul` respects `Eqv` in the left argument -/
theorem Eqv.mul_left {A A' : Mat K} (B : Mat K) (h : Eqv A A') : Eqv (A.mul B) (A'.mul B) := by
  refine ⟨h.1, rfl, fun i hi j _ => ?_⟩
  rw [mul_f, mul_f, ← h.2.1]
  exact Finset.sum_congr rfl fun k hk => by rw [h.2.2 i hi k (Finset.mem_range.1 hk)]

/-- `mul` respects `Eqv` in the right argument (only rows `< A.n` of `B` are used) -/
theorem Eqv.mul_right (A : Mat K) {B B' : Mat K} (hAB : A.n ≤ B.m) (h : Eqv B B') :
    Eqv (A.mul B) (A.mul B') := by
  refine ⟨rfl, h.2.1, fun i _ j hj => ?_⟩
  rw [mul_f, mul_f]
  exact Finset.sum_congr rfl fun k hk => by
    rw [h.2.2 k (lt_of_lt_of_le (Finset.mem_range.1 hk) hAB) j hj]

theorem Eqv.mul {A A' B B' : Mat K} (hAB : A.n ≤ B.m) (hA : Eqv A A') (hB : Eqv B B') :
    Eqv (A.mul B) (A'.mul B') :=
  (Eqv.mul_right A hAB hB).trans (Eqv.mul_left B' hA)

/-- associativity of `mul` (all entries, no shape hypotheses) -/
theorem mul_assoc_f (A B C : Mat K) (i j : Nat) :
    ((A.mul B).mul C).f i j = (A.mul (B.mul C)).f i j := by
  simp only [mul_f, mul_n, Finset.sum_mul, Finset.mul_sum]
  rw [Finset.sum_comm]
  refine Finset.sum_congr rfl fun k _ => Finset.sum_congr rfl fun l _ => ?_
  ring

theorem mul_assoc_eqv (A B C : Mat K) : Eqv ((A.mul B).mul C) (A.mul (B.mul C)) :=
  ⟨rfl, rfl, fun i _ j _ => mul_assoc_f A B C i j⟩

theorem sum_mul_delta (n c : Nat) (a : Nat → K) :
    ∑ k ∈ range n, a k * (if k = c then 1 else 0) = if c < n then a c else 0 := by
  simp [mul_ite, Finset.sum_ite_eq']

theorem sum_delta_mul (n c : Nat) (a : Nat → K) :
    ∑ k ∈ range n, (if c = k then 1 else 0) * a k = if c < n then a c else 0 := by
  simp [ite_mul, Finset.sum_ite_eq]

theorem id_mul_eqv (n : Nat) (A : Mat K) (h : A.m = n) : Eqv ((Mat.id n).mul A) A := by
  refine ⟨h.symm, rfl, fun i hi j _ => ?_⟩
  have hi' : i < n := hi
  rw [mul_f]
  simp only [id_f, id_n, sum_delta_mul, hi', if_true]

theorem mul_id_eqv (n : Nat) (A : Mat K) (h : A.n = n) : Eqv (A.mul (Mat.id n)) A := by
  refine ⟨rfl, h.symm, fun i _ j hj => ?_⟩
  have hj' : j < A.n := by rw [h]; exact hj
  rw [mul_f]
  simp only [id_f, sum_mul_delta, hj', if_true]

theorem mul_selCols (A B : Mat K) (c : List Nat) : (A.mul B).selCols c = A.mul (B.selCols c) := rfl

theorem mul_hcat_f (T A B : Mat K) (i j : Nat) :
    (T.mul (A.hcat B)).f i j = if j < A.n then (T.mul A).f i j else (T.mul B).f i (j - A.n) := by
  simp only [mul_f, hcat_f]
  split_ifs <;> rfl

/-- for a duplicate-free list, `Σ_q δ(i, l[q]) · x = x` if `i ∈ l`, else `0` -/
theorem sum_delta_list (l : List Nat) (hl : l.Nodup) (i : Nat) (g : Nat → K) :
    ∑ q ∈ range l.length, (if i = l.getD q 0 then (1 : K) else 0) * g (l.getD q 0)
      = if i ∈ l then g i else 0 := by
  split_ifs with hmem
  · obtain ⟨q0, hq0, rfl⟩ := List.mem_iff_getElem.1 hmem
    rw [Finset.sum_eq_single q0]
    · rw [List.getD_eq_getElem _ _ hq0, if_pos rfl, one_mul]
    · intro q hq hne
      have hq' : q < l.length := Finset.mem_range.1 hq
      rw [List.getD_eq_getElem _ _ hq', if_neg, zero_mul]
      intro h
      exact hne ((List.Nodup.getElem_inj_iff hl).1 h.symm)
    · intro h; exact absurd (Finset.mem_range.2 hq0) h
  · refine Finset.sum_eq_zero fun q hq => ?_
    have hq' : q < l.length := Finset.mem_range.1 hq
    rw [List.getD_eq_getElem _ _ hq', if_neg, zero_mul]
    intro h
    exact hmem (h ▸ List.getElem_mem hq')

end Mat

/-! ## STEP 2: structure of `represent_fine` (HB case, all rows) -/

namespace HSp

/-- number of active functions on levels `< k` (`ntb k = nt (k-1)`, `ntb 0 = 0`) -/
def ntb (H : HSp K) : Nat → Nat
  | 0 => 0
  | k + 1 => ntb H k + (H.ia k).length

theorem ntb_succ (H : HSp K) (k : Nat) : H.ntb (k + 1) = H.ntb k + (H.ia k).length := rfl

theorem nt_eq (H : HSp K) (l : Nat) : H.nt l = H.ntb (l + 1) := by
  induction l with
  | zero => simp [nt, ntb]
  | succ l ih => rw [nt, ih, ntb_succ H (l + 1)]

theorem actv_of_lt (H : HSp K) {lv k : Nat} (h : k < lv) : H.actv lv k = H.ia k := by
  simp [actv, Nat.ne_of_lt h]

theorem actv_self (H : HSp K) (lv : Nat) : H.actv lv lv = H.ir lv := by
  simp [actv]

/-- the loop of `represent_fine` (no truncation) on the level of the concatenated matrix -/
def repLoopM (H : HSp K) (lv : Nat) : Nat → Mat K → Mat K → Mat K
  | 0, _, M => M
  | k + 1, P, M =>
      repLoopM H lv k ((P.mul (H.Tl k)).freeze)
        (Mat.hcat (((P.mul (H.Tl k)).freeze).selCols (H.actv lv k)) M)

theorem hcatList_cons (m : Nat) (A : Mat K) (bl : List (Mat K)) (h : bl ≠ []) :
    Mat.hcatList m (A :: bl) = Mat.hcat A (Mat.hcatList m bl) := by
  cases bl with
  | nil => exact absurd rfl h
  | cons B bs => rfl

theorem hcatList_repLoop (H : HSp K) (lv m : Nat) : ∀ (k : Nat) (P : Mat K) (bl : List (Mat K)),
    bl ≠ [] → Mat.hcatList m (H.repLoop lv false k P bl) = H.repLoopM lv k P (Mat.hcatList m bl)
  | 0, _, _, _ => rfl
  | k + 1, P, bl, h => by
      show Mat.hcatList m (H.repLoop lv false k ((P.mul (H.Tl k)).freeze)
        (((P.mul (H.Tl k)).freeze).selCols (H.actv lv k) :: bl)) = _
      rw [hcatList_repLoop H lv m k _ _ (List.cons_ne_nil _ _), hcatList_cons _ _ _ h]
      rfl

/-- `represent_fine(lv)` as the matrix-level loop started from `[ id[:, IR_lv] ]` -/
theorem representFine_eq (H : HSp K) (lv : Nat) :
    H.representFine lv false none false
      = H.repLoopM lv lv (Mat.id (H.Nl lv)) ((Mat.id (H.Nl lv)).selCols (H.ir lv)) := by
  show Mat.hcatList _ (H.repLoop lv false lv (Mat.id (H.Nl lv))
    [(Mat.id (H.Nl lv)).selCols (H.actv lv lv)]) = _
  rw [hcatList_repLoop H lv _ lv _ _ (List.cons_ne_nil _ _), actv_self]
  rfl

theorem repLoopM_m (H : HSp K) (lv : Nat) : ∀ (k : Nat) (P M : Mat K), P.m = M.m →
    (H.repLoopM lv k P M).m = M.m
  | 0, _, _, _ => rfl
  | k + 1, P, M, h => by
      show (H.repLoopM lv k _ _).m = _
      refine (repLoopM_m H lv k _ _ ?_).trans h
      rfl

theorem repLoopM_n (H : HSp K) (lv : Nat) : ∀ (k : Nat), k ≤ lv → ∀ (P M : Mat K),
    (H.repLoopM lv k P M).n = H.ntb k + M.n
  | 0, _, _, _ => by simp [repLoopM, ntb]
  | k + 1, hk, P, M => by
      show (H.repLoopM lv k _ _).n = _
      rw [repLoopM_n H lv k (by omega), Mat.hcat_n, Mat.selCols_n, actv_of_lt H (by omega : k < lv),
        ntb_succ, Nat.add_assoc]

/-- the trailing columns of the loop result are the initial matrix -/
theorem repLoopM_f_tail (H : HSp K) (lv : Nat) : ∀ (k : Nat), k ≤ lv → ∀ (P M : Mat K) (i j : Nat),
    (H.repLoopM lv k P M).f i (H.ntb k + j) = M.f i j
  | 0, _, _, _, _, _ => by simp [repLoopM, ntb]
  | k + 1, hk, P, M, i, j => by
      show (H.repLoopM lv k _ _).f i _ = _
      rw [ntb_succ, Nat.add_assoc, repLoopM_f_tail H lv k (by omega), Mat.hcat_f, Mat.selCols_n,
        actv_of_lt H (by omega : k < lv), if_neg (by omega), Nat.add_sub_cancel_left]

/-! ### well-formedness of the inputs -/

structure WF (H : HSp K) : Prop where
  lenIA : H.IA.length = H.N.length
  lenID : H.ID.length = H.N.length
  lenT : H.N.length ≤ H.T.length + 1
  Tm : ∀ l, l + 1 < H.numlevels → (H.Tl l).m = H.Nl (l + 1)
  Tn : ∀ l, l + 1 < H.numlevels → (H.Tl l).n = H.Nl l
  ir_lt : ∀ l, l < H.numlevels → ∀ r ∈ H.ir l, r < H.Nl l
  ir_nodup : ∀ l, l < H.numlevels → (H.ir l).Nodup
  /-- all children of a deactivated function are active or deactivated one level up -/
  child : ∀ l r c, l + 1 < H.numlevels → r < H.Nl (l + 1) → c ∈ H.idl l →
    (H.Tl l).f r c ≠ 0 → r ∈ H.ir (l + 1)

theorem WF.ia_getD_lt {H : HSp K} (hwf : H.WF) {l j : Nat} (hl : l < H.numlevels)
    (hj : j < (H.ia l).length) : (H.ia l).getD j 0 < H.Nl l := by
  rw [List.getD_eq_getElem _ _ hj]
  exact hwf.ir_lt l hl _ (List.mem_append_left _ (List.getElem_mem hj))

theorem WF.idl_getD_lt {H : HSp K} (hwf : H.WF) {l j : Nat} (hl : l < H.numlevels)
    (hj : j < (H.idl l).length) : (H.idl l).getD j 0 < H.Nl l := by
  rw [List.getD_eq_getElem _ _ hj]
  exact hwf.ir_lt l hl _ (List.mem_append_right _ (List.getElem_mem hj))

/-- two runs of the loop (for `lv+1` and for `lv`) whose carried matrices differ by a left
factor `T` produce results whose leading columns differ by the left factor `T` -/
theorem repLoopM_rel (H : HSp K) (hwf : H.WF) (lv : Nat) (hlv : lv + 1 < H.numlevels) (T : Mat K) :
    ∀ (k : Nat), k ≤ lv → ∀ (P' P M' M : Mat K) (c : Nat),
      Mat.Eqv P' (T.mul P) → T.n = P.m → P.n = H.Nl k →
      (∀ i < T.m, ∀ j < c, M'.f i j = (T.mul M).f i j) →
      ∀ i < T.m, ∀ j < H.ntb k + c,
        (H.repLoopM (lv + 1) k P' M').f i j = (T.mul (H.repLoopM lv k P M)).f i j
  | 0, _, _, _, _, _, c, _, _, _, hM => by
      intro i hi j hj
      rw [ntb, Nat.zero_add] at hj
      exact hM i hi j hj
  | k + 1, hk, P', P, M', M, c, hP, hTP, hPn, hM => by
      intro i hi j hj
      have hkl : k + 1 < H.numlevels := by omega
      have hE : Mat.Eqv ((P'.mul (H.Tl k)).freeze) (T.mul ((P.mul (H.Tl k)).freeze)) :=
        (Mat.freeze_eqv _).trans ((Mat.Eqv.mul_left (H.Tl k) hP).trans
          ((Mat.mul_assoc_eqv T P (H.Tl k)).trans
            (Mat.Eqv.mul_right T (le_of_eq hTP) (Mat.freeze_eqv (P.mul (H.Tl k))).symm)))
      show (H.repLoopM (lv + 1) k _ _).f i j = (T.mul (H.repLoopM lv k _ _)).f i j
      rw [ntb_succ, Nat.add_assoc] at hj
      refine repLoopM_rel H hwf lv hlv T k (by omega) _ _ _ _ ((H.ia k).length + c) hE hTP
        (hwf.Tn k hkl) ?_ i hi j hj
      intro i hi j hj
      rw [actv_of_lt H (by omega : k < lv + 1), actv_of_lt H (by omega : k < lv), Mat.mul_hcat_f,
        Mat.hcat_f, Mat.selCols_n, Mat.selCols_n]
      by_cases hjk : j < (H.ia k).length
      · rw [if_pos hjk, if_pos hjk, Mat.selCols_f, ← Mat.mul_selCols, Mat.selCols_f]
        have hcol : (H.ia k).getD j 0 < H.Nl k := hwf.ia_getD_lt (by omega) hjk
        refine hE.2.2 i ?_ _ ?_
        · rw [hE.1]; exact hi
        · rw [hE.2.1]; show _ < (H.Tl k).n; rw [hwf.Tn k hkl]; exact hcol
      · rw [if_neg hjk, if_neg hjk]
        exact hM i hi _ (by omega)

/-- `I_lv := represent_fine(lv)`: shape and trailing block -/
theorem repF_m (H : HSp K) (lv : Nat) : (H.representFine lv false none false).m = H.Nl lv := by
  rw [representFine_eq]
  refine (repLoopM_m H lv lv _ _ ?_).trans ?_ <;> rfl

theorem repF_n (H : HSp K) (lv : Nat) :
    (H.representFine lv false none false).n = H.ntb lv + (H.ir lv).length := by
  rw [representFine_eq, repLoopM_n H lv lv (le_refl _)]; rfl

theorem repF_f_tail (H : HSp K) (lv i q : Nat) :
    (H.representFine lv false none false).f i (H.ntb lv + q)
      = if i = (H.ir lv).getD q 0 then 1 else 0 := by
  rw [representFine_eq, repLoopM_f_tail H lv lv (le_refl _)]; rfl

/-- the leading `nt lv` columns of `I_{lv+1}` are those of `T_lv · I_lv` -/
theorem repF_succ_head (H : HSp K) (hwf : H.WF) (lv : Nat) (hlv : lv + 1 < H.numlevels) :
    ∀ i < H.Nl (lv + 1), ∀ j < H.ntb (lv + 1),
      (H.representFine (lv + 1) false none false).f i j
        = ((H.Tl lv).mul (H.representFine lv false none false)).f i j := by
  intro i hi j hj
  have hTm := hwf.Tm lv hlv
  have hTn := hwf.Tn lv hlv
  rw [representFine_eq, representFine_eq]
  show (H.repLoopM (lv + 1) lv (((Mat.id (H.Nl (lv + 1))).mul (H.Tl lv)).freeze)
      (Mat.hcat ((((Mat.id (H.Nl (lv + 1))).mul (H.Tl lv)).freeze).selCols (H.actv (lv + 1) lv))
        ((Mat.id (H.Nl (lv + 1))).selCols (H.ir (lv + 1))))).f i j = _
  have hP1 : Mat.Eqv (((Mat.id (H.Nl (lv + 1))).mul (H.Tl lv)).freeze)
      ((H.Tl lv).mul (Mat.id (H.Nl lv))) :=
    (Mat.freeze_eqv _).trans ((Mat.id_mul_eqv _ _ hTm).trans (Mat.mul_id_eqv _ _ hTn).symm)
  rw [ntb_succ] at hj
  refine repLoopM_rel H hwf lv hlv (H.Tl lv) lv (le_refl _) _ _ _ _ (H.ia lv).length hP1 hTn rfl
    ?_ i (by rw [hTm]; exact hi) j hj
  intro i hi j hj
  rw [actv_of_lt H (by omega : lv < lv + 1), Mat.hcat_f, Mat.selCols_n, if_pos hj, Mat.selCols_f,
    ← Mat.mul_selCols, Mat.selCols_f]
  have hcol : (H.ia lv).getD j 0 < H.Nl lv := hwf.ia_getD_lt (by omega) hj
  have : (H.ir lv).getD j 0 = (H.ia lv).getD j 0 := List.getD_append _ _ _ _ hj
  rw [this]
  refine hP1.2.2 i ?_ _ ?_
  · rw [hP1.1]; exact hi
  · rw [hP1.2.1]; exact hcol

/-! ## STEP 3: `I_{lv+1} · P^hb_lv = T_lv · I_lv` -/

theorem virtualProlongatorHB_eq (H : HSp K) (lv : Nat) :
    H.virtualProlongatorHB lv = Mat.blockDiag (Mat.id (H.ntb (lv + 1)))
      (((H.Tl lv).selRows (H.ir (lv + 1))).selCols (H.idl lv)) := by
  rw [virtualProlongatorHB, nt_eq]

theorem represent_fine_rec (H : HSp K) (hwf : H.WF) (lv : Nat) (hlv : lv + 1 < H.numlevels) :
    Mat.Eqv ((H.representFine (lv + 1) false none false).mul (H.virtualProlongatorHB lv))
            ((H.Tl lv).mul (H.representFine lv false none false)) := by
  have hTm := hwf.Tm lv hlv
  have hTn := hwf.Tn lv hlv
  refine ⟨?_, ?_, ?_⟩
  · show (H.representFine (lv + 1) false none false).m = (H.Tl lv).m
    rw [repF_m, hTm]
  · show (H.virtualProlongatorHB lv).n = (H.representFine lv false none false).n
    rw [repF_n, virtualProlongatorHB_eq, Mat.blockDiag_n, Mat.id_n, Mat.selCols_n, ntb_succ, ir,
      List.length_append, Nat.add_assoc]
  · intro i hi j hj
    have hi' : i < H.Nl (lv + 1) := by rw [Mat.mul_m, repF_m] at hi; exact hi
    have hj' : j < H.ntb (lv + 1) + (H.idl lv).length := by
      rw [Mat.mul_n, virtualProlongatorHB_eq, Mat.blockDiag_n, Mat.id_n, Mat.selCols_n] at hj
      exact hj
    rw [Mat.mul_f, repF_n, Finset.sum_range_add, virtualProlongatorHB_eq]
    by_cases hjn : j < H.ntb (lv + 1)
    · -- columns of the identity block
      have h1 : ∀ q ∈ range (H.ntb (lv + 1)),
          (H.representFine (lv + 1) false none false).f i q *
            (Mat.blockDiag (Mat.id (H.ntb (lv + 1)))
              (((H.Tl lv).selRows (H.ir (lv + 1))).selCols (H.idl lv))).f q j
          = (H.representFine (lv + 1) false none false).f i q * (if q = j then 1 else 0) := by
        intro q hq
        rw [Mat.blockDiag_f, Mat.id_m, Mat.id_n, if_pos (Finset.mem_range.1 hq), if_pos hjn,
          Mat.id_f]
      have h2 : ∀ q ∈ range (H.ir (lv + 1)).length,
          (H.representFine (lv + 1) false none false).f i (H.ntb (lv + 1) + q) *
            (Mat.blockDiag (Mat.id (H.ntb (lv + 1)))
              (((H.Tl lv).selRows (H.ir (lv + 1))).selCols (H.idl lv))).f (H.ntb (lv + 1) + q) j
          = 0 := by
        intro q _
        rw [Mat.blockDiag_f, Mat.id_m, Mat.id_n, if_neg (by omega), if_pos hjn, mul_zero]
      rw [Finset.sum_congr rfl h1, Finset.sum_eq_zero h2, Mat.sum_mul_delta, if_pos hjn, add_zero]
      exact repF_succ_head H hwf lv hlv i hi' j hjn
    · -- columns of the block `T_lv[IR_{lv+1}, ID_lv]`
      have hc : j - H.ntb (lv + 1) < (H.idl lv).length := by omega
      have hd : (H.idl lv).getD (j - H.ntb (lv + 1)) 0 < H.Nl lv := hwf.idl_getD_lt (by omega) hc
      have hdmem : (H.idl lv).getD (j - H.ntb (lv + 1)) 0 ∈ H.idl lv := by
        rw [List.getD_eq_getElem _ _ hc]; exact List.getElem_mem hc
      have h1 : ∀ q ∈ range (H.ntb (lv + 1)),
          (H.representFine (lv + 1) false none false).f i q *
            (Mat.blockDiag (Mat.id (H.ntb (lv + 1)))
              (((H.Tl lv).selRows (H.ir (lv + 1))).selCols (H.idl lv))).f q j
          = 0 := by
        intro q hq
        rw [Mat.blockDiag_f, Mat.id_m, Mat.id_n, if_pos (Finset.mem_range.1 hq), if_neg hjn,
          mul_zero]
      have h2 : ∀ q ∈ range (H.ir (lv + 1)).length,
          (H.representFine (lv + 1) false none false).f i (H.ntb (lv + 1) + q) *
            (Mat.blockDiag (Mat.id (H.ntb (lv + 1)))
              (((H.Tl lv).selRows (H.ir (lv + 1))).selCols (H.idl lv))).f (H.ntb (lv + 1) + q) j
          = (if i = (H.ir (lv + 1)).getD q 0 then (1 : K) else 0) *
              (fun r => (H.Tl lv).f r ((H.idl lv).getD (j - H.ntb (lv + 1)) 0))
                ((H.ir (lv + 1)).getD q 0) := by
        intro q _
        rw [repF_f_tail, Mat.blockDiag_f, Mat.id_m, Mat.id_n,
          if_neg (show ¬ H.ntb (lv + 1) + q < H.ntb (lv + 1) by omega), if_neg hjn,
          Nat.add_sub_cancel_left, Mat.selCols_f, Mat.selRows_f]
      rw [Finset.sum_eq_zero h1, Finset.sum_congr rfl h2,
        Mat.sum_delta_list _ (hwf.ir_nodup (lv + 1) hlv) i
          (fun r => (H.Tl lv).f r ((H.idl lv).getD (j - H.ntb (lv + 1)) 0)), zero_add]
      -- right-hand side
      have hj2 : j = H.ntb lv + ((H.ia lv).length + (j - H.ntb (lv + 1))) := by
        rw [ntb_succ] at hjn ⊢; omega
      have h3 : ∀ r ∈ range (H.Tl lv).n,
          (H.Tl lv).f i r * (H.representFine lv false none false).f r j
          = (H.Tl lv).f i r *
              (if r = (H.idl lv).getD (j - H.ntb (lv + 1)) 0 then 1 else 0) := by
        intro r _
        have : (H.ir lv).getD ((H.ia lv).length + (j - H.ntb (lv + 1))) 0
            = (H.idl lv).getD (j - H.ntb (lv + 1)) 0 := by
          rw [ir, List.getD_append_right _ _ _ _ (by omega), Nat.add_sub_cancel_left]
        conv_lhs => rw [hj2]
        rw [repF_f_tail, this]
      rw [Mat.mul_f, Finset.sum_congr rfl h3, Mat.sum_mul_delta, hTn, if_pos hd]
      split_ifs with hmem
      · rfl
      · by_contra hne
        exact hmem (hwf.child lv i _ hlv hi' hdmem (Ne.symm hne))

/-! ### composition over the levels -/

/-- `vprodN H d l = P^hb_{l+d-1} · … · P^hb_l` (`d` factors) -/
def vprodN (H : HSp K) : Nat → Nat → Mat K
  | 0, l => Mat.id (H.ntb l + (H.ir l).length)
  | d + 1, l => (vprodN H d (l + 1)).mul (H.virtualProlongatorHB l)

/-- `tprodN H d l = T_{l+d-1} · … · T_l` (`d` factors) -/
def tprodN (H : HSp K) : Nat → Nat → Mat K
  | 0, l => Mat.id (H.Nl l)
  | d + 1, l => (tprodN H d (l + 1)).mul (H.Tl l)

/-- `P^hb_{L-2} · … · P^hb_l`, `L = numlevels` -/
def vprod (H : HSp K) (l : Nat) : Mat K := vprodN H (H.numlevels - 1 - l) l

/-- `T_{L-2} · … · T_l`, `L = numlevels` -/
def tprod (H : HSp K) (l : Nat) : Mat K := tprodN H (H.numlevels - 1 - l) l

theorem tprodN_n (H : HSp K) (hwf : H.WF) : ∀ (d l : Nat), l + d < H.numlevels →
    (H.tprodN d l).n = H.Nl l
  | 0, _, _ => rfl
  | d + 1, l, h => by
      show (H.Tl l).n = _
      exact hwf.Tn l (by omega)

theorem virtual_composition_aux (H : HSp K) (hwf : H.WF) : ∀ (d l : Nat), l + d < H.numlevels →
    Mat.Eqv ((H.representFine (l + d) false none false).mul (H.vprodN d l))
            ((H.tprodN d l).mul (H.representFine l false none false))
  | 0, l, _ => by
      show Mat.Eqv ((H.representFine l false none false).mul (Mat.id _))
        ((Mat.id _).mul (H.representFine l false none false))
      exact (Mat.mul_id_eqv _ _ (repF_n H l)).trans (Mat.id_mul_eqv _ _ (repF_m H l)).symm
  | d + 1, l, h => by
      have ih := virtual_composition_aux H hwf d (l + 1) (by omega)
      have hidx : l + (d + 1) = l + 1 + d := by omega
      rw [hidx]
      show Mat.Eqv ((H.representFine (l + 1 + d) false none false).mul
          ((H.vprodN d (l + 1)).mul (H.virtualProlongatorHB l)))
        (((H.tprodN d (l + 1)).mul (H.Tl l)).mul (H.representFine l false none false))
      have hn : (H.tprodN d (l + 1)).n
          ≤ ((H.representFine (l + 1) false none false).mul (H.virtualProlongatorHB l)).m := by
        rw [tprodN_n H hwf d (l + 1) (by omega), Mat.mul_m, repF_m]
      exact (Mat.mul_assoc_eqv _ _ _).symm.trans
        ((Mat.Eqv.mul_left _ ih).trans
          ((Mat.mul_assoc_eqv _ _ _).trans
            ((Mat.Eqv.mul_right _ hn (represent_fine_rec H hwf l (by omega))).trans
              (Mat.mul_assoc_eqv _ _ _).symm)))

/-- `I_{L-1} · (P^hb_{L-2} ⋯ P^hb_l) = (T_{L-2} ⋯ T_l) · I_l` -/
theorem virtual_composition (H : HSp K) (hwf : H.WF) (l : Nat) (hl : l + 1 ≤ H.numlevels) :
    Mat.Eqv ((H.representFine (H.numlevels - 1) false none false).mul (H.vprod l))
            ((H.tprod l).mul (H.representFine l false none false)) := by
  have h := virtual_composition_aux H hwf (H.numlevels - 1 - l) l (by omega)
  have hidx : l + (H.numlevels - 1 - l) = H.numlevels - 1 := by omega
  rw [hidx] at h
  exact h

/-! ### closed form of `represent_fine` through tensor-product prolongation products -/

/-- `P · T_{k-1} · … · T_{k-d}`, tabulated after every product exactly as the loop does -/
def loopProd (H : HSp K) (P : Mat K) (k : Nat) : Nat → Mat K
  | 0 => P
  | d + 1 => ((loopProd H P k d).mul (H.Tl (k - (d + 1)))).freeze

/-- the same product without the intermediate tabulation -/
def loopProd' (H : HSp K) (P : Mat K) (k : Nat) : Nat → Mat K
  | 0 => P
  | d + 1 => (loopProd' H P k d).mul (H.Tl (k - (d + 1)))

/-- `tpUp H lv d = T_{lv-1} · … · T_{lv-d}` (`N_lv × N_{lv-d}`), `tpUp H lv 0 = id` -/
def tpUp (H : HSp K) (lv d : Nat) : Mat K := loopProd H (Mat.id (H.Nl lv)) lv d

def tpUp' (H : HSp K) (lv d : Nat) : Mat K := loopProd' H (Mat.id (H.Nl lv)) lv d

theorem loopProd_eqv (H : HSp K) (P : Mat K) (k : Nat) : ∀ d : Nat,
    Mat.Eqv (H.loopProd P k d) (H.loopProd' P k d)
  | 0 => Mat.Eqv.refl _
  | d + 1 => (Mat.freeze_eqv _).trans (Mat.Eqv.mul_left _ (loopProd_eqv H P k d))

theorem tpUp_eqv (H : HSp K) (lv d : Nat) : Mat.Eqv (H.tpUp lv d) (H.tpUp' lv d) :=
  loopProd_eqv H _ lv d

theorem loopProd_shift (H : HSp K) (P : Mat K) (k : Nat) : ∀ d : Nat,
    H.loopProd ((P.mul (H.Tl k)).freeze) k d = H.loopProd P (k + 1) (d + 1)
  | 0 => by
      show _ = ((P.mul (H.Tl (k + 1 - (0 + 1)))).freeze)
      rw [show k + 1 - (0 + 1) = k by omega]
      rfl
  | d + 1 => by
      show ((H.loopProd ((P.mul (H.Tl k)).freeze) k d).mul (H.Tl (k - (d + 1)))).freeze
        = ((H.loopProd P (k + 1) (d + 1)).mul (H.Tl (k + 1 - (d + 1 + 1)))).freeze
      rw [loopProd_shift H P k d, show k + 1 - (d + 1 + 1) = k - (d + 1) by omega]

/-- block `k' < k` of the loop result consists of the columns `IA_{k'}` of `P·T_{k-1}⋯T_{k'}` -/
theorem repLoopM_f_block (H : HSp K) (lv : Nat) : ∀ (k : Nat), k ≤ lv → ∀ (P M : Mat K) (k' : Nat),
    k' < k → ∀ (i q : Nat), q < (H.ia k').length →
    (H.repLoopM lv k P M).f i (H.ntb k' + q) = (H.loopProd P k (k - k')).f i ((H.ia k').getD q 0)
  | 0, _, _, _, _, h, _, _, _ => absurd h (Nat.not_lt_zero _)
  | k + 1, hk, P, M, k', hk', i, q, hq => by
      show (H.repLoopM lv k _ _).f i _ = _
      by_cases hkk : k' = k
      · subst hkk
        rw [repLoopM_f_tail H lv k' (by omega), Mat.hcat_f, Mat.selCols_n,
          actv_of_lt H (by omega : k' < lv), if_pos hq, Mat.selCols_f,
          show k' + 1 - k' = 0 + 1 by omega, ← loopProd_shift]
        rfl
      · rw [repLoopM_f_block H lv k (by omega) _ _ k' (by omega) i q hq, loopProd_shift,
          show k + 1 - k' = k - k' + 1 by omega]

/-- **closed form of `represent_fine(lv)`** (HB, all rows): the column with index `ntb k + q`
(`ntb k` = number of active functions on levels `< k`, `q < |act_indices[k]|`) is the column
`act_indices[k][q]` of `T_{lv-1} ⋯ T_k`. -/
theorem representFine_closed (H : HSp K) (lv k : Nat) (hk : k ≤ lv) (i q : Nat)
    (hq : q < (H.actv lv k).length) :
    (H.representFine lv false none false).f i (H.ntb k + q)
      = (H.tpUp lv (lv - k)).f i ((H.actv lv k).getD q 0) := by
  by_cases hkk : k = lv
  · subst hkk
    rw [repF_f_tail, actv_self, Nat.sub_self]
    rfl
  · have hlt : k < lv := by omega
    rw [actv_of_lt H hlt] at hq ⊢
    rw [representFine_eq]
    exact repLoopM_f_block H lv lv (le_refl _) _ _ k hlt i q hq

/-- `tprodN` (used in `virtual_composition`) is the untabulated `tpUp'` -/
theorem tprodN_eq_tpUp' (H : HSp K) : ∀ (d l : Nat), H.tprodN d l = H.tpUp' (l + d) d
  | 0, _ => rfl
  | d + 1, l => by
      show (H.tprodN d (l + 1)).mul (H.Tl l)
        = (H.loopProd' (Mat.id (H.Nl (l + (d + 1)))) (l + (d + 1)) d).mul
            (H.Tl (l + (d + 1) - (d + 1)))
      rw [tprodN_eq_tpUp' H d (l + 1), show l + (d + 1) - (d + 1) = l by omega,
        show l + (d + 1) = l + 1 + d by omega]
      rfl

end HSp

/-! ## STEP 4 -/

/-- `invArr` with a general start index of the enumeration -/
def invFold (n : Nat) (l : List Nat) (s : Nat) : Array (Option Nat) :=
  (l.zipIdx s).foldr (fun (xq : Nat × Nat) a => a.setIfInBounds xq.1 (some xq.2))
    (Array.replicate n none)

theorem invArr_eq (n : Nat) (l : List Nat) : invArr n l = invFold n l 0 := rfl

theorem invFold_cons (n x : Nat) (l : List Nat) (s : Nat) :
    invFold n (x :: l) s = (invFold n l (s + 1)).setIfInBounds x (some s) := rfl

theorem invFold_size (n : Nat) : ∀ (l : List Nat) (s : Nat), (invFold n l s).size = n
  | [], _ => by simp [invFold]
  | x :: l, s => by rw [invFold_cons, Array.size_setIfInBounds, invFold_size n l]

theorem pos?_invFold (n : Nat) : ∀ (l : List Nat) (s r : Nat), r < n →
    pos? (invFold n l s) r = if r ∈ l then some (s + l.idxOf r) else none
  | [], s, r, hr => by
      simp [pos?, invFold, hr]
  | x :: l, s, r, hr => by
      have ih := pos?_invFold n l (s + 1) r hr
      unfold pos? at ih ⊢
      rw [Array.getD_eq_getD_getElem?] at ih ⊢
      rw [invFold_cons, Array.getElem?_setIfInBounds, invFold_size]
      by_cases hx : x = r
      · subst hx
        simp [hr]
      · rw [if_neg hx, ih, List.idxOf_cons_ne _ hx]
        have : r ≠ x := fun h => hx h.symm
        simp only [List.mem_cons, this, false_or]
        split_ifs
        · congr 1; omega
        · rfl

/-- `pos? (invArr n l) i` is the position of the first occurrence of `i` in `l` -/
theorem pos?_invArr (n : Nat) (l : List Nat) (r : Nat) (hr : r < n) :
    pos? (invArr n l) r = if r ∈ l then some (l.idxOf r) else none := by
  rw [invArr_eq, pos?_invFold n l 0 r hr]; simp

namespace HSp

theorem levelwiseCoeffs_getD (H : HSp K) (c : Nat → K) (l r : Nat) (hl : l < H.numlevels)
    (hr : r < H.Nl l) :
    ((H.levelwiseCoeffs c).getD l []).getD r 0
      = if r ∈ H.ia l then c (H.ntb l + (H.ia l).idxOf r) else 0 := by
  have hoff : (if l = 0 then 0 else H.nt (l - 1)) = H.ntb l := by
    cases l with
    | zero => rfl
    | succ l => rw [if_neg (Nat.succ_ne_zero l), Nat.add_sub_cancel, nt_eq]
  have hrow : (H.levelwiseCoeffs c).getD l [] = (List.range (H.Nl l)).map fun r =>
      match pos? (invArr (H.Nl l) (H.ia l)) r with
      | some q => c (H.ntb l + q)
      | none => 0 := by
    unfold levelwiseCoeffs
    rw [List.getD_eq_getElem?_getD, List.getElem?_map, List.getElem?_range hl]
    simp only [Option.map_some, Option.getD_some, hoff]
    rfl
  rw [hrow, List.getD_eq_getElem?_getD, List.getElem?_map, List.getElem?_range hr]
  simp only [Option.map_some, Option.getD_some]
  rw [pos?_invArr _ _ _ hr]
  split_ifs <;> rfl

theorem ntb_mono (H : HSp K) {a b : Nat} (h : a ≤ b) : H.ntb a ≤ H.ntb b := by
  induction h with
  | refl => exact le_refl _
  | step _ ih => rw [ntb_succ]; omega

theorem sum_ntb (H : HSp K) (F : Nat → K) : ∀ L : Nat,
    ∑ j ∈ range (H.ntb L), F j = ∑ l ∈ range L, ∑ q ∈ range (H.ia l).length, F (H.ntb l + q)
  | 0 => by simp [ntb]
  | L + 1 => by rw [ntb_succ, Finset.sum_range_add, sum_ntb H F L, Finset.sum_range_succ]

end HSp

/-- re-indexing of a sum over the positions of a duplicate-free index list -/
theorem sum_reindex (N : Nat) (l : List Nat) (hl : l.Nodup) (hlt : ∀ x ∈ l, x < N)
    (g b : Nat → K) :
    ∑ r ∈ range N, (if r ∈ l then g (l.idxOf r) else 0) * b r
      = ∑ q ∈ range l.length, g q * b (l.getD q 0) := by
  have h1 : ∀ r ∈ range N, (if r ∈ l then g (l.idxOf r) else 0) * b r
      = ∑ q ∈ range l.length, (if r = l.getD q 0 then (1 : K) else 0) *
          (fun x => g (l.idxOf x) * b x) (l.getD q 0) := by
    intro r _
    rw [Mat.sum_delta_list l hl r (fun x => g (l.idxOf x) * b x)]
    split_ifs
    · rfl
    · rw [zero_mul]
  rw [Finset.sum_congr rfl h1, Finset.sum_comm]
  refine Finset.sum_congr rfl fun q hq => ?_
  have hq' : q < l.length := Finset.mem_range.1 hq
  have hx : l.getD q 0 < N := by
    rw [List.getD_eq_getElem _ _ hq']; exact hlt _ (List.getElem_mem hq')
  have hidx : l.idxOf (l.getD q 0) = q := by
    rw [List.getD_eq_getElem _ _ hq']; exact hl.idxOf_getElem q hq'
  rw [← Finset.sum_mul]
  simp only [Finset.sum_ite_eq', Finset.mem_range, hx, if_true, one_mul, hidx]

namespace HSp

theorem WF.ir_getD_lt {H : HSp K} (hwf : H.WF) {l j : Nat} (hl : l < H.numlevels)
    (hj : j < (H.ir l).length) : (H.ir l).getD j 0 < H.Nl l := by
  rw [List.getD_eq_getElem _ _ hj]
  exact hwf.ir_lt l hl _ (List.getElem_mem hj)

/-- the trailing columns of `I_lv` reproduce the level-`lv` basis functions `IR_lv` -/
theorem repF_tail_eval (H : HSp K) (hwf : H.WF) (B : Nat → Nat → K) (lv : Nat)
    (hlv : lv < H.numlevels) (q : Nat) (hq : q < (H.ir lv).length) :
    ∑ s ∈ range (H.Nl lv), (H.representFine lv false none false).f s (H.ntb lv + q) * B lv s
      = B lv ((H.ir lv).getD q 0) := by
  have hx := hwf.ir_getD_lt hlv hq
  simp only [repF_f_tail, ite_mul, one_mul, zero_mul, Finset.sum_ite_eq', Finset.mem_range, hx,
    if_true]

/-- the columns of `I_lv` belonging to a coarser level `l < lv` represent the active functions
of level `l` in the level-`lv` basis (given the two-scale relation) -/
theorem repF_head_eval (H : HSp K) (hwf : H.WF) (B : Nat → Nat → K)
    (hB : ∀ l r, l + 1 < H.numlevels → r < H.Nl l →
      B l r = ∑ s ∈ range (H.Nl (l + 1)), (H.Tl l).f s r * B (l + 1) s) :
    ∀ lv : Nat, lv < H.numlevels → ∀ l, l < lv → ∀ q, q < (H.ia l).length →
      ∑ s ∈ range (H.Nl lv), (H.representFine lv false none false).f s (H.ntb l + q) * B lv s
        = B l ((H.ia l).getD q 0)
  | 0, _, _, h, _, _ => absurd h (Nat.not_lt_zero _)
  | lv + 1, hlv, l, hl, q, hq => by
      have hj : H.ntb l + q < H.ntb (lv + 1) := by
        have := H.ntb_mono (show l + 1 ≤ lv + 1 by omega)
        rw [ntb_succ] at this; omega
      have hTn := hwf.Tn lv hlv
      have h1 : ∀ s ∈ range (H.Nl (lv + 1)),
          (H.representFine (lv + 1) false none false).f s (H.ntb l + q) * B (lv + 1) s
          = ∑ r ∈ range (H.Nl lv), (H.representFine lv false none false).f r (H.ntb l + q) *
              ((H.Tl lv).f s r * B (lv + 1) s) := by
        intro s hs
        rw [repF_succ_head H hwf lv hlv s (Finset.mem_range.1 hs) _ hj, Mat.mul_f, hTn,
          Finset.sum_mul]
        exact Finset.sum_congr rfl fun r _ => by ring
      rw [Finset.sum_congr rfl h1, Finset.sum_comm]
      have h2 : ∀ r ∈ range (H.Nl lv),
          ∑ s ∈ range (H.Nl (lv + 1)), (H.representFine lv false none false).f r (H.ntb l + q) *
              ((H.Tl lv).f s r * B (lv + 1) s)
          = (H.representFine lv false none false).f r (H.ntb l + q) * B lv r := by
        intro r hr
        rw [← Finset.mul_sum, ← hB lv r hlv (Finset.mem_range.1 hr)]
      rw [Finset.sum_congr rfl h2]
      by_cases hll : l = lv
      · subst hll
        have hq' : q < (H.ir l).length := by rw [ir, List.length_append]; omega
        rw [repF_tail_eval H hwf B l (by omega) q hq']
        congr 1
        exact List.getD_append _ _ _ _ hq
      · exact repF_head_eval H hwf B hB lv (by omega) l (by omega) q hq

/-- **`coeffs_to_levelwise_funcs` evaluates to the hierarchical spline**: for level bases `B l r`
(values of any fixed linear functional on the tensor-product B-splines) obeying the two-scale
relation, the sum of the level-wise functions equals the level-`L-1` function with coefficients
`represent_fine(L-1) · c`. -/
theorem levelwise_eval (H : HSp K) (hwf : H.WF) (hL : 0 < H.numlevels) (B : Nat → Nat → K)
    (hB : ∀ l r, l + 1 < H.numlevels → r < H.Nl l →
      B l r = ∑ s ∈ range (H.Nl (l + 1)), (H.Tl l).f s r * B (l + 1) s)
    (c : Nat → K) :
    ∑ l ∈ range H.numlevels, ∑ r ∈ range (H.Nl l),
        ((H.levelwiseCoeffs c).getD l []).getD r 0 * B l r
      = ∑ s ∈ range (H.Nl (H.numlevels - 1)),
          (∑ j ∈ range H.numdofs,
            (H.representFine (H.numlevels - 1) false none false).f s j * c j)
          * B (H.numlevels - 1) s := by
  have hnd : H.numdofs = H.ntb H.numlevels := by
    unfold numdofs
    rw [if_neg (by omega), nt_eq, Nat.sub_add_cancel hL]
  -- left-hand side
  have hlhs : ∀ l ∈ range H.numlevels, ∑ r ∈ range (H.Nl l),
        ((H.levelwiseCoeffs c).getD l []).getD r 0 * B l r
      = ∑ q ∈ range (H.ia l).length, c (H.ntb l + q) * B l ((H.ia l).getD q 0) := by
    intro l hl
    have hl' : l < H.numlevels := Finset.mem_range.1 hl
    have h1 : ∀ r ∈ range (H.Nl l), ((H.levelwiseCoeffs c).getD l []).getD r 0 * B l r
        = (if r ∈ H.ia l then (fun q => c (H.ntb l + q)) ((H.ia l).idxOf r) else 0) * B l r := by
      intro r hr
      rw [levelwiseCoeffs_getD H c l r hl' (Finset.mem_range.1 hr)]
    rw [Finset.sum_congr rfl h1]
    exact sum_reindex (K := K) (H.Nl l) (H.ia l) (List.Nodup.of_append_left (hwf.ir_nodup l hl'))
      (fun x hx => hwf.ir_lt l hl' x (List.mem_append_left _ hx))
      (fun q => c (H.ntb l + q)) (B l)
  rw [Finset.sum_congr rfl hlhs]
  -- right-hand side
  have hrhs : ∑ s ∈ range (H.Nl (H.numlevels - 1)),
        (∑ j ∈ range H.numdofs,
          (H.representFine (H.numlevels - 1) false none false).f s j * c j)
        * B (H.numlevels - 1) s
      = ∑ j ∈ range (H.ntb H.numlevels), c j *
          ∑ s ∈ range (H.Nl (H.numlevels - 1)),
            (H.representFine (H.numlevels - 1) false none false).f s j * B (H.numlevels - 1) s := by
    rw [hnd]
    simp only [Finset.sum_mul, Finset.mul_sum]
    rw [Finset.sum_comm]
    exact Finset.sum_congr rfl fun j _ => Finset.sum_congr rfl fun s _ => by ring
  rw [hrhs, sum_ntb]
  refine Finset.sum_congr rfl fun l hl => Finset.sum_congr rfl fun q hq => ?_
  have hl' : l < H.numlevels := Finset.mem_range.1 hl
  have hq' : q < (H.ia l).length := Finset.mem_range.1 hq
  congr 1
  by_cases hll : l = H.numlevels - 1
  · rw [← hll]
    have hq2 : q < (H.ir l).length := by rw [ir, List.length_append]; omega
    rw [repF_tail_eval H hwf B l hl' q hq2]
    congr 1
    exact (List.getD_append _ _ _ _ hq').symm
  · exact (repF_head_eval H hwf B hB (H.numlevels - 1) (by omega) l (by omega) q hq').symm

end HSp


/-- `levelwise_eval` without the hypothesis `0 < numlevels` (both sides are empty sums otherwise) -/
theorem HSp.levelwise_eval' (H : HSp K) (hwf : H.WF) (B : Nat → Nat → K)
    (hB : ∀ l r, l + 1 < H.numlevels → r < H.Nl l →
      B l r = ∑ s ∈ range (H.Nl (l + 1)), (H.Tl l).f s r * B (l + 1) s)
    (c : Nat → K) :
    ∑ l ∈ range H.numlevels, ∑ r ∈ range (H.Nl l),
        ((H.levelwiseCoeffs c).getD l []).getD r 0 * B l r
      = ∑ s ∈ range (H.Nl (H.numlevels - 1)),
          (∑ j ∈ range H.numdofs,
            (H.representFine (H.numlevels - 1) false none false).f s j * c j)
          * B (H.numlevels - 1) s := by
  by_cases hL : 0 < H.numlevels
  · exact H.levelwise_eval hwf hL B hB c
  · have hN : H.N = [] := List.length_eq_zero_iff.1 (by unfold HSp.numlevels at hL; omega)
    simp [HSp.numlevels, HSp.Nl, hN]

end Pyiga.Transfer
