/-
C08 `format_layout` lifted to whole finite maps: `blocked = Π·packed·Πᵀ` (COO duplicate summation),
entrywise form for in-range patterns, and the rotation of the two loop nests (`loopNest_rotate_stmt`).
-/
import Pyiga.Proofs.AsmFormat
import Pyiga.Proofs.AsmSum
import Pyiga.Proofs.AsmSym

namespace Pyiga.Asm
open Pyiga.Index Pyiga.ML

variable {α : Type} [AddCommMonoid α]

theorem sum_filter_map {β : Type} (t : List β) (P : β → Bool) (v : β → α) :
    ((t.filter P).map v).sum = (t.map (fun x => if P x then v x else 0)).sum := by
  induction t with
  | nil => simp
  | cons x xs ih =>
    by_cases h : P x = true
    · simp [List.filter_cons, h, ih]
    · simp [List.filter_cons, h, ih]

theorem cooGet_map_eq_sum {γ : Type} (l : List γ) (f : γ → Nat × Nat × α) (i j : Nat) :
    cooGet (l.map f) i j =
      (l.map (fun x => if (f x).1 = i ∧ (f x).2.1 = j then (f x).2.2 else 0)).sum := by
  rw [cooGet_eq_sum, sum_filter_map, List.map_map]
  apply congrArg
  apply List.map_congr_left
  intro x _
  simp only [Function.comp]
  by_cases h : (f x).1 = i ∧ (f x).2.1 = j
  · simp [h]
  · simp [h]

theorem sum_comm_lists {β γ : Type} (L1 : List β) (L2 : List γ) (f : β → γ → α) :
    (L1.map (fun x => (L2.map (f x)).sum)).sum = (L2.map (fun y => (L1.map (fun x => f x y)).sum)).sum := by
  induction L1 with
  | nil => simp
  | cons a as ih =>
    simp only [List.map_cons, List.sum_cons, ih]
    rw [← List.sum_map_add]

theorem loopNest_length : ∀ (NN : List Nat) (ν : List Nat), ν ∈ loopNest NN → ν.length = NN.length
  | [], ν, h => by simp [loopNest] at h; simp [h]
  | n :: NN, ν, h => by
    cases ν with
    | nil =>
      exfalso
      change [] ∈ (List.range n).flatMap (fun i => (loopNest NN).map (i :: ·)) at h
      simp at h
    | cons i q =>
      rw [mem_loopNest_cons] at h
      simp [loopNest_length NN q h.2]

theorem nest_sum_snoc (NN : List Nat) (n : Nat) (F : List Nat → α) :
    ((loopNest (NN ++ [n])).map F).sum =
      ((loopNest NN).map (fun μ => ((List.range n).map (fun m => F (μ ++ [m]))).sum)).sum := by
  induction NN generalizing F with
  | nil =>
    rw [List.nil_append, nest_sum_cons]
    simp [loopNest]
  | cons a NN ih =>
    rw [List.cons_append, nest_sum_cons, nest_sum_cons]
    apply congrArg
    apply List.map_congr_left
    intro i _
    rw [ih]
    rfl

theorem denseIJ_mem (m n : Nat) (e : Nat × Nat) (h : e ∈ denseIJ m n) : e.1 < m ∧ e.2 < n := by
  unfold denseIJ at h
  simp only [List.mem_flatMap, List.mem_range, List.mem_map] at h
  obtain ⟨i, hi, j, hj, rfl⟩ := h
  exact ⟨hi, hj⟩

theorem denseIJ_getD_lt (m n k : Nat) (hk : k < (denseIJ m n).length) :
    ((denseIJ m n).getD k (0, 0)).1 < m ∧ ((denseIJ m n).getD k (0, 0)).2 < n := by
  rw [List.getD_eq_getElem _ _ hk]
  exact denseIJ_mem m n _ (List.getElem_mem hk)

/-- relabelling of a triple by the layout permutation (rows with `nc1`, columns with `nc0`) -/
def permTriple (Nr Nc nc1 nc0 : Nat) (x : Nat × Nat × α) : Nat × Nat × α :=
  (packedToBlocked Nr nc1 x.1, packedToBlocked Nc nc0 x.2.1, x.2.2)

/-- **format_layout as finite maps**: the matrix denoted by the blocked ML matrix is the matrix
denoted by the packed one with rows and columns relabelled by `Π`, i.e. `blocked = Π·packed·Πᵀ`:
for every position the summed value (COO duplicate summation) agrees. -/
theorem blocked_eq_perm_packed (bs : List (Nat × Nat)) (bidx : List Pattern) (nc1 nc0 : Nat)
    (rd : List Nat → Nat → α) (hbs : bs.length = bidx.length) (i j : Nat) :
    cooGet (blockedTriplesWith bs bidx nc1 nc0 rd) i j =
      cooGet ((packedTriplesWith bs bidx nc1 nc0 rd).map
        (permTriple (prod (bs.map (·.1))) (prod (bs.map (·.2))) nc1 nc0)) i j := by
  unfold blockedTriplesWith packedTriplesWith
  simp only [List.map_cons, List.map_append, List.map_nil, List.map_map]
  rw [cooGet_map_eq_sum, cooGet_map_eq_sum, nest_sum_cons, nest_sum_snoc, sum_comm_lists]
  apply congrArg
  apply List.map_congr_left
  intro μ hμ
  apply congrArg
  apply List.map_congr_left
  intro m hm
  rw [List.mem_range] at hm
  have hlen : μ.length = bidx.length := by
    have := loopNest_length _ μ hμ
    simpa using this
  have hd := denseIJ_getD_lt nc1 nc0 m hm
  have hpos := entryAt_blocked_packed bs bidx nc1 nc0 (denseIJ nc1 nc0) μ m hlen hbs hd.1 hd.2
  simp only at hpos
  simp only [Function.comp, permTriple]
  rw [hpos]
  have e1 : List.take bidx.length (μ ++ [m]) = μ := by rw [← hlen]; simp
  have e2 : (μ ++ [m]).getD bidx.length 0 = m := by rw [← hlen]; simp
  simp only [List.drop_succ_cons, List.drop_zero, List.getD_cons_zero, e1, e2]

/-- relabelling by an injective (on the occurring positions) permutation does not merge entries -/
theorem cooGet_permTriple (t : Triples α) (Nr Nc nc1 nc0 r c : Nat)
    (ht : ∀ x ∈ t, x.1 < Nr * nc1 ∧ x.2.1 < Nc * nc0) (hr : r < Nr * nc1) (hc : c < Nc * nc0) :
    cooGet (t.map (permTriple Nr Nc nc1 nc0)) (packedToBlocked Nr nc1 r) (packedToBlocked Nc nc0 c) = cooGet t r c := by
  rw [cooGet_map_eq_sum, cooGet_eq_sum, sum_filter_map]
  apply congrArg
  apply List.map_congr_left
  intro x hx
  obtain ⟨h1, h2⟩ := ht x hx
  simp only [permTriple]
  by_cases h : x.1 = r ∧ x.2.1 = c
  · simp [h.1, h.2]
  · have : ¬ (packedToBlocked Nr nc1 x.1 = packedToBlocked Nr nc1 r ∧ packedToBlocked Nc nc0 x.2.1 = packedToBlocked Nc nc0 c) := by
      intro hh
      exact h ⟨packedToBlocked_inj Nr nc1 _ _ h1 hr hh.1, packedToBlocked_inj Nc nc0 _ _ h2 hc hh.2⟩
    simp [h, this]

/-- entrywise form: `blocked[Π r, Π c] = packed[r, c]` for in-range positions -/
theorem blocked_entry_eq_packed (bs : List (Nat × Nat)) (bidx : List Pattern) (nc1 nc0 : Nat)
    (rd : List Nat → Nat → α) (hbs : bs.length = bidx.length)
    (hpos : ∀ x ∈ packedTriplesWith bs bidx nc1 nc0 rd,
      x.1 < prod (bs.map (·.1)) * nc1 ∧ x.2.1 < prod (bs.map (·.2)) * nc0)
    (r c : Nat) (hr : r < prod (bs.map (·.1)) * nc1) (hc : c < prod (bs.map (·.2)) * nc0) :
    cooGet (blockedTriplesWith bs bidx nc1 nc0 rd)
        (packedToBlocked (prod (bs.map (·.1))) nc1 r) (packedToBlocked (prod (bs.map (·.2))) nc0 c)
      = cooGet (packedTriplesWith bs bidx nc1 nc0 rd) r c := by
  rw [blocked_eq_perm_packed bs bidx nc1 nc0 rd hbs]
  exact cooGet_permTriple _ _ _ _ _ r c hpos hr hc

/-- every stored entry of every level lies inside its block -/
def PatsInRange : List Pattern → List (Nat × Nat) → Prop
  | [], [] => True
  | p :: ps, b :: bs => (∀ e ∈ p, e.1 < b.1 ∧ e.2 < b.2) ∧ PatsInRange ps bs
  | _, _ => False

theorem digits_below : ∀ (bidx : List Pattern) (bs : List (Nat × Nat)) (μ : List Nat),
    PatsInRange bidx bs → μ ∈ loopNest (bidx.map List.length) →
    Below ((List.zipWith (fun (pat : Pattern) (k : Nat) => pat.getD k (0, 0)) bidx μ).map (·.1)) (bs.map (·.1)) ∧
    Below ((List.zipWith (fun (pat : Pattern) (k : Nat) => pat.getD k (0, 0)) bidx μ).map (·.2)) (bs.map (·.2))
  | [], [], μ, _, hμ => by
    simp [loopNest] at hμ
    subst hμ
    simp [Below]
  | p :: ps, b :: bs, μ, hr, hμ => by
    cases μ with
    | nil =>
      exfalso
      have := loopNest_length _ _ hμ
      simp at this
    | cons m μ' =>
      simp only [List.map_cons] at hμ
      rw [mem_loopNest_cons] at hμ
      have ih := digits_below ps bs μ' hr.2 hμ.2
      have hm : p.getD m (0, 0) ∈ p := by
        rw [List.getD_eq_getElem _ _ hμ.1]; exact List.getElem_mem hμ.1
      have := hr.1 _ hm
      simp only [List.zipWith_cons_cons, List.map_cons, Below]
      exact ⟨⟨this.1, ih.1⟩, ⟨this.2, ih.2⟩⟩
  | [], _ :: _, _, hr, _ => by simp [PatsInRange] at hr
  | _ :: _, [], _, hr, _ => by simp [PatsInRange] at hr

theorem mem_loopNest_snoc : ∀ (NN : List Nat) (n : Nat) (ν : List Nat), ν ∈ loopNest (NN ++ [n]) →
    ∃ μ m, ν = μ ++ [m] ∧ μ ∈ loopNest NN ∧ m < n
  | [], n, ν, h => by
    cases ν with
    | nil => have := loopNest_length _ _ h; simp at this
    | cons i q =>
      rw [List.nil_append, mem_loopNest_cons] at h
      have hq : q = [] := by simpa [loopNest] using h.2
      subst hq
      exact ⟨[], i, rfl, by simp [loopNest], h.1⟩
  | a :: NN, n, ν, h => by
    cases ν with
    | nil => have := loopNest_length _ _ h; simp at this
    | cons i q =>
      rw [List.cons_append, mem_loopNest_cons] at h
      obtain ⟨μ, m, rfl, hμ, hm⟩ := mem_loopNest_snoc NN n q h.2
      exact ⟨i :: μ, m, rfl, (mem_loopNest_cons _ _ _ _).2 ⟨h.1, hμ⟩, hm⟩

theorem entryAt_packed (bs : List (Nat × Nat)) (bidx : List Pattern) (nc1 nc0 : Nat) (pc : Pattern)
    (μ : List Nat) (m : Nat) (hμ : μ.length = bidx.length) (hbs : bs.length = bidx.length) :
    MLStructure.entryAt { bs := bs ++ [(nc1, nc0)], bidx := bidx ++ [pc] } (μ ++ [m]) =
      (toSeq ((List.zipWith (fun (pat : Pattern) (k : Nat) => pat.getD k (0, 0)) bidx μ).map (·.1)) (bs.map (·.1)) * nc1 + (pc.getD m (0, 0)).1,
       toSeq ((List.zipWith (fun (pat : Pattern) (k : Nat) => pat.getD k (0, 0)) bidx μ).map (·.2)) (bs.map (·.2)) * nc0 + (pc.getD m (0, 0)).2) := by
  have hlen : (List.zipWith (fun (pat : Pattern) (k : Nat) => pat.getD k (0, 0)) bidx μ).length = bs.length := by
    simp [hμ, hbs]
  simp only [MLStructure.entryAt, MLStructure.rows, MLStructure.cols]
  rw [List.zipWith_append (by omega)]
  simp only [List.zipWith_cons_cons, List.zipWith_nil_right, List.map_append, List.map_cons, List.map_nil]
  rw [toSeq_snoc _ _ _ _ (by simp only [List.length_map]; exact hlen), toSeq_snoc _ _ _ _ (by simp only [List.length_map]; exact hlen)]

theorem mul_add_lt_mul (A P r nc : Nat) (hA : A < P) (hr : r < nc) : A * nc + r < P * nc := by
  calc A * nc + r < A * nc + nc := by omega
    _ = (A + 1) * nc := by rw [Nat.add_mul, Nat.one_mul]
    _ ≤ P * nc := Nat.mul_le_mul_right _ hA

omit [AddCommMonoid α] in
/-- with in-range level patterns every position of the packed matrix is in range -/
theorem packedTriples_pos (bs : List (Nat × Nat)) (bidx : List Pattern) (nc1 nc0 : Nat)
    (rd : List Nat → Nat → α) (hbs : bs.length = bidx.length) (hr : PatsInRange bidx bs) :
    ∀ x ∈ packedTriplesWith bs bidx nc1 nc0 rd,
      x.1 < prod (bs.map (·.1)) * nc1 ∧ x.2.1 < prod (bs.map (·.2)) * nc0 := by
  intro x hx
  unfold packedTriplesWith at hx
  simp only [List.map_append, List.map_cons, List.map_nil, List.mem_map] at hx
  obtain ⟨ν, hν, rfl⟩ := hx
  obtain ⟨μ, m, rfl, hμ, hm⟩ := mem_loopNest_snoc _ _ ν hν
  have hlen : μ.length = bidx.length := by simpa using loopNest_length _ μ hμ
  have hd := denseIJ_getD_lt nc1 nc0 m hm
  have hb := digits_below bidx bs μ hr hμ
  simp only
  rw [entryAt_packed bs bidx nc1 nc0 _ μ m hlen hbs]
  simp only
  have h1 := toSeq_lt _ _ hb.1
  have h2 := toSeq_lt _ _ hb.2
  exact ⟨mul_add_lt_mul _ _ _ _ h1 hd.1, mul_add_lt_mul _ _ _ _ h2 hd.2⟩

/-! ### the two loop nests enumerate the same data positions up to rotation -/

theorem mem_loopNest_snoc_of : ∀ (NN : List Nat) (n : Nat) (μ : List Nat) (m : Nat),
    μ ∈ loopNest NN → m < n → μ ++ [m] ∈ loopNest (NN ++ [n])
  | [], n, μ, m, hμ, hm => by
    have : μ = [] := by simpa [loopNest] using hμ
    subst this
    rw [List.nil_append, List.nil_append, mem_loopNest_cons]
    exact ⟨hm, by simp [loopNest]⟩
  | a :: NN, n, μ, m, hμ, hm => by
    cases μ with
    | nil => have := loopNest_length _ _ hμ; simp at this
    | cons i q =>
      rw [mem_loopNest_cons] at hμ
      rw [List.cons_append, List.cons_append, mem_loopNest_cons]
      exact ⟨hμ.1, mem_loopNest_snoc_of NN n q m hμ.2 hm⟩

theorem loopNest_nodup : ∀ (NN : List Nat), (loopNest NN).Nodup
  | [] => by simp [loopNest]
  | n :: NN => by
    show ((List.range n).flatMap (fun i => (loopNest NN).map (i :: ·))).Nodup
    rw [List.nodup_flatMap]
    refine ⟨fun i _ => (loopNest_nodup NN).map (fun a b h => by injection h), ?_⟩
    apply (List.nodup_range (n := n)).imp
    intro a b hab
    simp only [Function.onFun, List.disjoint_left, List.mem_map]
    rintro x ⟨q, _, rfl⟩ ⟨q', _, h⟩
    injection h with h1 _
    exact hab h1.symm

def rotLast (ν : List Nat) : List Nat := ν.getLastD 0 :: ν.dropLast

theorem rotLast_snoc (μ : List Nat) (m : Nat) : rotLast (μ ++ [m]) = m :: μ := by
  simp [rotLast]

theorem loopNest_rotate : loopNest_rotate_stmt := by
  intro NN nc
  show (loopNest (nc :: NN)).Perm ((loopNest (NN ++ [nc])).map rotLast)
  have hnd2 : ((loopNest (NN ++ [nc])).map rotLast).Nodup := by
    apply List.Nodup.map_on _ (loopNest_nodup _)
    intro x hx y hy hxy
    obtain ⟨μ, m, rfl, _, _⟩ := mem_loopNest_snoc NN nc x hx
    obtain ⟨μ', m', rfl, _, _⟩ := mem_loopNest_snoc NN nc y hy
    rw [rotLast_snoc, rotLast_snoc] at hxy
    injection hxy with h1 h2
    rw [h1, h2]
  rw [List.perm_ext_iff_of_nodup (loopNest_nodup _) hnd2]
  intro x
  constructor
  · intro hx
    cases x with
    | nil => have := loopNest_length _ _ hx; simp at this
    | cons m μ =>
      rw [mem_loopNest_cons] at hx
      exact List.mem_map.2 ⟨μ ++ [m], mem_loopNest_snoc_of NN nc μ m hx.2 hx.1, rotLast_snoc μ m⟩
  · intro hx
    obtain ⟨ν, hν, rfl⟩ := List.mem_map.1 hx
    obtain ⟨μ, m, rfl, hμ, hm⟩ := mem_loopNest_snoc NN nc ν hν
    rw [rotLast_snoc, mem_loopNest_cons]
    exact ⟨hm, hμ⟩

end Pyiga.Asm
