/-
C08 `update_equiv`: `update(f=…)` rewrites exactly the slots of the variables sourced from `f`;
with disjoint slot ranges and no precomputed variable depending on `f` this equals constructing afresh.
-/
import Pyiga.Proofs.Layout

namespace Pyiga.Layout

variable {α : Type}

def DisjointRanges (info : List (GVar × Nat × Nat)) : Prop :=
  info.Pairwise (fun a b => a.2.2 + a.2.1 ≤ b.2.2 ∨ b.2.2 + b.2.1 ≤ a.2.2)

def override (inp : Nat × Nat → Nat → α) (f : Nat) (newf : Nat → Nat → α) : Nat × Nat → Nat → α :=
  fun gd => if gd.1 = f then newf gd.2 else inp gd

theorem writeSlots_inside (mem : Nat → α) (ofs sz : Nat) (vals : Nat → α) (s : Nat)
    (h : ofs ≤ s ∧ s < ofs + sz) : writeSlots mem ofs sz vals s = vals (s - ofs) := by
  simp [writeSlots, h]

theorem writeSlots_outside (mem : Nat → α) (ofs sz : Nat) (vals : Nat → α) (s : Nat)
    (h : ¬ (ofs ≤ s ∧ s < ofs + sz)) : writeSlots mem ofs sz vals s = mem s := by
  simp [writeSlots, h]

/-- value a `fresh`-style entry writes -/
def entryVals (inp : Nat × Nat → Nat → α) (comp : Var → (Nat × Nat → Nat → α) → Nat → α)
    (e : GVar × Nat × Nat) : Nat → α :=
  match e.1.src with
  | some f => inp f
  | none => comp e.1.var inp

theorem fresh_eq (info : List (GVar × Nat × Nat)) (inp : Nat × Nat → Nat → α)
    (comp : Var → (Nat × Nat → Nat → α) → Nat → α) (mem0 : Nat → α) :
    fresh info inp comp mem0 = info.foldl (fun mem e => writeSlots mem e.2.2 e.2.1 (entryVals inp comp e)) mem0 := rfl

theorem fresh_outside (info : List (GVar × Nat × Nat)) (inp : Nat × Nat → Nat → α)
    (comp : Var → (Nat × Nat → Nat → α) → Nat → α) (mem0 : Nat → α) (s : Nat)
    (h : ∀ e ∈ info, ¬ (e.2.2 ≤ s ∧ s < e.2.2 + e.2.1)) : fresh info inp comp mem0 s = mem0 s := by
  rw [fresh_eq]
  induction info generalizing mem0 with
  | nil => rfl
  | cons e es ih =>
    rw [List.foldl_cons, ih _ (fun x hx => h x (List.mem_cons_of_mem _ hx))]
    exact writeSlots_outside _ _ _ _ _ (h e (List.mem_cons_self))

/-- in a list with pairwise disjoint ranges, the slot of the head entry is not touched by the tail -/
theorem fresh_cons_inside (e : GVar × Nat × Nat) (es : List (GVar × Nat × Nat)) (hd : DisjointRanges (e :: es))
    (inp : Nat × Nat → Nat → α) (comp : Var → (Nat × Nat → Nat → α) → Nat → α) (mem0 : Nat → α) (s : Nat)
    (hs : e.2.2 ≤ s ∧ s < e.2.2 + e.2.1) :
    fresh (e :: es) inp comp mem0 s = entryVals inp comp e (s - e.2.2) := by
  have hd' := List.pairwise_cons.1 hd
  have : fresh (e :: es) inp comp mem0 = fresh es inp comp (writeSlots mem0 e.2.2 e.2.1 (entryVals inp comp e)) := rfl
  rw [this, fresh_outside es inp comp _ s ?_]
  · exact writeSlots_inside _ _ _ _ _ hs
  · intro x hx hxs
    have := hd'.1 x hx
    omega

theorem fresh_cons_outside (e : GVar × Nat × Nat) (es : List (GVar × Nat × Nat))
    (inp : Nat × Nat → Nat → α) (comp : Var → (Nat × Nat → Nat → α) → Nat → α) (mem0 : Nat → α) (s : Nat)
    (hs : ¬ (e.2.2 ≤ s ∧ s < e.2.2 + e.2.1)) :
    fresh (e :: es) inp comp mem0 s = fresh es inp comp mem0 s := by
  have : fresh (e :: es) inp comp mem0 = fresh es inp comp (writeSlots mem0 e.2.2 e.2.1 (entryVals inp comp e)) := rfl
  rw [this, fresh_eq, fresh_eq]
  -- the initial memories agree at s, and foldl of writeSlots depends on mem only pointwise
  have key : ∀ (l : List (GVar × Nat × Nat)) (m1 m2 : Nat → α), m1 s = m2 s →
      l.foldl (fun mem e => writeSlots mem e.2.2 e.2.1 (entryVals inp comp e)) m1 s =
      l.foldl (fun mem e => writeSlots mem e.2.2 e.2.1 (entryVals inp comp e)) m2 s := by
    intro l
    induction l with
    | nil => intro m1 m2 h; exact h
    | cons x xs ih =>
      intro m1 m2 h
      rw [List.foldl_cons, List.foldl_cons]
      apply ih
      simp only [writeSlots]
      split <;> simp [h]
  exact key es _ _ (writeSlots_outside _ _ _ _ _ hs)

/-- the step function of `update` -/
def updStep (f : Nat) (newf : Nat → Nat → α) (mem : Nat → α) (e : GVar × Nat × Nat) : Nat → α :=
  match e.1.src with
  | some (g, d) => if g = f then writeSlots mem e.2.2 e.2.1 (newf d) else mem
  | none => mem

theorem update_eq (info : List (GVar × Nat × Nat)) (f : Nat) (newf : Nat → Nat → α) (mem : Nat → α) :
    update info f newf mem = info.foldl (updStep f newf) mem := rfl

theorem updStep_outside (f : Nat) (newf : Nat → Nat → α) (mem : Nat → α) (e : GVar × Nat × Nat) (s : Nat)
    (h : (∃ d, e.1.src = some (f, d)) → ¬ (e.2.2 ≤ s ∧ s < e.2.2 + e.2.1)) : updStep f newf mem e s = mem s := by
  unfold updStep
  cases hsrc : e.1.src with
  | none => rfl
  | some gd =>
    obtain ⟨g, d⟩ := gd
    simp only
    by_cases hg : g = f
    · subst hg
      rw [if_pos rfl]
      exact writeSlots_outside _ _ _ _ _ (h ⟨d, hsrc⟩)
    · rw [if_neg hg]

theorem update_outside (info : List (GVar × Nat × Nat)) (f : Nat) (newf : Nat → Nat → α) (mem : Nat → α) (s : Nat)
    (h : ∀ e ∈ info, (∃ d, e.1.src = some (f, d)) → ¬ (e.2.2 ≤ s ∧ s < e.2.2 + e.2.1)) :
    update info f newf mem s = mem s := by
  rw [update_eq]
  induction info generalizing mem with
  | nil => rfl
  | cons e es ih =>
    rw [List.foldl_cons, ih _ (fun x hx => h x (List.mem_cons_of_mem _ hx))]
    exact updStep_outside f newf mem e s (h e List.mem_cons_self)

/-- `update` depends on the memory only pointwise -/
theorem update_congr (info : List (GVar × Nat × Nat)) (f : Nat) (newf : Nat → Nat → α) (m1 m2 : Nat → α) (s : Nat)
    (h : m1 s = m2 s) : update info f newf m1 s = update info f newf m2 s := by
  rw [update_eq, update_eq]
  induction info generalizing m1 m2 with
  | nil => exact h
  | cons e es ih =>
    rw [List.foldl_cons, List.foldl_cons]
    apply ih
    unfold updStep
    cases e.1.src with
    | none => exact h
    | some gd =>
      obtain ⟨g, d⟩ := gd
      simp only
      by_cases hg : g = f
      · rw [if_pos hg, if_pos hg]
        simp only [writeSlots]; split <;> simp [h]
      · rw [if_neg hg, if_neg hg]; exact h

theorem update_eq_fresh (info : List (GVar × Nat × Nat)) (hd : DisjointRanges info)
    (f : Nat) (inp : Nat × Nat → Nat → α) (newf : Nat → Nat → α)
    (comp : Var → (Nat × Nat → Nat → α) → Nat → α) (mem0 : Nat → α)
    (hindep : ∀ e ∈ info, e.1.src = none → comp e.1.var (override inp f newf) = comp e.1.var inp) :
    update info f newf (fresh info inp comp mem0) = fresh info (override inp f newf) comp mem0 := by
  funext s
  -- pointwise characterisation, by induction on the entries with the *same* list in fresh and update
  suffices H : ∀ (l : List (GVar × Nat × Nat)), DisjointRanges l →
      (∀ e ∈ l, e.1.src = none → comp e.1.var (override inp f newf) = comp e.1.var inp) →
      ∀ m0, update l f newf (fresh l inp comp m0) s = fresh l (override inp f newf) comp m0 s from H info hd hindep mem0
  intro l
  induction l with
  | nil => intro _ _ m0; rfl
  | cons e es ih =>
    intro hdl hind m0
    have hd' := List.pairwise_cons.1 hdl
    by_cases hs : e.2.2 ≤ s ∧ s < e.2.2 + e.2.1
    · -- s belongs to the head entry: nobody in the tail touches it
      rw [fresh_cons_inside e es hdl _ comp m0 s hs]
      have htail : ∀ x ∈ es, ¬ (x.2.2 ≤ s ∧ s < x.2.2 + x.2.1) := by
        intro x hx hxs
        have := hd'.1 x hx
        omega
      have hu : update (e :: es) f newf (fresh (e :: es) inp comp m0) s
          = updStep f newf (fresh (e :: es) inp comp m0) e s := by
        show update es f newf (updStep f newf (fresh (e :: es) inp comp m0) e) s = _
        exact update_outside es f newf _ s (fun x hx _ => htail x hx)
      rw [hu]
      unfold updStep entryVals
      cases hsrc : e.1.src with
      | none =>
        simp only
        rw [fresh_cons_inside e es hdl inp comp m0 s hs, hind e List.mem_cons_self hsrc]
        simp [entryVals, hsrc]
      | some gd =>
        obtain ⟨g, d⟩ := gd
        simp only
        by_cases hg : g = f
        · subst hg
          rw [if_pos rfl, writeSlots_inside _ _ _ _ _ hs]
          simp [override]
        · rw [if_neg hg, fresh_cons_inside e es hdl inp comp m0 s hs]
          simp [entryVals, hsrc, override, hg]
    · -- s outside the head entry
      rw [fresh_cons_outside e es _ comp m0 s hs]
      have hu : update (e :: es) f newf (fresh (e :: es) inp comp m0) s
          = update es f newf (fresh es inp comp m0) s := by
        show update es f newf (updStep f newf (fresh (e :: es) inp comp m0) e) s = _
        apply update_congr
        rw [updStep_outside f newf _ e s (fun _ => hs)]
        exact fresh_cons_outside e es inp comp m0 s hs
      rw [hu]
      exact ih hd'.2 (fun x hx => hind x (List.mem_cons_of_mem _ hx)) m0

theorem updateParam_eq (mem : Nat → α) (ofs sz : Nat) (values : Nat → α) :
    updateParam mem ofs sz values = writeSlots mem ofs sz values := by
  unfold updateParam
  induction sz with
  | zero =>
    funext s
    simp [writeSlots]
  | succ n ih =>
    rw [List.range_succ, List.foldl_append, ih]
    funext s
    simp only [List.foldl_cons, List.foldl_nil, writeSlots]
    by_cases h1 : s = ofs + n
    · subst h1; simp
    · by_cases h2 : ofs ≤ s ∧ s < ofs + n
      · have : ofs ≤ s ∧ s < ofs + (n + 1) := by omega
        simp [h1, h2, this]
      · have : ¬ (ofs ≤ s ∧ s < ofs + (n + 1)) := by omega
        simp [h1, h2, this]

/-! ### the repaired `dependency_analysis` rule establishes the independence hypothesis -/

/-- a variable that is neither sourced from the updated field nor a descendant of an
updatable-sourced variable evaluates to the same value whatever the updated field holds -/
theorem evalVar_independent (deps : Nat → List Nat) (srcOf : Nat → Option (Nat × Nat))
    (op : Nat → List (Nat → α) → Nat → α) (isUpd : Nat → Bool)
    (inp : Nat × Nat → Nat → α) (f : Nat) (newf : Nat → Nat → α)
    (hflag : ∀ v d, srcOf v = some (f, d) → isUpd v = true) :
    ∀ (fuel v : Nat), isUpd v = false → descOfUpd deps isUpd fuel v = false →
      evalVar deps srcOf op (override inp f newf) fuel v = evalVar deps srcOf op inp fuel v := by
  have hsrc : ∀ v g d, srcOf v = some (g, d) → isUpd v = false → override inp f newf (g, d) = inp (g, d) := by
    intro v g d hs hu
    unfold override
    by_cases hg : g = f
    · subst hg
      rw [hflag v d hs] at hu
      exact absurd hu (by simp)
    · simp [hg]
  intro fuel
  induction fuel with
  | zero =>
    intro v hu _
    unfold evalVar
    cases hs : srcOf v with
    | none => rfl
    | some gd => obtain ⟨g, d⟩ := gd; exact hsrc v g d hs hu
  | succ fuel ih =>
    intro v hu hdesc
    unfold evalVar
    cases hs : srcOf v with
    | some gd => obtain ⟨g, d⟩ := gd; exact hsrc v g d hs hu
    | none =>
      simp only
      congr 1
      apply List.map_congr_left
      intro w hw
      have hany : (deps v).any (fun w => isUpd w || descOfUpd deps isUpd fuel w) = false := hdesc
      rw [List.any_eq_false] at hany
      have := hany w hw
      simp only [Bool.or_eq_true, not_or, Bool.not_eq_true] at this
      exact ih w this.1 this.2

/-- **update_equiv with the hypothesis discharged by the code** (commit 5ff56ef): if the precomputed
globals are exactly variables selected by the repaired rule `precompRule true …` (not descendants of
an updatable-sourced variable), then for every updatable field `f` (all variables sourced from it
are flagged `isUpd`) `update(f=…)` equals constructing afresh — no independence hypothesis left. -/
theorem update_eq_fresh_repaired (info : List (GVar × Nat × Nat)) (hd : DisjointRanges info)
    (f : Nat) (inp : Nat × Nat → Nat → α) (newf : Nat → Nat → α) (mem0 : Nat → α)
    (deps : Nat → List Nat) (srcOf : Nat → Option (Nat × Nat)) (op : Nat → List (Nat → α) → Nat → α)
    (isUpd basisScope : Nat → Bool) (fuel : Nat) (linearDeps : List Nat)
    (hflag : ∀ v d, srcOf v = some (f, d) → isUpd v = true)
    (hcomp : ∀ v, srcOf v = none → isUpd v = false)
    (hsrc : ∀ e ∈ info, e.1.src = srcOf e.1.var.name)
    (hpre : ∀ e ∈ info, e.1.src = none →
      e.1.var.name ∈ precompRule true deps isUpd basisScope fuel linearDeps) :
    update info f newf (fresh info inp (fun v i => evalVar deps srcOf op i fuel v.name) mem0)
      = fresh info (override inp f newf) (fun v i => evalVar deps srcOf op i fuel v.name) mem0 := by
  apply update_eq_fresh info hd f inp newf _ mem0
  intro e he hnone
  have hm := hpre e he hnone
  unfold precompRule at hm
  rw [List.mem_filter] at hm
  have hdesc : descOfUpd deps isUpd fuel e.1.var.name = false := by
    have := hm.2
    simp only [Bool.true_and, Bool.and_eq_true, Bool.not_eq_true'] at this
    exact this.2
  have hs : srcOf e.1.var.name = none := by rw [← hsrc e he]; exact hnone
  exact evalVar_independent deps srcOf op isUpd inp f newf hflag fuel _ (hcomp _ hs) hdesc

end Pyiga.Layout
