/-
Helper lemmas for L-la: `sumRange` is a `Finset.sum`, `get ∘ ofFn`, `insertAt`, `boxSum` algebra.
-/
import Pyiga.Model.LinAlg
import Pyiga.Proofs.Index
import Mathlib.Algebra.BigOperators.Group.Finset.Basic
import Mathlib.Algebra.BigOperators.Ring.Finset
import Mathlib.Algebra.BigOperators.Group.Finset.Sigma
import Mathlib.Tactic.Ring

namespace Pyiga.LA
open Pyiga.Index

theorem sumRange_eq_sum {α : Type} [AddCommMonoid α] (n : Nat) (f : Nat → α) :
    sumRange n f = ∑ j ∈ Finset.range n, f j := by
  unfold sumRange
  induction n with
  | zero => simp
  | succ n ih => rw [List.range_succ, List.foldl_append, ih, Finset.sum_range_succ]; simp

theorem sumRange_congr {α : Type} [AddCommMonoid α] (n : Nat) (f g : Nat → α)
    (h : ∀ j, j < n → f j = g j) : sumRange n f = sumRange n g := by
  rw [sumRange_eq_sum, sumRange_eq_sum]
  exact Finset.sum_congr rfl (fun j hj => h j (Finset.mem_range.1 hj))

/-! ### `get (ofFn f) = f` on in-range indices -/

theorem Tensor.get_ofFn {α : Type} [Zero α] (shape : List Nat) (f : List Nat → α) (idx : List Nat)
    (h : Below idx shape) : (Tensor.ofFn shape f).get idx = f idx := by
  have hlt := toSeq_lt idx shape h
  simp [Tensor.get, Tensor.ofFn, Array.getD, hlt, fromSeq_toSeq idx shape h]

@[simp] theorem Tensor.shape_ofFn {α : Type} [Zero α] (shape : List Nat) (f : List Nat → α) :
    (Tensor.ofFn shape f).shape = shape := rfl

@[simp] theorem Tensor.shape_reshape {α : Type} [Zero α] (T : Tensor α) (s : List Nat) :
    (T.reshape s).shape = s := rfl

/-- reading a reshaped array: same flat position -/
theorem Tensor.get_reshape {α : Type} [Zero α] (T : Tensor α) (s idx idx' : List Nat)
    (h : toSeq idx s = toSeq idx' T.shape) : (T.reshape s).get idx = T.get idx' := by
  simp [Tensor.get, Tensor.reshape, h]

/-! ### `Below` bookkeeping -/

theorem below_cons {i m : Nat} {I ms : List Nat} : Below (i :: I) (m :: ms) ↔ i < m ∧ Below I ms := Iff.rfl

theorem below_append : ∀ {I J ms ns : List Nat}, Below I ms → Below J ns → Below (I ++ J) (ms ++ ns)
  | [], _, [], _, _, h => h
  | _ :: _, _, _ :: _, _, h1, h2 => ⟨h1.1, below_append h1.2 h2⟩
  | [], _, _ :: _, _, h, _ => by simp [Below] at h
  | _ :: _, _, [], _, h, _ => by simp [Below] at h

theorem below_split : ∀ {I ms ns : List Nat}, Below I (ms ++ ns) →
    ∃ I1 I2, I = I1 ++ I2 ∧ Below I1 ms ∧ Below I2 ns
  | I, [], ns, h => ⟨[], I, rfl, trivial, h⟩
  | [], _ :: _, _, h => by simp [Below] at h
  | i :: I, m :: ms, ns, h => by
    obtain ⟨I1, I2, e, h1, h2⟩ := below_split (ms := ms) (ns := ns) h.2
    exact ⟨i :: I1, I2, by simp [e], ⟨h.1, h1⟩, h2⟩

/-! ### `insertAt` -/

theorem insertAt_length_append : ∀ (l1 l2 : List Nat) (j : Nat),
    insertAt l1.length j (l1 ++ l2) = l1 ++ j :: l2
  | [], _, _ => rfl
  | x :: l1, l2, j => by simp [insertAt, insertAt_length_append l1 l2 j]

theorem getD_length_append (l1 l2 : List Nat) (r : Nat) : (l1 ++ r :: l2).getD l1.length 0 = r := by
  induction l1 with
  | nil => rfl
  | cons x l1 ih => simp [ih]

theorem eraseIdx_length_append (l1 l2 : List Nat) (r : Nat) :
    (l1 ++ r :: l2).eraseIdx l1.length = l1 ++ l2 := by
  induction l1 with
  | nil => rfl
  | cons x l1 ih => simp [List.eraseIdx_cons_succ, ih]

/-- inserting an in-range value at an existing axis position gives an in-range index -/
theorem below_insertAt : ∀ (pos : Nat) (shape rest : List Nat) (j : Nat), pos < shape.length →
    Below rest (shape.eraseIdx pos) → j < shape.getD pos 0 → Below (insertAt pos j rest) shape
  | _, [], _, _, h, _, _ => by simp at h
  | 0, s :: shape, rest, j, _, hb, hj => by
    simp only [List.eraseIdx_cons_zero] at hb
    exact ⟨by simpa using hj, hb⟩
  | pos + 1, s :: shape, [], j, h, hb, _ => by
    simp only [List.eraseIdx_cons_succ] at hb
    simp [Below] at hb
  | pos + 1, s :: shape, x :: rest, j, h, hb, hj => by
    simp only [List.eraseIdx_cons_succ] at hb
    refine ⟨hb.1, below_insertAt pos shape rest j (by simpa using h) hb.2 (by simpa using hj)⟩

/-! ### `boxSum` / `kronEntry` -/

section
variable {α : Type} [CommSemiring α]

theorem boxSum_congr (dims : List Nat) (f g : List Nat → α) (h : ∀ js, f js = g js) :
    boxSum dims f = boxSum dims g := by
  have : f = g := funext h
  rw [this]

/-- congruence on the box only -/
theorem boxSum_congr_below : ∀ (dims : List Nat) (f g : List Nat → α),
    (∀ js, Below js dims → f js = g js) → boxSum dims f = boxSum dims g
  | [], f, g, h => h [] trivial
  | d :: ds, f, g, h => by
    simp only [boxSum]
    apply sumRange_congr
    intro j hj
    exact boxSum_congr_below ds _ _ (fun js hjs => h (j :: js) ⟨hj, hjs⟩)

theorem boxSum_mul_left : ∀ (dims : List Nat) (c : α) (g : List Nat → α),
    c * boxSum dims g = boxSum dims (fun js => c * g js)
  | [], _, _ => rfl
  | d :: ds, c, g => by
    simp only [boxSum, sumRange_eq_sum, Finset.mul_sum]
    exact Finset.sum_congr rfl (fun j _ => boxSum_mul_left ds c _)

theorem boxSum_mul_right (dims : List Nat) (c : α) (g : List Nat → α) :
    boxSum dims g * c = boxSum dims (fun js => g js * c) := by
  rw [mul_comm, boxSum_mul_left]
  exact boxSum_congr _ _ _ (fun js => mul_comm _ _)

theorem boxSum_add : ∀ (dims : List Nat) (f g : List Nat → α),
    boxSum dims (fun js => f js + g js) = boxSum dims f + boxSum dims g
  | [], _, _ => rfl
  | d :: ds, f, g => by
    simp only [boxSum, sumRange_eq_sum, ← Finset.sum_add_distrib]
    exact Finset.sum_congr rfl (fun j _ => boxSum_add ds _ _)

theorem boxSum_zero : ∀ (dims : List Nat), boxSum dims (fun _ => (0 : α)) = 0
  | [] => rfl
  | d :: ds => by
    simp only [boxSum, sumRange_eq_sum]
    exact Finset.sum_eq_zero (fun j _ => boxSum_zero ds)

/-- Fubini for two boxes -/
theorem boxSum_comm : ∀ (d1 d2 : List Nat) (f : List Nat → List Nat → α),
    boxSum d1 (fun a => boxSum d2 (fun b => f a b)) = boxSum d2 (fun b => boxSum d1 (fun a => f a b))
  | [], _, _ => rfl
  | d :: ds, d2, f => by
    simp only [boxSum]
    have h1 : ∀ j, boxSum ds (fun js => boxSum d2 (fun b => f (j :: js) b))
        = boxSum d2 (fun b => boxSum ds (fun js => f (j :: js) b)) := fun j => boxSum_comm ds d2 _
    simp only [h1]
    -- Σ_j boxSum d2 (g j) = boxSum d2 (Σ_j g j)
    have key : ∀ (d2 : List Nat) (n : Nat) (g : Nat → List Nat → α),
        sumRange n (fun j => boxSum d2 (g j)) = boxSum d2 (fun b => sumRange n (fun j => g j b)) := by
      intro d2
      induction d2 with
      | nil => intro n g; rfl
      | cons e es ih =>
        intro n g
        simp only [boxSum]
        have : ∀ k, sumRange n (fun j => boxSum es (fun js => g j (k :: js)))
            = boxSum es (fun js => sumRange n (fun j => g j (k :: js))) := fun k => ih n _
        simp only [sumRange_eq_sum] at this ⊢
        rw [Finset.sum_comm]
        exact Finset.sum_congr rfl (fun k _ => this k)
    exact key d2 d _

end

end Pyiga.LA
