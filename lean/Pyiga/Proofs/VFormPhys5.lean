/-
Part 8: the space-time pass over whole trees.
-/
import Pyiga.Proofs.VFormPhys4

namespace Pyiga.VForm
open Expr Finset

variable {α : Type} [Field α] [CharZero α]

theorem dsum_cons (x : Nat) (l : List Nat) : dsum (x :: l) = x + dsum l := by
  simp only [dsum, List.foldl_cons, Nat.zero_add]; rw [foldl_add_nat]

theorem dsum_eq_zero (l : List Nat) (h : dsum l = 0) : l = List.replicate l.length 0 := by
  induction l with
  | nil => rfl
  | cons x l ih =>
    rw [dsum_cons] at h
    have hx : x = 0 := by omega
    have hl : dsum l = 0 := by omega
    subst hx
    simp only [List.length_cons, List.replicate_succ]
    rw [← ih hl]

theorem unit_of_dsum_one (l : List Nat) (h : dsum l = 1) :
    l = bump (List.replicate l.length 0) (l.findIdx (· == 1)) 1 := by
  induction l with
  | nil => simp [dsum] at h
  | cons x l ih =>
    rw [dsum_cons] at h
    by_cases hx : x = 1
    · subst hx
      have hl : dsum l = 0 := by omega
      have hz := dsum_eq_zero l hl
      simp only [List.findIdx_cons, show ((1 : Nat) == 1) = true from rfl, cond_true, List.length_cons,
        List.replicate_succ, bump_cons_zero, Nat.zero_add]
      rw [← hz]
    · have hx0 : x = 0 := by omega
      subst hx0
      have hl : dsum l = 1 := by omega
      rw [List.findIdx_cons]
      simp only [show ((0 : Nat) == 1) = false from rfl, cond_false, List.length_cons, List.replicate_succ, bump_cons_succ]
      rw [← ih hl]

theorem bump_append_left (l : List Nat) (x k t : Nat) (hk : k < l.length) : bump (l ++ [x]) k t = bump l k t ++ [x] := by
  simp [bump, List.set_append_left _ _ hk, List.getD_eq_getElem?_getD, List.getElem?_append_left hk]

theorem bump_append_last (l : List Nat) (x t : Nat) : bump (l ++ [x]) l.length t = l ++ [x + t] := by
  simp [bump, List.getD_eq_getElem?_getD]

/-- a space-time multi-index with exactly one space derivative is `e_k + a·e_t` -/
theorem stD_of_take (d : Nat) (D : List Nat) (hlen : D.length = d + 1) (h1 : dsum (D.take d) = 1) :
    D = stD (d + 1) ((D.take d).findIdx (· == 1)) (D.getD d 0) := by
  have hk : (D.take d).findIdx (· == 1) < d := by
    have := findIdx_of_dsum_one _ h1
    have hl : (D.take d).length ≤ d := by simp
    omega
  have htl : (D.take d).length = d := by simp [hlen]
  have hu := unit_of_dsum_one (D.take d) h1
  rw [htl] at hu
  have hsplit : D = D.take d ++ [D.getD d 0] := by
    have h2 : D.drop d = [D.getD d 0] := by
      have hlt : d < D.length := by omega
      rw [List.drop_eq_getElem_cons hlt]
      have : D.drop (d + 1) = [] := by simp [hlen]
      simp [this, List.getD_eq_getElem?_getD, List.getElem?_eq_getElem hlt]
    conv_lhs => rw [← List.take_append_drop d D, h2]
  unfold stD zerosD
  have hz : List.replicate (d + 1) 0 = List.replicate d 0 ++ [0] := by
    rw [List.replicate_succ']
  rw [hz, bump_append_left _ _ _ _ (by simpa using hk)]
  have hlen2 : (bump (List.replicate d 0) ((D.take d).findIdx (· == 1)) 1).length = d := by simp [length_bump]
  have : d + 1 - 1 = (bump (List.replicate d 0) ((D.take d).findIdx (· == 1)) 1).length := by omega
  rw [this, bump_append_last, Nat.zero_add, ← hu]
  exact hsplit


theorem allLeaves_true (e : Expr) : allLeaves (fun _ => true) e = true := by
  induction e using Expr.rec (motive_2 := fun es => (es.map (allLeaves (fun _ => true))).all id = true) with
  | nil => simp
  | cons e es ihe ihes => simp only [List.map_cons, List.all_cons, id, Bool.and_eq_true]; exact ⟨ihe, ihes⟩
  | litvec es ih => simpa [allLeaves] using ih
  | litmat m n es ih => simpa [allLeaves] using ih
  | _ => simp_all [allLeaves]

/-- **ChainRuleEnvST** — space-time cylinder with `d` space axes and time last (`dim = d+1`): `JacInv` is a right inverse of
the full Jacobian `J`, `∂_t G_x = 0` (`hcyl`), the variables created by `pderiv_as_var` hold the parametric derivatives they
are named after, pure time derivatives are the same parametric and physical (`spacetime_time_derivs` derives this from
`∂_t G_x = 0, ∂_t G_t = 1, ∂_t² G = 0`), and the physical space gradient of `∂_t^a φ` is defined by the chain rule. -/
structure ChainRuleEnvST (fn : String → α → α) (ρ : Env α) (d : Nat) (J : Nat → Nat → α) : Prop where
  hinv : ∀ m k, m < d + 1 → k < d + 1 →
    ∑ r ∈ range (d + 1), J m r * ρ.var "JacInv" [r, k] (zerosD (d + 1)) false = if m = k then 1 else 0
  hcyl : ∀ m, m < d → J m d = 0
  flag_bf : ∀ b D ph, dsum D = 0 → ρ.bf b D ph = ρ.bf b D false
  flag_var : ∀ v I D p, dsum D = 0 → ρ.var v I D p = ρ.var v I D true
  pvar : ∀ b D, ρ.var (pderivVarName b D) [] (zerosD (d + 1)) false = ρ.bf b D false
  time : ∀ b D, D.length = d + 1 → dsum (D.take d) = 0 → ρ.bf b D true = ρ.bf b D false
  space1 : ∀ b a i, i < d → ρ.bf b (stD (d + 1) i a) false = ∑ m ∈ range d, J m i * ρ.bf b (stD (d + 1) m a) true

theorem scalarCls_physToParaST (dim : Nat) (b : BFun) (D : List Nat) (r : Expr) (h : physToParaST dim b D = some r) :
    scalarCls r = true := by
  unfold physToParaST at h
  simp only [] at h
  split at h
  · injection h with h; subst h; simp [scalarCls]
  · split at h
    · injection h with h; subst h
      exact scalarCls_reduceAdd_map _ _ (fun _ => by simp [scalarCls])
    · cases h

theorem replacePhysBfST_node (fn : String → α → α) (ρ : Env α) (d : Nat) (J : Nat → Nat → α)
    (hE : ChainRuleEnvST fn ρ d J) (e : Expr) (hlen : idxLenOK (d + 1) e = true) :
    (∀ i j, ev (fieldOps fn) ρ (replacePhysBfST (d + 1) e) i j = ev (fieldOps fn) ρ e i j)
      ∧ shape (replacePhysBfST (d + 1) e) = shape e := by
  cases e with
  | pderiv b D ph =>
    simp only [idxLenOK, beq_iff_eq] at hlen
    simp only [replacePhysBfST]
    split
    · rename_i h0
      have h0' : dsum D = 0 := by simpa using h0
      exact ⟨fun i j => by simp [ev, hE.flag_bf b D ph h0'], rfl⟩
    · split
      · exact ⟨fun _ _ => rfl, rfl⟩
      · rename_i hph
        have hph' : ph = true := by simpa using hph
        subst hph'
        cases hr : physToParaST (d + 1) b D with
        | none => exact ⟨fun _ _ => rfl, rfl⟩
        | some r =>
          simp only [Option.getD_some]
          have hsc := scalarCls_physToParaST _ _ _ _ hr
          refine ⟨fun i j => ?_, by rw [scalarCls_shape _ hsc]; rfl⟩
          rw [scalar_ev _ _ _ hsc]
          by_cases h1 : dsum (D.take d) = 1
          · have hs := (physToParaST_sound fn ρ d b D r hr h1 J (fun m => ρ.bf b (stD (d + 1) m (D.getD d 0)) true)
              hE.hinv hE.hcyl (fun i hi => by rw [hE.pvar]; exact hE.space1 b (D.getD d 0) i hi)).2
            rw [hs]
            simp only [ev]
            rw [← stD_of_take d D hlen h1]
          · -- only pure time derivatives are left
            have h0 : dsum (D.take d) = 0 := by
              unfold physToParaST at hr
              simp only [Nat.add_sub_cancel] at hr
              by_contra hne
              have hb0 : (dsum (D.take d) == 0) = false := by simpa using hne
              have hb1 : (dsum (D.take d) == 1) = false := by simpa using h1
              simp [hb0, hb1] at hr
            unfold physToParaST at hr
            simp only [Nat.add_sub_cancel, h0, show ((0 : Nat) == 0) = true from rfl, if_true, Option.some.injEq] at hr
            subst hr
            simp only [ev]
            rw [hE.pvar, hE.time b D hlen h0]
  | _ => exact ⟨fun _ _ => rfl, rfl⟩

theorem replacePhysVarST_node (fn : String → α → α) (ρ : Env α) (d : Nat) (J : Nat → Nat → α)
    (hE : ChainRuleEnvST fn ρ d J) (physIn : List String) (e : Expr) :
    (∀ i j, ev (fieldOps fn) ρ (replacePhysVarST physIn e) i j = ev (fieldOps fn) ρ e i j)
      ∧ shape (replacePhysVarST physIn e) = shape e := by
  cases e with
  | varref v I D par =>
    simp only [replacePhysVarST]
    split
    · rename_i h0
      have h0' : dsum D = 0 := by simpa using h0
      exact ⟨fun i j => by simp [ev, hE.flag_var v I D par h0'], rfl⟩
    · exact ⟨fun _ _ => rfl, rfl⟩
  | _ => exact ⟨fun _ _ => rfl, rfl⟩

/-- **phys_to_para_sound for space-time forms** (whole trees, `d` space axes + time, explicit cylinder hypotheses) -/
theorem replacePhysAllST_sound (fn : String → α → α) (ρ : Env α) (d : Nat) (physIn : List String) (J : Nat → Nat → α)
    (hE : ChainRuleEnvST fn ρ d J) (e : Expr) (h1 : allLeaves (idxLenOK (d + 1)) e = true) (i j : Nat) :
    ev (fieldOps fn) ρ (replacePhysAllST (d + 1) physIn e) i j = ev (fieldOps fn) ρ e i j := by
  unfold replacePhysAllST
  rw [(mapLeaves_sound (fieldOps fn) ρ (replacePhysVarST physIn) (fun _ => true)
      (fun e _ => replacePhysVarST_node fn ρ d J hE physIn e) _ (allLeaves_true _)).1 i j,
    (mapLeaves_sound (fieldOps fn) ρ (replacePhysBfST (d + 1)) (idxLenOK (d + 1))
      (fun e he => replacePhysBfST_node fn ρ d J hE e he) _ h1).1 i j]

end Pyiga.VForm
