/-
`MLMatrix._matvec` as coded (Cython accumulation loops for 2 and 3 levels,
`asmatrix().dot(x)` otherwise) computes the row sums of the layout specification:
`y[I] = Σ { X[μ] * x[J] : entry μ of the data tensor sits at (I, J) }`.

The second half is the algebra of the canonical COO form (duplicates summed, sorted,
explicit zeros dropped): none of the three steps changes a matrix-vector product.
-/
import Pyiga.Proofs.MLMatrix2

namespace Pyiga.ML
open Pyiga.Index

/-! ### weighted sums over lists -/

/-- `Σ_{t ∈ l} g t` -/
def wsum {α : Type} (g : α → Int) : List α → Int
  | [] => 0
  | a :: l => g a + wsum g l

theorem foldl_eq_wsum {α : Type} (g : α → Int) : ∀ (l : List α) (a : Int),
    l.foldl (fun acc t => acc + g t) a = a + wsum g l
  | [], a => by simp [wsum]
  | t :: l, a => by
    simp only [List.foldl_cons, wsum]
    rw [foldl_eq_wsum g l]; omega

theorem wsum_congr {α : Type} {g g' : α → Int} : ∀ {l : List α}, (∀ t ∈ l, g t = g' t) →
    wsum g l = wsum g' l
  | [], _ => rfl
  | t :: l, h => by
    simp only [wsum]
    rw [h t (List.mem_cons_self ..), wsum_congr (fun s hs => h s (List.mem_cons_of_mem _ hs))]

theorem wsum_filter {α : Type} (g : α → Int) (q : α → Bool) : ∀ (l : List α),
    wsum g (l.filter q) = wsum (fun t => if q t then g t else 0) l
  | [] => rfl
  | t :: l => by
    by_cases h : q t <;> simp [h, wsum, wsum_filter g q l]

theorem wsum_map {α β : Type} (g : β → Int) (f : α → β) : ∀ (l : List α),
    wsum g (l.map f) = wsum (fun t => g (f t)) l
  | [] => rfl
  | t :: l => by simp [wsum, wsum_map g f l]

theorem wsum_perm {α : Type} (g : α → Int) {l l' : List α} (p : l.Perm l') : wsum g l = wsum g l' := by
  induction p with
  | nil => rfl
  | cons x _ ih => simp [wsum, ih]
  | swap x y l => simp only [wsum]; omega
  | trans _ _ ih1 ih2 => exact ih1.trans ih2

theorem wsum_add {α : Type} (g h : α → Int) : ∀ (l : List α),
    wsum (fun t => g t + h t) l = wsum g l + wsum h l
  | [] => rfl
  | t :: l => by simp only [wsum, wsum_add g h l]; omega

theorem wsum_mul_const {α : Type} (g : α → Int) (c : Int) : ∀ (l : List α),
    wsum (fun t => g t * c) l = wsum g l * c
  | [] => by simp [wsum]
  | t :: l => by simp only [wsum, wsum_mul_const g c l, Int.add_mul]

theorem wsum_zero {α : Type} : ∀ (l : List α), wsum (fun _ => (0 : Int)) l = 0
  | [] => rfl
  | _ :: l => by simp [wsum, wsum_zero l]

/-- split a sum by a predicate -/
theorem wsum_split {α : Type} (g : α → Int) (q : α → Bool) (l : List α) :
    wsum g l = wsum g (l.filter q) + wsum g (l.filter (fun t => !q t)) := by
  rw [wsum_filter, wsum_filter, ← wsum_add]
  apply wsum_congr; intro t _
  by_cases h : q t <;> simp [h]

/-! ### grouping by key: `Σ_k (Σ_{e : key e = k} val e) * w k = Σ_e val e * w (key e)` -/

/-- the summed duplicates of key `k` -/
def keySum {K : Type} [BEq K] (ent : List (K × Int)) (k : K) : Int :=
  wsum (fun e => e.2) (ent.filter (fun e => e.1 == k))

theorem keySum_filter_ne {K : Type} [BEq K] [LawfulBEq K] (rest : List (K × Int)) (p0 k : K) (hk : k ≠ p0) :
    keySum (rest.filter (fun e => !(e.1 == p0))) k = keySum rest k := by
  unfold keySum
  rw [List.filter_filter]
  congr 1
  apply List.filter_congr
  intro e _
  by_cases he : e.1 = k
  · subst he; simp [hk]
  · simp [he]

theorem group_by_key {K : Type} [BEq K] [LawfulBEq K] (w : K → Int) : ∀ (n : Nat) (ent : List (K × Int)),
    ent.length ≤ n →
    wsum (fun k => keySum ent k * w k) ((ent.map (·.1)).eraseDups) = wsum (fun e => e.2 * w e.1) ent
  | _, [], _ => rfl
  | 0, _ :: _, h => by simp at h
  | n + 1, e0 :: rest, hlen => by
    have hfm : (rest.map (·.1)).filter (fun b => !b == e0.1) =
        (rest.filter (fun e => !(e.1 == e0.1))).map (·.1) := by
      rw [List.filter_map]; rfl
    have hlen' : (rest.filter (fun e => !(e.1 == e0.1))).length ≤ n :=
      Nat.le_trans (List.length_filter_le _ _) (by simpa using hlen)
    rw [List.map_cons, List.eraseDups_cons, hfm]
    simp only [wsum]
    -- the tail: keys different from e0.1 see the same duplicates in `rest'`
    have htail : wsum (fun k => keySum (e0 :: rest) k * w k)
          (((rest.filter (fun e => !(e.1 == e0.1))).map (·.1)).eraseDups)
        = wsum (fun e => e.2 * w e.1) (rest.filter (fun e => !(e.1 == e0.1))) := by
      rw [← group_by_key w n _ hlen']
      apply wsum_congr
      intro k hk
      have hk' : k ∈ (rest.filter (fun e => !(e.1 == e0.1))).map (·.1) := List.mem_eraseDups.mp hk
      obtain ⟨e, he, rfl⟩ := List.mem_map.mp hk'
      have hne : e.1 ≠ e0.1 := by
        have := (List.mem_filter.mp he).2
        simpa using this
      rw [keySum_filter_ne rest e0.1 e.1 hne]
      congr 1
      unfold keySum
      rw [List.filter_cons]
      simp [Ne.symm hne]
    rw [htail]
    -- the head key collects e0 and its duplicates in `rest`
    have hhead : keySum (e0 :: rest) e0.1 = e0.2 + wsum (fun e => e.2) (rest.filter (fun e => e.1 == e0.1)) := by
      unfold keySum
      rw [List.filter_cons]
      simp only [beq_self_eq_true, if_true, wsum]
    have hdup : wsum (fun e => e.2 * w e.1) (rest.filter (fun e => e.1 == e0.1))
        = wsum (fun e => e.2) (rest.filter (fun e => e.1 == e0.1)) * w e0.1 := by
      rw [← wsum_mul_const]
      apply wsum_congr
      intro e he
      have : e.1 = e0.1 := by simpa using (List.mem_filter.mp he).2
      rw [this]
    rw [hhead, wsum_split (fun e => e.2 * w e.1) (fun e => e.1 == e0.1) rest, hdup, Int.add_mul]
    exact Int.add_assoc _ _ _

/-! ### the accumulation loop -/

/-- contribution of one stored entry to the product -/
def term (x : List Int) (pd : (Nat × Nat) × Int) : Int := pd.2 * x.getD pd.1.2 0

theorem matvecLoop_getElem? (x : List Int) : ∀ (zl : List ((Nat × Nat) × Int)) (y : List Int) (I : Nat),
    (zl.foldl (fun y (pd : (Nat × Nat) × Int) => y.modify pd.1.1 (fun a => a + pd.2 * x.getD pd.1.2 0)) y)[I]?
      = y[I]?.map (fun a => a + wsum (term x) (zl.filter (fun pd => pd.1.1 = I)))
  | [], y, I => by
    simp only [List.foldl_nil, List.filter_nil, wsum]
    cases y[I]? <;> simp
  | pd :: zl, y, I => by
    rw [List.foldl_cons, matvecLoop_getElem? x zl, List.getElem?_modify]
    by_cases h : pd.1.1 = I
    · cases hy : y[I]? <;> simp [h, wsum, term]; omega
    · cases hy : y[I]? <;> simp [h]

/-- row sums of a list of stored entries paired with their data -/
def rowSums (M : Nat) (zl : List ((Nat × Nat) × Int)) (x : List Int) : List Int :=
  (List.range M).map (fun I => wsum (term x) (zl.filter (fun pd => pd.1.1 = I)))

theorem matvecLoop_eq (ent : List (Nat × Nat)) (data x : List Int) (M : Nat) :
    matvecLoop ent data x (List.replicate M 0) = rowSums M (ent.zip data) x := by
  apply List.ext_getElem?
  intro I
  unfold matvecLoop rowSums
  rw [matvecLoop_getElem?]
  by_cases h : I < M
  · simp [h]
  · simp [h]

/-- the specification `MLStructure.matvec`, as row sums -/
theorem matvec_eq_rowSums (S : MLStructure) (data x : List Int) :
    S.matvec data x = rowSums S.shape.1 ((S.nonzeroSpec false).zip data) x := by
  unfold MLStructure.matvec rowSums
  apply List.map_congr_left
  intro I _
  have := foldl_eq_wsum (term x) (((S.nonzeroSpec false).zip data).filter (fun pd => pd.1.1 = I)) 0
  simp only [Int.zero_add] at this
  rw [← this]
  rfl

/-! ### `asmatrix().dot(x)` -/

theorem cooMatvec_canonical (M : Nat) (zl : List ((Nat × Nat) × Int)) (x : List Int) :
    cooMatvec M
      ((((zl.map (·.1)).eraseDups.mergeSort (fun a b => a.1 < b.1 || (a.1 == b.1 && a.2 ≤ b.2))).map
          (fun k => (k.1, k.2, ((zl.filter (fun (p, _) => p = k)).map (·.2)).foldl (· + ·) 0))).filter
        (fun t => t.2.2 ≠ 0)) x
    = rowSums M zl x := by
  unfold cooMatvec rowSums
  apply List.map_congr_left
  intro I _
  -- weights: the x-entry of the column for keys in row I, zero otherwise
  let w : Nat × Nat → Int := fun k => if k.1 = I then x.getD k.2 0 else 0
  have hval : ∀ k : Nat × Nat,
      ((zl.filter (fun (p, _) => p = k)).map (·.2)).foldl (· + ·) 0 = keySum zl k := by
    intro k
    have := foldl_eq_wsum (fun d : Int => d) ((zl.filter (fun (p, _) => p = k)).map (·.2)) 0
    simp only [Int.zero_add] at this
    rw [this, wsum_map]
    unfold keySum
    congr 1
    apply List.filter_congr
    intro e _
    by_cases hek : e.1 = k
    · subst hek; exact (decide_eq_true rfl).trans (beq_self_eq_true _).symm
    · exact (decide_eq_false hek).trans (beq_false_of_ne hek).symm
  have h1 := foldl_eq_wsum (fun t : Nat × Nat × Int => t.2.2 * x.getD t.2.1 0)
  rw [h1, Int.zero_add, wsum_filter, wsum_filter, wsum_map]
  -- all filters are now indicators; rewrite the summand as keySum * w
  have hsummand : ∀ k : Nat × Nat,
      (if (fun t : Nat × Nat × Int => decide (t.2.2 ≠ 0))
            (k.1, k.2, ((zl.filter (fun (p, _) => p = k)).map (·.2)).foldl (· + ·) 0) = true then
          (if (fun t : Nat × Nat × Int => decide (t.1 = I))
              (k.1, k.2, ((zl.filter (fun (p, _) => p = k)).map (·.2)).foldl (· + ·) 0) = true then
            (k.1, k.2, ((zl.filter (fun (p, _) => p = k)).map (·.2)).foldl (· + ·) 0).2.2 *
              x.getD (k.1, k.2, ((zl.filter (fun (p, _) => p = k)).map (·.2)).foldl (· + ·) 0).2.1 0
          else 0)
        else 0) = keySum zl k * w k := by
    intro k
    rw [hval k]
    by_cases hz : keySum zl k = 0
    · simp [hz]
    · by_cases hI : k.1 = I <;> simp [hz, hI, w]
  rw [wsum_congr (fun k _ => hsummand k), wsum_perm _ (List.mergeSort_perm _ _),
    group_by_key w zl.length zl (Nat.le_refl _)]
  rw [wsum_filter]
  apply wsum_congr
  intro e _
  by_cases hI : e.1.1 = I <;> simp [hI, w, term]

theorem asmatrix_matvec (S : MLStructure) (data x : List Int) :
    cooMatvec S.shape.1 (S.asmatrix data) x = S.matvec data x := by
  rw [matvec_eq_rowSums]
  exact cooMatvec_canonical S.shape.1 ((S.nonzeroSpec false).zip data) x

/-- `MLMatrix._matvec` (all three routes) = the specification -/
theorem matvecImpl_eq (S : MLStructure) (data x : List Int) :
    S.matvecImpl data x = S.matvec data x := by
  rw [matvec_eq_rowSums]
  unfold MLStructure.matvecImpl
  split
  · next _ m2 n2 b1 b2 hbs hbidx =>
    obtain ⟨bs, bidx⟩ := S
    simp only at hbs hbidx
    subst hbs hbidx
    rename_i b
    unfold matvec2d
    rw [matvecLoop_eq, nonzero2d_eq_spec b1 b2 b.1 b.2 m2 n2 false]
  · next _ m2 n2 m3 n3 b1 b2 b3 hbs hbidx =>
    obtain ⟨bs, bidx⟩ := S
    simp only at hbs hbidx
    subst hbs hbidx
    rename_i b
    unfold matvec3d
    rw [matvecLoop_eq, nonzero3d_eq_spec b1 b2 b3 b.1 b.2 m2 n2 m3 n3 false]
  · rw [← matvec_eq_rowSums]; exact asmatrix_matvec S data x

end Pyiga.ML
