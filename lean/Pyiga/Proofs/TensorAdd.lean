/-
C18: `join_tucker_bases`, Canonical → Tucker conversion, and the specification of `+` / `-`
for every pair of tensor classes the library supports.
-/
import Pyiga.Proofs.TensorOps

set_option linter.unusedSectionVars false
set_option linter.unusedSimpArgs false

namespace Pyiga.Tensor
open Pyiga.Index

variable {α : Type} [CommRing α]

theorem nwayEntry_sumN (Bs : List (Option (Mat α))) (I : List Nat) (R : Nat) (f : Nat → List Nat → α) :
    nwayEntry Bs I (fun J => sumN R (fun r => f r J)) = sumN R (fun r => nwayEntry Bs I (f r)) := by
  induction R with
  | zero => simp [nwayEntry_zero]
  | succ R ih =>
    have : (fun J => sumN (R + 1) (fun r => f r J)) = fun J => (fun K => sumN R (fun r => f r K)) J + f R J := by
      funext J; rw [sumN_succ]
    rw [this, nwayEntry_add, ih, sumN_succ]

/-! ### Canonical → Tucker (`TuckerTensor.from_tensor`, 893-896) -/

theorem nway_delta : ∀ (Xs : List (Mat α)) (I : List Nat) (r : Nat), I.length = Xs.length →
    (∀ X ∈ Xs, r < X.cols) →
    nwayEntry (Xs.map some) I (fun J => if J.all (fun j => j = r) then (1 : α) else 0) = canTerm Xs I r
  | [], [], r, _, _ => by simp [nwayEntry, canTerm]
  | X :: Xs, i :: I, r, hl, hc => by
    simp only [List.map_cons, nwayEntry]
    have hr : r < X.cols := hc X (by simp)
    have : ∀ j, X.get i j * nwayEntry (Xs.map some) I (fun J => if (j :: J).all (fun j => j = r) then (1 : α) else 0)
        = if j = r then X.get i j * canTerm Xs I r else 0 := by
      intro j
      by_cases hj : j = r
      · subst hj
        simp only [List.all_cons, decide_true, Bool.true_and, if_true]
        rw [nway_delta Xs I j (by simpa using hl) (fun Y hY => hc Y (by simp [hY]))]
      · have : (fun J => if (j :: J).all (fun j => j = r) then (1 : α) else 0) = fun _ => 0 := by
          funext J; simp [hj]
        rw [this, nwayEntry_zero]; simp [hj]
    rw [sumN_congr _ _ _ (fun j _ => this j), sumN_ite_eq _ _ hr]
    simp [canTerm]
  | [], _ :: _, _, hl, _ => by simp at hl
  | _ :: _, [], _, hl, _ => by simp at hl

theorem diagCore_shape (d R : Nat) (C : Full α) (h : diagCore d R = .ok C) :
    C.shape = List.replicate d R := by
  simp only [diagCore] at h
  split at h
  · cases h
  · split at h
    · rename_i h1
      injection h with h; subst h; subst h1; rfl
    · injection h with h; subst h; rfl

theorem diag_get (d R : Nat) (C : Full α) (h : diagCore d R = .ok C) (J : List Nat)
    (hJ : inBox J (List.replicate d R) = true) :
    C.get J = sumN R (fun r => if J.all (fun j => j = r) then (1 : α) else 0) := by
  have hlen := inBox_length hJ
  simp only [List.length_replicate] at hlen
  cases J with
  | nil =>
    simp only [diagCore] at h
    split at h
    · cases h
    · simp at hlen; omega
  | cons j0 J' =>
    have hd' : d = (d - 1) + 1 := by simp at hlen; omega
    have hJ' := hJ
    rw [hd', List.replicate_succ] at hJ'
    have hj0 : j0 < R := ((inBox_cons _ _ _ _).1 hJ').1
    have hval : C.get (j0 :: J') = if (j0 :: J').all (fun j => j = j0) then (1 : α) else 0 := by
      simp only [diagCore] at h
      split at h
      · cases h
      · split at h
        · rename_i h1
          injection h with h; subst h
          subst h1
          have : J' = [] := by simpa using hlen
          subst this
          rw [ofFn_get _ _ _ (by simpa using hJ)]
          simp
        · injection h with h; subst h
          rw [ofFn_get _ _ _ hJ]
          simp
    rw [hval]
    have : ∀ r, (if (j0 :: J').all (fun j => j = r) then (1 : α) else 0)
        = if r = j0 then (if (j0 :: J').all (fun j => j = j0) then (1 : α) else 0) else 0 := by
      intro r
      by_cases hr : r = j0
      · subst hr; simp
      · have : ¬ j0 = r := fun h => hr h.symm
        simp [hr, this]
    rw [sumN_congr _ _ _ (fun r _ => this r), sumN_ite_eq _ _ hj0]

theorem map_cols_replicate : ∀ (Xs : List (Mat α)) (R : Nat), (∀ X ∈ Xs, X.cols = R) →
    Xs.map (·.cols) = List.replicate Xs.length R
  | [], _, _ => rfl
  | X :: Xs, R, h => by
    simp only [List.map_cons, List.length_cons, List.replicate_succ]
    rw [h X (by simp), map_cols_replicate Xs R (fun Y hY => h Y (by simp [hY]))]

/-- `TuckerTensor.from_tensor(CanonicalTensor)` represents the same tensor -/
theorem canToTucker_spec (Xs : List (Mat α)) (T : Ten α) (hw : (Ten.can Xs).WF)
    (h : tuckerFromTensor (.can Xs) = .ok T) :
    ∃ C, T = .tucker Xs C ∧ Xs.map (·.cols) = C.shape ∧
      ∀ I, I.length = Xs.length → tuckerEntry Xs C I = canEntry Xs I := by
  simp only [tuckerFromTensor] at h
  obtain ⟨C, hC, h2⟩ := bind_ok _ _ _ h
  obtain ⟨hT, _⟩ := mkTucker_ok _ _ _ h2
  have hcols : Xs.map (·.cols) = List.replicate Xs.length (canR Xs) := map_cols_replicate Xs _ hw.2
  have hshape : C.shape = List.replicate Xs.length (canR Xs) := diagCore_shape _ _ C hC
  refine ⟨C, hT, by rw [hcols, hshape], fun I hI => ?_⟩
  simp only [tuckerEntry]
  rw [tuckerEntry_congr Xs I C.get (fun J => sumN (canR Xs) (fun r => if J.all (fun j => j = r) then (1 : α) else 0)) hI
    (fun J hJ => diag_get _ _ C hC J (by rw [← hcols]; exact hJ))]
  rw [nwayEntry_sumN, canEntry_eq]
  refine sumN_congr _ _ _ (fun r hr => ?_)
  exact nway_delta Xs I r hI (fun X hX => by rw [hw.2 X hX]; exact hr)

/-! ### `join_tucker_bases` + core addition -/

theorem padShape_join_left : ∀ (U1 U2 : List (Mat α)), U1.length = U2.length →
    padShape ((U2.map (·.cols)).map (fun n => (0, n))) (U1.map (·.cols))
      = ((U1.zip U2).map (fun p => Mat.hstack p.1 p.2)).map (·.cols)
  | [], [], _ => rfl
  | A :: U1, B :: U2, h => by
    simp only [List.map_cons, padShape, List.zip_cons_cons]
    rw [padShape_join_left U1 U2 (by simpa using h)]
    simp [Mat.hstack]
  | [], _ :: _, h => by simp at h
  | _ :: _, [], h => by simp at h

theorem map_rows_length (U1 U2 : List (Mat α)) (h : U1.map (·.rows) = U2.map (·.rows)) : U1.length = U2.length := by
  have := congrArg List.length h; simpa using this

theorem hstack_rows : ∀ (U1 U2 : List (Mat α)), U1.length = U2.length →
    ((U1.zip U2).map (fun p => Mat.hstack p.1 p.2)).map (·.rows) = U1.map (·.rows)
  | [], [], _ => rfl
  | A :: U1, B :: U2, h => by
    simp only [List.map_cons, List.zip_cons_cons]
    rw [hstack_rows U1 U2 (by simpa using h)]; rfl
  | [], _ :: _, h => by simp at h
  | _ :: _, [], h => by simp at h

/-- `TuckerTensor.__add__/__sub__` on two Tucker tensors (979-983, 991-995) -/
theorem tuckerJoin_spec (sub : Bool) (U1 U2 : List (Mat α)) (C1 C2 : Full α) (T' : Ten α)
    (h1 : U1.map (·.cols) = C1.shape) (h2 : U2.map (·.cols) = C2.shape)
    (hs : U1.map (·.rows) = U2.map (·.rows))
    (h : tuckerJoin sub U1 C1 U2 C2 = .ok T') :
    T'.WF ∧ T'.shape = U1.map (·.rows) ∧ ∀ I, inBox I (U1.map (·.rows)) = true →
      T'.entry I = if sub then tuckerEntry U1 C1 I - tuckerEntry U2 C2 I
                   else tuckerEntry U1 C1 I + tuckerEntry U2 C2 I := by
  have hl : U1.length = U2.length := map_rows_length U1 U2 hs
  simp only [tuckerJoin] at h
  obtain ⟨P1, hP1, h⟩ := bind_ok _ _ _ h
  obtain ⟨P2, hP2, h⟩ := bind_ok _ _ _ h
  have hX : ∃ X, (if sub then P1.sub P2 else P1.add P2) = .ok X ∧
      mkTucker ((U1.zip U2).map (fun p => Mat.hstack p.1 p.2)) X = .ok T' := by
    cases sub with
    | true =>
      simp only [if_true] at h ⊢
      obtain ⟨X, hX, h⟩ := bind_ok _ _ _ h
      exact ⟨X, hX, h⟩
    | false =>
      simp only [Bool.false_eq_true, if_false] at h ⊢
      obtain ⟨X, hX, h⟩ := bind_ok _ _ _ h
      exact ⟨X, hX, h⟩
  obtain ⟨X, hX, h⟩ := hX
  obtain ⟨hT, _⟩ := mkTucker_ok _ _ _ h
  subst hT
  -- the padded cores
  simp only [Full.pad] at hP1 hP2
  split at hP1
  · injection hP1 with hP1
    split at hP2
    · injection hP2 with hP2
      have hP1s : P1.shape = ((U1.zip U2).map (fun p => Mat.hstack p.1 p.2)).map (·.cols) := by
        rw [← hP1, ofFn_shape, ← h2, ← h1]; exact padShape_join_left U1 U2 hl
      have hXs : X.shape = P1.shape ∧ P2.shape = P1.shape ∧ ∀ J, inBox J P1.shape = true →
          X.get J = if sub then P1.get J - P2.get J else P1.get J + P2.get J := by
        cases sub with
        | true =>
          simp only [if_true, Full.sub] at hX
          split at hX
          · rename_i heq
            injection hX with hX; subst hX
            exact ⟨rfl, heq.symm, fun J hJ => by simp [ofFn_get _ _ _ hJ]⟩
          · cases hX
        | false =>
          simp only [Bool.false_eq_true, if_false, Full.add] at hX
          split at hX
          · rename_i heq
            injection hX with hX; subst hX
            exact ⟨rfl, heq.symm, fun J hJ => by simp [ofFn_get _ _ _ hJ]⟩
          · cases hX
      obtain ⟨hXs, hP2s, hXg⟩ := hXs
      refine ⟨by show _ = X.shape; rw [hXs, hP1s], by simp [Ten.shape, hstack_rows U1 U2 hl], fun I hI => ?_⟩
      have hIl : I.length = U1.length := by have := inBox_length hI; simpa using this
      have hIl' : I.length = ((U1.zip U2).map (fun p => Mat.hstack p.1 p.2)).length := by
        simp [hIl, hl]
      simp only [Ten.entry, tuckerEntry]
      have e1 := join_left U1 U2 I C1.get hl hIl
      have e2 := join_right U1 U2 I C2.get hl hIl
      cases sub with
      | true =>
        simp only [if_true] at hXg ⊢
        rw [← e1, ← e2, ← nwayEntry_sub]
        refine tuckerEntry_congr _ I _ _ hIl' (fun J hJ => ?_)
        rw [← hP1s] at hJ
        rw [hXg J hJ, ← hP1, ← hP2]
        rw [ofFn_get _ _ _ (by rw [← hP1] at hJ; exact hJ),
          ofFn_get _ _ _ (by rw [← hP2s, ← hP2] at hJ; exact hJ), h1, h2]
      | false =>
        simp only [Bool.false_eq_true, if_false] at hXg ⊢
        rw [← e1, ← e2, ← nwayEntry_add]
        refine tuckerEntry_congr _ I _ _ hIl' (fun J hJ => ?_)
        rw [← hP1s] at hJ
        rw [hXg J hJ, ← hP1, ← hP2]
        rw [ofFn_get _ _ _ (by rw [← hP1] at hJ; exact hJ),
          ofFn_get _ _ _ (by rw [← hP2s, ← hP2] at hJ; exact hJ), h1, h2]
    · cases hP2
  · cases hP1

end Pyiga.Tensor
