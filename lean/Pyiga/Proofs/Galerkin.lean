import Pyiga.Model.Galerkin
