/-
Helper lemmas for the C09 model (`Pyiga.Model.Galerkin`): list bookkeeping of the COO
construction, duplicate summation, bridge from the model's `List.range` sums to `Finset` sums.
-/
import Pyiga.Model.Galerkin
import Mathlib.Tactic.Ring
import Mathlib.Tactic.Linarith
import Mathlib.Algebra.BigOperators.Group.Finset.Basic
import Mathlib.Algebra.BigOperators.Ring.Finset
import Mathlib.Algebra.BigOperators.Intervals
import Mathlib.Algebra.Order.BigOperators.Group.Finset
import Mathlib.Algebra.Order.BigOperators.Ring.Finset

namespace Pyiga.Galerkin
open Finset

/-! ### lengths of `repeat` / `tile` / `mgrid` -/

section Lists
variable {β : Type}

theorem repeatEach_cons (x : β) (l : List β) (n : Nat) :
    repeatEach (x :: l) n = List.replicate n x ++ repeatEach l n := by
  simp [repeatEach]

theorem tile_succ (l : List β) (n : Nat) : tile l (n + 1) = l ++ tile l n := by
  simp [tile, List.replicate_succ]

@[simp] theorem repeatEach_nil (n : Nat) : repeatEach ([] : List β) n = [] := rfl
@[simp] theorem tile_zero (l : List β) : tile l 0 = [] := rfl

theorem length_repeatEach (l : List β) (n : Nat) : (repeatEach l n).length = l.length * n := by
  induction l with
  | nil => simp
  | cons x xs ih => simp [repeatEach_cons, ih, Nat.succ_mul, Nat.add_comm]

theorem length_tile (l : List β) (n : Nat) : (tile l n).length = n * l.length := by
  induction n with
  | zero => simp
  | succ n ih => simp [tile_succ, ih, Nat.succ_mul, Nat.add_comm]

end Lists

theorem length_mgridI (n1 n2 : Nat) : (mgridI n1 n2).length = n1 * n2 := by
  simp [mgridI, length_repeatEach]

theorem length_mgridJ (n1 n2 : Nat) : (mgridJ n1 n2).length = n1 * n2 := by
  simp [mgridJ, length_tile]

/-- `mgrid[0].ravel()` in nested form -/
theorem mgridI_eq (n1 n2 : Nat) :
    mgridI n1 n2 = (List.range n1).flatMap fun a => (List.range n2).map fun _ => a := by
  unfold mgridI repeatEach
  congr 1
  funext a
  simp [List.map_const']

/-- `mgrid[1].ravel()` in nested form -/
theorem mgridJ_eq (n1 n2 : Nat) :
    mgridJ n1 n2 = (List.range n1).flatMap fun _ => (List.range n2).map fun b => b := by
  unfold mgridJ tile
  induction n1 with
  | zero => simp
  | succ n ih =>
    rw [List.range_succ, List.flatMap_append, ← ih]
    simp [List.replicate_succ']

/-- adding a constant block-wise: `zipWith (+) (replicate m f) X = X.map (f + ·)` -/
theorem zipWith_replicate_add (f : Nat) (X : List Nat) :
    List.zipWith (· + ·) (List.replicate X.length f) X = X.map (f + ·) := by
  induction X with
  | nil => rfl
  | cons x xs ih => simp [List.replicate_succ, ih]

/-- block structure of `np.repeat(fa, m) + np.tile(X, len(fa))` when `len(X) = m` -/
theorem zipWith_repeat_tile (fa : List Nat) (X : List Nat) :
    List.zipWith (· + ·) (repeatEach fa X.length) (tile X fa.length) = fa.flatMap fun f => X.map (f + ·) := by
  induction fa with
  | nil => simp
  | cons f fs ih =>
    rw [repeatEach_cons, List.length_cons, tile_succ, List.zipWith_append (by simp), ih,
      zipWith_replicate_add]
    simp

/-- **Index lists of `_create_coo_1d_custom`** in nested-loop form: for span `k`, local row `a`,
local column `b` (in this order) the COO indices are `first_act1[k] + a`, `first_act2[k] + b`. -/
theorem cooCustom_eq (n1 n2 : Nat) (fa1 fa2 : List Nat) (h : fa2.length = fa1.length) :
    cooCustom fa1.length n1 n2 fa1 fa2 =
      (fa1.flatMap fun f => (List.range n1).flatMap fun a => (List.range n2).map fun _ => f + a,
       fa2.flatMap fun f => (List.range n1).flatMap fun _ => (List.range n2).map fun b => f + b) := by
  unfold cooCustom
  have h1 := zipWith_repeat_tile fa1 (mgridI n1 n2)
  have h2 := zipWith_repeat_tile fa2 (mgridJ n1 n2)
  rw [length_mgridI] at h1
  rw [length_mgridJ, h] at h2
  rw [h1, h2, mgridI_eq, mgridJ_eq]
  simp [List.map_flatMap]

/-! ### zips of block lists -/

section Zip
variable {ι β γ : Type}

theorem zip_flatMap (L : List ι) (f : ι → List β) (g : ι → List γ)
    (h : ∀ x ∈ L, (f x).length = (g x).length) :
    (L.flatMap f).zip (L.flatMap g) = L.flatMap fun x => (f x).zip (g x) := by
  induction L with
  | nil => rfl
  | cons x xs ih =>
    simp only [List.flatMap_cons]
    rw [List.zip_append (h x (by simp)), ih (fun y hy => h y (by simp [hy]))]

theorem flatMap_eq_range (l : List β) (d : β) (f : β → List γ) :
    l.flatMap f = (List.range l.length).flatMap fun k => f (l.getD k d) := by
  induction l using List.reverseRecOn with
  | nil => rfl
  | append_singleton xs x ih =>
    rw [List.flatMap_append, List.length_append, List.length_singleton, List.range_succ, List.flatMap_append, ih]
    congr 1
    · apply List.flatMap_congr
      intro k hk
      have hk' : k < xs.length := List.mem_range.mp hk
      simp [List.getD_eq_getElem?_getD, List.getElem?_append_left hk']
    · simp [List.getD_eq_getElem?_getD]

end Zip

section Knots
variable {β : Type} [DecidableEq β]

theorem uniqueSorted_length_pos : ∀ (a : β) (l : List β), 0 < (uniqueSorted (a :: l)).length
  | a, [] => by simp [uniqueSorted]
  | a, b :: l => by
      unfold uniqueSorted
      split
      · exact uniqueSorted_length_pos b l
      · simp

theorem length_spanIndicesFrom : ∀ (i : Nat) (l : List β),
    (spanIndicesFrom i l).length = (uniqueSorted l).length - 1
  | _, [] => rfl
  | _, [_] => rfl
  | i, a :: b :: l => by
      have ih := length_spanIndicesFrom (i + 1) (b :: l)
      have hp := uniqueSorted_length_pos b l
      unfold spanIndicesFrom uniqueSorted
      split
      · exact ih
      · simp only [List.length_cons, ih]; omega

/-- `numspans = len(mesh) - 1` equals the number of span indices (for every list) -/
theorem length_spanIndices (kv : List β) : (spanIndices kv).length = (uniqueSorted kv).length - 1 :=
  length_spanIndicesFrom 0 kv

end Knots

section Ring
variable {α : Type} [CommRing α]

theorem sumRange_eq (n : Nat) (f : Nat → α) : sumRange n f = ∑ t ∈ range n, f t := by
  unfold sumRange
  induction n with
  | zero => simp
  | succ n ih => rw [List.range_succ, List.map_append, List.sum_append, ih, Finset.sum_range_succ]; simp

theorem cooEntry_append (s t : List (Nat × Nat × α)) (i j : Nat) :
    cooEntry (s ++ t) i j = cooEntry s i j + cooEntry t i j := by
  simp [cooEntry, List.sum_append]

/-- duplicate summation distributes over the blocks -/
theorem cooEntry_flatMap {ι : Type} (L : List ι) (F : ι → List (Nat × Nat × α)) (i j : Nat) :
    cooEntry (L.flatMap F) i j = (L.map fun x => cooEntry (F x) i j).sum := by
  induction L with
  | nil => simp [cooEntry]
  | cons x xs ih => simp [List.flatMap_cons, cooEntry_append, ih]

theorem cooEntry_map_range (n : Nat) (g : Nat → Nat × Nat × α) (i j : Nat) :
    cooEntry ((List.range n).map g) i j =
      ∑ b ∈ range n, if (g b).1 = i ∧ (g b).2.1 = j then (g b).2.2 else 0 := by
  have := sumRange_eq n (fun b => if (g b).1 = i ∧ (g b).2.1 = j then (g b).2.2 else 0)
  rw [← this]
  simp [cooEntry, sumRange, Function.comp_def]

theorem sum_map_range (n : Nat) (f : Nat → α) : ((List.range n).map f).sum = ∑ k ∈ range n, f k :=
  sumRange_eq n f

/-- a shifted Kronecker delta picks one term of a range sum -/
theorem sum_range_shift_ite (n f i : Nat) (g : Nat → α) :
    (∑ a ∈ range n, if f + a = i then g a else 0) = if f ≤ i ∧ i < f + n then g (i - f) else 0 := by
  by_cases h : f ≤ i ∧ i < f + n
  · rw [if_pos h]
    rw [Finset.sum_eq_single (i - f)]
    · rw [if_pos (by omega)]
    · intro b _ hb
      rw [if_neg (by omega)]
    · intro hb
      exact absurd (Finset.mem_range.mpr (by omega)) hb
  · rw [if_neg h]
    apply Finset.sum_eq_zero
    intro a ha
    have := Finset.mem_range.mp ha
    rw [if_neg (by omega)]

/-- `Σ_{q < m*n} f q = Σ_{k<m} Σ_{t<n} f (n*k+t)` -/
theorem sum_range_mul (m n : Nat) (f : Nat → α) :
    ∑ q ∈ range (m * n), f q = ∑ k ∈ range m, ∑ t ∈ range n, f (n * k + t) := by
  induction m with
  | zero => simp
  | succ m ih =>
    rw [Nat.succ_mul, Finset.sum_range_add, ih, Finset.sum_range_succ]
    congr 1
    apply Finset.sum_congr rfl
    intro t _
    rw [Nat.mul_comm]

end Ring

end Pyiga.Galerkin
