/-
`CSRRowSlice / CSRRowSubset` = selected rows of the dense matrix the CSR arrays denote;
`SubspaceOperator._matvec` = `Σ_j P_j (B_j (P_jᵀ x))`.
-/
import Pyiga.Proofs.Blocks

namespace Pyiga.Ops
open Pyiga.Index Pyiga.LA

section
variable {α : Type} [CommSemiring α]

/-- entry `(r, c)` of the matrix denoted by the CSR arrays (duplicates summed) -/
def csrDense (A : CSR α) (r c : Nat) : α :=
  let lo := A.indptr.getD r 0
  let hi := A.indptr.getD (r + 1) 0
  sumRange (hi - lo) (fun t => if A.indices.getD (lo + t) 0 = c then A.data.getD (lo + t) 0 else 0)

/-- all stored column indices of row `r` are `< ncols` -/
def RowInRange (A : CSR α) (r : Nat) : Prop :=
  ∀ t, t < A.indptr.getD (r + 1) 0 - A.indptr.getD r 0 → A.indices.getD (A.indptr.getD r 0 + t) 0 < A.ncols

/-- the CSR row loop is the dense row times the vector -/
theorem csrRowDot_eq (A : CSR α) (r : Nat) (xat : Nat → α) (h : RowInRange A r) :
    csrRowDot A r xat = sumRange A.ncols (fun c => csrDense A r c * xat c) := by
  unfold csrRowDot csrDense
  simp only
  show sumRange _ _ = _
  simp only [sumRange_eq_sum, Finset.sum_mul]
  rw [Finset.sum_comm]
  apply Finset.sum_congr rfl
  intro t ht
  simp only [ite_mul, zero_mul]
  rw [Finset.sum_ite_eq, if_pos (Finset.mem_range.2 (h t (Finset.mem_range.1 ht)))]

theorem csrRowDot_fold (A : CSR α) (r : Nat) (xat : Nat → α) :
    csrRowDot A r xat = sumRange (A.indptr.getD (r + 1) 0 - A.indptr.getD r 0)
      (fun t => A.data.getD (A.indptr.getD r 0 + t) 0 * xat (A.indices.getD (A.indptr.getD r 0 + t) 0)) := rfl

theorem csrRowSlice_spec (A : CSR α) (a b : Nat) (x : Tensor α) (hab : a ≤ b) (hb : b ≤ A.nrows)
    (hx : x.shape = [A.ncols]) (hr : ∀ i, i < b - a → RowInRange A (a + i)) :
    ∃ y, csrRowSlice A a b x = .ok y ∧ y.shape = [b - a] ∧
      ∀ i, i < b - a → y.get [i] = sumRange A.ncols (fun c => csrDense A (a + i) c * x.get [c]) := by
  unfold csrRowSlice
  rw [if_neg (not_not.2 ⟨hab, hb⟩), hx]
  refine ⟨_, rfl, rfl, ?_⟩
  intro i hi
  rw [Tensor.get_ofFn _ _ _ (show Below [i] [b - a] from ⟨hi, trivial⟩)]
  simp only [List.getD_cons_zero]
  exact csrRowDot_eq A (a + i) _ (hr i hi)

theorem csrRowSlice_spec_mat (A : CSR α) (a b K : Nat) (x : Tensor α) (hab : a ≤ b) (hb : b ≤ A.nrows)
    (hx : x.shape = [A.ncols, K]) (hr : ∀ i, i < b - a → RowInRange A (a + i)) :
    ∃ y, csrRowSlice A a b x = .ok y ∧ y.shape = [b - a, K] ∧
      ∀ i k, i < b - a → k < K →
        y.get [i, k] = sumRange A.ncols (fun c => csrDense A (a + i) c * x.get [c, k]) := by
  unfold csrRowSlice
  rw [if_neg (not_not.2 ⟨hab, hb⟩), hx]
  refine ⟨_, rfl, rfl, ?_⟩
  intro i k hi hk
  rw [Tensor.get_ofFn _ _ _ (show Below [i, k] [b - a, K] from ⟨hi, hk, trivial⟩)]
  simp only [List.getD_cons_zero, List.getD_cons_succ]
  exact csrRowDot_eq A (a + i) _ (hr i hi)

theorem csrRowSubset_spec (A : CSR α) (rows : List Nat) (x : Tensor α) (hx : x.shape = [A.ncols])
    (hr : ∀ r ∈ rows, RowInRange A r) :
    ∃ y, csrRowSubset A rows x = .ok y ∧ y.shape = [rows.length] ∧
      ∀ i, (hi : i < rows.length) →
        y.get [i] = sumRange A.ncols (fun c => csrDense A rows[i] c * x.get [c]) := by
  unfold csrRowSubset
  rw [if_neg (not_not.2 hx)]
  refine ⟨_, rfl, rfl, ?_⟩
  intro i hi
  rw [Tensor.get_ofFn _ _ _ (show Below [i] [rows.length] from ⟨hi, trivial⟩)]
  simp only [List.getD_cons_zero]
  have e : rows.getD i 0 = rows[i] := by simp [List.getD, hi]
  rw [e]
  exact csrRowDot_eq A rows[i] _ (hr _ (List.getElem_mem hi))

/-! ### SubspaceOperator -/

/-- `P (B' (Pᵀ x))[r]` for one subspace (`B' = B` or `Bᵀ`) -/
def subspaceTerm (P B : Op α) (isT : Bool) (n : Nat) (x : Tensor α) (r : Nat) : α :=
  sumRange P.n (fun a => P.ent r a * sumRange P.n (fun b =>
    (if isT then B.ent b a else B.ent a b) * sumRange n (fun c => P.ent c b * x.get [c])))

def SubOk (n : Nat) (p : Op α × Op α) : Prop := p.1.m = n ∧ p.2.m = p.1.n ∧ p.2.n = p.1.n

theorem get_dot_vec (B : Op α) (x : Tensor α) (h : x.shape = [B.n]) (i : Nat) (hi : i < B.m) :
    ∃ v, dot B x = .ok v ∧ v.shape = [B.m] ∧ v.get [i] = sumRange B.n (fun j => B.ent i j * x.get [j]) := by
  refine ⟨_, dot_vec B x h, rfl, ?_⟩
  rw [Tensor.get_ofFn _ _ _ (show Below [i] [B.m] from ⟨hi, trivial⟩)]
  simp

theorem subspace_step (n : Nat) (isT : Bool) (x y : Tensor α) (hx : x.shape = [n]) (hy : y.shape = [n])
    (p : Op α × Op α) (hp : SubOk n p) :
    ∃ y', (do
        let t1 ← dot p.1.T x
        let t2 ← dot (if isT then p.2.T else p.2) t1
        let t3 ← dot p.1 t2
        if t3.shape ≠ y.shape then Except.error Err.value else
        pure (Tensor.ofFn y.shape (fun idx => y.get idx + t3.get idx))) = Except.ok y' ∧ y'.shape = [n] ∧
      ∀ r, r < n → y'.get [r] = y.get [r] + subspaceTerm p.1 p.2 isT n x r := by
  obtain ⟨P, B⟩ := p
  obtain ⟨h1, h2, h3⟩ := hp
  simp only at h1 h2 h3
  have e1 := dot_vec P.T x (by simp [Op.T, hx, h1])
  set t1 := Tensor.ofFn [P.T.m] (fun idx => sumRange P.T.n (fun j => P.T.ent (idx.getD 0 0) j * x.get [j])) with ht1
  set B' : Op α := if isT then B.T else B with hB'
  have hB'n : B'.n = P.n := by rw [hB']; cases isT <;> simp [Op.T, h2, h3]
  have hB'm : B'.m = P.n := by rw [hB']; cases isT <;> simp [Op.T, h2, h3]
  have hB'e : ∀ a b, B'.ent a b = if isT then B.ent b a else B.ent a b := by
    intro a b; rw [hB']; cases isT <;> simp [Op.T]
  have e2 := dot_vec B' t1 (by simp [ht1, Op.T, hB'n])
  set t2 := Tensor.ofFn [B'.m] (fun idx => sumRange B'.n (fun j => B'.ent (idx.getD 0 0) j * t1.get [j])) with ht2
  have e3 := dot_vec P t2 (by simp [ht2, hB'm])
  set t3 := Tensor.ofFn [P.m] (fun idx => sumRange P.n (fun j => P.ent (idx.getD 0 0) j * t2.get [j])) with ht3
  have hs3 : t3.shape = y.shape := by simp [ht3, hy, h1]
  refine ⟨Tensor.ofFn y.shape (fun idx => y.get idx + t3.get idx), ?_, by simp [hy], ?_⟩
  · simp only [e1, e2, e3, bind, Except.bind, hs3, ne_eq, not_true_eq_false, if_false, pure, Except.pure]
  · intro r hr
    rw [Tensor.get_ofFn _ _ _ (by rw [hy]; exact ⟨hr, trivial⟩)]
    congr 1
    rw [ht3, Tensor.get_ofFn _ _ _ (show Below [r] [P.m] from ⟨by omega, trivial⟩)]
    unfold subspaceTerm
    simp only [List.getD_cons_zero]
    apply sumRange_congr
    intro a ha
    congr 1
    rw [ht2, Tensor.get_ofFn _ _ _ (show Below [a] [B'.m] from ⟨by omega, trivial⟩), hB'n]
    simp only [List.getD_cons_zero]
    apply sumRange_congr
    intro b hb
    rw [hB'e]
    congr 1
    rw [ht1, Tensor.get_ofFn _ _ _ (show Below [b] [P.T.m] from ⟨by simpa [Op.T] using hb, trivial⟩)]
    simp [Op.T, h1]

theorem subspace_fold (n : Nat) (isT : Bool) (x : Tensor α) (hx : x.shape = [n]) :
    ∀ (L : List (Op α × Op α)) (y : Tensor α), y.shape = [n] → (∀ p ∈ L, SubOk n p) →
    ∃ y', L.foldl (fun (acc : Except Err (Tensor α)) (p : Op α × Op α) => do
        let y ← acc
        let t1 ← dot p.1.T x
        let t2 ← dot (if isT then p.2.T else p.2) t1
        let t3 ← dot p.1 t2
        if t3.shape ≠ y.shape then Except.error Err.value else
        pure (Tensor.ofFn y.shape (fun idx => y.get idx + t3.get idx))) (.ok y) = .ok y' ∧ y'.shape = [n] ∧
      ∀ r, r < n → y'.get [r] = y.get [r] + (L.map (fun p => subspaceTerm p.1 p.2 isT n x r)).sum
  | [], y, hy, _ => ⟨y, rfl, hy, fun r _ => by simp⟩
  | p :: L, y, hy, hL => by
    obtain ⟨y1, e1, s1, g1⟩ := subspace_step n isT x y hx hy p (hL p List.mem_cons_self)
    obtain ⟨y2, e2, s2, g2⟩ := subspace_fold n isT x hx L y1 s1 (fun q hq => hL q (List.mem_cons_of_mem _ hq))
    refine ⟨y2, ?_, s2, ?_⟩
    · rw [List.foldl_cons]
      have : (do
          let y ← (Except.ok y : Except Err (Tensor α))
          let t1 ← dot p.1.T x
          let t2 ← dot (if isT then p.2.T else p.2) t1
          let t3 ← dot p.1 t2
          if t3.shape ≠ y.shape then Except.error Err.value else
          pure (Tensor.ofFn y.shape (fun idx => y.get idx + t3.get idx))) = Except.ok y1 := e1
      rw [this]; exact e2
    · intro r hr
      rw [g2 r hr, g1 r hr, List.map_cons, List.sum_cons, add_assoc]

theorem subspaceMatvec_spec (Ps Bs : List (Op α)) (isT : Bool) (x : Tensor α) (n : Nat)
    (hok : ∀ p ∈ Ps.zip Bs, SubOk n p) (hx : x.shape = [n]) :
    ∃ y, subspaceMatvec Ps Bs isT x = .ok y ∧ y.shape = [n] ∧
      ∀ r, r < n → y.get [r] = ((Ps.zip Bs).map (fun p => subspaceTerm p.1 p.2 isT n x r)).sum := by
  unfold subspaceMatvec
  have h0 : (Tensor.ofFn [x.shape.getD 0 0] (fun _ => (0 : α))).shape = [n] := by simp [hx]
  obtain ⟨y, e, s, g⟩ := subspace_fold n isT x hx (Ps.zip Bs) _ h0 hok
  refine ⟨y, e, s, ?_⟩
  intro r hr
  rw [g r hr, Tensor.get_ofFn _ _ _ (by simp only [hx, List.getD_cons_zero]; exact ⟨hr, trivial⟩), zero_add]

/-! ### words over `{T, H}`: transposition is an involution on every operator class -/

omit [CommSemiring α] in
theorem Op.T_T (B : Op α) : B.T.T = B := rfl

omit [CommSemiring α] in
theorem kronT_kronT (ops : List (Op α)) : kronT (kronT ops) = ops := by
  unfold kronT
  rw [List.map_map]
  conv => rhs; rw [← List.map_id ops]
  apply List.map_congr_left
  intro B _
  rfl

omit [CommSemiring α] in
theorem BaseBlock.T_T (B : BaseBlock α) : B.T.T = B := by
  cases B with
  | mk M N ops ro ri =>
    simp only [BaseBlock.T, List.map_map]
    congr 1
    conv => rhs; rw [← List.map_id ops]
    apply List.map_congr_left
    intro B _
    rfl

omit [CommSemiring α] in
theorem Subspace.T_T (S : Subspace α) : S.T.T = S := by
  cases S; simp [Subspace.T]

omit [CommSemiring α] in
theorem Subspace.H_H (S : Subspace α) : S.H.H = S := by
  cases S with
  | mk Ps Bs isT =>
    simp only [Subspace.H, List.map_map]
    congr 1
    conv => rhs; rw [← List.map_id Bs]
    apply List.map_congr_left
    intro B _
    rfl

omit [CommSemiring α] in
theorem Subspace.T_H_comm (S : Subspace α) : S.T.H = S.H.T := rfl

/-- transposing the local operator and flipping `_is_transpose` cancel -/
theorem subspaceTerm_T_not (P B : Op α) (isT : Bool) (n : Nat) (x : Tensor α) (r : Nat) :
    subspaceTerm P B.T (!isT) n x r = subspaceTerm P B isT n x r := by
  unfold subspaceTerm
  cases isT <;> simp [Op.T]

/-- `X.T.H` (and `X.H.T`) is the same operator as `X` for real data: term by term -/
theorem subspace_TH_terms (n : Nat) (x : Tensor α) (r : Nat) (isT : Bool) : ∀ (Ps Bs : List (Op α)),
    ((Ps.zip (Bs.map Op.T)).map (fun p => subspaceTerm p.1 p.2 (!isT) n x r)).sum
      = ((Ps.zip Bs).map (fun p => subspaceTerm p.1 p.2 isT n x r)).sum
  | [], _ => by simp
  | _ :: _, [] => by simp
  | P :: Ps, B :: Bs => by
    simp only [List.map_cons, List.zip_cons_cons, List.sum_cons]
    rw [subspaceTerm_T_not, subspace_TH_terms n x r isT Ps Bs]

omit [CommSemiring α] in
theorem subOk_T (n : Nat) : ∀ (Ps Bs : List (Op α)), (∀ p ∈ Ps.zip Bs, SubOk n p) →
    ∀ p ∈ Ps.zip (Bs.map Op.T), SubOk n p
  | [], _, _, p, hp => by simp at hp
  | _ :: _, [], _, p, hp => by simp at hp
  | P :: Ps, B :: Bs, h, p, hp => by
    simp only [List.map_cons, List.zip_cons_cons, List.mem_cons] at hp
    rcases hp with rfl | hp
    · obtain ⟨a, b, c⟩ := h (P, B) (by simp)
      exact ⟨a, by simpa [Op.T] using c, by simpa [Op.T] using b⟩
    · exact subOk_T n Ps Bs (fun q hq => h q (by simp [hq])) p hp

/-- **`X.T.H` acts like `X`**: same result vector, for any family of subspaces -/
theorem subspace_TH_same (S : Subspace α) (x : Tensor α) (n : Nat)
    (hok : ∀ p ∈ S.Ps.zip S.Bs, SubOk n p) (hx : x.shape = [n]) :
    ∃ y y', subspaceMatvec S.T.H.Ps S.T.H.Bs S.T.H.isT x = .ok y ∧ subspaceMatvec S.Ps S.Bs S.isT x = .ok y' ∧
      y.shape = [n] ∧ y'.shape = [n] ∧ ∀ r, r < n → y.get [r] = y'.get [r] := by
  obtain ⟨y', e', s', g'⟩ := subspaceMatvec_spec S.Ps S.Bs S.isT x n hok hx
  obtain ⟨y, e, s, g⟩ := subspaceMatvec_spec S.Ps (S.Bs.map Op.T) (!S.isT) x n (subOk_T n S.Ps S.Bs hok) hx
  refine ⟨y, y', e, e', s, s', ?_⟩
  intro r hr
  rw [g r hr, g' r hr, subspace_TH_terms]

end
end Pyiga.Ops
