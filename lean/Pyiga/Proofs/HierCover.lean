/-
L-hier: `_TP_to_HMesh_cells_up` returns the active descendants (the active cover) of a set of
cells of a refinement region.
-/
import Pyiga.Proofs.HierAdm

namespace Pyiga.Hier

section cover
variable {VC VF : Nat → Idx → Prop}

/-- the ancestor on the first level of the chain of any cell of a later refinement region lies in
the first region -/
theorem inv_anc_head {O : Ops} {par : Idx → Idx} : ∀ (levels : List Level) (lv : Nat) (Ω : Idx → Prop) (i : Nat) (c : Idx),
    Inv O VC VF par lv Ω levels → (c ∈ (lvl levels i).act ∨ c ∈ (lvl levels i).deact) →
    Ω (anc par i c)
  | [], _, _, _, _, h, _ => h.elim
  | [l], _, _, 0, c, h, hc => (h.1.cover c).1 (by simpa [lvl] using hc)
  | [l], _, _, i + 1, c, _, hc => by simp [lvl, emptyLevel] at hc
  | l :: l2 :: rest, _, _, 0, c, h, hc => (h.1.cover c).1 (by simpa [lvl] using hc)
  | l :: l2 :: rest, lv, Ω, i + 1, c, h, hc => by
    have ih := inv_anc_head (l2 :: rest) (lv + 1) _ i c h.2 (by simpa [lvl] using hc)
    exact (h.1.cover _).1 (Or.inr ih.2)

theorem tpUp_single (l : Level) (aux : List Idx) : tpUp [l] aux = [inter aux l.act] := by
  unfold tpUp; rfl

theorem tpUp_cons_cons (l l2 : Level) (rest : List Level) (aux : List Idx) :
    tpUp (l :: l2 :: rest) aux
      = inter aux l.act :: tpUp (l2 :: rest) (dedup (cellChildren (diff aux l.act))) := by
  rw [tpUp]

theorem tpUp_length : ∀ (levels : List Level) (aux : List Idx), (tpUp levels aux).length = levels.length
  | [], _ => rfl
  | [l], _ => by simp [tpUp_single]
  | l :: l2 :: rest, aux => by
    rw [tpUp_cons_cons, List.length_cons, tpUp_length (l2 :: rest)]
    simp

/-- **active cover, upward part.**  For a chain of levels `lv, lv+1, …` and a set `aux` of cells of
the level-`lv` refinement region, entry `i` of `_TP_to_HMesh_cells_up(lv, aux)` is exactly the set
of active cells of level `lv+i` whose level-`lv` ancestor belongs to `aux`. -/
theorem tpUp_mem {O : Ops} {par : Idx → Idx} (L : Laws O VC VF par)
    (hch : ∀ lv cells, O.children lv cells = cellChildren cells) :
    ∀ (levels : List Level) (lv : Nat) (Ω : Idx → Prop) (aux : List Idx),
      Inv O VC VF par lv Ω levels → (∀ c, Ω c → VC lv c) → (∀ c ∈ aux, Ω c) →
      ∀ i c, i < levels.length →
        (c ∈ (tpUp levels aux).getD i [] ↔ c ∈ (lvl levels i).act ∧ anc par i c ∈ aux)
  | [], _, _, _, h, _, _, _, _, _ => h.elim
  | [l], _, _, aux, _, _, _, i, c, hi => by
    have : i = 0 := by simpa using hi
    subst this
    simp [tpUp_single, lvl, anc, and_comm]
  | l :: l2 :: rest, lv, Ω, aux, h, hΩv, haux, i, c, hi => by
    cases i with
    | zero => simp [tpUp_cons_cons, lvl, anc, and_comm]
    | succ i =>
      have hdv : ∀ q ∈ diff aux l.act, VC lv q := fun q hq => hΩv q (haux q (mem_diff.1 hq).1)
      have hmem : ∀ c', c' ∈ dedup (cellChildren (diff aux l.act)) ↔
          VC (lv + 1) c' ∧ par c' ∈ aux ∧ par c' ∉ l.act := by
        intro c'
        rw [mem_dedup, ← hch lv, L.mem_children lv _ c' hdv, mem_diff]
      have haux2 : ∀ c' ∈ dedup (cellChildren (diff aux l.act)), VC (lv + 1) c' ∧ par c' ∈ l.deact := by
        intro c' hc'
        obtain ⟨h1, h2, h3⟩ := (hmem c').1 hc'
        refine ⟨h1, ?_⟩
        rcases (h.1.cover _).2 (haux _ h2) with h4 | h4
        · exact absurd h4 h3
        · exact h4
      have ih := tpUp_mem L hch (l2 :: rest) (lv + 1) _ (dedup (cellChildren (diff aux l.act))) h.2
        (fun c hc => hc.1) haux2 i c (by simpa using hi)
      have e1 : (tpUp (l :: l2 :: rest) aux).getD (i + 1) []
          = (tpUp (l2 :: rest) (dedup (cellChildren (diff aux l.act)))).getD i [] := by
        rw [tpUp_cons_cons, List.getD_cons_succ]
      have e2 : lvl (l :: l2 :: rest) (i + 1) = lvl (l2 :: rest) i := by simp [lvl]
      rw [e1, e2, ih, hmem]
      constructor
      · rintro ⟨h1, _, h2, _⟩; exact ⟨h1, h2⟩
      · rintro ⟨h1, h2⟩
        have := inv_anc_head (l2 :: rest) (lv + 1) _ i c h.2 (Or.inl h1)
        exact ⟨h1, this.1, h2, fun h3 => h.1.disj _ h3 this.2⟩

/-- the tail of a well-formed level list is a well-formed chain -/
theorem inv_drop {O : Ops} {par : Idx → Idx} : ∀ (levels : List Level) (lv0 : Nat) (Ω : Idx → Prop) (lv : Nat),
    Inv O VC VF par lv0 Ω levels → (∀ c, Ω c → VC lv0 c) → lv < levels.length →
    ∃ Ω', Inv O VC VF par (lv0 + lv) Ω' (levels.drop lv) ∧ (∀ c, Ω' c → VC (lv0 + lv) c) ∧
      (∀ c, Ω' c ↔ (c ∈ (lvl levels lv).act ∨ c ∈ (lvl levels lv).deact))
  | [], _, _, _, h, _, _ => h.elim
  | l :: rest, lv0, Ω, 0, h, hv, _ => ⟨Ω, by simpa using h, hv, fun c => by
      have := (Inv.head h).cover c
      simpa [lvl] using this.symm⟩
  | [l], _, _, lv + 1, _, _, hlv => by simp at hlv
  | l :: l2 :: rest, lv0, Ω, lv + 1, h, _, hlv => by
    obtain ⟨Ω', h1, h2, h3⟩ := inv_drop (l2 :: rest) (lv0 + 1) _ lv h.2 (fun c hc => hc.1) (by simpa using hlv)
    refine ⟨Ω', ?_, ?_, ?_⟩
    · rw [show lv0 + (lv + 1) = lv0 + 1 + lv by omega]; simpa using h1
    · rw [show lv0 + (lv + 1) = lv0 + 1 + lv by omega]; exact h2
    · intro c; rw [h3 c]; simp [lvl]

end cover

end Pyiga.Hier

namespace Pyiga.Hier

/-! ### downward part -/

theorem mem_cellParent (cells : List Idx) (c : Idx) : c ∈ cellParent cells ↔ ∃ q ∈ cells, c = parTp q := by
  simp only [cellParent, mem_dedup, List.mem_map, parTp]
  constructor
  · rintro ⟨q, hq, rfl⟩; exact ⟨q, hq, rfl⟩
  · rintro ⟨q, hq, rfl⟩; exact ⟨q, hq, rfl⟩

theorem tpDown_single (l : Level) (aux : List Idx) : tpDown [l] aux = [inter aux l.act] := by
  unfold tpDown; rfl

theorem tpDown_cons_cons (l l2 : Level) (rest : List Level) (aux : List Idx) :
    tpDown (l :: l2 :: rest) aux = inter aux l.act :: tpDown (l2 :: rest) (cellParent (diff aux l.act)) := by
  rw [tpDown]

/-- `_TP_to_HMesh_cells_down` on the levels `lv, lv-1, …, 0` (list `ls` in that order): entry `j` is the
set of active cells of level `lv-j` that are the `j`-th ancestor of a cell `q` of `aux` none of whose
closer ancestors is active. -/
theorem tpDown_mem : ∀ (ls : List Level) (aux : List Idx) (j : Nat) (c : Idx), j < ls.length →
    (c ∈ (tpDown ls aux).getD j [] ↔ c ∈ (lvl ls j).act ∧
      ∃ q ∈ aux, anc parTp j q = c ∧ ∀ j', j' < j → anc parTp j' q ∉ (lvl ls j').act)
  | [], _, _, _, hj => by simp at hj
  | [l], aux, j, c, hj => by
    have : j = 0 := by simpa using hj
    subst this
    simp only [tpDown_single, List.getD_cons_zero, mem_inter, lvl, anc]
    constructor
    · rintro ⟨h1, h2⟩; exact ⟨h2, c, h1, rfl, fun _ h => by omega⟩
    · rintro ⟨h1, q, hq, rfl, _⟩; exact ⟨hq, h1⟩
  | l :: l2 :: rest, aux, 0, c, _ => by
    simp only [tpDown_cons_cons, List.getD_cons_zero, mem_inter, lvl, anc]
    constructor
    · rintro ⟨h1, h2⟩; exact ⟨h2, c, h1, rfl, fun _ h => by omega⟩
    · rintro ⟨h1, q, hq, rfl, _⟩; exact ⟨hq, h1⟩
  | l :: l2 :: rest, aux, j + 1, c, hj => by
    have ih := tpDown_mem (l2 :: rest) (cellParent (diff aux l.act)) j c (by simpa using hj)
    rw [tpDown_cons_cons, List.getD_cons_succ, ih]
    have e : lvl (l :: l2 :: rest) (j + 1) = lvl (l2 :: rest) j := by simp [lvl]
    rw [e]
    constructor
    · rintro ⟨h1, q2, hq2, hc, hall⟩
      obtain ⟨q, hq, rfl⟩ := (mem_cellParent _ _).1 hq2
      obtain ⟨hqa, hqn⟩ := mem_diff.1 hq
      refine ⟨h1, q, hqa, by rw [anc_succ']; exact hc, ?_⟩
      intro j' hj'
      cases j' with
      | zero => simpa [lvl, anc] using hqn
      | succ j' =>
        have := hall j' (by omega)
        rw [anc_succ']
        simpa [lvl] using this
    · rintro ⟨h1, q, hq, hc, hall⟩
      have hqn : q ∉ l.act := by simpa [lvl, anc] using hall 0 (by omega)
      refine ⟨h1, parTp q, (mem_cellParent _ _).2 ⟨q, mem_diff.2 ⟨hq, hqn⟩, rfl⟩, by rw [← anc_succ']; exact hc, ?_⟩
      intro j' hj'
      have := hall (j' + 1) (by omega)
      rw [anc_succ'] at this
      simpa [lvl] using this

/-- a proper ancestor of a cell of a refinement region is a deactivated cell -/
theorem anc_deact {O : Ops} {VC VF : Nat → Idx → Prop} {par : Idx → Idx} (levels : List Level)
    (h : Inv O VC VF par 0 (VC 0) levels) (n l : Nat) (Q : Idx) (hQ : InΩ levels (l + n + 1) Q) :
    anc par (n + 1) Q ∈ (lvl levels l).deact := by
  have h1 := anc_inΩ levels h n (l + 1) Q (by rwa [show l + 1 + n = l + n + 1 by omega])
  exact ((inv_cover_succ levels h l (inΩ_lt h1) _).1 h1).2

end Pyiga.Hier
