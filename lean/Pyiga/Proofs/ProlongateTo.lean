/-
Function preservation of `HSpace.prolongate_to(fine)` (model: `Pyiga.Transfer.prolongateTo`).

For a coarse hierarchical space `C` and a refinement `F` of it (`Nested C F`), the matrix
`P = prolongateTo C F` maps HB coefficients w.r.t. `C` to HB coefficients w.r.t. `F` of the *same*
function:

    I_F · P = T_{Lc-1 → Lf-1} · I_C                      (`prolongate_to_spec`)

where `I_H = H.representFine (H.numlevels-1)` expresses the HB basis of `H` in the tensor-product
basis of the finest level of `H` and `T_{Lc-1 → Lf-1}` is the product of the tensor-product
prolongations of `F`.

Hypotheses (`Nested C F`): `0 < C.numlevels ≤ F.numlevels`, `C.WF`, `F.WF` (shapes, index bounds,
`IA ++ ID` duplicate-free, child closure of the deactivated functions), equal tensor-product
dimensions `N l` and (entrywise) equal prolongations `T l` on the levels of `C`, every active function
of `C` is active or deactivated in `F`, and no deactivated functions on the finest level of `C`/`F`.
Only the repaired loop bounds (`asCoded_D13 = false`) are treated; `disparity` is then irrelevant.

Structure of the proof:
* entry lemmas for `addBlock`, `keepRows`, the frozen partial prolongators `prolP`, `out0`;
* `Rf out i j = (I_F · out)[i, j]` and its update under `addBlock` (`Rf_addBlock`);
* the telescoping identity `telescope` (two-scale relation + child closure);
* the invariant of the inner loop (`prolInner_spec`), of the outer fold (`outer_inv`);
* the right-hand side column by column (`rhs_col`) and the assembly.
-/
import Pyiga.Proofs.Transfer
import Mathlib.Tactic.IntervalCases

namespace Pyiga.Transfer
open Finset

set_option linter.unusedSectionVars false
set_option linter.unusedVariables false

variable {K : Type} [CommRing K] [DecidableEq K]

/-! ## list helpers -/

theorem getD_idxOf {l : List Nat} {x : Nat} (h : x ∈ l) : l.getD (l.idxOf x) 0 = x := by
  have hlt : l.idxOf x < l.length := List.idxOf_lt_length_iff.2 h
  rw [List.getD_eq_getElem _ _ hlt]
  exact List.getElem_idxOf hlt

theorem getD_mem {l : List Nat} {q : Nat} (h : q < l.length) : l.getD q 0 ∈ l := by
  rw [List.getD_eq_getElem _ _ h]; exact List.getElem_mem h

theorem idxOf_getD {l : List Nat} (hl : l.Nodup) {q : Nat} (h : q < l.length) :
    l.idxOf (l.getD q 0) = q := by
  rw [List.getD_eq_getElem _ _ h]; exact hl.idxOf_getElem q h

theorem mem_ldiff {a b : List Nat} {x : Nat} : x ∈ ldiff a b ↔ x ∈ a ∧ x ∉ b := by
  simp [ldiff]

theorem mem_linter {a b : List Nat} {x : Nat} : x ∈ linter a b ↔ x ∈ a ∧ x ∈ b := by
  simp [linter]

theorem foldl_range_succ {β : Type} (f : β → Nat → β) (a : β) (n : Nat) :
    (List.range (n + 1)).foldl f a = f ((List.range n).foldl f a) n := by
  rw [List.range_succ, List.foldl_append]; rfl

/-! ## entry lemmas -/

namespace Mat

theorem keepRows_f (A : Mat K) (rows : List Nat) {i : Nat} (hi : i < A.m) (j : Nat) :
    (A.keepRows rows).f i j = if i ∈ rows then A.f i j else 0 := by
  show (if (pos? (invArr A.m rows) i).isSome then A.f i j else 0) = _
  rw [pos?_invArr _ _ _ hi]
  by_cases h : i ∈ rows <;> simp [h]

@[simp] theorem keepRows_m (A : Mat K) (rows : List Nat) : (A.keepRows rows).m = A.m := rfl
@[simp] theorem keepRows_n (A : Mat K) (rows : List Nat) : (A.keepRows rows).n = A.n := rfl

end Mat

@[simp] theorem addBlock_m (out : Mat K) (rows cols : List Nat) (B : Mat K) :
    (addBlock out rows cols B).m = out.m := rfl
@[simp] theorem addBlock_n (out : Mat K) (rows cols : List Nat) (B : Mat K) :
    (addBlock out rows cols B).n = out.n := rfl

/-- `out[np.ix_(rows, cols)] += B`, entrywise -/
theorem addBlock_f (out : Mat K) (rows cols : List Nat) (B : Mat K) {i j : Nat}
    (hi : i < out.m) (hj : j < out.n) :
    (addBlock out rows cols B).f i j
      = out.f i j + (if i ∈ rows ∧ j ∈ cols then B.f (rows.idxOf i) (cols.idxOf j) else 0) := by
  simp only [addBlock]
  rw [pos?_invArr _ _ _ hi, pos?_invArr _ _ _ hj]
  by_cases h1 : i ∈ rows <;> by_cases h2 : j ∈ cols <;> simp [h1, h2]

/-! ## canonical indices -/

namespace HSp

theorem off_eq (H : HSp K) (l : Nat) : (if l = 0 then 0 else H.nt (l - 1)) = H.ntb l := by
  cases l with
  | zero => rfl
  | succ l => rw [if_neg (Nat.succ_ne_zero l), Nat.add_sub_cancel, nt_eq]

theorem numdofs_eq (H : HSp K) (hL : 0 < H.numlevels) : H.numdofs = H.ntb H.numlevels := by
  unfold numdofs
  rw [if_neg (by omega), nt_eq, Nat.sub_add_cancel hL]

/-- canonical (global) index of the active function `x` of level `l` -/
def can (H : HSp K) (l x : Nat) : Nat := H.ntb l + (H.ia l).idxOf x

theorem can_ge (H : HSp K) (l x : Nat) : H.ntb l ≤ H.can l x := Nat.le_add_right _ _

theorem can_lt_succ (H : HSp K) {l x : Nat} (hx : x ∈ H.ia l) : H.can l x < H.ntb (l + 1) := by
  have := List.idxOf_lt_length_iff.2 hx
  rw [ntb_succ, can]; omega

theorem can_lt (H : HSp K) {l L x : Nat} (hl : l < L) (hx : x ∈ H.ia l) : H.can l x < H.ntb L :=
  lt_of_lt_of_le (H.can_lt_succ hx) (H.ntb_mono hl)

theorem can_inj (H : HSp K) {l l' x x' : Nat} (hx : x ∈ H.ia l) (hx' : x' ∈ H.ia l')
    (h : H.can l x = H.can l' x') : l = l' ∧ x = x' := by
  have h1 := H.can_lt_succ hx
  have h2 := H.can_lt_succ hx'
  have g1 := H.can_ge l x
  have g2 := H.can_ge l' x'
  rcases Nat.lt_trichotomy l l' with hlt | heq | hgt
  · have := H.ntb_mono (show l + 1 ≤ l' from hlt); omega
  · subst heq
    refine ⟨rfl, ?_⟩
    have : (H.ia l).idxOf x = (H.ia l).idxOf x' := by unfold can at h; omega
    exact (List.idxOf_inj hx).1 this
  · have := H.ntb_mono (show l' + 1 ≤ l from hgt); omega

theorem can_getD (H : HSp K) {l q : Nat} (hnd : (H.ia l).Nodup) (hq : q < (H.ia l).length) :
    H.can l ((H.ia l).getD q 0) = H.ntb l + q := by
  rw [can, idxOf_getD hnd hq]

/-- every index below `ntb L` is the canonical index of an active function -/
theorem ntb_decomp (H : HSp K) : ∀ (L j : Nat), j < H.ntb L →
    ∃ l < L, ∃ q < (H.ia l).length, j = H.ntb l + q
  | 0, j, h => by simp [ntb] at h
  | L + 1, j, h => by
      by_cases hj : j < H.ntb L
      · obtain ⟨l, hl, q, hq, rfl⟩ := ntb_decomp H L j hj
        exact ⟨l, by omega, q, hq, rfl⟩
      · rw [ntb_succ] at h
        exact ⟨L, by omega, j - H.ntb L, by omega, by omega⟩

theorem WF.ia_nodup {H : HSp K} (hwf : H.WF) {l : Nat} (hl : l < H.numlevels) : (H.ia l).Nodup :=
  List.Nodup.of_append_left (hwf.ir_nodup l hl)

theorem WF.idl_nodup {H : HSp K} (hwf : H.WF) {l : Nat} (hl : l < H.numlevels) : (H.idl l).Nodup :=
  List.Nodup.of_append_right (hwf.ir_nodup l hl)

theorem WF.ia_idl_disj {H : HSp K} (hwf : H.WF) {l x : Nat} (hl : l < H.numlevels)
    (h1 : x ∈ H.ia l) (h2 : x ∈ H.idl l) : False :=
  (List.nodup_append.1 (hwf.ir_nodup l hl)).2.2 x h1 x h2 rfl

theorem WF.ia_lt {H : HSp K} (hwf : H.WF) {l x : Nat} (hl : l < H.numlevels) (hx : x ∈ H.ia l) :
    x < H.Nl l := hwf.ir_lt l hl x (List.mem_append_left _ hx)

theorem WF.idl_lt {H : HSp K} (hwf : H.WF) {l x : Nat} (hl : l < H.numlevels) (hx : x ∈ H.idl l) :
    x < H.Nl l := hwf.ir_lt l hl x (List.mem_append_right _ hx)

/-! ## tensor-product prolongation to the finest level -/

theorem loopProd'_m (H : HSp K) (P : Mat K) (k : Nat) : ∀ d, (H.loopProd' P k d).m = P.m
  | 0 => rfl
  | d + 1 => loopProd'_m H P k d

theorem loopProd'_n (H : HSp K) (hwf : H.WF) (P : Mat K) (k : Nat) (hk : k < H.numlevels)
    (hP : P.n = H.Nl k) : ∀ d, d ≤ k → (H.loopProd' P k d).n = H.Nl (k - d)
  | 0, _ => hP
  | d + 1, h => by
      show (H.Tl (k - (d + 1))).n = _
      exact hwf.Tn _ (by omega)

theorem tpUp'_m (H : HSp K) (k d : Nat) : (H.tpUp' k d).m = H.Nl k := loopProd'_m H _ k d

theorem tpUp'_n (H : HSp K) (hwf : H.WF) {k d : Nat} (hk : k < H.numlevels) (hd : d ≤ k) :
    (H.tpUp' k d).n = H.Nl (k - d) := loopProd'_n H hwf _ k hk rfl d hd

theorem tpUp'_succ (H : HSp K) (k d : Nat) :
    H.tpUp' k (d + 1) = (H.tpUp' k d).mul (H.Tl (k - (d + 1))) := rfl

/-- `T_{k-1} ⋯ T_{m-e} = (T_{k-1} ⋯ T_m) · (T_{m-1} ⋯ T_{m-e})` -/
theorem tpUp'_comp (H : HSp K) (hwf : H.WF) {k m : Nat} (hm : m ≤ k) (hk : k < H.numlevels) :
    ∀ e, e ≤ m → Mat.Eqv (H.tpUp' k (k - m + e)) ((H.tpUp' k (k - m)).mul (H.tpUp' m e))
  | 0, _ => by
      refine (Mat.mul_id_eqv (H.Nl m) (H.tpUp' k (k - m)) ?_).symm
      rw [tpUp'_n H hwf hk (by omega)]
      congr 1; omega
  | e + 1, he => by
      have ih := tpUp'_comp H hwf hm hk e (by omega)
      show Mat.Eqv (H.tpUp' k (k - m + e + 1)) _
      rw [tpUp'_succ, tpUp'_succ, show k - (k - m + e + 1) = m - (e + 1) by omega]
      exact (Mat.Eqv.mul_left _ ih).trans (Mat.mul_assoc_eqv _ _ _)

/-- `T_{l → top}`: tensor-product prolongation from level `l` to the finest level -/
def topW (F : HSp K) (l : Nat) : Mat K := F.tpUp' (F.numlevels - 1) (F.numlevels - 1 - l)

theorem topW_m (F : HSp K) (l : Nat) : (F.topW l).m = F.Nl (F.numlevels - 1) := tpUp'_m F _ _

theorem topW_n (F : HSp K) (hwf : F.WF) {l : Nat} (hl : l < F.numlevels) :
    (F.topW l).n = F.Nl l := by
  unfold topW
  rw [tpUp'_n F hwf (by omega) (by omega)]
  congr 1; omega

theorem topW_succ (F : HSp K) {l : Nat} (h : l + 1 < F.numlevels) :
    F.topW l = (F.topW (l + 1)).mul (F.Tl l) := by
  unfold topW
  obtain ⟨d, hd⟩ : ∃ d, F.numlevels - 1 - (l + 1) = d := ⟨_, rfl⟩
  have h1 : F.numlevels - 1 - l = d + 1 := by omega
  have h2 : F.numlevels - 1 - (d + 1) = l := by omega
  rw [hd, h1, tpUp'_succ, h2]

/-- two-scale relation for the columns of `T_{l → top}` -/
theorem topW_f (F : HSp K) (hwf : F.WF) {l : Nat} (h : l + 1 < F.numlevels) (i r : Nat) :
    (F.topW l).f i r = ∑ s ∈ range (F.Nl (l + 1)), (F.topW (l + 1)).f i s * (F.Tl l).f s r := by
  rw [topW_succ F h, Mat.mul_f, topW_n F hwf h]

theorem actv_getD (H : HSp K) (lv k q : Nat) (hq : q < (H.ia k).length) :
    (H.actv lv k).getD q 0 = (H.ia k).getD q 0 := by
  unfold actv
  split_ifs
  · exact List.getD_append _ _ _ _ hq
  · rfl

theorem actv_len (H : HSp K) (lv k : Nat) : (H.ia k).length ≤ (H.actv lv k).length := by
  unfold actv
  split_ifs
  · rw [ir, List.length_append]; omega
  · exact le_refl _

/-- the column of `I_F` belonging to the `q`-th active function of level `k` is the column of
`T_{k → top}` of that function -/
theorem IF_col (F : HSp K) (hwf : F.WF) {k q i : Nat} (hk : k < F.numlevels)
    (hq : q < (F.ia k).length) (hi : i < F.Nl (F.numlevels - 1)) :
    (F.representFine (F.numlevels - 1) false none false).f i (F.ntb k + q)
      = (F.topW k).f i ((F.ia k).getD q 0) := by
  rw [representFine_closed F (F.numlevels - 1) k (by omega) i q
    (lt_of_lt_of_le hq (actv_len F _ k)), actv_getD F _ k q hq]
  have hE := tpUp_eqv F (F.numlevels - 1) (F.numlevels - 1 - k)
  refine hE.2.2 i ?_ _ ?_
  · rw [hE.1, tpUp'_m]; exact hi
  · rw [hE.2.1]
    show _ < (F.topW k).n
    rw [topW_n F hwf hk]
    exact hwf.ia_lt hk (getD_mem hq)

theorem IF_col_can (F : HSp K) (hwf : F.WF) {k x i : Nat} (hk : k < F.numlevels)
    (hx : x ∈ F.ia k) (hi : i < F.Nl (F.numlevels - 1)) :
    (F.representFine (F.numlevels - 1) false none false).f i (F.can k x) = (F.topW k).f i x := by
  unfold can
  rw [IF_col F hwf hk (List.idxOf_lt_length_iff.2 hx) hi, getD_idxOf hx]

/-! ## `(I_F · out)[i, j]` and its update by `addBlock` -/

/-- `(I_F · out)[i, j]` (rows of `out` below `ntb numlevels = numdofs`) -/
def Rf (F : HSp K) (out : Mat K) (i j : Nat) : K :=
  ∑ c ∈ range (F.ntb F.numlevels),
    (F.representFine (F.numlevels - 1) false none false).f i c * out.f c j

theorem Rf_congr (F : HSp K) {out out' : Mat K} {j j' : Nat}
    (h : ∀ c < F.ntb F.numlevels, out.f c j = out'.f c j') (i : Nat) :
    F.Rf out i j = F.Rf out' i j' :=
  Finset.sum_congr rfl fun c hc => by rw [h c (Finset.mem_range.1 hc)]

theorem Rf_zero (F : HSp K) {out : Mat K} {j : Nat}
    (h : ∀ c < F.ntb F.numlevels, out.f c j = 0) (i : Nat) : F.Rf out i j = 0 :=
  Finset.sum_eq_zero fun c hc => by rw [h c (Finset.mem_range.1 hc), mul_zero]

/-- `f_actfun_can[l]` -/
def fcan (F : HSp K) (l : Nat) : List Nat := (List.range (F.ia l).length).map (· + F.ntb l)

theorem fcan_length (F : HSp K) (l : Nat) : (F.fcan l).length = (F.ia l).length := by
  simp [fcan]

theorem fcan_getD (F : HSp K) {l q : Nat} (hq : q < (F.ia l).length) :
    (F.fcan l).getD q 0 = F.ntb l + q := by
  have hq' : q < (F.fcan l).length := by rw [fcan_length]; exact hq
  rw [List.getD_eq_getElem _ _ hq']
  simp [fcan, Nat.add_comm]

theorem fcan_nodup (F : HSp K) (l : Nat) : (F.fcan l).Nodup :=
  List.Nodup.map (fun a b h => by simpa using h) List.nodup_range

theorem fcan_lt (F : HSp K) {l L : Nat} (hl : l < L) : ∀ c ∈ F.fcan l, c < F.ntb L := by
  intro c hc
  simp only [fcan, List.mem_map, List.mem_range] at hc
  obtain ⟨q, hq, rfl⟩ := hc
  have := F.ntb_mono (show l + 1 ≤ L from hl)
  rw [ntb_succ] at this; omega

theorem Rf_addBlock (F : HSp K) (out : Mat K) (hm : out.m = F.ntb F.numlevels) {l : Nat}
    (hl : l < F.numlevels) (cols : List Nat) (B : Mat K) {j : Nat} (hj : j < out.n) (i : Nat) :
    F.Rf (addBlock out (F.fcan l) cols B).freeze i j
      = F.Rf out i j + (if j ∈ cols then
          ∑ a ∈ range (F.ia l).length,
            (F.representFine (F.numlevels - 1) false none false).f i (F.ntb l + a)
              * B.f a (cols.idxOf j)
          else 0) := by
  unfold Rf
  have h1 : ∀ c ∈ range (F.ntb F.numlevels),
      (F.representFine (F.numlevels - 1) false none false).f i c
        * (addBlock out (F.fcan l) cols B).freeze.f c j
      = (F.representFine (F.numlevels - 1) false none false).f i c * out.f c j
        + (if c ∈ F.fcan l then (fun q => if j ∈ cols then B.f q (cols.idxOf j) else 0)
              ((F.fcan l).idxOf c) else 0)
          * (F.representFine (F.numlevels - 1) false none false).f i c := by
    intro c hc
    have hc' : c < out.m := by rw [hm]; exact Finset.mem_range.1 hc
    rw [Mat.freeze_f _ (by exact hc') (by exact hj), addBlock_f out _ _ _ hc' hj, mul_add]
    congr 1
    by_cases hr : c ∈ F.fcan l <;> by_cases hcj : j ∈ cols <;> simp [hr, hcj, mul_comm]
  rw [Finset.sum_congr rfl h1, Finset.sum_add_distrib,
    sum_reindex (K := K) _ (F.fcan l) (F.fcan_nodup l) (F.fcan_lt hl)
      (fun q => if j ∈ cols then B.f q (cols.idxOf j) else 0)
      (fun c => (F.representFine (F.numlevels - 1) false none false).f i c), fcan_length]
  congr 1
  split_ifs with hcj
  · refine Finset.sum_congr rfl fun a ha => ?_
    rw [fcan_getD F (Finset.mem_range.1 ha), mul_comm]
  · simp

end HSp

/-! ## the telescoping identity -/

namespace HSp

/-- one level of telescoping: a level-`l` vector `v` supported on the deactivated functions is
prolongated to level `l+1` (`u = T_l v`); by child closure `u` is supported on `IR_{l+1}`, and splits
into its active part (which is written to the output) and its deactivated part (carried on) -/
theorem telescope (F : HSp K) (hwf : F.WF) {l : Nat} (hl : l + 1 < F.numlevels) (v : Nat → K)
    (hv : ∀ r < F.Nl l, v r ≠ 0 → r ∈ F.idl l) (u : Nat → K)
    (hu : ∀ s, u s = ∑ r ∈ range (F.Nl l), (F.Tl l).f s r * v r) (i : Nat) :
    ∑ r ∈ range (F.Nl l), (F.topW l).f i r * v r
      = ∑ a ∈ range (F.ia (l + 1)).length,
            (F.topW (l + 1)).f i ((F.ia (l + 1)).getD a 0) * u ((F.ia (l + 1)).getD a 0)
        + ∑ s ∈ range (F.Nl (l + 1)),
            (F.topW (l + 1)).f i s * (if s ∈ F.idl (l + 1) then u s else 0) := by
  have h1 : ∑ r ∈ range (F.Nl l), (F.topW l).f i r * v r
      = ∑ s ∈ range (F.Nl (l + 1)), (F.topW (l + 1)).f i s * u s := by
    calc ∑ r ∈ range (F.Nl l), (F.topW l).f i r * v r
        = ∑ r ∈ range (F.Nl l), ∑ s ∈ range (F.Nl (l + 1)),
            (F.topW (l + 1)).f i s * ((F.Tl l).f s r * v r) :=
          Finset.sum_congr rfl fun r _ => by
            rw [topW_f F hwf hl, Finset.sum_mul]
            exact Finset.sum_congr rfl fun s _ => mul_assoc _ _ _
      _ = ∑ s ∈ range (F.Nl (l + 1)), ∑ r ∈ range (F.Nl l),
            (F.topW (l + 1)).f i s * ((F.Tl l).f s r * v r) := Finset.sum_comm
      _ = _ := Finset.sum_congr rfl fun s _ => by rw [hu, Finset.mul_sum]
  have h2 : ∀ s ∈ range (F.Nl (l + 1)), (F.topW (l + 1)).f i s * u s
      = (if s ∈ F.ia (l + 1) then (fun q => u ((F.ia (l + 1)).getD q 0)) ((F.ia (l + 1)).idxOf s)
          else 0) * (F.topW (l + 1)).f i s
        + (F.topW (l + 1)).f i s * (if s ∈ F.idl (l + 1) then u s else 0) := by
    intro s hs
    have hs' := Finset.mem_range.1 hs
    by_cases ha : s ∈ F.ia (l + 1)
    · have hd : s ∉ F.idl (l + 1) := fun hd => hwf.ia_idl_disj hl ha hd
      simp only [if_pos ha, if_neg hd, getD_idxOf ha, mul_zero, add_zero]
      exact mul_comm _ _
    · by_cases hd : s ∈ F.idl (l + 1)
      · simp only [if_neg ha, if_pos hd, zero_mul, zero_add]
      · have : u s = 0 := by
          rw [hu]
          refine Finset.sum_eq_zero fun r hr => ?_
          by_contra hne
          have hvr : v r ≠ 0 := fun h => hne (by rw [h, mul_zero])
          have hT : (F.Tl l).f s r ≠ 0 := fun h => hne (by rw [h, zero_mul])
          have := hwf.child l s r hl hs' (hv r (Finset.mem_range.1 hr) hvr) hT
          rcases List.mem_append.1 this with h | h
          · exact ha h
          · exact hd h
        simp only [if_neg ha, if_neg hd, this, mul_zero, zero_mul, add_zero]
  rw [h1, Finset.sum_congr rfl h2, Finset.sum_add_distrib,
    sum_reindex (K := K) _ (F.ia (l + 1)) (hwf.ia_nodup hl) (fun x hx => hwf.ia_lt hl hx)
      (fun q => u ((F.ia (l + 1)).getD q 0)) (fun s => (F.topW (l + 1)).f i s)]
  congr 1
  exact Finset.sum_congr rfl fun a _ => mul_comm _ _

end HSp

/-! ## the inner loop -/

/-- the blocks `P_act` / `P_deact` of one pass of the inner loop -/
def blk (P : Nat → Mat K) (lv : Nat) (repl : List Nat) (l : Nat) (st : PState K)
    (rows : List Nat) : Mat K :=
  if l = lv + 1 then ((P (l - 1)).selRows rows).selCols repl
  else ((((P (l - 1)).selRows rows).selCols st.fdlm1).mul st.pcur).freeze

theorem prolInner_succ (F : HSp K) (P : Nat → Mat K) (fCan : Nat → List Nat) (lv bound : Nat)
    (repl cCan : List Nat) (fuel l : Nat) (st : PState K) :
    prolInner F P fCan lv bound repl cCan (fuel + 1) l st =
      if l < bound then
        if (F.idl l).length = 0 then
          { st with out := (addBlock st.out (fCan l) cCan (blk P lv repl l st (F.ia l))).freeze }
        else prolInner F P fCan lv bound repl cCan fuel (l + 1)
          ⟨(addBlock st.out (fCan l) cCan (blk P lv repl l st (F.ia l))).freeze,
            (blk P lv repl l st (F.idl l)).freeze, F.idl l⟩
      else st := rfl

theorem blk_m (P : Nat → Mat K) (lv : Nat) (repl : List Nat) (l : Nat) (st : PState K)
    (rows : List Nat) : (blk P lv repl l st rows).m = rows.length := by
  unfold blk; split_ifs <;> rfl

theorem blk_n (P : Nat → Mat K) (lv : Nat) (repl : List Nat) (l : Nat) (st : PState K)
    (rows : List Nat) (h : l ≠ lv + 1 → st.pcur.n = repl.length) :
    (blk P lv repl l st rows).n = repl.length := by
  unfold blk
  split_ifs with hl
  · rfl
  · exact h hl

/-- the pending vector carried by the state (column `p`): level-`l'` tensor-product coefficients of
the part of the replaced function `repl[p]` that is not yet represented by active functions -/
def pendOf (F : HSp K) (lv : Nat) (repl : List Nat) (l' : Nat) (st : PState K) (p r : Nat) : K :=
  if l' = lv then (if r = repl.getD p 0 then 1 else 0)
  else if r ∈ F.idl l' then st.pcur.f ((F.idl l').idxOf r) p else 0

theorem pendOf_succ (F : HSp K) {lv l' : Nat} (hlv : lv ≤ l') (repl : List Nat) (st : PState K)
    (p s : Nat) :
    pendOf F lv repl (l' + 1) st p s
      = if s ∈ F.idl (l' + 1) then st.pcur.f ((F.idl (l' + 1)).idxOf s) p else 0 := by
  unfold pendOf
  rw [if_neg (by omega)]

theorem blk_f (F : HSp K) (hwf : F.WF) (P : Nat → Mat K) (lv : Nat) (repl : List Nat) (l' : Nat)
    (st : PState K) (rows : List Nat) (hl' : l' < F.numlevels)
    (hst : l' ≠ lv → st.fdlm1 = F.idl l' ∧ st.pcur.n = repl.length)
    (hrepl : ∀ x ∈ repl, x < F.Nl lv) {a p : Nat} (ha : a < rows.length) (hp : p < repl.length) :
    (blk P lv repl (l' + 1) st rows).f a p
      = ∑ r ∈ range (F.Nl l'), (P l').f (rows.getD a 0) r * pendOf F lv repl l' st p r := by
  unfold blk pendOf
  simp only [Nat.add_sub_cancel, Nat.add_right_cancel_iff]
  by_cases h : l' = lv
  · subst h
    simp only [if_true]
    rw [Mat.selCols_f, Mat.selRows_f, Mat.sum_mul_delta, if_pos (hrepl _ (getD_mem hp))]
  · obtain ⟨h1, h2⟩ := hst h
    simp only [if_neg h]
    rw [Mat.freeze_f _ (by simpa using ha) (by simpa [h2] using hp), Mat.mul_f, h1]
    simp only [Mat.selCols_n, Mat.selCols_f, Mat.selRows_f]
    have := sum_reindex (K := K) (F.Nl l') (F.idl l') (hwf.idl_nodup hl')
      (fun x hx => hwf.idl_lt hl' hx) (fun q => st.pcur.f q p)
      (fun r => (P l').f (rows.getD a 0) r)
    exact (Finset.sum_congr rfl fun q _ => mul_comm _ _).trans
      (this.symm.trans (Finset.sum_congr rfl fun r _ => mul_comm _ _))

/-- what the inner loop for the coarse level `lv` needs to know about its arguments -/
structure InnerCtx (F : HSp K) (P : Nat → Mat K) (lv : Nat) (repl cCan : List Nat) (n : Nat) :
    Prop where
  wf : F.WF
  top_idl : F.idl (F.numlevels - 1) = []
  hP : ∀ l, l + 1 < F.numlevels → ∀ s < F.Nl (l + 1), ∀ r < F.Nl l,
    (P l).f s r = if s ∈ F.ir (l + 1) then (F.Tl l).f s r else 0
  len : cCan.length = repl.length
  nodup : cCan.Nodup
  lt : ∀ j ∈ cCan, j < n
  repl_lt : ∀ x ∈ repl, x < F.Nl lv

theorem blk_T (F : HSp K) {P : Nat → Mat K} {lv : Nat} {repl cCan : List Nat} {n : Nat}
    (ctx : InnerCtx F P lv repl cCan n) {l' : Nat} (hl' : l' + 1 < F.numlevels) (st : PState K)
    (hst : l' ≠ lv → st.fdlm1 = F.idl l' ∧ st.pcur.n = repl.length)
    (rows : List Nat) (hrows : ∀ x ∈ rows, x ∈ F.ir (l' + 1)) {a p : Nat} (ha : a < rows.length)
    (hp : p < repl.length) :
    (blk P lv repl (l' + 1) st rows).f a p
      = ∑ r ∈ range (F.Nl l'), (F.Tl l').f (rows.getD a 0) r * pendOf F lv repl l' st p r := by
  rw [blk_f F ctx.wf P lv repl l' st rows (by omega) hst ctx.repl_lt ha hp]
  refine Finset.sum_congr rfl fun r hr => ?_
  have hmem := hrows _ (getD_mem ha)
  rw [ctx.hP l' hl' _ (ctx.wf.ir_lt (l' + 1) hl' _ hmem) r (Finset.mem_range.1 hr), if_pos hmem]

/-- one pass of the inner loop preserves "represented part + pending part" -/
theorem inner_step (F : HSp K) {P : Nat → Mat K} {lv : Nat} {repl cCan : List Nat} {n : Nat}
    (ctx : InnerCtx F P lv repl cCan n) {l' : Nat} (hlv : lv ≤ l') (hl' : l' + 1 < F.numlevels)
    (st : PState K) (hm : st.out.m = F.ntb F.numlevels) (hn : st.out.n = n)
    (hst : l' ≠ lv → st.fdlm1 = F.idl l' ∧ st.pcur.n = repl.length)
    (hsupp : ∀ p < repl.length, ∀ r < F.Nl l', pendOf F lv repl l' st p r ≠ 0 → r ∈ F.idl l')
    {i p : Nat} (hi : i < F.Nl (F.numlevels - 1)) (hp : p < repl.length) :
    F.Rf (addBlock st.out (F.fcan (l' + 1)) cCan
        (blk P lv repl (l' + 1) st (F.ia (l' + 1)))).freeze i (cCan.getD p 0)
      + ∑ s ∈ range (F.Nl (l' + 1)), (F.topW (l' + 1)).f i s *
          (if s ∈ F.idl (l' + 1) then
            (blk P lv repl (l' + 1) st (F.idl (l' + 1))).freeze.f ((F.idl (l' + 1)).idxOf s) p
           else 0)
      = F.Rf st.out i (cCan.getD p 0)
        + ∑ r ∈ range (F.Nl l'), (F.topW l').f i r * pendOf F lv repl l' st p r := by
  have hp' : p < cCan.length := by rw [ctx.len]; exact hp
  have hcp : cCan.getD p 0 ∈ cCan := getD_mem hp'
  have hjn : cCan.getD p 0 < st.out.n := by rw [hn]; exact ctx.lt _ hcp
  have hstn : l' + 1 ≠ lv + 1 → st.pcur.n = repl.length := fun h => (hst (by omega)).2
  rw [F.Rf_addBlock st.out hm (by omega : l' + 1 < F.numlevels) cCan _ hjn i, if_pos hcp,
    idxOf_getD ctx.nodup hp',
    F.telescope ctx.wf hl' (pendOf F lv repl l' st p) (hsupp p hp)
      (fun s => ∑ r ∈ range (F.Nl l'), (F.Tl l').f s r * pendOf F lv repl l' st p r)
      (fun s => rfl) i, add_assoc]
  congr 1
  congr 1
  · refine Finset.sum_congr rfl fun a ha => ?_
    have ha' := Finset.mem_range.1 ha
    rw [F.IF_col ctx.wf (by omega) ha' hi, blk_T F ctx hl' st hst (F.ia (l' + 1))
      (fun x hx => List.mem_append_left _ hx) ha' hp]
  · refine Finset.sum_congr rfl fun s hs => ?_
    congr 1
    by_cases hd : s ∈ F.idl (l' + 1)
    · rw [if_pos hd, if_pos hd]
      have hidx := List.idxOf_lt_length_iff.2 hd
      rw [Mat.freeze_f _ (by rw [blk_m]; exact hidx) (by rw [blk_n _ _ _ _ _ _ hstn]; exact hp),
        blk_T F ctx hl' st hst (F.idl (l' + 1)) (fun x hx => List.mem_append_right _ hx) hidx hp,
        getD_idxOf hd]
    · rw [if_neg hd, if_neg hd]

/-- postcondition of the inner loop for one coarse level -/
def InnerPost (F : HSp K) (repl cCan : List Nat) (n : Nat) (tgt : Nat → Nat → K)
    (st st' : PState K) : Prop :=
  st'.out.m = F.ntb F.numlevels ∧ st'.out.n = n ∧
  (∀ i < F.Nl (F.numlevels - 1), ∀ p < repl.length, F.Rf st'.out i (cCan.getD p 0) = tgt i p) ∧
  (∀ j < n, j ∉ cCan → ∀ c < F.ntb F.numlevels, st'.out.f c j = st.out.f c j)

/-- **invariant of the inner loop**: (represented part) + (pending part) = target -/
theorem prolInner_spec (F : HSp K) {P : Nat → Mat K} {lv : Nat} {repl cCan : List Nat} {n : Nat}
    (ctx : InnerCtx F P lv repl cCan n) (tgt : Nat → Nat → K) :
    ∀ (fuel l' : Nat) (st : PState K), lv ≤ l' → l' + 1 ≤ F.numlevels → F.numlevels ≤ l' + fuel →
      st.out.m = F.ntb F.numlevels → st.out.n = n →
      (l' ≠ lv → st.fdlm1 = F.idl l' ∧ st.pcur.n = repl.length) →
      (∀ p < repl.length, ∀ r < F.Nl l', pendOf F lv repl l' st p r ≠ 0 → r ∈ F.idl l') →
      (∀ i < F.Nl (F.numlevels - 1), ∀ p < repl.length,
        F.Rf st.out i (cCan.getD p 0)
          + ∑ r ∈ range (F.Nl l'), (F.topW l').f i r * pendOf F lv repl l' st p r = tgt i p) →
      InnerPost F repl cCan n tgt st
        (prolInner F P F.fcan lv F.numlevels repl cCan fuel (l' + 1) st)
  | 0, l', st, _, h2, h3, _, _, _, _, _ => absurd h3 (by omega)
  | fuel + 1, l', st, hlv, h2, h3, hm, hn, hst, hsupp, hinv => by
      rw [prolInner_succ]
      by_cases hb : l' + 1 < F.numlevels
      · rw [if_pos hb]
        have key := fun i hi p hp =>
          inner_step F ctx hlv hb st hm hn hst hsupp (i := i) (p := p) hi hp
        have hom : (addBlock st.out (F.fcan (l' + 1)) cCan
            (blk P lv repl (l' + 1) st (F.ia (l' + 1)))).freeze.m = F.ntb F.numlevels := by
          rw [Mat.freeze_m, addBlock_m, hm]
        have hon : (addBlock st.out (F.fcan (l' + 1)) cCan
            (blk P lv repl (l' + 1) st (F.ia (l' + 1)))).freeze.n = n := by
          rw [Mat.freeze_n, addBlock_n, hn]
        have hsame : ∀ j < n, j ∉ cCan → ∀ c < F.ntb F.numlevels,
            (addBlock st.out (F.fcan (l' + 1)) cCan
              (blk P lv repl (l' + 1) st (F.ia (l' + 1)))).freeze.f c j = st.out.f c j := by
          intro j hj hjc c hc
          rw [Mat.freeze_f _ (by rw [addBlock_m, hm]; exact hc) (by rw [addBlock_n, hn]; exact hj),
            addBlock_f _ _ _ _ (by rw [hm]; exact hc) (by rw [hn]; exact hj),
            if_neg (fun h => hjc h.2), add_zero]
        by_cases hfd : (F.idl (l' + 1)).length = 0
        · rw [if_pos hfd]
          have hnil : F.idl (l' + 1) = [] := List.length_eq_zero_iff.1 hfd
          refine ⟨hom, hon, ?_, hsame⟩
          intro i hi p hp
          have hk := key i hi p hp
          rw [hinv i hi p hp] at hk
          rw [← hk]
          refine (add_zero _).symm.trans ?_
          congr 1
          refine (Finset.sum_eq_zero fun s _ => ?_).symm
          rw [hnil, if_neg List.not_mem_nil, mul_zero]
        · rw [if_neg hfd]
          have hstn : l' + 1 ≠ lv + 1 → st.pcur.n = repl.length := fun h => (hst (by omega)).2
          obtain ⟨r1, r2, r3, r4⟩ := prolInner_spec F ctx tgt fuel (l' + 1)
            ⟨(addBlock st.out (F.fcan (l' + 1)) cCan
                (blk P lv repl (l' + 1) st (F.ia (l' + 1)))).freeze,
              (blk P lv repl (l' + 1) st (F.idl (l' + 1))).freeze, F.idl (l' + 1)⟩
            (by omega) (by omega) (by omega) hom hon
            (fun _ => ⟨rfl, by rw [Mat.freeze_n, blk_n _ _ _ _ _ _ hstn]⟩)
            (by
              intro p _ s _ hne
              rw [pendOf_succ F hlv] at hne
              by_contra hd
              exact hne (if_neg hd))
            (by
              intro i hi p hp
              rw [← hinv i hi p hp, ← key i hi p hp]
              congr 1
              refine Finset.sum_congr rfl fun s _ => ?_
              rw [pendOf_succ F hlv])
          exact ⟨r1, r2, r3, fun j hj hjc c hc => (r4 j hj hjc c hc).trans (hsame j hj hjc c hc)⟩
      · rw [if_neg hb]
        have hl : l' = F.numlevels - 1 := by omega
        refine ⟨hm, hn, ?_, fun _ _ _ _ _ => rfl⟩
        intro i hi p hp
        rw [← hinv i hi p hp]
        refine (add_zero _).symm.trans ?_
        congr 1
        refine (Finset.sum_eq_zero fun r hr => ?_).symm
        have : pendOf F lv repl l' st p r = 0 := by
          by_contra hne
          have hmem := hsupp p hp r (Finset.mem_range.1 hr) hne
          rw [hl, ctx.top_idl] at hmem
          exact List.not_mem_nil hmem
        rw [this, mul_zero]

/-! ## the partially computed tensor-product prolongators `P[lv]` -/

/-- `P[lv]` of `prolongate_to` (`kron_partial(hmesh.P[lv], rows=IR[lv+1], restrict=False)`) -/
def prolP (F : HSp K) (lv : Nat) : Mat K :=
  ((List.range (F.numlevels - 1)).map fun lv =>
    if lv + 1 < F.numlevels then ((F.Tl lv).keepRows (F.ir (lv + 1))).freeze
    else Mat.zero (F.Nl (lv + 1)) (F.Nl lv)).getD lv (Mat.zero 0 0)

theorem prolP_f (F : HSp K) (hwf : F.WF) {l : Nat} (hl : l + 1 < F.numlevels) {s r : Nat}
    (hs : s < F.Nl (l + 1)) (hr : r < F.Nl l) :
    (prolP F l).f s r = if s ∈ F.ir (l + 1) then (F.Tl l).f s r else 0 := by
  have h : prolP F l = ((F.Tl l).keepRows (F.ir (l + 1))).freeze := by
    unfold prolP
    rw [List.getD_eq_getElem?_getD, List.getElem?_map, List.getElem?_range (by omega)]
    simp only [Option.map_some, Option.getD_some, if_pos hl]
  rw [h, Mat.freeze_f _ (by rw [Mat.keepRows_m, hwf.Tm l hl]; exact hs)
    (by rw [Mat.keepRows_n, hwf.Tn l hl]; exact hr),
    Mat.keepRows_f _ _ (by rw [hwf.Tm l hl]; exact hs)]

/-! ## the initial matrix `out0` (identity on the common functions) -/

/-- entry function of `out0` -/
def out0f (inv : Array (Option Nat)) (cc : List Nat) (i j : Nat) : K :=
  match pos? inv i with
  | some q => if cc.getD q 0 = j then 1 else 0
  | none => 0

theorem out0f_eq (n : Nat) (cf cc : List Nat) {c : Nat} (hc : c < n) (j : Nat) :
    (out0f (invArr n cf) cc c j : K)
      = if c ∈ cf then (if cc.getD (cf.idxOf c) 0 = j then 1 else 0) else 0 := by
  unfold out0f
  rw [pos?_invArr _ _ _ hc]
  by_cases h : c ∈ cf <;> simp [h]

def commonF (C F : HSp K) : List Nat := (List.range C.numlevels).flatMap fun lv =>
  (linter (C.ia lv) (F.ia lv)).map fun x =>
    (F.ia lv).idxOf x + (if lv = 0 then 0 else F.nt (lv - 1))

def commonC (C F : HSp K) : List Nat := (List.range C.numlevels).flatMap fun lv =>
  (linter (C.ia lv) (F.ia lv)).map fun x =>
    (C.ia lv).idxOf x + (if lv = 0 then 0 else C.nt (lv - 1))

/-- the common functions as (level, raveled index) pairs -/
def cpairs (C F : HSp K) : List (Nat × Nat) :=
  (List.range C.numlevels).flatMap fun lv => (linter (C.ia lv) (F.ia lv)).map fun x => (lv, x)

theorem mem_cpairs (C F : HSp K) {p : Nat × Nat} :
    p ∈ cpairs C F ↔ p.1 < C.numlevels ∧ p.2 ∈ C.ia p.1 ∧ p.2 ∈ F.ia p.1 := by
  obtain ⟨a, b⟩ := p
  simp only [cpairs, List.mem_flatMap, List.mem_range, List.mem_map, mem_linter, Prod.mk.injEq]
  constructor
  · rintro ⟨lv, hlv, x, hx, rfl, rfl⟩; exact ⟨hlv, hx⟩
  · rintro ⟨h1, h2⟩; exact ⟨a, h1, b, h2, rfl, rfl⟩

theorem commonF_eq (C F : HSp K) : commonF C F = (cpairs C F).map fun p => F.can p.1 p.2 := by
  unfold commonF cpairs
  rw [List.map_flatMap]
  congr 1
  funext lv
  rw [List.map_map]
  refine List.map_congr_left fun x _ => ?_
  simp only [Function.comp, HSp.can, HSp.off_eq, Nat.add_comm]

theorem commonC_eq (C F : HSp K) : commonC C F = (cpairs C F).map fun p => C.can p.1 p.2 := by
  unfold commonC cpairs
  rw [List.map_flatMap]
  congr 1
  funext lv
  rw [List.map_map]
  refine List.map_congr_left fun x _ => ?_
  simp only [Function.comp, HSp.can, HSp.off_eq, Nat.add_comm]

def out0 (C F : HSp K) : Mat K :=
  ⟨F.numdofs, C.numdofs, out0f (invArr F.numdofs (commonF C F)) (commonC C F)⟩

theorem map_idxOf_pair {α : Type} (L : List α) (gF gC : α → Nat) {c : Nat} (hm : c ∈ L.map gF) :
    ∃ p ∈ L, gF p = c ∧ (L.map gC).getD ((L.map gF).idxOf c) 0 = gC p := by
  have hq : (L.map gF).idxOf c < (L.map gF).length := List.idxOf_lt_length_iff.2 hm
  have hq' : (L.map gF).idxOf c < L.length := by simpa using hq
  refine ⟨L[(L.map gF).idxOf c], List.getElem_mem hq', ?_, ?_⟩
  · have := List.getElem_idxOf hq
    rwa [List.getElem_map] at this
  · rw [List.getD_eq_getElem _ _ (by simpa using hq'), List.getElem_map]

theorem out0_nz (C F : HSp K) {c j : Nat} (hc : c < F.numdofs) (h : (out0 C F).f c j ≠ 0) :
    ∃ p ∈ cpairs C F, F.can p.1 p.2 = c ∧ C.can p.1 p.2 = j := by
  have h' : (out0f (invArr F.numdofs (commonF C F)) (commonC C F) c j : K) ≠ 0 := h
  rw [out0f_eq _ _ _ hc, commonF_eq, commonC_eq] at h'
  by_cases hm : c ∈ (cpairs C F).map fun p => F.can p.1 p.2
  · rw [if_pos hm] at h'
    obtain ⟨p, hp, h1, h2⟩ := map_idxOf_pair (cpairs C F) (fun p => F.can p.1 p.2)
      (fun p => C.can p.1 p.2) hm
    refine ⟨p, hp, h1, ?_⟩
    by_contra hne
    rw [h2] at h'
    exact h' (if_neg hne)
  · exact absurd (if_neg hm) h'

theorem out0_one (C F : HSp K) {p : Nat × Nat} (hp : p ∈ cpairs C F)
    (hc : F.can p.1 p.2 < F.numdofs) : (out0 C F).f (F.can p.1 p.2) (C.can p.1 p.2) = 1 := by
  show (out0f (invArr F.numdofs (commonF C F)) (commonC C F) _ _ : K) = 1
  rw [out0f_eq _ _ _ hc, commonF_eq, commonC_eq]
  have hm : F.can p.1 p.2 ∈ (cpairs C F).map fun p => F.can p.1 p.2 :=
    List.mem_map_of_mem (f := fun p : Nat × Nat => F.can p.1 p.2) hp
  obtain ⟨p', hp', h1, h2⟩ := map_idxOf_pair (cpairs C F) (fun p => F.can p.1 p.2)
    (fun p => C.can p.1 p.2) hm
  have hpp : p' = p := by
    have := F.can_inj ((mem_cpairs C F).1 hp').2.2 ((mem_cpairs C F).1 hp).2.2 h1
    exact Prod.ext this.1 this.2
  rw [if_pos hm, h2, hpp, if_pos rfl]

/-! ## hypotheses on the pair of spaces -/

/-- `C` is a hierarchical space and `F` a refinement of it (what pyiga's refinement guarantees for
`C.is_subspace_of(F)`), as far as `prolongate_to` needs it -/
structure Nested (C F : HSp K) : Prop where
  cpos : 0 < C.numlevels
  le : C.numlevels ≤ F.numlevels
  cwf : C.WF
  fwf : F.WF
  /-- same tensor-product spaces on the common levels -/
  hN : ∀ l < C.numlevels, C.Nl l = F.Nl l
  hT : ∀ l, l + 1 < C.numlevels → Mat.Eqv (C.Tl l) (F.Tl l)
  /-- an active coarse function is active or deactivated in the fine space -/
  act : ∀ l < C.numlevels, ∀ x ∈ C.ia l, x ∈ F.ia l ∨ x ∈ F.idl l
  /-- no deactivated functions on the finest levels -/
  ftop : F.idl (F.numlevels - 1) = []
  ctop : C.idl (C.numlevels - 1) = []

/-! ## the outer loop -/

/-- invariant of the outer loop after the coarse levels `< k`: the columns of the common functions
and of the replaced functions of processed levels represent the right function; the columns of the
replaced functions of the other levels are still zero -/
structure OutInv (C F : HSp K) (k : Nat) (out : Mat K) : Prop where
  hm : out.m = F.ntb F.numlevels
  hn : out.n = C.ntb C.numlevels
  done : ∀ lv < C.numlevels, ∀ x ∈ C.ia lv, (x ∈ F.ia lv ∨ lv < k) →
    ∀ i < F.Nl (F.numlevels - 1), F.Rf out i (C.can lv x) = (F.topW lv).f i x
  todo : ∀ lv < C.numlevels, ∀ x ∈ C.ia lv, x ∉ F.ia lv → k ≤ lv →
    ∀ c < F.ntb F.numlevels, out.f c (C.can lv x) = 0

theorem outInv_init (C F : HSp K) (nest : Nested C F) : OutInv C F 0 (out0 C F).freeze := by
  have hLf : 0 < F.numlevels := lt_of_lt_of_le nest.cpos nest.le
  have hndF := F.numdofs_eq hLf
  have hndC := C.numdofs_eq nest.cpos
  refine ⟨hndF, hndC, ?_, ?_⟩
  · intro lv hlv x hx hor i hi
    have hxF : x ∈ F.ia lv := by
      rcases hor with h | h
      · exact h
      · exact absurd h (Nat.not_lt_zero _)
    have hp : (lv, x) ∈ cpairs C F := (mem_cpairs C F).2 ⟨hlv, hx, hxF⟩
    have hc0 : F.can lv x < F.ntb F.numlevels := F.can_lt (lt_of_lt_of_le hlv nest.le) hxF
    have hj : C.can lv x < C.numdofs := by rw [hndC]; exact C.can_lt hlv hx
    have hent : ∀ c ∈ range (F.ntb F.numlevels),
        (F.representFine (F.numlevels - 1) false none false).f i c
          * (out0 C F).freeze.f c (C.can lv x)
        = (F.representFine (F.numlevels - 1) false none false).f i c
          * (if c = F.can lv x then 1 else 0) := by
      intro c hc
      have hc' : c < F.numdofs := by rw [hndF]; exact Finset.mem_range.1 hc
      rw [Mat.freeze_f _ (by exact hc') (by exact hj)]
      congr 1
      by_cases hcc : c = F.can lv x
      · rw [if_pos hcc, hcc]
        exact out0_one C F hp (by rw [hndF]; exact hc0)
      · rw [if_neg hcc]
        by_contra hne
        obtain ⟨p', hp', h1, h2⟩ := out0_nz C F hc' hne
        have := C.can_inj ((mem_cpairs C F).1 hp').2.1 hx h2
        apply hcc
        rw [← h1, this.1, this.2]
    unfold HSp.Rf
    rw [Finset.sum_congr rfl hent, Mat.sum_mul_delta, if_pos hc0]
    exact F.IF_col_can nest.fwf (lt_of_lt_of_le hlv nest.le) hxF hi
  · intro lv hlv x hx hxF _ c hc
    have hc' : c < F.numdofs := by rw [hndF]; exact hc
    have hj : C.can lv x < C.numdofs := by rw [hndC]; exact C.can_lt hlv hx
    rw [Mat.freeze_f _ (by exact hc') (by exact hj)]
    by_contra hne
    obtain ⟨p', hp', h1, h2⟩ := out0_nz C F hc' hne
    have := C.can_inj ((mem_cpairs C F).1 hp').2.1 hx h2
    apply hxF
    have h3 := ((mem_cpairs C F).1 hp').2.2
    rw [this.1, this.2] at h3
    exact h3

/-- one pass of the outer loop -/
def outerStep (C F : HSp K) (st : PState K) (lv : Nat) : PState K :=
  prolInner F (prolP F) F.fcan lv F.numlevels (ldiff (C.ia lv) (F.ia lv))
    ((ldiff (C.ia lv) (F.ia lv)).map (C.can lv)) F.numlevels (lv + 1) st

theorem getD_map_lt {l : List Nat} (f : Nat → Nat) {p : Nat} (hp : p < l.length) :
    (l.map f).getD p 0 = f (l.getD p 0) := by
  rw [List.getD_eq_getElem _ _ (by simpa using hp), List.getElem_map, List.getD_eq_getElem _ _ hp]

theorem pendOf_self (F : HSp K) (lv : Nat) (repl : List Nat) (st : PState K) (p r : Nat) :
    pendOf F lv repl lv st p r = if r = repl.getD p 0 then 1 else 0 := by
  unfold pendOf
  rw [if_pos rfl]

theorem outer_step (C F : HSp K) (nest : Nested C F) {k : Nat} (hk : k < C.numlevels)
    (hk1 : k + 1 < F.numlevels) (st : PState K) (inv : OutInv C F k st.out) :
    OutInv C F (k + 1) (outerStep C F st k).out := by
  unfold outerStep
  have cwf := nest.cwf
  have fwf := nest.fwf
  have hrepl_mem : ∀ x ∈ ldiff (C.ia k) (F.ia k), x ∈ C.ia k ∧ x ∉ F.ia k ∧ x ∈ F.idl k := by
    intro x hx
    obtain ⟨h1, h2⟩ := mem_ldiff.1 hx
    refine ⟨h1, h2, ?_⟩
    rcases nest.act k hk x h1 with h | h
    · exact absurd h h2
    · exact h
  have hnd : (ldiff (C.ia k) (F.ia k)).Nodup := by
    unfold ldiff; exact List.Nodup.filter _ (cwf.ia_nodup hk)
  have ctx : InnerCtx F (prolP F) k (ldiff (C.ia k) (F.ia k))
      ((ldiff (C.ia k) (F.ia k)).map (C.can k)) (C.ntb C.numlevels) :=
    { wf := fwf
      top_idl := nest.ftop
      hP := fun l hl s hs r hr => prolP_f F fwf hl hs hr
      len := List.length_map _
      nodup := List.Nodup.map_on
        (fun x hx y hy h => (C.can_inj (hrepl_mem x hx).1 (hrepl_mem y hy).1 h).2) hnd
      lt := by
        intro j hj
        obtain ⟨x, hx, rfl⟩ := List.mem_map.1 hj
        exact C.can_lt hk (hrepl_mem x hx).1
      repl_lt := by
        intro x hx
        rw [← nest.hN k hk]
        exact cwf.ia_lt hk (hrepl_mem x hx).1 }
  have hcg : ∀ p < (ldiff (C.ia k) (F.ia k)).length,
      ((ldiff (C.ia k) (F.ia k)).map (C.can k)).getD p 0
        = C.can k ((ldiff (C.ia k) (F.ia k)).getD p 0) := fun p hp => getD_map_lt _ hp
  obtain ⟨r1, r2, r3, r4⟩ := prolInner_spec F ctx
    (fun i p => (F.topW k).f i ((ldiff (C.ia k) (F.ia k)).getD p 0)) F.numlevels k st
    (le_refl _) (by omega) (by omega) inv.hm inv.hn (fun h => absurd rfl h)
    (by
      intro p hp r hr hne
      rw [pendOf_self] at hne
      have hr' : r = (ldiff (C.ia k) (F.ia k)).getD p 0 := by
        by_contra h; exact hne (if_neg h)
      rw [hr']
      exact (hrepl_mem _ (getD_mem hp)).2.2)
    (by
      intro i hi p hp
      have hx := hrepl_mem _ (getD_mem hp)
      rw [hcg p hp, F.Rf_zero (inv.todo k hk _ hx.1 hx.2.1 (le_refl _)) i, zero_add]
      simp only [pendOf_self]
      rw [Mat.sum_mul_delta, if_pos]
      rw [← nest.hN k hk]
      exact cwf.ia_lt hk hx.1)
  -- membership of a column in `c_replaced_can[k]`
  have hmemc : ∀ lv x, x ∈ C.ia lv → C.can lv x ∈ (ldiff (C.ia k) (F.ia k)).map (C.can k) →
      lv = k ∧ x ∈ ldiff (C.ia k) (F.ia k) := by
    intro lv x hx hmem
    obtain ⟨x', hx', he⟩ := List.mem_map.1 hmem
    have := C.can_inj (hrepl_mem x' hx').1 hx he
    exact ⟨this.1.symm, this.2 ▸ hx'⟩
  refine ⟨r1, r2, ?_, ?_⟩
  · intro lv hlv x hx hor i hi
    by_cases hc : C.can lv x ∈ (ldiff (C.ia k) (F.ia k)).map (C.can k)
    · obtain ⟨hlk, hxr⟩ := hmemc lv x hx hc
      subst hlk
      have hp : (ldiff (C.ia lv) (F.ia lv)).idxOf x < (ldiff (C.ia lv) (F.ia lv)).length :=
        List.idxOf_lt_length_iff.2 hxr
      have := r3 i hi _ hp
      beta_reduce at this
      rw [hcg _ hp, getD_idxOf hxr] at this
      exact this
    · have hor' : x ∈ F.ia lv ∨ lv < k := by
        rcases hor with h | h
        · exact Or.inl h
        · by_cases hxF : x ∈ F.ia lv
          · exact Or.inl hxF
          · right
            by_contra hge
            have hlk : lv = k := by omega
            subst hlk
            exact hc (List.mem_map_of_mem (mem_ldiff.2 ⟨hx, hxF⟩))
      rw [F.Rf_congr (fun c hc' => r4 _ (C.can_lt hlv hx) hc c hc') i]
      exact inv.done lv hlv x hx hor' i hi
  · intro lv hlv x hx hxF hle c hc'
    have hc : C.can lv x ∉ (ldiff (C.ia k) (F.ia k)).map (C.can k) := by
      intro hmem
      have := (hmemc lv x hx hmem).1
      omega
    rw [r4 _ (C.can_lt hlv hx) hc c hc']
    exact inv.todo lv hlv x hx hxF (by omega) c hc'

/-- number of coarse levels visited by the outer loop -/
def coarseLevels (C F : HSp K) : Nat :=
  if C.numlevels < F.numlevels then C.numlevels else C.numlevels - 1

theorem outer_inv (C F : HSp K) (nest : Nested C F) : ∀ k, k ≤ coarseLevels C F →
    OutInv C F k ((List.range k).foldl (outerStep C F) ⟨(out0 C F).freeze, Mat.zero 0 0, []⟩).out
  | 0, _ => outInv_init C F nest
  | k + 1, hk => by
      rw [foldl_range_succ]
      have hle := nest.le
      have h1 : k < C.numlevels ∧ k + 1 < F.numlevels := by
        unfold coarseLevels at hk
        split_ifs at hk <;> omega
      exact outer_step C F nest h1.1 h1.2 _ (outer_inv C F nest k (by omega))

/-! ## unfolding `prolongateTo` -/

def outerStepRaw (C F : HSp K) (st : PState K) (lv : Nat) : PState K :=
  prolInner F (prolP F)
    (fun l => (List.range (F.ia l).length).map (· + (if l = 0 then 0 else F.nt (l - 1))))
    lv F.numlevels (ldiff (C.ia lv) (F.ia lv))
    ((positionIndex (C.ia lv) (ldiff (C.ia lv) (F.ia lv))).map
      (· + (if lv = 0 then 0 else C.nt (lv - 1))))
    F.numlevels (lv + 1) st

theorem prolongateTo_raw (C F : HSp K) :
    prolongateTo C F none false
      = ((List.range (coarseLevels C F)).foldl (outerStepRaw C F)
          ⟨(out0 C F).freeze, Mat.zero 0 0, []⟩).out := rfl

theorem outerStepRaw_eq (C F : HSp K) : outerStepRaw C F = outerStep C F := by
  funext st lv
  unfold outerStepRaw outerStep
  have h1 : (fun l => (List.range (F.ia l).length).map (· + (if l = 0 then 0 else F.nt (l - 1))))
      = F.fcan := by
    funext l
    unfold HSp.fcan
    rw [HSp.off_eq]
  have h2 : (positionIndex (C.ia lv) (ldiff (C.ia lv) (F.ia lv))).map
        (· + (if lv = 0 then 0 else C.nt (lv - 1)))
      = (ldiff (C.ia lv) (F.ia lv)).map (C.can lv) := by
    unfold positionIndex
    rw [List.map_map, HSp.off_eq]
    refine List.map_congr_left fun x _ => ?_
    simp only [Function.comp, HSp.can, Nat.add_comm]
  rw [h1, h2]

theorem prolongateTo_eq (C F : HSp K) :
    prolongateTo C F none false
      = ((List.range (coarseLevels C F)).foldl (outerStep C F)
          ⟨(out0 C F).freeze, Mat.zero 0 0, []⟩).out := by
  rw [prolongateTo_raw, outerStepRaw_eq]

/-! ## the right-hand side -/

namespace HSp

theorem tpUp'_congr (C F : HSp K) (cwf : C.WF)
    (hN : ∀ l < C.numlevels, C.Nl l = F.Nl l)
    (hT : ∀ l, l + 1 < C.numlevels → Mat.Eqv (C.Tl l) (F.Tl l)) {k : Nat} (hk : k < C.numlevels) :
    ∀ d, d ≤ k → Mat.Eqv (C.tpUp' k d) (F.tpUp' k d)
  | 0, _ => by
      show Mat.Eqv (Mat.id (C.Nl k)) (Mat.id (F.Nl k))
      rw [hN k hk]; exact Mat.Eqv.refl _
  | d + 1, hd => by
      rw [tpUp'_succ, tpUp'_succ]
      refine Mat.Eqv.mul ?_ (tpUp'_congr C F cwf hN hT hk d (by omega)) (hT _ (by omega))
      rw [tpUp'_n C cwf hk (by omega), cwf.Tm _ (by omega)]
      exact le_of_eq (by congr 1; omega)

theorem repF_n_top (H : HSp K) (hL : 0 < H.numlevels) (htop : H.idl (H.numlevels - 1) = []) :
    (H.representFine (H.numlevels - 1) false none false).n = H.ntb H.numlevels := by
  rw [repF_n, ir, htop, List.append_nil, ← ntb_succ, Nat.sub_add_cancel hL]

end HSp

theorem tprodN_top (C F : HSp K) (hpos : 0 < C.numlevels) (hle : C.numlevels ≤ F.numlevels) :
    F.tprodN (F.numlevels - C.numlevels) (C.numlevels - 1) = F.topW (C.numlevels - 1) := by
  rw [HSp.tprodN_eq_tpUp']
  unfold HSp.topW
  congr 1 <;> omega

theorem rhs_col (C F : HSp K) (nest : Nested C F) {lv x i : Nat} (hlv : lv < C.numlevels)
    (hx : x ∈ C.ia lv) (hi : i < F.Nl (F.numlevels - 1)) :
    ((F.tprodN (F.numlevels - C.numlevels) (C.numlevels - 1)).mul
        (C.representFine (C.numlevels - 1) false none false)).f i (C.can lv x)
      = (F.topW lv).f i x := by
  have cwf := nest.cwf
  have fwf := nest.fwf
  have hpos := nest.cpos
  have hle := nest.le
  have hxlt : x < F.Nl lv := by rw [← nest.hN lv hlv]; exact cwf.ia_lt hlv hx
  rw [tprodN_top C F hpos hle, Mat.mul_f, HSp.topW_n F fwf (by omega)]
  have hent : ∀ s ∈ range (F.Nl (C.numlevels - 1)),
      (F.topW (C.numlevels - 1)).f i s
        * (C.representFine (C.numlevels - 1) false none false).f s (C.can lv x)
      = (F.topW (C.numlevels - 1)).f i s
        * (F.tpUp' (C.numlevels - 1) (C.numlevels - 1 - lv)).f s x := by
    intro s hs
    have hs' : s < C.Nl (C.numlevels - 1) := by
      rw [nest.hN _ (by omega)]; exact Finset.mem_range.1 hs
    rw [C.IF_col_can cwf hlv hx hs']
    congr 1
    have hE := HSp.tpUp'_congr C F cwf nest.hN nest.hT (show C.numlevels - 1 < C.numlevels by omega)
      (C.numlevels - 1 - lv) (by omega)
    refine hE.2.2 s ?_ x ?_
    · rw [HSp.tpUp'_m]; exact hs'
    · rw [HSp.tpUp'_n C cwf (by omega) (by omega), nest.hN _ (by omega)]
      have : C.numlevels - 1 - (C.numlevels - 1 - lv) = lv := by omega
      rw [this]; exact hxlt
  rw [Finset.sum_congr rfl hent]
  have hcomp := HSp.tpUp'_comp F fwf (show C.numlevels - 1 ≤ F.numlevels - 1 by omega)
    (show F.numlevels - 1 < F.numlevels by omega) (C.numlevels - 1 - lv) (by omega)
  have hidx : F.numlevels - 1 - (C.numlevels - 1) + (C.numlevels - 1 - lv) = F.numlevels - 1 - lv := by
    omega
  rw [hidx] at hcomp
  have := hcomp.2.2 i (by rw [HSp.tpUp'_m]; exact hi) x
    (by
      rw [HSp.tpUp'_n F fwf (by omega) (by omega)]
      have : F.numlevels - 1 - (F.numlevels - 1 - lv) = lv := by omega
      rw [this]; exact hxlt)
  rw [Mat.mul_f, HSp.tpUp'_n F fwf (by omega) (by omega)] at this
  have h3 : F.numlevels - 1 - (F.numlevels - 1 - (C.numlevels - 1)) = C.numlevels - 1 := by omega
  rw [h3] at this
  exact this.symm

/-! ## function preservation of `prolongate_to` -/

/-- **`prolongate_to` preserves the function**: `I_F · P = T_{Lc-1 → Lf-1} · I_C`, where
`P = C.prolongate_to(F)`, `I_H` is `H.represent_fine()` on the finest level of `H` (HB basis in terms
of the finest tensor-product basis) and `T_{Lc-1 → Lf-1}` is the product of the tensor-product
prolongations of `F` from the finest level of `C` to the finest level of `F`. -/
theorem prolongate_to_spec (C F : HSp K) (nest : Nested C F) :
    Mat.Eqv
      ((F.representFine (F.numlevels - 1) false none false).mul (prolongateTo C F none false))
      ((F.tprodN (F.numlevels - C.numlevels) (C.numlevels - 1)).mul
        (C.representFine (C.numlevels - 1) false none false)) := by
  have cwf := nest.cwf
  have fwf := nest.fwf
  have hpos := nest.cpos
  have hle := nest.le
  have hLf : 0 < F.numlevels := by omega
  have inv := outer_inv C F nest (coarseLevels C F) (le_refl _)
  rw [← prolongateTo_eq] at inv
  refine ⟨?_, ?_, ?_⟩
  · show (F.representFine (F.numlevels - 1) false none false).m
      = (F.tprodN (F.numlevels - C.numlevels) (C.numlevels - 1)).m
    rw [HSp.repF_m, tprodN_top C F hpos hle, HSp.topW_m]
  · show (prolongateTo C F none false).n = (C.representFine (C.numlevels - 1) false none false).n
    rw [inv.hn, HSp.repF_n_top C hpos nest.ctop]
  · intro i hi j hj
    have hi' : i < F.Nl (F.numlevels - 1) := by
      rw [Mat.mul_m, HSp.repF_m] at hi; exact hi
    have hj' : j < C.ntb C.numlevels := by
      rw [Mat.mul_n, inv.hn] at hj; exact hj
    obtain ⟨lv, hlv, q, hq, rfl⟩ := C.ntb_decomp _ j hj'
    have hx : (C.ia lv).getD q 0 ∈ C.ia lv := getD_mem hq
    rw [← C.can_getD (cwf.ia_nodup hlv) hq, rhs_col C F nest hlv hx hi', Mat.mul_f,
      HSp.repF_n_top F hLf nest.ftop]
    refine inv.done lv hlv _ hx ?_ i hi'
    rcases nest.act lv hlv _ hx with h | h
    · exact Or.inl h
    · right
      unfold coarseLevels
      split_ifs with hc
      · exact hlv
      · by_contra hge
        have hlvtop : lv = F.numlevels - 1 := by omega
        rw [hlvtop, nest.ftop] at h
        exact List.not_mem_nil h

/-! ## the hypotheses are satisfiable (one level refined to two levels over `ℤ`) -/

section Example

def exT : Mat ℤ := ⟨3, 2, fun r c => if (r = 0 ∧ c = 0) ∨ r = 1 ∨ (r = 2 ∧ c = 1) then 1 else 0⟩
def exC : HSp ℤ := ⟨[2], [[0, 1]], [[]], []⟩
def exF : HSp ℤ := ⟨[2, 3], [[0], [1, 2]], [[1], []], [exT]⟩

theorem exC_wf : exC.WF := by
  refine ⟨rfl, rfl, by decide, ?_, ?_, ?_, ?_, ?_⟩
  · intro l hl; simp [HSp.numlevels, exC] at hl
  · intro l hl; simp [HSp.numlevels, exC] at hl
  · intro l hl r hr
    have hl0 : l = 0 := by simpa [HSp.numlevels, exC] using hl
    subst hl0
    simp [HSp.ir, HSp.ia, HSp.idl, exC] at hr
    rcases hr with rfl | rfl <;> simp [HSp.Nl, exC]
  · intro l hl
    have hl0 : l = 0 := by simpa [HSp.numlevels, exC] using hl
    subst hl0
    simp [HSp.ir, HSp.ia, HSp.idl, exC]
  · intro l r c hl; simp [HSp.numlevels, exC] at hl

theorem exF_wf : exF.WF := by
  refine ⟨rfl, rfl, by decide, ?_, ?_, ?_, ?_, ?_⟩
  · intro l hl
    have hl0 : l = 0 := by simp [HSp.numlevels, exF] at hl; omega
    subst hl0; rfl
  · intro l hl
    have hl0 : l = 0 := by simp [HSp.numlevels, exF] at hl; omega
    subst hl0; rfl
  · intro l hl r hr
    have hl2 : l < 2 := by simpa [HSp.numlevels, exF] using hl
    interval_cases l
    · simp [HSp.ir, HSp.ia, HSp.idl, exF] at hr
      rcases hr with rfl | rfl <;> simp [HSp.Nl, exF]
    · simp [HSp.ir, HSp.ia, HSp.idl, exF] at hr
      rcases hr with rfl | rfl <;> simp [HSp.Nl, exF]
  · intro l hl
    have hl2 : l < 2 := by simpa [HSp.numlevels, exF] using hl
    interval_cases l <;> simp [HSp.ir, HSp.ia, HSp.idl, exF]
  · intro l r c hl hr hc hne
    have hl0 : l = 0 := by simp [HSp.numlevels, exF] at hl; omega
    subst hl0
    have hc1 : c = 1 := by simpa [HSp.idl, exF] using hc
    subst hc1
    have hr3 : r < 3 := by simpa [HSp.Nl, exF] using hr
    interval_cases r
    · exact absurd (by simp [HSp.Tl, exF, exT]) hne
    · simp [HSp.ir, HSp.ia, HSp.idl, exF]
    · simp [HSp.ir, HSp.ia, HSp.idl, exF]

theorem ex_nested : Nested exC exF := by
  refine ⟨by decide, by decide, exC_wf, exF_wf, ?_, ?_, ?_, rfl, rfl⟩
  · intro l hl
    have hl0 : l = 0 := by simpa [HSp.numlevels, exC] using hl
    subst hl0; rfl
  · intro l hl; simp [HSp.numlevels, exC] at hl
  · intro l hl x hx
    have hl0 : l = 0 := by simpa [HSp.numlevels, exC] using hl
    subst hl0
    simp [HSp.ia, exC] at hx
    rcases hx with rfl | rfl <;> simp [HSp.ia, HSp.idl, exF]

end Example

end Pyiga.Transfer
