/-
L-hier, concrete part: the dyadic tensor-product mesh hierarchy of the model (`tpOps`)
satisfies the abstract laws `Laws`, and the constructor state is well-formed on level 0.
-/
import Pyiga.Proofs.HierLaws

namespace Pyiga.Hier

open Pyiga.Index (Below)

/-! ### ranges and cartesian products -/

theorem mem_rangeFT {a b x : Nat} : x ∈ rangeFT a b ↔ a ≤ x ∧ x < b := by
  unfold rangeFT
  simp only [List.mem_map, List.mem_range]
  constructor
  · rintro ⟨y, hy, rfl⟩; omega
  · rintro ⟨h1, h2⟩; exact ⟨x - a, by omega, by omega⟩

theorem nodup_rangeFT (a b : Nat) : (rangeFT a b).Nodup := by
  unfold rangeFT
  exact List.Pairwise.map _ (fun x y h => by omega) List.nodup_range

/-- componentwise membership -/
def AllIn : Idx → List (List Nat) → Prop
  | [], [] => True
  | x :: xs, l :: ls => x ∈ l ∧ AllIn xs ls
  | _, _ => False

@[simp] theorem mem_cart_nil {x : Idx} : x ∈ cart [] ↔ x = [] := by
  simp [cart]

@[simp] theorem nil_mem_cart_cons {l : List Nat} {ls : List (List Nat)} :
    ([] : Idx) ∈ cart (l :: ls) ↔ False := by
  simp [cart]

@[simp] theorem cons_mem_cart_cons {a : Nat} {t : Idx} {l : List Nat} {ls : List (List Nat)} :
    a :: t ∈ cart (l :: ls) ↔ a ∈ l ∧ t ∈ cart ls := by
  simp only [cart, List.mem_flatMap, List.mem_map, List.cons.injEq]
  constructor
  · rintro ⟨x, hx, y, hy, rfl, rfl⟩; exact ⟨hx, hy⟩
  · rintro ⟨h1, h2⟩; exact ⟨a, h1, t, h2, rfl, rfl⟩

theorem mem_cart : ∀ {x : Idx} {ls : List (List Nat)}, x ∈ cart ls ↔ AllIn x ls
  | [], [] => by simp [AllIn]
  | [], _ :: _ => by simp [AllIn]
  | _ :: _, [] => by simp [AllIn]
  | a :: t, l :: ls => by
    rw [cons_mem_cart_cons, @mem_cart t ls]
    simp [AllIn]

theorem nodup_cart : ∀ (ls : List (List Nat)), (∀ l ∈ ls, l.Nodup) → (cart ls).Nodup
  | [], _ => by simp [cart]
  | l :: ls, h => by
    have ih := nodup_cart ls (fun l' hl' => h l' (List.mem_cons_of_mem _ hl'))
    have hl : l.Nodup := h l (List.mem_cons_self ..)
    unfold cart
    unfold List.Nodup
    rw [List.pairwise_flatMap]
    refine ⟨fun a _ => List.Pairwise.map _ (fun x y hxy => ?_) ih, ?_⟩
    · intro he; exact hxy (List.cons.inj he).2
    · refine List.Pairwise.imp ?_ hl
      intro a b hab x hx y hy he
      simp only [List.mem_map] at hx hy
      obtain ⟨x', _, rfl⟩ := hx
      obtain ⟨y', _, rfl⟩ := hy
      exact hab (List.cons.inj he).1

/-! ### 1-D knot arithmetic: `_knots_to_mesh` -/

namespace KV

theorem k2mAt_lower : ∀ (ms : List Nat) (i0 k : Nat), k < ms.sum → i0 ≤ k2mAt i0 ms k
  | [], _, _, h => by simp at h
  | m :: ms, i0, k, h => by
    unfold k2mAt
    split
    · exact Nat.le_refl _
    · have h' : k - m < ms.sum := by simp only [List.sum_cons] at h; omega
      have := k2mAt_lower ms (i0 + 1) (k - m) h'
      omega

theorem k2mAt_upper : ∀ (ms : List Nat) (i0 k : Nat), k < ms.sum → k2mAt i0 ms k < i0 + ms.length
  | [], _, _, h => by simp at h
  | m :: ms, i0, k, h => by
    unfold k2mAt
    split
    · simp only [List.length_cons]; omega
    · have h' : k - m < ms.sum := by simp only [List.sum_cons] at h; omega
      have := k2mAt_upper ms (i0 + 1) (k - m) h'
      simp only [List.length_cons]; omega

theorem k2mAt_mono : ∀ (ms : List Nat) (i0 k k' : Nat), k ≤ k' → k' < ms.sum →
    k2mAt i0 ms k ≤ k2mAt i0 ms k'
  | [], _, _, _, _, h => by simp at h
  | m :: ms, i0, k, k', hk, h => by
    simp only [List.sum_cons] at h
    by_cases h1 : k < m
    · by_cases h2 : k' < m
      · simp [k2mAt, h1, h2]
      · have := k2mAt_lower ms (i0 + 1) (k' - m) (by omega)
        simp only [k2mAt, h1, h2, if_true, if_false]
        omega
    · have h2 : ¬ k' < m := by omega
      simp only [k2mAt, h1, h2, if_false]
      exact k2mAt_mono ms (i0 + 1) (k - m) (k' - m) (by omega) (by omega)

theorem k2mAt_strict (p : Nat) : ∀ (ms : List Nat) (i0 k : Nat), (∀ m ∈ ms, m ≤ p + 1) →
    k + p + 1 < ms.sum → k2mAt i0 ms k < k2mAt i0 ms (k + p + 1)
  | [], _, _, _, h => by simp at h
  | m :: ms, i0, k, hm, h => by
    simp only [List.sum_cons] at h
    have hm0 : m ≤ p + 1 := hm m (List.mem_cons_self ..)
    have h2 : ¬ k + p + 1 < m := by omega
    by_cases h1 : k < m
    · have := k2mAt_lower ms (i0 + 1) (k + p + 1 - m) (by omega)
      simp only [k2mAt, h1, h2, if_true, if_false]
      omega
    · simp only [k2mAt, h1, h2, if_false]
      have e : k + p + 1 - m = (k - m) + p + 1 := by omega
      rw [e]
      exact k2mAt_strict p ms (i0 + 1) (k - m) (fun x hx => hm x (List.mem_cons_of_mem _ hx))
        (by omega)

theorem succ_lt_numknots {kv : KV} {j : Nat} (hj : j < kv.numdofs) : j + kv.p + 1 < kv.mults.sum := by
  unfold numdofs numknots at hj; omega

theorem ms0_lt_ms1 {kv : KV} (hg : GoodKV kv) {j : Nat} (hj : j < kv.numdofs) :
    kv.ms0 j < kv.ms1 j :=
  k2mAt_strict kv.p kv.mults 0 j (fun m hm => (hg.2 m hm).2) (succ_lt_numknots hj)

theorem ms1_le_numspans {kv : KV} {j : Nat} (hj : j < kv.numdofs) : kv.ms1 j ≤ kv.numspans := by
  have := k2mAt_upper kv.mults 0 (j + kv.p + 1) (succ_lt_numknots hj)
  unfold ms1 k2m numspans; omega

theorem ms0_mono {kv : KV} {j j' : Nat} (h : j ≤ j') (hj : j' < kv.numdofs) :
    kv.ms0 j ≤ kv.ms0 j' :=
  k2mAt_mono kv.mults 0 j j' h (by have := succ_lt_numknots hj; omega)

theorem ms1_mono {kv : KV} {j j' : Nat} (h : j ≤ j') (hj : j' < kv.numdofs) :
    kv.ms1 j ≤ kv.ms1 j' :=
  k2mAt_mono kv.mults 0 (j + kv.p + 1) (j' + kv.p + 1) (by omega) (succ_lt_numknots hj)

/-! ### `_compute_supported_functions` -/

/-- state of the min/max fold after the first `n` functions have been visited -/
def FoldInv (Q : Nat → Prop) (N n : Nat) (r : Nat × Nat) : Prop :=
  ((∀ j, j < n → ¬ Q j) ∧ r = (N, 0)) ∨
  (r.1 < n ∧ Q r.1 ∧ r.2 < n ∧ Q r.2 ∧ ∀ j, j < n → Q j → r.1 ≤ j ∧ j ≤ r.2)

theorem fold_inv (Q : Nat → Prop) (step : Nat × Nat → Nat → Nat × Nat) (N : Nat)
    (hp : ∀ acc j, Q j → step acc j = (min acc.1 j, max acc.2 j))
    (hn : ∀ acc j, ¬ Q j → step acc j = acc) :
    ∀ n, n ≤ N → FoldInv Q N n ((List.range n).foldl step (N, 0))
  | 0, _ => Or.inl ⟨fun j hj => by omega, rfl⟩
  | n + 1, hle => by
    have ih := fold_inv Q step N hp hn n (by omega)
    rw [List.range_succ, List.foldl_append, List.foldl_cons, List.foldl_nil]
    generalize (List.range n).foldl step (N, 0) = r at ih
    by_cases hq : Q n
    · rw [hp r n hq]
      right
      rcases ih with ⟨hA, rfl⟩ | ⟨h1, h2, h3, h4, h5⟩
      · have e1 : min N n = n := Nat.min_eq_right (by omega)
        have e2 : max 0 n = n := Nat.max_eq_right (by omega)
        simp only [e1, e2]
        refine ⟨by omega, hq, by omega, hq, fun j hj hqj => ?_⟩
        by_cases hjn : j < n
        · exact absurd hqj (hA j hjn)
        · omega
      · have e1 : min r.1 n = r.1 := Nat.min_eq_left (by omega)
        have e2 : max r.2 n = n := Nat.max_eq_right (by omega)
        simp only [e1, e2]
        refine ⟨by omega, h2, by omega, hq, fun j hj hqj => ?_⟩
        by_cases hjn : j < n
        · have := h5 j hjn hqj; omega
        · have : j = n := by omega
          subst this; omega
    · rw [hn r n hq]
      rcases ih with ⟨hA, rfl⟩ | ⟨h1, h2, h3, h4, h5⟩
      · left
        refine ⟨fun j hj => ?_, rfl⟩
        by_cases hjn : j < n
        · exact hA j hjn
        · have : j = n := by omega
          subst this; exact hq
      · right
        refine ⟨by omega, h2, by omega, h4, fun j hj hqj => ?_⟩
        by_cases hjn : j < n
        · exact h5 j hjn hqj
        · have : j = n := by omega
          subst this; exact absurd hqj hq

/-- `supported_in` is the converse of `mesh_support_idx` in 1-D (needs at least one function:
for `numdofs = 0` the untouched initial value `(numdofs, 0)` yields the non-empty range `[0,1)`). -/
theorem suppFunc_spec {kv : KV} (hd : 1 ≤ kv.numdofs) (k j : Nat) :
    ((kv.suppFunc k).1 ≤ j ∧ j < (kv.suppFunc k).2) ↔
      (j < kv.numdofs ∧ kv.ms0 j ≤ k ∧ k < kv.ms1 j) := by
  have inv := fold_inv (fun j => kv.ms0 j ≤ k ∧ k < kv.ms1 j)
    (fun (acc : Nat × Nat) j =>
      if kv.ms0 j ≤ k ∧ k < kv.ms1 j then (min acc.1 j, max acc.2 j) else acc) kv.numdofs
    (fun acc j h => if_pos h) (fun acc j h => if_neg h) kv.numdofs (Nat.le_refl _)
  unfold suppFunc
  simp only []
  generalize (List.range kv.numdofs).foldl _ (kv.numdofs, 0) = r at inv ⊢
  rcases inv with ⟨hA, rfl⟩ | ⟨h1, h2, h3, h4, h5⟩
  · constructor
    · rintro ⟨h1, h2⟩; simp only at h1 h2; omega
    · rintro ⟨h1, h2⟩; exact absurd h2 (hA j h1)
  · constructor
    · rintro ⟨ha, hb⟩
      have hjN : j < kv.numdofs := by omega
      refine ⟨hjN, ?_, ?_⟩
      · exact Nat.le_trans (ms0_mono (by omega) h3) h4.1
      · exact Nat.lt_of_lt_of_le h2.2 (ms1_mono ha hjN)
    · rintro ⟨hj, hq⟩
      have := h5 j hj hq
      omega

/-! ### refinement bookkeeping -/

theorem refineMults_sum_ge : ∀ (ms : List Nat), ms.sum ≤ (refineMults ms).sum
  | [] => Nat.le_refl _
  | [_] => Nat.le_refl _
  | m :: m' :: rest => by
    have ih := refineMults_sum_ge (m' :: rest)
    simp only [refineMults, List.sum_cons] at ih ⊢
    omega

theorem refineMults_length : ∀ (ms : List Nat), ms ≠ [] → (refineMults ms).length + 1 = 2 * ms.length
  | [], h => absurd rfl h
  | [_], _ => rfl
  | m :: m' :: rest, _ => by
    have ih := refineMults_length (m' :: rest) (by simp)
    simp only [refineMults, List.length_cons] at ih ⊢
    omega

theorem refineMults_bound (p : Nat) : ∀ (ms : List Nat), (∀ m ∈ ms, 1 ≤ m ∧ m ≤ p + 1) →
    ∀ m ∈ refineMults ms, 1 ≤ m ∧ m ≤ p + 1
  | [], _ => by simp [refineMults]
  | [_], h => by simpa [refineMults] using h
  | m :: m' :: rest, h => by
    have ih := refineMults_bound p (m' :: rest) (fun x hx => h x (List.mem_cons_of_mem _ hx))
    intro x hx
    simp only [refineMults, List.mem_cons] at hx
    rcases hx with rfl | rfl | hx
    · exact h x (List.mem_cons_self ..)
    · omega
    · exact ih x hx

theorem good_refine {kv : KV} (hg : GoodKV kv) : GoodKV kv.refine := by
  refine ⟨?_, refineMults_bound kv.p kv.mults hg.2⟩
  intro h
  have := refineMults_length kv.mults hg.1
  have h' : (refineMults kv.mults) = [] := h
  rw [h'] at this
  have : kv.mults.length = 0 ∨ 0 < kv.mults.length := Nat.eq_zero_or_pos _
  simp only [List.length_nil] at *
  omega

theorem numspans_refine {kv : KV} (hg : GoodKV kv) : kv.refine.numspans = 2 * kv.numspans := by
  have := refineMults_length kv.mults hg.1
  have hpos : 0 < kv.mults.length := List.length_pos_iff.2 hg.1
  show (refineMults kv.mults).length - 1 = 2 * (kv.mults.length - 1)
  omega

theorem numdofs_refine_pos {kv : KV} (hd : 1 ≤ kv.numdofs) : 1 ≤ kv.refine.numdofs := by
  have := refineMults_sum_ge kv.mults
  have e : kv.refine.numdofs = (refineMults kv.mults).sum - kv.p - 1 := rfl
  rw [e]
  unfold numdofs numknots at hd
  omega

theorem refineN_succ : ∀ (n : Nat) (kv : KV), refineN (n + 1) kv = (refineN n kv).refine
  | 0, _ => rfl
  | n + 1, kv => by
    show refineN (n + 1) kv.refine = (refineN n kv.refine).refine
    exact refineN_succ n kv.refine

theorem good_refineN : ∀ (n : Nat) {kv : KV}, GoodKV kv → GoodKV (refineN n kv)
  | 0, _, h => h
  | n + 1, kv, h => by rw [refineN_succ]; exact good_refine (good_refineN n h)

theorem numdofs_refineN_pos : ∀ (n : Nat) {kv : KV}, 1 ≤ kv.numdofs → 1 ≤ (refineN n kv).numdofs
  | 0, _, h => h
  | n + 1, kv, h => by rw [refineN_succ]; exact numdofs_refine_pos (numdofs_refineN_pos n h)

end KV

/-! ### tensor-product lifting -/

theorem mem_cells : ∀ (m : Mesh) (c : Idx), c ∈ Mesh.cells m ↔ Below c (m.map KV.numspans)
  | [], c => by cases c <;> simp [Mesh.cells, Below]
  | _ :: _, [] => by simp [Mesh.cells, Below]
  | kv :: m, k :: c => by
    have ih := mem_cells m c
    simp only [Mesh.cells] at ih
    simp only [Mesh.cells, List.map_cons, cons_mem_cart_cons, List.mem_range, ih, Below]

theorem mem_functions : ∀ (m : Mesh) (f : Idx), f ∈ Mesh.functions m ↔ Below f (m.map KV.numdofs)
  | [], f => by cases f <;> simp [Mesh.functions, Below]
  | _ :: _, [] => by simp [Mesh.functions, Below]
  | kv :: m, j :: f => by
    have ih := mem_functions m f
    simp only [Mesh.functions] at ih
    simp only [Mesh.functions, List.map_cons, cons_mem_cart_cons, List.mem_range, ih, Below]

theorem supportOne_valid : ∀ (m : Mesh) (f c : Idx), Below f (m.map KV.numdofs) →
    c ∈ Mesh.supportOne m f → Below c (m.map KV.numspans)
  | [], [], c, _, hc => by
    simp only [Mesh.supportOne, List.zipWith_nil_left, mem_cart_nil] at hc
    subst hc; trivial
  | [], _ :: _, _, hf, _ => by simp [Below] at hf
  | _ :: _, [], _, hf, _ => by simp [Below] at hf
  | kv :: m, j :: f, [], _, hc => by simp [Mesh.supportOne] at hc
  | kv :: m, j :: f, k :: c, hf, hc => by
    simp only [Mesh.supportOne, List.zipWith_cons_cons, cons_mem_cart_cons, mem_rangeFT] at hc
    simp only [List.map_cons, Below] at hf ⊢
    exact ⟨by have := KV.ms1_le_numspans hf.1; omega, supportOne_valid m f c hf.2 hc.2⟩

theorem supportOne_nonempty : ∀ (m : Mesh) (f : Idx), (∀ kv ∈ m, GoodKV kv) →
    Below f (m.map KV.numdofs) → ∃ c, c ∈ Mesh.supportOne m f
  | [], [], _, _ => ⟨[], by simp [Mesh.supportOne]⟩
  | [], _ :: _, _, hf => by simp [Below] at hf
  | _ :: _, [], _, hf => by simp [Below] at hf
  | kv :: m, j :: f, hg, hf => by
    simp only [List.map_cons, Below] at hf
    obtain ⟨c, hc⟩ := supportOne_nonempty m f (fun x hx => hg x (List.mem_cons_of_mem _ hx)) hf.2
    refine ⟨kv.ms0 j :: c, ?_⟩
    simp only [Mesh.supportOne, List.zipWith_cons_cons, cons_mem_cart_cons, mem_rangeFT]
    exact ⟨⟨Nat.le_refl _, KV.ms0_lt_ms1 (hg kv (List.mem_cons_self ..)) hf.1⟩, hc⟩

theorem mem_supportedInOne : ∀ (m : Mesh) (f c : Idx), (∀ kv ∈ m, 1 ≤ kv.numdofs) →
    Below c (m.map KV.numspans) →
    (f ∈ Mesh.supportedInOne m c ↔ Below f (m.map KV.numdofs) ∧ c ∈ Mesh.supportOne m f)
  | [], f, [], _, _ => by cases f <;> simp [Mesh.supportedInOne, Mesh.supportOne, Below]
  | [], _, _ :: _, _, hc => by simp [Below] at hc
  | _ :: _, _, [], _, hc => by simp [Below] at hc
  | kv :: m, [], k :: c, _, _ => by simp [Mesh.supportedInOne, Below]
  | kv :: m, j :: f, k :: c, hd, hc => by
    simp only [List.map_cons, Below] at hc
    have ih := mem_supportedInOne m f c (fun x hx => hd x (List.mem_cons_of_mem _ hx)) hc.2
    simp only [Mesh.supportedInOne, Mesh.supportOne] at ih
    simp only [Mesh.supportedInOne, Mesh.supportOne, List.zipWith_cons_cons, cons_mem_cart_cons,
      mem_rangeFT, List.map_cons, Below, ih, KV.suppFunc_spec (hd kv (List.mem_cons_self ..)) k j]
    constructor
    · rintro ⟨⟨h1, h2⟩, h3, h4⟩; exact ⟨⟨h1, h3⟩, h2, h4⟩
    · rintro ⟨⟨h1, h3⟩, h2, h4⟩; exact ⟨⟨h1, h2⟩, h3, h4⟩

theorem mem_support_singleton (m : Mesh) (f c : Idx) :
    c ∈ Mesh.support m [f] ↔ c ∈ Mesh.supportOne m f := by
  simp [Mesh.support]

theorem mem_supportedIn_iff (m : Mesh) (cells : List Idx) (f : Idx) :
    f ∈ Mesh.supportedIn m cells ↔ ∃ c ∈ cells, f ∈ Mesh.supportedInOne m c := by
  simp [Mesh.supportedIn, List.mem_flatMap]

/-! ### children and parents -/

theorem mem_childrenOne : ∀ (c c' : Idx), c' ∈ childrenOne c ↔ c'.map (· / 2) = c
  | [], c' => by cases c' <;> simp [childrenOne]
  | _ :: _, [] => by simp [childrenOne]
  | k :: c, k' :: c' => by
    have ih := mem_childrenOne c c'
    simp only [childrenOne] at ih
    simp only [childrenOne, List.map_cons, cons_mem_cart_cons, ih, List.cons.injEq, List.mem_cons,
      List.not_mem_nil, or_false]
    constructor
    · rintro ⟨h1, h2⟩; exact ⟨by omega, h2⟩
    · rintro ⟨h1, h2⟩; exact ⟨by omega, h2⟩

theorem mem_cellChildren (cells : List Idx) (c' : Idx) :
    c' ∈ cellChildren cells ↔ parTp c' ∈ cells := by
  simp only [cellChildren, List.mem_flatMap, mem_childrenOne, parTp]
  constructor
  · rintro ⟨c, hc, rfl⟩; exact hc
  · intro h; exact ⟨_, h, rfl⟩

theorem below_half : ∀ (c ns : List Nat), Below c (ns.map (2 * ·)) ↔ Below (c.map (· / 2)) ns
  | [], [] => by simp [Below]
  | [], _ :: _ => by simp [Below]
  | _ :: _, [] => by simp [Below]
  | k :: c, n :: ns => by
    simp only [List.map_cons, Below, below_half c ns]
    constructor <;> rintro ⟨h1, h2⟩ <;> exact ⟨by omega, h2⟩

/-! ### the levels of the hierarchy -/

theorem meshAt_zero (kvs : Mesh) : meshAt kvs 0 = kvs := by
  unfold meshAt
  have : KV.refineN 0 = id := by funext kv; rfl
  rw [this, List.map_id]

theorem good_meshAt {kvs : Mesh} (hg : ∀ kv ∈ kvs, GoodKV kv) (lv : Nat) :
    ∀ kv ∈ meshAt kvs lv, GoodKV kv := by
  intro kv hkv
  simp only [meshAt, List.mem_map] at hkv
  obtain ⟨kv0, h0, rfl⟩ := hkv
  exact KV.good_refineN lv (hg kv0 h0)

theorem numdofs_meshAt_pos {kvs : Mesh} (hd : ∀ kv ∈ kvs, 1 ≤ kv.numdofs) (lv : Nat) :
    ∀ kv ∈ meshAt kvs lv, 1 ≤ kv.numdofs := by
  intro kv hkv
  simp only [meshAt, List.mem_map] at hkv
  obtain ⟨kv0, h0, rfl⟩ := hkv
  exact KV.numdofs_refineN_pos lv (hd kv0 h0)

theorem numspans_meshAt_succ (kvs : Mesh) (hg : ∀ kv ∈ kvs, GoodKV kv) (lv : Nat) :
    (meshAt kvs (lv + 1)).map KV.numspans = ((meshAt kvs lv).map KV.numspans).map (2 * ·) := by
  unfold meshAt
  simp only [List.map_map]
  apply List.map_congr_left
  intro kv hkv
  simp only [Function.comp]
  rw [KV.refineN_succ, KV.numspans_refine (KV.good_refineN lv (hg kv hkv))]

theorem VCtp_succ (kvs : Mesh) (hg : ∀ kv ∈ kvs, GoodKV kv) (lv : Nat) (c : Idx) :
    VCtp kvs (lv + 1) c ↔ VCtp kvs lv (parTp c) := by
  unfold VCtp parTp
  rw [numspans_meshAt_succ kvs hg lv, below_half]

/-! ### main results

The hypothesis `hd` (every direction carries at least one B-spline, `p + 2 ≤ #knots`) cannot be
dropped: for `kvs = [⟨1, [1, 1]⟩]` (`GoodKV`, one span, `numdofs = 0`) the model evaluates
`(tpOps kvs).supportedIn 0 [[0]] = [[0]]` although `[0]` is not a function index, because
`suppFunc` returns its initial value `(numdofs, 0 + 1) = (0, 1)`.  It is preserved by refinement
(`KV.numdofs_refine_pos`). -/

/-- main result 1 -/
theorem tp_laws (kvs : Mesh) (hg : ∀ kv ∈ kvs, GoodKV kv) (hd : ∀ kv ∈ kvs, 1 ≤ kv.numdofs) :
    Laws (tpOps kvs) (VCtp kvs) (VFtp kvs) parTp where
  supportedIn_nil := fun _ => rfl
  supportedIn_nodup := fun _ _ => nodup_dedup _
  mem_children := by
    intro lv cells c' hv
    show c' ∈ cellChildren cells ↔ _
    rw [mem_cellChildren]
    constructor
    · intro h; exact ⟨(VCtp_succ kvs hg lv c').2 (hv _ h), h⟩
    · exact fun h => h.2
  mem_supportedIn := by
    intro lv cells f hv
    show f ∈ Mesh.supportedIn (meshAt kvs lv) cells ↔
      VFtp kvs lv f ∧ ∃ c ∈ cells, c ∈ Mesh.support (meshAt kvs lv) [f]
    rw [mem_supportedIn_iff]
    constructor
    · rintro ⟨c, hc, hf⟩
      have := (mem_supportedInOne _ f c (numdofs_meshAt_pos hd lv) (hv c hc)).1 hf
      exact ⟨this.1, c, hc, (mem_support_singleton _ f c).2 this.2⟩
    · rintro ⟨hf, c, hc, hs⟩
      exact ⟨c, hc, (mem_supportedInOne _ f c (numdofs_meshAt_pos hd lv) (hv c hc)).2
        ⟨hf, (mem_support_singleton _ f c).1 hs⟩⟩
  support_valid := by
    intro lv f c hf hc
    exact supportOne_valid _ f c hf ((mem_support_singleton _ f c).1 hc)
  support_nonempty := by
    intro lv f hf
    obtain ⟨c, hc⟩ := supportOne_nonempty _ f (good_meshAt hg lv) hf
    exact ⟨c, (mem_support_singleton _ f c).2 hc⟩
  support_nil := fun _ => rfl
  parent_nil := fun _ => rfl
  par_valid := fun lv c h => (VCtp_succ kvs hg lv c).1 h

/-- main result 2: the constructor state is well-formed on level 0 -/
theorem tp_init_ok (kvs : Mesh) (hg : ∀ kv ∈ kvs, GoodKV kv) (hd : ∀ kv ∈ kvs, 1 ≤ kv.numdofs) :
    LevelOK (tpOps kvs) (VFtp kvs) 0 (VCtp kvs 0) ⟨Mesh.cells kvs, [], Mesh.functions kvs, []⟩ := by
  have L := tp_laws kvs hg hd
  have hcell : ∀ c, c ∈ Mesh.cells kvs ↔ VCtp kvs 0 c := by
    intro c; unfold VCtp; rw [meshAt_zero]; exact mem_cells kvs c
  have hfun : ∀ f, f ∈ Mesh.functions kvs ↔ VFtp kvs 0 f := by
    intro f; unfold VFtp; rw [meshAt_zero]; exact mem_functions kvs f
  refine ⟨?_, ?_, ?_, ?_, ?_, ?_, ?_, ?_⟩
  · intro c
    simp only [List.not_mem_nil, or_false]
    exact hcell c
  · intro c _ h; exact absurd h List.not_mem_nil
  · intro f
    simp only [List.not_mem_nil, or_false]
    rw [hfun]
    constructor
    · intro hf
      refine ⟨hf, fun c hc => (hcell c).2 (L.support_valid 0 f c hf hc), fun hall => ?_⟩
      obtain ⟨c, hc⟩ := L.support_nonempty 0 f hf
      exact hall c hc
    · exact fun h => h.1
  · intro f
    simp only [List.not_mem_nil, false_iff]
    rintro ⟨hf, hall⟩
    obtain ⟨c, hc⟩ := L.support_nonempty 0 f hf
    exact hall c hc
  · exact nodup_cart _ (by
      intro l hl
      simp only [List.mem_map] at hl
      obtain ⟨kv, _, rfl⟩ := hl
      exact List.nodup_range)
  · exact List.nodup_nil
  · exact nodup_cart _ (by
      intro l hl
      simp only [List.mem_map] at hl
      obtain ⟨kv, _, rfl⟩ := hl
      exact List.nodup_range)
  · exact List.nodup_nil

end Pyiga.Hier
