/-
Part 5: the remaining branches of `replace_physical_derivs` (second order with `_geo_hess_trf`, space-time),
`insert_input_field_derivs`, and the measure / normal definitions (`Model/VFormPhys.lean`).
-/
import Pyiga.Proofs.VFormPhys

namespace Pyiga.VForm
open Expr Finset

variable {α : Type} [Field α] [CharZero α]

/-! ### pure algebra over `Finset.range d` -/

/-- pull a contraction through: `Σ_c (Σ_n F n · J n c) · b c = Σ_n F n · (Σ_c J n c · b c)` -/
theorem contract (d : Nat) (F : Nat → α) (J : Nat → Nat → α) (b : Nat → α) :
    ∑ c ∈ range d, (∑ n ∈ range d, F n * J n c) * b c = ∑ n ∈ range d, F n * ∑ c ∈ range d, J n c * b c := by
  simp only [Finset.sum_mul, Finset.mul_sum]
  rw [Finset.sum_comm]
  apply Finset.sum_congr rfl; intro n _
  apply Finset.sum_congr rfl; intro c _
  ring

/-- `Σ_m F m · δ_{m k} = F k` -/
theorem sum_delta (d k : Nat) (hk : k < d) (F : Nat → α) :
    ∑ m ∈ range d, F m * (if m = k then 1 else 0) = F k := by
  simp [Finset.sum_ite_eq', hk]

/-- first-order chain rule, abstractly: `a` is column `k` of a right inverse of `J`, `gp = Jᵀ g` -/
theorem chain1_alg (d k : Nat) (hk : k < d) (J : Nat → Nat → α) (a gp g : Nat → α)
    (ha : ∀ m, m < d → ∑ i ∈ range d, J m i * a i = if m = k then 1 else 0)
    (hgp : ∀ i, i < d → gp i = ∑ m ∈ range d, J m i * g m) :
    ∑ i ∈ range d, a i * gp i = g k := by
  calc ∑ i ∈ range d, a i * gp i
      = ∑ i ∈ range d, (∑ m ∈ range d, g m * J m i) * a i := by
        apply Finset.sum_congr rfl; intro i hi
        rw [hgp i (Finset.mem_range.mp hi), mul_comm]
        congr 1
        apply Finset.sum_congr rfl; intro m _; ring
    _ = ∑ m ∈ range d, g m * ∑ i ∈ range d, J m i * a i := contract d g J a
    _ = ∑ m ∈ range d, g m * (if m = k then 1 else 0) := by
        apply Finset.sum_congr rfl; intro m hm; rw [ha m (Finset.mem_range.mp hm)]
    _ = g k := sum_delta d k hk g

/-- second-order chain rule, abstractly.  `a`, `b`: columns `i`, `j` of a right inverse of `J`;
`Hp = Jᵀ H J + Σ_m g_m HG_m` entrywise; then `aᵀ Hp b = H i j + Σ_m g_m (aᵀ HG_m b)`. -/
theorem chain2_alg (d i j : Nat) (hi : i < d) (hj : j < d) (J H : Nat → Nat → α) (a b g : Nat → α)
    (HG : Nat → Nat → Nat → α) (Hp : Nat → Nat → α)
    (ha : ∀ m, m < d → ∑ r ∈ range d, J m r * a r = if m = i then 1 else 0)
    (hb : ∀ n, n < d → ∑ c ∈ range d, J n c * b c = if n = j then 1 else 0)
    (hHp : ∀ r c, r < d → c < d →
      Hp r c = ∑ n ∈ range d, (∑ m ∈ range d, J m r * H m n) * J n c + ∑ m ∈ range d, g m * HG m r c) :
    ∑ r ∈ range d, a r * ∑ c ∈ range d, Hp r c * b c
      = H i j + ∑ m ∈ range d, g m * ∑ r ∈ range d, ∑ c ∈ range d, a r * HG m r c * b c := by
  have step : ∀ r, r < d → ∑ c ∈ range d, Hp r c * b c
      = (∑ m ∈ range d, J m r * H m j) + ∑ m ∈ range d, g m * ∑ c ∈ range d, HG m r c * b c := by
    intro r hr
    have : ∀ c ∈ range d, Hp r c * b c
        = (∑ n ∈ range d, (∑ m ∈ range d, J m r * H m n) * J n c) * b c + (∑ m ∈ range d, g m * HG m r c) * b c := by
      intro c hc; rw [hHp r c hr (Finset.mem_range.mp hc)]; ring
    rw [Finset.sum_congr rfl this, Finset.sum_add_distrib, contract d (fun n => ∑ m ∈ range d, J m r * H m n) J b,
      contract d g (fun m c => HG m r c) b]
    congr 1
    calc ∑ n ∈ range d, (∑ m ∈ range d, J m r * H m n) * ∑ c ∈ range d, J n c * b c
        = ∑ n ∈ range d, (∑ m ∈ range d, J m r * H m n) * (if n = j then 1 else 0) := by
          apply Finset.sum_congr rfl; intro n hn; rw [hb n (Finset.mem_range.mp hn)]
      _ = ∑ m ∈ range d, J m r * H m j := sum_delta d j hj _
  have e1 : ∑ r ∈ range d, a r * ∑ c ∈ range d, Hp r c * b c
      = (∑ r ∈ range d, (∑ m ∈ range d, H m j * J m r) * a r)
        + ∑ r ∈ range d, (∑ m ∈ range d, (g m) * (∑ c ∈ range d, HG m r c * b c)) * a r := by
    rw [← Finset.sum_add_distrib]
    apply Finset.sum_congr rfl; intro r hr
    rw [step r (Finset.mem_range.mp hr)]
    have : ∑ m ∈ range d, J m r * H m j = ∑ m ∈ range d, H m j * J m r := by
      apply Finset.sum_congr rfl; intro m _; ring
    rw [this]; ring
  rw [e1, contract d (fun m => H m j) J a]
  congr 1
  · calc ∑ m ∈ range d, H m j * ∑ r ∈ range d, J m r * a r
        = ∑ m ∈ range d, H m j * (if m = i then 1 else 0) := by
          apply Finset.sum_congr rfl; intro m hm; rw [ha m (Finset.mem_range.mp hm)]
      _ = H i j := sum_delta d i hi _
  · simp only [Finset.sum_mul, Finset.mul_sum]
    rw [Finset.sum_comm]
    apply Finset.sum_congr rfl; intro m _
    apply Finset.sum_congr rfl; intro r _
    apply Finset.sum_congr rfl; intro c _
    ring

/-! ### evaluation of the list sums the code builds -/

theorem ev_reduceAdd_range (fn : String → α → α) (ρ : Env α) (n : Nat) (f : Nat → Expr) :
    ev (fieldOps fn) ρ (reduceAdd ((List.range n).map f)) 0 0 = ∑ i ∈ range n, ev (fieldOps fn) ρ (f i) 0 0 := by
  rw [ev_reduceAdd, reduceAddV_eq_sum, List.map_map, sum_map_range]; rfl

theorem ev_foldl_add_range (fn : String → α → α) (ρ : Env α) (n : Nat) (h0 : Expr) (g : Nat → Expr) :
    ev (fieldOps fn) ρ ((List.range n).foldl (fun acc k => sop .add acc (g k)) h0) 0 0
      = ev (fieldOps fn) ρ h0 0 0 + ∑ k ∈ range n, ev (fieldOps fn) ρ (g k) 0 0 := by
  induction n with
  | zero => simp
  | succ n ih =>
    rw [List.range_succ, List.foldl_append, Finset.sum_range_succ, ← add_assoc, ← ih]
    simp [ev, Ops.bin, fieldOps]

theorem sum_map_flatMap_range (n : Nat) (F : Nat → List Expr) (evf : Expr → α) :
    (((List.range n).flatMap F).map evf).sum = ∑ m ∈ range n, ((F m).map evf).sum := by
  induction n with
  | zero => simp
  | succ n ih =>
    rw [List.range_succ, List.flatMap_append, List.map_append, List.sum_append, ih, Finset.sum_range_succ]
    simp

theorem ev_jinvRef (fn : String → α → α) (ρ : Env α) (dim r c : Nat) :
    ev (fieldOps fn) ρ (jinvRef dim r c) 0 0 = ρ.var "JacInv" [r, c] (zerosD dim) false := by
  simp [jinvRef, ev]

/-- value of the variable `_geo_hess_trf_a_i_j` as defined by the code -/
theorem ev_geoHessTrfDef (fn : String → α → α) (ρ : Env α) (dim a i j : Nat) :
    ev (fieldOps fn) ρ (geoHessTrfDef dim a i j) 0 0
      = - ∑ m ∈ range dim, ∑ e ∈ range dim, ∑ u ∈ range dim,
          ((ρ.var "geo_a" [m] (unit2D dim e u) true * ρ.var "JacInv" [a, m] (zerosD dim) false)
            * ρ.var "JacInv" [e, i] (zerosD dim) false) * ρ.var "JacInv" [u, j] (zerosD dim) false := by
  unfold geoHessTrfDef
  simp only [ev]
  rw [ev_foldl_add]
  simp only [fieldOps]
  rw [foldl_add_eq, sum_map_flatMap_range]
  simp only [ev, Rat.cast_zero, zero_add]
  congr 1
  apply Finset.sum_congr rfl; intro m _
  rw [sum_map_flatMap_range]
  apply Finset.sum_congr rfl; intro e _
  rw [List.map_map, sum_map_range]
  apply Finset.sum_congr rfl; intro u _
  simp [Function.comp_def, ev, Ops.bin, jinvRef]

/-- **order 1, every dimension, any atom** (basis function or parametric input field entry):
`inner(JacInv[:,k], grad_para atom)` denotes the `k`-th *physical* first derivative `g k`, where the physical
gradient `g` is defined by `∂_{ξ_i} = Σ_m J m i · g m` and `JacInv` holds a right inverse of `J`. -/
theorem physToPara1G_sound (fn : String → α → α) (ρ : Env α) (dim : Nat) (atom : List Nat → Expr)
    (J : Nat → Nat → α) (g : Nat → α)
    (hinv : ∀ m k, m < dim → k < dim →
      ∑ r ∈ range dim, J m r * ρ.var "JacInv" [r, k] (zerosD dim) false = if m = k then 1 else 0)
    (hchain : ∀ r, r < dim → ev (fieldOps fn) ρ (atom (unitD dim r)) 0 0 = ∑ m ∈ range dim, J m r * g m)
    (k : Nat) (hk : k < dim) :
    ev (fieldOps fn) ρ (physToPara1G dim atom k) 0 0 = g k := by
  unfold physToPara1G
  rw [ev_reduceAdd_range]
  simp only [ev, Ops.bin, ev_jinvRef]
  exact chain1_alg dim k hk J (fun r => ρ.var "JacInv" [r, k] (zerosD dim) false)
    (fun r => ev (fieldOps fn) ρ (atom (unitD dim r)) 0 0) g (fun m hm => hinv m k hm hk) hchain

/-- **order 2 with the geometry-Hessian term, every dimension, any atom.**
Defining equations of the physical gradient `g` and Hessian `H`:
`∂_{ξ_r} = Σ_m J m r · g m` and `∂_{ξ_r ξ_c} = (Jᵀ H J)_{rc} + Σ_m g m · ∂_{ξ_r ξ_c} G_m`;
`JacInv` holds a right inverse of `J`; each variable `_geo_hess_trf_k_i_j` holds the value of its definition.
Then the expression built by the second-order branch of `replace_physical_derivs` denotes `H i j`. -/
theorem physToPara2G_sound (fn : String → α → α) (ρ : Env α) (dim : Nat) (atom : List Nat → Expr)
    (J H : Nat → Nat → α) (g : Nat → α) (i j : Nat) (hi : i < dim) (hj : j < dim)
    (hinv : ∀ m k, m < dim → k < dim →
      ∑ r ∈ range dim, J m r * ρ.var "JacInv" [r, k] (zerosD dim) false = if m = k then 1 else 0)
    (hchain1 : ∀ r, r < dim → ev (fieldOps fn) ρ (atom (unitD dim r)) 0 0 = ∑ m ∈ range dim, J m r * g m)
    (hchain2 : ∀ r c, r < dim → c < dim → ev (fieldOps fn) ρ (atom (unit2D dim r c)) 0 0
      = ∑ n ∈ range dim, (∑ m ∈ range dim, J m r * H m n) * J n c
        + ∑ m ∈ range dim, g m * ρ.var "geo_a" [m] (unit2D dim r c) true)
    (hT : ∀ k, k < dim → ρ.var (geoHessTrfName k i j) [] (zerosD dim) false
      = ev (fieldOps fn) ρ (geoHessTrfDef dim k i j) 0 0) :
    ev (fieldOps fn) ρ (physToPara2G dim atom i j) 0 0 = H i j := by
  unfold physToPara2G
  simp only []
  rw [ev_foldl_add_range, ev_reduceAdd_range]
  set a : Nat → α := fun r => ρ.var "JacInv" [r, i] (zerosD dim) false with ha_def
  set b : Nat → α := fun c => ρ.var "JacInv" [c, j] (zerosD dim) false with hb_def
  set HG : Nat → Nat → Nat → α := fun m r c => ρ.var "geo_a" [m] (unit2D dim r c) true with hHG
  set q : Nat → α := fun m => ∑ r ∈ range dim, ∑ c ∈ range dim, a r * HG m r c * b c with hq
  have part1 : ∑ r ∈ range dim, ev (fieldOps fn) ρ (sop .mul (jinvRef dim r i)
        (reduceAdd ((List.range dim).map fun c => sop .mul (atom (unit2D dim r c)) (jinvRef dim c j)))) 0 0
      = H i j + ∑ m ∈ range dim, g m * q m := by
    have : ∀ r ∈ range dim, ev (fieldOps fn) ρ (sop .mul (jinvRef dim r i)
        (reduceAdd ((List.range dim).map fun c => sop .mul (atom (unit2D dim r c)) (jinvRef dim c j)))) 0 0
        = a r * ∑ c ∈ range dim, ev (fieldOps fn) ρ (atom (unit2D dim r c)) 0 0 * b c := by
      intro r _
      simp only [ev, Ops.bin, ev_jinvRef, ev_reduceAdd_range]
      rfl
    rw [Finset.sum_congr rfl this]
    exact chain2_alg dim i j hi hj J H a b g HG (fun r c => ev (fieldOps fn) ρ (atom (unit2D dim r c)) 0 0)
      (fun m hm => hinv m i hm hi) (fun n hn => hinv n j hn hj) hchain2
  have part2 : ∑ k ∈ range dim, ev (fieldOps fn) ρ (sop .mul (atom (unitD dim k))
        (varref (geoHessTrfName k i j) [] (zerosD dim) false)) 0 0 = - ∑ m ∈ range dim, g m * q m := by
    have hk : ∀ k ∈ range dim, ev (fieldOps fn) ρ (sop .mul (atom (unitD dim k))
        (varref (geoHessTrfName k i j) [] (zerosD dim) false)) 0 0
        = - ∑ m ∈ range dim, (q m * ρ.var "JacInv" [k, m] (zerosD dim) false) * ev (fieldOps fn) ρ (atom (unitD dim k)) 0 0 := by
      intro k hk
      simp only [ev, Ops.bin]
      rw [hT k (Finset.mem_range.mp hk), ev_geoHessTrfDef]
      simp only [fieldOps, mul_neg, neg_inj, hq, Finset.mul_sum, Finset.sum_mul]
      apply Finset.sum_congr rfl; intro m _
      apply Finset.sum_congr rfl; intro e _
      apply Finset.sum_congr rfl; intro u _
      simp only [ha_def, hb_def, hHG]; ring
    rw [Finset.sum_congr rfl hk, Finset.sum_neg_distrib, neg_inj, Finset.sum_comm]
    apply Finset.sum_congr rfl; intro m hm
    have := chain1_alg dim m (Finset.mem_range.mp hm) J (fun k => ρ.var "JacInv" [k, m] (zerosD dim) false)
      (fun k => ev (fieldOps fn) ρ (atom (unitD dim k)) 0 0) g (fun m' hm' => hinv m' m hm' (Finset.mem_range.mp hm)) hchain1
    have e : ∑ k ∈ range dim, q m * ρ.var "JacInv" [k, m] (zerosD dim) false * ev (fieldOps fn) ρ (atom (unitD dim k)) 0 0
        = q m * ∑ k ∈ range dim, ρ.var "JacInv" [k, m] (zerosD dim) false * ev (fieldOps fn) ρ (atom (unitD dim k)) 0 0 := by
      rw [Finset.mul_sum]
      apply Finset.sum_congr rfl; intro k _; ring
    rw [e, this, mul_comm]
  rw [part1, part2]; ring

/-! ### space-time branch -/

/-- on a space-time cylinder (`∂_t G_x = 0`, `∂_t G_t = 1`) the parametric time derivative *is* the physical one:
`∂_{ξ_t} φ = Σ_m J m t · g m = g t` — why the code keeps time derivatives parametric -/
theorem st_time_deriv (d : Nat) (J : Nat → Nat → α) (g : Nat → α)
    (hcyl : ∀ m, m < d → J m d = 0) (htt : J d d = 1) :
    ∑ m ∈ range (d + 1), J m d * g m = g d := by
  rw [Finset.sum_range_succ, htt, one_mul]
  have : ∑ m ∈ range d, J m d * g m = 0 := by
    apply Finset.sum_eq_zero; intro m hm; rw [hcyl m (Finset.mem_range.mp hm), zero_mul]
  rw [this, zero_add]

/-- same for the second time derivative (`∂_t² G = 0` for every component of a cylinder map) -/
theorem st_time_deriv2 (d : Nat) (J H : Nat → Nat → α) (g HGtt : Nat → α)
    (hcyl : ∀ m, m < d → J m d = 0) (htt : J d d = 1) (hG : ∀ m, m < d + 1 → HGtt m = 0) :
    ∑ n ∈ range (d + 1), (∑ m ∈ range (d + 1), J m d * H m n) * J n d + ∑ m ∈ range (d + 1), g m * HGtt m = H d d := by
  have h2 : ∑ m ∈ range (d + 1), g m * HGtt m = 0 := by
    apply Finset.sum_eq_zero; intro m hm; rw [hG m (Finset.mem_range.mp hm), mul_zero]
  rw [h2, add_zero]
  have h1 : ∀ n, ∑ m ∈ range (d + 1), J m d * H m n = H d n := fun n => st_time_deriv d J (fun m => H m n) hcyl htt
  simp only [h1]
  have := st_time_deriv d J (fun n => H d n) hcyl htt
  calc ∑ n ∈ range (d + 1), H d n * J n d = ∑ n ∈ range (d + 1), J n d * H d n := by
        apply Finset.sum_congr rfl; intro n _; ring
    _ = H d d := this

theorem foldl_add_nat (l : List Nat) (a : Nat) : l.foldl (· + ·) a = a + l.foldl (· + ·) 0 := by
  induction l generalizing a with
  | nil => simp
  | cons x l ih => simp only [List.foldl_cons, Nat.zero_add]; rw [ih (a + x), ih x]; omega

theorem findIdx_of_dsum_one (l : List Nat) (h : dsum l = 1) : l.findIdx (· == 1) < l.length := by
  induction l with
  | nil => simp [dsum] at h
  | cons x l ih =>
    simp only [dsum, List.foldl_cons, Nat.zero_add] at h
    rw [foldl_add_nat] at h
    by_cases hx : x = 1
    · subst hx; simp [List.findIdx_cons]
    · have hx0 : x = 0 := by omega
      subst hx0
      have : dsum l = 1 := by simp only [dsum]; omega
      have h2 := ih this
      rw [List.findIdx_cons]
      simp only [show ((0 : Nat) == 1) = false from rfl, cond_false, List.length_cons]
      omega

/-- **space-time branch, one space derivative** (`D = e_k + a·e_t`, `k` a space direction; `dim = d+1` counts time):
on a cylinder (`∂_t G_x = 0`) with `JacInv` a right inverse of the full Jacobian, and the physical space gradient `g` of
`w = ∂_t^a φ` defined by `∂_{ξ_i} w = Σ_{m<d} J m i · g m`, the substituted
`inner(JacInv[spacedims, k], (∂_{ξ_i} ∂_t^a φ)_i)` denotes `g k`. -/
theorem physToParaST_sound (fn : String → α → α) (ρ : Env α) (d : Nat) (b : BFun) (D : List Nat) (e : Expr)
    (he : physToParaST (d + 1) b D = some e) (h1 : dsum (D.take d) = 1)
    (J : Nat → Nat → α) (g : Nat → α)
    (hinv : ∀ m k, m < d + 1 → k < d + 1 →
      ∑ r ∈ range (d + 1), J m r * ρ.var "JacInv" [r, k] (zerosD (d + 1)) false = if m = k then 1 else 0)
    (hcyl : ∀ m, m < d → J m d = 0)
    (hchain : ∀ i, i < d → ρ.var (pderivVarName b (stD (d + 1) i (D.getD d 0))) [] (zerosD (d + 1)) false
      = ∑ m ∈ range d, J m i * g m) :
    (D.take d).findIdx (· == 1) < d ∧ ev (fieldOps fn) ρ e 0 0 = g ((D.take d).findIdx (· == 1)) := by
  have hk : (D.take d).findIdx (· == 1) < d := by
    have := findIdx_of_dsum_one _ h1
    have hl : (D.take d).length ≤ d := by simp
    omega
  refine ⟨hk, ?_⟩
  simp only [physToParaST, Nat.add_sub_cancel, h1, show ((1 : Nat) == 0) = false from rfl,
    show ((1 : Nat) == 1) = true from rfl, Bool.false_eq_true, if_false, if_true, Option.some.injEq] at he
  subst he
  rw [ev_reduceAdd_range]
  simp only [ev, Ops.bin, ev_jinvRef]
  apply chain1_alg d _ hk J (fun r => ρ.var "JacInv" [r, (D.take d).findIdx (· == 1)] (zerosD (d + 1)) false)
    (fun i => ρ.var (pderivVarName b (stD (d + 1) i (D.getD d 0))) [] (zerosD (d + 1)) false) g
  · intro m hm
    have := hinv m ((D.take d).findIdx (· == 1)) (by omega) (by omega)
    rw [Finset.sum_range_succ, hcyl m hm, zero_mul, add_zero] at this
    exact this
  · exact hchain

/-! ### `insert_input_field_derivs` and the packing `sym_index_to_seq` -/

theorem symIndexToSeq_symm (n i j : Nat) : symIndexToSeq n i j = symIndexToSeq n j i := by
  simp [symIndexToSeq, Nat.min_comm, Nat.max_comm]

theorem symIndexToSeq_zero (n : Nat) : symIndexToSeq n 0 0 = 0 := by
  simp [symIndexToSeq]

/-- moving right inside a row of the upper triangle advances the packed index by one -/
theorem symIndexToSeq_succ_col (n i j : Nat) (h : i ≤ j) : symIndexToSeq n i (j + 1) = symIndexToSeq n i j + 1 := by
  have h1 : min i (j + 1) = i := Nat.min_eq_left (by omega)
  have h2 : max i (j + 1) = j + 1 := Nat.max_eq_right (by omega)
  have h3 : min i j = i := Nat.min_eq_left h
  have h4 : max i j = j := Nat.max_eq_right h
  simp only [symIndexToSeq, h1, h2, h3, h4]
  omega

/-- the diagonal entry of the next row follows the last entry of the current row -/
theorem symIndexToSeq_next_row (n i : Nat) (h : i + 1 < n) :
    symIndexToSeq n (i + 1) (i + 1) = symIndexToSeq n i (n - 1) + 1 := by
  have h3 : min i (n - 1) = i := Nat.min_eq_left (by omega)
  have h4 : max i (n - 1) = n - 1 := Nat.max_eq_right (by omega)
  simp only [symIndexToSeq, Nat.min_self, Nat.max_self, h3, h4, List.range_succ, List.map_append, List.foldl_append,
    List.map_cons, List.map_nil, List.foldl_cons, List.foldl_nil]
  omega

theorem dToIndicesAux_zeros (n off : Nat) : dToIndicesAux (List.replicate n 0) off = [] := by
  induction n generalizing off with
  | zero => simp [dToIndicesAux]
  | succ n ih => simp [List.replicate_succ, dToIndicesAux, ih]

theorem dToIndicesAux_unit (n k off : Nat) (hk : k < n) :
    dToIndicesAux (bump (List.replicate n 0) k 1) off = [off + k] := by
  induction n generalizing k off with
  | zero => omega
  | succ n ih =>
    cases k with
    | zero => simp [List.replicate_succ, bump, dToIndicesAux, dToIndicesAux_zeros]
    | succ k =>
      have := ih k (off + 1) (by omega)
      simp only [bump, List.replicate_succ, List.set_cons_succ, List.getD_cons_succ, dToIndicesAux, List.replicate_zero,
        List.nil_append] at this ⊢
      rw [this]; congr 1; omega

/-- a first derivative `e_k` of an input field entry is replaced by entry `k` of the gradient array -/
theorem insertInputDeriv_grad (dim : Nat) (nm : String) (I : List Nat) (k : Nat) (hk : k < dim) :
    insertInputDeriv dim nm I (unitD dim k) = some (varref (nm ++ "_grad_a") (I ++ [k]) (zerosD dim) false) := by
  simp [insertInputDeriv, dToIndices, unitD, zerosD, dToIndicesAux_unit dim k 0 hk]

/-- **input_derivs_sound.**  If the gradient array holds `∂_k` at index `k` and the packed Hessian array holds the
derivative with `_D_to_indices(D) = (i,j)` at index `sym_index_to_seq(len D, i, j)` — the row-major upper-triangular
order characterised by `symIndexToSeq_zero/succ_col/next_row` — then `insert_input_field_derivs` preserves the value. -/
theorem insertInputDeriv_sound (fn : String → α → α) (ρ : Env α) (dim : Nat) (nm : String) (I D : List Nat) (par : Bool)
    (e : Expr) (he : insertInputDeriv dim nm I D = some e)
    (hgrad : ∀ k, dToIndices D = [k] →
      ρ.var (nm ++ "_grad_a") (I ++ [k]) (zerosD dim) false = ρ.var (nm ++ "_a") I D par)
    (hhess : ∀ i j, dToIndices D = [i, j] →
      ρ.var (nm ++ "_hess_a") (I ++ [symIndexToSeq D.length i j]) (zerosD dim) false = ρ.var (nm ++ "_a") I D par) :
    ev (fieldOps fn) ρ e 0 0 = ev (fieldOps fn) ρ (varref (nm ++ "_a") I D par) 0 0 := by
  unfold insertInputDeriv at he
  split at he
  · cases he
  · rename_i k hk; injection he with he; subst he; simp only [ev]; exact hgrad k hk
  · rename_i i j hij; injection he with he; subst he; simp only [ev]; exact hhess i j hij
  · cases he

/-! ### `det`, `inv`, the measures and the normal (dimensions 1–3, all pyiga supports) -/

section measures
variable (fn : String → α → α) (ρ : Env α)

local notation "𝓥[" e "]" => ev (fieldOps fn) ρ e 0 0

theorem det1_sound (a : Expr) : 𝓥[detL 1 [[a]]] = 𝓥[a] := by simp [detL]

theorem det2_sound (a b c d : Expr) : 𝓥[detL 2 [[a, b], [c, d]]] = 𝓥[a] * 𝓥[d] - 𝓥[b] * 𝓥[c] := by
  simp [detL, reduceAdd, minorRows, pmOne, ev, Ops.bin, fieldOps, List.range_succ]
  ring

theorem det3_sound (a b c d e f g h i : Expr) :
    𝓥[detL 3 [[a, b, c], [d, e, f], [g, h, i]]]
      = 𝓥[a] * (𝓥[e] * 𝓥[i] - 𝓥[f] * 𝓥[h]) - 𝓥[b] * (𝓥[d] * 𝓥[i] - 𝓥[f] * 𝓥[g]) + 𝓥[c] * (𝓥[d] * 𝓥[h] - 𝓥[e] * 𝓥[g]) := by
  simp [detL, reduceAdd, minorRows, pmOne, ev, Ops.bin, fieldOps, List.range_succ]
  ring

/-- `GaussWeight` is the product of the per-axis weights -/
theorem gaussWeight_sound :
    𝓥[gaussWeightDef 1] = ρ.gw 0 ∧ 𝓥[gaussWeightDef 2] = ρ.gw 0 * ρ.gw 1 ∧ 𝓥[gaussWeightDef 3] = ρ.gw 0 * ρ.gw 1 * ρ.gw 2 := by
  refine ⟨?_, ?_, ?_⟩ <;> simp [gaussWeightDef, List.range_succ, ev, Ops.bin, fieldOps]

/-- **volume measure**: `W = GaussWeight · abs(det Jac)`, with `det` the determinant (explicit for `dim` 1, 2, 3) -/
theorem volumeWeight_sound (dim : Nat) :
    𝓥[volumeWeightDef dim] = ρ.var "GaussWeight" [] (zerosD dim) false * fn "abs" 𝓥[detL dim (varMat "Jac" dim dim dim)] := by
  simp [volumeWeightDef, ev, Ops.bin, fieldOps]

theorem detJac2 (dim : Nat) : 𝓥[detL 2 (varMat "Jac" dim 2 2)]
    = ρ.var "Jac" [0, 0] (zerosD dim) false * ρ.var "Jac" [1, 1] (zerosD dim) false
      - ρ.var "Jac" [0, 1] (zerosD dim) false * ρ.var "Jac" [1, 0] (zerosD dim) false := by
  have : varMat "Jac" dim 2 2 = [[varref "Jac" [0, 0] (zerosD dim) false, varref "Jac" [0, 1] (zerosD dim) false],
      [varref "Jac" [1, 0] (zerosD dim) false, varref "Jac" [1, 1] (zerosD dim) false]] := by
    simp [varMat, List.range_succ]
  rw [this, det2_sound]; simp [ev]


theorem detJac1 (dim : Nat) : 𝓥[detL 1 (varMat "Jac" dim 1 1)] = ρ.var "Jac" [0, 0] (zerosD dim) false := by
  simp [varMat, detL, ev]

theorem detJac3 (dim : Nat) : 𝓥[detL 3 (varMat "Jac" dim 3 3)]
    = ρ.var "Jac" [0, 0] (zerosD dim) false * (ρ.var "Jac" [1, 1] (zerosD dim) false * ρ.var "Jac" [2, 2] (zerosD dim) false
          - ρ.var "Jac" [1, 2] (zerosD dim) false * ρ.var "Jac" [2, 1] (zerosD dim) false)
      - ρ.var "Jac" [0, 1] (zerosD dim) false * (ρ.var "Jac" [1, 0] (zerosD dim) false * ρ.var "Jac" [2, 2] (zerosD dim) false
          - ρ.var "Jac" [1, 2] (zerosD dim) false * ρ.var "Jac" [2, 0] (zerosD dim) false)
      + ρ.var "Jac" [0, 2] (zerosD dim) false * (ρ.var "Jac" [1, 0] (zerosD dim) false * ρ.var "Jac" [2, 1] (zerosD dim) false
          - ρ.var "Jac" [1, 1] (zerosD dim) false * ρ.var "Jac" [2, 0] (zerosD dim) false) := by
  have : varMat "Jac" dim 3 3 = [[varref "Jac" [0, 0] (zerosD dim) false, varref "Jac" [0, 1] (zerosD dim) false, varref "Jac" [0, 2] (zerosD dim) false],
      [varref "Jac" [1, 0] (zerosD dim) false, varref "Jac" [1, 1] (zerosD dim) false, varref "Jac" [1, 2] (zerosD dim) false],
      [varref "Jac" [2, 0] (zerosD dim) false, varref "Jac" [2, 1] (zerosD dim) false, varref "Jac" [2, 2] (zerosD dim) false]] := by
    simp [varMat, List.range_succ]
  rw [this, det3_sound]; simp [ev]

/-- **JacInv, dim 1** -/
theorem jacInv1_right_inverse (dim : Nat) (hdet : ρ.var "Jac" [0, 0] (zerosD dim) false ≠ 0) :
    ρ.var "Jac" [0, 0] (zerosD dim) false * ev (fieldOps fn) ρ (invL 1 (varMat "Jac" dim 1 1)) 0 0 = 1 := by
  simp [invL, varMat, detL, ev, evL, Ops.bin, fieldOps]
  exact mul_inv_cancel₀ hdet

/-- **measure expansion `dx ↦ W`** (`dim` = 2; the other dimensions only differ in the determinant formula
`detJac1/detJac3`): if the store holds the definitions of `W` and `GaussWeight`, the variable `Jac` holds the
Jacobian entries, and the volume measure *is* `Π_k gw_k · |det J|`, then the variable that replaces `dx` has the value of `dx`. -/
theorem dx_expansion_sound_dim2 (dim : Nat)
    (hW : ρ.var "W" [] (zerosD dim) false = 𝓥[volumeWeightDef 2])
    (hGW : ρ.var "GaussWeight" [] (zerosD 2) false = 𝓥[gaussWeightDef 2])
    (hdx : ρ.dx = ρ.gw 0 * ρ.gw 1 * fn "abs" (ρ.var "Jac" [0, 0] (zerosD 2) false * ρ.var "Jac" [1, 1] (zerosD 2) false
      - ρ.var "Jac" [0, 1] (zerosD 2) false * ρ.var "Jac" [1, 0] (zerosD 2) false)) :
    ρ.var "W" [] (zerosD dim) false = 𝓥[dx] := by
  rw [hW, volumeWeight_sound, hGW, (gaussWeight_sound fn ρ).2.1, detJac2]
  simp only [ev]; rw [hdx]

/-- **JacInv, dim 2**: the matrix `inv(Jac)` the code builds is a right inverse of `Jac` wherever `det Jac ≠ 0`
(this discharges the hypothesis `hinv` of the chain-rule theorems from the variable's definition) -/
theorem jacInv2_right_inverse (dim : Nat) (m k : Nat) (hm : m < 2) (hk : k < 2)
    (hdet : 𝓥[detL 2 (varMat "Jac" dim 2 2)] ≠ 0) :
    ∑ r ∈ range 2, ρ.var "Jac" [m, r] (zerosD dim) false * ev (fieldOps fn) ρ (invL 2 (varMat "Jac" dim 2 2)) r k
      = if m = k then 1 else 0 := by
  have hd := hdet
  rw [detJac2] at hd
  have hmat : varMat "Jac" dim 2 2 = [[varref "Jac" [0, 0] (zerosD dim) false, varref "Jac" [0, 1] (zerosD dim) false],
      [varref "Jac" [1, 0] (zerosD dim) false, varref "Jac" [1, 1] (zerosD dim) false]] := by
    simp [varMat, List.range_succ]
  rw [hmat]
  have hm' : m = 0 ∨ m = 1 := by omega
  have hk' : k = 0 ∨ k = 1 := by omega
  rcases hm' with rfl | rfl <;> rcases hk' with rfl | rfl <;>
    simp [invL, detL, reduceAdd, minorRows, pmOne, ev, evL, Ops.bin, fieldOps, broadcast, List.range_succ, Finset.sum_range_succ] <;>
    (generalize ρ.var "Jac" [0, 0] (zerosD dim) false = a at *
     generalize ρ.var "Jac" [0, 1] (zerosD dim) false = b at *
     generalize ρ.var "Jac" [1, 0] (zerosD dim) false = c at *
     generalize ρ.var "Jac" [1, 1] (zerosD dim) false = d at *
     have h2 : -(c * b) + a * d ≠ 0 := by
       intro h; apply hd; rw [← h]; ring
     first
     | ring1
     | (rw [← mul_inv_cancel₀ hd]; ring1))

/-- **normals**: the unscaled normal the code builds is orthogonal to the tangent vectors (columns of `BJac`) -/
theorem normal_curve_orthogonal (dim : Nat) (jn : String) :
    ∑ r ∈ range 2, ev (fieldOps fn) ρ (unscaledNormal dim jn 2 1) r 0 * ρ.var jn [r, 0] (zerosD dim) false = 0 := by
  simp [unscaledNormal, ev, evL, fieldOps, Finset.sum_range_succ]; ring

theorem normal_surface_orthogonal (dim : Nat) (jn : String) (c : Nat) (hc : c < 2) :
    ∑ r ∈ range 3, ev (fieldOps fn) ρ (unscaledNormal dim jn 3 2) r 0 * ρ.var jn [r, c] (zerosD dim) false = 0 := by
  have : c = 0 ∨ c = 1 := by omega
  rcases this with rfl | rfl <;>
    simp [unscaledNormal, ev, evL, fieldOps, Finset.sum_range_succ] <;> ring

/-- **surface measure**: `SW = GaussWeight · sqrt(|n|²)` with `n` the unscaled normal -/
theorem surfaceWeight_sound (dim : Nat) (jn : String) (rows cols : Nat) :
    𝓥[surfaceWeightDef dim jn rows cols]
      = ρ.var "GaussWeight" [] (zerosD dim) false * fn "sqrt" 𝓥[innerE (unscaledNormal dim jn rows cols) (unscaledNormal dim jn rows cols)] := by
  simp [surfaceWeightDef, normE, ev, Ops.bin, fieldOps]

end measures

end Pyiga.VForm
