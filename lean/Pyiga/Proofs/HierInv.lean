/-
L-hier: the chain invariant over all levels and its preservation by `HSpace.refine`
(abstract hierarchy).
-/
import Pyiga.Proofs.HierLaws

namespace Pyiga.Hier

/-! ### `refineCore` is a level-wise map -/

theorem getD_mapFrom {α β : Type} (h : Nat → α → β) :
    ∀ (l : List α) (lv i : Nat) (d : β) (d' : α), i < l.length →
      (mapFrom h lv l).getD i d = h (lv + i) (l.getD i d')
  | [], _, _, _, _, hi => by simp at hi
  | a :: rest, lv, 0, _, _, _ => by simp [mapFrom]
  | a :: rest, lv, i + 1, d, d', hi => by
    simp only [mapFrom, List.getD_cons_succ]
    rw [getD_mapFrom h rest (lv + 1) i d d' (by simpa using hi)]
    congr 1; omega

theorem mapFrom_self_lookup {α β : Type} (H : Nat → α → α → β) (d : α) :
    ∀ (l pre : List α),
      mapFrom (fun i b => H i b ((pre ++ l).getD i d)) pre.length l
        = mapFrom (fun i b => H i b b) pre.length l
  | [], _ => rfl
  | b :: rest, pre => by
    simp only [mapFrom]
    have ih := mapFrom_self_lookup H d rest (pre ++ [b])
    simp only [List.length_append, List.length_singleton, List.append_assoc, List.singleton_append] at ih
    rw [ih]
    congr 1
    simp [List.getD_eq_getElem?_getD, List.getElem?_append_right]

theorem hmeshF_id (M : Marks) (lv : Nat) (h : getM M lv = []) (x : Level) : hmeshF M lv x = x := by
  simp [hmeshF, h]

theorem hmeshG_zero (O : Ops) (M : Marks) (x : Level) : hmeshG O M 0 x = x := by
  simp [hmeshG, newCells]

theorem mfOf_empty (O : Ops) (M : Marks) (lv : Nat) (h : getM M lv = []) (x : Level) :
    mfOf O M lv x = [] := by
  simp [mfOf, h]

theorem actG_zero {O : Ops} {VC VF : Nat → Idx → Prop} {par : Idx → Idx} (L : Laws O VC VF par)
    (M : Marks) (x : Level) : actG O M 0 x = x := by
  simp [actG, newCells, L.supportedIn_nil, diff]

/-- `HSpace.refine` (after marking) acts level by level: level `lv` becomes `stepLevel … lv`,
provided the last level carries no marks (guaranteed by `_ensure_levels(max_lv + 2)`). -/
theorem refineCore_eq {O : Ops} {VC VF : Nat → Idx → Prop} {par : Idx → Idx} (L : Laws O VC VF par)
    (M : Marks) (levels : List Level) (hlast : getM M (levels.length - 1) = []) :
    refineCore O M levels = mapFrom (stepLevel O M) 0 levels := by
  cases levels with
  | nil => simp [refineCore, hmeshRefine, sweep, mapFrom]
  | cons a rest =>
    have hK : getM M (0 + rest.length) = [] := by simpa using hlast
    -- pass 1
    have h1 : hmeshRefine O M (a :: rest)
        = mapFrom (fun i b => hmeshF M i (hmeshG O M i b)) 0 (a :: rest) := by
      unfold hmeshRefine
      rw [sweep_eq_mapFrom (hmeshF M) (hmeshG O M) rest 0 a (fun x => hmeshF_id M _ hK x)]
      simp [mapFrom, hmeshG_zero]
    unfold refineCore
    simp only [h1]
    -- pass 3 on the list produced by pass 1
    generalize hl1 : mapFrom (fun i b => hmeshF M i (hmeshG O M i b)) 0 (a :: rest) = l1
    have hlen : l1.length = rest.length + 1 := by rw [← hl1, mapFrom_length]; simp
    cases l1 with
    | nil => simp at hlen
    | cons a1 rest1 =>
      have hlen' : rest1.length = rest.length := by simpa using hlen
      rw [sweep_eq_mapFrom _ (actG O M) rest1 0 a1
        (by intro x
            have hm := mfOf_empty O M (0 + rest1.length) (by rw [hlen']; exact hK)
              ((a1 :: rest1).getD (0 + rest1.length) emptyLevel)
            simp only [actF, hm, diff_nil, union_nil])]
      have : actF (fun lv => mfOf O M lv ((a1 :: rest1).getD lv emptyLevel)) 0 a1
          = actF (fun lv => mfOf O M lv ((a1 :: rest1).getD lv emptyLevel)) 0 (actG O M 0 a1) := by
        rw [actG_zero L]
      rw [this]
      have e : (actF (fun lv => mfOf O M lv ((a1 :: rest1).getD lv emptyLevel)) 0 (actG O M 0 a1) ::
            mapFrom (fun i b => actF (fun lv => mfOf O M lv ((a1 :: rest1).getD lv emptyLevel)) i (actG O M i b)) (0 + 1) rest1)
          = mapFrom (fun i b => actF (fun _ => mfOf O M i (([] ++ (a1 :: rest1)).getD i emptyLevel)) i (actG O M i b))
              ([] : List Level).length (a1 :: rest1) := by
        simp only [mapFrom, List.length_nil, List.nil_append]
        rfl
      rw [e, mapFrom_self_lookup (fun i b x => actF (fun _ => mfOf O M i x) i (actG O M i b)) emptyLevel
        (a1 :: rest1) [], ← hl1]
      simp only [List.length_nil]
      rw [mapFrom_mapFrom]
      rfl

/-! ### the invariant over the whole level list -/

/-- `Inv lv Ω levels`: `levels` are levels `lv, lv+1, …` of a well-formed hierarchical space whose
level-`lv` refinement region is `Ω`: every level is `LevelOK` w.r.t. `Ω^{k+1} = children(deactivated[k])`
and nothing is deactivated on the last level. -/
def Inv (O : Ops) (VC VF : Nat → Idx → Prop) (par : Idx → Idx) : Nat → (Idx → Prop) → List Level → Prop
  | _, _, [] => False
  | lv, Ω, [l] => LevelOK O VF lv Ω l ∧ l.deact = []
  | lv, Ω, l :: l2 :: rest =>
      LevelOK O VF lv Ω l ∧ Inv O VC VF par (lv + 1) (fun c => VC (lv + 1) c ∧ par c ∈ l.deact) (l2 :: rest)

/-- marked cells are currently active (levels `lv, lv+1, …`) -/
def MarksIn (M : Marks) : Nat → List Level → Prop
  | _, [] => True
  | lv, l :: rest => (∀ c ∈ getM M lv, c ∈ l.act) ∧ MarksIn M (lv + 1) rest

section inv
variable {O : Ops} {VC VF : Nat → Idx → Prop} {par : Idx → Idx}

theorem Inv.congr : ∀ {levels : List Level} {lv : Nat} {Ω Ω' : Idx → Prop},
    Inv O VC VF par lv Ω levels → (∀ c, Ω c ↔ Ω' c) → Inv O VC VF par lv Ω' levels
  | [], _, _, _, h, _ => h
  | [_], _, _, _, h, e => ⟨h.1.congr e, h.2⟩
  | _ :: _ :: _, _, _, _, h, e => ⟨h.1.congr e, h.2⟩

theorem Inv.head : ∀ {levels : List Level} {lv : Nat} {Ω : Idx → Prop} {l : Level},
    Inv O VC VF par lv Ω (l :: levels) → LevelOK O VF lv Ω l
  | [], _, _, _, h => h.1
  | _ :: _, _, _, _, h => h.1

theorem inv_step (L : Laws O VC VF par) (M : Marks) :
    ∀ (levels : List Level) (lv : Nat) (Ω : Idx → Prop),
      (∀ c, Ω c → VC lv c) → Inv O VC VF par lv Ω levels → MarksIn M lv levels →
      getM M (lv + levels.length - 1) = [] →
      (∀ c ∈ newCells O M lv, VC lv c) → (∀ c ∈ newCells O M lv, ¬ Ω c) →
      Inv O VC VF par lv (fun c => Ω c ∨ c ∈ newCells O M lv) (mapFrom (stepLevel O M) lv levels)
  | [], _, _, _, h, _, _, _, _ => h.elim
  | [l], lv, Ω, hΩ, h, hM, hlast, hncv, hncd => by
    have hlast' : getM M lv = [] := by simpa using hlast
    refine ⟨levelOK_step L M lv Ω l h.1 hΩ hM.1 hncv hncd, ?_⟩
    rw [step_deact_eq, h.2, hlast']
    rfl
  | l :: l2 :: rest, lv, Ω, hΩ, h, hM, hlast, hncv, hncd => by
    have hl := levelOK_step L M lv Ω l h.1 hΩ hM.1 hncv hncd
    have hmv : ∀ c ∈ dedup (getM M lv), VC lv c := fun c hc =>
      hΩ c ((h.1.cover c).1 (Or.inl (hM.1 c (mem_dedup.1 hc))))
    have hch : ∀ c, c ∈ newCells O M (lv + 1) ↔ VC (lv + 1) c ∧ par c ∈ getM M lv := by
      intro c
      show c ∈ O.children lv (dedup (getM M lv)) ↔ _
      rw [L.mem_children lv _ c hmv, mem_dedup]
    have ih := inv_step L M (l2 :: rest) (lv + 1) (fun c => VC (lv + 1) c ∧ par c ∈ l.deact)
      (fun c hc => hc.1) h.2 hM.2
      (by simp only [List.length_cons] at hlast ⊢
          rw [show lv + 1 + (rest.length + 1) - 1 = lv + (rest.length + 1 + 1) - 1 by omega]
          exact hlast)
      (fun c hc => ((hch c).1 hc).1)
      (fun c hc hΩ2 => h.1.disj _ (hM.1 _ ((hch c).1 hc).2) hΩ2.2)
    refine ⟨hl, ?_⟩
    refine Inv.congr ih ?_
    intro c
    rw [hch c, mem_step_deact]
    constructor
    · rintro (⟨h1, h2⟩ | ⟨h1, h2⟩)
      · exact ⟨h1, Or.inl h2⟩
      · exact ⟨h1, Or.inr h2⟩
    · rintro ⟨h1, h2 | h2⟩
      · exact Or.inl ⟨h1, h2⟩
      · exact Or.inr ⟨h1, h2⟩

/-! ### `_ensure_levels` -/

theorem levelOK_empty (L : Laws O VC VF par) (lv : Nat) (Ω : Idx → Prop) (hΩ : ∀ c, ¬ Ω c) :
    LevelOK O VF lv Ω emptyLevel := by
  refine ⟨fun c => ⟨fun h => by simp [emptyLevel] at h, fun h => (hΩ c h).elim⟩,
    fun c h => by simp [emptyLevel] at h, ?_, ?_, List.nodup_nil, List.nodup_nil, List.nodup_nil, List.nodup_nil⟩
  · intro f
    simp only [emptyLevel, List.not_mem_nil, false_iff, or_self]
    rintro ⟨hv, h1, _⟩
    obtain ⟨c, hc⟩ := L.support_nonempty lv f hv
    exact h1 c hc
  · intro f
    simp only [emptyLevel, List.not_mem_nil, false_iff]
    rintro ⟨hv, h1⟩
    obtain ⟨c, hc⟩ := L.support_nonempty lv f hv
    exact h1 c hc

theorem inv_append_empty (L : Laws O VC VF par) :
    ∀ (levels : List Level) (lv : Nat) (Ω : Idx → Prop) (n : Nat),
      Inv O VC VF par lv Ω levels → Inv O VC VF par lv Ω (levels ++ List.replicate n emptyLevel)
  | [], _, _, _, h => h.elim
  | [l], lv, Ω, 0, h => by simpa using h
  | [l], lv, Ω, n + 1, h => by
    have ih := inv_append_empty L [emptyLevel] (lv + 1) (fun c => VC (lv + 1) c ∧ par c ∈ l.deact) n
      ⟨levelOK_empty L _ _ (by intro c hc; rw [h.2] at hc; simp at hc), rfl⟩
    exact ⟨h.1, ih⟩
  | l :: l2 :: rest, lv, Ω, n, h =>
    ⟨h.1, inv_append_empty L (l2 :: rest) (lv + 1) _ n h.2⟩

theorem inv_ensureLevels (L : Laws O VC VF par) (levels : List Level) (lv : Nat) (Ω : Idx → Prop) (K : Nat)
    (h : Inv O VC VF par lv Ω levels) : Inv O VC VF par lv Ω (ensureLevels K levels) :=
  inv_append_empty L levels lv Ω _ h

theorem marksIn_of_forall (M : Marks) : ∀ (levels : List Level) (lv : Nat),
    (∀ i c, c ∈ getM M (lv + i) → c ∈ (levels.getD i emptyLevel).act) → MarksIn M lv levels
  | [], _, _ => trivial
  | l :: rest, lv, h => by
    refine ⟨fun c hc => by simpa using h 0 c (by simpa using hc), ?_⟩
    refine marksIn_of_forall M rest (lv + 1) (fun i c hc => ?_)
    have := h (i + 1) c (by rwa [show lv + (i + 1) = lv + 1 + i by omega])
    simpa using this

end inv

end Pyiga.Hier
